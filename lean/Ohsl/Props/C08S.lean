/-
  Property C08 (part S) — the STORAGE GUARD of `Sp.solveIter` is justified.

  `Sp.solveIter` (Ohsl/Model/KrylovSp.lean) tests `Sp.multiply s x0` once, propagates its error (the
  Rust code panics inside `multiply` on inconsistent public storage arrays), and then iterates with
  the TOTAL products of `Sp.arrOps` (`A v := match Sp.multiply s v with | .ok r => r | .error _ => #[]`,
  likewise `At` with `Sp.transposeMultiply`).  The comment there claims that whether a product of `s`
  with a vector of the right length panics depends on `s` alone, so that the one test stands for every
  product of the run.  This file proves that claim.  Class (S): any scalar type, arbitrary operations
  (hence also `Float`); no algebraic law, no well-formedness of the storage.

  The index check.  `Sp.storageCheck s : Res Unit` (Ohsl/Lemmas/C08S.lean) runs the loops of the two
  products with every value removed; it is a function of `rows, cols, col_start, row_index, len(val)`
  only (`Sp.indexCheck`).  Both products have its outcome:
    `multiply_storageCheck`           `x.size = s.cols → (multiply s x).map (fun _ => ()) = storageCheck s`
    `transposeMultiply_storageCheck`  `y.size = s.rows → (transposeMultiply s y).map … = storageCheck s`
  (1) `multiply_outcome_storage`: for `x, x'` of size `s.cols`, `multiply s x` succeeds iff
      `multiply s x'` does, and `multiply s x = .error e ↔ multiply s x' = .error e`;
      `multiply_outcome_index`: the same ACROSS scalar types and storages with the same index
      structure (`SameIndex`: rows, cols, col_start, row_index, len(val));
      `multiply_error_class`: with the right length the only error class is `range`;
      `multiply_ok_size`: a successful product has `rows` entries.
  (2) `transposeMultiply_outcome_storage`, `transposeMultiply_outcome_index`,
      `transposeMultiply_error_class`, `transposeMultiply_ok_size`: the same for `transpose_multiply`
      (`y.size = s.rows`, result of `cols` entries);
      `mul_tmul_outcome`: `multiply s x` (`x.size = s.cols`) succeeds iff `transposeMultiply s y`
      (`y.size = s.rows`) succeeds, and they fail with the SAME class (`range` — the error classes
      coincide: every failing access is a slice index out of bounds; what may differ is only WHICH
      access fails first, e.g. `val[k]` before `row_index[k]` in `transpose_multiply`).  Squareness is
      not needed; `mul_tmul_outcome_square` is the case of the solvers (one vector for both products).
  (3) `solveIter_products_total`: under the guards and `Multipliable s x0` (C08K), for EVERY `v` of
      size `s.rows` both `Sp.multiply s v` and `Sp.transposeMultiply s v` succeed, with results of
      size `s.rows`, and the total products of `Sp.arrOps` are the checked ones.
      One step further — no product error is hidden in ANY of the four methods:
      `SqMul s n` (square of order `n`, index check passed; implied by the guards + `Multipliable`:
      `SqMul.of_guards`, and by `SqWF`: `SqMul.of_sqwf`), `subOpsM` (the operations of `arrOps`
      restricted to the arrays of size `n`; C08G's `subOpsS` without well-formedness), `valHomM`,
      `subOpsM_A_checked` / `subOpsM_At_checked` (in `subOpsM` each product IS the value of the
      successful checked product), and
      `solveIter_run_checked`: the result of `solveIter` is the image under the inclusion
      `SqArr K n ⊆ Array K` of the run over the size-`n` arrays with the operations `subOpsM` — for
      `solve_cg`, `solve_bicg`, `solve_bicgstab` and `solve_qmr` alike (`cg_hom`, `bicg_hom`,
      `stab_hom`, `qmr_hom` of C08C).  Since the solver model is polymorphic in the vector type and
      reaches the matrix only through `o.A`, `o.At`, every product that run forms has an argument of
      size `n` BY TYPE, hence succeeds: the fallback `#[]` of `arrOps` is never taken.
      `solveIter_out_size`: the returned array has `s.rows` entries.
  Examples: the storage `⟨2,2,1,#[1],#[5],#[0,1,1]⟩` (row index 5 in a 2-row matrix) on which both
  products fail for every vector; a well-formed one on which both succeed for every vector; a
  storage that is NOT well-formed (`col_start = [1,0,0]`) on which they succeed as well.
-/
import Ohsl.Props.C08G
import Ohsl.Lemmas.C08S
set_option linter.unusedSectionVars false
set_option linter.unusedVariables false
set_option linter.unusedSimpArgs false
namespace Ohsl.Props.C08
open Ohsl Ohsl.Krylov Ohsl.Sp

/-! ### (1), (2) the outcome of a product is a function of the index structure -/
section Outcome
variable {K K' : Type} [Add K] [Mul K] [Zero K] [Add K'] [Mul K'] [Zero K']

/-- `multiply` with an argument of the right length: forget the value, and what is left is the
    index check of the storage -/
theorem multiply_storageCheck (s : Sp K) (x : Array K) (hx : x.size = s.cols) :
    (Sp.multiply s x).map (fun _ => ()) = Sp.storageCheck s :=
  (Sp.multiply_sim s x hx).map_unit

/-- `transpose_multiply` with an argument of the right length: the SAME index check -/
theorem transposeMultiply_storageCheck (s : Sp K) (y : Array K) (hy : y.size = s.rows) :
    (Sp.transposeMultiply s y).map (fun _ => ()) = Sp.storageCheck s :=
  (Sp.transposeMultiply_sim s y hy).map_unit

/-- two storages (possibly over different scalar types) with the same index structure -/
def SameIndex (s : Sp K) (s' : Sp K') : Prop :=
  s'.rows = s.rows ∧ s'.cols = s.cols ∧ s'.colStart = s.colStart ∧ s'.rowIndex = s.rowIndex ∧
    s'.val.size = s.val.size

theorem SameIndex.refl (s : Sp K) : SameIndex s s := ⟨rfl, rfl, rfl, rfl, rfl⟩

theorem storageCheck_congr {s : Sp K} {s' : Sp K'} (h : SameIndex s s') :
    Sp.storageCheck s' = Sp.storageCheck s := by
  obtain ⟨h1, h2, h3, h4, h5⟩ := h
  unfold Sp.storageCheck
  rw [h1, h2, h3, h4, h5]

/-- the products succeed exactly when the index check does, and fail as it fails -/
theorem multiply_ok_iff_check (s : Sp K) (x : Array K) (hx : x.size = s.cols) :
    (∃ r, Sp.multiply s x = .ok r) ↔ Sp.storageCheck s = .ok () := by
  rw [(Sp.multiply_sim s x hx).ok_iff]
  exact ⟨fun ⟨u, h⟩ => h, fun h => ⟨(), h⟩⟩

theorem multiply_error_iff_check (s : Sp K) (x : Array K) (hx : x.size = s.cols) (e : Err) :
    Sp.multiply s x = .error e ↔ Sp.storageCheck s = .error e :=
  (Sp.multiply_sim s x hx).error_iff e

theorem transposeMultiply_ok_iff_check (s : Sp K) (y : Array K) (hy : y.size = s.rows) :
    (∃ r, Sp.transposeMultiply s y = .ok r) ↔ Sp.storageCheck s = .ok () := by
  rw [(Sp.transposeMultiply_sim s y hy).ok_iff]
  exact ⟨fun ⟨u, h⟩ => h, fun h => ⟨(), h⟩⟩

theorem transposeMultiply_error_iff_check (s : Sp K) (y : Array K) (hy : y.size = s.rows) (e : Err) :
    Sp.transposeMultiply s y = .error e ↔ Sp.storageCheck s = .error e :=
  (Sp.transposeMultiply_sim s y hy).error_iff e

/-- **the outcome of `multiply` depends on the index structure alone** — across scalar types: for
    storages with the same `rows, cols, col_start, row_index, len(val)` and arguments of the right
    length, one product succeeds iff the other does, and they fail with the same class -/
theorem multiply_outcome_index (s : Sp K) (s' : Sp K') (h : SameIndex s s') (x : Array K)
    (x' : Array K') (hx : x.size = s.cols) (hx' : x'.size = s'.cols) :
    ((∃ r, Sp.multiply s x = .ok r) ↔ (∃ r', Sp.multiply s' x' = .ok r')) ∧
    ∀ e, Sp.multiply s x = .error e ↔ Sp.multiply s' x' = .error e := by
  refine ⟨?_, fun e => ?_⟩
  · rw [multiply_ok_iff_check s x hx, multiply_ok_iff_check s' x' hx', storageCheck_congr h]
  · rw [multiply_error_iff_check s x hx, multiply_error_iff_check s' x' hx', storageCheck_congr h]

/-- **(1)** for two vectors of the right length, `multiply s x` succeeds iff `multiply s x'` does,
    and they fail with the same class: whether the product panics depends on `s` alone -/
theorem multiply_outcome_storage (s : Sp K) (x x' : Array K) (hx : x.size = s.cols)
    (hx' : x'.size = s.cols) :
    ((∃ r, Sp.multiply s x = .ok r) ↔ (∃ r', Sp.multiply s x' = .ok r')) ∧
    ∀ e, Sp.multiply s x = .error e ↔ Sp.multiply s x' = .error e :=
  multiply_outcome_index s s (SameIndex.refl s) x x' hx hx'

/-- with an argument of the right length the only panic class of `multiply` is `range` -/
theorem multiply_error_class (s : Sp K) (x : Array K) (hx : x.size = s.cols) (e : Err)
    (h : Sp.multiply s x = .error e) : e = .range :=
  Sp.storageCheck_error s e ((multiply_error_iff_check s x hx e).1 h)

/-- a successful `multiply` returns `rows` entries (whatever the storage) -/
theorem multiply_ok_size (s : Sp K) (x r : Array K) (h : Sp.multiply s x = .ok r) :
    r.size = s.rows := by
  by_cases hx : x.size = s.cols
  · cases hc : Sp.storageCheck s with
    | error e =>
      rw [← multiply_error_iff_check s x hx e, h] at hc
      cases hc
    | ok u => exact (Sp.multiply_sim s x hx).ok_rel h hc
  · have : s.cols ≠ x.size := fun h => hx h.symm
    simp [Sp.multiply, this] at h

/-- **(2)** the same for `transpose_multiply`, across scalar types -/
theorem transposeMultiply_outcome_index (s : Sp K) (s' : Sp K') (h : SameIndex s s') (y : Array K)
    (y' : Array K') (hy : y.size = s.rows) (hy' : y'.size = s'.rows) :
    ((∃ r, Sp.transposeMultiply s y = .ok r) ↔ (∃ r', Sp.transposeMultiply s' y' = .ok r')) ∧
    ∀ e, Sp.transposeMultiply s y = .error e ↔ Sp.transposeMultiply s' y' = .error e := by
  refine ⟨?_, fun e => ?_⟩
  · rw [transposeMultiply_ok_iff_check s y hy, transposeMultiply_ok_iff_check s' y' hy',
      storageCheck_congr h]
  · rw [transposeMultiply_error_iff_check s y hy, transposeMultiply_error_iff_check s' y' hy',
      storageCheck_congr h]

/-- **(2)** whether `transpose_multiply` panics on a vector of the right length depends on `s`
    alone -/
theorem transposeMultiply_outcome_storage (s : Sp K) (y y' : Array K) (hy : y.size = s.rows)
    (hy' : y'.size = s.rows) :
    ((∃ r, Sp.transposeMultiply s y = .ok r) ↔ (∃ r', Sp.transposeMultiply s y' = .ok r')) ∧
    ∀ e, Sp.transposeMultiply s y = .error e ↔ Sp.transposeMultiply s y' = .error e :=
  transposeMultiply_outcome_index s s (SameIndex.refl s) y y' hy hy'

theorem transposeMultiply_error_class (s : Sp K) (y : Array K) (hy : y.size = s.rows) (e : Err)
    (h : Sp.transposeMultiply s y = .error e) : e = .range :=
  Sp.storageCheck_error s e ((transposeMultiply_error_iff_check s y hy e).1 h)

/-- a successful `transpose_multiply` returns `cols` entries (whatever the storage) -/
theorem transposeMultiply_ok_size (s : Sp K) (y r : Array K)
    (h : Sp.transposeMultiply s y = .ok r) : r.size = s.cols := by
  by_cases hy : y.size = s.rows
  · cases hc : Sp.storageCheck s with
    | error e =>
      rw [← transposeMultiply_error_iff_check s y hy e, h] at hc
      cases hc
    | ok u => exact (Sp.transposeMultiply_sim s y hy).ok_rel h hc
  · have : s.rows ≠ y.size := fun h => hy h.symm
    simp [Sp.transposeMultiply, this] at h

/-- **(2)** `multiply` and `transpose_multiply` (arguments of the right lengths) succeed together
    and fail together, with the SAME error class.  (They perform the same reads `col_start[j]`,
    `col_start[j+1]`, `row_index[k]`, `val[k]` and the same row bound `row_index[k] < rows`; the order
    of `row_index[k]` and `val[k]` differs, but every failure is a slice index out of bounds, class
    `range`: `multiply_error_class`.)  No squareness needed. -/
theorem mul_tmul_outcome (s : Sp K) (x y : Array K) (hx : x.size = s.cols) (hy : y.size = s.rows) :
    ((∃ r, Sp.multiply s x = .ok r) ↔ (∃ r', Sp.transposeMultiply s y = .ok r')) ∧
    ∀ e, Sp.multiply s x = .error e ↔ Sp.transposeMultiply s y = .error e := by
  refine ⟨?_, fun e => ?_⟩
  · rw [multiply_ok_iff_check s x hx, transposeMultiply_ok_iff_check s y hy]
  · rw [multiply_error_iff_check s x hx, transposeMultiply_error_iff_check s y hy]

/-- the square case the solvers are in: one vector `v` of size `rows = cols` for both products -/
theorem mul_tmul_outcome_square (s : Sp K) (h : s.rows = s.cols) (v w : Array K)
    (hv : v.size = s.rows) (hw : w.size = s.rows) :
    ((∃ r, Sp.multiply s v = .ok r) ↔ (∃ r', Sp.transposeMultiply s w = .ok r')) ∧
    ∀ e, Sp.multiply s v = .error e ↔ Sp.transposeMultiply s w = .error e :=
  mul_tmul_outcome s v w (hv.trans h) hw

/-- C08K's `Multipliable s x0` (the first product of every method succeeds) says nothing about
    `x0` beyond its length: it is the index check of `s` -/
theorem multipliable_iff_check (s : Sp K) (x0 : Array K) (hx : x0.size = s.cols) :
    Multipliable s x0 ↔ Sp.storageCheck s = .ok () :=
  multiply_ok_iff_check s x0 hx

end Outcome

/-! ### (3) every product of a run succeeds -/
section Total
variable {K : Type} [Add K] [Sub K] [Mul K] [Div K] [Zero K]

/-- `s` is square of order `n` and passes the index check: all that the guards of `solveIter` and
    its one test product establish (`SqMul.of_guards`).  Weaker than C08C's `SqWF` (`SqMul.of_sqwf`):
    nothing is said about `col_start` being monotone, about `nonzero`, or about unused slots. -/
structure SqMul (s : Sp K) (n : Nat) : Prop where
  rows : s.rows = n
  cols : s.cols = n
  check : Sp.storageCheck s = .ok ()

theorem SqMul.of_guards {s : Sp K} {m : Method} {b x0 : Array K} (g : Guards s m b x0)
    (hm : Multipliable s x0) : SqMul s s.rows := by
  obtain ⟨h1, h2, h3, _⟩ := g
  exact ⟨rfl, h2.symm, (multipliable_iff_check s x0 (by omega)).1 hm⟩

/-- a well-formed square storage passes the index check -/
theorem SqMul.of_sqwf {s : Sp K} {n : Nat} (h : SqWF s n) : SqMul s n := by
  refine ⟨h.rows, h.cols, ?_⟩
  obtain ⟨y, hy, _⟩ := C07.multiply_fold h.wf (Array.replicate s.cols (0 : K)) (by simp)
  exact (multiply_ok_iff_check s _ (by simp)).1 ⟨y, hy⟩

/-- on such a storage EVERY product with a vector of size `n` succeeds, and returns `n` entries -/
theorem SqMul.multiply_ok {s : Sp K} {n : Nat} (h : SqMul s n) (v : Array K) (hv : v.size = n) :
    ∃ r, Sp.multiply s v = .ok r ∧ r.size = n := by
  obtain ⟨r, hr⟩ := (multiply_ok_iff_check s v (hv.trans h.cols.symm)).2 h.check
  exact ⟨r, hr, (multiply_ok_size s v r hr).trans h.rows⟩

theorem SqMul.transposeMultiply_ok {s : Sp K} {n : Nat} (h : SqMul s n) (v : Array K)
    (hv : v.size = n) : ∃ r, Sp.transposeMultiply s v = .ok r ∧ r.size = n := by
  obtain ⟨r, hr⟩ := (transposeMultiply_ok_iff_check s v (hv.trans h.rows.symm)).2 h.check
  exact ⟨r, hr, (transposeMultiply_ok_size s v r hr).trans h.cols⟩

/-- the total product of `arrOps` is the checked one, and keeps the size (C08G's `arrA_size`
    without well-formedness) -/
theorem SqMul.arrA {s : Sp K} {n : Nat} (h : SqMul s n) (norm2 : Array K → K) (v : Array K)
    (hv : v.size = n) :
    Sp.multiply s v = .ok ((arrOps s n norm2).A v) ∧ ((arrOps s n norm2).A v).size = n := by
  obtain ⟨r, h1, h2⟩ := h.multiply_ok v hv
  have e : (arrOps s n norm2).A v = r := by
    show (match Sp.multiply s v with | .ok r => r | .error _ => #[]) = r
    rw [h1]
  rw [e]
  exact ⟨h1, h2⟩

theorem SqMul.arrAt {s : Sp K} {n : Nat} (h : SqMul s n) (norm2 : Array K → K) (v : Array K)
    (hv : v.size = n) :
    Sp.transposeMultiply s v = .ok ((arrOps s n norm2).At v) ∧
      ((arrOps s n norm2).At v).size = n := by
  obtain ⟨r, h1, h2⟩ := h.transposeMultiply_ok v hv
  have e : (arrOps s n norm2).At v = r := by
    show (match Sp.transposeMultiply s v with | .ok r => r | .error _ => #[]) = r
    rw [h1]
  rw [e]
  exact ⟨h1, h2⟩

/-- **(3)** under the guards of `solveIter` and `Multipliable s x0`, every product the run can form
    — `multiply` and `transpose_multiply` of `s` with ANY vector `v` of size `s.rows` — succeeds, the
    result has size `s.rows` again, and the total products of `Sp.arrOps` coincide with the checked
    ones: the one test of `solveIter` stands for every product of the run -/
theorem solveIter_products_total (s : Sp K) (m : Method) (b x0 : Array K) (norm2 : Array K → K)
    (g : Guards s m b x0) (hm : Multipliable s x0) (v : Array K) (hv : v.size = s.rows) :
    (∃ r, Sp.multiply s v = .ok r ∧ r.size = s.rows ∧ (Sp.arrOps s s.rows norm2).A v = r) ∧
    (∃ r, Sp.transposeMultiply s v = .ok r ∧ r.size = s.rows ∧
      (Sp.arrOps s s.rows norm2).At v = r) := by
  have h := SqMul.of_guards g hm
  exact ⟨⟨_, (h.arrA norm2 v hv).1, (h.arrA norm2 v hv).2, rfl⟩,
    ⟨_, (h.arrAt norm2 v hv).1, (h.arrAt norm2 v hv).2, rfl⟩⟩

/-- the operations of `arrOps` restricted to the arrays of size `n` — C08G's `subOpsS` for a
    storage that merely passes the index check -/
def subOpsM {s : Sp K} {n : Nat} (h : SqMul s n) (norm2 : Array K → K) : VOps K (SqArr K n) where
  add a b := ⟨(arrOps s n norm2).add a.1 b.1, by simp [arrOps, a.2, b.2]⟩
  sub a b := ⟨(arrOps s n norm2).sub a.1 b.1, by simp [arrOps, a.2, b.2]⟩
  smul v k := ⟨(arrOps s n norm2).smul v.1 k, by simp [arrOps, v.2]⟩
  lsmul k v := ⟨(arrOps s n norm2).lsmul k v.1, by simp [arrOps, v.2]⟩
  sdiv v k := ⟨(arrOps s n norm2).sdiv v.1 k, by simp [arrOps, v.2]⟩
  dot a b := (arrOps s n norm2).dot a.1 b.1
  norm2 a := norm2 a.1
  zero := ⟨(arrOps s n norm2).zero, by simp [arrOps]⟩
  A v := ⟨(arrOps s n norm2).A v.1, (h.arrA norm2 v.1 v.2).2⟩
  At v := ⟨(arrOps s n norm2).At v.1, (h.arrAt norm2 v.1 v.2).2⟩

/-- the inclusion of the size-`n` arrays into all arrays is a homomorphism -/
theorem valHomM {s : Sp K} {n : Nat} (h : SqMul s n) (norm2 : Array K → K) :
    VHom (subOpsM h norm2) (arrOps s n norm2) Subtype.val :=
  ⟨fun _ _ => rfl, fun _ _ => rfl, fun _ _ => rfl, fun _ _ => rfl, fun _ _ => rfl, fun _ _ => rfl,
    fun _ => rfl, rfl, fun _ => rfl, fun _ => rfl⟩

/-- in `subOpsM` every product IS the value of the successful checked product: no error is hidden -/
theorem subOpsM_A_checked {s : Sp K} {n : Nat} (h : SqMul s n) (norm2 : Array K → K)
    (v : SqArr K n) : Sp.multiply s v.1 = .ok ((subOpsM h norm2).A v).1 :=
  (h.arrA norm2 v.1 v.2).1

theorem subOpsM_At_checked {s : Sp K} {n : Nat} (h : SqMul s n) (norm2 : Array K → K)
    (v : SqArr K n) : Sp.transposeMultiply s v.1 = .ok ((subOpsM h norm2).At v).1 :=
  (h.arrAt norm2 v.1 v.2).1

end Total

section Run
variable {K : Type}
variable [Add K] [Sub K] [Mul K] [Neg K] [Div K] [Zero K] [One K] [BEq K] [ScalarExt K] [Transc K]

/-- the iteration of method `m` over an arbitrary vector type (C08K's `runMethod` is the instance
    `V = Array K`: `runOn_array`) -/
def runOn {V : Type} (o : VOps K V) (m : Method) (b x0 : V) (maxIter : Nat) (tol : K) : KOut K V :=
  match m with
  | .cg => solveCG o b x0 maxIter tol
  | .bicg itol => solveBiCG o b x0 maxIter tol itol
  | .bicgstab => solveBiCGSTAB o b x0 maxIter tol
  | .qmr => solveQMR o b x0 maxIter tol

theorem runOn_array (o : VOps K (Array K)) (m : Method) (b x0 : Array K) (maxIter : Nat) (tol : K) :
    runOn o m b x0 maxIter tol = runMethod o m b x0 maxIter tol := by
  cases m <;> rfl

/-- all four methods commute with homomorphisms of operation records -/
theorem runOn_hom {V W : Type} {o₁ : VOps K V} {o₂ : VOps K W} {φ : V → W} (H : VHom o₁ o₂ φ)
    (m : Method) (b x : V) (maxIter : Nat) (tol : K) :
    runOn o₂ m (φ b) (φ x) maxIter tol = mapOut φ (runOn o₁ m b x maxIter tol) := by
  cases m with
  | cg => exact cg_hom H b x maxIter tol
  | bicg itol => exact bicg_hom H b x maxIter tol itol
  | bicgstab => exact stab_hom H b x maxIter tol
  | qmr => exact qmr_hom H b x maxIter tol

/-- **the model's run never hides a product error** (all four methods).  When the guards pass and
    the test product `A x0` succeeds, the value of `solveIter` — computed with the TOTAL products of
    `Sp.arrOps` on arbitrary arrays — is the image of the run over the arrays of size `n = s.rows`
    with the operations `subOpsM`, in which every product is applied to a vector of size `n` (by
    type) and is the value of the successful checked product (`subOpsM_A_checked`,
    `subOpsM_At_checked`).  So every vector of the run has size `n`, every product of the run
    succeeds, and the fallback `#[]` of `arrOps` is never taken. -/
theorem solveIter_run_checked (s : Sp K) (m : Method) (b x0 : Array K) (maxIter : Nat) (tol : K)
    (norm2 : Array K → K) (g : Guards s m b x0) (hm : Multipliable s x0) :
    solveIter s m b x0 maxIter tol norm2 =
      .ok (mapOut Subtype.val (runOn (subOpsM (SqMul.of_guards g hm) norm2) m
        (⟨b, g.1.symm⟩ : SqArr K s.rows) (⟨x0, g.2.2.1.symm.trans g.1.symm⟩ : SqArr K s.rows)
        maxIter tol)) := by
  rw [solveIter_ok s m b x0 maxIter tol norm2 g hm, ← runOn_array]
  congr 1
  exact runOn_hom (valHomM (SqMul.of_guards g hm) norm2) m
    (⟨b, g.1.symm⟩ : SqArr K s.rows) (⟨x0, g.2.2.1.symm.trans g.1.symm⟩ : SqArr K s.rows) maxIter tol

/-- whatever a method returns has `s.rows` entries -/
theorem solveIter_out_size (s : Sp K) (m : Method) (b x0 : Array K) (maxIter : Nat) (tol : K)
    (norm2 : Array K → K) (out : KOut K (Array K))
    (h : solveIter s m b x0 maxIter tol norm2 = .ok out) : out.x.size = s.rows := by
  obtain ⟨g, hm⟩ := (solveIter_ok_iff s m b x0 maxIter tol norm2).1 ⟨out, h⟩
  rw [solveIter_run_checked s m b x0 maxIter tol norm2 g hm] at h
  cases h
  exact (runOn (subOpsM (SqMul.of_guards g hm) norm2) m
    (⟨b, g.1.symm⟩ : SqArr K s.rows) (⟨x0, g.2.2.1.symm.trans g.1.symm⟩ : SqArr K s.rows)
    maxIter tol).x.2

end Run

/-! ### examples -/
section Examples

/-- row index 5 in a matrix with 2 rows (public fields, `from_vecs` validates nothing) -/
def badSp : Sp Int := ⟨2, 2, 1, #[1], #[5], #[0, 1, 1]⟩

/-- the SPD matrix `[[2,1],[1,2]]`, well formed -/
def goodSp : Sp Int := ⟨2, 2, 4, #[2, 1, 1, 2], #[0, 1, 0, 1], #[0, 2, 4]⟩

/-- `col_start` does not start at 0 and is not monotone (not a well-formed storage: both column
    ranges `1..0`, `0..0` are empty), yet no read is out of bounds -/
def oddSp : Sp Int := ⟨2, 2, 0, #[], #[], #[1, 0, 0]⟩

/-- on the inconsistent storage both products fail — class `range` — for EVERY vector of size 2 -/
example (v : Array Int) (hv : v.size = 2) :
    Sp.multiply badSp v = .error .range ∧ Sp.transposeMultiply badSp v = .error .range :=
  ⟨(multiply_error_iff_check badSp v hv .range).2 rfl,
    (transposeMultiply_error_iff_check badSp v hv .range).2 rfl⟩

/-- on the well-formed storage both succeed for every vector of size 2 -/
example (v : Array Int) (hv : v.size = 2) :
    (∃ r, Sp.multiply goodSp v = .ok r) ∧ (∃ r, Sp.transposeMultiply goodSp v = .ok r) :=
  ⟨(multiply_ok_iff_check goodSp v hv).2 rfl, (transposeMultiply_ok_iff_check goodSp v hv).2 rfl⟩

/-- `SqMul` is satisfiable, also by a storage that is not well formed -/
example : SqMul goodSp 2 ∧ SqMul oddSp 2 := ⟨⟨rfl, rfl, rfl⟩, ⟨rfl, rfl, rfl⟩⟩

/-- the hypotheses of `solveIter_products_total` / `solveIter_run_checked` are satisfiable (`Float`) -/
example : Guards (⟨2, 2, 4, #[2, 1, 1, 2], #[0, 1, 0, 1], #[0, 2, 4]⟩ : Sp Float) .qmr #[1, -1] #[0, 0] ∧
    Multipliable (⟨2, 2, 4, #[2, 1, 1, 2], #[0, 1, 0, 1], #[0, 2, 4]⟩ : Sp Float) #[0, 0] :=
  ⟨⟨rfl, rfl, rfl, fun _ h => by cases h⟩, ⟨_, rfl⟩⟩

end Examples

end Ohsl.Props.C08

