/-
  Property C08 (part G) — the links between the drift bound of C08F (stated there for an ABSTRACT
  rounded product `mv` over functions `Fin n → Fl M` assumed to satisfy `FlMatVec`) and the MODEL:
  `Sp.multiply` / `Sp.transposeMultiply` (Ohsl/Model/Sparse.lean) and the array solver
  `Sp.solveIter` with `Sp.arrOps` (Ohsl/Model/KrylovSp.lean), all instantiated at the rounded reals
  `Fl M` (Ohsl/Lemmas/Rounding.lean: standard model of floating-point arithmetic, no overflow /
  underflow; the transfer to Rust `f64` rests on the assumption stated there).

  Notation: `s : Sp (Fl M)` a well-formed square storage of order `n` (`SqWF s n`, C08C),
  `sqMat s n` the REAL matrix it denotes (entries `C07.entryR`, duplicates summed),
  `rval n a : Fin n → ℝ` the real values of an array, `arrFn n a : Fin n → Fl M` the function an array
  denotes (C08C's `toFn` for an arbitrary scalar type), `mvOf s n v = arrFn (multiply s (ofFn v))`,
  `mvTOf` likewise for `transpose_multiply`, `dotOf` the model's dot product (left fold from `0` of
  the rounded products), `normInf A` the largest absolute row sum.  Norms are ∞-norms.

  (1) the product assumption holds of the model (section `Product`, class F):
      * `mvOf_componentwise`, `mvTOf_componentwise`: the classical componentwise bounds
        `|fl(A v)_i − Σ_j a_ij v_j| ≤ ((1+u)^(nᵢ+1) − 1) Σ_j |a_ij| |v_j|` in function form
        (from `C07.multiply_rounding`, `C07.transposeMultiply_rounding`; duplicate-free storage);
      * `flMatVec_multiply`: `FlMatVec (mvOf s n) (rowLin (sqMat s n)) a (gam (kA+1))` for every bound
        `a` of the absolute row sums and `kA` of the stored entries per row;
        `flMatVec_multiply_normInf`: `a = ‖A‖∞`, `εA = (1+u)^(n+1) − 1`;
      * `flMatVec_transposeMultiply(_normInf)`: the same for `mvTOf` w.r.t. the transposed matrix
        (column sums, column counts);
      * `flMatVec_multiply_slots`: storage WITH duplicate entries (no `NoDup`): same matrix (duplicates
        summed), `a` a bound of the slot row sums `Σ |val[k]|`, `kA` of the slots per row
        (`flMatVec_of_majorant`, `mvOf_componentwise_slots`, `sqMat_le_sqAbs`);
      * `dotOf_rounding`: `|fl(v·w) − Σ v_i w_i| ≤ ((1+u)^(n+1) − 1) Σ |v_i w_i|` (not needed by the
        drift bound, which holds for arbitrary scalars `α_i`);
      * `gam_le_two_mul`: `(1+u)^k − 1 ≤ 2ku` when `ku ≤ 1/2` (the constant `cA = 2k`).
  (2) transport array ↔ function (sections `Structural`, `StatesHom`, `Transport`, class S):
      * `arrA_size`, `arrAt_size`: the total products of `arrOps` preserve the size `n` over ANY scalar
        type (from `C07.multiply_fold`, no algebraic law), hence `subOpsS`, `valHomS`;
      * `fnHomF`: on arrays of size `n`, `arrOps s n norm2` corresponds under `arrFn` to
        `spFlOps s n norm2 = flOps (mvOf s n) (mvTOf s n) (dotOf n) (norm2 ∘ ofFn)`, the record the
        C08F theorems are about, with product, transposed product and dot product CONCRETE;
      * `cgNext_hom … bicgStates_hom`: the state sequences of C08F commute with homomorphisms;
        `cg_sim_fl`, `bicg_sim_fl`, `cgStates_sim_fl`, `bicgStates_sim_fl`: the array-level run and the
        function-level run report the same flag / count and related `x`, `r` in every state.
  (3) the drift bound for the model's solvers (section `Sparse`, class F):
      * `cg_success_true_residual_sparse`, `bicg_success_true_residual_sparse`: if
        `Sp.solveIter s .cg b x0 maxIter tol norm2 = .ok out` (resp. `.bicg itol`) and `out.ok`, then
        `out.x.size = n`, `out.iters ≤ maxIter`, the recurrence residual `rk` of the exit state passed
        the model's test, and
          `‖(b − A·out.x) − rk‖∞ ≤ u (‖b‖ + (1+2cA) a X) + iters · u · ((16+6cA) a X + R)`
        with `A = sqMat s n` and the residual formed in REAL arithmetic from the values of the arrays;
        `…_norm_sparse`: with `a = ‖A‖∞`, `cA = 2(n+1)` and a hypothesis `htest` on the arbitrary
        `norm2`: `‖b − A·out.x‖∞ ≤ τ + u (‖b‖ + (4n+5) ‖A‖∞ X) + iters · u · ((12n+28) ‖A‖∞ X + R)`;
        `…_sparse_of`: the same for ANY `FlMatVec (mvOf s n) A a εA` (e.g. `flMatVec_multiply_slots`
        for storage with duplicates); `…_arr`: the iteration itself (`solveCG (arrOps …)`);
        `solveIter_run`, `solveIter_runs`: on a well-formed square storage the storage guard passes.
      `X`, `R` (bounds of the computed iterates / recurrence residuals, read at the ARRAY level) are
      hypotheses, as in C08F: they are a-posteriori quantities of the run.
  Hypotheses beyond the task statement: `C07.NoDup s` (no two stored entries at the same position)
  in the entry forms — `C07.multiply_rounding` needs it, because with duplicates `|a_ij|` can be
  smaller than the sum of the stored magnitudes; the slot forms cover duplicates.
  NOT done here: BiCGSTAB (done in C08H) and QMR (no drift theorem); `norm2` and the
  comparison `Transc.le` stay abstract (there is no `Transc (Fl M)` instance).

  Examples: `spd2F` (the SPD matrix `[[2,1],[1,2]]`) satisfies `SqWF`, `NoDup`, row sums `≤ 3`, two
  entries per row; `spd2F_run`: in every model in which `0, ±1, ±2` are representable (`binary64`,
  `exact`: `rep_small_binary64_exact`) `solve_cg` on `b = [1,−1]`, `x₀ = 0`, `tol = 0` fails the
  initial test and succeeds THROUGH THE LOOP in iteration 1, so every hypothesis of
  `cg_success_true_residual_sparse` is satisfied by a non-trivial run; in the exact model the bound
  collapses to `b − A x = rk`.
-/
import Ohsl.Props.C08F
import Ohsl.Props.C08K
import Ohsl.Props.C07F
import Mathlib.Order.ConditionallyCompleteLattice.Finset
import Mathlib.Tactic.IntervalCases
import Mathlib.Algebra.BigOperators.Fin

set_option linter.unusedSectionVars false
set_option linter.unusedVariables false
set_option linter.unusedSimpArgs false

namespace Ohsl.Props.C08
open Ohsl Ohsl.Krylov

/-! ### (S) arrays of size `n` and functions `Fin n → K`, any scalar type -/
section Structural
variable {K : Type} [Add K] [Sub K] [Mul K] [Div K] [Zero K]

/-- the function a (size-`n`) array denotes; any scalar type with a zero (C08C's `toFn` is the same
    definition, stated there for fields only) -/
def arrFn (n : Nat) (a : Array K) : Fin n → K := fun i => a[i.1]?.getD 0

theorem ofFn_arrFn {n : Nat} (a : Array K) (h : a.size = n) : Array.ofFn (arrFn n a) = a := by
  apply Array.ext_getElem?
  intro i
  rw [Array.getElem?_ofFn]
  by_cases hi : i < n
  · have : i < a.size := by omega
    simp [hi, arrFn, this]
  · have : a.size ≤ i := by omega
    simp [hi, this]

theorem arrFn_ofFn {n : Nat} (f : Fin n → K) : arrFn n (Array.ofFn f) = f := by
  funext i
  simp [arrFn, Array.getElem?_ofFn, i.2]

/-- (S) on a well-formed square storage the total wrapper of `multiply` used by `arrOps` preserves
    the size `n` — any scalar type, no algebraic law (`C07.multiply_fold`) -/
theorem arrA_size {s : Sp K} {n : Nat} (h : SqWF s n) (norm2 : Array K → K) (v : Array K)
    (hv : v.size = n) : ((arrOps s n norm2).A v).size = n := by
  obtain ⟨y, h1, h2, _⟩ := C07.multiply_fold h.wf v (hv.trans h.cols.symm)
  show (match Sp.multiply s v with | .ok r => r | .error _ => #[]).size = n
  rw [h1]
  exact h2.trans h.rows

/-- (S) likewise for `transpose_multiply` -/
theorem arrAt_size {s : Sp K} {n : Nat} (h : SqWF s n) (norm2 : Array K → K) (v : Array K)
    (hv : v.size = n) : ((arrOps s n norm2).At v).size = n := by
  obtain ⟨y, h1, h2, _⟩ := C07.transposeMultiply_fold h.wf v (hv.trans h.rows.symm)
  show (match Sp.transposeMultiply s v with | .ok r => r | .error _ => #[]).size = n
  rw [h1]
  exact h2.trans h.cols

/-- the operations of `arrOps` restricted to the arrays of size `n` (C08C's `subOps` for an arbitrary
    scalar type) -/
def subOpsS {s : Sp K} {n : Nat} (h : SqWF s n) (norm2 : Array K → K) : VOps K (SqArr K n) where
  add a b := ⟨(arrOps s n norm2).add a.1 b.1, by simp [arrOps, a.2, b.2]⟩
  sub a b := ⟨(arrOps s n norm2).sub a.1 b.1, by simp [arrOps, a.2, b.2]⟩
  smul v k := ⟨(arrOps s n norm2).smul v.1 k, by simp [arrOps, v.2]⟩
  lsmul k v := ⟨(arrOps s n norm2).lsmul k v.1, by simp [arrOps, v.2]⟩
  sdiv v k := ⟨(arrOps s n norm2).sdiv v.1 k, by simp [arrOps, v.2]⟩
  dot a b := (arrOps s n norm2).dot a.1 b.1
  norm2 a := norm2 a.1
  zero := ⟨(arrOps s n norm2).zero, by simp [arrOps]⟩
  A v := ⟨(arrOps s n norm2).A v.1, arrA_size h norm2 v.1 v.2⟩
  At v := ⟨(arrOps s n norm2).At v.1, arrAt_size h norm2 v.1 v.2⟩

/-- (S) the inclusion of the size-`n` arrays into all arrays is a homomorphism -/
theorem valHomS {s : Sp K} {n : Nat} (h : SqWF s n) (norm2 : Array K → K) :
    VHom (subOpsS h norm2) (arrOps s n norm2) Subtype.val :=
  ⟨fun _ _ => rfl, fun _ _ => rfl, fun _ _ => rfl, fun _ _ => rfl, fun _ _ => rfl, fun _ _ => rfl,
    fun _ => rfl, rfl, fun _ => rfl, fun _ => rfl⟩

/-- the model's sparse product as a map of functions: `v ↦ toFn (multiply s (ofFn v))` -/
def mvOf (s : Sp K) (n : Nat) (v : Fin n → K) : Fin n → K :=
  arrFn n (match Sp.multiply s (Array.ofFn v) with | .ok r => r | .error _ => #[])

/-- the model's transposed sparse product as a map of functions -/
def mvTOf (s : Sp K) (n : Nat) (v : Fin n → K) : Fin n → K :=
  arrFn n (match Sp.transposeMultiply s (Array.ofFn v) with | .ok r => r | .error _ => #[])

/-- the model's dot product (`arrOps.dot`: left fold from `0` of the componentwise products) as a
    map of functions -/
def dotOf (n : Nat) (v w : Fin n → K) : K :=
  (Array.zipWith (· * ·) (Array.ofFn v) (Array.ofFn w)).foldl (· + ·) 0

/-- `dotOf` is the left fold from `0`, in index order, of the products `v i * w i` -/
theorem dotOf_eq_foldl (n : Nat) (v w : Fin n → K) :
    dotOf n v w = ((List.finRange n).map (fun i => v i * w i)).foldl (· + ·) 0 := by
  have e : Array.zipWith (· * ·) (Array.ofFn v) (Array.ofFn w) = Array.ofFn (fun i => v i * w i) := by
    apply Array.ext_getElem?
    intro i
    simp only [Array.getElem?_zipWith, Array.getElem?_ofFn]
    by_cases hi : i < n <;> simp [hi]
  unfold dotOf
  rw [e, ← Array.foldl_toList, Array.toList_ofFn, List.ofFn_eq_map]


/-! ### (S) the state sequences of C08F commute with homomorphisms -/
section StatesHom
variable {K V W : Type} [Add K] [Sub K] [Mul K] [Neg K] [Div K] [Zero K] [One K] [BEq K] [Transc K]
variable {o₁ : VOps K V} {o₂ : VOps K W} {φ : V → W}

theorem cgNext_hom (H : VHom o₁ o₂ φ) (normb : K) (i : Nat) (s : CGState K V) :
    cgNext o₂ normb i (mapCG φ s) = mapCG φ (cgNext o₁ normb i s) := by
  unfold cgNext cgAlpha cgP
  simp only [mapCG, H.dot, H.norm2, H.add, H.sub, H.smul, H.A, cgDir_hom H]

theorem cgInit_hom (H : VHom o₁ o₂ φ) (b x : V) (normb : K) :
    cgInit o₂ (φ b) (φ x) normb = mapCG φ (cgInit o₁ b x normb) := by
  unfold cgInit
  simp only [mapCG, H.norm2, H.sub, H.A, H.zero]

theorem cgStates_hom (H : VHom o₁ o₂ φ) (normb : K) (s0 : CGState K V) :
    ∀ j, cgStates o₂ normb (mapCG φ s0) j = mapCG φ (cgStates o₁ normb s0 j)
  | 0 => rfl
  | j + 1 => by
    show cgNext o₂ normb (j + 1) (cgStates o₂ normb (mapCG φ s0) j) = _
    rw [cgStates_hom H normb s0 j, cgNext_hom H]
    rfl

theorem bicgNext_hom (H : VHom o₁ o₂ φ) (bnrm : K) (itol i : Nat) (s : BiCGState K V) :
    bicgNext o₂ bnrm itol i (mapBiCG φ s) = mapBiCG φ (bicgNext o₁ bnrm itol i s) := by
  unfold bicgNext bicgAlpha bicgP bicgPP
  simp only [mapBiCG, H.dot, H.norm2, H.add, H.sub, H.smul, H.A, H.At, bicgDir_hom H,
    bicgErr_hom H]

theorem bicgInit_hom (H : VHom o₁ o₂ φ) (b x : V) (bnrm : K) (itol : Nat) :
    bicgInit o₂ (φ b) (φ x) bnrm itol = mapBiCG φ (bicgInit o₁ b x bnrm itol) := by
  unfold bicgInit
  simp only [mapBiCG, bicgErr_hom H, H.sub, H.A, H.zero]

theorem bicgStates_hom (H : VHom o₁ o₂ φ) (bnrm : K) (itol : Nat) (s0 : BiCGState K V) :
    ∀ j, bicgStates o₂ bnrm itol (mapBiCG φ s0) j = mapBiCG φ (bicgStates o₁ bnrm itol s0 j)
  | 0 => rfl
  | j + 1 => by
    show bicgNext o₂ bnrm itol (j + 1) (bicgStates o₂ bnrm itol (mapBiCG φ s0) j) = _
    rw [bicgStates_hom H bnrm itol s0 j, bicgNext_hom H]
    rfl

end StatesHom

/-! ### (2) transport: `arrOps` on arrays of size `n` is `flOps` on functions, under `arrFn` -/
section Transport
variable {M : FlModel}
open Ohsl.Props.C07 (entryR rowCount colCount NoDup)

/-- the record of C08F (`flOps`) with everything concrete except the norm: the product is the model's
    `Sp.multiply`, the transposed product the model's `Sp.transposeMultiply`, the dot product the
    model's fold of rounded products (all read through `Array.ofFn` / `arrFn`); `norm2` is the
    array-level norm read through `Array.ofFn`. -/
noncomputable abbrev spFlOps (s : Sp (Fl M)) (n : Nat) (norm2 : Array (Fl M) → Fl M) :
    VOps (Fl M) (Fin n → Fl M) :=
  flOps (mvOf s n) (mvTOf s n) (dotOf n) (fun f => norm2 (Array.ofFn f))

/-- **(2) `arrOps` corresponds to `flOps` under `a ↦ (i ↦ a[i])`**: on arrays of size `n`, for a
    well-formed square storage over `Fl M`, `zipWith (+)`/`(-)` are the componentwise rounded sum /
    difference, `map (· * k)`, `map (k * ·)`, `map (· / k)` the componentwise rounded products /
    quotient, `replicate n 0` the zero function, and `multiply s`, `transpose_multiply s`, the dot
    product go to `mvOf`, `mvTOf`, `dotOf`.  Purely structural. -/
theorem fnHomF {s : Sp (Fl M)} {n : Nat} (h : SqWF s n) (norm2 : Array (Fl M) → Fl M) :
    VHom (subOpsS h norm2) (spFlOps s n norm2) (fun a => arrFn n a.1) where
  add a b := by
    funext i
    have ha : i.1 < a.1.size := by rw [a.2]; exact i.2
    have hb : i.1 < b.1.size := by rw [b.2]; exact i.2
    simp [subOpsS, arrOps, flOps, arrFn, Array.getElem?_zipWith, ha, hb]
  sub a b := by
    funext i
    have ha : i.1 < a.1.size := by rw [a.2]; exact i.2
    have hb : i.1 < b.1.size := by rw [b.2]; exact i.2
    simp [subOpsS, arrOps, flOps, arrFn, Array.getElem?_zipWith, ha, hb]
  smul a k := by
    funext i
    have ha : i.1 < a.1.size := by rw [a.2]; exact i.2
    simp [subOpsS, arrOps, flOps, arrFn, ha]
  lsmul k a := by
    funext i
    have ha : i.1 < a.1.size := by rw [a.2]; exact i.2
    simp [subOpsS, arrOps, flOps, arrFn, ha]
  sdiv a k := by
    funext i
    have ha : i.1 < a.1.size := by rw [a.2]; exact i.2
    simp [subOpsS, arrOps, flOps, arrFn, ha]
  dot a b := by
    show (arrOps s n norm2).dot a.1 b.1 = dotOf n (arrFn n a.1) (arrFn n b.1)
    unfold dotOf
    rw [ofFn_arrFn a.1 a.2, ofFn_arrFn b.1 b.2]
    rfl
  norm2 a := by
    show norm2 a.1 = norm2 (Array.ofFn (arrFn n a.1))
    rw [ofFn_arrFn a.1 a.2]
  zero := by
    funext i
    simp [subOpsS, arrOps, flOps, arrFn, i.2]
  A a := by
    show arrFn n ((arrOps s n norm2).A a.1) = mvOf s n (arrFn n a.1)
    unfold mvOf
    rw [ofFn_arrFn a.1 a.2]
    rfl
  At a := by
    show arrFn n ((arrOps s n norm2).At a.1) = mvTOf s n (arrFn n a.1)
    unfold mvTOf
    rw [ofFn_arrFn a.1 a.2]
    rfl

variable [Transc (Fl M)]
variable {s : Sp (Fl M)} {n : Nat} (h : SqWF s n) (norm2 : Array (Fl M) → Fl M)
include h

/-- **simulation, CG** (rounded arithmetic): on arrays of size `n` the executed solver and the
    function-level solver of C08F report the same flag / count / error and related `x` -/
theorem cg_sim_fl (b x : Array (Fl M)) (hb : b.size = n) (hx : x.size = n) (maxIter : Nat)
    (tol : Fl M) :
    (solveCG (arrOps s n norm2) b x maxIter tol).x.size = n ∧
    (solveCG (spFlOps s n norm2) (arrFn n b) (arrFn n x) maxIter tol).ok
      = (solveCG (arrOps s n norm2) b x maxIter tol).ok ∧
    (solveCG (spFlOps s n norm2) (arrFn n b) (arrFn n x) maxIter tol).iters
      = (solveCG (arrOps s n norm2) b x maxIter tol).iters ∧
    (solveCG (spFlOps s n norm2) (arrFn n b) (arrFn n x) maxIter tol).x
      = arrFn n (solveCG (arrOps s n norm2) b x maxIter tol).x := by
  have e1 := cg_hom (valHomS h norm2) ⟨b, hb⟩ ⟨x, hx⟩ maxIter tol
  have e2 := cg_hom (fnHomF h norm2) ⟨b, hb⟩ ⟨x, hx⟩ maxIter tol
  have e1' : solveCG (arrOps s n norm2) b x maxIter tol = _ := e1
  have e2' : solveCG (spFlOps s n norm2) (arrFn n b) (arrFn n x) maxIter tol = _ := e2
  rw [e1', e2']
  exact ⟨(solveCG (subOpsS h norm2) ⟨b, hb⟩ ⟨x, hx⟩ maxIter tol).x.2, rfl, rfl, rfl⟩

/-- **simulation, BiCG** (rounded arithmetic) -/
theorem bicg_sim_fl (b x : Array (Fl M)) (hb : b.size = n) (hx : x.size = n) (maxIter : Nat)
    (tol : Fl M) (itol : Nat) :
    (solveBiCG (arrOps s n norm2) b x maxIter tol itol).x.size = n ∧
    (solveBiCG (spFlOps s n norm2) (arrFn n b) (arrFn n x) maxIter tol itol).ok
      = (solveBiCG (arrOps s n norm2) b x maxIter tol itol).ok ∧
    (solveBiCG (spFlOps s n norm2) (arrFn n b) (arrFn n x) maxIter tol itol).iters
      = (solveBiCG (arrOps s n norm2) b x maxIter tol itol).iters ∧
    (solveBiCG (spFlOps s n norm2) (arrFn n b) (arrFn n x) maxIter tol itol).x
      = arrFn n (solveBiCG (arrOps s n norm2) b x maxIter tol itol).x := by
  have e1 := bicg_hom (valHomS h norm2) ⟨b, hb⟩ ⟨x, hx⟩ maxIter tol itol
  have e2 := bicg_hom (fnHomF h norm2) ⟨b, hb⟩ ⟨x, hx⟩ maxIter tol itol
  have e1' : solveBiCG (arrOps s n norm2) b x maxIter tol itol = _ := e1
  have e2' : solveBiCG (spFlOps s n norm2) (arrFn n b) (arrFn n x) maxIter tol itol = _ := e2
  rw [e1', e2']
  exact ⟨(solveBiCG (subOpsS h norm2) ⟨b, hb⟩ ⟨x, hx⟩ maxIter tol itol).x.2, rfl, rfl, rfl⟩

/-- the CG state sequences correspond: every array-level iterate / recurrence residual has size `n`
    and denotes the function-level one -/
theorem cgStates_sim_fl (b x : Array (Fl M)) (hb : b.size = n) (hx : x.size = n) (normb : Fl M)
    (j : Nat) :
    (cgStates (arrOps s n norm2) normb (cgInit (arrOps s n norm2) b x normb) j).x.size = n ∧
    (cgStates (arrOps s n norm2) normb (cgInit (arrOps s n norm2) b x normb) j).r.size = n ∧
    (cgStates (spFlOps s n norm2) normb
        (cgInit (spFlOps s n norm2) (arrFn n b) (arrFn n x) normb) j).x
      = arrFn n (cgStates (arrOps s n norm2) normb (cgInit (arrOps s n norm2) b x normb) j).x ∧
    (cgStates (spFlOps s n norm2) normb
        (cgInit (spFlOps s n norm2) (arrFn n b) (arrFn n x) normb) j).r
      = arrFn n (cgStates (arrOps s n norm2) normb (cgInit (arrOps s n norm2) b x normb) j).r := by
  have e1 : cgStates (arrOps s n norm2) normb (cgInit (arrOps s n norm2) b x normb) j
      = mapCG Subtype.val
          (cgStates (subOpsS h norm2) normb (cgInit (subOpsS h norm2) ⟨b, hb⟩ ⟨x, hx⟩ normb) j) := by
    have := cgStates_hom (valHomS h norm2) normb (cgInit (subOpsS h norm2) ⟨b, hb⟩ ⟨x, hx⟩ normb) j
    exact (congrArg (fun z => cgStates (arrOps s n norm2) normb z j)
      (cgInit_hom (valHomS h norm2) ⟨b, hb⟩ ⟨x, hx⟩ normb)).trans this
  have e2 : cgStates (spFlOps s n norm2) normb
        (cgInit (spFlOps s n norm2) (arrFn n b) (arrFn n x) normb) j
      = mapCG (fun a => arrFn n a.1)
          (cgStates (subOpsS h norm2) normb (cgInit (subOpsS h norm2) ⟨b, hb⟩ ⟨x, hx⟩ normb) j) := by
    have := cgStates_hom (fnHomF h norm2) normb (cgInit (subOpsS h norm2) ⟨b, hb⟩ ⟨x, hx⟩ normb) j
    exact (congrArg (fun z => cgStates (spFlOps s n norm2) normb z j)
      (cgInit_hom (fnHomF h norm2) ⟨b, hb⟩ ⟨x, hx⟩ normb)).trans this
  rw [e1, e2]
  exact ⟨(cgStates (subOpsS h norm2) normb _ j).x.2, (cgStates (subOpsS h norm2) normb _ j).r.2,
    rfl, rfl⟩

/-- the BiCG state sequences correspond -/
theorem bicgStates_sim_fl (b x : Array (Fl M)) (hb : b.size = n) (hx : x.size = n) (bnrm : Fl M)
    (itol j : Nat) :
    (bicgStates (arrOps s n norm2) bnrm itol (bicgInit (arrOps s n norm2) b x bnrm itol) j).x.size = n ∧
    (bicgStates (arrOps s n norm2) bnrm itol (bicgInit (arrOps s n norm2) b x bnrm itol) j).r.size = n ∧
    (bicgStates (spFlOps s n norm2) bnrm itol
        (bicgInit (spFlOps s n norm2) (arrFn n b) (arrFn n x) bnrm itol) j).x
      = arrFn n (bicgStates (arrOps s n norm2) bnrm itol
          (bicgInit (arrOps s n norm2) b x bnrm itol) j).x ∧
    (bicgStates (spFlOps s n norm2) bnrm itol
        (bicgInit (spFlOps s n norm2) (arrFn n b) (arrFn n x) bnrm itol) j).r
      = arrFn n (bicgStates (arrOps s n norm2) bnrm itol
          (bicgInit (arrOps s n norm2) b x bnrm itol) j).r := by
  have e1 : bicgStates (arrOps s n norm2) bnrm itol (bicgInit (arrOps s n norm2) b x bnrm itol) j
      = mapBiCG Subtype.val (bicgStates (subOpsS h norm2) bnrm itol
          (bicgInit (subOpsS h norm2) ⟨b, hb⟩ ⟨x, hx⟩ bnrm itol) j) := by
    have := bicgStates_hom (valHomS h norm2) bnrm itol
      (bicgInit (subOpsS h norm2) ⟨b, hb⟩ ⟨x, hx⟩ bnrm itol) j
    exact (congrArg (fun z => bicgStates (arrOps s n norm2) bnrm itol z j)
      (bicgInit_hom (valHomS h norm2) ⟨b, hb⟩ ⟨x, hx⟩ bnrm itol)).trans this
  have e2 : bicgStates (spFlOps s n norm2) bnrm itol
        (bicgInit (spFlOps s n norm2) (arrFn n b) (arrFn n x) bnrm itol) j
      = mapBiCG (fun a => arrFn n a.1) (bicgStates (subOpsS h norm2) bnrm itol
          (bicgInit (subOpsS h norm2) ⟨b, hb⟩ ⟨x, hx⟩ bnrm itol) j) := by
    have := bicgStates_hom (fnHomF h norm2) bnrm itol
      (bicgInit (subOpsS h norm2) ⟨b, hb⟩ ⟨x, hx⟩ bnrm itol) j
    exact (congrArg (fun z => bicgStates (spFlOps s n norm2) bnrm itol z j)
      (bicgInit_hom (fnHomF h norm2) ⟨b, hb⟩ ⟨x, hx⟩ bnrm itol)).trans this
  rw [e1, e2]
  exact ⟨(bicgStates (subOpsS h norm2) bnrm itol _ j).x.2,
    (bicgStates (subOpsS h norm2) bnrm itol _ j).r.2, rfl, rfl⟩

end Transport

end Structural

/-! ### (F) rounding: the product assumption of C08F for the model, and the drift bound -/
section Rounding

/-! ### (F) the model's sparse products satisfy `FlMatVec` -/
section Product
variable {M : FlModel}
open Ohsl.Props.C07 (entryR rowCount colCount NoDup)

/-- the real values of an array, as a vector of `ℝⁿ` (components beyond the size read as `0`) -/
def rval (n : Nat) (a : Array (Fl M)) : Fin n → ℝ := vval (arrFn n a)

/-- the real matrix a square storage denotes: entry `(i, j)` is the stored value, `0` if none
    (`C07.entryR`, i.e. `Sp.entry` of the real storage) -/
noncomputable def sqMat (s : Sp (Fl M)) (n : Nat) : Fin n → Fin n → ℝ := fun i j => entryR s i.1 j.1

/-- its transpose -/
noncomputable def sqMatT (s : Sp (Fl M)) (n : Nat) : Fin n → Fin n → ℝ := fun j i => entryR s i.1 j.1

/-- `‖A‖∞` of a real matrix: the largest absolute row sum (`0` for the empty matrix) -/
noncomputable def normInf {n : Nat} (Am : Fin n → Fin n → ℝ) : ℝ := ⨆ i, ∑ j, |Am i j|

theorem normInf_nonneg {n : Nat} (Am : Fin n → Fin n → ℝ) : 0 ≤ normInf Am :=
  Real.iSup_nonneg (fun _ => Finset.sum_nonneg (fun _ _ => abs_nonneg _))

theorem row_le_normInf {n : Nat} (Am : Fin n → Fin n → ℝ) (i : Fin n) :
    ∑ j, |Am i j| ≤ normInf Am :=
  le_ciSup (f := fun i => ∑ j, |Am i j|) (Set.finite_range _).bddAbove i

private theorem getD_ofFn {n : Nat} (v : Fin n → Fl M) (j : Fin n) :
    (Array.ofFn v).getD j.1 0 = v j := by
  rw [C07.getD_eq, Array.getElem?_ofFn]
  simp [j.2]

/-- **(1a) componentwise bound for the model's `multiply`, in function form.**  For a well-formed
    duplicate-free square storage `s` of order `n` over `Fl M`, the computed product
    `mvOf s n v = toFn (multiply s (ofFn v))` satisfies, in every component `i`,
    `|fl(A v)_i − Σ_j a_ij v_j| ≤ ((1+u)^(nᵢ+1) − 1) · Σ_j |a_ij| |v_j|`, `nᵢ = rowCount s i` the number
    of stored entries of row `i` (from `C07.multiply_rounding`). -/
theorem mvOf_componentwise {s : Sp (Fl M)} {n : Nat} (h : SqWF s n) (hnd : NoDup s)
    (v : Fin n → Fl M) (i : Fin n) :
    |(mvOf s n v i).val - ∑ j, sqMat s n i j * (v j).val|
      ≤ M.gam (rowCount s i.1 + 1) * ∑ j, |sqMat s n i j| * |(v j).val| := by
  obtain ⟨wf, hr, hc⟩ := h
  subst hc
  obtain ⟨y, h1, h2, h3⟩ := C07.multiply_rounding wf hnd (Array.ofFn v) (by simp)
  have hi : i.1 < s.rows := by rw [hr]; exact i.2
  have := h3 i.1 hi
  rw [C07.getD_eq, Finset.sum_range, Finset.sum_range] at this
  simp only [getD_ofFn, abs_mul] at this
  have e : mvOf s s.cols v = arrFn s.cols y := by unfold mvOf; rw [h1]
  rw [e]
  exact this

/-- **(1b) componentwise bound for the model's `transpose_multiply`, in function form**:
    `|fl(Aᵀ v)_j − Σ_i a_ij v_i| ≤ ((1+u)^(mⱼ+1) − 1) · Σ_i |a_ij| |v_i|`, `mⱼ = colCount s j` the
    number of stored entries of column `j` (from `C07.transposeMultiply_rounding`). -/
theorem mvTOf_componentwise {s : Sp (Fl M)} {n : Nat} (h : SqWF s n) (hnd : NoDup s)
    (v : Fin n → Fl M) (j : Fin n) :
    |(mvTOf s n v j).val - ∑ i, sqMatT s n j i * (v i).val|
      ≤ M.gam (colCount s j.1 + 1) * ∑ i, |sqMatT s n j i| * |(v i).val| := by
  obtain ⟨wf, hr, hc⟩ := h
  subst hr
  obtain ⟨z, h1, h2, h3⟩ := C07.transposeMultiply_rounding wf hnd (Array.ofFn v) (by simp)
  have hj : j.1 < s.cols := by rw [hc]; exact j.2
  have := h3 j.1 hj
  rw [C07.getD_eq, Finset.sum_range, Finset.sum_range] at this
  simp only [getD_ofFn, abs_mul] at this
  have e : mvTOf s s.rows v = arrFn s.rows z := by unfold mvTOf; rw [h1]
  rw [e]
  exact this

/-- **(1) the model's `multiply` satisfies `FlMatVec`**: for a well-formed duplicate-free square
    storage of order `n` over `Fl M`, `v ↦ toFn (multiply s (ofFn v))` computes the linear map of the
    real matrix `sqMat s n` with relative error `εA = (1+u)^(kA+1) − 1` w.r.t. `a ‖v‖∞`, where `kA`
    bounds the number of stored entries per row and `a` the absolute row sums (`a ≥ ‖A‖∞`). -/
theorem flMatVec_multiply {s : Sp (Fl M)} {n : Nat} (h : SqWF s n) (hnd : NoDup s)
    (a : ℝ) (ha : 0 ≤ a) (hrow : ∀ i, ∑ j, |sqMat s n i j| ≤ a)
    (kA : ℕ) (hk : ∀ i, i < n → rowCount s i ≤ kA) :
    FlMatVec (mvOf s n) (rowLin (sqMat s n)) a (M.gam (kA + 1)) :=
  flMatVec_of_componentwise _ _ a _ ha (M.gam_nonneg _) hrow (fun v i =>
    (mvOf_componentwise h hnd v i).trans (mul_le_mul_of_nonneg_right
      (M.gam_mono (by have := hk i.1 i.2; omega))
      (Finset.sum_nonneg (fun _ _ => mul_nonneg (abs_nonneg _) (abs_nonneg _)))))

/-- the form asked for: `a = ‖A‖∞` (the largest absolute row sum of the stored matrix) and
    `εA = (1+u)^(n+1) − 1` (a row of a duplicate-free storage of order `n` holds at most `n` entries) -/
theorem flMatVec_multiply_normInf {s : Sp (Fl M)} {n : Nat} (h : SqWF s n) (hnd : NoDup s) :
    FlMatVec (mvOf s n) (rowLin (sqMat s n)) (normInf (sqMat s n)) (M.gam (n + 1)) :=
  flMatVec_multiply h hnd _ (normInf_nonneg _) (row_le_normInf _) n
    (fun i _ => by have := C07.rowCount_le_cols h.wf hnd i; rw [h.cols] at this; exact this)

/-- **(1ᵀ) the model's `transpose_multiply` satisfies `FlMatVec`** w.r.t. the transposed matrix:
    `kAt` bounds the number of stored entries per column, `a'` the absolute column sums
    (`a' ≥ ‖Aᵀ‖∞ = ‖A‖₁`). -/
theorem flMatVec_transposeMultiply {s : Sp (Fl M)} {n : Nat} (h : SqWF s n) (hnd : NoDup s)
    (a' : ℝ) (ha : 0 ≤ a') (hcol : ∀ j, ∑ i, |sqMatT s n j i| ≤ a')
    (kAt : ℕ) (hk : ∀ j, j < n → colCount s j ≤ kAt) :
    FlMatVec (mvTOf s n) (rowLin (sqMatT s n)) a' (M.gam (kAt + 1)) :=
  flMatVec_of_componentwise _ _ a' _ ha (M.gam_nonneg _) hcol (fun v j =>
    (mvTOf_componentwise h hnd v j).trans (mul_le_mul_of_nonneg_right
      (M.gam_mono (by have := hk j.1 j.2; omega))
      (Finset.sum_nonneg (fun _ _ => mul_nonneg (abs_nonneg _) (abs_nonneg _)))))

theorem flMatVec_transposeMultiply_normInf {s : Sp (Fl M)} {n : Nat} (h : SqWF s n) (hnd : NoDup s) :
    FlMatVec (mvTOf s n) (rowLin (sqMatT s n)) (normInf (sqMatT s n)) (M.gam (n + 1)) :=
  flMatVec_transposeMultiply h hnd _ (normInf_nonneg _) (row_le_normInf _) n
    (fun j hj => by
      have := C07.colCount_le_rows h.wf hnd (j := j) (by rw [h.cols]; exact hj)
      rw [h.rows] at this; exact this)

/-! #### storage with duplicate entries: the slot form -/

/-- the slot majorant of `|a_ij|`: the sum of `|val[k]|` over the slots of column `j` aimed at row `i`
    (`= |a_ij|` for duplicate-free storage; larger when duplicates cancel) -/
noncomputable def sqAbs (s : Sp (Fl M)) (n : Nat) : Fin n → Fin n → ℝ := fun i j =>
  ∑ k ∈ Finset.Ico (s.cs j.1) (s.cs (j.1 + 1)), if s.ri k = i.1 then |(s.vl k).val| else 0

theorem sqMat_le_sqAbs (s : Sp (Fl M)) (n : Nat) (i j : Fin n) : |sqMat s n i j| ≤ sqAbs s n i j := by
  unfold sqMat sqAbs
  rw [C07.entryR_eq]
  refine (Finset.abs_sum_le_sum_abs _ _).trans (Finset.sum_le_sum (fun k _ => ?_))
  split <;> simp

/-- `FlMatVec` from a componentwise bound against a majorant `B ≥ |A|` of the matrix -/
theorem flMatVec_of_majorant {n : Nat} (mv : (Fin n → Fl M) → (Fin n → Fl M))
    (Am Bm : Fin n → Fin n → ℝ) (a εA : ℝ) (ha : 0 ≤ a) (hε : 0 ≤ εA)
    (hAB : ∀ i j, |Am i j| ≤ Bm i j) (hrow : ∀ i, ∑ j, Bm i j ≤ a)
    (h : ∀ v i, |(mv v i).val - ∑ j, Am i j * (v j).val| ≤ εA * ∑ j, Bm i j * |(v j).val|) :
    FlMatVec mv (rowLin Am) a εA where
  a_nonneg := ha
  ε_nonneg := hε
  opA := rowLin_norm_le Am a ha (fun i => (Finset.sum_le_sum (fun j _ => hAB i j)).trans (hrow i))
  err v := by
    refine (pi_norm_le_iff_of_nonneg
      (mul_nonneg (mul_nonneg hε ha) (norm_nonneg (vval v)))).2 fun i => ?_
    rw [Real.norm_eq_abs, Pi.sub_apply, rowLin_apply]
    refine (h v i).trans ?_
    rw [mul_assoc]
    refine mul_le_mul_of_nonneg_left ?_ hε
    have h1 : ∑ j, Bm i j * |(v j).val| ≤ ∑ j, Bm i j * ‖vval v‖ := by
      apply Finset.sum_le_sum
      intro j _
      have := norm_le_pi_norm (vval v) j
      rw [Real.norm_eq_abs] at this
      exact mul_le_mul_of_nonneg_left this ((abs_nonneg _).trans (hAB i j))
    rw [← Finset.sum_mul] at h1
    exact h1.trans (mul_le_mul_of_nonneg_right (hrow i) (norm_nonneg _))

/-- componentwise bound for `multiply` on ANY well-formed square storage (duplicates allowed):
    against `Σ_j a_ij v_j` (duplicates summed) with the slot majorant (from
    `C07.multiply_rounding_slots`) -/
theorem mvOf_componentwise_slots {s : Sp (Fl M)} {n : Nat} (h : SqWF s n)
    (v : Fin n → Fl M) (i : Fin n) :
    |(mvOf s n v i).val - ∑ j, sqMat s n i j * (v j).val|
      ≤ M.gam (rowCount s i.1 + 1) * ∑ j, sqAbs s n i j * |(v j).val| := by
  obtain ⟨wf, hr, hc⟩ := h
  subst hc
  obtain ⟨y, h1, h2, h3⟩ := C07.multiply_rounding_slots wf (Array.ofFn v) (by simp)
  have hi : i.1 < s.rows := by rw [hr]; exact i.2
  have := h3 i.1 hi
  rw [C07.getD_eq, Finset.sum_range, Finset.sum_range] at this
  simp only [getD_ofFn] at this
  have e : mvOf s s.cols v = arrFn s.cols y := by unfold mvOf; rw [h1]
  rw [e]
  have e1 : ∀ j : Fin s.cols, sqMat s s.cols i j * (v j).val
      = ∑ k ∈ Finset.Ico (s.cs j.1) (s.cs (j.1 + 1)),
          if s.ri k = i.1 then (s.vl k).val * (v j).val else 0 := fun j => C07.entryR_mul s i.1 j.1 _
  have e2 : ∀ j : Fin s.cols, sqAbs s s.cols i j * |(v j).val|
      = ∑ k ∈ Finset.Ico (s.cs j.1) (s.cs (j.1 + 1)),
          if s.ri k = i.1 then |(s.vl k).val * (v j).val| else 0 := by
    intro j
    unfold sqAbs
    rw [Finset.sum_mul]
    refine Finset.sum_congr rfl (fun k _ => ?_)
    split <;> simp [abs_mul]
  simp only [e1, e2]
  exact this

/-- **(1, duplicates allowed) `multiply` on every well-formed square storage satisfies `FlMatVec`**
    w.r.t. the matrix the storage denotes (duplicates summed), with `a` a bound of the slot row sums
    `Σ_j Σ_k |val[k]|` and `kA` a bound of the number of slots per row. -/
theorem flMatVec_multiply_slots {s : Sp (Fl M)} {n : Nat} (h : SqWF s n)
    (a : ℝ) (ha : 0 ≤ a) (hrow : ∀ i, ∑ j, sqAbs s n i j ≤ a)
    (kA : ℕ) (hk : ∀ i, i < n → rowCount s i ≤ kA) :
    FlMatVec (mvOf s n) (rowLin (sqMat s n)) a (M.gam (kA + 1)) :=
  flMatVec_of_majorant _ _ (sqAbs s n) a _ ha (M.gam_nonneg _) (sqMat_le_sqAbs s n) hrow (fun v i =>
    (mvOf_componentwise_slots h v i).trans (mul_le_mul_of_nonneg_right
      (M.gam_mono (by have := hk i.1 i.2; omega))
      (Finset.sum_nonneg (fun j _ => mul_nonneg ((abs_nonneg _).trans (sqMat_le_sqAbs s n i j))
        (abs_nonneg _)))))

/-! #### the model's dot product -/

/-- the model's dot product (`arrOps.dot`, in function form): one rounding per product and `n`
    rounded additions (the first one `0 + ·`): `|fl(v·w) − Σ v_i w_i| ≤ ((1+u)^(n+1) − 1) Σ |v_i w_i|` -/
theorem dotOf_rounding (n : Nat) (v w : Fin n → Fl M) :
    |(dotOf n v w).val - ∑ i, (v i).val * (w i).val|
      ≤ M.gam (n + 1) * ∑ i, |(v i).val * (w i).val| := by
  have := C07.fold_terms_rounding (List.finRange n) v w
  rw [← dotOf_eq_foldl, List.length_finRange, ← List.ofFn_eq_map, ← List.ofFn_eq_map,
    List.sum_ofFn, List.sum_ofFn] at this
  exact this

/-- `(1+u)^k − 1 ≤ 2 k u` when `k u ≤ 1/2`: the constant `cA = 2 k` of the C08F theorems -/
theorem gam_le_two_mul (k : ℕ) (hk : (k : ℝ) * M.u ≤ 1 / 2) : M.gam k ≤ 2 * k * M.u := by
  have h0 : 0 ≤ (k : ℝ) * M.u := mul_nonneg (Nat.cast_nonneg k) M.u_nonneg
  refine (M.gam_le_gamma k (by linarith)).trans ?_
  rw [div_le_iff₀ (by linarith)]
  nlinarith

end Product

/-! ### (3) the C08 drift bound for the model's sparse solvers -/
section Sparse
variable {M : FlModel} [Transc (Fl M)]
open Ohsl.Props.C07 (entryR rowCount colCount NoDup)

/-- **CG on arrays over `Fl M`** (the iteration `solveIter` runs once its guards have passed). -/
theorem cg_success_true_residual_arr {s : Sp (Fl M)} {n : Nat} (h : SqWF s n)
    {A : (Fin n → ℝ) →ₗ[ℝ] (Fin n → ℝ)} {a εA : ℝ} (H : FlMatVec (mvOf s n) A a εA)
    (norm2 : Array (Fl M) → Fl M) (b x0 : Array (Fl M)) (hb : b.size = n) (hx : x0.size = n)
    (maxIter : ℕ) (tol : Fl M)
    (hu8 : M.u ≤ 1 / 8) (cA : ℝ) (hcA : 0 ≤ cA) (hεc : εA ≤ cA * M.u) (X R : ℝ)
    (hok : (solveCG (arrOps s n norm2) b x0 maxIter tol).ok = true)
    (hX : ∀ j, j ≤ (solveCG (arrOps s n norm2) b x0 maxIter tol).iters →
      ‖rval n (cgStates (arrOps s n norm2) (guardNorm (norm2 b))
        (cgInit (arrOps s n norm2) b x0 (guardNorm (norm2 b))) j).x‖ ≤ X)
    (hR : ∀ j, j < (solveCG (arrOps s n norm2) b x0 maxIter tol).iters →
      ‖rval n (cgStates (arrOps s n norm2) (guardNorm (norm2 b))
        (cgInit (arrOps s n norm2) b x0 (guardNorm (norm2 b))) j).r‖ ≤ R) :
    (solveCG (arrOps s n norm2) b x0 maxIter tol).x.size = n ∧
    (solveCG (arrOps s n norm2) b x0 maxIter tol).iters ≤ maxIter ∧
    ∃ rk : Array (Fl M),
      rk = (cgStates (arrOps s n norm2) (guardNorm (norm2 b))
        (cgInit (arrOps s n norm2) b x0 (guardNorm (norm2 b)))
        (solveCG (arrOps s n norm2) b x0 maxIter tol).iters).r ∧
      rk.size = n ∧
      Transc.le (norm2 rk / guardNorm (norm2 b)) tol = true ∧
      ‖(rval n b - A (rval n (solveCG (arrOps s n norm2) b x0 maxIter tol).x)) - rval n rk‖
        ≤ M.u * (‖rval n b‖ + (1 + 2 * cA) * a * X)
          + (solveCG (arrOps s n norm2) b x0 maxIter tol).iters * M.u
              * ((16 + 6 * cA) * a * X + R) := by
  obtain ⟨hsz, e1, e2, e4⟩ := cg_sim_fl h norm2 b x0 hb hx maxIter tol
  have hbb : Array.ofFn (arrFn n b) = b := ofFn_arrFn b hb
  have T := cgStates_sim_fl h norm2 b x0 hb hx (guardNorm (norm2 b))
  have key := cg_success_true_residual (mvT := mvTOf s n) (dot := dotOf n)
    (norm2 := fun f => norm2 (Array.ofFn f)) H
    (arrFn n b) (arrFn n x0) maxIter tol hu8 cA hcA hεc X R (e1.trans hok)
    (by
      intro j hj
      simp only [hbb]
      rw [(T j).2.2.1]
      exact hX j (e2 ▸ hj))
    (by
      intro j hj
      simp only [hbb]
      rw [(T j).2.2.2]
      exact hR j (e2 ▸ hj))
  obtain ⟨rk, hrk, hit, ht, hd⟩ := key
  simp only [hbb] at hrk ht hd
  rw [e2] at hrk hit hd
  rw [(T _).2.2.2] at hrk
  rw [e4] at hd
  refine ⟨hsz, hit, _, rfl, (T _).2.1, ?_, ?_⟩
  · rw [hrk, ofFn_arrFn _ (T _).2.1] at ht
    exact ht
  · rw [hrk] at hd
    exact hd

/-- **BiCG on arrays over `Fl M`** (`itol` 1 and 2). -/
theorem bicg_success_true_residual_arr {s : Sp (Fl M)} {n : Nat} (h : SqWF s n)
    {A : (Fin n → ℝ) →ₗ[ℝ] (Fin n → ℝ)} {a εA : ℝ} (H : FlMatVec (mvOf s n) A a εA)
    (norm2 : Array (Fl M) → Fl M) (b x0 : Array (Fl M)) (hb : b.size = n) (hx : x0.size = n)
    (maxIter : ℕ) (tol : Fl M) (itol : ℕ)
    (hu8 : M.u ≤ 1 / 8) (cA : ℝ) (hcA : 0 ≤ cA) (hεc : εA ≤ cA * M.u) (X R : ℝ)
    (hok : (solveBiCG (arrOps s n norm2) b x0 maxIter tol itol).ok = true)
    (hX : ∀ j, j ≤ (solveBiCG (arrOps s n norm2) b x0 maxIter tol itol).iters →
      ‖rval n (bicgStates (arrOps s n norm2) (guardNorm (norm2 b)) itol
        (bicgInit (arrOps s n norm2) b x0 (guardNorm (norm2 b)) itol) j).x‖ ≤ X)
    (hR : ∀ j, j < (solveBiCG (arrOps s n norm2) b x0 maxIter tol itol).iters →
      ‖rval n (bicgStates (arrOps s n norm2) (guardNorm (norm2 b)) itol
        (bicgInit (arrOps s n norm2) b x0 (guardNorm (norm2 b)) itol) j).r‖ ≤ R) :
    (solveBiCG (arrOps s n norm2) b x0 maxIter tol itol).x.size = n ∧
    (solveBiCG (arrOps s n norm2) b x0 maxIter tol itol).iters ≤ maxIter ∧
    ∃ rk : Array (Fl M),
      rk = (bicgStates (arrOps s n norm2) (guardNorm (norm2 b)) itol
        (bicgInit (arrOps s n norm2) b x0 (guardNorm (norm2 b)) itol)
        (solveBiCG (arrOps s n norm2) b x0 maxIter tol itol).iters).r ∧
      rk.size = n ∧
      Transc.le (norm2 rk / guardNorm (norm2 b)) tol = true ∧
      ‖(rval n b - A (rval n (solveBiCG (arrOps s n norm2) b x0 maxIter tol itol).x))
          - rval n rk‖
        ≤ M.u * (‖rval n b‖ + (1 + 2 * cA) * a * X)
          + (solveBiCG (arrOps s n norm2) b x0 maxIter tol itol).iters * M.u
              * ((16 + 6 * cA) * a * X + R) := by
  obtain ⟨hsz, e1, e2, e4⟩ := bicg_sim_fl h norm2 b x0 hb hx maxIter tol itol
  have hbb : Array.ofFn (arrFn n b) = b := ofFn_arrFn b hb
  have T := bicgStates_sim_fl h norm2 b x0 hb hx (guardNorm (norm2 b)) itol
  have key := bicg_success_true_residual (mvT := mvTOf s n) (dot := dotOf n)
    (norm2 := fun f => norm2 (Array.ofFn f)) H
    (arrFn n b) (arrFn n x0) maxIter tol itol hu8 cA hcA hεc X R (e1.trans hok)
    (by
      intro j hj
      simp only [hbb]
      rw [(T j).2.2.1]
      exact hX j (e2 ▸ hj))
    (by
      intro j hj
      simp only [hbb]
      rw [(T j).2.2.2]
      exact hR j (e2 ▸ hj))
  obtain ⟨rk, hrk, hit, ht, hd⟩ := key
  simp only [hbb] at hrk ht hd
  rw [e2] at hrk hit hd
  rw [(T _).2.2.2] at hrk
  rw [e4] at hd
  refine ⟨hsz, hit, _, rfl, (T _).2.1, ?_, ?_⟩
  · rw [hrk, ofFn_arrFn _ (T _).2.1] at ht
    exact ht
  · rw [hrk] at hd
    exact hd

/-- what `solveIter` returns on a well-formed square storage: the guards hold and the result is the
    iteration over `arrOps s n norm2` -/
theorem solveIter_run {s : Sp (Fl M)} {n : Nat} (h : SqWF s n) (norm2 : Array (Fl M) → Fl M)
    (m : Sp.Method) (b x0 : Array (Fl M)) (maxIter : ℕ) (tol : Fl M)
    (out : KOut (Fl M) (Array (Fl M)))
    (hrun : Sp.solveIter s m b x0 maxIter tol norm2 = .ok out) :
    b.size = n ∧ x0.size = n ∧ out = runMethod (arrOps s n norm2) m b x0 maxIter tol := by
  obtain ⟨g, gm⟩ := (solveIter_ok_iff s m b x0 maxIter tol norm2).1 ⟨out, hrun⟩
  rw [solveIter_ok s m b x0 maxIter tol norm2 g gm] at hrun
  obtain ⟨h1, h2, h3, h4⟩ := g
  have hb : b.size = n := by rw [← h1, h.rows]
  have hx : x0.size = n := by rw [← h3, hb]
  rw [h.rows] at hrun
  cases hrun
  exact ⟨hb, hx, rfl⟩

/-- on a well-formed square storage over `Fl M` with right-hand side and guess of size `n` the call
    does return a value (the storage guard of `solveIter` passes: the first product cannot panic) -/
theorem solveIter_runs {s : Sp (Fl M)} {n : Nat} (h : SqWF s n) (norm2 : Array (Fl M) → Fl M)
    (b x0 : Array (Fl M)) (hb : b.size = n) (hx : x0.size = n) (maxIter : ℕ) (tol : Fl M) :
    Sp.solveIter s .cg b x0 maxIter tol norm2
      = .ok (solveCG (Sp.arrOps s n norm2) b x0 maxIter tol) := by
  obtain ⟨y, hy, _⟩ := C07.multiply_fold h.wf x0 (hx.trans h.cols.symm)
  have g : Guards s .cg b x0 :=
    ⟨h.rows.trans hb.symm, h.rows.trans h.cols.symm, hb.trans hx.symm, fun _ hm => by cases hm⟩
  rw [solveIter_ok s .cg b x0 maxIter tol norm2 g ⟨y, hy⟩, h.rows]
  rfl

/-- **`solve_cg` of the model, any real matrix the product is known to approximate**: the statement
    of `cg_success_true_residual_sparse` with the product assumption `FlMatVec (mvOf s n) A a εA`
    about the MODEL's product `mvOf s n = toFn ∘ Sp.multiply s ∘ ofFn` as a hypothesis
    (`flMatVec_multiply` provides it for duplicate-free storage, `flMatVec_multiply_slots` for every
    well-formed storage). -/
theorem cg_success_true_residual_sparse_of {s : Sp (Fl M)} {n : Nat} (h : SqWF s n)
    {A : (Fin n → ℝ) →ₗ[ℝ] (Fin n → ℝ)} {a εA : ℝ} (H : FlMatVec (mvOf s n) A a εA)
    (norm2 : Array (Fl M) → Fl M) (b x0 : Array (Fl M)) (maxIter : ℕ) (tol : Fl M)
    (out : KOut (Fl M) (Array (Fl M)))
    (hrun : Sp.solveIter s .cg b x0 maxIter tol norm2 = .ok out) (hok : out.ok = true)
    (hu8 : M.u ≤ 1 / 8) (cA : ℝ) (hcA : 0 ≤ cA) (hεc : εA ≤ cA * M.u) (X R : ℝ)
    (hX : ∀ j, j ≤ out.iters →
      ‖rval n (cgStates (Sp.arrOps s n norm2) (guardNorm (norm2 b))
        (cgInit (Sp.arrOps s n norm2) b x0 (guardNorm (norm2 b))) j).x‖ ≤ X)
    (hR : ∀ j, j < out.iters →
      ‖rval n (cgStates (Sp.arrOps s n norm2) (guardNorm (norm2 b))
        (cgInit (Sp.arrOps s n norm2) b x0 (guardNorm (norm2 b))) j).r‖ ≤ R) :
    out.x.size = n ∧ out.iters ≤ maxIter ∧
    ∃ rk : Array (Fl M),
      rk = (cgStates (Sp.arrOps s n norm2) (guardNorm (norm2 b))
        (cgInit (Sp.arrOps s n norm2) b x0 (guardNorm (norm2 b))) out.iters).r ∧
      rk.size = n ∧
      Transc.le (norm2 rk / guardNorm (norm2 b)) tol = true ∧
      ‖(rval n b - A (rval n out.x)) - rval n rk‖
        ≤ M.u * (‖rval n b‖ + (1 + 2 * cA) * a * X)
          + out.iters * M.u * ((16 + 6 * cA) * a * X + R) := by
  obtain ⟨hb, hx, rfl⟩ := solveIter_run h norm2 .cg b x0 maxIter tol out hrun
  exact cg_success_true_residual_arr h H norm2 b x0 hb hx maxIter tol hu8 cA hcA hεc X R hok hX hR

/-- **`solve_bicg` of the model, any real matrix the product is known to approximate** -/
theorem bicg_success_true_residual_sparse_of {s : Sp (Fl M)} {n : Nat} (h : SqWF s n)
    {A : (Fin n → ℝ) →ₗ[ℝ] (Fin n → ℝ)} {a εA : ℝ} (H : FlMatVec (mvOf s n) A a εA)
    (norm2 : Array (Fl M) → Fl M) (b x0 : Array (Fl M)) (maxIter : ℕ) (tol : Fl M) (itol : ℕ)
    (out : KOut (Fl M) (Array (Fl M)))
    (hrun : Sp.solveIter s (.bicg itol) b x0 maxIter tol norm2 = .ok out) (hok : out.ok = true)
    (hu8 : M.u ≤ 1 / 8) (cA : ℝ) (hcA : 0 ≤ cA) (hεc : εA ≤ cA * M.u) (X R : ℝ)
    (hX : ∀ j, j ≤ out.iters →
      ‖rval n (bicgStates (Sp.arrOps s n norm2) (guardNorm (norm2 b)) itol
        (bicgInit (Sp.arrOps s n norm2) b x0 (guardNorm (norm2 b)) itol) j).x‖ ≤ X)
    (hR : ∀ j, j < out.iters →
      ‖rval n (bicgStates (Sp.arrOps s n norm2) (guardNorm (norm2 b)) itol
        (bicgInit (Sp.arrOps s n norm2) b x0 (guardNorm (norm2 b)) itol) j).r‖ ≤ R) :
    (itol = 1 ∨ itol = 2) ∧ out.x.size = n ∧ out.iters ≤ maxIter ∧
    ∃ rk : Array (Fl M),
      rk = (bicgStates (Sp.arrOps s n norm2) (guardNorm (norm2 b)) itol
        (bicgInit (Sp.arrOps s n norm2) b x0 (guardNorm (norm2 b)) itol) out.iters).r ∧
      rk.size = n ∧
      Transc.le (norm2 rk / guardNorm (norm2 b)) tol = true ∧
      ‖(rval n b - A (rval n out.x)) - rval n rk‖
        ≤ M.u * (‖rval n b‖ + (1 + 2 * cA) * a * X)
          + out.iters * M.u * ((16 + 6 * cA) * a * X + R) := by
  have hit : itol = 1 ∨ itol = 2 :=
    ((solveIter_ok_iff s (.bicg itol) b x0 maxIter tol norm2).1 ⟨out, hrun⟩).1.2.2.2 itol rfl
  obtain ⟨hb, hx, rfl⟩ := solveIter_run h norm2 (.bicg itol) b x0 maxIter tol out hrun
  exact ⟨hit, bicg_success_true_residual_arr h H norm2 b x0 hb hx maxIter tol itol hu8 cA hcA hεc
    X R hok hX hR⟩

/-- **C08, quantitative clause, for the model's `solve_cg`** (`Sp.solveIter s .cg` at scalars `Fl M`,
    standard model of floating-point arithmetic, ∞-norm).  Let `s` be a well-formed duplicate-free
    square storage of order `n`, `A = sqMat s n` the REAL matrix it denotes, `a` a bound of its
    absolute row sums (`a ≥ ‖A‖∞`), `kA` a bound of the number of stored entries per row,
    `M.u ≤ 1/8` and `(1+u)^(kA+1) − 1 ≤ cA · u`.  If the call returns `out` reporting success, and `X`,
    `R` bound the computed iterates (`j ≤ iters`) and recurrence residuals (`j < iters`), then `out.x`
    has size `n`, `out.iters ≤ maxIter`, the recurrence residual `rk` of the exit state passed the
    model's test, and the TRUE residual `b − A·out.x`, formed in REAL arithmetic from the real values
    of the arrays, differs from it by at most
    `u (‖b‖ + (1 + 2 cA) a X) + iters · u · ((16 + 6 cA) a X + R)`.
    `norm2` and the comparison `Transc.le` are arbitrary; the product, transposed product and dot
    product are the model's (`Sp.multiply`, `Sp.transposeMultiply`, fold of rounded products). -/
theorem cg_success_true_residual_sparse {s : Sp (Fl M)} {n : Nat} (h : SqWF s n) (hnd : NoDup s)
    (norm2 : Array (Fl M) → Fl M) (b x0 : Array (Fl M)) (maxIter : ℕ) (tol : Fl M)
    (out : KOut (Fl M) (Array (Fl M)))
    (hrun : Sp.solveIter s .cg b x0 maxIter tol norm2 = .ok out) (hok : out.ok = true)
    (a : ℝ) (ha : 0 ≤ a) (hrow : ∀ i, ∑ j, |sqMat s n i j| ≤ a)
    (kA : ℕ) (hk : ∀ i, i < n → rowCount s i ≤ kA)
    (hu8 : M.u ≤ 1 / 8) (cA : ℝ) (hcA : 0 ≤ cA) (hεc : M.gam (kA + 1) ≤ cA * M.u) (X R : ℝ)
    (hX : ∀ j, j ≤ out.iters →
      ‖rval n (cgStates (Sp.arrOps s n norm2) (guardNorm (norm2 b))
        (cgInit (Sp.arrOps s n norm2) b x0 (guardNorm (norm2 b))) j).x‖ ≤ X)
    (hR : ∀ j, j < out.iters →
      ‖rval n (cgStates (Sp.arrOps s n norm2) (guardNorm (norm2 b))
        (cgInit (Sp.arrOps s n norm2) b x0 (guardNorm (norm2 b))) j).r‖ ≤ R) :
    out.x.size = n ∧ out.iters ≤ maxIter ∧
    ∃ rk : Array (Fl M),
      rk = (cgStates (Sp.arrOps s n norm2) (guardNorm (norm2 b))
        (cgInit (Sp.arrOps s n norm2) b x0 (guardNorm (norm2 b))) out.iters).r ∧
      rk.size = n ∧
      Transc.le (norm2 rk / guardNorm (norm2 b)) tol = true ∧
      ‖(rval n b - rowLin (sqMat s n) (rval n out.x)) - rval n rk‖
        ≤ M.u * (‖rval n b‖ + (1 + 2 * cA) * a * X)
          + out.iters * M.u * ((16 + 6 * cA) * a * X + R) :=
  cg_success_true_residual_sparse_of h (flMatVec_multiply h hnd a ha hrow kA hk) norm2 b x0 maxIter
    tol out hrun hok hu8 cA hcA hεc X R hX hR

/-- **C08, quantitative clause, for the model's `solve_bicg`** (`Sp.solveIter s (.bicg itol)`; the
    `itol` guard has passed since the call returned): the statement of
    `cg_success_true_residual_sparse`. -/
theorem bicg_success_true_residual_sparse {s : Sp (Fl M)} {n : Nat} (h : SqWF s n) (hnd : NoDup s)
    (norm2 : Array (Fl M) → Fl M) (b x0 : Array (Fl M)) (maxIter : ℕ) (tol : Fl M) (itol : ℕ)
    (out : KOut (Fl M) (Array (Fl M)))
    (hrun : Sp.solveIter s (.bicg itol) b x0 maxIter tol norm2 = .ok out) (hok : out.ok = true)
    (a : ℝ) (ha : 0 ≤ a) (hrow : ∀ i, ∑ j, |sqMat s n i j| ≤ a)
    (kA : ℕ) (hk : ∀ i, i < n → rowCount s i ≤ kA)
    (hu8 : M.u ≤ 1 / 8) (cA : ℝ) (hcA : 0 ≤ cA) (hεc : M.gam (kA + 1) ≤ cA * M.u) (X R : ℝ)
    (hX : ∀ j, j ≤ out.iters →
      ‖rval n (bicgStates (Sp.arrOps s n norm2) (guardNorm (norm2 b)) itol
        (bicgInit (Sp.arrOps s n norm2) b x0 (guardNorm (norm2 b)) itol) j).x‖ ≤ X)
    (hR : ∀ j, j < out.iters →
      ‖rval n (bicgStates (Sp.arrOps s n norm2) (guardNorm (norm2 b)) itol
        (bicgInit (Sp.arrOps s n norm2) b x0 (guardNorm (norm2 b)) itol) j).r‖ ≤ R) :
    (itol = 1 ∨ itol = 2) ∧ out.x.size = n ∧ out.iters ≤ maxIter ∧
    ∃ rk : Array (Fl M),
      rk = (bicgStates (Sp.arrOps s n norm2) (guardNorm (norm2 b)) itol
        (bicgInit (Sp.arrOps s n norm2) b x0 (guardNorm (norm2 b)) itol) out.iters).r ∧
      rk.size = n ∧
      Transc.le (norm2 rk / guardNorm (norm2 b)) tol = true ∧
      ‖(rval n b - rowLin (sqMat s n) (rval n out.x)) - rval n rk‖
        ≤ M.u * (‖rval n b‖ + (1 + 2 * cA) * a * X)
          + out.iters * M.u * ((16 + 6 * cA) * a * X + R) :=
  bicg_success_true_residual_sparse_of h (flMatVec_multiply h hnd a ha hrow kA hk) norm2 b x0 maxIter
    tol itol out hrun hok hu8 cA hcA hεc X R hX hR

/-- **the same with the norm of the recurrence residual and explicit constants**: `a = ‖A‖∞`
    (`normInf`, the largest absolute row sum of the stored matrix), `εA = (1+u)^(n+1) − 1 ≤ 2(n+1)u`
    when `(n+1) u ≤ 1/2` (so `cA = 2(n+1)`).  If passing the model's stopping test (arbitrary `norm2`,
    rounded `/`, arbitrary comparison) implies `‖r‖∞ ≤ τ` for arrays of size `n`, then on success
    `‖b − A·out.x‖∞ ≤ τ + u (‖b‖ + (4n+5) ‖A‖∞ X) + iters · u · ((12n+28) ‖A‖∞ X + R)`. -/
theorem cg_success_true_residual_norm_sparse {s : Sp (Fl M)} {n : Nat} (h : SqWF s n)
    (hnd : NoDup s) (norm2 : Array (Fl M) → Fl M) (b x0 : Array (Fl M)) (maxIter : ℕ) (tol : Fl M)
    (out : KOut (Fl M) (Array (Fl M)))
    (hrun : Sp.solveIter s .cg b x0 maxIter tol norm2 = .ok out) (hok : out.ok = true)
    (hu8 : M.u ≤ 1 / 8) (hnu : ((n + 1 : ℕ) : ℝ) * M.u ≤ 1 / 2) (X R τ : ℝ)
    (htest : ∀ r : Array (Fl M), r.size = n →
      Transc.le (norm2 r / guardNorm (norm2 b)) tol = true → ‖rval n r‖ ≤ τ)
    (hX : ∀ j, j ≤ out.iters →
      ‖rval n (cgStates (Sp.arrOps s n norm2) (guardNorm (norm2 b))
        (cgInit (Sp.arrOps s n norm2) b x0 (guardNorm (norm2 b))) j).x‖ ≤ X)
    (hR : ∀ j, j < out.iters →
      ‖rval n (cgStates (Sp.arrOps s n norm2) (guardNorm (norm2 b))
        (cgInit (Sp.arrOps s n norm2) b x0 (guardNorm (norm2 b))) j).r‖ ≤ R) :
    ‖rval n b - rowLin (sqMat s n) (rval n out.x)‖
      ≤ τ + M.u * (‖rval n b‖ + (4 * n + 5) * normInf (sqMat s n) * X)
        + out.iters * M.u * ((12 * n + 28) * normInf (sqMat s n) * X + R) := by
  obtain ⟨_, _, rk, _, hsz, ht, hd⟩ := cg_success_true_residual_sparse h hnd norm2 b x0 maxIter tol
    out hrun hok (normInf (sqMat s n)) (normInf_nonneg _) (row_le_normInf _) n
    (fun i _ => by have := C07.rowCount_le_cols h.wf hnd i; rw [h.cols] at this; exact this)
    hu8 (2 * (n + 1 : ℕ)) (by positivity) (gam_le_two_mul (n + 1) hnu) X R hX hR
  have h1 := htest rk hsz ht
  have h2 := norm_add_le ((rval n b - rowLin (sqMat s n) (rval n out.x)) - rval n rk) (rval n rk)
  rw [sub_add_cancel] at h2
  have e1 : (1 + 2 * (2 * ((n + 1 : ℕ) : ℝ))) = 4 * n + 5 := by push_cast; ring
  have e2 : (16 + 6 * (2 * ((n + 1 : ℕ) : ℝ))) = 12 * n + 28 := by push_cast; ring
  rw [e1, e2] at hd
  linarith

/-- the BiCG statement with the norm of the recurrence residual and explicit constants -/
theorem bicg_success_true_residual_norm_sparse {s : Sp (Fl M)} {n : Nat} (h : SqWF s n)
    (hnd : NoDup s) (norm2 : Array (Fl M) → Fl M) (b x0 : Array (Fl M)) (maxIter : ℕ) (tol : Fl M)
    (itol : ℕ) (out : KOut (Fl M) (Array (Fl M)))
    (hrun : Sp.solveIter s (.bicg itol) b x0 maxIter tol norm2 = .ok out) (hok : out.ok = true)
    (hu8 : M.u ≤ 1 / 8) (hnu : ((n + 1 : ℕ) : ℝ) * M.u ≤ 1 / 2) (X R τ : ℝ)
    (htest : ∀ r : Array (Fl M), r.size = n →
      Transc.le (norm2 r / guardNorm (norm2 b)) tol = true → ‖rval n r‖ ≤ τ)
    (hX : ∀ j, j ≤ out.iters →
      ‖rval n (bicgStates (Sp.arrOps s n norm2) (guardNorm (norm2 b)) itol
        (bicgInit (Sp.arrOps s n norm2) b x0 (guardNorm (norm2 b)) itol) j).x‖ ≤ X)
    (hR : ∀ j, j < out.iters →
      ‖rval n (bicgStates (Sp.arrOps s n norm2) (guardNorm (norm2 b)) itol
        (bicgInit (Sp.arrOps s n norm2) b x0 (guardNorm (norm2 b)) itol) j).r‖ ≤ R) :
    ‖rval n b - rowLin (sqMat s n) (rval n out.x)‖
      ≤ τ + M.u * (‖rval n b‖ + (4 * n + 5) * normInf (sqMat s n) * X)
        + out.iters * M.u * ((12 * n + 28) * normInf (sqMat s n) * X + R) := by
  obtain ⟨_, _, _, rk, _, hsz, ht, hd⟩ := bicg_success_true_residual_sparse h hnd norm2 b x0 maxIter
    tol itol out hrun hok (normInf (sqMat s n)) (normInf_nonneg _) (row_le_normInf _) n
    (fun i _ => by have := C07.rowCount_le_cols h.wf hnd i; rw [h.cols] at this; exact this)
    hu8 (2 * (n + 1 : ℕ)) (by positivity) (gam_le_two_mul (n + 1) hnu) X R hX hR
  have h1 := htest rk hsz ht
  have h2 := norm_add_le ((rval n b - rowLin (sqMat s n) (rval n out.x)) - rval n rk) (rval n rk)
  rw [sub_add_cancel] at h2
  have e1 : (1 + 2 * (2 * ((n + 1 : ℕ) : ℝ))) = 4 * n + 5 := by push_cast; ring
  have e2 : (16 + 6 * (2 * ((n + 1 : ℕ) : ℝ))) = 12 * n + 28 := by push_cast; ring
  rw [e1, e2] at hd
  linarith

end Sparse

end Rounding

/-! ### non-vacuity -/
section Examples
open Ohsl.Props.C07 (rowCount colCount NoDup)

/-- (S) a run that fails the initial test and passes the test of the first iteration -/
theorem solveCG_first_step {K V : Type} [Add K] [Sub K] [Mul K] [Neg K] [Div K] [Zero K] [One K]
    [BEq K] [Transc K] (o : VOps K V) (b x : V) (m : Nat) (tol : K)
    (h0 : Transc.le (cgInit o b x (guardNorm (o.norm2 b))).resid tol = false)
    (h1 : Transc.le (cgNext o (guardNorm (o.norm2 b)) 1
      (cgInit o b x (guardNorm (o.norm2 b)))).resid tol = true) :
    solveCG o b x (m + 1) tol = ⟨true, 1,
      (cgNext o (guardNorm (o.norm2 b)) 1 (cgInit o b x (guardNorm (o.norm2 b)))).resid,
      (cgNext o (guardNorm (o.norm2 b)) 1 (cgInit o b x (guardNorm (o.norm2 b)))).x⟩ := by
  have h0' : Transc.le (o.norm2 (o.sub b (o.A x)) / guardNorm (o.norm2 b)) tol = false := h0
  unfold solveCG
  simp only [h0', Bool.false_eq_true, if_false]
  show iterate (cgStep o (guardNorm (o.norm2 b)) tol) _ (m + 1) 1
    (cgInit o b x (guardNorm (o.norm2 b))) = _
  unfold iterate
  rw [cgStep_eq_next, if_pos h1]

/-- the symmetric positive definite matrix `[[2,1],[1,2]]` in CSC form, over any rounded-reals model -/
def spd2F (M : FlModel) : Sp (Fl M) :=
  ⟨2, 2, 4, #[⟨2⟩, ⟨1⟩, ⟨1⟩, ⟨2⟩], #[0, 1, 0, 1], #[0, 2, 4]⟩

/-- `SqWF` and `NoDup` are satisfiable, in every model -/
theorem spd2F_sqwf (M : FlModel) : SqWF (spd2F M) 2 ∧ NoDup (spd2F M) := by
  refine ⟨⟨⟨rfl, rfl, ?_, rfl, rfl, rfl, ?_⟩, rfl, rfl⟩, ?_⟩
  · intro j hj
    have hj' : j < 2 := hj
    interval_cases j <;> simp [Sp.cs, spd2F]
  · intro k hk
    have hk' : k < 4 := hk
    interval_cases k <;> simp [Sp.ri, spd2F]
  · intro j hj k k' a b c d e
    have hj' : j < 2 := hj
    interval_cases j <;> simp [Sp.cs, spd2F] at a b c d <;>
      interval_cases k <;> interval_cases k' <;> simp_all [Sp.ri, spd2F]

/-- the real matrix it denotes is `[[2,1],[1,2]]` -/
theorem spd2F_entries (M : FlModel) :
    C07.entryR (spd2F M) 0 0 = 2 ∧ C07.entryR (spd2F M) 0 1 = 1 ∧
    C07.entryR (spd2F M) 1 0 = 1 ∧ C07.entryR (spd2F M) 1 1 = 2 := by
  have c0 : (spd2F M).cs 0 = 0 := rfl
  have c1 : (spd2F M).cs 1 = 2 := rfl
  have c2 : (spd2F M).cs 2 = 4 := rfl
  have r0 : (spd2F M).ri 0 = 0 := rfl
  have r1 : (spd2F M).ri 1 = 1 := rfl
  have r2 : (spd2F M).ri 2 = 0 := rfl
  have r3 : (spd2F M).ri 3 = 1 := rfl
  have v0 : (spd2F M).vl 0 = ⟨2⟩ := rfl
  have v1 : (spd2F M).vl 1 = ⟨1⟩ := rfl
  have v2 : (spd2F M).vl 2 = ⟨1⟩ := rfl
  have v3 : (spd2F M).vl 3 = ⟨2⟩ := rfl
  refine ⟨?_, ?_, ?_, ?_⟩ <;> rw [C07.entryR_eq] <;>
    simp [c0, c1, c2, Finset.sum_Ico_succ_top, Finset.sum_range_succ, r0, r1, r2, r3, v0, v1, v2, v3]

/-- its absolute row sums are `3` (`= ‖A‖∞`) and every row holds `2` entries -/
theorem spd2F_rows (M : FlModel) :
    (∀ i, ∑ j, |sqMat (spd2F M) 2 i j| ≤ 3) ∧ (∀ i, i < 2 → rowCount (spd2F M) i ≤ 2) := by
  obtain ⟨e00, e01, e10, e11⟩ := spd2F_entries M
  constructor
  · intro i
    fin_cases i <;> simp [Fin.sum_univ_two, sqMat, e00, e01, e10, e11] <;> norm_num
  · intro i hi
    interval_cases i <;> exact le_of_eq rfl

/-- a `Transc (Fl M)` used only by the examples: `<=` is the exact comparison of the values (nothing
    else is evaluated by CG / BiCG) -/
@[reducible] noncomputable def leTransc (M : FlModel) : Transc (Fl M) where
  sqrt := id
  sin := id
  cos := id
  tan := id
  exp := id
  ln := id
  sinh := id
  cosh := id
  fabs := id
  atan2 := fun a _ => a
  powf := fun a _ => a
  fmax := fun a _ => a
  ofNat := fun n => ⟨n⟩
  le := fun a b => decide (a.val ≤ b.val)
  half := ⟨1 / 2⟩
  piHalf := 0
  eps := 0
  snap := 0

/-- the exact 1-norm of the first two components (any function is allowed as the norm) -/
noncomputable def nrm1 {M : FlModel} (a : Array (Fl M)) : Fl M :=
  ⟨|(a.getD 0 0).val| + |(a.getD 1 0).val|⟩

private theorem Fl_mk_add {M : FlModel} (a b : ℝ) : ((⟨a⟩ : Fl M) + ⟨b⟩) = ⟨M.fl (a + b)⟩ := rfl
private theorem Fl_mk_sub {M : FlModel} (a b : ℝ) : ((⟨a⟩ : Fl M) - ⟨b⟩) = ⟨M.fl (a - b)⟩ := rfl
private theorem Fl_mk_mul {M : FlModel} (a b : ℝ) : ((⟨a⟩ : Fl M) * ⟨b⟩) = ⟨M.fl (a * b)⟩ := rfl
private theorem Fl_mk_div {M : FlModel} (a b : ℝ) : ((⟨a⟩ : Fl M) / ⟨b⟩) = ⟨M.fl (a / b)⟩ := rfl
private theorem Fl_zero_mk {M : FlModel} (a : ℝ) : (0 : Fl M) + ⟨a⟩ = ⟨M.fl (0 + a)⟩ := rfl

/-- **a run that succeeds THROUGH THE LOOP, in every model in which the integers `0, ±1, ±2` are
    representable** (`binary64`, `exact`, …): the model's CG on `[[2,1],[1,2]] x = [1,−1]` from
    `x₀ = 0` with `tol = 0` is not accepted at the initial check (relative residual `1`) and succeeds
    in iteration 1 with `x = [1,−1]` (every intermediate value is one of `0, ±1, ±2`). -/
theorem spd2F_run (M : FlModel) (hrep : ∀ k : ℤ, |k| ≤ 2 → M.fl k = k) :
    letI := leTransc M
    solveCG (Sp.arrOps (spd2F M) 2 nrm1) #[⟨1⟩, ⟨-1⟩] #[⟨0⟩, ⟨0⟩] 5 ⟨0⟩
      = ⟨true, 1, ⟨0⟩, #[⟨1⟩, ⟨-1⟩]⟩ := by
  let _ := leTransc M
  have f0 : M.fl 0 = 0 := M.fl_zero
  have f1 : M.fl 1 = 1 := by simpa using hrep 1 (by norm_num)
  have f2 : M.fl 2 = 2 := by simpa using hrep 2 (by norm_num)
  have fm1 : M.fl (-1) = -1 := by simpa using hrep (-1) (by norm_num)
  have fm2 : M.fl (-2) = -2 := by simpa using hrep (-2) (by norm_num)
  set o := Sp.arrOps (spd2F M) 2 (nrm1 (M := M)) with ho
  have hA : ∀ x0 x1 : Fl M, o.A #[x0, x1]
      = #[0 + ⟨2⟩ * x0 + ⟨1⟩ * x1, 0 + ⟨1⟩ * x0 + ⟨2⟩ * x1] := fun _ _ => rfl
  have hsub : ∀ a0 a1 b0 b1 : Fl M, o.sub #[a0, a1] #[b0, b1] = #[a0 - b0, a1 - b1] :=
    fun _ _ _ _ => by simp [o, Sp.arrOps]
  have hadd : ∀ a0 a1 b0 b1 : Fl M, o.add #[a0, a1] #[b0, b1] = #[a0 + b0, a1 + b1] :=
    fun _ _ _ _ => by simp [o, Sp.arrOps]
  have hsmul : ∀ (a0 a1 k : Fl M), o.smul #[a0, a1] k = #[a0 * k, a1 * k] :=
    fun _ _ _ => by simp [o, Sp.arrOps]
  have hdot : ∀ a0 a1 b0 b1 : Fl M, o.dot #[a0, a1] #[b0, b1] = 0 + a0 * b0 + a1 * b1 :=
    fun _ _ _ _ => by simp [o, Sp.arrOps]
  have hnrm : ∀ a0 a1 : Fl M, o.norm2 #[a0, a1] = ⟨|a0.val| + |a1.val|⟩ := fun _ _ => rfl
  have hnb : guardNorm (o.norm2 #[⟨1⟩, ⟨-1⟩]) = (⟨2⟩ : Fl M) := by
    rw [hnrm]
    have : (⟨|(1:ℝ)| + |(-1:ℝ)|⟩ : Fl M) = ⟨2⟩ := by
      apply Fl.ext; norm_num
    rw [this]
    unfold guardNorm
    rw [if_neg]
    simp [Fl.ext_iff]
  have hAx0 : o.A #[⟨0⟩, ⟨0⟩] = #[⟨0⟩, ⟨0⟩] := by
    rw [hA]; norm_num [Fl_mk_add, Fl_mk_mul, Fl_zero_mk, f0]
  have hr0 : o.sub #[⟨1⟩, ⟨-1⟩] (o.A #[⟨0⟩, ⟨0⟩]) = #[⟨1⟩, ⟨-1⟩] := by
    rw [hAx0, hsub]; norm_num [Fl_mk_sub, f1, fm1]
  have hS0 : cgInit o #[⟨1⟩, ⟨-1⟩] #[⟨0⟩, ⟨0⟩] ⟨2⟩
      = ⟨#[⟨0⟩, ⟨0⟩], #[⟨1⟩, ⟨-1⟩], o.zero, 1, ⟨1⟩⟩ := by
    unfold cgInit
    rw [hr0, hnrm]
    norm_num [Fl_mk_div, f1]
  have hq : o.A #[⟨1⟩, ⟨-1⟩] = #[⟨1⟩, ⟨-1⟩] := by
    rw [hA]; norm_num [Fl_mk_add, Fl_mk_mul, Fl_zero_mk, f0, f1, f2, fm1, fm2]
  have hrho : o.dot #[⟨1⟩, ⟨-1⟩] #[⟨1⟩, ⟨-1⟩] = ⟨2⟩ := by
    rw [hdot]; norm_num [Fl_mk_add, Fl_mk_mul, Fl_zero_mk, f0, f1, f2, fm1, fm2]
  have hS1 : cgNext o ⟨2⟩ 1 ⟨#[⟨0⟩, ⟨0⟩], #[⟨1⟩, ⟨-1⟩], o.zero, 1, ⟨1⟩⟩
      = ⟨#[⟨1⟩, ⟨-1⟩], #[⟨0⟩, ⟨0⟩], #[⟨1⟩, ⟨-1⟩], ⟨2⟩, ⟨0⟩⟩ := by
    have hp : cgP o 1 ⟨#[⟨0⟩, ⟨0⟩], #[⟨1⟩, ⟨-1⟩], o.zero, 1, ⟨1⟩⟩ = #[⟨1⟩, ⟨-1⟩] := rfl
    have hα : cgAlpha o 1 ⟨#[⟨0⟩, ⟨0⟩], #[⟨1⟩, ⟨-1⟩], o.zero, 1, ⟨1⟩⟩ = ⟨1⟩ := by
      unfold cgAlpha
      rw [hp, hq, hrho]
      norm_num [Fl_mk_div, f1]
    unfold cgNext
    simp only [hp, hα, hq, hrho, hsmul, hadd, hsub, hnrm]
    norm_num [Fl_mk_add, Fl_mk_sub, Fl_mk_mul, Fl_mk_div, f0, f1, fm1]
  rw [solveCG_first_step o _ _ 4 ⟨0⟩ (by rw [hnb, hS0]; show decide ((1 : ℝ) ≤ 0) = false; norm_num)
    (by rw [hnb, hS0, hS1]; show decide ((0 : ℝ) ≤ 0) = true; norm_num), hnb, hS0, hS1]

/-- the representability hypothesis of `spd2F_run` holds in `binary64` and in the exact model, and
    both have `u ≤ 1/8` -/
theorem rep_small_binary64_exact :
    (FlModel.binary64.u ≤ 1 / 8 ∧ ∀ k : ℤ, |k| ≤ 2 → FlModel.binary64.fl k = k) ∧
    (FlModel.exact.u ≤ 1 / 8 ∧ ∀ k : ℤ, |k| ≤ 2 → FlModel.exact.fl k = k) := by
  refine ⟨⟨?_, ?_⟩, ?_, fun _ _ => rfl⟩
  · rw [FlModel.binary64_u]
    norm_num
  · intro k hk
    exact FlModel.roundBits_rep_int 52 k (lt_of_le_of_lt hk (by norm_num))
  · show (0 : ℝ) ≤ 1 / 8
    norm_num

/-- **all hypotheses of `cg_success_true_residual_sparse` are satisfiable, non-trivially**: for the
    2×2 SPD storage `spd2F M` (`SqWF`, `NoDup`, `‖A‖∞ = 3`, two entries per row, so
    `εA = (1+u)³ − 1 ≤ 6u`, `cA = 6`) in every model with `u ≤ 1/8` in which `0, ±1, ±2` are
    representable — in particular `FlModel.binary64` and `FlModel.exact`
    (`rep_small_binary64_exact`) — the call `solve_cg` returns, reports success after ONE iteration
    of the loop, and the theorem bounds the drift of its true residual by
    `u (‖b‖ + 39 X) + 1 · u · (156 X + R)`. -/
example (M : FlModel) (hu8 : M.u ≤ 1 / 8) (hrep : ∀ k : ℤ, |k| ≤ 2 → M.fl k = k) :
    letI := leTransc M
    ∃ out : KOut (Fl M) (Array (Fl M)),
      Sp.solveIter (spd2F M) .cg #[⟨1⟩, ⟨-1⟩] #[⟨0⟩, ⟨0⟩] 5 ⟨0⟩ nrm1 = .ok out ∧
      out.ok = true ∧ out.iters = 1 ∧ out.x = #[⟨1⟩, ⟨-1⟩] ∧
      ∃ X R : ℝ, ∃ rk : Array (Fl M),
        Transc.le (nrm1 rk / guardNorm (nrm1 #[(⟨1⟩ : Fl M), ⟨-1⟩])) ⟨0⟩ = true ∧
        ‖(rval 2 #[(⟨1⟩ : Fl M), ⟨-1⟩] - rowLin (sqMat (spd2F M) 2) (rval 2 out.x)) - rval 2 rk‖
          ≤ M.u * (‖rval 2 #[(⟨1⟩ : Fl M), ⟨-1⟩]‖ + (1 + 2 * 6) * 3 * X)
            + out.iters * M.u * ((16 + 6 * 6) * 3 * X + R) := by
  let _ := leTransc M
  have hrun := solveIter_runs (spd2F_sqwf M).1 nrm1 #[(⟨1⟩ : Fl M), ⟨-1⟩] #[⟨0⟩, ⟨0⟩] rfl rfl 5 ⟨0⟩
  have hout := spd2F_run M hrep
  refine ⟨_, hrun, by rw [hout], by rw [hout], by rw [hout], ?_⟩
  obtain ⟨_, _, rk, _, _, ht, hd⟩ := cg_success_true_residual_sparse (spd2F_sqwf M).1 (spd2F_sqwf M).2
    nrm1 #[(⟨1⟩ : Fl M), ⟨-1⟩] #[⟨0⟩, ⟨0⟩] 5 ⟨0⟩ _ hrun (by rw [hout]) 3 (by norm_num)
    (spd2F_rows M).1 2 (spd2F_rows M).2 hu8 6 (by norm_num)
    (by have := gam_le_two_mul (M := M) 3 (by push_cast; linarith); push_cast at this; linarith)
    (∑ j ∈ Finset.range 6, ‖rval 2 (cgStates (Sp.arrOps (spd2F M) 2 nrm1)
      (guardNorm (nrm1 #[(⟨1⟩ : Fl M), ⟨-1⟩]))
      (cgInit (Sp.arrOps (spd2F M) 2 nrm1) #[⟨1⟩, ⟨-1⟩] #[⟨0⟩, ⟨0⟩]
        (guardNorm (nrm1 #[(⟨1⟩ : Fl M), ⟨-1⟩]))) j).x‖)
    (∑ j ∈ Finset.range 6, ‖rval 2 (cgStates (Sp.arrOps (spd2F M) 2 nrm1)
      (guardNorm (nrm1 #[(⟨1⟩ : Fl M), ⟨-1⟩]))
      (cgInit (Sp.arrOps (spd2F M) 2 nrm1) #[⟨1⟩, ⟨-1⟩] #[⟨0⟩, ⟨0⟩]
        (guardNorm (nrm1 #[(⟨1⟩ : Fl M), ⟨-1⟩]))) j).r‖)
    (fun j hj => Finset.single_le_sum (f := fun j => ‖rval 2 (cgStates (Sp.arrOps (spd2F M) 2 nrm1)
      (guardNorm (nrm1 #[(⟨1⟩ : Fl M), ⟨-1⟩]))
      (cgInit (Sp.arrOps (spd2F M) 2 nrm1) #[⟨1⟩, ⟨-1⟩] #[⟨0⟩, ⟨0⟩]
        (guardNorm (nrm1 #[(⟨1⟩ : Fl M), ⟨-1⟩]))) j).x‖)
      (fun _ _ => norm_nonneg _) (Finset.mem_range.mpr (by rw [hout] at hj; simp at hj; omega)))
    (fun j hj => Finset.single_le_sum (f := fun j => ‖rval 2 (cgStates (Sp.arrOps (spd2F M) 2 nrm1)
      (guardNorm (nrm1 #[(⟨1⟩ : Fl M), ⟨-1⟩]))
      (cgInit (Sp.arrOps (spd2F M) 2 nrm1) #[⟨1⟩, ⟨-1⟩] #[⟨0⟩, ⟨0⟩]
        (guardNorm (nrm1 #[(⟨1⟩ : Fl M), ⟨-1⟩]))) j).r‖)
      (fun _ _ => norm_nonneg _) (Finset.mem_range.mpr (by rw [hout] at hj; simp at hj; omega)))
  exact ⟨_, _, rk, ht, hd⟩

/-- the hypotheses of the product theorem (1) hold for `spd2F` in `binary64`:
    `multiply` is a `FlMatVec` for `[[2,1],[1,2]]` with `a = 3`, `εA = (1+2⁻⁵³)³ − 1` -/
example : FlMatVec (mvOf (spd2F FlModel.binary64) 2) (rowLin (sqMat (spd2F FlModel.binary64) 2)) 3
    (FlModel.binary64.gam 3) :=
  flMatVec_multiply (spd2F_sqwf _).1 (spd2F_sqwf _).2 3 (by norm_num) (spd2F_rows _).1 2
    (spd2F_rows _).2

/-- in the exact model (`u = 0`) the drift bound collapses: the true residual of a successful
    `solve_cg` IS the recurrence residual that passed the test (cf. `cg_success_sound_sparse`) -/
example [Transc (Fl FlModel.exact)] {s : Sp (Fl FlModel.exact)} {n : Nat} (h : SqWF s n)
    (hnd : NoDup s) (norm2 : Array (Fl FlModel.exact) → Fl FlModel.exact)
    (b x0 : Array (Fl FlModel.exact)) (maxIter : ℕ) (tol : Fl FlModel.exact)
    (out : KOut (Fl FlModel.exact) (Array (Fl FlModel.exact)))
    (hrun : Sp.solveIter s .cg b x0 maxIter tol norm2 = .ok out) (hok : out.ok = true) :
    ∃ rk : Array (Fl FlModel.exact), Transc.le (norm2 rk / guardNorm (norm2 b)) tol = true ∧
      rval n b - rowLin (sqMat s n) (rval n out.x) = rval n rk := by
  have hu0 : FlModel.exact.u = 0 := rfl
  obtain ⟨_, _, rk, _, _, ht, hd⟩ := cg_success_true_residual_sparse h hnd norm2 b x0 maxIter tol out
    hrun hok (normInf (sqMat s n)) (normInf_nonneg _) (row_le_normInf _) n
    (fun i _ => by have := C07.rowCount_le_cols h.wf hnd i; rw [h.cols] at this; exact this)
    (by rw [hu0]; norm_num) 0 le_rfl (by simp [FlModel.gam, hu0])
    (∑ j ∈ Finset.range (out.iters + 1), ‖rval n (cgStates (Sp.arrOps s n norm2)
      (guardNorm (norm2 b)) (cgInit (Sp.arrOps s n norm2) b x0 (guardNorm (norm2 b))) j).x‖)
    (∑ j ∈ Finset.range (out.iters + 1), ‖rval n (cgStates (Sp.arrOps s n norm2)
      (guardNorm (norm2 b)) (cgInit (Sp.arrOps s n norm2) b x0 (guardNorm (norm2 b))) j).r‖)
    (fun j hj => Finset.single_le_sum (f := fun j => ‖rval n (cgStates (Sp.arrOps s n norm2)
      (guardNorm (norm2 b)) (cgInit (Sp.arrOps s n norm2) b x0 (guardNorm (norm2 b))) j).x‖)
      (fun _ _ => norm_nonneg _) (Finset.mem_range.mpr (by omega)))
    (fun j hj => Finset.single_le_sum (f := fun j => ‖rval n (cgStates (Sp.arrOps s n norm2)
      (guardNorm (norm2 b)) (cgInit (Sp.arrOps s n norm2) b x0 (guardNorm (norm2 b))) j).r‖)
      (fun _ _ => norm_nonneg _) (Finset.mem_range.mpr (by omega)))
  refine ⟨rk, ht, ?_⟩
  rw [hu0] at hd
  simp only [zero_mul, mul_zero, add_zero] at hd
  exact sub_eq_zero.mp (norm_le_zero_iff.mp hd)

end Examples

end Ohsl.Props.C08