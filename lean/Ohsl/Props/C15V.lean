/-
  Property C15, contents of the results — what every remaining `Vector<T>` operation of
  Ohsl/Model/Vec.lean RETURNS (the other C15 files prove sizes, norms, sort, find, the sequences).

  1. Edits (class S, any element type): `insert`, `resize`, `assign`, `push`, `pushFront`, `pop`,
     `swap`, `clear` — entry-by-entry and as operations on the plain list `toList`.
  2. Element-wise operations (class S): `neg abs smul lsmul addS subS mulS conj real`,
     `add sub addAssign subAssign` (with the size guard), `sdiv divS` (first failing entry decides);
     class E: `sdiv a 0` is rejected iff `a` is non-empty.
  3. Reductions through a map `φ` that preserves `+ * 0` into a commutative semiring
     (`ScalarHom`): `dot sumSlice sum productSlice product norm1`; instantiated at `φ = id`
     (class E, commutative ring) and at `φ = toC : Cx ℝ → ℂ` (complex vectors; `dot` is BILINEAR,
     no conjugation).
  4. `normInfBy` / `normInfC` (class R): the largest modulus `‖toC z‖` of the entries.
  5. Complex vectors: `conj`, `real`, `abs`, `neg`, `add`, `smul`, `sdiv` through `toC`.
-/
import Ohsl.Props.C15P
import Ohsl.Props.C13R
import Mathlib.Data.List.Forall2
import Mathlib.Data.Finset.Lattice.Fold
import Mathlib.Algebra.BigOperators.Group.Finset.Basic
import Mathlib.Algebra.BigOperators.Intervals
import Mathlib.Tactic.Ring
set_option linter.unusedSectionVars false
set_option linter.unusedVariables false
set_option linter.unusedSimpArgs false
namespace Ohsl.Props.C15
open Ohsl Ohsl.Vec

/-! ## 1. edits (class S) -/
section Edits
variable {K : Type} [Add K] [Sub K] [Mul K] [Neg K] [Zero K] [One K] [BEq K] [ScalarExt K]

/-- `insert(pos, x)` succeeds exactly for `pos ≤ size`, and then the result is this array -/
theorem insert_ok_iff (a c : Array K) (p : Nat) (x : K) :
    insert a p x = .ok c ↔ p ≤ a.size ∧ c = a.extract 0 p ++ #[x] ++ a.extract p a.size := by
  unfold Vec.insert
  split
  · rename_i h
    simp only [Except.ok.injEq, h, true_and]
    exact eq_comm
  · rename_i h
    simp [h]

/-- every entry of a successful `insert(pos, x)`: entries before `pos` stay, `x` sits at `pos`,
    the rest moves up by one; nothing beyond (`a[k-1]? = none` for `k > size`) -/
theorem insert_contents (a c : Array K) (p : Nat) (x : K) (h : insert a p x = .ok c) (k : Nat) :
    c[k]? = if k < p then a[k]? else if k = p then some x else a[k - 1]? := by
  obtain ⟨hp, rfl⟩ := (insert_ok_iff a c p x).mp h
  clear h
  simp only [Array.getElem?_append, Array.getElem?_extract, Array.size_append, Array.size_extract,
    List.size_toArray, List.length_cons, List.length_nil, Nat.sub_zero, Nat.min_self, Nat.zero_add,
    Nat.min_eq_left hp]
  by_cases h1 : k < p
  · simp [h1, Nat.lt_succ_of_lt h1]
  · by_cases h2 : k = p
    · subst h2; simp
    · have h3 : ¬ k < p + 1 := by omega
      have h4 : p + (k - (p + 1)) = k - 1 := by omega
      simp only [h1, h2, h3, if_false, h4]
      split
      · rfl
      · rename_i h5
        have : a.size ≤ k - 1 := by omega
        simp [this]

/-- `insert` on the plain list model -/
theorem insert_toList (a c : Array K) (p : Nat) (x : K) (h : insert a p x = .ok c) :
    c.toList = a.toList.take p ++ x :: a.toList.drop p := by
  obtain ⟨hp, rfl⟩ := (insert_ok_iff a c p x).mp h
  simp [Array.toList_extract, List.extract_eq_take_drop]

/-- `resize(n)`: the first `min n size` entries are kept, the rest (up to `n`) is `0` -/
theorem resize_contents (a : Array K) (n k : Nat) :
    (resize a n)[k]? = if k < n then some (a.getD k 0) else none := by
  unfold resize
  split
  · rename_i h
    simp only [Array.getElem?_extract, Nat.min_eq_left h, Nat.sub_zero, Nat.zero_add]
    split
    · have : k < a.size := by omega
      simp [Array.getD, this]
    · rfl
  · rename_i h
    simp only [Array.getElem?_append, Array.getElem?_replicate]
    by_cases h1 : k < a.size
    · have : k < n := by omega
      simp [h1, this, Array.getD]
    · by_cases h2 : k < n
      · have : k - a.size < n - a.size := by omega
        simp [h1, h2, this, Array.getD]
      · have : ¬ k - a.size < n - a.size := by omega
        simp [h1, h2, this]

/-- `resize` on the plain list model -/
theorem resize_toList (a : Array K) (n : Nat) :
    (resize a n).toList = a.toList.take n ++ List.replicate (n - a.size) 0 := by
  unfold resize
  split
  · rename_i h
    have : n - a.size = 0 := by omega
    simp [this, Array.toList_extract, List.extract_eq_take_drop]
  · rename_i h
    have : a.toList.length ≤ n := by simp; omega
    simp [List.take_of_length_le this]

/-- `assign(x)`: every entry becomes `x` -/
theorem assign_contents (a : Array K) (x : K) : assign a x = Array.replicate a.size x := by
  apply Array.ext
  · simp [assign]
  · intro i h1 h2
    simp [assign]

/-- `push(x)` -/
theorem push_contents (a : Array K) (x : K) (k : Nat) :
    (push a x)[k]? = if k = a.size then some x else a[k]? := by
  simp [push, Array.getElem?_push]

theorem push_toList (a : Array K) (x : K) : (push a x).toList = a.toList ++ [x] := by
  simp [push]

/-- `push_front(x)` -/
theorem pushFront_contents (a : Array K) (x : K) :
    (pushFront a x).size = a.size + 1 ∧ (pushFront a x)[0]? = some x ∧
      ∀ k, (pushFront a x)[k + 1]? = a[k]? := by
  refine ⟨by simp [pushFront]; omega, by simp [pushFront, Array.getElem?_append], fun k => ?_⟩
  simp [pushFront, Array.getElem?_append]

theorem pushFront_toList (a : Array K) (x : K) : (pushFront a x).toList = x :: a.toList := by
  simp [pushFront]

/-- `pop()` returns `(x, b)` exactly when the vector was `b` followed by `x` -/
theorem pop_ok_iff (a b : Array K) (x : K) : pop a = .ok (x, b) ↔ a = b.push x := by
  constructor
  · intro h
    by_cases hs : a.size = 0
    · have : a = #[] := by simpa using hs
      subst this
      simp [pop] at h
    · obtain ⟨ys, y, rfl⟩ := Array.eq_push_of_size_ne_zero hs
      simp only [pop, Array.back?_push, Array.pop_push, Except.ok.injEq, Prod.mk.injEq] at h
      rw [h.1, h.2]
  · rintro rfl
    simp [pop]

/-- `pop()` fails (class `unwrap`) exactly on the empty vector -/
theorem pop_error_iff (a : Array K) (e : Err) : pop a = .error e ↔ a = #[] ∧ e = .unwrap := by
  unfold pop
  constructor
  · intro h
    split at h
    · cases h
    · rename_i hn
      cases h
      exact ⟨Array.back?_eq_none_iff.mp hn, rfl⟩
  · rintro ⟨rfl, rfl⟩
    simp

/-- `swap(i, j)` with both indices in range exchanges the two entries and nothing else -/
theorem swap_contents (a : Array K) (i j : Nat) (hi : i < a.size) (hj : j < a.size) :
    ∃ c, swap a i j = .ok c ∧ c.size = a.size ∧
      ∀ k, c[k]? = if k = j then a[i]? else if k = i then a[j]? else a[k]? := by
  refine ⟨(a.setIfInBounds i a[j]).setIfInBounds j a[i], ?_, by simp, fun k => ?_⟩
  · have h1 : aget a i = .ok a[i] := by simp [aget, hi]
    have h2 : aget a j = .ok a[j] := by simp [aget, hj]
    have h3 : aset a i a[j] = .ok (a.setIfInBounds i a[j]) := by simp [aset, hi]
    have h4 : aset (a.setIfInBounds i a[j]) j a[i]
        = .ok ((a.setIfInBounds i a[j]).setIfInBounds j a[i]) := by simp [aset, hj]
    unfold swap
    rw [h1, h2]
    simp only [bind, Except.bind]
    rw [h3]
    simp only [h4]
  · simp only [Array.getElem?_setIfInBounds, Array.size_setIfInBounds]
    by_cases h1 : j = k
    · subst h1
      by_cases h0 : i = j
      · subst h0; simp [hj]
      · simp [hj, h0]
    · have h1' : ¬ k = j := fun e => h1 e.symm
      by_cases h2 : i = k
      · subst h2; simp [h1, h1', hi, hj]
      · have h2' : ¬ k = i := fun e => h2 e.symm
        simp [h1, h2, h1', h2']

/-- `swap` with an index out of range is a slice-index panic -/
theorem swap_rejects (a : Array K) (i j : Nat) (h : a.size ≤ i ∨ a.size ≤ j) :
    swap a i j = .error .range := by
  unfold swap
  by_cases hi : i < a.size
  · have hj : a.size ≤ j := by omega
    have h1 : aget a i = .ok a[i] := by simp [aget, hi]
    have h2 : aget a j = .error .range := by simp [aget, hj]
    rw [h1, h2]; rfl
  · have h1 : aget a i = .error .range := by
      have : a.size ≤ i := by omega
      simp [aget, this]
    rw [h1]; rfl

/-- `swap` succeeds exactly when both indices are in range -/
theorem swap_ok_iff (a : Array K) (i j : Nat) :
    (∃ c, swap a i j = .ok c) ↔ i < a.size ∧ j < a.size := by
  constructor
  · rintro ⟨c, hc⟩
    by_contra hn
    rw [swap_rejects a i j (by omega)] at hc
    cases hc
  · rintro ⟨hi, hj⟩
    obtain ⟨c, hc, _⟩ := swap_contents a i j hi hj
    exact ⟨c, hc⟩

/-- swapping twice restores the vector -/
theorem swap_swap (a c : Array K) (i j : Nat) (h : swap a i j = .ok c) : swap c i j = .ok a := by
  obtain ⟨hi, hj⟩ := (swap_ok_iff a i j).mp ⟨c, h⟩
  obtain ⟨c', hc', hs, hk⟩ := swap_contents a i j hi hj
  rw [hc'] at h
  cases h
  obtain ⟨d, hd, hds, hdk⟩ := swap_contents c i j (hs ▸ hi) (hs ▸ hj)
  rw [hd]
  congr 1
  apply Array.ext_getElem?
  intro k
  rw [hdk k, hk i, hk j, hk k]
  by_cases h1 : k = j
  · subst h1
    by_cases h0 : i = k
    · subst h0; simp
    · simp [h0]
  · by_cases h2 : k = i
    · subst h2; simp [h1]
    · simp [h1, h2]

/-- `clear()` -/
theorem clear_contents (a : Array K) : clear a = #[] := rfl

end Edits

/-! ## 2. element-wise operations -/

/-! ### `mapM` in the `Except` monad: success and the first failure -/

theorem mapM_list_ok_iff {α β : Type} (f : α → Res β) (l : List α) (l' : List β) :
    l.mapM f = .ok l' ↔ List.Forall₂ (fun x y => f x = .ok y) l l' := by
  induction l generalizing l' with
  | nil => cases l' <;> simp [pure, Except.pure]
  | cons x l ih =>
    rw [List.mapM_cons]
    cases hx : f x with
    | error e =>
      simp only [bind, Except.bind]
      constructor
      · intro h; cases h
      · intro h
        cases h with
        | cons h1 _ => rw [hx] at h1; cases h1
    | ok y =>
      cases hl : l.mapM f with
      | error e =>
        simp only [bind, Except.bind]
        constructor
        · intro h; cases h
        · intro h
          cases h with
          | cons h1 h2 => rw [← ih, hl] at h2; cases h2
      | ok ys =>
        simp only [bind, Except.bind, pure, Except.pure, Except.ok.injEq]
        constructor
        · rintro rfl
          exact List.Forall₂.cons hx ((ih ys).mp hl)
        · intro h
          cases h with
          | cons h1 h2 =>
            rw [hx] at h1
            rw [← ih, hl] at h2
            cases h1; cases h2; rfl

theorem mapM_list_error_iff {α β : Type} (f : α → Res β) (l : List α) (e : Err) :
    l.mapM f = .error e ↔
      ∃ k, ∃ hk : k < l.length, f l[k] = .error e ∧ ∀ j (hj : j < k), ∃ y, f l[j] = .ok y := by
  induction l with
  | nil => simp [pure, Except.pure]
  | cons x l ih =>
    rw [List.mapM_cons]
    cases hx : f x with
    | error e' =>
      simp only [bind, Except.bind]
      constructor
      · intro h
        cases h
        exact ⟨0, by simp, by simpa using hx, fun j hj => absurd hj (Nat.not_lt_zero j)⟩
      · rintro ⟨k, hk, hke, hlt⟩
        cases k with
        | zero =>
          have : f x = .error e := by simpa using hke
          rw [hx] at this; cases this; rfl
        | succ k =>
          obtain ⟨y, hy⟩ := hlt 0 (Nat.succ_pos k)
          have : f x = .ok y := by simpa using hy
          rw [hx] at this; cases this
    | ok y =>
      have hbind : (do let b ← (Except.ok y : Res β); let bs ← l.mapM f; pure (b :: bs)) = .error e
          ↔ l.mapM f = .error e := by
        cases hl : l.mapM f with
        | error e'' =>
          simp only [bind, Except.bind]
        | ok ys =>
          simp only [bind, Except.bind, pure, Except.pure]
          constructor <;> (intro h; cases h)
      rw [hbind, ih]
      constructor
      · rintro ⟨k, hk, hke, hlt⟩
        refine ⟨k + 1, by simpa using hk, by simpa using hke, fun j hj => ?_⟩
        cases j with
        | zero => exact ⟨y, by simpa using hx⟩
        | succ j => simpa using hlt j (by omega)
      · rintro ⟨k, hk, hke, hlt⟩
        cases k with
        | zero =>
          have : f x = .error e := by simpa using hke
          rw [hx] at this; cases this
        | succ k =>
          refine ⟨k, by simpa using hk, by simpa using hke, fun j hj => ?_⟩
          simpa using hlt (j + 1) (by omega)

theorem mapM_arr_toList {α β : Type} (f : α → Res β) (a : Array α) :
    a.mapM f = (a.toList.mapM f).map List.toArray := by
  rw [Array.mapM_eq_mapM_toList]; rfl

/-- a `mapM` over an array succeeds with `c` iff every entry succeeds with the entry of `c` -/
theorem mapM_arr_ok_iff {α β : Type} (f : α → Res β) (a : Array α) (c : Array β) :
    a.mapM f = .ok c ↔
      a.size = c.size ∧ ∀ k (h1 : k < a.size) (h2 : k < c.size), f a[k] = .ok c[k] := by
  have key : a.mapM f = .ok c ↔ a.toList.mapM f = .ok c.toList := by
    rw [mapM_arr_toList]
    cases h : a.toList.mapM f with
    | error e => simp [Except.map]
    | ok l' =>
      simp only [Except.map, Except.ok.injEq]
      constructor
      · rintro rfl; rfl
      · intro h; simp [h]
  rw [key, mapM_list_ok_iff, List.forall₂_iff_get]
  simp

/-- a `mapM` over an array fails with `e` iff some entry fails with `e` and all earlier ones
    succeed (the loop stops at the first failure) -/
theorem mapM_arr_error_iff {α β : Type} (f : α → Res β) (a : Array α) (e : Err) :
    a.mapM f = .error e ↔
      ∃ k, ∃ hk : k < a.size, f a[k] = .error e ∧ ∀ j (hj : j < k), ∃ y, f a[j] = .ok y := by
  have key : a.mapM f = .error e ↔ a.toList.mapM f = .error e := by
    rw [mapM_arr_toList]
    cases h : a.toList.mapM f with
    | error e' => simp [Except.map]
    | ok l' => simp [Except.map]
  rw [key, mapM_list_error_iff]
  simp

section Elementwise
variable {K : Type} [Add K] [Sub K] [Mul K] [Neg K] [Zero K] [One K] [BEq K] [ScalarExt K]

/-- all the infallible element-wise operations keep the size -/
theorem elementwise_size (a : Array K) (s : K) :
    (neg a).size = a.size ∧ (Vec.abs a).size = a.size ∧ (smul a s).size = a.size ∧
    (addS a s).size = a.size ∧ (subS a s).size = a.size ∧ (mulS a s).size = a.size := by
  simp [neg, Vec.abs, smul, addS, subS, mulS]

theorem neg_contents (a : Array K) (k : Nat) : (neg a)[k]? = a[k]?.map (fun x => -x) := by
  simp [neg]
/-- `abs()` applies `Signed::abs` to every entry -/
theorem abs_contents (a : Array K) (k : Nat) : (Vec.abs a)[k]? = a[k]?.map ScalarExt.mag := by
  simp [Vec.abs]
/-- `vector * scalar`: the scalar is the RIGHT factor -/
theorem smul_contents (a : Array K) (s : K) (k : Nat) : (smul a s)[k]? = a[k]?.map (· * s) := by
  simp [smul]
theorem addS_contents (a : Array K) (s : K) (k : Nat) : (addS a s)[k]? = a[k]?.map (· + s) := by
  simp [addS]
theorem subS_contents (a : Array K) (s : K) (k : Nat) : (subS a s)[k]? = a[k]?.map (· - s) := by
  simp [subS]
theorem mulS_contents (a : Array K) (s : K) (k : Nat) : (mulS a s)[k]? = a[k]?.map (· * s) := by
  simp [mulS]
/-- `*= T` is `vector * scalar`; `/= T` is `vector / scalar`; `+= Vector`, `-= Vector` are `+`, `-` -/
theorem assign_forms (a b : Array K) (s : K) :
    mulS a s = smul a s ∧ divS a s = sdiv a s ∧ addAssign a b = add a b ∧ subAssign a b = sub a b :=
  ⟨rfl, rfl, rfl, rfl⟩

/-- `a + b` succeeds exactly on equal sizes, with the entry-wise sums -/
theorem add_ok_iff (a b c : Array K) :
    add a b = .ok c ↔ a.size = b.size ∧ c = Array.zipWith (· + ·) a b := by
  unfold add
  split
  · rename_i h; simp [h]
  · rename_i h
    have h := not_not.mp h
    simp only [Except.ok.injEq, h, true_and]
    exact eq_comm

theorem sub_ok_iff (a b c : Array K) :
    sub a b = .ok c ↔ a.size = b.size ∧ c = Array.zipWith (· - ·) a b := by
  unfold sub
  split
  · rename_i h; simp [h]
  · rename_i h
    have h := not_not.mp h
    simp only [Except.ok.injEq, h, true_and]
    exact eq_comm

theorem add_contents (a b c : Array K) (h : add a b = .ok c) :
    c.size = a.size ∧ c.size = b.size ∧
      ∀ k (h1 : k < a.size) (h2 : k < b.size), c[k]? = some (a[k] + b[k]) := by
  obtain ⟨hs, rfl⟩ := (add_ok_iff a b c).mp h
  refine ⟨by simp [hs], by simp [hs], fun k h1 h2 => ?_⟩
  simp [Array.getElem?_zipWith, h1, h2]

theorem sub_contents (a b c : Array K) (h : sub a b = .ok c) :
    c.size = a.size ∧ c.size = b.size ∧
      ∀ k (h1 : k < a.size) (h2 : k < b.size), c[k]? = some (a[k] - b[k]) := by
  obtain ⟨hs, rfl⟩ := (sub_ok_iff a b c).mp h
  refine ⟨by simp [hs], by simp [hs], fun k h1 h2 => ?_⟩
  simp [Array.getElem?_zipWith, h1, h2]

/-- `vector / scalar` (class S): succeeds with `c` iff every entry's division succeeds with the
    entry of `c` -/
theorem sdiv_ok_iff (a c : Array K) (s : K) :
    sdiv a s = .ok c ↔
      a.size = c.size ∧ ∀ k (h1 : k < a.size) (h2 : k < c.size), divM a[k] s = .ok c[k] :=
  mapM_arr_ok_iff _ a c

/-- `vector / scalar` (class S): fails with the error of the FIRST entry whose division fails -/
theorem sdiv_error_iff (a : Array K) (s : K) (e : Err) :
    sdiv a s = .error e ↔
      ∃ k, ∃ hk : k < a.size, divM a[k] s = .error e ∧ ∀ j (hj : j < k), ∃ y, divM a[j] s = .ok y :=
  mapM_arr_error_iff _ a e

/-- in particular the empty vector can be divided by anything -/
theorem sdiv_empty (s : K) : sdiv (#[] : Array K) s = .ok #[] := by
  rw [sdiv_ok_iff]; simp

end Elementwise

/-! ### division by a scalar, exact interpretation (class E) -/
section ElementwiseExact
variable {K : Type} [Field K] [LinearOrder K]
attribute [local instance] Ohsl.Alg.scalarExt

/-- `vector / scalar` over a field: entry-wise quotients; a zero divisor is rejected (class
    `arith`) exactly when there is an entry to divide -/
theorem sdiv_exact (a : Array K) (s : K) :
    sdiv a s = if s = 0 ∧ 0 < a.size then .error .arith else .ok (a.map (· / s)) := by
  by_cases hs : s = 0
  · by_cases ha : 0 < a.size
    · rw [if_pos ⟨hs, ha⟩, sdiv_error_iff]
      exact ⟨0, ha, by simp [hs], fun j hj => absurd hj (Nat.not_lt_zero j)⟩
    · have : a = #[] := by simpa using ha
      subst this
      simp [sdiv_empty]
  · rw [if_neg (fun h => hs h.1)]
    exact mapM_ok_arr a _ _ (fun x _ => Alg.divM_ne hs)

theorem sdiv_zero_rejects_iff (a : Array K) : sdiv a (0 : K) = .error .arith ↔ a ≠ #[] := by
  rw [sdiv_exact]
  by_cases ha : 0 < a.size
  · simp [ha, Array.size_pos_iff.mp ha]
  · have : a = #[] := by simpa using ha
    subst this; simp

/-- `/= T` likewise -/
theorem divS_exact (a : Array K) (s : K) :
    divS a s = if s = 0 ∧ 0 < a.size then .error .arith else .ok (a.map (· / s)) :=
  sdiv_exact a s

example : sdiv (#[1, 2] : Array ℚ) 0 = .error .arith := by rw [sdiv_exact]; simp
example : sdiv (#[] : Array ℚ) 0 = .ok #[] := by rw [sdiv_exact]; simp

end ElementwiseExact

/-! ## 3. reductions, through a map that preserves `+ * 0` -/

/-- `φ` carries the model's `+`, `*`, `0` on `K` to those of a commutative semiring `R`
    (`id` on a commutative ring; `toC : Cx ℝ → ℂ`) -/
structure ScalarHom {K R : Type} [Add K] [Mul K] [Zero K] [CommSemiring R] (φ : K → R) : Prop where
  map_add : ∀ x y, φ (x + y) = φ x + φ y
  map_mul : ∀ x y, φ (x * y) = φ x * φ y
  map_zero : φ 0 = 0

section Hom
variable {K R : Type} [Add K] [Sub K] [Mul K] [Neg K] [Zero K] [One K] [BEq K] [ScalarExt K]
  [CommSemiring R] {φ : K → R}

theorem ScalarHom.foldl_add (hφ : ScalarHom φ) {α : Type} (g : α → K) (d : α) (a : Array α)
    (init : K) :
    φ (a.foldl (fun acc x => acc + g x) init)
      = φ init + ∑ i ∈ Finset.range a.size, φ (g (a.getD i d)) := by
  have h : ∀ (l : List α) (init : K), φ (l.foldl (fun acc x => acc + g x) init)
      = l.foldl (fun acc x => acc + φ (g x)) (φ init) := by
    intro l
    induction l with
    | nil => intro _; rfl
    | cons x l ih => intro init; rw [List.foldl_cons, ih, hφ.map_add]; rfl
  rw [← Array.foldl_toList, h, Array.foldl_toList]
  exact arr_foldl_add_eq_sum (fun x => φ (g x)) d a (φ init)

theorem ScalarHom.foldl_mul (hφ : ScalarHom φ) (a : Array K) (init : K) :
    φ (a.foldl (· * ·) init) = φ init * ∏ i ∈ Finset.range a.size, φ (a.getD i 0) := by
  have h : ∀ (l : List K) (init : K), φ (l.foldl (· * ·) init)
      = l.foldl (fun acc x => acc * φ x) (φ init) := by
    intro l
    induction l with
    | nil => intro _; rfl
    | cons x l ih => intro init; rw [List.foldl_cons, ih, hφ.map_mul]; rfl
  rw [← Array.foldl_toList, h, Array.foldl_toList]
  exact arr_foldl_mul_eq_prod φ 0 a (φ init)

/-- `dot` is the plain (bilinear) sum of the entry products -/
theorem dot_hom (hφ : ScalarHom φ) (a b : Array K) (h : a.size = b.size) :
    ∃ d, dot a b = .ok d ∧
      φ d = ∑ i ∈ Finset.range a.size, φ (a.getD i 0) * φ (b.getD i 0) := by
  refine ⟨_, by unfold dot; rw [if_neg (by simpa using h)], ?_⟩
  have := hφ.foldl_add (fun x : K => x) 0 (Array.zipWith (· * ·) a b) 0
  simp only [hφ.map_zero, zero_add] at this
  rw [this]
  simp only [Array.size_zipWith, ← h, min_self]
  refine Finset.sum_congr rfl fun i hi => ?_
  have hi : i < a.size := Finset.mem_range.mp hi
  have hi' : i < b.size := h ▸ hi
  simp [Array.getD, hi, hi', hφ.map_mul]

/-- `sum_slice(s, e)` on a valid range is the sum of the entries `s … e` -/
theorem sumSlice_hom (hφ : ScalarHom φ) (a : Array K) (s e : Nat) (hse : s ≤ e) (he : e < a.size) :
    ∃ r, sumSlice a s e = .ok r ∧ φ r = ∑ i ∈ Finset.Icc s e, φ (a.getD i 0) := by
  refine ⟨_, by unfold sumSlice; rw [if_neg (by omega), if_neg (by omega), if_neg (by omega)], ?_⟩
  have := hφ.foldl_add (fun x : K => x) 0 (a.extract s (e + 1)) 0
  simp only [hφ.map_zero, zero_add] at this
  rw [this, ← Finset.Ico_add_one_right_eq_Icc, Finset.sum_Ico_eq_sum_range]
  have hsz : (a.extract s (e + 1)).size = e + 1 - s := by simp; omega
  rw [hsz]
  refine Finset.sum_congr rfl fun i hi => ?_
  have hi : i < e + 1 - s := Finset.mem_range.mp hi
  have h1 : s + i < a.size := by omega
  simp [Array.getD, hi, h1, hsz]

/-- `sum()` of a non-empty vector is the sum of all entries (empty: `sum_empty`) -/
theorem sum_hom (hφ : ScalarHom φ) (a : Array K) (h : 0 < a.size) :
    ∃ r, Vec.sum a = .ok r ∧ φ r = ∑ i ∈ Finset.range a.size, φ (a.getD i 0) := by
  obtain ⟨r, hr, e⟩ := sumSlice_hom hφ a 0 (a.size - 1) (Nat.zero_le _) (by omega)
  refine ⟨r, ?_, ?_⟩
  · have h1 : usub a.size 1 = .ok (a.size - 1) := by unfold usub; rw [if_pos (by omega)]
    unfold Vec.sum
    rw [h1]
    exact hr
  · rw [e, ← Finset.Ico_add_one_right_eq_Icc, Finset.range_eq_Ico]
    congr 2
    show a.size - 1 + 1 = a.size
    omega

/-- `product_slice(s, e)` on a valid range is the product of the entries `s … e` -/
theorem productSlice_hom (hφ : ScalarHom φ) (a : Array K) (s e : Nat) (hse : s ≤ e)
    (he : e < a.size) :
    ∃ r, productSlice a s e = .ok r ∧ φ r = ∏ i ∈ Finset.Icc s e, φ (a.getD i 0) := by
  have hs : s < a.size := by omega
  have hg : aget a s = .ok a[s] := by simp [aget, hs]
  refine ⟨(a.extract (s + 1) (e + 1)).foldl (· * ·) a[s], ?_, ?_⟩
  · unfold productSlice
    rw [if_neg (by omega), if_neg (by omega), if_neg (by omega), hg]
    rfl
  · rw [hφ.foldl_mul, ← Finset.Ico_add_one_right_eq_Icc,
      Finset.prod_eq_prod_Ico_succ_bot (by omega), Finset.prod_Ico_eq_prod_range]
    have hsz : (a.extract (s + 1) (e + 1)).size = e + 1 - (s + 1) := by simp; omega
    rw [hsz]
    congr 1
    · simp [Array.getD, hs]
    · refine Finset.prod_congr rfl fun i hi => ?_
      have hi : i < e + 1 - (s + 1) := Finset.mem_range.mp hi
      have h1 : s + 1 + i < a.size := by omega
      have h2 : i < e - s := by omega
      simp [Array.getD, h1, h2, hsz]

/-- `product()` of a non-empty vector is the product of all entries -/
theorem product_hom (hφ : ScalarHom φ) (a : Array K) (h : 0 < a.size) :
    ∃ r, product a = .ok r ∧ φ r = ∏ i ∈ Finset.range a.size, φ (a.getD i 0) := by
  obtain ⟨r, hr, e⟩ := productSlice_hom hφ a 0 (a.size - 1) (Nat.zero_le _) (by omega)
  refine ⟨r, ?_, ?_⟩
  · have h1 : usub a.size 1 = .ok (a.size - 1) := by unfold usub; rw [if_pos (by omega)]
    unfold product
    rw [h1]
    exact hr
  · rw [e, ← Finset.Ico_add_one_right_eq_Icc, Finset.range_eq_Ico]
    congr 2
    show a.size - 1 + 1 = a.size
    omega

/-- `product()` of the empty vector: `size - 1` underflows (class S) -/
theorem product_empty : product (#[] : Array K) = .error .arith := rfl

/-- `norm_1` is the sum of the entries' `Signed::abs` -/
theorem norm1_hom (hφ : ScalarHom φ) (a : Array K) :
    φ (norm1 a) = ∑ i ∈ Finset.range a.size, φ (ScalarExt.mag (a.getD i 0)) := by
  unfold norm1
  rw [hφ.foldl_add ScalarExt.mag 0, hφ.map_zero, zero_add]

end Hom

/-! ### exact interpretation: `φ = id` on a commutative ring -/
section ExactReductions
variable {K : Type} [CommRing K] [BEq K] [ScalarExt K]

theorem scalarHom_id : ScalarHom (id : K → K) := ⟨fun _ _ => rfl, fun _ _ => rfl, rfl⟩

theorem sum_eq (a : Array K) (h : 0 < a.size) :
    Vec.sum a = .ok (∑ i ∈ Finset.range a.size, a.getD i 0) := by
  obtain ⟨r, hr, e⟩ := sum_hom scalarHom_id a h
  rw [hr]; exact congrArg _ e

theorem product_eq (a : Array K) (h : 0 < a.size) :
    product a = .ok (∏ i ∈ Finset.range a.size, a.getD i 0) := by
  obtain ⟨r, hr, e⟩ := product_hom scalarHom_id a h
  rw [hr]; exact congrArg _ e

theorem dot_eq_sum_ring (a b : Array K) (h : a.size = b.size) :
    dot a b = .ok (∑ i ∈ Finset.range a.size, a.getD i 0 * b.getD i 0) := by
  obtain ⟨r, hr, e⟩ := dot_hom scalarHom_id a b h
  rw [hr]; exact congrArg _ e

end ExactReductions

/-! ### complex vectors: `φ = toC` -/
section ComplexReductions
open Ohsl.RealI Ohsl.Props.C14

theorem toC_scalarHom : ScalarHom toC := ⟨toC_add, toC_mul, toC_zero⟩

/-- `dot` of two complex vectors is the BILINEAR form `Σ aᵢ bᵢ` (no conjugation) -/
theorem dot_complex (a b : Array (Cx ℝ)) (h : a.size = b.size) :
    ∃ d, dot a b = .ok d ∧
      toC d = ∑ i ∈ Finset.range a.size, toC (a.getD i 0) * toC (b.getD i 0) :=
  dot_hom toC_scalarHom a b h

/-- … so `dot [i] [i] = -1`, not `1` -/
example : ∃ d, dot (#[⟨0, 1⟩] : Array (Cx ℝ)) #[⟨0, 1⟩] = .ok d ∧ toC d = -1 := by
  obtain ⟨d, hd, e⟩ := dot_complex #[⟨0, 1⟩] #[⟨0, 1⟩] rfl
  refine ⟨d, hd, ?_⟩
  rw [e]
  have : toC (⟨0, 1⟩ : Cx ℝ) = Complex.I := rfl
  simp [this]

theorem sum_complex (a : Array (Cx ℝ)) (h : 0 < a.size) :
    ∃ r, Vec.sum a = .ok r ∧ toC r = ∑ i ∈ Finset.range a.size, toC (a.getD i 0) :=
  sum_hom toC_scalarHom a h

theorem sumSlice_complex (a : Array (Cx ℝ)) (s e : Nat) (hse : s ≤ e) (he : e < a.size) :
    ∃ r, sumSlice a s e = .ok r ∧ toC r = ∑ i ∈ Finset.Icc s e, toC (a.getD i 0) :=
  sumSlice_hom toC_scalarHom a s e hse he

theorem product_complex (a : Array (Cx ℝ)) (h : 0 < a.size) :
    ∃ r, product a = .ok r ∧ toC r = ∏ i ∈ Finset.range a.size, toC (a.getD i 0) :=
  product_hom toC_scalarHom a h

theorem productSlice_complex (a : Array (Cx ℝ)) (s e : Nat) (hse : s ≤ e) (he : e < a.size) :
    ∃ r, productSlice a s e = .ok r ∧ toC r = ∏ i ∈ Finset.Icc s e, toC (a.getD i 0) :=
  productSlice_hom toC_scalarHom a s e hse he

/-- `Signed::abs` of a complex number is its modulus with zero imaginary part -/
theorem toC_mag (z : Cx ℝ) : toC (ScalarExt.mag z) = ((‖toC z‖ : ℝ) : ℂ) := by
  show toC ⟨Cx.abs z, 0⟩ = _
  rw [abs_eq]; rfl

/-- `norm_1` of a complex vector is the (real) sum of the moduli -/
theorem norm1_complex (a : Array (Cx ℝ)) :
    toC (norm1 a) = ((∑ i ∈ Finset.range a.size, ‖toC (a.getD i 0)‖ : ℝ) : ℂ) := by
  rw [norm1_hom toC_scalarHom]
  simp [toC_mag]

end ComplexReductions

/-! ## 4. `norm_inf` with an arbitrary magnitude function; the complex inf-norm -/
section NormInfBy
open Ohsl.RealI Ohsl.Props.C14

/-- `normInfBy f` of a non-empty vector is the largest `f`-value of its entries, and it is
    attained -/
theorem normInfBy_spec {α : Type} (f : α → ℝ) (a : Array α) (h : 0 < a.size) :
    ∃ m, Vec.normInfBy f a = .ok m ∧ (∀ i (hi : i < a.size), f a[i] ≤ m) ∧
      ∃ i, ∃ hi : i < a.size, m = f a[i] := by
  rcases a with ⟨l⟩
  cases l with
  | nil => simp at h
  | cons x0 t =>
    have hex : ((⟨x0 :: t⟩ : Array α).extract 1 (⟨x0 :: t⟩ : Array α).size) = ⟨t⟩ := by
      simp
    refine ⟨t.foldl (fun r x => if ScalarExt.lt r (f x) then f x else r) (f x0), ?_, ?_⟩
    · unfold Vec.normInfBy
      simp only [List.getElem?_toArray, List.getElem?_cons_zero]
      rw [hex, ← Array.foldl_toList]
      -- (repair D14) the NaN test `|x| != |x|` of `norm_inf` never fires over ℝ
      have hstep : (fun (r : ℝ) (x : α) => if ScalarExt.lt r (f x) || !(f x == f x) then f x else r)
          = (fun r x => if ScalarExt.lt r (f x) then f x else r) := by
        funext r x; simp
      rw [hstep]
    · obtain ⟨h1, h2, h3⟩ := foldl_max_spec f t (f x0)
      constructor
      · intro i hi
        cases i with
        | zero => simpa using h1
        | succ i =>
          have hi' : i < t.length := by simpa using hi
          have := h2 t[i] (List.getElem_mem hi')
          simpa using this
      · rcases h3 with h3 | ⟨y, hy, h3⟩
        · exact ⟨0, by simp, by simpa using h3⟩
        · obtain ⟨i, hi, rfl⟩ := List.mem_iff_getElem.mp hy
          exact ⟨i + 1, by simpa using hi, by simpa using h3⟩

/-- the empty vector is rejected (`self.vec[0]` is out of bounds) -/
theorem normInfBy_empty {α : Type} (f : α → ℝ) :
    Vec.normInfBy f (#[] : Array α) = .error .range := by
  simp [Vec.normInfBy]

/-- complete description of `normInfBy` -/
theorem normInfBy_ok_iff {α : Type} (f : α → ℝ) (a : Array α) (m : ℝ) :
    Vec.normInfBy f a = .ok m ↔
      (∀ i (hi : i < a.size), f a[i] ≤ m) ∧ ∃ i, ∃ hi : i < a.size, m = f a[i] := by
  constructor
  · intro h
    have hs : 0 < a.size := by
      by_contra hc
      have : a = #[] := by simpa using hc
      subst this
      rw [normInfBy_empty] at h; cases h
    obtain ⟨m', hm', hle, hatt⟩ := normInfBy_spec f a hs
    rw [hm'] at h; cases h
    exact ⟨hle, hatt⟩
  · rintro ⟨hle, i, hi, rfl⟩
    obtain ⟨m', hm', hle', j, hj, rfl⟩ := normInfBy_spec f a (by omega)
    rw [hm']
    exact congrArg _ (le_antisymm (hle j hj) (hle' i hi))

/-- `norm_inf` of a non-empty complex vector is the largest modulus of its entries -/
theorem normInfC_spec (a : Array (Cx ℝ)) (h : 0 < a.size) :
    ∃ m, Vec.normInfC a = .ok m ∧ (∀ i (hi : i < a.size), ‖toC a[i]‖ ≤ m) ∧
      ∃ i, ∃ hi : i < a.size, m = ‖toC a[i]‖ := by
  obtain ⟨m, hm, hle, i, hi, e⟩ := normInfBy_spec (fun z : Cx ℝ => Cx.abs z) a h
  refine ⟨m, hm, fun j hj => ?_, i, hi, ?_⟩
  · rw [← abs_eq]; exact hle j hj
  · rw [← abs_eq]; exact e

theorem normInfC_ok_iff (a : Array (Cx ℝ)) (m : ℝ) :
    Vec.normInfC a = .ok m ↔
      (∀ i (hi : i < a.size), ‖toC a[i]‖ ≤ m) ∧ ∃ i, ∃ hi : i < a.size, m = ‖toC a[i]‖ := by
  unfold Vec.normInfC
  rw [normInfBy_ok_iff]
  simp only [abs_eq]

/-- … as a `Finset.sup'` -/
theorem normInfC_eq_sup' (a : Array (Cx ℝ)) (h : 0 < a.size) :
    Vec.normInfC a = .ok ((Finset.range a.size).sup' ⟨0, Finset.mem_range.mpr h⟩
      (fun i => ‖toC (a.getD i 0)‖)) := by
  rw [normInfC_ok_iff]
  constructor
  · intro i hi
    have := Finset.le_sup' (fun i => ‖toC (a.getD i 0)‖) (Finset.mem_range.mpr hi)
    simpa [Array.getD, hi] using this
  · obtain ⟨i, hi, e⟩ := Finset.exists_mem_eq_sup' ⟨0, Finset.mem_range.mpr h⟩
      (fun i => ‖toC (a.getD i 0)‖)
    have hi' : i < a.size := Finset.mem_range.mp hi
    refine ⟨i, hi', ?_⟩
    rw [e]
    simp [Array.getD, hi']

theorem normInfC_empty : Vec.normInfC (#[] : Array (Cx ℝ)) = .error .range :=
  normInfBy_empty _

theorem normInfC_nonneg {a : Array (Cx ℝ)} {m : ℝ} (h : Vec.normInfC a = .ok m) : 0 ≤ m := by
  obtain ⟨_, i, hi, rfl⟩ := (normInfC_ok_iff a m).mp h
  exact norm_nonneg _

end NormInfBy

/-! ## 5. complex vectors -/
section ComplexVec
variable {K : Type} [Add K] [Sub K] [Mul K] [Neg K] [Zero K] [One K] [BEq K] [ScalarExt K]

theorem conj_contents (a : Array (Cx K)) (k : Nat) : (conj a)[k]? = a[k]?.map Cx.conj := by
  simp [conj]
theorem real_contents (a : Array (Cx K)) (k : Nat) : (real a)[k]? = a[k]?.map (·.re) := by
  simp [real]
theorem conj_real_size (a : Array (Cx K)) : (conj a).size = a.size ∧ (real a).size = a.size := by
  simp [conj, real]

/-- conjugation does not touch the real parts (class S) -/
theorem real_conj (a : Array (Cx K)) : real (conj a) = real a := by
  apply Array.ext_getElem?
  intro k
  rw [real_contents, conj_contents, real_contents]
  cases a[k]? <;> simp [Cx.conj]

/-- `f64 * vector`: the scalar is the LEFT factor -/
theorem lsmul_contents [Transc K] (s : K) (a : Array K) (k : Nat) :
    (lsmul s a)[k]? = a[k]?.map (s * ·) := by
  simp [lsmul]

end ComplexVec

/-- conjugating twice is the identity wherever `- - x = x` (class E) -/
theorem conj_conj {K : Type} [Ring K] [BEq K] [ScalarExt K] (a : Array (Cx K)) :
    conj (conj a) = a := by
  apply Array.ext_getElem?
  intro k
  rw [conj_contents, conj_contents]
  cases a[k]? with
  | none => rfl
  | some z => cases z; simp [Cx.conj]

section ComplexVecReal
open Ohsl.RealI Ohsl.Props.C14 Ohsl.Props.C13

/-- `conj` is entry-wise complex conjugation -/
theorem conj_toC (a : Array (Cx ℝ)) (k : Nat) :
    (conj a)[k]?.map toC = a[k]?.map (fun z => (starRingEnd ℂ) (toC z)) := by
  rw [conj_contents]
  cases a[k]? <;> simp [toC_conj]

/-- `real` takes the real parts -/
theorem real_toC (a : Array (Cx ℝ)) (k : Nat) :
    (real a)[k]? = a[k]?.map (fun z => (toC z).re) := by
  rw [real_contents]; rfl

/-- `abs` of a complex vector: every entry becomes its modulus, as a complex number with zero
    imaginary part -/
theorem abs_complex (a : Array (Cx ℝ)) (k : Nat) :
    (Vec.abs a)[k]?.map toC = a[k]?.map (fun z => ((‖toC z‖ : ℝ) : ℂ)) := by
  rw [abs_contents]
  cases a[k]? <;> simp [toC_mag]

theorem abs_complex_im (a : Array (Cx ℝ)) (z : Cx ℝ) (hz : z ∈ Vec.abs a) : z.im = 0 := by
  obtain ⟨w, _, rfl⟩ := Array.mem_map.mp hz
  rfl

theorem neg_toC (a : Array (Cx ℝ)) (k : Nat) :
    (neg a)[k]?.map toC = a[k]?.map (fun z => -toC z) := by
  rw [neg_contents]
  cases a[k]? <;> simp [toC_neg]

theorem smul_toC (a : Array (Cx ℝ)) (s : Cx ℝ) (k : Nat) :
    (smul a s)[k]?.map toC = a[k]?.map (fun z => toC z * toC s) := by
  rw [smul_contents]
  cases a[k]? <;> simp [toC_mul]

theorem addS_subS_toC (a : Array (Cx ℝ)) (s : Cx ℝ) (k : Nat) :
    (addS a s)[k]?.map toC = a[k]?.map (fun z => toC z + toC s) ∧
    (subS a s)[k]?.map toC = a[k]?.map (fun z => toC z - toC s) := by
  rw [addS_contents, subS_contents]
  cases a[k]? <;> simp [toC_add, toC_sub]

theorem add_sub_toC (a b c : Array (Cx ℝ)) (k : Nat) (h1 : k < a.size) (h2 : k < b.size) :
    (add a b = .ok c → c[k]?.map toC = some (toC a[k] + toC b[k])) ∧
    (sub a b = .ok c → c[k]?.map toC = some (toC a[k] - toC b[k])) := by
  constructor
  · intro h
    rw [(add_contents a b c h).2.2 k h1 h2]; simp [toC_add]
  · intro h
    rw [(sub_contents a b c h).2.2 k h1 h2]; simp [toC_sub]

/-- `vector / complex scalar`: entry-wise division in ℂ; the divisor `0` is rejected (class
    `arith`) exactly when there is an entry to divide -/
theorem sdiv_complex (a : Array (Cx ℝ)) (s : Cx ℝ) :
    (toC s = 0 ∧ 0 < a.size ∧ sdiv a s = .error .arith) ∨
    ((toC s ≠ 0 ∨ a.size = 0) ∧ ∃ c, sdiv a s = .ok c ∧ c.size = a.size ∧
      ∀ k : Nat, c[k]?.map toC = a[k]?.map (fun z => toC z / toC s)) := by
  by_cases hs : toC s = 0
  · by_cases ha : 0 < a.size
    · refine Or.inl ⟨hs, ha, ?_⟩
      rw [sdiv_error_iff]
      exact ⟨0, ha, (toC_div_error _ s).mpr hs, fun j hj => absurd hj (Nat.not_lt_zero j)⟩
    · have : a = #[] := by simpa using ha
      subst this
      exact Or.inr ⟨Or.inr rfl, #[], sdiv_empty s, rfl, fun k => by simp⟩
  · refine Or.inr ⟨Or.inl hs, ?_⟩
    have hq : ∀ z : Cx ℝ, ∃ q, Cx.div z s = .ok q ∧ toC q = toC z / toC s :=
      fun z => toC_div_ok z s hs
    choose g hg1 hg2 using hq
    refine ⟨a.map g, mapM_ok_arr a _ g (fun x _ => hg1 x), by simp, fun k => ?_⟩
    rw [Array.getElem?_map]
    cases a[k]? <;> simp [hg2]

example : sdiv (#[⟨1, 2⟩] : Array (Cx ℝ)) ⟨0, 0⟩ = .error .arith := by
  rcases sdiv_complex #[⟨1, 2⟩] ⟨0, 0⟩ with h | h
  · exact h.2.2
  · rcases h.1 with h | h
    · exact absurd rfl h
    · simp at h

end ComplexVecReal

end Ohsl.Props.C15
