/-
  Property C17 (continued) — the affine-system theorems of C17A with the hypothesis "the linear
  solves return" discharged by completeness of `solve_basic` (C01C): it is enough that the matrix
  of the system is nonsingular.
-/
import Ohsl.Props.C17A
import Ohsl.Props.C01C
set_option linter.unusedSectionVars false
set_option linter.unusedVariables false
namespace Ohsl.Props.C17
open Ohsl Ohsl.Newton Ohsl.Jac Ohsl.Mat

variable {K : Type} [Field K] [LinearOrder K] [IsStrictOrderedRing K] [Transc K]
attribute [local instance] Ohsl.Alg.scalarExt

/-- nonsingular `M` ⇒ every linear solve of the Newton iteration on `F x = M x − c` returns -/
theorem hsolve_of_det (M : Nat → Nat → K) (c : Nat → K) (n : Nat) (hn : 1 ≤ n)
    (hdet : Matrix.det (Matrix.of fun (i j : Fin n) => M i.val j.val) ≠ 0)
    (guess : Array K) (hg : guess.size = n) :
    ∀ J : Mat K, Mat.Is J n n M →
      (∃ dx, Mat.solveBasic J (affineRes M c n guess) = .ok dx) ∧
      (∃ dx, Mat.solveBasic J (Array.replicate n (0 : K)) = .ok dx) := by
  intro J hJ
  exact ⟨C01.solveBasic_complete hn hJ (by simp [affineRes_size]) hdet,
         C01.solveBasic_complete hn hJ (by simp) hdet⟩

/-- **Newton on a nonsingular affine system, supplied Jacobian**: from ANY guess the first step
    lands exactly on THE solution of `M x = c`, the second step is zero and every budget
    `maxIter ≥ 2` reports success there. -/
theorem newton_affine_sys_supplied_det
    (hle : ∀ x y : K, Transc.le x y = decide (x ≤ y)) (habs0 : Transc.fabs (0 : K) = 0)
    (M : Nat → Nat → K) (c : Nat → K) (n : Nat) (hn : 1 ≤ n)
    (hdet : Matrix.det (Matrix.of fun (i j : Fin n) => M i.val j.val) ≠ 0)
    (jacF : Array K → Res (Mat K × List (Array K)))
    (hJ : ∀ x : Array K, x.size = n → ∃ J jtr, jacF x = .ok (J, jtr) ∧ Mat.Is J n n M)
    (tol : K) (htol : 0 ≤ tol) (guess : Array K) (hg : guess.size = n) :
    ∃ xs : Array K, IsRoot M c n xs ∧
      ∀ maxIter, 2 ≤ maxIter → ∃ tr,
        solveSys (affineRes M c n) jacF Vec.normInf (fun r => Transc.le r tol) maxIter guess []
          = .ok (⟨true, xs⟩, tr) := by
  obtain ⟨xs, r0, jtr0, jtr1, hroot, _, _, _, _, _, _, _, hall⟩ :=
    newton_affine_sys_supplied hle habs0 M c n hn jacF hJ tol htol guess hg
      (hsolve_of_det M c n hn hdet guess hg)
  exact ⟨xs, hroot, fun k hk => ⟨_, hall k hk⟩⟩

/-- **… finite-difference Jacobian** (any `delta ≠ 0`) -/
theorem newton_affine_sys_fd_det
    (hle : ∀ x y : K, Transc.le x y = decide (x ≤ y)) (habs0 : Transc.fabs (0 : K) = 0)
    (M : Nat → Nat → K) (c : Nat → K) (n : Nat) (hn : 1 ≤ n)
    (hdet : Matrix.det (Matrix.of fun (i j : Fin n) => M i.val j.val) ≠ 0)
    (delta : K) (hd : delta ≠ 0)
    (tol : K) (htol : 0 ≤ tol) (guess : Array K) (hg : guess.size = n) :
    ∃ xs : Array K, IsRoot M c n xs ∧
      ∀ maxIter, 2 ≤ maxIter → ∃ tr,
        solveSys (affineRes M c n) (fun x => jacobian (affineRes M c n) x delta) Vec.normInf
          (fun r => Transc.le r tol) maxIter guess [] = .ok (⟨true, xs⟩, tr) := by
  have h := newton_affine_sys_fd hle habs0 M c n hn delta hd tol htol guess hg
      (hsolve_of_det M c n hn hdet guess hg)
  obtain ⟨xs, r0, jtr0, jtr1, hroot, rest⟩ := h
  refine ⟨xs, hroot, ?_⟩
  intro k hk
  -- the last conjunct is the statement for every budget ≥ 2
  obtain ⟨_, _, _, _, _, _, _, _, _, hall⟩ := rest
  exact ⟨_, hall k hk⟩

end Ohsl.Props.C17
