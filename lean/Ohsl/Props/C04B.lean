/-
  Property C04 (part B) — banded matrix against its dense twin
  (model: Ohsl/Model/Banded.lean, lemmas: Ohsl/Lemmas/BandSpec.lean).

  `WFb b`        the compact storage of `b` is a well-formed `n × (m1+m2+1)` matrix;
  `dense b i j`  the dense twin: compact slot `(i, m1 + j - i)` for in-band, in-matrix `(i,j)`,
                 zero elsewhere;  `inBand b i j` := `j ≤ i + m2 ∧ i ≤ j + m1`.

  (S) index operator, arithmetic, `fill_band`: pointwise on the dense twin, frame conditions.
  (S) `mulVec_ordered` / `mulVec_padding`; (E) `mulVec_spec`: the band-limited loop is the dense
      product, for every `(n, m1, m2)`.
  (S) `shiftRows_spec` (first phase of `decompose`), `decompose_m1_zero`, `det_upper_ordered`;
  (E) `det_upper`, `solve_sound_upper_partial`, `solve_upper_complete` for upper-banded storage;
  (S) `decompose_padding`, `det_padding`, `solve_padding`: two runs in lock-step — padding slots
      never influence `decompose` / `det` / `solve` (same value or same panic), any scalar type.
  (E) `solve_sound`: the compact LU with row exchanges + both substitution loops are simulated
      against the dense twin — every returned vector solves the dense system, any `(n, m1, m2)`.
-/
import Ohsl.Props.C04
import Ohsl.Lemmas.BandSpec
set_option linter.unusedSectionVars false
set_option linter.unusedVariables false
namespace Ohsl.Props.C04
open Ohsl Ohsl.Band

/-! ### 1. index operator (S) -/
section Index
variable {K : Type} [Zero K]

/-- reading an in-band, in-matrix entry of a well-formed banded matrix returns the dense twin -/
theorem get_spec {b : Band K} (h : WFb b) {i j : Nat} (hb : inBand b i j) (hi : i < b.n)
    (hj : j < b.n) : Band.get b i j = .ok (dense b i j) :=
  Band.get_spec h hb hi hj

/-- outside the band the index operator panics (class `range`) -/
theorem get_out_of_band (b : Band K) {i j : Nat} (h : ¬ inBand b i j) :
    Band.get b i j = .error .range :=
  Band.get_out_of_band b h

/-- writing an in-band, in-matrix entry succeeds, keeps `(n, m1, m2)` and well-formedness,
    changes exactly the addressed entry of the dense twin (frame condition on every other one) -/
theorem set_spec {b : Band K} (h : WFb b) {i j : Nat} (hb : inBand b i j) (hi : i < b.n)
    (hj : j < b.n) (v : K) :
    ∃ b', Band.set b i j v = .ok b' ∧ WFb b' ∧ SameShape b' b ∧ dense b' i j = v ∧
      ∀ i' j', (i' ≠ i ∨ j' ≠ j) → dense b' i' j' = dense b i' j' :=
  Band.set_spec h hb hi hj v

/-- a write outside the band panics -/
theorem set_out_of_band (b : Band K) {i j : Nat} (v : K) (h : ¬ inBand b i j) :
    Band.set b i j v = .error .range :=
  Band.set_out_of_band b v h

/-- `set` then `get` at the same in-band position reads the written value back -/
theorem get_set_same {b : Band K} (h : WFb b) {i j : Nat} (hb : inBand b i j) (hi : i < b.n)
    (hj : j < b.n) (v : K) :
    ∃ b', Band.set b i j v = .ok b' ∧ Band.get b' i j = .ok v := by
  obtain ⟨b', h1, hw, ⟨s1, s2, s3⟩, hv, _⟩ := Band.set_spec h hb hi hj v
  refine ⟨b', h1, ?_⟩
  have hb' : inBand b' i j := by unfold inBand at *; omega
  rw [Band.get_spec hw hb' (by omega) (by omega), hv]

end Index

/-! ### 2. arithmetic and `fill_band` (S) -/
section Arith
variable {K : Type} [Add K] [Sub K] [Mul K] [Neg K] [Zero K] [One K] [BEq K] [ScalarExt K]

theorem add_spec {a b : Band K} (ha : WFb a) (hb : WFb b) (hs : SameShape a b) :
    ∃ c, Band.add a b = .ok c ∧ WFb c ∧ SameShape c a ∧
      ∀ i j, inBand a i j → i < a.n → j < a.n → dense c i j = dense a i j + dense b i j :=
  Band.add_spec ha hb hs

theorem sub_spec {a b : Band K} (ha : WFb a) (hb : WFb b) (hs : SameShape a b) :
    ∃ c, Band.sub' a b = .ok c ∧ WFb c ∧ SameShape c a ∧
      ∀ i j, inBand a i j → i < a.n → j < a.n → dense c i j = dense a i j - dense b i j :=
  Band.sub_spec ha hb hs

theorem neg_spec {a : Band K} (ha : WFb a) :
    ∃ c, Band.neg a = .ok c ∧ WFb c ∧ SameShape c a ∧
      ∀ i j, inBand a i j → i < a.n → j < a.n → dense c i j = - dense a i j :=
  Band.neg_spec ha

theorem smul_spec {a : Band K} (ha : WFb a) (s : K) :
    ∃ c, Band.smul a s = .ok c ∧ WFb c ∧ SameShape c a ∧
      ∀ i j, inBand a i j → i < a.n → j < a.n → dense c i j = dense a i j * s :=
  Band.smul_spec ha s

/-- scalar division: the loop divides EVERY compact slot (padding included), so success of the
    scalar division is required on all of them; `q` is the value of the division -/
theorem sdiv_spec {a : Band K} (ha : WFb a) (s : K) (q : K → K)
    (hq : ∀ i j, i < a.n → j < a.m1 + a.m2 + 1 →
      ScalarExt.divM (Mat.entryOf a.compact i j) s = .ok (q (Mat.entryOf a.compact i j))) :
    ∃ c, Band.sdiv a s = .ok c ∧ WFb c ∧ SameShape c a ∧
      ∀ i j, inBand a i j → i < a.n → j < a.n → dense c i j = q (dense a i j) :=
  Band.sdiv_spec ha s q hq

theorem addS_spec {a : Band K} (ha : WFb a) (s : K) :
    ∃ c, Band.addS a s = .ok c ∧ WFb c ∧ SameShape c a ∧
      ∀ i j, inBand a i j → i < a.n → j < a.n → dense c i j = dense a i j + s :=
  Band.addS_spec ha s

theorem subS_spec {a : Band K} (ha : WFb a) (s : K) :
    ∃ c, Band.subS a s = .ok c ∧ WFb c ∧ SameShape c a ∧
      ∀ i j, inBand a i j → i < a.n → j < a.n → dense c i j = dense a i j - s :=
  Band.subS_spec ha s

/-- all seven operators at once: each acts entrywise on the dense twin restricted to the band
    and preserves the shape (mismatched `(n, m1, m2)` is rejected: `add_rejects` in C04) -/
theorem arith_spec {a b : Band K} (ha : WFb a) (hb : WFb b) (hs : SameShape a b) (s : K) :
    (∃ c, Band.add a b = .ok c ∧ WFb c ∧ SameShape c a ∧
      ∀ i j, inBand a i j → i < a.n → j < a.n → dense c i j = dense a i j + dense b i j) ∧
    (∃ c, Band.sub' a b = .ok c ∧ WFb c ∧ SameShape c a ∧
      ∀ i j, inBand a i j → i < a.n → j < a.n → dense c i j = dense a i j - dense b i j) ∧
    (∃ c, Band.neg a = .ok c ∧ WFb c ∧ SameShape c a ∧
      ∀ i j, inBand a i j → i < a.n → j < a.n → dense c i j = - dense a i j) ∧
    (∃ c, Band.smul a s = .ok c ∧ WFb c ∧ SameShape c a ∧
      ∀ i j, inBand a i j → i < a.n → j < a.n → dense c i j = dense a i j * s) ∧
    (∃ c, Band.addS a s = .ok c ∧ WFb c ∧ SameShape c a ∧
      ∀ i j, inBand a i j → i < a.n → j < a.n → dense c i j = dense a i j + s) ∧
    (∃ c, Band.subS a s = .ok c ∧ WFb c ∧ SameShape c a ∧
      ∀ i j, inBand a i j → i < a.n → j < a.n → dense c i j = dense a i j - s) :=
  ⟨Band.add_spec ha hb hs, Band.sub_spec ha hb hs, Band.neg_spec ha, Band.smul_spec ha s,
    Band.addS_spec ha s, Band.subS_spec ha s⟩

/-- `fill_band(band, x)` for `-m1 ≤ band ≤ m2` sets exactly the entries with `j - i = band` -/
theorem fillBand_spec {b : Band K} (h : WFb b) (band : Int) (x : K)
    (h1 : -(b.m1 : Int) ≤ band) (h2 : band ≤ (b.m2 : Int)) :
    ∃ b', Band.fillBand b band x = .ok b' ∧ WFb b' ∧ SameShape b' b ∧
      ∀ i j, inBand b i j → i < b.n → j < b.n →
        dense b' i j = if (j : Int) - (i : Int) = band then x else dense b i j :=
  Band.fillBand_spec h band x h1 h2

/-- a freshly created banded matrix is well formed and constant on its band -/
theorem new_spec (n m1 m2 : Nat) (x : K) :
    WFb (Band.new n m1 m2 x) ∧
      ∀ i j, inBand (Band.new n m1 m2 x) i j → i < n → j < n → dense (Band.new n m1 m2 x) i j = x := by
  have hI : Mat.Is (Band.new n m1 m2 x).compact n (m1 + m2 + 1) (fun _ _ => x) :=
    Mat.Is.of_new n (m1 + m2 + 1) x
  refine ⟨⟨_, hI⟩, ?_⟩
  intro i j hb hi hj
  exact Band.dense_of_is (b := Band.new n m1 m2 x) hI hb hi hj

end Arith

/-! ### 3. the product with a vector -/
section MulVecS
variable {K : Type} [Add K] [Mul K] [Zero K]

/-- (S) the band-limited loop as an ordered sum: for every well-formed banded matrix — any
    `(n, m1, m2)`, including `m1, m2 ≥ n - 1`, `n = 1` and `n = 0` — and every vector of length `n`
    the product succeeds with a vector of length `n` whose component `i` is the sum of
    `dense b i j * v[j]` over the in-band, in-matrix columns `j`, accumulated from `0` in
    increasing order of `j` -/
theorem mulVec_ordered {b : Band K} (h : WFb b) (v : Array K) (hv : v.size = b.n) :
    ∃ w, Band.mulVec b v = .ok w ∧ w.size = b.n ∧
      ∀ i, i < b.n → w[i]? = some
        ((List.range' (i - b.m1) (min b.n (i + b.m2 + 1) - (i - b.m1))).foldl
          (fun acc j => acc + dense b i j * v[j]?.getD 0) 0) :=
  Band.mulVec_ordered h v hv

/-- (S) padding slots are never read: two banded matrices of the same shape that agree on all
    in-band, in-matrix slots give the same product (same value or same panic) -/
theorem mulVec_padding {a b : Band K} (ha : WFb a) (hb : WFb b) (hs : SameShape a b)
    (hag : ∀ i j, inBand a i j → i < a.n → j < a.n → dense a i j = dense b i j) (v : Array K) :
    Band.mulVec a v = Band.mulVec b v :=
  Band.mulVec_padding ha hb hs hag v

end MulVecS

section MulVecE
variable {K : Type} [CommSemiring K]

/-- (E) the band-limited loop equals the dense product `w[i] = Σ_{j<n} dense b i j * v[j]`,
    for every `(n, m1, m2)` -/
theorem mulVec_spec {b : Band K} (h : WFb b) (v : Array K) (hv : v.size = b.n) :
    ∃ w, Band.mulVec b v = .ok w ∧ w.size = b.n ∧
      ∀ i, i < b.n → w[i]?.getD 0 = ∑ j ∈ Finset.range b.n, dense b i j * v[j]?.getD 0 :=
  Band.mulVec_spec h v hv

end MulVecE

/-! ### 4. `decompose` / `det` / `solve` -/
section Dec
variable {K : Type} [Sub K] [Mul K] [Neg K] [Zero K] [One K] [BEq K] [ScalarExt K]

/-- (S) first phase of `decompose` (`m1 ≤ n`): row `i < m1` is shifted left by `m1 - i` and
    zero-filled on the right, every other row is unchanged -/
theorem shiftRows_spec {au : Mat K} {n m1 m2 : Nat} {c : Nat → Nat → K}
    (h : Mat.Is au n (m1 + m2 + 1) c) (hm : m1 ≤ n) :
    ∃ au', shiftRows m1 m2 au = .ok au' ∧
      Mat.Is au' n (m1 + m2 + 1) (fun i j =>
        if i < m1 then (if j + (m1 - i) < m1 + m2 + 1 then c i (j + (m1 - i)) else 0) else c i j) :=
  Band.shiftRows_spec h hm

/-- (S) after the first phase slot `(i, t)` holds the matrix entry `(i, (i - m1) + t)`: every row
    starts at its first in-matrix column -/
theorem shiftRows_dense {b : Band K} (h : WFb b) (hm : b.m1 ≤ b.n) :
    ∃ au', shiftRows b.m1 b.m2 b.compact = .ok au' ∧ au'.rows = b.n ∧
      au'.cols = b.m1 + b.m2 + 1 ∧ au'.WF ∧
      ∀ i t, i < b.n → t + (b.m1 - i) < b.m1 + b.m2 + 1 → (i - b.m1) + t < b.n →
        au'.get i t = .ok (dense b i ((i - b.m1) + t)) := by
  obtain ⟨au', h1, hI⟩ := Band.shiftRows_spec h.is hm
  refine ⟨au', h1, hI.rows, hI.cols, hI.wf, ?_⟩
  intro i t hi ht hn
  rw [hI.get hi (by omega), Band.shifted_dense h hi ht hn]

/-- (S) `decompose` on upper-banded storage (`m1 = 0`): no exchange (`index[k] = k + 1`, `d = 1`),
    no elimination (`al` is the empty `n × 0` matrix); the upper factor is the compact storage
    itself, except that a diagonal slot testing `== 0` is overwritten by the literal `0` -/
theorem decompose_m1_zero {b : Band K} (h : WFb b) (hm : b.m1 = 0) :
    ∃ s, decompose b = .ok s ∧
      Mat.Is s.au b.n (b.m1 + b.m2 + 1) (fun i j =>
        if j = 0 then fixZero (Mat.entryOf b.compact i 0) else Mat.entryOf b.compact i j) ∧
      s.al = Mat.new b.n 0 (0 : K) ∧ s.index.size = b.n ∧
      (∀ i, i < b.n → s.index[i]? = some (i + 1)) ∧ s.d = 1 :=
  Band.decompose_upper h hm

/-- (S) `det` on upper-banded storage: the ordered product of the (zero-fixed) diagonal -/
theorem det_upper_ordered {b : Band K} (h : WFb b) (hm : b.m1 = 0) :
    det b = .ok ((List.range' 0 b.n).foldl (fun dd i => dd * fixZero (dense b i i)) 1) :=
  Band.det_upper_ordered h hm

/-- (S) with more sub-diagonals than rows (`m1 > n`) the first phase of `decompose` addresses row
    `n`: `decompose`, `det` and `solve` panic (class `range`) -/
theorem decompose_rejects {b : Band K} (h : WFb b) (hm : b.n < b.m1) :
    decompose b = .error .range ∧ det b = .error .range ∧
      ∀ rhs : Array K, rhs.size = b.n → solve b rhs = .error .range :=
  ⟨Band.decompose_rejects h hm, Band.det_rejects h hm,
    fun rhs hr => Band.solve_rejects_m1 h hm rhs hr⟩

end Dec

/-! ### 4b. padding slots are never read by `decompose` / `det` / `solve` (S) -/
section Padding
variable {K : Type} [Add K] [Sub K] [Mul K] [Neg K] [Zero K] [One K] [BEq K] [ScalarExt K]

/-- (S) `decompose` in lock-step on two well-formed banded matrices of the same shape that agree on
    all in-band, in-matrix slots (`DenseEq`): both runs panic identically, or they return the same
    multipliers, exchange record and sign, and upper factors that agree on every slot whose column
    lies inside the matrix.  No law about the scalar operations is used. -/
theorem decompose_padding {a b : Band K} (ha : WFb a) (hb : WFb b) (h : DenseEq a b) :
    RelRes (fun sa sb => sa.al = sb.al ∧ sa.index = sb.index ∧ sa.d = sb.d ∧
        PadEq a.n (a.m1 + a.m2 + 1) (fun i => i) sa.au sb.au) (decompose a) (decompose b) :=
  Band.decompose_rel ha hb h

/-- (S) `det` never reads a padding slot: same value or same panic -/
theorem det_padding {a b : Band K} (ha : WFb a) (hb : WFb b) (h : DenseEq a b) :
    det a = det b :=
  Band.det_padding ha hb h

/-- (S) `solve` never reads a padding slot: same solution (bit for bit) or same panic -/
theorem solve_padding {a b : Band K} (ha : WFb a) (hb : WFb b) (h : DenseEq a b)
    (rhs : Array K) : solve a rhs = solve b rhs :=
  Band.solve_padding ha hb h rhs

end Padding

section DetE
variable {K : Type} [CommRing K] [BEq K] [LawfulBEq K] [ScalarExt K]

/-- (E) `det` on upper-banded storage is the product of the diagonal -/
theorem det_upper {b : Band K} (h : WFb b) (hm : b.m1 = 0) :
    det b = .ok (∏ i ∈ Finset.range b.n, dense b i i) :=
  Band.det_upper h hm

end DetE

section SolveE
variable {F : Type} [Field F] [LinearOrder F]
attribute [local instance] Ohsl.Alg.scalarExt

/-- (E) soundness of `solve` on upper-banded storage (back substitution): every returned vector
    solves the dense system.
    PARTIAL: this statement covers only `m1 = 0`; the general case is `solve_sound` below. -/
theorem solve_sound_upper_partial {b : Band F} (h : WFb b) (hm : b.m1 = 0) {rhs x : Array F}
    (hs : solve b rhs = .ok x) :
    x.size = b.n ∧ ∀ i, i < b.n →
      ∑ j ∈ Finset.range b.n, dense b i j * x[j]?.getD 0 = rhs[i]?.getD 0 :=
  Band.solve_sound_upper h hm hs

/-- (E) the hypothesis of `solve_sound_upper_partial` is satisfiable: on upper-banded storage with
    a nowhere-zero diagonal `solve` succeeds for every right-hand side of length `n` -/
theorem solve_upper_complete {b : Band F} (h : WFb b) (hm : b.m1 = 0) {rhs : Array F}
    (hr : rhs.size = b.n) (hd : ∀ i, i < b.n → dense b i i ≠ 0) :
    ∃ x, solve b rhs = .ok x ∧ x.size = b.n :=
  Band.solve_upper_complete h hm hr hd

/-- existence and correctness together -/
theorem solve_upper_correct {b : Band F} (h : WFb b) (hm : b.m1 = 0) {rhs : Array F}
    (hr : rhs.size = b.n) (hd : ∀ i, i < b.n → dense b i i ≠ 0) :
    ∃ x, solve b rhs = .ok x ∧ x.size = b.n ∧ ∀ i, i < b.n →
      ∑ j ∈ Finset.range b.n, dense b i j * x[j]?.getD 0 = rhs[i]?.getD 0 := by
  obtain ⟨x, hx, _⟩ := Band.solve_upper_complete h hm hr hd
  exact ⟨x, hx, Band.solve_sound_upper h hm hx⟩


/-- (E) **soundness of the banded solver for every shape** (`bandec` with row exchanges by
    magnitude + `banbks`; any `n`, `m1`, `m2`): every vector returned by `solve` has length `n`
    and solves the dense system `Σ_j dense b i j * x[j] = rhs[i]`.  Padding slots of the compact
    storage do not matter (the dense twin ignores them).  A zero pivot makes the final division
    fail, so nothing is returned for the systems the elimination cannot handle. -/
theorem solve_sound {b : Band F} (h : WFb b) {rhs x : Array F} (hs : solve b rhs = .ok x) :
    x.size = b.n ∧ ∀ i, i < b.n →
      ∑ j ∈ Finset.range b.n, dense b i j * x[j]?.getD 0 = rhs[i]?.getD 0 :=
  Band.solve_sound h hs

/-- (E) a non-zero computed determinant guarantees that `solve` succeeds, and the result solves
    the dense system: the hypothesis of `solve_sound` holds for every such matrix -/
theorem solve_complete {b : Band F} (h : WFb b) {rhs : Array F} (hr : rhs.size = b.n) {δ : F}
    (hd : det b = .ok δ) (hδ : δ ≠ 0) :
    ∃ x, solve b rhs = .ok x ∧ x.size = b.n ∧ ∀ i, i < b.n →
      ∑ j ∈ Finset.range b.n, dense b i j * x[j]?.getD 0 = rhs[i]?.getD 0 := by
  obtain ⟨x, hx, _⟩ := Band.solve_complete h hr hd hδ
  exact ⟨x, hx, Band.solve_sound h hx⟩

/-- (E) over a field `decompose` never fails when `m1 ≤ n` (a zero pivot only suppresses the
    elimination of that column) -/
theorem decompose_total {b : Band F} (h : WFb b) (hm : b.m1 ≤ b.n) :
    ∃ s, decompose b = .ok s ∧ s.au.WF ∧ s.au.rows = b.n ∧ s.au.cols = b.m1 + b.m2 + 1 ∧
      s.al.WF ∧ s.al.rows = b.n ∧ s.al.cols = b.m1 ∧ s.index.size = b.n := by
  obtain ⟨s, l, hdec, _, hau, hal, hsz, _, _⟩ := Band.decompose_inv h hm
  exact ⟨s, hdec, hau.wf, hau.rows, hau.cols, hal.wf, hal.rows, hal.cols, hsz⟩

end SolveE

section Example
attribute [local instance] Ohsl.Alg.scalarExt

/-- the hypotheses `WFb`, `m1 = 0`, nowhere-zero diagonal are satisfiable for a non-trivial matrix
    (`3 × 3`, one super-diagonal, entries 2 on the band) -/
example : WFb (Band.new 3 0 1 (2 : ℚ)) ∧ (Band.new 3 0 1 (2 : ℚ)).m1 = 0 ∧
    ∀ i, i < (Band.new 3 0 1 (2 : ℚ)).n → dense (Band.new 3 0 1 (2 : ℚ)) i i ≠ 0 := by
  refine ⟨(new_spec 3 0 1 (2 : ℚ)).1, rfl, ?_⟩
  intro i hi
  have hi' : i < 3 := hi
  rw [(new_spec 3 0 1 (2 : ℚ)).2 i i (by unfold inBand; omega) hi' hi']
  norm_num

/-- a `3 × 3` tridiagonal system (`m1 = m2 = 1`) whose first pivot step exchanges rows; the two
    padding slots hold the garbage value `7`.  Dense matrix `[[1,2,0],[3,4,1],[0,1,1]]`. -/
def exBand : Band ℚ := ⟨3, 1, 1, ⟨#[7, 1, 2, 3, 4, 1, 1, 1, 7], 3, 3⟩⟩

/-- the hypothesis of `solve_sound` is satisfiable with `m1 > 0` and a row exchange -/
example : WFb exBand ∧ solve exBand #[3, 8, 2] = .ok #[1, 1, 1] := by
  refine ⟨⟨_, Mat.Is.of_wf (by unfold Mat.WF; rfl)⟩, by decide +kernel⟩

/-- the same matrix with zeros in the padding slots -/
def exBand0 : Band ℚ := ⟨3, 1, 1, ⟨#[0, 1, 2, 3, 4, 1, 1, 1, 0], 3, 3⟩⟩

/-- the hypothesis `DenseEq` of the padding theorems is satisfiable by two different storages -/
example : WFb exBand ∧ WFb exBand0 ∧ DenseEq exBand exBand0 ∧ exBand.compact.data ≠ exBand0.compact.data := by
  refine ⟨⟨_, Mat.Is.of_wf (by unfold Mat.WF; rfl)⟩, ⟨_, Mat.Is.of_wf (by unfold Mat.WF; rfl)⟩,
    ⟨⟨rfl, rfl, rfl⟩, ?_⟩, by decide +kernel⟩
  intro i j _ hi hj
  have key : ∀ i, i < 3 → ∀ j, j < 3 → dense exBand i j = dense exBand0 i j := by decide +kernel
  exact key i hi j hj

end Example

end Ohsl.Props.C04
