/-
  Property C18 (part F) — the finite-difference Jacobian (`Ohsl.Jac.jacobian`, Ohsl/Model/Newton.lean)
  in the "rounded reals" interpretation `Fl M` (Ohsl/Lemmas/Rounding.lean): the SAME model definition
  instantiated at real numbers whose `+ - /` round with relative error `≤ u` (standard model of
  floating-point arithmetic, no overflow / underflow).  The transfer to the Rust `f64` code rests on
  the ASSUMPTION stated in Rounding.lean (IEEE binary64 without overflow/underflow satisfies `FlModel`
  with `u = 2⁻⁵³`); it is not proved here.  The user function `f` is a black box
  `Array (Fl M) → Array (Fl M)`.

  Notation: `x = vals point` (the real values of the point), `δ = delta.val ≠ 0`, `n = point.size`,
  `x̃_c = evalPt point delta c` the point at which the model evaluates `f` for column `c` (C18E
  `jacobian_entries`), `M.gam 2 = (1+u)² - 1`.

  section Rounding (F):
  * `restore_rounding_sharp` : `|fl(fl(x+d) - d) - x| ≤ u|x| + u(1+u)|x+d|`;
    `restore_rounding`       : `… ≤ gam 2 · (|x| + |d|)` (attained, see Examples);
    `restore_exact_of_rep`   : exact when `x + d` and `x` are representable.
    (Facts about the arithmetic only: the loop used to restore the perturbed coordinate by `(x+d) - d`;
    since repair D15 it puts the SAVED coordinate back, so these no longer enter the bounds below.)
  * `evalPoint_drift`        : `x̃_c` coordinate by coordinate — `k = c`: `fl(x_c+δ)`, off by
    `≤ u|x_c+δ|`; `k ≠ c` (earlier AND later coordinates): `x_k` exactly;
    `evalPoint_drift_l1`     : `‖x̃_c - (x + δ e_c)‖₁ ≤ drift_c := u|x_c+δ|`.
  * `quotient_rounding`      : `|fl(fl(a-b)/δ) - (a-b)/δ| ≤ gam 2 |a-b|/|δ|`;
    `jacobian_entry_rounding`: over `Fl M` with `δ ≠ 0` the call succeeds, the trace is
    `x, x̃_0, …, x̃_{n-1}`, entry `(i,c)` IS `fl(fl(a-b)/δ)`, `a = f(x̃_c)_i`, `b = f(x)_i`, with that bound.
  * `jacobian_error_terms`, `jacobian_total_error_fine`, `jacobian_total_error` : every shape `m × n`;
    `f` returns a real map `G` with relative error `≤ εf` at the `n+1` evaluation points, the partial
    functions of `G` at `x` are `C²` on `[[0,δ]]` with `|∂²| ≤ M₂` (as in C18R `jacobian_accuracy`),
    `G_i` is `ℓ¹`-Lipschitz with constant `L` between `x̃_c` and `x + δ e_c`, `|G_i| ≤ Gm` at the
    evaluation points:
      `|Ĵ_ic - ∂G_i/∂x_c(x)| ≤ M₂|δ|/2 + (L·drift_c + 2 Gm ((1+εf)(1+u)² - 1)) / |δ|`
    (truncation + rounding `≈ 2(εf + 2u)max|G|/|δ|` + displacement of the evaluation point).
  * `jacobian_total_error_box` : the same with the classical hypotheses — first/second partials
    `D1`, `D2` of `G` exist on a box containing all evaluation and ideal points, `|D1| ≤ L`,
    `|D2| ≤ M₂`, `|G| ≤ Gm` there; the Lipschitz hypothesis is DERIVED
    (`lipschitz_l1_of_partial_bounds`, section Real).
  * `jacobian_total_error_scalar` : `m = n = 1`, `g : ℝ → ℝ` `C²` on an interval.
  * `jacobian_total_error_exact`, `evalPt_vals_exact` : in `FlModel.exact` with `εf = 0` the bound is
    `M₂|δ|/2`, the statement of C18R.
  section Real (R): `lipschitz_of_deriv_bound`, `partial_shift`, `partial_lipschitz`,
    `lipschitz_l1_of_partial_bounds`, `fd_error_combine`, `fd_error_combine_max`.
  section Examples: `x ↦ x²` at `3` and `(x,y) ↦ xy` at `(1,2)`, `δ = 1/4`, any model with `u ≤ 1/8`, in
    particular `FlModel.binary64` and `FlModel.exact`.
  NOT proved: optimal choice of `δ` (`≈ 2 sqrt((εf+2u) Gm / M₂)`); overflow/underflow; bounds relative
    to the ACTUAL step `fl(x_c+δ) - x_c` (which would remove the `L u |x_c+δ|/|δ|` term at the price of
    a perturbed `δ`); the complex variant `jacobian_cmplx`.
-/
import Ohsl.Props.C18R
import Ohsl.Lemmas.Rounding
import Mathlib.Algebra.Order.BigOperators.Group.Finset
import Mathlib.Tactic.Ring
import Mathlib.Tactic.Linarith
import Mathlib.Tactic.Positivity
import Mathlib.Tactic.FieldSimp
set_option linter.unusedSectionVars false
set_option linter.unusedVariables false
set_option linter.unusedSimpArgs false
namespace Ohsl.Props.C18
open Ohsl Ohsl.Mat Ohsl.Jac Set

section Real

theorem getD_lt {α : Type} (a : Array α) (k : ℕ) (d : α) (h : k < a.size) : a.getD k d = a[k] := by
  simp [Array.getD, h]

/-- mean value inequality on an order-connected set -/
theorem lipschitz_of_deriv_bound (g g' : ℝ → ℝ) (I : Set ℝ) (hI : I.OrdConnected) (L : ℝ)
    (h1 : ∀ s ∈ I, HasDerivAt g (g' s) s) (hL : ∀ s ∈ I, |g' s| ≤ L) (a b : ℝ) (ha : a ∈ I)
    (hb : b ∈ I) : |g a - g b| ≤ L * |a - b| := by
  have hsub : uIcc b a ⊆ I := hI.uIcc_subset hb ha
  have := Convex.norm_image_sub_le_of_norm_hasDerivWithin_le (f := g) (f' := g')
    (s := uIcc b a) (C := L) (fun x hx => (h1 x (hsub hx)).hasDerivWithinAt)
    (fun x hx => by simpa using hL x (hsub hx)) (convex_uIcc _ _) left_mem_uIcc right_mem_uIcc
  simpa using this


/-! #### `ℓ¹`-Lipschitz bound from bounded first partial derivatives on a box -/

theorem modify_getD (a : Array ℝ) (k j : ℕ) (f : ℝ → ℝ) (hj : j < a.size) :
    (a.modify k f).getD j 0 = if k = j then f (a.getD j 0) else a.getD j 0 := by
  have hj' : j < (a.modify k f).size := by simpa using hj
  rw [getD_lt _ _ _ hj', getD_lt _ _ _ hj, Array.getElem_modify]

theorem modify_modify_add (a : Array ℝ) (k : ℕ) (t s : ℝ) :
    (a.modify k (fun p => p + t)).modify k (fun p => p + s) = a.modify k (fun p => p + (t + s)) := by
  apply Array.ext_getElem?
  intro j
  simp only [Array.getElem?_modify]
  by_cases e : k = j
  · simp only [e, if_true, Option.map_map]
    congr 1
    funext p
    simp [add_assoc]
  · simp [e]

/-- the box `∏ₖ [lo k, hi k] ⊆ ℝⁿ` (arrays of size `n`) -/
def box (n : ℕ) (lo hi : ℕ → ℝ) : Set (Array ℝ) :=
  {y | y.size = n ∧ ∀ k, k < n → lo k ≤ y.getD k 0 ∧ y.getD k 0 ≤ hi k}

theorem box_modify_mem {n : ℕ} {lo hi : ℕ → ℝ} (y : Array ℝ) (hy : y ∈ box n lo hi) (k : ℕ)
    (t : ℝ) (h1 : lo k ≤ y.getD k 0 + t) (h2 : y.getD k 0 + t ≤ hi k) :
    y.modify k (fun p => p + t) ∈ box n lo hi := by
  refine ⟨by simpa using hy.1, fun j hj => ?_⟩
  rw [modify_getD _ _ _ _ (by rw [hy.1]; exact hj)]
  by_cases e : k = j
  · subst e; rw [if_pos rfl]; exact ⟨h1, h2⟩
  · rw [if_neg e]; exact hy.2 j hj

/-- a derivative at `0` of the partial function at the shifted point is a derivative at `t` of the
    partial function at the original point -/
theorem partial_shift (φ : Array ℝ → ℝ) (y : Array ℝ) (k : ℕ) (t d : ℝ)
    (h : HasDerivAt (fun s => φ ((y.modify k (fun p => p + t)).modify k (fun p => p + s))) d 0) :
    HasDerivAt (fun s => φ (y.modify k (fun p => p + s))) d t := by
  have h' : HasDerivAt (fun s => φ ((y.modify k (fun p => p + t)).modify k (fun p => p + s))) d
      (t - t) := by rwa [sub_self]
  have hin : HasDerivAt (fun u : ℝ => u - t) 1 t := (hasDerivAt_id t).sub_const t
  have h2 := (HasDerivAt.comp (h := fun u : ℝ => u - t) t h' hin).congr_deriv (mul_one d)
  have e : (fun u => φ ((y.modify k (fun p => p + t)).modify k (fun p => p + (u - t))))
      = fun s => φ (y.modify k (fun p => p + s)) := by
    funext u
    rw [modify_modify_add]
    have : t + (u - t) = u := by ring
    rw [this]
  rw [← e]
  exact h2

/-- moving one coordinate inside the box changes `G_i` by at most `L` times the displacement -/
theorem partial_lipschitz (G : Array ℝ → Array ℝ) (i n : ℕ) (lo hi : ℕ → ℝ) (L : ℝ)
    (hD : ∀ y ∈ box n lo hi, ∀ k, k < n → ∃ d, HasDerivAt (partialFn G y i k) d 0 ∧ |d| ≤ L)
    (y : Array ℝ) (hy : y ∈ box n lo hi) (k : ℕ) (hk : k < n) (w : ℝ)
    (hw1 : lo k ≤ y.getD k 0 + w) (hw2 : y.getD k 0 + w ≤ hi k) :
    |partialFn G y i k w - partialFn G y i k 0| ≤ L * |w| := by
  have key : ∀ t ∈ uIcc 0 w, ∃ d, HasDerivAt (partialFn G y i k) d t ∧ |d| ≤ L := by
    intro t ht
    obtain ⟨b1, b2⟩ := hy.2 k hk
    have hyt : y.modify k (fun p => p + t) ∈ box n lo hi := by
      apply box_modify_mem y hy k t
      · rw [mem_uIcc] at ht
        rcases ht with ⟨a, b⟩ | ⟨a, b⟩ <;> linarith
      · rw [mem_uIcc] at ht
        rcases ht with ⟨a, b⟩ | ⟨a, b⟩ <;> linarith
    obtain ⟨d, hd1, hd2⟩ := hD _ hyt k hk
    exact ⟨d, partial_shift (fun a => (G a).getD i 0) y k t d hd1, hd2⟩
  choose! g' hg' using key
  have := Convex.norm_image_sub_le_of_norm_hasDerivWithin_le (f := partialFn G y i k) (f' := g')
    (s := uIcc 0 w) (C := L) (fun x hx => (hg' x hx).1.hasDerivWithinAt)
    (fun x hx => by simpa using (hg' x hx).2) (convex_uIcc _ _) left_mem_uIcc right_mem_uIcc
  simpa using this

/-- **`ℓ¹`-Lipschitz from bounded first partials**: if every first partial derivative of `G_i`
    exists and is bounded by `L` on the box, then for `p`, `q` in the box
    `|G_i(q) - G_i(p)| ≤ L Σₖ |q_k - p_k|` (walk from `p` to `q` one coordinate at a time). -/
theorem lipschitz_l1_of_partial_bounds (G : Array ℝ → Array ℝ) (i n : ℕ) (lo hi : ℕ → ℝ) (L : ℝ)
    (hD : ∀ y ∈ box n lo hi, ∀ k, k < n → ∃ d, HasDerivAt (partialFn G y i k) d 0 ∧ |d| ≤ L)
    (p q : Array ℝ) (hp : p ∈ box n lo hi) (hq : q ∈ box n lo hi) :
    |(G q).getD i 0 - (G p).getD i 0| ≤ L * ∑ k ∈ Finset.range n, |q.getD k 0 - p.getD k 0| := by
  set hyb : ℕ → Array ℝ := fun k =>
    Array.ofFn (n := n) (fun j => if j.val < k then q.getD j 0 else p.getD j 0) with hhyb
  have hsz : ∀ k, (hyb k).size = n := fun k => by simp [hhyb]
  have hget : ∀ k j, j < n → (hyb k).getD j 0 = if j < k then q.getD j 0 else p.getD j 0 := by
    intro k j hj
    rw [getD_lt _ _ _ (by rw [hsz]; exact hj)]
    simp [hhyb]
  have hmem : ∀ k, hyb k ∈ box n lo hi := by
    intro k
    refine ⟨hsz k, fun j hj => ?_⟩
    rw [hget k j hj]
    split
    · exact hq.2 j hj
    · exact hp.2 j hj
  have h0 : hyb 0 = p := by
    apply Array.ext
    · rw [hsz, hp.1]
    · intro j h1 h2
      have hj : j < n := by rw [← hsz 0]; exact h1
      have := hget 0 j hj
      rw [getD_lt _ _ _ h1, getD_lt _ _ _ h2] at this
      simpa using this
  have hn : hyb n = q := by
    apply Array.ext
    · rw [hsz, hq.1]
    · intro j h1 h2
      have hj : j < n := by rw [← hsz n]; exact h1
      have := hget n j hj
      rw [getD_lt _ _ _ h1, getD_lt _ _ _ h2, if_pos hj] at this
      exact this
  have hstep : ∀ k, k < n →
      hyb (k + 1) = (hyb k).modify k (fun x => x + (q.getD k 0 - p.getD k 0)) := by
    intro k hk
    apply Array.ext
    · simp [hsz]
    · intro j h1 h2
      have hj : j < n := by rw [← hsz (k + 1)]; exact h1
      have a1 := hget (k + 1) j hj
      have a2 := modify_getD (hyb k) k j (fun x => x + (q.getD k 0 - p.getD k 0))
        (by rw [hsz]; exact hj)
      rw [getD_lt _ _ _ h1] at a1
      rw [getD_lt _ _ _ h2] at a2
      rw [a1, a2, hget k j hj]
      by_cases e : k = j
      · subst e
        have : ¬ k < k := lt_irrefl k
        simp [this]
      · by_cases l : j < k
        · have : j < k + 1 := by omega
          simp [e, l, this]
        · have : ¬ j < k + 1 := by omega
          simp [e, l, this]
  have main : ∀ k, k ≤ n → |(G (hyb k)).getD i 0 - (G p).getD i 0|
      ≤ L * ∑ j ∈ Finset.range k, |q.getD j 0 - p.getD j 0| := by
    intro k
    induction k with
    | zero => intro _; simp [h0]
    | succ k ih =>
      intro hk
      have hk' : k < n := by omega
      have ih' := ih (by omega)
      have hkk : (hyb k).getD k 0 = p.getD k 0 := by
        rw [hget k k hk', if_neg (lt_irrefl k)]
      have st := partial_lipschitz G i n lo hi L hD (hyb k) (hmem k) k hk'
        (q.getD k 0 - p.getD k 0)
        (by rw [hkk]; have := (hq.2 k hk').1; linarith)
        (by rw [hkk]; have := (hq.2 k hk').2; linarith)
      have e1 : partialFn G (hyb k) i k (q.getD k 0 - p.getD k 0) = (G (hyb (k + 1))).getD i 0 := by
        rw [hstep k hk']; rfl
      have e0 : partialFn G (hyb k) i k 0 = (G (hyb k)).getD i 0 := by
        simp only [partialFn, modify_add_zero]
      rw [e1, e0] at st
      rw [Finset.sum_range_succ, mul_add]
      have tri := abs_sub_le ((G (hyb (k + 1))).getD i 0) ((G (hyb k)).getD i 0) ((G p).getD i 0)
      linarith
  have := main n (le_refl n)
  rwa [hn] at this

/-! #### combining the error terms (real numbers only) -/

/-- the real-number core of the total error estimate: `q` the computed entry, `a`, `b` the returned
    values, `Ga`, `Gb`, `Gc` the exact values of the underlying real function at the model's perturbed
    point, at `x`, and at the ideal perturbed point `x + δ e_c`, `D` the partial derivative. -/
theorem fd_error_combine (q a b Ga Gb Gc D δ εf γ T Dr : ℝ) (hδ : δ ≠ 0) (hγ : 0 ≤ γ)
    (hq : |q - (a - b) / δ| ≤ γ * |a - b| / |δ|)
    (ha : |a - Ga| ≤ εf * |Ga|) (hb : |b - Gb| ≤ εf * |Gb|)
    (hdr : |Ga - Gc| ≤ Dr)
    (hT : |(Gc - Gb) / δ - D| ≤ T) :
    |q - D| ≤ T + (Dr + εf * (|Ga| + |Gb|) + γ * (|Ga - Gb| + εf * (|Ga| + |Gb|))) / |δ| := by
  have hP : 0 < |δ| := abs_pos.mpr hδ
  have hab : |a - b| ≤ |Ga - Gb| + εf * (|Ga| + |Gb|) := by
    have e : a - b = (a - Ga) + (Ga - Gb) + -(b - Gb) := by ring
    rw [e]
    refine (abs_add_le _ _).trans ?_
    have := abs_add_le (a - Ga) (Ga - Gb)
    rw [abs_neg]
    linarith
  have e : q - D = (q - (a - b) / δ) + ((a - Ga) + -(b - Gb)) / δ + (Ga - Gc) / δ
      + ((Gc - Gb) / δ - D) := by
    field_simp; ring
  have t2 : |((a - Ga) + -(b - Gb)) / δ| ≤ εf * (|Ga| + |Gb|) / |δ| := by
    rw [abs_div]
    apply div_le_div_of_nonneg_right _ hP.le
    have := abs_add_le (a - Ga) (-(b - Gb))
    rw [abs_neg] at this
    linarith
  have t3 : |(Ga - Gc) / δ| ≤ Dr / |δ| := by
    rw [abs_div]; exact div_le_div_of_nonneg_right hdr hP.le
  have t1 : γ * |a - b| / |δ| ≤ γ * (|Ga - Gb| + εf * (|Ga| + |Gb|)) / |δ| :=
    div_le_div_of_nonneg_right (mul_le_mul_of_nonneg_left hab hγ) hP.le
  rw [e]
  have A := abs_add_le ((q - (a - b) / δ) + ((a - Ga) + -(b - Gb)) / δ + (Ga - Gc) / δ)
    ((Gc - Gb) / δ - D)
  have B := abs_add_le ((q - (a - b) / δ) + ((a - Ga) + -(b - Gb)) / δ) ((Ga - Gc) / δ)
  have C := abs_add_le (q - (a - b) / δ) (((a - Ga) + -(b - Gb)) / δ)
  have S : (Dr + εf * (|Ga| + |Gb|) + γ * (|Ga - Gb| + εf * (|Ga| + |Gb|))) / |δ|
      = Dr / |δ| + εf * (|Ga| + |Gb|) / |δ| + γ * (|Ga - Gb| + εf * (|Ga| + |Gb|)) / |δ| := by
    rw [add_div, add_div]
  rw [S]
  linarith

/-- the same with a bound `Gm` on the size of the function values: the classical form
    `T + (Dr + 2 Gm ((1+εf)(1+γ) - 1)) / |δ|` -/
theorem fd_error_combine_max (q a b Ga Gb Gc D δ εf γ T Dr Gm : ℝ) (hδ : δ ≠ 0) (hγ : 0 ≤ γ)
    (hε : 0 ≤ εf)
    (hq : |q - (a - b) / δ| ≤ γ * |a - b| / |δ|)
    (ha : |a - Ga| ≤ εf * |Ga|) (hb : |b - Gb| ≤ εf * |Gb|)
    (hdr : |Ga - Gc| ≤ Dr)
    (hT : |(Gc - Gb) / δ - D| ≤ T) (hGa : |Ga| ≤ Gm) (hGb : |Gb| ≤ Gm) :
    |q - D| ≤ T + (Dr + 2 * Gm * ((1 + εf) * (1 + γ) - 1)) / |δ| := by
  have hP : 0 < |δ| := abs_pos.mpr hδ
  refine (fd_error_combine q a b Ga Gb Gc D δ εf γ T Dr hδ hγ hq ha hb hdr hT).trans ?_
  have hsub : |Ga - Gb| ≤ 2 * Gm := by
    have := abs_sub Ga Gb
    linarith
  have h1 : εf * (|Ga| + |Gb|) ≤ εf * (2 * Gm) := mul_le_mul_of_nonneg_left (by linarith) hε
  have h2 : γ * (|Ga - Gb| + εf * (|Ga| + |Gb|)) ≤ γ * (2 * Gm + εf * (2 * Gm)) :=
    mul_le_mul_of_nonneg_left (by linarith) hγ
  have : (Dr + εf * (|Ga| + |Gb|) + γ * (|Ga - Gb| + εf * (|Ga| + |Gb|))) / |δ|
      ≤ (Dr + 2 * Gm * ((1 + εf) * (1 + γ) - 1)) / |δ| := by
    apply div_le_div_of_nonneg_right _ hP.le
    nlinarith
  linarith

end Real

section Rounding
variable {M : FlModel}

/-! ### 1. the restore step `(x + d) - d`

  (how the loop USED to restore the perturbed coordinate; since repair D15 the saved coordinate is
  put back and the restored working copy is exactly the point — `C18.restore_exact`.  The three
  lemmas are kept as facts about the arithmetic: they quantify what the repair removed.) -/

/-- **restore, sharp form**: the restored coordinate `fl(fl(x + d) - d)` differs from `x` by at most
    `u |x| + u (1+u) |x + d|` (one rounding of the sum, one of the difference; the second acts on
    `fl(x+d) - d`, whose size is at most `|x| + u |x + d|`). -/
theorem restore_rounding_sharp (x d : Fl M) :
    |((x + d) - d).val - x.val| ≤ M.u * |x.val| + M.u * (1 + M.u) * |x.val + d.val| := by
  have hu := M.u_nonneg
  have h1 : |(x + d).val - (x.val + d.val)| ≤ M.u * |x.val + d.val| := Fl.add_err x d
  have h2 : |((x + d) - d).val - ((x + d).val - d.val)| ≤ M.u * |(x + d).val - d.val| :=
    Fl.sub_err (x + d) d
  set s := x.val + d.val
  set s1 := (x + d).val
  set r := ((x + d) - d).val
  have h3 : |s1 - d.val| ≤ M.u * |s| + |x.val| := by
    have e : s1 - d.val = (s1 - s) + x.val := by simp only [s]; ring
    rw [e]
    exact (abs_add_le _ _).trans (by linarith)
  have e : r - x.val = (r - (s1 - d.val)) + (s1 - s) := by simp only [s]; ring
  rw [e]
  refine (abs_add_le _ _).trans ?_
  have := mul_le_mul_of_nonneg_left h3 hu
  nlinarith [abs_nonneg s]

/-- **restore**: `|fl(fl(x + d) - d) - x| ≤ ((1+u)² - 1) (|x| + |d|)`. -/
theorem restore_rounding (x d : Fl M) :
    |((x + d) - d).val - x.val| ≤ M.gam 2 * (|x.val| + |d.val|) := by
  have hu := M.u_nonneg
  have h := restore_rounding_sharp x d
  have h1 : |x.val + d.val| ≤ |x.val| + |d.val| := abs_add_le _ _
  have hg : M.gam 2 = 2 * M.u + M.u ^ 2 := by simp only [FlModel.gam]; ring
  rw [hg]
  have h2 : M.u * (1 + M.u) * |x.val + d.val| ≤ M.u * (1 + M.u) * (|x.val| + |d.val|) :=
    mul_le_mul_of_nonneg_left h1 (by positivity)
  nlinarith [abs_nonneg x.val, abs_nonneg d.val]

/-- the restore is exact when both intermediate results are representable -/
theorem restore_exact_of_rep (x d : Fl M) (h1 : M.Rep (x.val + d.val)) (h2 : M.Rep x.val) :
    ((x + d) - d).val = x.val := by
  have e1 : (x + d).val = x.val + d.val := h1
  show M.fl ((x + d).val - d.val) = x.val
  rw [e1]
  have : x.val + d.val - d.val = x.val := by ring
  rw [this]
  exact h2

/-! ### 2. the evaluation points of the model over `Fl M` -/

/-- the real values of a point whose coordinates are rounded reals -/
def vals (p : Array (Fl M)) : Array ℝ := p.map Fl.val

@[simp] theorem vals_size (p : Array (Fl M)) : (vals p).size = p.size := by simp [vals]

theorem vals_getD (p : Array (Fl M)) (k : ℕ) : (vals p).getD k 0 = (p.getD k 0).val := by
  simp only [vals, Array.getD_eq_getD_getElem?, Array.getElem?_map]
  cases p[k]? <;> simp

/-- the IDEAL evaluation point for column `c`: `x + δ e_c` in exact arithmetic -/
def idealPt (point : Array (Fl M)) (δ : Fl M) (c : ℕ) : Array ℝ :=
  (vals point).modify c (fun p => p + δ.val)

theorem idealPt_getD (point : Array (Fl M)) (δ : Fl M) (c k : ℕ) (hk : k < point.size) :
    (idealPt point δ c).getD k 0 = if k = c then point[k].val + δ.val else point[k].val := by
  have hs : k < (idealPt point δ c).size := by simpa [idealPt] using hk
  rw [getD_lt _ _ _ hs]
  simp only [idealPt, Array.getElem_modify, vals, Array.getElem_map]
  by_cases e : c = k
  · subst e; simp
  · have e' : ¬ k = c := fun h => e h.symm
    simp [e, e']

/-- **the model's evaluation point for column `c`** (`evalPt`, the `(c+1)`-st entry of the call trace
    of `jacobian`, see `jacobian_entries`), coordinate by coordinate, and its distance from the ideal
    point `x + δ e_c`: coordinates `k < c` have been perturbed and then RESTORED FROM THE SAVED VALUE
    (repair D15) — they hold `x_k` exactly (they used to hold `fl(fl(x_k + δ) - δ)`, off by up to
    `((1+u)² - 1)(|x_k| + |δ|)`); coordinate `c` holds `fl(x_c + δ)`, off by at most `u |x_c + δ|`;
    coordinates `k > c` are untouched. -/
theorem evalPoint_drift (point : Array (Fl M)) (δ : Fl M) (c k : ℕ) (hk : k < point.size) :
    (evalPt point δ c).getD k 0
        = (if k = c then point[k] + δ else point[k]) ∧
    (k < c → (evalPt point δ c).getD k 0 = point[k]) ∧
    (k = c → |((evalPt point δ c).getD k 0).val - (point[k].val + δ.val)|
        ≤ M.u * |point[k].val + δ.val|) ∧
    (c < k → (evalPt point δ c).getD k 0 = point[k]) := by
  have hs : k < (evalPt point δ c).size := by simpa using hk
  have h := evalPt_get point δ c k hs hk
  rw [getD_lt _ _ _ hs, h]
  refine ⟨rfl, fun h1 => ?_, fun h1 => ?_, fun h1 => ?_⟩
  · have h3 : ¬ k = c := by omega
    rw [if_neg h3]
  · rw [if_pos h1]; exact Fl.add_err _ _
  · have h3 : ¬ k = c := by omega
    rw [if_neg h3]

/-- coordinatewise distance between the model's and the ideal evaluation point -/
theorem evalPoint_drift_coord (point : Array (Fl M)) (δ : Fl M) (c k : ℕ) (hk : k < point.size) :
    |(vals (evalPt point δ c)).getD k 0 - (idealPt point δ c).getD k 0|
      ≤ if k = c then M.u * |point[k].val + δ.val| else 0 := by
  obtain ⟨_, h1, h2, h3⟩ := evalPoint_drift point δ c k hk
  rw [vals_getD, idealPt_getD point δ c k hk]
  by_cases b : k = c
  · rw [if_pos b, if_pos b]; exact h2 b
  · by_cases a : k < c
    · rw [if_neg b, if_neg b, h1 a]; simp
    · rw [if_neg b, if_neg b, h3 (by omega)]; simp

/-- the bound on the `ℓ¹` distance between the model's and the ideal evaluation point of column `c`:
    `u |x_c + δ|` — only the rounding of the perturbed coordinate; the earlier coordinates are
    restored exactly (repair D15; the bound used to carry the extra term
    `((1+u)² - 1) Σ_{k<c} (|x_k| + |δ|)` for the restore-by-subtraction) -/
noncomputable def drift (point : Array (Fl M)) (δ : Fl M) (c : ℕ) : ℝ :=
  M.u * |(point.getD c 0).val + δ.val|

theorem drift_nonneg (point : Array (Fl M)) (δ : Fl M) (c : ℕ) : 0 ≤ drift point δ c := by
  have := M.u_nonneg
  unfold drift
  positivity

/-- **`ℓ¹` drift of the evaluation point** -/
theorem evalPoint_drift_l1 (point : Array (Fl M)) (δ : Fl M) (c : ℕ) (hc : c < point.size) :
    ∑ k ∈ Finset.range point.size,
        |(vals (evalPt point δ c)).getD k 0 - (idealPt point δ c).getD k 0|
      ≤ drift point δ c := by
  set b : ℕ → ℝ := fun k => if k = c then M.u * |(point.getD k 0).val + δ.val| else 0 with hb
  have h1 : ∑ k ∈ Finset.range point.size,
        |(vals (evalPt point δ c)).getD k 0 - (idealPt point δ c).getD k 0|
      ≤ ∑ k ∈ Finset.range point.size, b k := by
    apply Finset.sum_le_sum
    intro k hk
    have hk' : k < point.size := Finset.mem_range.mp hk
    have := evalPoint_drift_coord point δ c k hk'
    simpa only [hb, getD_lt _ _ _ hk'] using this
  refine h1.trans (le_of_eq ?_)
  obtain ⟨r, hr⟩ : ∃ r, point.size = (c + 1) + r := ⟨point.size - (c + 1), by omega⟩
  rw [hr, Finset.sum_range_add, Finset.sum_range_succ]
  have z : ∑ j ∈ Finset.range r, b (c + 1 + j) = 0 := by
    apply Finset.sum_eq_zero
    intro j _
    have a2 : ¬ c + 1 + j = c := by omega
    simp only [hb, if_neg a2]
  have s : ∑ k ∈ Finset.range c, b k = 0 := by
    apply Finset.sum_eq_zero
    intro k hk
    have : k < c := Finset.mem_range.mp hk
    have a2 : ¬ k = c := by omega
    simp only [hb, if_neg a2]
  have bc : b c = M.u * |(point.getD c 0).val + δ.val| := by
    simp only [hb, if_true]
  rw [z, s, bc, drift]
  ring

/-! ### 3. rounding in the difference quotient -/

/-- **one entry**: the computed quotient `fl(fl(a - b) / δ)` of two returned values `a`, `b` (whatever
    the user function returned — no assumption on their accuracy) is within
    `((1+u)² - 1) |a - b| / |δ|` of the exact quotient `(a - b) / δ`. -/
theorem quotient_rounding (a b δ : Fl M) :
    |((a - b) / δ).val - (a.val - b.val) / δ.val| ≤ M.gam 2 * |a.val - b.val| / |δ.val| := by
  have hu := M.u_nonneg
  have h1 : |(a - b).val - (a.val - b.val)| ≤ M.u * |a.val - b.val| := Fl.sub_err a b
  have h2 : |((a - b) / δ).val - (a - b).val / δ.val| ≤ M.u * |(a - b).val / δ.val| :=
    Fl.div_err (a - b) δ
  have h3 : |(a - b).val| ≤ (1 + M.u) * |a.val - b.val| := M.abs_fl_le _
  set d := a.val - b.val
  set d1 := (a - b).val
  set q := ((a - b) / δ).val
  have hP : 0 ≤ |δ.val| := abs_nonneg _
  have hg : M.gam 2 = 2 * M.u + M.u ^ 2 := by simp only [FlModel.gam]; ring
  have e : q - d / δ.val = (q - d1 / δ.val) + (d1 - d) / δ.val := by ring
  rw [e]
  refine (abs_add_le _ _).trans ?_
  rw [abs_div] at h2 ⊢
  have k1 : M.u * (|d1| / |δ.val|) ≤ M.u * ((1 + M.u) * |d|) / |δ.val| := by
    rw [mul_div_assoc]
    exact mul_le_mul_of_nonneg_left (div_le_div_of_nonneg_right h3 hP) hu
  have k2 : |d1 - d| / |δ.val| ≤ M.u * |d| / |δ.val| := div_le_div_of_nonneg_right h1 hP
  have k3 : M.u * ((1 + M.u) * |d|) / |δ.val| + M.u * |d| / |δ.val| = M.gam 2 * |d| / |δ.val| := by
    rw [hg, ← add_div]; ring
  linarith

/-- division by a non-zero `δ` never fails in `Fl M` -/
theorem fl_divM_ok (δ : Fl M) (hδ : δ.val ≠ 0) (a : Fl M) : divM a δ = .ok (a / δ) := by
  simp [ScalarExt.divM, hδ]

/-- **the model over `Fl M`**: for `δ ≠ 0` and a user function of constant output size `m` the call
    succeeds, `f` is evaluated at `point` and then at the points `evalPt point δ c` (`c = 0,…,n-1`, see
    `evalPoint_drift`), and entry `(i, c)` of the `m × n` result is `fl(fl(a - b) / δ)` with
    `a = f(x̃_c)_i`, `b = f(x)_i` the returned values, hence within `((1+u)² - 1)|a - b|/|δ|` of
    `(a - b)/δ`. -/
theorem jacobian_entry_rounding (f : Array (Fl M) → Array (Fl M)) (point : Array (Fl M)) (δ : Fl M)
    (m : ℕ) (hf : ∀ y : Array (Fl M), y.size = point.size → (f y).size = m) (hδ : δ.val ≠ 0) :
    ∃ J e, jacobian f point δ
        = .ok (J, point :: (List.range point.size).map (evalPt point δ)) ∧
      Mat.Is J m point.size e ∧
      ∀ i c, i < m → c < point.size →
        e i c = ((f (evalPt point δ c)).getD i 0 - (f point).getD i 0) / δ ∧
        |(e i c).val - (((f (evalPt point δ c)).getD i 0).val - ((f point).getD i 0).val) / δ.val|
          ≤ M.gam 2 * |((f (evalPt point δ c)).getD i 0).val - ((f point).getD i 0).val| / |δ.val| := by
  have hdiv : ∀ a : Fl M, ∃ q, divM a δ = .ok q := fun a => ⟨a / δ, fl_divM_ok δ hδ a⟩
  obtain ⟨J, h1, h2, h3, h4, h5⟩ := jacobian_entries f point δ m hf hdiv
  refine ⟨J, fun i c => ((f (evalPt point δ c)).getD i 0 - (f point).getD i 0) / δ, h1,
    ⟨h4, h2, h3, ?_⟩, fun i c hi hc => ⟨rfl, quotient_rounding _ _ _⟩⟩
  intro i c hi hc
  have s1 : i < (f (evalPt point δ c)).size := by rw [hf _ (by simp)]; exact hi
  have s0 : i < (f point).size := by rw [hf point rfl]; exact hi
  obtain ⟨q, hq1, hq2⟩ := h5 i c hi hc s1 s0
  rw [hq2, ← hq1, fl_divM_ok δ hδ, getD_lt _ _ _ s1, getD_lt _ _ _ s0]

/-! ### 4. truncation + rounding -/

/-- **the five error terms of every entry**, every shape `m × n`.  The user function `f` (a black box
    on rounded reals) is assumed to return, at each of the `n + 1` points at which the model calls it,
    values with relative error at most `εf` w.r.t. a real map `G` (`hret`).  `G` has, for every
    `i < m`, `c < n`, a twice differentiable partial function `t ↦ G_i(x + t e_c)` on the segment
    `[[0, δ]]` with second derivative bounded by `M₂` (`hsm`, as in `jacobian_accuracy`) and is
    `ℓ¹`-Lipschitz with constant `L` between the model's evaluation point `x̃_c` and the ideal point
    `x + δ e_c` (`hLip`; see `lipschitz_l1_of_partial_bounds` for `|∂G_i/∂x_k| ≤ L` on a box).  With
    `q = Ĵ_ic`, `a = f(x̃_c)_i`, `b = f(x)_i`, `Ga = G_i(x̃_c)`, `Gb = G_i(x)`, `Gc = G_i(x + δ e_c)`:
    rounding of the quotient, the two evaluation errors, the drift of the evaluation point, and the
    truncation error (C18R `diffquot_error`). -/
theorem jacobian_error_terms (f : Array (Fl M) → Array (Fl M)) (G : Array ℝ → Array ℝ)
    (point : Array (Fl M)) (δ : Fl M) (m : ℕ) (M₂ L εf : ℝ)
    (hf : ∀ y : Array (Fl M), y.size = point.size → (f y).size = m) (hδ : δ.val ≠ 0)
    (hL : 0 ≤ L)
    (hsm : ∀ i c, i < m → c < point.size → ∃ g' g'' : ℝ → ℝ,
      (∀ t ∈ uIcc 0 δ.val, HasDerivAt (partialFn G (vals point) i c) (g' t) t) ∧
      (∀ t ∈ uIcc 0 δ.val, HasDerivAt g' (g'' t) t) ∧ ∀ t ∈ uIcc 0 δ.val, |g'' t| ≤ M₂)
    (hret : ∀ p ∈ point :: (List.range point.size).map (evalPt point δ), ∀ i, i < m →
      |((f p).getD i 0).val - (G (vals p)).getD i 0| ≤ εf * |(G (vals p)).getD i 0|)
    (hLip : ∀ i c, i < m → c < point.size →
      |(G (vals (evalPt point δ c))).getD i 0 - (G (idealPt point δ c)).getD i 0|
        ≤ L * ∑ k ∈ Finset.range point.size,
            |(vals (evalPt point δ c)).getD k 0 - (idealPt point δ c).getD k 0|) :
    ∃ J e, jacobian f point δ
        = .ok (J, point :: (List.range point.size).map (evalPt point δ)) ∧
      Mat.Is J m point.size e ∧
      ∀ i c, i < m → c < point.size →
        |(e i c).val - (((f (evalPt point δ c)).getD i 0).val - ((f point).getD i 0).val) / δ.val|
          ≤ M.gam 2 * |((f (evalPt point δ c)).getD i 0).val - ((f point).getD i 0).val| / |δ.val| ∧
        |((f (evalPt point δ c)).getD i 0).val - (G (vals (evalPt point δ c))).getD i 0|
          ≤ εf * |(G (vals (evalPt point δ c))).getD i 0| ∧
        |((f point).getD i 0).val - (G (vals point)).getD i 0| ≤ εf * |(G (vals point)).getD i 0| ∧
        |(G (vals (evalPt point δ c))).getD i 0 - (G (idealPt point δ c)).getD i 0|
          ≤ L * drift point δ c ∧
        |((G (idealPt point δ c)).getD i 0 - (G (vals point)).getD i 0) / δ.val
            - deriv (partialFn G (vals point) i c) 0| ≤ M₂ * |δ.val| / 2 := by
  obtain ⟨J, e, h1, h2, h3⟩ := jacobian_entry_rounding f point δ m hf hδ
  refine ⟨J, e, h1, h2, ?_⟩
  intro i c hi hc
  obtain ⟨_, hq⟩ := h3 i c hi hc
  have mem0 : point ∈ point :: (List.range point.size).map (evalPt point δ) :=
    List.mem_cons_self ..
  have memc : evalPt point δ c ∈ point :: (List.range point.size).map (evalPt point δ) :=
    List.mem_cons_of_mem _ (List.mem_map.mpr ⟨c, List.mem_range.mpr hc, rfl⟩)
  -- truncation (C18R)
  obtain ⟨g', g'', d1, d2, d3⟩ := hsm i c hi hc
  have z : (0 : ℝ) + δ.val = δ.val := zero_add _
  have hT := diffquot_error (partialFn G (vals point) i c) g' g'' 0 δ.val M₂ hδ
    (by rwa [z]) (by rwa [z]) (by rwa [z])
  rw [z, ← (d1 0 left_mem_uIcc).deriv] at hT
  have e0 : partialFn G (vals point) i c 0 = (G (vals point)).getD i 0 := by
    simp only [partialFn, modify_add_zero]
  have eδ : partialFn G (vals point) i c δ.val = (G (idealPt point δ c)).getD i 0 := rfl
  rw [e0, eδ] at hT
  -- drift
  have hdr : |(G (vals (evalPt point δ c))).getD i 0 - (G (idealPt point δ c)).getD i 0|
      ≤ L * drift point δ c :=
    (hLip i c hi hc).trans (mul_le_mul_of_nonneg_left (evalPoint_drift_l1 point δ c hc) hL)
  exact ⟨hq, hret _ memc i hi, hret _ mem0 i hi, hdr, hT⟩

/-- **truncation + rounding, fine form** (hypotheses of `jacobian_error_terms`): with
    `Ga = G_i(x̃_c)`, `Gb = G_i(x)`,
    `|Ĵ_ic - ∂G_i/∂x_c(x)| ≤ M₂|δ|/2
        + (L·drift_c + εf(|Ga| + |Gb|) + ((1+u)² - 1)(|Ga - Gb| + εf(|Ga| + |Gb|))) / |δ|`.
    Note that the rounding of the quotient is relative to the DIFFERENCE `|Ga - Gb| = O(δ)`, it is
    the evaluation error `εf(|Ga| + |Gb|)/|δ|` that produces the classical `ε|G|/δ` term. -/
theorem jacobian_total_error_fine (f : Array (Fl M) → Array (Fl M)) (G : Array ℝ → Array ℝ)
    (point : Array (Fl M)) (δ : Fl M) (m : ℕ) (M₂ L εf : ℝ)
    (hf : ∀ y : Array (Fl M), y.size = point.size → (f y).size = m) (hδ : δ.val ≠ 0)
    (hL : 0 ≤ L)
    (hsm : ∀ i c, i < m → c < point.size → ∃ g' g'' : ℝ → ℝ,
      (∀ t ∈ uIcc 0 δ.val, HasDerivAt (partialFn G (vals point) i c) (g' t) t) ∧
      (∀ t ∈ uIcc 0 δ.val, HasDerivAt g' (g'' t) t) ∧ ∀ t ∈ uIcc 0 δ.val, |g'' t| ≤ M₂)
    (hret : ∀ p ∈ point :: (List.range point.size).map (evalPt point δ), ∀ i, i < m →
      |((f p).getD i 0).val - (G (vals p)).getD i 0| ≤ εf * |(G (vals p)).getD i 0|)
    (hLip : ∀ i c, i < m → c < point.size →
      |(G (vals (evalPt point δ c))).getD i 0 - (G (idealPt point δ c)).getD i 0|
        ≤ L * ∑ k ∈ Finset.range point.size,
            |(vals (evalPt point δ c)).getD k 0 - (idealPt point δ c).getD k 0|) :
    ∃ J e, jacobian f point δ
        = .ok (J, point :: (List.range point.size).map (evalPt point δ)) ∧
      Mat.Is J m point.size e ∧
      ∀ i c, i < m → c < point.size →
        |(e i c).val - deriv (partialFn G (vals point) i c) 0|
          ≤ M₂ * |δ.val| / 2
            + (L * drift point δ c
                + εf * (|(G (vals (evalPt point δ c))).getD i 0| + |(G (vals point)).getD i 0|)
                + M.gam 2 * (|(G (vals (evalPt point δ c))).getD i 0 - (G (vals point)).getD i 0|
                  + εf * (|(G (vals (evalPt point δ c))).getD i 0| + |(G (vals point)).getD i 0|)))
              / |δ.val| := by
  obtain ⟨J, e, h1, h2, h3⟩ := jacobian_error_terms f G point δ m M₂ L εf hf hδ hL hsm hret hLip
  refine ⟨J, e, h1, h2, fun i c hi hc => ?_⟩
  obtain ⟨hq, ha, hb, hdr, hT⟩ := h3 i c hi hc
  exact fd_error_combine _ _ _ _ _ _ _ δ.val εf (M.gam 2) _ _ hδ (M.gam_nonneg 2) hq ha hb hdr hT

/-- **truncation + rounding, classical form**: if moreover `|G_i| ≤ Gm` at the evaluation points,
    `|Ĵ_ic - ∂G_i/∂x_c(x)| ≤ M₂|δ|/2 + (L · drift_c + 2 Gm ((1+εf)(1+u)² - 1)) / |δ|`,
    `drift_c = u|x_c + δ|`:
    truncation `O(δ)` plus rounding `≈ 2(εf + 2u) max|G| / |δ|` plus the effect of evaluating at a
    point that is not exactly `x + δ e_c`. -/
theorem jacobian_total_error (f : Array (Fl M) → Array (Fl M)) (G : Array ℝ → Array ℝ)
    (point : Array (Fl M)) (δ : Fl M) (m : ℕ) (M₂ L εf Gm : ℝ)
    (hf : ∀ y : Array (Fl M), y.size = point.size → (f y).size = m) (hδ : δ.val ≠ 0)
    (hε : 0 ≤ εf) (hL : 0 ≤ L)
    (hsm : ∀ i c, i < m → c < point.size → ∃ g' g'' : ℝ → ℝ,
      (∀ t ∈ uIcc 0 δ.val, HasDerivAt (partialFn G (vals point) i c) (g' t) t) ∧
      (∀ t ∈ uIcc 0 δ.val, HasDerivAt g' (g'' t) t) ∧ ∀ t ∈ uIcc 0 δ.val, |g'' t| ≤ M₂)
    (hret : ∀ p ∈ point :: (List.range point.size).map (evalPt point δ), ∀ i, i < m →
      |((f p).getD i 0).val - (G (vals p)).getD i 0| ≤ εf * |(G (vals p)).getD i 0|)
    (hGm : ∀ p ∈ point :: (List.range point.size).map (evalPt point δ), ∀ i, i < m →
      |(G (vals p)).getD i 0| ≤ Gm)
    (hLip : ∀ i c, i < m → c < point.size →
      |(G (vals (evalPt point δ c))).getD i 0 - (G (idealPt point δ c)).getD i 0|
        ≤ L * ∑ k ∈ Finset.range point.size,
            |(vals (evalPt point δ c)).getD k 0 - (idealPt point δ c).getD k 0|) :
    ∃ J e, jacobian f point δ
        = .ok (J, point :: (List.range point.size).map (evalPt point δ)) ∧
      Mat.Is J m point.size e ∧
      ∀ i c, i < m → c < point.size →
        |(e i c).val - deriv (partialFn G (vals point) i c) 0|
          ≤ M₂ * |δ.val| / 2
            + (L * drift point δ c + 2 * Gm * ((1 + εf) * (1 + M.u) ^ 2 - 1)) / |δ.val| := by
  obtain ⟨J, e, h1, h2, h3⟩ := jacobian_error_terms f G point δ m M₂ L εf hf hδ hL hsm hret hLip
  refine ⟨J, e, h1, h2, fun i c hi hc => ?_⟩
  obtain ⟨hq, ha, hb, hdr, hT⟩ := h3 i c hi hc
  have mem0 : point ∈ point :: (List.range point.size).map (evalPt point δ) :=
    List.mem_cons_self ..
  have memc : evalPt point δ c ∈ point :: (List.range point.size).map (evalPt point δ) :=
    List.mem_cons_of_mem _ (List.mem_map.mpr ⟨c, List.mem_range.mpr hc, rfl⟩)
  have hg : (1 : ℝ) + M.gam 2 = (1 + M.u) ^ 2 := M.one_add_gam 2
  have := fd_error_combine_max _ _ _ _ _ _ _ δ.val εf (M.gam 2) _ _ Gm hδ (M.gam_nonneg 2) hε
    hq ha hb hdr hT (hGm _ memc i hi) (hGm _ mem0 i hi)
  rwa [hg] at this

/-! #### scalar functions (`m = n = 1`) with the classical hypotheses -/

/-- **scalar function, classical hypotheses**: `g` twice differentiable on an interval `I` containing
    `x`, `x + δ` and the rounded perturbed point `fl(x + δ)`, with `|g| ≤ Gm`, `|g'| ≤ L`, `|g''| ≤ M₂`
    on `I`; the user function returns `g` with relative error `≤ εf` at the two points at which it is
    called.  Then the `1 × 1` Jacobian computed by the model satisfies
    `|Ĵ - g'(x)| ≤ M₂|δ|/2 + (L u |x + δ| + 2 Gm ((1+εf)(1+u)² - 1)) / |δ|`. -/
theorem jacobian_total_error_scalar (fs : Fl M → Fl M) (g g' g'' : ℝ → ℝ) (I : Set ℝ)
    (hI : I.OrdConnected) (x δ : Fl M) (M₂ L εf Gm : ℝ) (hδ : δ.val ≠ 0) (hε : 0 ≤ εf)
    (h1 : ∀ s ∈ I, HasDerivAt g (g' s) s) (h2 : ∀ s ∈ I, HasDerivAt g' (g'' s) s)
    (hM : ∀ s ∈ I, |g'' s| ≤ M₂) (hL : ∀ s ∈ I, |g' s| ≤ L) (hG : ∀ s ∈ I, |g s| ≤ Gm)
    (hx : x.val ∈ I) (hxδ : x.val + δ.val ∈ I) (hxδ' : (x + δ).val ∈ I)
    (hret : ∀ p : Fl M, p = x ∨ p = x + δ → |(fs p).val - g p.val| ≤ εf * |g p.val|) :
    ∃ J e, jacobian (fun p => #[fs (p.getD 0 0)]) #[x] δ = .ok (J, [#[x], #[x + δ]]) ∧
      Mat.Is J 1 1 e ∧
      |(e 0 0).val - g' x.val|
        ≤ M₂ * |δ.val| / 2
          + (L * (M.u * |x.val + δ.val|) + 2 * Gm * ((1 + εf) * (1 + M.u) ^ 2 - 1)) / |δ.val| := by
  have hL0 : 0 ≤ L := le_trans (abs_nonneg _) (hL _ hx)
  have hev : evalPt #[x] δ 0 = #[x + δ] := by simp [evalPt, stateAt]
  have hpf : partialFn (fun y : Array ℝ => #[g (y.getD 0 0)]) (vals #[x]) 0 0
      = fun t => g (x.val + t) := by
    funext t
    simp [partialFn, vals]
  have hseg : ∀ t ∈ uIcc 0 δ.val, x.val + t ∈ I := by
    intro t ht
    have : uIcc x.val (x.val + δ.val) ⊆ I := hI.uIcc_subset hx hxδ
    apply this
    rw [mem_uIcc] at ht ⊢
    rcases ht with ⟨a, b⟩ | ⟨a, b⟩
    · left; constructor <;> linarith
    · right; constructor <;> linarith
  have hsh : ∀ t : ℝ, HasDerivAt (fun t => x.val + t) 1 t := fun t =>
    (hasDerivAt_id t).const_add x.val
  obtain ⟨J, e, j1, j2, j3⟩ := jacobian_total_error (fun p => #[fs (p.getD 0 0)])
    (fun y : Array ℝ => #[g (y.getD 0 0)]) #[x] δ 1 M₂ L εf Gm (fun y _ => by simp) hδ hε hL0
    (by
      intro i c hi hc
      have hi0 : i = 0 := by omega
      have hc0 : c = 0 := by simpa using hc
      subst hi0 hc0
      rw [hpf]
      refine ⟨fun t => g' (x.val + t), fun t => g'' (x.val + t), fun t ht => ?_, fun t ht => ?_,
        fun t ht => hM _ (hseg t ht)⟩
      · exact ((h1 _ (hseg t ht)).comp t (hsh t)).congr_deriv (mul_one _)
      · exact ((h2 _ (hseg t ht)).comp t (hsh t)).congr_deriv (mul_one _))
    (by
      intro p hp i hi
      have hi0 : i = 0 := by omega
      subst hi0
      have hp' : p = #[x] ∨ p = #[x + δ] := by simpa [hev] using hp
      rcases hp' with rfl | rfl
      · simpa [vals] using hret x (Or.inl rfl)
      · simpa [vals] using hret (x + δ) (Or.inr rfl))
    (by
      intro p hp i hi
      have hi0 : i = 0 := by omega
      subst hi0
      have hp' : p = #[x] ∨ p = #[x + δ] := by simpa [hev] using hp
      rcases hp' with rfl | rfl
      · simpa [vals] using hG _ hx
      · simpa [vals] using hG _ hxδ')
    (by
      intro i c hi hc
      have hi0 : i = 0 := by omega
      have hc0 : c = 0 := by simpa using hc
      subst hi0 hc0
      have := lipschitz_of_deriv_bound g g' I hI L h1 hL _ _ hxδ' hxδ
      simpa [hev, vals, idealPt] using this)
  refine ⟨J, e, ?_, by simpa using j2, ?_⟩
  · simpa [hev] using j1
  · have := j3 0 0 (by omega) (by simp)
    rw [hpf] at this
    have hd : deriv (fun t => g (x.val + t)) 0 = g' x.val := by
      have h0 : HasDerivAt (fun t => g (x.val + t)) (g' (x.val + 0)) 0 :=
        ((h1 _ (hseg 0 left_mem_uIcc)).comp 0 (hsh 0)).congr_deriv (mul_one _)
      rw [h0.deriv, add_zero]
    have hdr : drift #[x] δ 0 = M.u * |x.val + δ.val| := by simp [drift]
    rwa [hd, hdr] at this

/-! #### `C²` on a box: the classical statement -/

/-- **truncation + rounding for a map that is `C²` on a box**: `D1 i k`, `D2 i k` are the first and
    second partial derivatives `∂G_i/∂x_k`, `∂²G_i/∂x_k²` on the box `∏ₖ [lo k, hi k]`, which contains
    `x`, the model's evaluation points `x̃_c` and the ideal points `x + δ e_c`; `|G_i| ≤ Gm`,
    `|∂G_i/∂x_k| ≤ L`, `|∂²G_i/∂x_k²| ≤ M₂` on the box; the user function returns `G` with relative
    error `≤ εf` at the `n + 1` points at which it is called.  Then, for every shape `m × n`,
    `|Ĵ_ic - ∂G_i/∂x_c(x)| ≤ M₂|δ|/2 + (L·drift_c + 2 Gm ((1+εf)(1+u)² - 1)) / |δ|`. -/
theorem jacobian_total_error_box (f : Array (Fl M) → Array (Fl M)) (G : Array ℝ → Array ℝ)
    (D1 D2 : ℕ → ℕ → Array ℝ → ℝ) (point : Array (Fl M)) (δ : Fl M) (m : ℕ) (lo hi : ℕ → ℝ)
    (M₂ L εf Gm : ℝ)
    (hf : ∀ y : Array (Fl M), y.size = point.size → (f y).size = m) (hδ : δ.val ≠ 0)
    (hε : 0 ≤ εf)
    (hB0 : vals point ∈ box point.size lo hi)
    (hBc : ∀ c, c < point.size → vals (evalPt point δ c) ∈ box point.size lo hi)
    (hBi : ∀ c, c < point.size → idealPt point δ c ∈ box point.size lo hi)
    (hD1 : ∀ i k, i < m → k < point.size → ∀ y ∈ box point.size lo hi,
      HasDerivAt (partialFn G y i k) (D1 i k y) 0 ∧ |D1 i k y| ≤ L)
    (hD2 : ∀ i k, i < m → k < point.size → ∀ y ∈ box point.size lo hi,
      HasDerivAt (fun t => D1 i k (y.modify k (fun p => p + t))) (D2 i k y) 0 ∧ |D2 i k y| ≤ M₂)
    (hG : ∀ i, i < m → ∀ y ∈ box point.size lo hi, |(G y).getD i 0| ≤ Gm)
    (hret : ∀ p ∈ point :: (List.range point.size).map (evalPt point δ), ∀ i, i < m →
      |((f p).getD i 0).val - (G (vals p)).getD i 0| ≤ εf * |(G (vals p)).getD i 0|) :
    ∃ J e, jacobian f point δ
        = .ok (J, point :: (List.range point.size).map (evalPt point δ)) ∧
      Mat.Is J m point.size e ∧
      ∀ i c, i < m → c < point.size →
        |(e i c).val - D1 i c (vals point)|
          ≤ M₂ * |δ.val| / 2
            + (L * drift point δ c + 2 * Gm * ((1 + εf) * (1 + M.u) ^ 2 - 1)) / |δ.val| := by
  have hmemB : ∀ p ∈ point :: (List.range point.size).map (evalPt point δ),
      vals p ∈ box point.size lo hi := by
    intro p hp
    rcases List.mem_cons.mp hp with rfl | hp
    · exact hB0
    · obtain ⟨c, hc, rfl⟩ := List.mem_map.mp hp
      exact hBc c (List.mem_range.mp hc)
  obtain ⟨J, e, j1, j2, j3⟩ := jacobian_total_error f G point δ m M₂ (max L 0) εf Gm hf hδ hε
    (le_max_right _ _)
    (by
      intro i c him hc
      refine ⟨fun t => D1 i c ((vals point).modify c (fun p => p + t)),
        fun t => D2 i c ((vals point).modify c (fun p => p + t)), ?_⟩
      have hyt : ∀ t ∈ uIcc 0 δ.val, (vals point).modify c (fun p => p + t) ∈ box point.size lo hi := by
        intro t ht
        obtain ⟨b1, b2⟩ := hB0.2 c hc
        obtain ⟨c1, c2⟩ := (hBi c hc).2 c hc
        have hcs : c < (vals point).size := by simpa using hc
        rw [idealPt, modify_getD _ _ _ _ hcs, if_pos rfl] at c1 c2
        apply box_modify_mem _ hB0
        · rw [mem_uIcc] at ht
          rcases ht with ⟨a, b⟩ | ⟨a, b⟩ <;> linarith
        · rw [mem_uIcc] at ht
          rcases ht with ⟨a, b⟩ | ⟨a, b⟩ <;> linarith
      refine ⟨fun t ht => ?_, fun t ht => ?_, fun t ht => (hD2 i c him hc _ (hyt t ht)).2⟩
      · exact partial_shift (fun a => (G a).getD i 0) (vals point) c t _
          (hD1 i c him hc _ (hyt t ht)).1
      · exact partial_shift (D1 i c) (vals point) c t _ (hD2 i c him hc _ (hyt t ht)).1)
    hret
    (fun p hp i him => hG i him _ (hmemB p hp))
    (by
      intro i c him hc
      have h := lipschitz_l1_of_partial_bounds G i point.size lo hi L
        (fun y hy k hk => ⟨D1 i k y, hD1 i k him hk y hy⟩) _ _ (hBi c hc) (hBc c hc)
      refine h.trans (mul_le_mul_of_nonneg_right (le_max_left _ _)
        (Finset.sum_nonneg (fun k _ => abs_nonneg _))))
  refine ⟨J, e, j1, j2, fun i c him hc => ?_⟩
  have h := j3 i c him hc
  obtain ⟨d1, d2⟩ := hD1 i c him hc _ hB0
  have hL0 : 0 ≤ L := le_trans (abs_nonneg _) d2
  rwa [d1.deriv, max_eq_left hL0] at h

/-! #### exact arithmetic: everything collapses to the C18R statement -/

/-- in the model `fl = id` the evaluation points are the ideal ones -/
theorem evalPt_vals_exact (point : Array (Fl FlModel.exact)) (δ : Fl FlModel.exact) (c : ℕ) :
    vals (evalPt point δ c) = idealPt point δ c := by
  apply Array.ext
  · simp [idealPt]
  · intro k h1 h2
    have hk : k < point.size := by simpa using h1
    have h := evalPoint_drift_coord point δ c k hk
    rw [getD_lt _ _ _ h1, getD_lt _ _ _ h2] at h
    have hz : (if k = c then FlModel.exact.u * |point[k].val + δ.val| else 0) = 0 := by
      have u0 : FlModel.exact.u = 0 := rfl
      rw [u0]
      split <;> simp
    rw [hz] at h
    exact sub_eq_zero.mp (abs_nonpos_iff.mp h)

/-- **`Fl exact` = exact real arithmetic**: with `u = 0` and a user function that returns `G` exactly,
    the conclusion of `jacobian_total_error` is the conclusion of C18R `jacobian_accuracy`
    (no Lipschitz hypothesis and no bound on `|G|` is needed, all rounding terms vanish). -/
theorem jacobian_total_error_exact (f : Array (Fl FlModel.exact) → Array (Fl FlModel.exact))
    (G : Array ℝ → Array ℝ) (point : Array (Fl FlModel.exact)) (δ : Fl FlModel.exact) (m : ℕ)
    (M₂ : ℝ)
    (hf : ∀ y : Array (Fl FlModel.exact), y.size = point.size → (f y).size = m) (hδ : δ.val ≠ 0)
    (hsm : ∀ i c, i < m → c < point.size → ∃ g' g'' : ℝ → ℝ,
      (∀ t ∈ uIcc 0 δ.val, HasDerivAt (partialFn G (vals point) i c) (g' t) t) ∧
      (∀ t ∈ uIcc 0 δ.val, HasDerivAt g' (g'' t) t) ∧ ∀ t ∈ uIcc 0 δ.val, |g'' t| ≤ M₂)
    (hret : ∀ p ∈ point :: (List.range point.size).map (evalPt point δ), ∀ i, i < m →
      ((f p).getD i 0).val = (G (vals p)).getD i 0) :
    ∃ J e, jacobian f point δ
        = .ok (J, point :: (List.range point.size).map (evalPt point δ)) ∧
      Mat.Is J m point.size e ∧
      ∀ i c, i < m → c < point.size →
        |(e i c).val - deriv (partialFn G (vals point) i c) 0| ≤ M₂ * |δ.val| / 2 := by
  obtain ⟨J, e, j1, j2, j3⟩ := jacobian_total_error_fine f G point δ m M₂ 0 0 hf hδ (le_refl _) hsm
    (fun p hp i hi => by rw [hret p hp i hi]; simp)
    (fun i c hi hc => by rw [evalPt_vals_exact]; simp)
  refine ⟨J, e, j1, j2, fun i c hi hc => ?_⟩
  have h := j3 i c hi hc
  have g0 : FlModel.exact.gam 2 = 0 := by simp [FlModel.gam, FlModel.exact]
  rw [g0] at h
  simpa using h

end Rounding

/-! ### the hypotheses are satisfiable -/
section Examples
variable {M : FlModel}

/-- `g(x) = x²` evaluated as `fl(p · p)` (`εf = u`) at `x = 3` with `δ = 1/4`, in ANY model with
    `u ≤ 1/8`: interval `I = [0, 4]`, `Gm = 16`, `L = 8`, `M₂ = 2`. -/
theorem ex_square (hu : M.u ≤ 1 / 8) :
    ∃ J e, jacobian (fun p : Array (Fl M) => #[p.getD 0 0 * p.getD 0 0]) #[⟨3⟩] (⟨1 / 4⟩ : Fl M)
        = .ok (J, [#[⟨3⟩], #[(⟨3⟩ : Fl M) + ⟨1 / 4⟩]]) ∧
      Mat.Is J 1 1 e ∧
      |(e 0 0).val - 6|
        ≤ 2 * (1 / 4) / 2
          + (8 * (M.u * (13 / 4)) + 2 * 16 * ((1 + M.u) * (1 + M.u) ^ 2 - 1)) / (1 / 4) := by
  have hu0 := M.u_nonneg
  have hfl : |M.fl (3 + 1 / 4) - (3 + 1 / 4)| ≤ M.u * |(3 : ℝ) + 1 / 4| := M.fl_err _
  have h13 : |(3 : ℝ) + 1 / 4| = 13 / 4 := by rw [abs_of_pos (by norm_num)]; norm_num
  rw [h13] at hfl
  obtain ⟨l1, l2⟩ := abs_le.mp hfl
  obtain ⟨J, e, j1, j2, j3⟩ := jacobian_total_error_scalar (M := M) (fun p => p * p)
    (fun s => s ^ 2) (fun s => 2 * s) (fun _ => 2) (Icc 0 4) ordConnected_Icc ⟨3⟩ ⟨1 / 4⟩
    2 8 M.u 16 (by norm_num) hu0
    (fun s _ => by simpa using hasDerivAt_pow 2 s)
    (fun s _ => ((hasDerivAt_id' s).const_mul 2).congr_deriv (by ring))
    (fun s _ => by simp)
    (fun s hs => by rw [abs_of_nonneg (by linarith [hs.1])]; linarith [hs.2])
    (fun s hs => by rw [abs_of_nonneg (by positivity)]; nlinarith [hs.1, hs.2])
    (by constructor <;> norm_num) (by constructor <;> norm_num)
    (by
      show M.fl (3 + 1 / 4) ∈ Icc (0 : ℝ) 4
      constructor <;> nlinarith)
    (fun p _ => by
      have := M.fl_err (p.val * p.val)
      simpa [pow_two] using this)
  refine ⟨J, e, j1, j2, ?_⟩
  have e6 : (2 : ℝ) * 3 = 6 := by norm_num
  have ed : |(1 / 4 : ℝ)| = 1 / 4 := abs_of_pos (by norm_num)
  simp only [h13, ed, e6] at j3
  exact j3

/-- … in particular in binary64 (`u = 2⁻⁵³`) … -/
example : ∃ J e, jacobian (fun p : Array (Fl FlModel.binary64) => #[p.getD 0 0 * p.getD 0 0])
      #[⟨3⟩] (⟨1 / 4⟩ : Fl FlModel.binary64)
        = .ok (J, [#[⟨3⟩], #[(⟨3⟩ : Fl FlModel.binary64) + ⟨1 / 4⟩]]) ∧
      Mat.Is J 1 1 e ∧
      |(e 0 0).val - 6|
        ≤ 2 * (1 / 4) / 2
          + (8 * (FlModel.binary64.u * (13 / 4))
              + 2 * 16 * ((1 + FlModel.binary64.u) * (1 + FlModel.binary64.u) ^ 2 - 1)) / (1 / 4) :=
  ex_square (by rw [FlModel.binary64_u]; norm_num)

/-- … and in exact arithmetic, where the bound is the truncation error `M₂|δ|/2 = 1/4` alone
    (the true error is `δ = 1/4`: the bound of C18R is attained). -/
example : ∃ J e, jacobian (fun p : Array (Fl FlModel.exact) => #[p.getD 0 0 * p.getD 0 0])
      #[⟨3⟩] (⟨1 / 4⟩ : Fl FlModel.exact)
        = .ok (J, [#[⟨3⟩], #[(⟨3⟩ : Fl FlModel.exact) + ⟨1 / 4⟩]]) ∧
      Mat.Is J 1 1 e ∧ |(e 0 0).val - 6| ≤ 1 / 4 := by
  obtain ⟨J, e, j1, j2, j3⟩ := ex_square (M := FlModel.exact) (by simp [FlModel.exact])
  refine ⟨J, e, j1, j2, j3.trans (le_of_eq ?_)⟩
  have u0 : FlModel.exact.u = 0 := rfl
  rw [u0]
  norm_num

/-- a `1 × 2` example for the box form: `G(x, y) = x y` evaluated as `fl(p₀ · p₁)` (`εf = u`) at
    `(1, 2)` with `δ = 1/4`, in ANY model with `u ≤ 1/8`: box `[0, 4]²`, `∂G/∂x = y`, `∂G/∂y = x`,
    `L = 4`, `M₂ = 0`, `Gm = 16`.  Column `1` is evaluated at `(1, fl(2 + δ))`: the first coordinate
    is restored exactly (it used to be `fl(fl(1 + δ) - δ)` and entered through `drift`). -/
theorem ex_product (hu : M.u ≤ 1 / 8) :
    ∃ J e, jacobian (fun p : Array (Fl M) => #[p.getD 0 0 * p.getD 1 0]) #[⟨1⟩, ⟨2⟩]
        (⟨1 / 4⟩ : Fl M)
        = .ok (J, [#[⟨1⟩, ⟨2⟩], #[(⟨1⟩ : Fl M) + ⟨1 / 4⟩, ⟨2⟩],
            #[(⟨1⟩ : Fl M), (⟨2⟩ : Fl M) + ⟨1 / 4⟩]]) ∧
      Mat.Is J 1 2 e ∧
      |(e 0 0).val - 2| ≤ (4 * (M.u * (5 / 4)) + 2 * 16 * ((1 + M.u) * (1 + M.u) ^ 2 - 1)) / (1 / 4) ∧
      |(e 0 1).val - 1| ≤ (4 * (M.u * (9 / 4))
          + 2 * 16 * ((1 + M.u) * (1 + M.u) ^ 2 - 1)) / (1 / 4) := by
  have hu0 := M.u_nonneg
  -- the two rounded coordinates
  have a54 : |(1 : ℝ) + 1 / 4| = 5 / 4 := by rw [abs_of_pos (by norm_num)]; norm_num
  have a94 : |(2 : ℝ) + 1 / 4| = 9 / 4 := by rw [abs_of_pos (by norm_num)]; norm_num
  have f1 : |M.fl (1 + 1 / 4) - (1 + 1 / 4)| ≤ M.u * (5 / 4) := by
    have := M.fl_err (1 + 1 / 4); rwa [a54] at this
  have f2 : |M.fl (2 + 1 / 4) - (2 + 1 / 4)| ≤ M.u * (9 / 4) := by
    have := M.fl_err (2 + 1 / 4); rwa [a94] at this
  obtain ⟨l1, r1⟩ := abs_le.mp f1
  obtain ⟨l2, r2⟩ := abs_le.mp f2
  have ev0 : evalPt #[(⟨1⟩ : Fl M), ⟨2⟩] ⟨1 / 4⟩ 0 = #[(⟨1⟩ : Fl M) + ⟨1 / 4⟩, ⟨2⟩] := by
    simp [evalPt, stateAt]
  have ev1 : evalPt #[(⟨1⟩ : Fl M), ⟨2⟩] ⟨1 / 4⟩ 1
      = #[(⟨1⟩ : Fl M), (⟨2⟩ : Fl M) + ⟨1 / 4⟩] := by
    simp [evalPt, stateAt]
  have two : ∀ c, c < 2 → c = 0 ∨ c = 1 := by omega
  have inbox : ∀ a b : ℝ, 0 ≤ a → a ≤ 4 → 0 ≤ b → b ≤ 4 →
      #[a, b] ∈ box 2 (fun _ => 0) (fun _ => 4) := by
    intro a b h1 h2 h3 h4
    refine ⟨rfl, fun k hk => ?_⟩
    rcases two k hk with rfl | rfl <;> simp [h1, h2, h3, h4]
  -- the partial functions of `G` at a point of the box
  have pf : ∀ y ∈ box 2 (fun _ => (0 : ℝ)) (fun _ => 4), ∀ k, k < 2 →
      partialFn (fun y : Array ℝ => #[y.getD 0 0 * y.getD 1 0]) y 0 k
        = fun t => if k = 0 then (y.getD 0 0 + t) * y.getD 1 0 else y.getD 0 0 * (y.getD 1 0 + t) := by
    intro y hy k hk
    funext t
    have s0 : 0 < y.size := by rw [hy.1]; omega
    have s1 : 1 < y.size := by rw [hy.1]; omega
    rcases two k hk with rfl | rfl
    · simp [partialFn, modify_getD _ _ _ _ s0, modify_getD _ _ _ _ s1]
    · simp [partialFn, modify_getD _ _ _ _ s0, modify_getD _ _ _ _ s1]
  obtain ⟨J, e, j1, j2, j3⟩ := jacobian_total_error_box (M := M)
    (fun p : Array (Fl M) => #[p.getD 0 0 * p.getD 1 0])
    (fun y : Array ℝ => #[y.getD 0 0 * y.getD 1 0])
    (fun _ k y => if k = 0 then y.getD 1 0 else y.getD 0 0) (fun _ _ _ => 0)
    #[⟨1⟩, ⟨2⟩] ⟨1 / 4⟩ 1 (fun _ => 0) (fun _ => 4) 0 4 M.u 16
    (fun y _ => by simp) (by norm_num) hu0
    (by simpa [vals] using inbox 1 2 (by norm_num) (by norm_num) (by norm_num) (by norm_num))
    (by
      intro c hc
      rcases two c hc with rfl | rfl
      · rw [ev0]
        simpa [vals] using inbox (M.fl (1 + 1 / 4)) 2 (by nlinarith) (by nlinarith) (by norm_num)
          (by norm_num)
      · rw [ev1]
        simpa [vals] using inbox 1 (M.fl (2 + 1 / 4))
          (by norm_num) (by norm_num) (by nlinarith) (by nlinarith))
    (by
      intro c hc
      rcases two c hc with rfl | rfl
      · simpa [idealPt, vals] using inbox (1 + 1 / 4) 2 (by norm_num) (by norm_num) (by norm_num)
          (by norm_num)
      · simpa [idealPt, vals] using inbox 1 (2 + 1 / 4) (by norm_num) (by norm_num) (by norm_num)
          (by norm_num))
    (by
      intro i k hi hk y hy
      have hi0 : i = 0 := by omega
      subst hi0
      have b0 := hy.2 0 (by norm_num)
      have b1 := hy.2 1 (by norm_num)
      rw [pf y hy k hk]
      rcases two k hk with rfl | rfl
      · simp only [if_true]
        refine ⟨?_, by rw [abs_of_nonneg b1.1]; exact b1.2⟩
        exact (((hasDerivAt_id' (0 : ℝ)).const_add (y.getD 0 0)).mul_const (y.getD 1 0)).congr_deriv
          (by ring)
      · simp only [one_ne_zero, if_false]
        refine ⟨?_, by rw [abs_of_nonneg b0.1]; exact b0.2⟩
        exact (((hasDerivAt_id' (0 : ℝ)).const_add (y.getD 1 0)).const_mul (y.getD 0 0)).congr_deriv
          (by ring))
    (by
      intro i k hi hk y hy
      have hsz : y.size = 2 := hy.1
      have s0 : 0 < y.size := by rw [hsz]; omega
      have s1 : 1 < y.size := by rw [hsz]; omega
      refine ⟨?_, by simp⟩
      rcases two k hk with rfl | rfl
      · simp only [if_true, modify_getD _ _ _ _ s1]
        simpa using hasDerivAt_const (0 : ℝ) (y.getD 1 0)
      · simp only [one_ne_zero, if_false, modify_getD _ _ _ _ s0]
        simpa using hasDerivAt_const (0 : ℝ) (y.getD 0 0))
    (by
      intro i hi y hy
      have hi0 : i = 0 := by omega
      subst hi0
      have b0 := hy.2 0 (by norm_num)
      have b1 := hy.2 1 (by norm_num)
      simp only [Array.getD_eq_getD_getElem?, List.getElem?_toArray, List.getElem?_cons_zero,
        Option.getD_some]
      rw [abs_mul]
      have := abs_of_nonneg b0.1
      have := abs_of_nonneg b1.1
      simp only [Array.getD_eq_getD_getElem?] at *
      nlinarith)
    (by
      intro p _ i hi
      have hi0 : i = 0 := by omega
      subst hi0
      show |(p.getD 0 0 * p.getD 1 0).val - (vals p).getD 0 0 * (vals p).getD 1 0|
        ≤ M.u * |(vals p).getD 0 0 * (vals p).getD 1 0|
      rw [vals_getD, vals_getD]
      exact M.fl_err _)
  have hr : List.range (#[(⟨1⟩ : Fl M), ⟨2⟩].size) = [0, 1] := rfl
  have ed : |(1 / 4 : ℝ)| = 1 / 4 := abs_of_pos (by norm_num)
  have hd0 : drift #[(⟨1⟩ : Fl M), ⟨2⟩] ⟨1 / 4⟩ 0 = M.u * (5 / 4) := by
    have : (#[(⟨1⟩ : Fl M), ⟨2⟩].getD 0 0).val = 1 := rfl
    rw [drift, this, a54]
  have hd1 : drift #[(⟨1⟩ : Fl M), ⟨2⟩] ⟨1 / 4⟩ 1 = M.u * (9 / 4) := by
    have h1 : (#[(⟨1⟩ : Fl M), ⟨2⟩].getD 1 0).val = 2 := rfl
    rw [drift, h1, a94]
  have v0 : (vals #[(⟨1⟩ : Fl M), ⟨2⟩]).getD 0 0 = 1 := by rw [vals_getD]; rfl
  have v1 : (vals #[(⟨1⟩ : Fl M), ⟨2⟩]).getD 1 0 = 2 := by rw [vals_getD]; rfl
  refine ⟨J, e, ?_, j2, ?_, ?_⟩
  · rw [hr] at j1
    simp only [List.map_cons, List.map_nil, ev0, ev1] at j1
    exact j1
  · have h := j3 0 0 (by norm_num) (by norm_num)
    rw [hd0, ed] at h
    simp only [if_true, v1] at h
    linarith
  · have h := j3 0 1 (by norm_num) (by norm_num)
    rw [hd1, ed] at h
    simp only [one_ne_zero, if_false, v0] at h
    linarith

/-- `ex_product` applies in binary64 and in exact arithmetic -/
example := ex_product (M := FlModel.binary64) (by rw [FlModel.binary64_u]; norm_num)
example := ex_product (M := FlModel.exact) (by simp [FlModel.exact])

/-- the restore bound is attained: in the model `fl x = (1+u) x`, restoring `x` after perturbing by
    `d = 0` gives `(1+u)² x` -/
example (u : ℝ) (hu : 0 ≤ u) (x : ℝ) :
    let M := FlModel.scale u hu
    |(((⟨x⟩ : Fl M) + 0) - 0).val - x| = M.gam 2 * (|x| + |(0 : ℝ)|) := by
  intro M
  show |(1 + u) * ((1 + u) * (x + 0) - 0) - x| = ((1 + u) ^ 2 - 1) * (|x| + |(0 : ℝ)|)
  have : (1 + u) * ((1 + u) * (x + 0) - 0) - x = ((1 + u) ^ 2 - 1) * x := by ring
  rw [this, abs_mul, abs_zero, add_zero, abs_of_nonneg (by nlinarith)]

end Examples
end Ohsl.Props.C18
