/-
  Property C03 (continued) — gaps found by review between the documented claim and the theorems.
  Model: Ohsl/Model/Mat.lean; lemmas: Ohsl/Lemmas/{MatSpec,MatSpec2,C03G}.lean.

  (S) any scalar type:
  * `getRow_correct`, `getCol_correct`   `get_row` / `get_col` return exactly the row / column of a
                                 described matrix (`Mat.Is`) and reject every out-of-range index;
                                 `getRow_entries`, `getCol_entries` read the result by index.
  * `MatOp2` (Ohsl/Lemmas/C03G.lean): the 19 operations of `MatOp` (embedded by `.old`) plus
    the raw element write `set`, `sdiv`, `eye`, `clear`, the raw `swapElem`, `lsmul`;
    `set_refines`, `sdiv_refines`, `eye_refines`, `clear_refines`, `swapElem_refines`,
    `lsmul_refines` (single steps), `step_refines2`, **`history_refines2`** (arbitrary histories),
    `history_refines2'` (unfolded), `history_wf2`, `history2_old` (old histories run as before).
    The reference semantics `MatOp2.ref` of `sdiv` divides every entry with the scalar type's own
    partial division `divM` (it is rejected iff some entry's division is); `sdiv_ref_exact` (E)
    evaluates it over a field: rejected iff `q = 0` and the matrix is non-empty, else `e i j / q`.
  (E) exact field:
  * `mulVec_sum`, `mulVec_sum_range`   component `i` of `multiply(&v)` is `∑ j, e i j * v j`.
  * `sdiv_zero_rejects_exact`     `m / 0` is `.error .arith` for EVERY non-empty well-formed matrix
                                 (the name `C03.sdiv_zero_rejects` is taken by the class-F version);
    `sdiv_zero_iff` (… and succeeds on the empty ones); `sdiv_correct_total`: for `q ≠ 0` it
    succeeds with entries `e i j / q`, no side condition.
  (E)/(R) norms:
  * `norm1_eq_zero_iff`, `normInf_eq_zero_iff` (ordered field with `fabs = |·|`, `fmax = max`),
    `norm1_eq_zero_iff_real`, `normInf_eq_zero_iff_real`, and `normP_eq_zero_iff` over ℝ for every
    exponent `p ≠ 0` (in particular `p ≥ 1`; `p = 0` is rejected, `C03.normP_zero_rejects`).
  Nothing is `_partial`.
-/
import Ohsl.Props.C03N
import Ohsl.Lemmas.C03G
import Mathlib.Algebra.Order.Field.Rat
import Mathlib.Tactic.NormNum

set_option linter.unusedSectionVars false
set_option linter.unusedVariables false
set_option linter.unusedSimpArgs false

namespace Ohsl.Props.C03
open Ohsl Ohsl.Mat

/-! ### `get_row`, `get_col` -/
section Structural
variable {K : Type} [Add K] [Sub K] [Mul K] [Neg K] [Zero K] [One K] [BEq K] [ScalarExt K]

/-- (S) `get_row(row)`: defined exactly for `row < rows`; returns the row, left to right -/
theorem getRow_correct {m : Mat K} {r c : Nat} {e : Nat → Nat → K} (h : Is m r c e) (row : Nat) :
    (row < r → getRow m row = .ok ((List.range c).map (fun j => e row j)).toArray) ∧
    (r ≤ row → getRow m row = .error .range) :=
  ⟨fun hr => getRow_spec h hr, fun hr => getRow_rejects m (by rw [h.rows]; exact hr)⟩

/-- (S) `get_col(col)`: defined exactly for `col < cols`; returns the column, top to bottom -/
theorem getCol_correct {m : Mat K} {r c : Nat} {e : Nat → Nat → K} (h : Is m r c e) (col : Nat) :
    (col < c → getCol m col = .ok ((List.range r).map (fun i => e i col)).toArray) ∧
    (c ≤ col → getCol m col = .error .range) :=
  ⟨fun hc => getCol_spec h hc, fun hc => getCol_rejects m (by rw [h.cols]; exact hc)⟩

/-- (S) the returned row has length `cols` and its `j`-th component is entry `(row, j)` -/
theorem getRow_entries {m : Mat K} {r c : Nat} {e : Nat → Nat → K} (h : Is m r c e) {row : Nat}
    (hr : row < r) :
    ∃ v, getRow m row = .ok v ∧ v.size = c ∧ ∀ j, j < c → v[j]? = some (e row j) := by
  refine ⟨_, getRow_spec h hr, by simp, ?_⟩
  intro j hj
  simp [hj]

/-- (S) the returned column has length `rows` and its `i`-th component is entry `(i, col)` -/
theorem getCol_entries {m : Mat K} {r c : Nat} {e : Nat → Nat → K} (h : Is m r c e) {col : Nat}
    (hc : col < c) :
    ∃ v, getCol m col = .ok v ∧ v.size = r ∧ ∀ i, i < r → v[i]? = some (e i col) := by
  refine ⟨_, getCol_spec h hc, by simp, ?_⟩
  intro i hi
  simp [hi]

/-- (S) `get_row` / `get_col` succeed exactly on the in-range indices -/
theorem getRow_ok_iff {m : Mat K} {r c : Nat} {e : Nat → Nat → K} (h : Is m r c e) (row : Nat) :
    (∃ v, getRow m row = .ok v) ↔ row < r := by
  constructor
  · rintro ⟨v, hv⟩
    by_contra hn
    rw [(getRow_correct h row).2 (Nat.le_of_not_lt hn)] at hv
    cases hv
  · intro hr; exact ⟨_, getRow_spec h hr⟩

theorem getCol_ok_iff {m : Mat K} {r c : Nat} {e : Nat → Nat → K} (h : Is m r c e) (col : Nat) :
    (∃ v, getCol m col = .ok v) ↔ col < c := by
  constructor
  · rintro ⟨v, hv⟩
    by_contra hn
    rw [(getCol_correct h col).2 (Nat.le_of_not_lt hn)] at hv
    cases hv
  · intro hc; exact ⟨_, getCol_spec h hc⟩

end Structural

/-! ### histories over the extended operation set -/
section Histories
variable {K : Type} [Add K] [Sub K] [Mul K] [Neg K] [Zero K] [One K] [BEq K] [ScalarExt K]
  [Transc K]

/-- (S) raw element write `m[(i,j)] = v`: only the flat offset `i*cols + j` is checked; the entry
    stored there — `(i,j)` itself when `j < cols` — becomes `v`, nothing else changes -/
theorem set_refines {m : Mat K} {s : Ref K} (h : Rel m s) (i j : Nat) (v : K) :
    Refines ((MatOp2.set i j v).apply m) ((MatOp2.set i j v).ref s) := Mat.set_refines h i j v

/-- (S) for in-range `(i, j)` the raw write is the expected pointwise update -/
theorem set_in_range {m : Mat K} {r c : Nat} {e : Nat → Nat → K} (h : Is m r c e) {i j : Nat}
    (hi : i < r) (hj : j < c) (v : K) :
    ∃ m', (MatOp2.set i j v).apply m = .ok m' ∧
      Is m' r c (fun a b => if a = i ∧ b = j then v else e a b) := h.set hi hj v

/-- (S) `matrix / scalar` refines "divide every entry with the scalar type's own division; reject
    iff some entry's division is rejected" -/
theorem sdiv_refines {m : Mat K} {s : Ref K} (h : Rel m s) (q : K) :
    Refines ((MatOp2.sdiv q).apply m) ((MatOp2.sdiv q).ref s) := Mat.sdiv_refines h q

theorem eye_refines (m : Mat K) (s : Ref K) (n : Nat) :
    Refines ((MatOp2.eye n).apply m) ((MatOp2.eye (K := K) n).ref s) := Mat.eye_refines m s n

theorem clear_refines (m : Mat K) (s : Ref K) :
    Refines (MatOp2.clear.apply m) ((MatOp2.clear (K := K)).ref s) := Mat.clear_refines m s

/-- (S) raw `swap_elem`: both flat offsets must lie inside the buffer; the stored values are
    exchanged -/
theorem swapElem_refines {m : Mat K} {s : Ref K} (h : Rel m s) (r1 c1 r2 c2 : Nat) :
    Refines ((MatOp2.swapElem r1 c1 r2 c2).apply m)
      ((MatOp2.swapElem (K := K) r1 c1 r2 c2).ref s) := Mat.swapElem_refines h r1 c1 r2 c2

/-- (S) `scalar * matrix` multiplies every entry by the scalar ON THE RIGHT, as the code does -/
theorem lsmul_refines {m : Mat K} {s : Ref K} (h : Rel m s) (k : K) :
    Refines ((MatOp2.lsmul k).apply m) ((MatOp2.lsmul k).ref s) := Mat.lsmul_refines h k

/-- (S) one operation of the extended set `MatOp2` (the 19 old operations and `set`, `sdiv`,
    `eye`, `clear`, `swapElem`, `lsmul`) refines its reference semantics -/
theorem step_refines2 (op : MatOp2 K) (hv : op.Valid) {m : Mat K} {s : Ref K} (h : Rel m s) :
    Refines (op.apply m) (op.ref s) := Mat.step_refines2 op hv h

/-- (S) **arbitrary histories over the extended operation set**: the model's state after the
    history is `Is`-related to the reference state, and both reject together -/
theorem history_refines2 (ops : List (MatOp2 K)) (hv : ∀ op ∈ ops, op.Valid) {m : Mat K}
    {s : Ref K} (h : Rel m s) : Refines (run2 ops m) (refRun2 ops s) := Mat.run2_refines ops hv h

/-- (S) unfolded form of `history_refines2` -/
theorem history_refines2' (ops : List (MatOp2 K)) (hv : ∀ op ∈ ops, op.Valid) {m : Mat K}
    {r c : Nat} {e : Nat → Nat → K} (h : Is m r c e) :
    (∀ s', refRun2 ops ⟨r, c, e⟩ = some s' →
        ∃ m', ops.foldlM (fun m op => op.apply m) m = .ok m' ∧ Is m' s'.rows s'.cols s'.entry) ∧
    (refRun2 ops ⟨r, c, e⟩ = none →
        ∃ err, ops.foldlM (fun m op => op.apply m) m = .error err) := by
  have R := Mat.run2_refines ops hv (m := m) (s := ⟨r, c, e⟩) h
  rw [run2_eq_foldlM] at R
  constructor
  · intro s' hs'
    rw [hs'] at R
    exact R
  · intro hn
    rw [hn] at R
    exact R

/-- (S) `len == rows * cols` is invariant under every extended history that does not panic -/
theorem history_wf2 (ops : List (MatOp2 K)) (hv : ∀ op ∈ ops, op.Valid) {m m' : Mat K} (h : m.WF)
    (hrun : run2 ops m = .ok m') : m'.WF := by
  have R := Mat.run2_refines ops hv (s := ⟨m.rows, m.cols, entryOf m⟩) (Is.of_wf h)
  cases hr : refRun2 ops ⟨m.rows, m.cols, entryOf m⟩ with
  | none =>
    rw [hr] at R
    obtain ⟨err, he⟩ := R
    rw [he] at hrun
    cases hrun
  | some s' =>
    rw [hr] at R
    obtain ⟨m'', hm'', hrel⟩ := R
    rw [hm''] at hrun
    cases hrun
    exact hrel.wf

/-- (S) the embedding is faithful: a history of old operations runs exactly as under `run` -/
theorem history2_old (ops : List (MatOp K)) (m : Mat K) :
    run2 (ops.map MatOp2.old) m = run ops m := Mat.run2_old ops m

end Histories

/-! ### exact arithmetic: `multiply(&v)`, `matrix / scalar` -/
section Exact
variable {K : Type} [Field K] [LinearOrder K] [IsStrictOrderedRing K]
attribute [local instance] Alg.scalarExt

theorem array_eq_range_map (v : Array K) {c : Nat} (hv : v.size = c) :
    v = ((List.range c).map (fun j => v.getD j 0)).toArray := by
  apply Array.ext
  · simp [hv]
  · intro i h1 h2
    simp [Array.getD, h1]

/-- (E) **matrix · vector, Σ-form** (sum over `Finset.range`): for a vector of length `cols` the
    call succeeds and component `i` is `∑_{j<c} e i j · v_j` -/
theorem mulVec_sum_range {m : Mat K} {r c : Nat} {e : Nat → Nat → K} (h : Is m r c e)
    (v : Array K) (hv : v.size = c) :
    mulVec m v = .ok ((List.range r).map (fun i =>
      ∑ j ∈ Finset.range c, e i j * v.getD j 0)).toArray := by
  rw [mulVec_spec h v hv]
  congr 2
  apply List.map_congr_left
  intro i _
  have := foldl_zipWith_eq_sum (fun j => e i j) (fun j => v.getD j 0) c
  rw [← array_eq_range_map v hv] at this
  exact this

/-- (E) **matrix · vector, Σ-form**: the result has length `rows` and its component `i` is
    `∑ j : Fin c, e i j * v[j]` -/
theorem mulVec_sum {m : Mat K} {r c : Nat} {e : Nat → Nat → K} (h : Is m r c e)
    (v : Array K) (hv : v.size = c) :
    ∃ w, mulVec m v = .ok w ∧ w.size = r ∧
      ∀ (i : Nat) (hi : i < r),
        w[i]? = some (∑ j : Fin c, e i j * v[j.val]'(by rw [hv]; exact j.isLt)) := by
  refine ⟨_, mulVec_sum_range h v hv, by simp, ?_⟩
  intro i hi
  simp only [List.getElem?_toArray, List.getElem?_map, List.getElem?_range hi, Option.map_some]
  congr 1
  rw [← Fin.sum_univ_eq_sum_range (fun j => e i j * v.getD j 0) c]
  apply Finset.sum_congr rfl
  intro j _
  have : j.val < v.size := by rw [hv]; exact j.isLt
  simp [Array.getD, this]

/-- (E) **division by zero is rejected on every non-empty matrix**: an arithmetic panic, never a
    value (the first entry's division already fails) -/
theorem sdiv_zero_rejects_exact {m : Mat K} {r c : Nat} {e : Nat → Nat → K} (h : Is m r c e)
    (hr : 0 < r) (hc : 0 < c) : Mat.sdiv m 0 = .error .arith :=
  Mat.mapM1_rejects (fun x => divM x (0 : K)) h hr hc .arith (Alg.divM_zero _)

/-- (E) … and ONLY on those: on an empty matrix (no rows or no columns) nothing is divided and the
    call returns the empty result -/
theorem sdiv_zero_iff {m : Mat K} {r c : Nat} {e : Nat → Nat → K} (h : Is m r c e) :
    Mat.sdiv m 0 = .error .arith ↔ 0 < r ∧ 0 < c := by
  constructor
  · intro herr
    by_contra hn
    obtain ⟨m', hm', _⟩ := Mat.sdiv_spec h (0 : K) (fun x => x) (by
      intro i j hi hj
      exfalso; apply hn; constructor <;> omega)
    rw [hm'] at herr
    cases herr
  · rintro ⟨hr, hc⟩; exact sdiv_zero_rejects_exact h hr hc

/-- (E) **`matrix / q` for `q ≠ 0`**: the call succeeds on every well-formed matrix (any shape)
    and entry `(i,j)` of the result is `e i j / q` -/
theorem sdiv_correct_total {m : Mat K} {r c : Nat} {e : Nat → Nat → K} (h : Is m r c e) {q : K}
    (hq : q ≠ 0) : ∃ m', Mat.sdiv m q = .ok m' ∧ Is m' r c (fun i j => e i j / q) :=
  Mat.sdiv_spec h q (fun x => x / q) (fun _ _ _ _ => Alg.divM_ne hq)

/-- (E) `sdiv` succeeds iff the divisor is non-zero or the matrix is empty -/
theorem sdiv_ok_iff {m : Mat K} {r c : Nat} {e : Nat → Nat → K} (h : Is m r c e) (q : K) :
    (∃ m', Mat.sdiv m q = .ok m') ↔ (q ≠ 0 ∨ r = 0 ∨ c = 0) := by
  constructor
  · rintro ⟨m', hm'⟩
    by_contra hn
    have hq : q = 0 := by
      by_contra hq; exact hn (Or.inl hq)
    subst hq
    rw [sdiv_zero_rejects_exact h (by omega) (by omega)] at hm'
    cases hm'
  · intro hcase
    by_cases hq : q = 0
    · subst hq
      have hrc : r = 0 ∨ c = 0 := hcase.resolve_left (by simp)
      obtain ⟨m', hm', _⟩ := Mat.sdiv_spec h (0 : K) (fun x => x) (by
        intro i j hi hj; omega)
      exact ⟨m', hm'⟩
    · obtain ⟨m', hm', _⟩ := sdiv_correct_total h hq
      exact ⟨m', hm'⟩

/-- (E) the reference semantics of `sdiv` (defined through the scalar type's partial division)
    evaluated over an exact field: rejected iff `q = 0` on a non-empty matrix, otherwise every
    entry is `e i j / q` -/
theorem sdiv_ref_exact [Transc K] (q : K) (s : Ref K) :
    (MatOp2.sdiv q).ref s =
      if q = 0 ∧ 0 < s.rows ∧ 0 < s.cols then none
      else some ⟨s.rows, s.cols, fun i j => s.entry i j / q⟩ := by
  simp only [MatOp2.ref]
  by_cases hq : q = 0
  · subst hq
    by_cases hne : 0 < s.rows ∧ 0 < s.cols
    · have hg : ¬ ∀ i j, i < s.rows → j < s.cols →
          ∃ y, ScalarExt.divM (s.entry i j) (0 : K) = .ok y := by
        intro hall
        obtain ⟨y, hy⟩ := hall 0 0 hne.1 hne.2
        rw [Alg.divM_zero] at hy
        cases hy
      rw [if_neg hg, if_pos ⟨rfl, hne⟩]
    · have hg : ∀ i j, i < s.rows → j < s.cols →
          ∃ y, ScalarExt.divM (s.entry i j) (0 : K) = .ok y := by
        intro i j hi hj; exfalso; apply hne; constructor <;> omega
      have hn : ¬ ((0 : K) = 0 ∧ 0 < s.rows ∧ 0 < s.cols) := fun h => hne h.2
      rw [if_pos hg, if_neg hn]
      congr 2
      funext i j
      simp [Alg.divM_zero]
  · have hg : ∀ i j, i < s.rows → j < s.cols →
        ∃ y, ScalarExt.divM (s.entry i j) q = .ok y :=
      fun i j _ _ => ⟨_, Alg.divM_ne hq⟩
    have hn : ¬ (q = 0 ∧ 0 < s.rows ∧ 0 < s.cols) := fun h => hq h.1
    rw [if_pos hg, if_neg hn]
    congr 2
    funext i j
    simp [hq]

end Exact

/-! ### definiteness of `norm_1`, `norm_inf`, `norm_p` -/
section Norms
variable {K : Type} [Field K] [LinearOrder K] [IsStrictOrderedRing K] [Transc K]
attribute [local instance] Ohsl.Alg.scalarExt

/-- (E) `norm_1 m = 0` exactly when every entry of the well-formed `r × c` matrix is zero -/
theorem norm1_eq_zero_iff (hfabs : ∀ x : K, Transc.fabs x = |x|)
    (hfmax : ∀ x y : K, Transc.fmax x y = max x y)
    {m : Mat K} {r c : Nat} {e : Nat → Nat → K} (h : Is m r c e) :
    Mat.norm1 m = .ok 0 ↔ ∀ i j, i < r → j < c → e i j = 0 := by
  obtain ⟨v, hv, g0, g1, g2⟩ := norm1_spec hfabs hfmax h
  rw [hv]
  constructor
  · intro hz i j hi hj
    have hv0 : v = 0 := by injection hz
    have h1 := g1 j hj
    rw [hv0] at h1
    have hle : |e i j| ≤ ∑ i ∈ Finset.range r, |e i j| :=
      Finset.single_le_sum (f := fun i => |e i j|) (fun _ _ => abs_nonneg _)
        (Finset.mem_range.mpr hi)
    exact abs_nonpos_iff.mp (hle.trans h1)
  · intro hz
    rcases g2 with g2 | ⟨j, hj, g2⟩
    · rw [g2]
    · rw [g2]
      congr 1
      apply Finset.sum_eq_zero
      intro i hi
      rw [hz i j (Finset.mem_range.mp hi) hj, abs_zero]

/-- (E) `norm_inf m = 0` exactly when every entry of the well-formed `r × c` matrix is zero -/
theorem normInf_eq_zero_iff (hfabs : ∀ x : K, Transc.fabs x = |x|)
    (hfmax : ∀ x y : K, Transc.fmax x y = max x y)
    {m : Mat K} {r c : Nat} {e : Nat → Nat → K} (h : Is m r c e) :
    Mat.normInf m = .ok 0 ↔ ∀ i j, i < r → j < c → e i j = 0 := by
  obtain ⟨v, hv, g0, g1, g2⟩ := normInf_spec hfabs hfmax h
  rw [hv]
  constructor
  · intro hz i j hi hj
    have hv0 : v = 0 := by injection hz
    have h1 := g1 i hi
    rw [hv0] at h1
    have hle : |e i j| ≤ ∑ j ∈ Finset.range c, |e i j| :=
      Finset.single_le_sum (f := fun j => |e i j|) (fun _ _ => abs_nonneg _)
        (Finset.mem_range.mpr hj)
    exact abs_nonpos_iff.mp (hle.trans h1)
  · intro hz
    rcases g2 with g2 | ⟨i, hi, g2⟩
    · rw [g2]
    · rw [g2]
      congr 1
      apply Finset.sum_eq_zero
      intro j hj
      rw [hz i j hi (Finset.mem_range.mp hj), abs_zero]

end Norms

section RealNorms
open Ohsl.RealI

/-- (R) over ℝ: `norm_1 m = 0` iff every entry is zero -/
theorem norm1_eq_zero_iff_real {m : Mat ℝ} {r c : Nat} {e : Nat → Nat → ℝ} (h : Is m r c e) :
    Mat.norm1 m = .ok 0 ↔ ∀ i j, i < r → j < c → e i j = 0 :=
  norm1_eq_zero_iff fabs_real fmax_real h

/-- (R) over ℝ: `norm_inf m = 0` iff every entry is zero -/
theorem normInf_eq_zero_iff_real {m : Mat ℝ} {r c : Nat} {e : Nat → Nat → ℝ} (h : Is m r c e) :
    Mat.normInf m = .ok 0 ↔ ∀ i j, i < r → j < c → e i j = 0 :=
  normInf_eq_zero_iff fabs_real fmax_real h

/-- (R) over ℝ, for EVERY exponent `p ≠ 0` (in particular `p ≥ 1`): the entrywise `norm_p` is `0`
    iff every entry is zero.  (`p = 0` is rejected: `normP_zero_rejects`.) -/
theorem normP_eq_zero_iff {m : Mat ℝ} {r c : Nat} {e : Nat → Nat → ℝ} (h : Is m r c e) {p : ℝ}
    (hp : p ≠ 0) :
    Mat.normP m p = .ok 0 ↔ ∀ i j, i < r → j < c → e i j = 0 := by
  rw [normP_spec h hp]
  have hterm : ∀ i j, 0 ≤ |e i j| ^ p := fun i j => Real.rpow_nonneg (abs_nonneg _) p
  have hrow : ∀ i, 0 ≤ ∑ j ∈ Finset.range c, |e i j| ^ p :=
    fun i => Finset.sum_nonneg fun j _ => hterm i j
  have hS : 0 ≤ ∑ i ∈ Finset.range r, ∑ j ∈ Finset.range c, |e i j| ^ p :=
    Finset.sum_nonneg fun i _ => hrow i
  constructor
  · intro hz i j hi hj
    have hz' : (∑ i ∈ Finset.range r, ∑ j ∈ Finset.range c, |e i j| ^ p) ^ (1 / p) = 0 := by
      injection hz
    have hS0 := ((Real.rpow_eq_zero_iff_of_nonneg hS).mp hz').1
    have h1 := (Finset.sum_eq_zero_iff_of_nonneg (fun i _ => hrow i)).mp hS0 i
      (Finset.mem_range.mpr hi)
    have h2 := (Finset.sum_eq_zero_iff_of_nonneg (fun j _ => hterm i j)).mp h1 j
      (Finset.mem_range.mpr hj)
    exact abs_eq_zero.mp ((Real.rpow_eq_zero_iff_of_nonneg (abs_nonneg _)).mp h2).1
  · intro hz
    have : ∑ i ∈ Finset.range r, ∑ j ∈ Finset.range c, |e i j| ^ p = 0 := by
      refine Finset.sum_eq_zero fun i hi => Finset.sum_eq_zero fun j hj => ?_
      rw [hz i j (Finset.mem_range.mp hi) (Finset.mem_range.mp hj), abs_zero, Real.zero_rpow hp]
    rw [this, Real.zero_rpow (one_div_ne_zero hp)]

/-- (R) the case named in the review: `p ≥ 1` -/
theorem normP_eq_zero_iff_of_one_le {m : Mat ℝ} {r c : Nat} {e : Nat → Nat → ℝ} (h : Is m r c e)
    {p : ℝ} (hp : 1 ≤ p) :
    Mat.normP m p = .ok 0 ↔ ∀ i j, i < r → j < c → e i j = 0 :=
  normP_eq_zero_iff h (by linarith)

end RealNorms

/-! ### non-vacuity -/
section Examples
attribute [local instance] Alg.scalarExt
open Ohsl.RealI

/-- `A = [[1,2,3],[4,5,6]]` over ℚ: row 1 is `[4,5,6]`, column 2 is `[3,6]` -/
example : ∃ v, getRow A 1 = .ok v ∧ v[2]? = some 6 := by
  obtain ⟨v, hv, _, hj⟩ := getRow_entries A_is (row := 1) (by omega)
  refine ⟨v, hv, ?_⟩
  rw [hj 2 (by omega)]; simp [A]
example : getRow A 2 = .error .range := (getRow_correct A_is 2).2 (by omega)
example : getCol A 3 = .error .range := (getCol_correct A_is 3).2 (by omega)

/-- `A · [1,1,1]` has components `6` and `15` -/
example : ∃ w, mulVec A #[1, 1, 1] = .ok w ∧ w[1]? = some 15 := by
  obtain ⟨w, hw, _, hi⟩ := mulVec_sum A_is #[1, 1, 1] rfl
  refine ⟨w, hw, ?_⟩
  rw [hi 1 (by omega)]
  simp [Fin.sum_univ_three, A]
  norm_num

/-- `A / 0` panics, `A / 2` does not -/
example : Mat.sdiv A 0 = .error .arith := sdiv_zero_rejects_exact A_is (by omega) (by omega)
example : ∃ p, Mat.sdiv A 2 = .ok p ∧ p.get 1 2 = .ok 3 := by
  obtain ⟨p, hp, hI⟩ := sdiv_correct_total A_is (q := (2 : ℚ)) (by norm_num)
  refine ⟨p, hp, ?_⟩
  rw [hI.get (show 1 < 2 by omega) (show 2 < 3 by omega)]
  simp [A]; norm_num
/-- the empty matrix may be divided by zero -/
example : ∃ p, Mat.sdiv (Mat.empty : Mat ℚ) 0 = .ok p :=
  (sdiv_ok_iff (Mat.Is.of_empty (fun _ _ => 0)) 0).mpr (Or.inr (Or.inl rfl))

/-- the same matrix over ℝ (histories with `lsmul` need the `f64`-only operations) -/
noncomputable def AR : Mat ℝ := ⟨#[1, 2, 3, 4, 5, 6], 2, 3⟩
theorem AR_is : Is AR 2 3 (entryOf AR) := Mat.Is.of_wf (m := AR) (by simp [Mat.WF, AR])

/-- the raw write `m[(0,5)] = 7` on a `2 × 3` matrix lands on entry `(1,2)` (flat offset 5) -/
example : ∃ p, AR.set 0 5 7 = .ok p ∧ p.get 1 2 = .ok 7 ∧ p.get 0 2 = .ok 3 := by
  have R := set_refines (s := ⟨2, 3, entryOf AR⟩) AR_is 0 5 7
  simp only [MatOp2.ref] at R
  rw [if_pos (by norm_num)] at R
  obtain ⟨p, hp, hI⟩ := R
  refine ⟨p, hp, ?_, ?_⟩
  · rw [hI.get (show 1 < 2 by omega) (show 2 < 3 by omega)]; simp
  · rw [hI.get (show 0 < 2 by omega) (show 2 < 3 by omega)]; simp [entryOf, AR]
/-- … and `m[(1,3)] = 7` (flat offset 6) is out of the buffer: a panic -/
example : ∃ err, AR.set 1 3 7 = .error err := by
  have R := set_refines (s := ⟨2, 3, entryOf AR⟩) AR_is 1 3 7
  simp only [MatOp2.ref] at R
  rw [if_neg (by norm_num)] at R
  exact R

/-- a history mixing old and new operations -/
example : ∃ p, run2 [.old .transpose, .set 2 1 9, .lsmul 2, .swapElem 0 0 2 1, .sdiv 3] AR = .ok p ∧
    p.WF ∧ p.rows = 3 ∧ p.cols = 2 ∧ p.get 0 0 = .ok 6 := by
  have hv : ∀ op ∈ ([.old .transpose, .set 2 1 9, .lsmul 2, .swapElem 0 0 2 1, .sdiv 3] :
      List (MatOp2 ℝ)), op.Valid := by
    intro op hop
    simp only [List.mem_cons, List.mem_nil_iff, or_false] at hop
    rcases hop with rfl | rfl | rfl | rfl | rfl <;> trivial
  have R := history_refines2 _ hv (s := ⟨2, 3, entryOf AR⟩) AR_is
  simp only [refRun2, sdiv_ref_exact] at R
  simp only [MatOp2.ref, MatOp.ref, Option.bind] at R
  norm_num [Refines] at R
  obtain ⟨p, hp, hI⟩ := R
  refine ⟨p, hp, hI.wf, hI.rows, hI.cols, ?_⟩
  rw [hI.get (show 0 < 3 by omega) (show 0 < 2 by omega)]
  norm_num

/-- `clear`, then `eye 2`, then division by zero: the history panics -/
example : ∃ err, run2 [.clear, .eye 2, .sdiv 0] AR = .error err := by
  have hv : ∀ op ∈ ([.clear, .eye 2, .sdiv 0] : List (MatOp2 ℝ)), op.Valid := by
    intro op hop
    simp only [List.mem_cons, List.mem_nil_iff, or_false] at hop
    rcases hop with rfl | rfl | rfl <;> trivial
  have R := history_refines2 _ hv (s := ⟨2, 3, entryOf AR⟩) AR_is
  simp only [refRun2, sdiv_ref_exact] at R
  simp only [MatOp2.ref, Option.bind] at R
  norm_num [Refines] at R
  exact R

/-- `norm_1`, `norm_inf`, `norm_p` of the zero `2 × 2` real matrix are `0`; of `AR` they are not -/
example : Mat.norm1 (Mat.new 2 2 (0 : ℝ)) = .ok 0 :=
  (norm1_eq_zero_iff_real (Mat.Is.of_new 2 2 (0 : ℝ))).mpr (fun _ _ _ _ => rfl)
example : Mat.normP (Mat.new 2 2 (0 : ℝ)) 3 = .ok 0 :=
  (normP_eq_zero_iff (Mat.Is.of_new 2 2 (0 : ℝ)) (by norm_num)).mpr (fun _ _ _ _ => rfl)
example : Mat.normInf AR ≠ .ok 0 := by
  intro h0
  have := (normInf_eq_zero_iff_real AR_is).mp h0 0 0 (by omega) (by omega)
  simp [entryOf, AR] at this

end Examples

end Ohsl.Props.C03
