/-
  Property C19 (continued) — meshes: `assign`, `apply`, `mesh[(i,j)][var] = x`, and refinement of
  ARBITRARY histories of node writes to a reference model (model: Ohsl/Model/Mesh.lean).

  All statements are class (S): any value type `T`, any coordinate type `X`, no algebraic law.

  * flat storage lemmas (`ent`, `Shaped`, `Upd`) shared by both meshes;
  * `abs2` / `abs1`: the reference view of a mesh (node, node, variable ↦ value), read through
    `get_nodes_vars`; `views2`: every other access path (`index`, cross-sections followed by 1-D
    reads, `var_as_matrix`, `val2`) returns the same values;
  * `assign_spec`, `apply_spec`, `apply_rejects`, `setVar_spec2(_raw)`, `setVar_rejects2`,
    `setVar_spec1`, `setVar_rejects1`;
  * `Op2`, `Op2.run` (the MODEL functions), `Op2.ref` (reference step), `step_refines2`,
    `history_refines2` (panic-propagating histories), `history_refines2_skip` (histories in which a
    rejected call leaves the mesh unchanged), `history_views2`; the same for the 1-D mesh
    (`step_refines1`, `history_refines1`, `history_refines1_skip`).
-/
import Ohsl.Props.C19M
set_option linter.unusedSectionVars false
set_option linter.unusedVariables false
set_option linter.unusedSimpArgs false
namespace Ohsl.Props.C19
open Ohsl

/-! ## flat storage: an array of node vectors -/
section Flat
variable {T : Type}

/-- entry `w` of the vector stored at flat address `a` (`none` outside the storage) -/
def ent (vs : Array (Array T)) (a w : Nat) : Option T := (vs[a]?).bind (fun row => row[w]?)

/-- `N` node vectors, each of length `nv` -/
def Shaped (vs : Array (Array T)) (N nv : Nat) : Prop :=
  vs.size = N ∧ ∀ k (hk : k < vs.size), vs[k].size = nv

theorem ent_eq {vs : Array (Array T)} {a : Nat} (ha : a < vs.size) (w : Nat) :
    ent vs a w = vs[a][w]? := by
  simp [ent, ha]

theorem ent_none {vs : Array (Array T)} {N nv : Nat} (h : Shaped vs N nv) {a w : Nat}
    (hw : N ≤ a ∨ nv ≤ w) : ent vs a w = none := by
  by_cases ha : a < vs.size
  · rw [ent_eq ha]
    have := h.2 a ha
    have hN := h.1
    simp; omega
  · simp [ent, Nat.le_of_not_lt ha]

theorem ent_some {vs : Array (Array T)} {N nv : Nat} (h : Shaped vs N nv) {a w : Nat}
    (ha : a < N) (hw : w < nv) : ∃ x, ent vs a w = some x := by
  have ha' : a < vs.size := by rw [h.1]; exact ha
  have hw' : w < vs[a].size := by rw [h.2 a ha']; exact hw
  exact ⟨vs[a][w], by rw [ent_eq ha']; simp [hw']⟩

/-- the stored vector at an address, with its entries -/
theorem row_of_ent {vs : Array (Array T)} {N nv : Nat} (h : Shaped vs N nv) {a : Nat} (ha : a < N) :
    ∃ row, aget vs a = .ok row ∧ row.size = nv ∧ ∀ w, row[w]? = ent vs a w := by
  have ha' : a < vs.size := by rw [h.1]; exact ha
  exact ⟨vs[a], Mat.aget_ok ha', h.2 a ha', fun w => (ent_eq ha' w).symm⟩

/-- two vectors with the same length and the same entries are equal -/
theorem row_ext {r1 r2 : Array T} (h : ∀ w : Nat, r1[w]? = r2[w]?) : r1 = r2 := Array.ext_getElem? h

/-- `vs[a] = v` -/
theorem put_ok {vs : Array (Array T)} {N nv : Nat} (h : Shaped vs N nv) {a : Nat} (ha : a < N)
    {v : Array T} (hv : v.size = nv) :
    ∃ vs', aset vs a v = .ok vs' ∧ Shaped vs' N nv ∧
      ∀ b u, ent vs' b u = if b = a then v[u]? else ent vs b u := by
  have ha' : a < vs.size := by rw [h.1]; exact ha
  refine ⟨vs.setIfInBounds a v, Mat.aset_ok v ha', ⟨by simpa using h.1, ?_⟩, ?_⟩
  · intro k hk
    have hk' : k < vs.size := by simpa using hk
    by_cases e : a = k
    · subst e; simp [hv]
    · rw [Array.getElem_setIfInBounds, if_neg e]; exact h.2 k hk'
  · intro b u
    by_cases e : b = a
    · subst e; simp [ent, ha']
    · have e' : a ≠ b := fun q => e q.symm
      simp [ent, Array.getElem?_setIfInBounds, e, e']

/-- `vs[a][w] = x` (the body of every elementwise mesh loop) -/
theorem poke_ok {vs : Array (Array T)} {N nv : Nat} (h : Shaped vs N nv) {a w : Nat} (ha : a < N)
    (hw : w < nv) (x : T) :
    ∃ vs', (do let row ← aget vs a; let row ← aset row w x; aset vs a row : Res (Array (Array T)))
        = .ok vs' ∧ Shaped vs' N nv ∧
      ∀ b u, ent vs' b u = if b = a ∧ u = w then some x else ent vs b u := by
  have ha' : a < vs.size := by rw [h.1]; exact ha
  have hw' : w < vs[a].size := by rw [h.2 a ha']; exact hw
  obtain ⟨vs', h1, h2, h3⟩ := put_ok h ha (v := vs[a].setIfInBounds w x)
    (by simpa using h.2 a ha')
  refine ⟨vs', ?_, h2, ?_⟩
  · simp only [Mat.aget_ok ha', Mat.aset_ok x hw', bind, Except.bind]
    exact h1
  · intro b u
    rw [h3 b u]
    by_cases e : b = a
    · subst e
      by_cases e2 : u = w
      · subst e2; simp [hw']
      · have e2' : w ≠ u := fun q => e2 q.symm
        simp [e2, Array.getElem?_setIfInBounds, e2', ent_eq ha']
    · simp [e]

theorem poke_err {vs : Array (Array T)} {N nv : Nat} (h : Shaped vs N nv) {a w : Nat} (ha : a < N)
    (hw : nv ≤ w) (x : T) :
    (do let row ← aget vs a; let row ← aset row w x; aset vs a row : Res (Array (Array T)))
      = .error .range := by
  have ha' : a < vs.size := by rw [h.1]; exact ha
  have hw' : vs[a].size ≤ w := by rw [h.2 a ha']; exact hw
  simp only [Mat.aget_ok ha', Mat.aset_err x hw', bind, Except.bind]

theorem poke_err_addr {vs : Array (Array T)} {a w : Nat} (ha : vs.size ≤ a) (x : T) :
    (do let row ← aget vs a; let row ← aset row w x; aset vs a row : Res (Array (Array T)))
      = .error .range := by
  simp only [Mat.aget_err ha, bind, Except.bind]

/-- loop invariant of the elementwise loops: `s` has the shape of the storage, the cells selected
    by `C` hold their target value `tgt`, every other cell is as in the initial storage `vs` -/
def Upd (vs s : Array (Array T)) (N nv : Nat) (tgt : Nat → Nat → Option T)
    (C : Nat → Nat → Prop) : Prop :=
  Shaped s N nv ∧ ∀ b u, (C b u → ent s b u = tgt b u) ∧ (¬ C b u → ent s b u = ent vs b u)

theorem Upd.init {vs : Array (Array T)} {N nv : Nat} {tgt : Nat → Nat → Option T}
    {C : Nat → Nat → Prop} (h : Shaped vs N nv) (hC : ∀ b u, ¬ C b u) : Upd vs vs N nv tgt C :=
  ⟨h, fun b u => ⟨fun c => absurd c (hC b u), fun _ => rfl⟩⟩

theorem Upd.congr {vs s : Array (Array T)} {N nv : Nat} {tgt : Nat → Nat → Option T}
    {C C' : Nat → Nat → Prop} (h : Upd vs s N nv tgt C) (hc : ∀ b u, C' b u ↔ C b u) :
    Upd vs s N nv tgt C' :=
  ⟨h.1, fun b u => ⟨fun c => (h.2 b u).1 ((hc b u).1 c),
    fun c => (h.2 b u).2 (fun q => c ((hc b u).2 q))⟩⟩

theorem Upd.step {vs s : Array (Array T)} {N nv : Nat} {tgt : Nat → Nat → Option T}
    {C C' : Nat → Nat → Prop} (h : Upd vs s N nv tgt C) {a w : Nat} (ha : a < N) (hw : w < nv)
    {x : T} (hx : tgt a w = some x) (hc : ∀ b u, C' b u ↔ (b = a ∧ u = w) ∨ C b u) :
    ∃ s', (do let row ← aget s a; let row ← aset row w x; aset s a row : Res (Array (Array T)))
        = .ok s' ∧ Upd vs s' N nv tgt C' := by
  obtain ⟨s', h1, h2, h3⟩ := poke_ok h.1 ha hw x
  refine ⟨s', h1, h2, fun b u => ⟨fun c => ?_, fun c => ?_⟩⟩
  · rw [h3 b u]
    by_cases e : b = a ∧ u = w
    · rw [if_pos e, e.1, e.2, hx]
    · rw [if_neg e]
      exact (h.2 b u).1 (((hc b u).1 c).resolve_left e)
  · have e : ¬ (b = a ∧ u = w) := fun q => c ((hc b u).2 (Or.inl q))
    rw [h3 b u, if_neg e]
    exact (h.2 b u).2 (fun q => c ((hc b u).2 (Or.inr q)))

/-- the three nested loops of `assign` -/
theorem assign_loop {vs : Array (Array T)} {nx ny nv : Nat} (h : Shaped vs (nx * ny) nv) (x : T) :
    ∃ vs', Mat.forM' 0 nx vs (fun vs i =>
        Mat.forM' 0 ny vs (fun vs j =>
          Mat.forM' 0 nv vs (fun vs v => do
            let row ← aget vs (i * ny + j)
            let row ← aset row v x
            aset vs (i * ny + j) row))) = .ok vs' ∧
      Upd vs vs' (nx * ny) nv (fun _ _ => some x) (fun b u => b < nx * ny ∧ u < nv) := by
  obtain ⟨s, hs, hP⟩ := Mat.forM'_inv
    (fun i s => Upd vs s (nx * ny) nv (fun _ _ => some x) (fun b u => b < i * ny ∧ u < nv))
    0 nx vs
    (fun vs i =>
        Mat.forM' 0 ny vs (fun vs j =>
          Mat.forM' 0 nv vs (fun vs v => do
            let row ← aget vs (i * ny + j)
            let row ← aset row v x
            aset vs (i * ny + j) row)))
    (Nat.zero_le _) (Upd.init h (by intro b u; omega)) (by
      intro i s _ hi hI
      obtain ⟨s1, hs1, hP1⟩ := Mat.forM'_inv
        (fun j s => Upd vs s (nx * ny) nv (fun _ _ => some x)
          (fun b u => b < i * ny + j ∧ u < nv))
        0 ny s
        (fun vs j =>
          Mat.forM' 0 nv vs (fun vs v => do
            let row ← aget vs (i * ny + j)
            let row ← aset row v x
            aset vs (i * ny + j) row))
        (Nat.zero_le _) (hI.congr (by intro b u; omega)) (by
          intro j s _ hj hJ
          have ha : i * ny + j < nx * ny := Mat.idx_lt hi hj
          obtain ⟨s2, hs2, hP2⟩ := Mat.forM'_inv
            (fun v s => Upd vs s (nx * ny) nv (fun _ _ => some x)
              (fun b u => (b < i * ny + j ∧ u < nv) ∨ (b = i * ny + j ∧ u < v)))
            0 nv s
            (fun vs v => do
              let row ← aget vs (i * ny + j)
              let row ← aset row v x
              aset vs (i * ny + j) row)
            (Nat.zero_le _) (hJ.congr (by intro b u; omega)) (by
              intro v s _ hv hV
              exact hV.step ha hv rfl (by intro b u; omega))
          exact ⟨s2, hs2, hP2.congr (by intro b u; omega)⟩)
      exact ⟨s1, hs1, hP1.congr (by intro b u; rw [Nat.succ_mul])⟩)
  exact ⟨s, hs, hP⟩

end Flat

/-- value written by `apply` at flat address `b` (row-major: `b = i*ny + j`) -/
def tgtA {T X : Type} (f : X → X → T) (xn yn : Array X) (ny : Nat) : Nat → Nat → Option T :=
  fun b _ => (xn[b / ny]?).bind fun x => (yn[b % ny]?).map fun y => f x y

theorem tgtA_eq {T X : Type} (f : X → X → T) (xn yn : Array X) {ny i j : Nat} (hi : i < xn.size)
    (hj : j < yn.size) (hy : yn.size = ny) (u : Nat) :
    tgtA f xn yn ny (i * ny + j) u = some (f xn[i] yn[j]) := by
  have hj' : j < ny := by omega
  have hc : 0 < ny := by omega
  have e1 : (i * ny + j) / ny = i := by
    rw [Nat.mul_comm, Nat.mul_add_div hc, Nat.div_eq_of_lt hj']; omega
  have e2 : (i * ny + j) % ny = j := by
    rw [Nat.mul_comm, Nat.mul_add_mod, Nat.mod_eq_of_lt hj']
  simp [tgtA, e1, e2, hi, hj]

/-- the two nested loops of `apply` -/
theorem apply_loop {T X : Type} {vs : Array (Array T)} {nx ny nv : Nat} {xn yn : Array X}
    (hx : xn.size = nx) (hy : yn.size = ny) (h : Shaped vs (nx * ny) nv) (f : X → X → T)
    {var : Nat} (hv : var < nv) :
    ∃ vs', Mat.forM' 0 nx vs (fun vs i => do
        let x ← aget xn i
        Mat.forM' 0 ny vs (fun vs j => do
          let y ← aget yn j
          let row ← aget vs (i * ny + j)
          let row ← aset row var (f x y)
          aset vs (i * ny + j) row)) = .ok vs' ∧
      Upd vs vs' (nx * ny) nv (tgtA f xn yn ny) (fun b u => b < nx * ny ∧ u = var) := by
  obtain ⟨s, hs, hP⟩ := Mat.forM'_inv
    (fun i s => Upd vs s (nx * ny) nv (tgtA f xn yn ny) (fun b u => b < i * ny ∧ u = var))
    0 nx vs
    (fun vs i => do
        let x ← aget xn i
        Mat.forM' 0 ny vs (fun vs j => do
          let y ← aget yn j
          let row ← aget vs (i * ny + j)
          let row ← aset row var (f x y)
          aset vs (i * ny + j) row))
    (Nat.zero_le _) (Upd.init h (by intro b u; omega)) (by
      intro i s _ hi hI
      have hi' : i < xn.size := by omega
      obtain ⟨s1, hs1, hP1⟩ := Mat.forM'_inv
        (fun j s => Upd vs s (nx * ny) nv (tgtA f xn yn ny)
          (fun b u => b < i * ny + j ∧ u = var))
        0 ny s
        (fun vs j => do
          let y ← aget yn j
          let row ← aget vs (i * ny + j)
          let row ← aset row var (f xn[i] y)
          aset vs (i * ny + j) row)
        (Nat.zero_le _) (hI.congr (by intro b u; omega)) (by
          intro j s _ hj hJ
          have hj' : j < yn.size := by omega
          have ha : i * ny + j < nx * ny := Mat.idx_lt hi hj
          obtain ⟨s2, hs2, hP2⟩ := hJ.step (C' := fun b u => b < i * ny + (j + 1) ∧ u = var)
            ha hv (tgtA_eq f xn yn hi' hj' hy var) (by intro b u; omega)
          refine ⟨s2, ?_, hP2⟩
          rw [Mat.aget_ok hj']
          exact hs2)
      refine ⟨s1, ?_, hP1.congr (by intro b u; rw [Nat.succ_mul])⟩
      rw [Mat.aget_ok hi']
      exact hs1)
  exact ⟨s, hs, hP⟩

/-- `apply` with a variable index that does not exist: the first write panics -/
theorem apply_loop_err {T X : Type} {vs : Array (Array T)} {nx ny nv : Nat} {xn yn : Array X}
    (hx : xn.size = nx) (hy : yn.size = ny) (h : Shaped vs (nx * ny) nv) (f : X → X → T)
    {var : Nat} (hv : nv ≤ var) (hnx : 0 < nx) (hny : 0 < ny) :
    Mat.forM' 0 nx vs (fun vs i => do
        let x ← aget xn i
        Mat.forM' 0 ny vs (fun vs j => do
          let y ← aget yn j
          let row ← aget vs (i * ny + j)
          let row ← aset row var (f x y)
          aset vs (i * ny + j) row)) = .error .range := by
  apply Mat.forM'_first_error 0 nx _ _ _ hnx
  have hi' : 0 < xn.size := by omega
  have hj' : 0 < yn.size := by omega
  rw [Mat.aget_ok hi']
  show Mat.forM' 0 ny vs _ = _
  apply Mat.forM'_first_error 0 ny _ _ _ hny
  rw [Mat.aget_ok hj']
  exact poke_err h (Mat.idx_lt hnx hny) hv _

/-- … and on a mesh without nodes nothing happens at all -/
theorem apply_loop_noop {T X : Type} {vs : Array (Array T)} {nx ny : Nat} {xn yn : Array X}
    (hx : xn.size = nx) (f : X → X → T) {var : Nat} (h0 : nx = 0 ∨ ny = 0) :
    Mat.forM' 0 nx vs (fun vs i => do
        let x ← aget xn i
        Mat.forM' 0 ny vs (fun vs j => do
          let y ← aget yn j
          let row ← aget vs (i * ny + j)
          let row ← aset row var (f x y)
          aset vs (i * ny + j) row)) = .ok vs := by
  obtain ⟨s, hs, rfl⟩ := Mat.forM'_inv (fun _ s => s = vs) 0 nx vs
    (fun vs i => do
        let x ← aget xn i
        Mat.forM' 0 ny vs (fun vs j => do
          let y ← aget yn j
          let row ← aget vs (i * ny + j)
          let row ← aset row var (f x y)
          aset vs (i * ny + j) row))
    (Nat.zero_le _) rfl (by
      intro i s _ hi hI
      have hi' : i < xn.size := by omega
      have hny : ny = 0 := by omega
      subst hI
      refine ⟨s, ?_, rfl⟩
      rw [Mat.aget_ok hi']
      exact Mat.forM'_empty 0 ny _ _ (by omega))
  exact hs


/-! ## the reference view of a mesh and the access paths -/
section Views
variable {T X : Type} [Zero T]

/-- reference state of a 2-D mesh: (x node, y node, variable) ↦ value -/
abbrev Ref2 (T : Type) := Nat → Nat → Nat → Option T
/-- reference state of a 1-D mesh: (node, variable) ↦ value -/
abbrev Ref1 (T : Type) := Nat → Nat → Option T

/-- abstraction: what `get_nodes_vars(i, j)[w]` returns (`none` when the call or the index panics) -/
def abs2 (m : Mesh2 T X) : Ref2 T := fun i j w =>
  match Mesh2.getNodesVars m i j with
  | .ok row => row[w]?
  | .error _ => none

def abs1 (m : Mesh1 T X) : Ref1 T := fun k w =>
  match Mesh1.getNodesVars m k with
  | .ok row => row[w]?
  | .error _ => none

/-- every stored node vector of the 1-D mesh has `nvars` entries (any element type) -/
def RowSized1 (m : Mesh1 T X) : Prop := ∀ k (hk : k < m.vars.size), m.vars[k].size = m.nvars

theorem new_rowSized1 (nodes : Array X) (nvars : Nat) :
    RowSized1 (Mesh1.new nodes nvars : Mesh1 T X) := by
  intro k hk; simp [Mesh1.new]

theorem shaped2 {m : Mesh2 T X} (h : WF2 m) (hs : Sized2 m) :
    Shaped m.vars (m.nx * m.ny) m.nvars := ⟨h.1, hs⟩

theorem shaped1 {m : Mesh1 T X} (h : WF1 m) (hs : RowSized1 m) :
    Shaped m.vars m.nodes.size m.nvars := ⟨h, hs⟩

theorem abs2_eq {m : Mesh2 T X} (h : WF2 m) (i j w : Nat) :
    abs2 m i j w = if i < m.nx ∧ j < m.ny then ent m.vars (i * m.ny + j) w else none := by
  by_cases hg : i < m.nx ∧ j < m.ny
  · obtain ⟨hlt, hget⟩ := get_ok2 m h hg.1 hg.2
    simp only [abs2, hget, if_pos hg, ent_eq hlt]
  · obtain ⟨e, he⟩ := get_rejects2 m i j (by omega)
    simp only [abs2, he, if_neg hg]

theorem abs1_eq {m : Mesh1 T X} (h : WF1 m) (k w : Nat) :
    abs1 m k w = if k < m.nodes.size then ent m.vars k w else none := by
  by_cases hg : k < m.nodes.size
  · have hlt : k < m.vars.size := by rw [h]; exact hg
    have hn : ¬ k ≥ m.nodes.size := by omega
    simp only [abs1, Mesh1.getNodesVars, hn, if_false, Mat.aget_ok hlt, if_pos hg, ent_eq hlt]
  · have hn : k ≥ m.nodes.size := by omega
    simp only [abs1, Mesh1.getNodesVars, hn, if_true, if_neg hg]

/-- outside the grid, and beyond the last variable, the reference view is undefined -/
theorem abs2_none {m : Mesh2 T X} (h : WF2 m) (hs : Sized2 m) {i j w : Nat}
    (ho : m.nx ≤ i ∨ m.ny ≤ j ∨ m.nvars ≤ w) : abs2 m i j w = none := by
  rw [abs2_eq h]
  by_cases hg : i < m.nx ∧ j < m.ny
  · rw [if_pos hg]
    exact ent_none (shaped2 h hs) (Or.inr (by omega))
  · rw [if_neg hg]

/-- inside it is defined, and is the stored entry -/
theorem abs2_val2 {m : Mesh2 T X} (h : WF2 m) (hs : Sized2 m) {i j w : Nat} (hi : i < m.nx)
    (hj : j < m.ny) (hw : w < m.nvars) : abs2 m i j w = some (val2 m i j w) := by
  obtain ⟨h1, h2, e⟩ := val2_eq m h hs hi hj hw
  rw [abs2_eq h, if_pos ⟨hi, hj⟩, ent_eq h1, e]
  simp [h2]

/-- **`get_nodes_vars` and raw indexing** return the same vector, of length `nvars`, whose
    entries are the reference values -/
theorem view_get2 (m : Mesh2 T X) (h : WF2 m) (hs : Sized2 m) {i j : Nat} (hi : i < m.nx)
    (hj : j < m.ny) :
    ∃ row, Mesh2.getNodesVars m i j = .ok row ∧ Mesh2.index m i j = .ok row ∧
      row.size = m.nvars ∧ ∀ w, row[w]? = abs2 m i j w := by
  obtain ⟨hlt, hget⟩ := get_ok2 m h hi hj
  refine ⟨_, hget, Mat.aget_ok hlt, hs _ hlt, fun w => ?_⟩
  simp only [abs2, hget]

/-- **cross section at x node `i`, then 1-D reads**: the same reference values -/
theorem view_crossX (m : Mesh2 T X) (h : WF2 m) (hs : Sized2 m) {i : Nat} (hi : i < m.nx) :
    ∃ s, Mesh2.crossSectionX m i = .ok s ∧ WF1 s ∧ RowSized1 s ∧ s.nvars = m.nvars ∧
      s.nodes = m.ynodes ∧
      ∀ j, j < m.ny → Mesh1.getNodesVars s j = Mesh2.getNodesVars m i j ∧
        Mesh1.index s j = Mesh2.getNodesVars m i j ∧ ∀ w, abs1 s j w = abs2 m i j w := by
  obtain ⟨s, h1, h2, h3, h4, h5⟩ := crossSectionX_spec m h hs hi
  have hsz : s.vars.size = m.ny := by rw [h2, h4, h.2.2]
  refine ⟨s, h1, h2, ?_, h3, h4, fun j hj => ?_⟩
  · intro k hk
    have hk' : k < m.ny := by omega
    have hlt : i * m.ny + k < m.vars.size := by rw [h.1]; exact Mat.idx_lt hi hk'
    have e := (h5 k hk').1
    rw [Array.getElem?_eq_getElem hk, Array.getElem?_eq_getElem hlt] at e
    rw [Option.some.inj e, h3]
    exact hs _ hlt
  · have hn : ¬ j ≥ s.nodes.size := by rw [h4, h.2.2]; omega
    have e := (h5 j hj).2
    refine ⟨e, ?_, fun w => ?_⟩
    · rw [← e]; simp only [Mesh1.index, Mesh1.getNodesVars, hn, if_false]
    · simp only [abs1, abs2, e]

/-- **cross section at y node `j`, then 1-D reads**: the same reference values -/
theorem view_crossY (m : Mesh2 T X) (h : WF2 m) (hs : Sized2 m) {j : Nat} (hj : j < m.ny) :
    ∃ s, Mesh2.crossSectionY m j = .ok s ∧ WF1 s ∧ RowSized1 s ∧ s.nvars = m.nvars ∧
      s.nodes = m.xnodes ∧
      ∀ i, i < m.nx → Mesh1.getNodesVars s i = Mesh2.getNodesVars m i j ∧
        Mesh1.index s i = Mesh2.getNodesVars m i j ∧ ∀ w, abs1 s i w = abs2 m i j w := by
  obtain ⟨s, h1, h2, h3, h4, h5⟩ := crossSectionY_spec m h hs hj
  have hsz : s.vars.size = m.nx := by rw [h2, h4, h.2.1]
  refine ⟨s, h1, h2, ?_, h3, h4, fun i hi => ?_⟩
  · intro k hk
    have hk' : k < m.nx := by omega
    have hlt : k * m.ny + j < m.vars.size := by rw [h.1]; exact Mat.idx_lt hk' hj
    have e := (h5 k hk').1
    rw [Array.getElem?_eq_getElem hk, Array.getElem?_eq_getElem hlt] at e
    rw [Option.some.inj e, h3]
    exact hs _ hlt
  · have hn : ¬ i ≥ s.nodes.size := by rw [h4, h.2.1]; omega
    have e := (h5 i hi).2
    refine ⟨e, ?_, fun w => ?_⟩
    · rw [← e]; simp only [Mesh1.index, Mesh1.getNodesVars, hn, if_false]
    · simp only [abs1, abs2, e]

/-- **`var_as_matrix`**: an `nx × ny` matrix whose entries are the reference values -/
theorem view_matrix (m : Mesh2 T X) (h : WF2 m) (hs : Sized2 m) {var : Nat} (hv : var < m.nvars) :
    ∃ M, Mesh2.varAsMatrix m var = .ok M ∧ M.WF ∧ M.rows = m.nx ∧ M.cols = m.ny ∧
      ∀ i j, i < m.nx → j < m.ny → ∃ x, M.get i j = .ok x ∧ abs2 m i j var = some x := by
  obtain ⟨M, hM, hI⟩ := varAsMatrix_spec m h hs hv
  exact ⟨M, hM, hI.wf, hI.rows, hI.cols, fun i j hi hj =>
    ⟨_, hI.entry i j hi hj, abs2_val2 h hs hi hj hv⟩⟩

end Views

/-! ## single operations -/
section Ops
variable {T X : Type} [Zero T]

theorem with_vars2 {m : Mesh2 T X} (h : WF2 m) {vs' : Array (Array T)}
    (hS : Shaped vs' (m.nx * m.ny) m.nvars) :
    WF2 { m with vars := vs' } ∧ Sized2 { m with vars := vs' } :=
  ⟨⟨hS.1, h.2.1, h.2.2⟩, hS.2⟩

/-- monad associativity for the "write one entry" block followed by a continuation -/
theorem poke_bind {β : Type} (vs : Array (Array T)) (a w : Nat) (x : T)
    (k : Array (Array T) → Res β) :
    (do let row ← aget vs a; let row ← aset row w x; let s ← aset vs a row; k s) =
    (do let s ← (do let row ← aget vs a; let row ← aset row w x; aset vs a row); k s) := by
  cases h1 : aget vs a with
  | error e => rfl
  | ok row =>
    cases h2 : aset row w x with
    | error e => simp only [bind, Except.bind, h2]
    | ok row' => simp only [bind, Except.bind, h2]

/-! ### `set_nodes_vars` in reference form -/

theorem setNodesVars_abs2 (m : Mesh2 T X) (h : WF2 m) (hs : Sized2 m) {i j : Nat} {v : Array T}
    (hi : i < m.nx) (hj : j < m.ny) (hv : v.size = m.nvars) :
    ∃ m', Mesh2.setNodesVars m i j v = .ok m' ∧ WF2 m' ∧ Sized2 m' ∧ m'.nx = m.nx ∧ m'.ny = m.ny ∧
      m'.nvars = m.nvars ∧ m'.xnodes = m.xnodes ∧ m'.ynodes = m.ynodes ∧
      ∀ a b w, abs2 m' a b w = if a = i ∧ b = j then v[w]? else abs2 m a b w := by
  have ha : i * m.ny + j < m.nx * m.ny := Mat.idx_lt hi hj
  obtain ⟨vs', h1, h2, h3⟩ := put_ok (shaped2 h hs) ha hv
  have hw := with_vars2 h h2
  have hv' : ¬ v.size ≠ m.nvars := by omega
  refine ⟨{ m with vars := vs' }, ?_, hw.1, hw.2, rfl, rfl, rfl, rfl, rfl, fun a b w => ?_⟩
  · simp only [Mesh2.setNodesVars, guard_ok m hi hj, hv', h1, bind, Except.bind, pure,
      Except.pure, if_false]
  · rw [abs2_eq hw.1, abs2_eq h]
    show (if a < m.nx ∧ b < m.ny then ent vs' (a * m.ny + b) w else none) = _
    by_cases hg : a < m.nx ∧ b < m.ny
    · rw [if_pos hg, if_pos hg, h3]
      by_cases e : a = i ∧ b = j
      · rw [if_pos e, if_pos (by rw [e.1, e.2])]
      · rw [if_neg e, if_neg]
        intro q
        exact e (Mat.idx_inj hg.2 hj q)
    · rw [if_neg hg, if_neg hg]
      have e : ¬ (a = i ∧ b = j) := by omega
      rw [if_neg e]

theorem setNodesVars_abs1 (m : Mesh1 T X) (h : WF1 m) (hs : RowSized1 m) {node : Nat}
    {v : Array T} (hn : node < m.nodes.size) (hv : v.size = m.nvars) :
    ∃ m', Mesh1.setNodesVars m node v = .ok m' ∧ WF1 m' ∧ RowSized1 m' ∧ m'.nodes = m.nodes ∧
      m'.nvars = m.nvars ∧
      ∀ k w, abs1 m' k w = if k = node then v[w]? else abs1 m k w := by
  obtain ⟨vs', h1, h2, h3⟩ := put_ok (shaped1 h hs) hn hv
  have hn' : ¬ node ≥ m.nodes.size := by omega
  have hv' : ¬ v.size ≠ m.nvars := by omega
  have hwf : WF1 ({ m with vars := vs' } : Mesh1 T X) := h2.1
  refine ⟨{ m with vars := vs' }, ?_, hwf, h2.2, rfl, rfl, fun k w => ?_⟩
  · simp only [Mesh1.setNodesVars, hn', hv', h1, bind, Except.bind, pure, Except.pure, if_false]
  · rw [abs1_eq hwf, abs1_eq h]
    show (if k < m.nodes.size then ent vs' k w else none) = _
    by_cases hg : k < m.nodes.size
    · rw [if_pos hg, if_pos hg, h3]
    · rw [if_neg hg, if_neg hg]
      have e : ¬ k = node := by omega
      rw [if_neg e]

/-! ### `mesh[(i, j)][var] = x` and `mesh[node][var] = x` -/

/-- **raw `mesh[(i,j)][var] = x`**, exactly as the code does it: only the flat offset `i*ny + j`
    is checked, so the write lands on the grid node with that offset (which is `(i, j)` itself
    when `j < ny`, see `setVar_spec2`); one variable of one node changes, nothing else -/
theorem setVar_spec2_raw (m : Mesh2 T X) (h : WF2 m) (hs : Sized2 m) {i j var : Nat}
    (ha : i * m.ny + j < m.nx * m.ny) (hv : var < m.nvars) (x : T) :
    ∃ m', Mesh2.setVar m i j var x = .ok m' ∧ WF2 m' ∧ Sized2 m' ∧ m'.nx = m.nx ∧ m'.ny = m.ny ∧
      m'.nvars = m.nvars ∧ m'.xnodes = m.xnodes ∧ m'.ynodes = m.ynodes ∧
      ∀ a b w, abs2 m' a b w =
        if a < m.nx ∧ b < m.ny ∧ a * m.ny + b = i * m.ny + j ∧ w = var then some x
        else abs2 m a b w := by
  obtain ⟨vs', h1, h2, h3⟩ := poke_ok (shaped2 h hs) ha hv x
  have hw := with_vars2 h h2
  refine ⟨{ m with vars := vs' }, ?_, hw.1, hw.2, rfl, rfl, rfl, rfl, rfl, fun a b w => ?_⟩
  · unfold Mesh2.setVar
    rw [poke_bind, h1]; rfl
  · rw [abs2_eq hw.1, abs2_eq h]
    show (if a < m.nx ∧ b < m.ny then ent vs' (a * m.ny + b) w else none) = _
    by_cases hg : a < m.nx ∧ b < m.ny
    · rw [if_pos hg, if_pos hg, h3]
      exact if_congr (by constructor <;> intro q <;> simp_all) rfl rfl
    · rw [if_neg hg, if_neg hg, if_neg (fun q => hg ⟨q.1, q.2.1⟩)]

/-- **`mesh[(i,j)][var] = x` at a grid node**: variable `var` at node `(i, j)` becomes `x`,
    every other variable at every node is unchanged -/
theorem setVar_spec2 (m : Mesh2 T X) (h : WF2 m) (hs : Sized2 m) {i j var : Nat}
    (hi : i < m.nx) (hj : j < m.ny) (hv : var < m.nvars) (x : T) :
    ∃ m', Mesh2.setVar m i j var x = .ok m' ∧ WF2 m' ∧ Sized2 m' ∧ m'.nx = m.nx ∧ m'.ny = m.ny ∧
      m'.nvars = m.nvars ∧ m'.xnodes = m.xnodes ∧ m'.ynodes = m.ynodes ∧
      ∀ a b w, abs2 m' a b w = if a = i ∧ b = j ∧ w = var then some x else abs2 m a b w := by
  obtain ⟨m', h1, h2, h3, h4, h5, h6, h7, h8, h9⟩ :=
    setVar_spec2_raw m h hs (Mat.idx_lt hi hj) hv x
  refine ⟨m', h1, h2, h3, h4, h5, h6, h7, h8, fun a b w => ?_⟩
  rw [h9]
  refine if_congr ⟨fun q => ?_, fun q => ?_⟩ rfl rfl
  · have := Mat.idx_inj q.2.1 hj q.2.2.1
    exact ⟨this.1, this.2, q.2.2.2⟩
  · obtain ⟨rfl, rfl, rfl⟩ := q
    exact ⟨hi, hj, rfl, rfl⟩

/-- an offset outside the storage or a variable that does not exist is an index panic -/
theorem setVar_rejects2 (m : Mesh2 T X) (h : WF2 m) (hs : Sized2 m) {i j var : Nat} (x : T)
    (ho : m.nx * m.ny ≤ i * m.ny + j ∨ m.nvars ≤ var) :
    Mesh2.setVar m i j var x = .error .range := by
  unfold Mesh2.setVar
  rw [poke_bind]
  by_cases ha : i * m.ny + j < m.nx * m.ny
  · rw [poke_err (shaped2 h hs) ha (by omega)]; rfl
  · rw [poke_err_addr (by rw [h.1]; omega)]; rfl

theorem setVar_spec1 (m : Mesh1 T X) (h : WF1 m) (hs : RowSized1 m) {node var : Nat}
    (hn : node < m.nodes.size) (hv : var < m.nvars) (x : T) :
    ∃ m', Mesh1.setVar m node var x = .ok m' ∧ WF1 m' ∧ RowSized1 m' ∧ m'.nodes = m.nodes ∧
      m'.nvars = m.nvars ∧
      ∀ k w, abs1 m' k w = if k = node ∧ w = var then some x else abs1 m k w := by
  obtain ⟨vs', h1, h2, h3⟩ := poke_ok (shaped1 h hs) hn hv x
  have hwf : WF1 ({ m with vars := vs' } : Mesh1 T X) := h2.1
  refine ⟨{ m with vars := vs' }, ?_, hwf, h2.2, rfl, rfl, fun k w => ?_⟩
  · unfold Mesh1.setVar
    rw [poke_bind, h1]; rfl
  · rw [abs1_eq hwf, abs1_eq h]
    show (if k < m.nodes.size then ent vs' k w else none) = _
    by_cases hg : k < m.nodes.size
    · rw [if_pos hg, if_pos hg, h3]
    · rw [if_neg hg, if_neg hg, if_neg (by omega)]

theorem setVar_rejects1 (m : Mesh1 T X) (h : WF1 m) (hs : RowSized1 m) {node var : Nat} (x : T)
    (ho : m.nodes.size ≤ node ∨ m.nvars ≤ var) :
    Mesh1.setVar m node var x = .error .range := by
  unfold Mesh1.setVar
  rw [poke_bind]
  by_cases ha : node < m.nodes.size
  · rw [poke_err (shaped1 h hs) ha (by omega)]; rfl
  · rw [poke_err_addr (by rw [h]; omega)]; rfl

/-! ### `assign` -/

/-- `assign(x)` in reference form: every variable at every grid node reads `x` -/
theorem assign_abs (m : Mesh2 T X) (h : WF2 m) (hs : Sized2 m) (x : T) :
    ∃ m', Mesh2.assign m x = .ok m' ∧ WF2 m' ∧ Sized2 m' ∧ m'.nx = m.nx ∧ m'.ny = m.ny ∧
      m'.nvars = m.nvars ∧ m'.xnodes = m.xnodes ∧ m'.ynodes = m.ynodes ∧
      ∀ i j w, abs2 m' i j w = if i < m.nx ∧ j < m.ny ∧ w < m.nvars then some x else none := by
  obtain ⟨vs', h1, h2, h3⟩ := assign_loop (shaped2 h hs) x
  have hw := with_vars2 h h2
  refine ⟨{ m with vars := vs' }, ?_, hw.1, hw.2, rfl, rfl, rfl, rfl, rfl, fun i j w => ?_⟩
  · unfold Mesh2.assign
    rw [h1]; rfl
  · rw [abs2_eq hw.1]
    show (if i < m.nx ∧ j < m.ny then ent vs' (i * m.ny + j) w else none) = _
    by_cases hg : i < m.nx ∧ j < m.ny
    · rw [if_pos hg]
      by_cases hv : w < m.nvars
      · rw [if_pos ⟨hg.1, hg.2, hv⟩]
        exact (h3 _ _).1 ⟨Mat.idx_lt hg.1 hg.2, hv⟩
      · rw [if_neg (fun q => hv q.2.2)]
        exact ent_none h2 (Or.inr (by omega))
    · rw [if_neg hg, if_neg (fun q => hg ⟨q.1, q.2.1⟩)]

/-- **`assign(x)`**: the call always succeeds, keeps the grid and the invariants, and afterwards
    every access path returns `x` for every variable at every node -/
theorem assign_spec (m : Mesh2 T X) (h : WF2 m) (hs : Sized2 m) (x : T) :
    ∃ m', Mesh2.assign m x = .ok m' ∧ WF2 m' ∧ Sized2 m' ∧ m'.nx = m.nx ∧ m'.ny = m.ny ∧
      m'.nvars = m.nvars ∧ m'.xnodes = m.xnodes ∧ m'.ynodes = m.ynodes ∧
      (∀ i j, i < m.nx → j < m.ny →
        Mesh2.getNodesVars m' i j = .ok (Array.replicate m.nvars x) ∧
        Mesh2.index m' i j = .ok (Array.replicate m.nvars x)) ∧
      (∀ i j w, i < m.nx → j < m.ny → w < m.nvars → val2 m' i j w = x) ∧
      (∀ var, var < m.nvars →
        ∃ M, Mesh2.varAsMatrix m' var = .ok M ∧ Mat.Is M m.nx m.ny (fun _ _ => x)) ∧
      (∀ i, i < m.nx → ∃ s, Mesh2.crossSectionX m' i = .ok s ∧ s.nodes = m.ynodes ∧
        ∀ j, j < m.ny → Mesh1.getNodesVars s j = .ok (Array.replicate m.nvars x) ∧
          Mesh1.index s j = .ok (Array.replicate m.nvars x)) ∧
      (∀ j, j < m.ny → ∃ s, Mesh2.crossSectionY m' j = .ok s ∧ s.nodes = m.xnodes ∧
        ∀ i, i < m.nx → Mesh1.getNodesVars s i = .ok (Array.replicate m.nvars x) ∧
          Mesh1.index s i = .ok (Array.replicate m.nvars x)) := by
  obtain ⟨m', h1, h2, h3, h4, h5, h6, h7, h8, h9⟩ := assign_abs m h hs x
  have hget : ∀ i j, i < m.nx → j < m.ny →
      Mesh2.getNodesVars m' i j = .ok (Array.replicate m.nvars x) ∧
      Mesh2.index m' i j = .ok (Array.replicate m.nvars x) := by
    intro i j hi hj
    obtain ⟨row, r1, r2, r3, r4⟩ := view_get2 m' h2 h3 (i := i) (j := j) (by omega) (by omega)
    have : row = Array.replicate m.nvars x := by
      apply row_ext
      intro w
      rw [r4, h9, Array.getElem?_replicate]
      exact if_congr ⟨fun q => q.2.2, fun q => ⟨hi, hj, q⟩⟩ rfl rfl
    rw [← this]; exact ⟨r1, r2⟩
  have hval : ∀ i j w, i < m.nx → j < m.ny → w < m.nvars → val2 m' i j w = x := by
    intro i j w hi hj hw
    have e := abs2_val2 h2 h3 (i := i) (j := j) (w := w) (by omega) (by omega) (by omega)
    rw [h9, if_pos ⟨hi, hj, hw⟩] at e
    exact (Option.some.inj e).symm
  refine ⟨m', h1, h2, h3, h4, h5, h6, h7, h8, hget, hval, ?_, ?_, ?_⟩
  · intro var hv
    obtain ⟨M, hM, hI⟩ := varAsMatrix_spec m' h2 h3 (var := var) (by omega)
    rw [h4, h5] at hI
    exact ⟨M, hM, hI.wf, hI.rows, hI.cols, fun i j hi hj => by
      rw [hI.entry i j hi hj, hval i j var hi hj hv]⟩
  · intro i hi
    obtain ⟨s, s1, _, _, _, s5, s6⟩ := view_crossX m' h2 h3 (i := i) (by omega)
    refine ⟨s, s1, by rw [s5, h8], fun j hj => ?_⟩
    obtain ⟨e1, e2, _⟩ := s6 j (by omega)
    rw [e1, e2]
    exact ⟨(hget i j hi hj).1, (hget i j hi hj).1⟩
  · intro j hj
    obtain ⟨s, s1, _, _, _, s5, s6⟩ := view_crossY m' h2 h3 (j := j) (by omega)
    refine ⟨s, s1, by rw [s5, h7], fun i hi => ?_⟩
    obtain ⟨e1, e2, _⟩ := s6 i (by omega)
    rw [e1, e2]
    exact ⟨(hget i j hi hj).1, (hget i j hi hj).1⟩

/-! ### `apply` -/

/-- `apply(f, var)` in reference form -/
theorem apply_abs (m : Mesh2 T X) (h : WF2 m) (hs : Sized2 m) (f : X → X → T) {var : Nat}
    (hv : var < m.nvars) :
    ∃ m', Mesh2.apply m f var = .ok m' ∧ WF2 m' ∧ Sized2 m' ∧ m'.nx = m.nx ∧ m'.ny = m.ny ∧
      m'.nvars = m.nvars ∧ m'.xnodes = m.xnodes ∧ m'.ynodes = m.ynodes ∧
      ∀ i j w, abs2 m' i j w =
        if hh : i < m.xnodes.size ∧ j < m.ynodes.size ∧ w = var
        then some (f m.xnodes[i] m.ynodes[j]) else abs2 m i j w := by
  obtain ⟨vs', h1, h2, h3⟩ := apply_loop h.2.1 h.2.2 (shaped2 h hs) f hv
  have hw := with_vars2 h h2
  refine ⟨{ m with vars := vs' }, ?_, hw.1, hw.2, rfl, rfl, rfl, rfl, rfl, fun i j w => ?_⟩
  · unfold Mesh2.apply
    rw [h1]; rfl
  · rw [abs2_eq hw.1, abs2_eq h]
    show (if i < m.nx ∧ j < m.ny then ent vs' (i * m.ny + j) w else none) = _
    by_cases hg : i < m.nx ∧ j < m.ny
    · have hi : i < m.xnodes.size := by rw [h.2.1]; exact hg.1
      have hj : j < m.ynodes.size := by rw [h.2.2]; exact hg.2
      rw [if_pos hg, if_pos hg]
      by_cases e : w = var
      · rw [dif_pos ⟨hi, hj, e⟩, (h3 _ _).1 ⟨Mat.idx_lt hg.1 hg.2, e⟩]
        exact tgtA_eq f m.xnodes m.ynodes hi hj h.2.2 w
      · rw [dif_neg (fun q => e q.2.2)]
        exact (h3 _ _).2 (fun q => e q.2)
    · rw [if_neg hg, if_neg hg, dif_neg]
      intro q
      exact hg ⟨by rw [← h.2.1]; exact q.1, by rw [← h.2.2]; exact q.2.1⟩

/-- **`apply(f, var)`** for an existing variable: variable `var` at node `(i, j)` becomes
    `f x_i y_j` with `(x_i, y_j) = coord(i, j)`; every other variable at every node is unchanged;
    grid, shape and invariants are kept -/
theorem apply_spec (m : Mesh2 T X) (h : WF2 m) (hs : Sized2 m) (f : X → X → T) {var : Nat}
    (hv : var < m.nvars) :
    ∃ m', Mesh2.apply m f var = .ok m' ∧ WF2 m' ∧ Sized2 m' ∧ m'.nx = m.nx ∧ m'.ny = m.ny ∧
      m'.nvars = m.nvars ∧ m'.xnodes = m.xnodes ∧ m'.ynodes = m.ynodes ∧
      (∀ i j, i < m.nx → j < m.ny → ∃ x y, Mesh2.coord m i j = .ok (x, y) ∧
        abs2 m' i j var = some (f x y) ∧ val2 m' i j var = f x y) ∧
      (∀ i j w, w ≠ var → abs2 m' i j w = abs2 m i j w) ∧
      (∀ i j w, i < m.nx → j < m.ny → w < m.nvars → w ≠ var → val2 m' i j w = val2 m i j w) := by
  obtain ⟨m', h1, h2, h3, h4, h5, h6, h7, h8, h9⟩ := apply_abs m h hs f hv
  refine ⟨m', h1, h2, h3, h4, h5, h6, h7, h8, ?_, ?_, ?_⟩
  · intro i j hi hj
    have hi' : i < m.xnodes.size := by rw [h.2.1]; exact hi
    have hj' : j < m.ynodes.size := by rw [h.2.2]; exact hj
    have e : abs2 m' i j var = some (f m.xnodes[i] m.ynodes[j]) := by
      rw [h9, dif_pos ⟨hi', hj', rfl⟩]
    refine ⟨m.xnodes[i], m.ynodes[j], ?_, e, ?_⟩
    · simp only [Mesh2.coord, Mat.aget_ok hi', Mat.aget_ok hj', bind, Except.bind, pure,
        Except.pure]
    · have e2 := abs2_val2 h2 h3 (i := i) (j := j) (w := var) (by omega) (by omega) (by omega)
      rw [e] at e2
      exact (Option.some.inj e2).symm
  · intro i j w hw
    rw [h9, dif_neg (fun q => hw q.2.2)]
  · intro i j w hi hj hw hne
    have e1 := abs2_val2 h2 h3 (i := i) (j := j) (w := w) (by omega) (by omega) (by omega)
    have e2 := abs2_val2 h hs hi hj hw
    rw [h9, dif_neg (fun q => hne q.2.2), e2] at e1
    exact (Option.some.inj e1).symm

/-- **`apply(f, var)` for a variable that does not exist**: the very first write
    `vars[0][var] = …` is an index panic — unless the mesh has no node at all (an empty x or y
    direction), in which case the loops do not run and the call silently returns the mesh
    unchanged -/
theorem apply_rejects (m : Mesh2 T X) (h : WF2 m) (hs : Sized2 m) (f : X → X → T) {var : Nat}
    (hv : m.nvars ≤ var) :
    Mesh2.apply m f var = if 0 < m.nx ∧ 0 < m.ny then .error .range else .ok m := by
  unfold Mesh2.apply
  by_cases h0 : 0 < m.nx ∧ 0 < m.ny
  · rw [if_pos h0, apply_loop_err h.2.1 h.2.2 (shaped2 h hs) f hv h0.1 h0.2]; rfl
  · rw [if_neg h0, apply_loop_noop h.2.1 f (by omega)]; rfl

end Ops

/-! ## histories of node writes on the 2-D mesh -/
section Histories2
variable {T X : Type} [Zero T]

/-- the arguments of `Mesh2D::new`: they fix the grid and the number of variables for the whole
    life of the mesh -/
structure Grid (X : Type) where
  xn : Array X
  yn : Array X
  nvars : Nat

/-- the freshly constructed mesh -/
def Grid.mesh (g : Grid X) : Mesh2 T X := Mesh2.new g.xn g.yn g.nvars

/-- representation invariant of a mesh built over the grid `g` -/
def Inv2 (g : Grid X) (m : Mesh2 T X) : Prop :=
  WF2 m ∧ Sized2 m ∧ m.xnodes = g.xn ∧ m.ynodes = g.yn ∧ m.nvars = g.nvars

/-- the write operations of `Mesh2D` -/
inductive Op2 (T X : Type) where
  /-- `mesh.set_nodes_vars(i, j, v)` -/
  | setNodesVars (i j : Nat) (v : Array T)
  /-- `mesh[(i, j)][var] = x` -/
  | setVar (i j var : Nat) (x : T)
  /-- `mesh.assign(x)` -/
  | assign (x : T)
  /-- `mesh.apply(&f, var)` -/
  | apply (f : X → X → T) (var : Nat)

/-- concrete step: the MODEL functions -/
def Op2.run : Op2 T X → Mesh2 T X → Res (Mesh2 T X)
  | .setNodesVars i j v, m => Mesh2.setNodesVars m i j v
  | .setVar i j var x, m => Mesh2.setVar m i j var x
  | .assign x, m => Mesh2.assign m x
  | .apply f var, m => Mesh2.apply m f var

/-- reference step on `(node, node, variable) ↦ value` maps; `none` = the call panics.
    * `set_nodes_vars` needs a grid node and a vector of `nvars` entries;
    * the raw `mesh[(i,j)][var] = x` needs the flat offset `i*ny + j` inside the storage and an
      existing variable, and writes the node with that offset (`(i, j)` itself when `j < ny`);
    * `assign` never panics;
    * `apply` on a variable that does not exist panics iff the mesh has at least one node. -/
def Op2.ref (g : Grid X) : Op2 T X → Ref2 T → Option (Ref2 T)
  | .setNodesVars i j v, r =>
      if i < g.xn.size ∧ j < g.yn.size ∧ v.size = g.nvars then
        some (fun a b w => if a = i ∧ b = j then v[w]? else r a b w)
      else none
  | .setVar i j var x, r =>
      if i * g.yn.size + j < g.xn.size * g.yn.size ∧ var < g.nvars then
        some (fun a b w =>
          if a < g.xn.size ∧ b < g.yn.size ∧ a * g.yn.size + b = i * g.yn.size + j ∧ w = var
          then some x else r a b w)
      else none
  | .assign x, r =>
      some (fun a b w => if a < g.xn.size ∧ b < g.yn.size ∧ w < g.nvars then some x else r a b w)
  | .apply f var, r =>
      if var < g.nvars then
        some (fun a b w =>
          if hh : a < g.xn.size ∧ b < g.yn.size ∧ w = var then some (f g.xn[a] g.yn[b])
          else r a b w)
      else if 0 < g.xn.size ∧ 0 < g.yn.size then none else some r

/-- for a grid node the raw write of `Op2.ref` is the write of variable `var` at node `(i, j)` -/
theorem Op2.ref_setVar_grid (g : Grid X) {i j var : Nat} (x : T) (r : Ref2 T)
    (hi : i < g.xn.size) (hj : j < g.yn.size) (hv : var < g.nvars) :
    (Op2.setVar i j var x : Op2 T X).ref g r =
      some (fun a b w => if a = i ∧ b = j ∧ w = var then some x else r a b w) := by
  simp only [Op2.ref]
  rw [if_pos ⟨Mat.idx_lt hi hj, hv⟩]
  congr 1
  funext a b w
  refine if_congr ⟨fun q => ?_, fun q => ?_⟩ rfl rfl
  · have := Mat.idx_inj q.2.1 hj q.2.2.1
    exact ⟨this.1, this.2, q.2.2.2⟩
  · obtain ⟨rfl, rfl, rfl⟩ := q
    exact ⟨hi, hj, rfl, rfl⟩

/-- "the concrete result refines the reference result": both succeed, the new mesh satisfies the
    invariant and its reference view is the reference state — or both panic -/
def Refines2 (g : Grid X) (c : Res (Mesh2 T X)) : Option (Ref2 T) → Prop
  | some r' => ∃ m', c = .ok m' ∧ Inv2 g m' ∧ abs2 m' = r'
  | none => ∃ e, c = .error e

theorem Inv2.nx {g : Grid X} {m : Mesh2 T X} (h : Inv2 g m) : g.xn.size = m.nx := by
  rw [← h.2.2.1]; exact h.1.2.1
theorem Inv2.ny {g : Grid X} {m : Mesh2 T X} (h : Inv2 g m) : g.yn.size = m.ny := by
  rw [← h.2.2.2.1]; exact h.1.2.2
theorem Inv2.nv {g : Grid X} {m : Mesh2 T X} (h : Inv2 g m) : g.nvars = m.nvars :=
  h.2.2.2.2.symm

theorem Inv2.of_same {g : Grid X} {m m' : Mesh2 T X} (h : Inv2 g m) (h2 : WF2 m') (h3 : Sized2 m')
    (h6 : m'.nvars = m.nvars) (h7 : m'.xnodes = m.xnodes) (h8 : m'.ynodes = m.ynodes) :
    Inv2 g m' :=
  ⟨h2, h3, h7.trans h.2.2.1, h8.trans h.2.2.2.1, h6.trans h.2.2.2.2⟩

/-- **one step refines the reference step**: the model call succeeds iff the reference step is
    defined; on success the invariant is kept and the reference view of the new mesh is the
    reference step applied to the reference view of the old one -/
theorem step_refines2 (g : Grid X) (op : Op2 T X) {m : Mesh2 T X} (h : Inv2 g m) :
    Refines2 g (op.run m) (op.ref g (abs2 m)) := by
  have hnx := h.nx
  have hny := h.ny
  have hnv := h.nv
  cases op with
  | setNodesVars i j v =>
    simp only [Op2.ref, Op2.run]
    by_cases hc : i < g.xn.size ∧ j < g.yn.size ∧ v.size = g.nvars
    · rw [if_pos hc]
      obtain ⟨m', h1, h2, h3, h4, h5, h6, h7, h8, h9⟩ := setNodesVars_abs2 m h.1 h.2.1
        (i := i) (j := j) (v := v) (by omega) (by omega) (by omega)
      exact ⟨m', h1, h.of_same h2 h3 h6 h7 h8, by funext a b w; exact h9 a b w⟩
    · rw [if_neg hc]
      exact set_rejects2 m i j v (by omega)
  | setVar i j var x =>
    simp only [Op2.ref, Op2.run]
    by_cases hc : i * g.yn.size + j < g.xn.size * g.yn.size ∧ var < g.nvars
    · rw [if_pos hc]
      rw [hnx, hny, hnv] at hc
      obtain ⟨m', h1, h2, h3, h4, h5, h6, h7, h8, h9⟩ := setVar_spec2_raw m h.1 h.2.1 hc.1 hc.2 x
      refine ⟨m', h1, h.of_same h2 h3 h6 h7 h8, ?_⟩
      funext a b w
      rw [h9, hnx, hny]
    · rw [if_neg hc]
      rw [hnx, hny, hnv] at hc
      exact ⟨_, setVar_rejects2 m h.1 h.2.1 x (by omega)⟩
  | assign x =>
    simp only [Op2.ref, Op2.run]
    obtain ⟨m', h1, h2, h3, h4, h5, h6, h7, h8, h9⟩ := assign_abs m h.1 h.2.1 x
    refine ⟨m', h1, h.of_same h2 h3 h6 h7 h8, ?_⟩
    funext a b w
    rw [h9, hnx, hny, hnv]
    by_cases hc : a < m.nx ∧ b < m.ny ∧ w < m.nvars
    · rw [if_pos hc, if_pos hc]
    · rw [if_neg hc, if_neg hc]
      exact (abs2_none h.1 h.2.1 (by omega)).symm
  | apply f var =>
    obtain ⟨xn, yn, nv⟩ := g
    obtain ⟨hw, hs, rfl, rfl, rfl⟩ := h
    simp only [Op2.ref, Op2.run]
    by_cases hc : var < m.nvars
    · rw [if_pos hc]
      obtain ⟨m', h1, h2, h3, h4, h5, h6, h7, h8, h9⟩ := apply_abs m hw hs f hc
      exact ⟨m', h1, ⟨h2, h3, h7, h8, h6⟩, by funext a b w; exact h9 a b w⟩
    · rw [if_neg hc, apply_rejects m hw hs f (by omega), hw.2.1, hw.2.2]
      by_cases h0 : 0 < m.nx ∧ 0 < m.ny
      · rw [if_pos h0, if_pos h0]; exact ⟨_, rfl⟩
      · rw [if_neg h0, if_neg h0]; exact ⟨m, rfl, ⟨hw, hs, rfl, rfl, rfl⟩, rfl⟩

/-- a history in which a panic aborts everything that follows -/
def run2 (ops : List (Op2 T X)) (m : Mesh2 T X) : Res (Mesh2 T X) :=
  ops.foldlM (fun m op => op.run m) m

def refRun2 (g : Grid X) (ops : List (Op2 T X)) (r : Ref2 T) : Option (Ref2 T) :=
  ops.foldlM (fun r op => op.ref g r) r

/-- a history in which a rejected call is caught and leaves the mesh as it was.  (In the model a
    panic carries no state; that each rejected call panics before its first write is visible in
    the rejection lemmas: the guards of `set_nodes_vars` precede the write, the raw write fails in
    the index expression, and `apply` fails in iteration `(0, 0)`, see `apply_loop_err`.) -/
def stepSkip2 (m : Mesh2 T X) (op : Op2 T X) : Mesh2 T X :=
  match op.run m with
  | .ok m' => m'
  | .error _ => m

def refSkip2 (g : Grid X) (r : Ref2 T) (op : Op2 T X) : Ref2 T := (op.ref g r).getD r

def runSkip2 (ops : List (Op2 T X)) (m : Mesh2 T X) : Mesh2 T X := ops.foldl stepSkip2 m
def refRunSkip2 (g : Grid X) (ops : List (Op2 T X)) (r : Ref2 T) : Ref2 T :=
  ops.foldl (refSkip2 g) r

/-- reference state of the freshly constructed mesh: zero everywhere on the grid -/
def ref0 (g : Grid X) : Ref2 T := fun a b w =>
  if a < g.xn.size ∧ b < g.yn.size ∧ w < g.nvars then some 0 else none

theorem inv2_new (g : Grid X) : Inv2 g (g.mesh : Mesh2 T X) :=
  ⟨new_wf2 _ _ _, new_sized2 _ _ _, rfl, rfl, rfl⟩

theorem abs2_new (g : Grid X) : abs2 (g.mesh : Mesh2 T X) = ref0 g := by
  funext a b w
  rw [abs2_eq (inv2_new g).1]
  show (if a < g.xn.size ∧ b < g.yn.size then
    ent (Array.replicate (g.xn.size * g.yn.size) (Array.replicate g.nvars (0 : T)))
      (a * g.yn.size + b) w else none) = _
  by_cases hg : a < g.xn.size ∧ b < g.yn.size
  · have := Mat.idx_lt hg.1 hg.2
    rw [if_pos hg]
    by_cases hw : w < g.nvars
    · simp [ref0, ent, hg, this, hw]
    · simp [ref0, ent, hg, this, hw]
  · rw [if_neg hg, ref0, if_neg (fun q => hg ⟨q.1, q.2.1⟩)]

/-- **arbitrary histories, from any mesh satisfying the invariant** -/
theorem run_refines2 (g : Grid X) (ops : List (Op2 T X)) {m : Mesh2 T X} (h : Inv2 g m) :
    Refines2 g (run2 ops m) (refRun2 g ops (abs2 m)) := by
  induction ops generalizing m with
  | nil => exact ⟨m, rfl, h, rfl⟩
  | cons op ops ih =>
    have hstep := step_refines2 g op h
    simp only [run2, refRun2, List.foldlM_cons]
    cases hr : op.ref g (abs2 m) with
    | none =>
      rw [hr] at hstep
      obtain ⟨e, he⟩ := hstep
      rw [he]
      exact ⟨e, rfl⟩
    | some r' =>
      rw [hr] at hstep
      obtain ⟨m', h1, h2, h3⟩ := hstep
      rw [h1]
      subst h3
      exact ih h2

/-- **arbitrary histories of node writes starting from `Mesh2D::new`** refine the reference
    model: the model history succeeds iff the reference history is defined, and then the final
    mesh satisfies the invariant and reads (through `get_nodes_vars`) exactly the reference state -/
theorem history_refines2 (g : Grid X) (ops : List (Op2 T X)) :
    Refines2 g (run2 ops (g.mesh : Mesh2 T X)) (refRun2 g ops (ref0 g)) := by
  rw [← abs2_new g]
  exact run_refines2 g ops (inv2_new g)

theorem stepSkip_refines2 (g : Grid X) (op : Op2 T X) {m : Mesh2 T X} (h : Inv2 g m) :
    Inv2 g (stepSkip2 m op) ∧ abs2 (stepSkip2 m op) = refSkip2 g (abs2 m) op := by
  have hstep := step_refines2 g op h
  unfold stepSkip2 refSkip2
  cases hr : op.ref g (abs2 m) with
  | none =>
    rw [hr] at hstep
    obtain ⟨e, he⟩ := hstep
    rw [he]
    exact ⟨h, rfl⟩
  | some r' =>
    rw [hr] at hstep
    obtain ⟨m', h1, h2, h3⟩ := hstep
    rw [h1]
    exact ⟨h2, h3⟩

theorem runSkip_refines2 (g : Grid X) (ops : List (Op2 T X)) {m : Mesh2 T X} (h : Inv2 g m) :
    Inv2 g (runSkip2 ops m) ∧ abs2 (runSkip2 ops m) = refRunSkip2 g ops (abs2 m) := by
  induction ops generalizing m with
  | nil => exact ⟨h, rfl⟩
  | cons op ops ih =>
    obtain ⟨h1, h2⟩ := stepSkip_refines2 g op h
    simp only [runSkip2, refRunSkip2, List.foldl_cons]
    rw [← h2]
    exact ih h1

/-- **arbitrary histories in which rejected calls are caught**: a rejected call changes neither
    the mesh nor the reference state, an accepted one refines the reference step; so after ANY
    list of write calls the mesh satisfies the invariant and reads the reference state -/
theorem history_refines2_skip (g : Grid X) (ops : List (Op2 T X)) :
    Inv2 g (runSkip2 ops (g.mesh : Mesh2 T X)) ∧
      abs2 (runSkip2 ops (g.mesh : Mesh2 T X)) = refRunSkip2 g ops (ref0 g) := by
  rw [← abs2_new g]
  exact runSkip_refines2 g ops (inv2_new g)

/-- all access paths of a mesh over the grid `g` return the reference values `abs2 m` -/
theorem views_inv2 (g : Grid X) {m : Mesh2 T X} (h : Inv2 g m) :
    (∀ i j, i < g.xn.size → j < g.yn.size →
      ∃ row, Mesh2.getNodesVars m i j = .ok row ∧ Mesh2.index m i j = .ok row ∧
        row.size = g.nvars ∧ ∀ w, row[w]? = abs2 m i j w) ∧
    (∀ i, i < g.xn.size → ∃ s, Mesh2.crossSectionX m i = .ok s ∧ s.nodes = g.yn ∧
      s.nvars = g.nvars ∧
      ∀ j, j < g.yn.size → ∃ row, Mesh1.getNodesVars s j = .ok row ∧ Mesh1.index s j = .ok row ∧
        row.size = g.nvars ∧ ∀ w, row[w]? = abs2 m i j w) ∧
    (∀ j, j < g.yn.size → ∃ s, Mesh2.crossSectionY m j = .ok s ∧ s.nodes = g.xn ∧
      s.nvars = g.nvars ∧
      ∀ i, i < g.xn.size → ∃ row, Mesh1.getNodesVars s i = .ok row ∧ Mesh1.index s i = .ok row ∧
        row.size = g.nvars ∧ ∀ w, row[w]? = abs2 m i j w) ∧
    (∀ var, var < g.nvars → ∃ M, Mesh2.varAsMatrix m var = .ok M ∧ M.WF ∧
      M.rows = g.xn.size ∧ M.cols = g.yn.size ∧
      ∀ i j, i < g.xn.size → j < g.yn.size → ∃ x, M.get i j = .ok x ∧ abs2 m i j var = some x) := by
  have hnx := h.nx
  have hny := h.ny
  have hnv := h.nv
  obtain ⟨hw, hs, hx, hy, _⟩ := h
  rw [hnx, hny, hnv]
  refine ⟨fun i j hi hj => view_get2 m hw hs hi hj, fun i hi => ?_, fun j hj => ?_,
    fun var hv => view_matrix m hw hs hv⟩
  · obtain ⟨s, s1, _, _, s4, s5, s6⟩ := view_crossX m hw hs hi
    refine ⟨s, s1, s5.trans hy, s4, fun j hj => ?_⟩
    obtain ⟨row, r1, _, r3, r4⟩ := view_get2 m hw hs hi hj
    obtain ⟨e1, e2, _⟩ := s6 j hj
    exact ⟨row, e1.trans r1, e2.trans r1, r3, r4⟩
  · obtain ⟨s, s1, _, _, s4, s5, s6⟩ := view_crossY m hw hs hj
    refine ⟨s, s1, s5.trans hx, s4, fun i hi => ?_⟩
    obtain ⟨row, r1, _, r3, r4⟩ := view_get2 m hw hs hi hj
    obtain ⟨e1, e2, _⟩ := s6 i hi
    exact ⟨row, e1.trans r1, e2.trans r1, r3, r4⟩

/-- **after any history of write calls** (rejected ones caught), `get_nodes_vars`, raw indexing,
    both cross-sections followed by 1-D reads, and `var_as_matrix` all return the values of the
    reference state -/
theorem history_views2 (g : Grid X) (ops : List (Op2 T X)) :
    (∀ i j, i < g.xn.size → j < g.yn.size →
      ∃ row, Mesh2.getNodesVars (runSkip2 ops (g.mesh : Mesh2 T X)) i j = .ok row ∧
        Mesh2.index (runSkip2 ops (g.mesh : Mesh2 T X)) i j = .ok row ∧
        row.size = g.nvars ∧ ∀ w, row[w]? = refRunSkip2 g ops (ref0 g) i j w) ∧
    (∀ i, i < g.xn.size → ∃ s, Mesh2.crossSectionX (runSkip2 ops (g.mesh : Mesh2 T X)) i = .ok s ∧
      s.nodes = g.yn ∧ s.nvars = g.nvars ∧
      ∀ j, j < g.yn.size → ∃ row, Mesh1.getNodesVars s j = .ok row ∧ Mesh1.index s j = .ok row ∧
        row.size = g.nvars ∧ ∀ w, row[w]? = refRunSkip2 g ops (ref0 g) i j w) ∧
    (∀ j, j < g.yn.size → ∃ s, Mesh2.crossSectionY (runSkip2 ops (g.mesh : Mesh2 T X)) j = .ok s ∧
      s.nodes = g.xn ∧ s.nvars = g.nvars ∧
      ∀ i, i < g.xn.size → ∃ row, Mesh1.getNodesVars s i = .ok row ∧ Mesh1.index s i = .ok row ∧
        row.size = g.nvars ∧ ∀ w, row[w]? = refRunSkip2 g ops (ref0 g) i j w) ∧
    (∀ var, var < g.nvars →
      ∃ M, Mesh2.varAsMatrix (runSkip2 ops (g.mesh : Mesh2 T X)) var = .ok M ∧ M.WF ∧
        M.rows = g.xn.size ∧ M.cols = g.yn.size ∧
        ∀ i j, i < g.xn.size → j < g.yn.size →
          ∃ x, M.get i j = .ok x ∧ refRunSkip2 g ops (ref0 g) i j var = some x) := by
  obtain ⟨h1, h2⟩ := history_refines2_skip (T := T) g ops
  rw [← h2]
  exact views_inv2 g h1

/-- a panic-propagating history that ran to completion: the reference history is defined, its
    result is the reference view of the final mesh, and the invariant holds — so `views_inv2`
    applies to the final mesh -/
theorem history_views2_ok (g : Grid X) (ops : List (Op2 T X)) {m : Mesh2 T X}
    (hrun : run2 ops (g.mesh : Mesh2 T X) = .ok m) :
    refRun2 g ops (ref0 g) = some (abs2 m) ∧ Inv2 g m := by
  have R := history_refines2 (T := T) g ops
  cases hr : refRun2 g ops (ref0 g : Ref2 T) with
  | none =>
    rw [hr] at R
    obtain ⟨e, he⟩ := R
    rw [hrun] at he
    cases he
  | some r =>
    rw [hr] at R
    obtain ⟨m', h1, h2, h3⟩ := R
    rw [hrun] at h1
    cases h1
    exact ⟨by rw [h3], h2⟩

end Histories2

/-! ## histories of node writes on the 1-D mesh -/
section Histories1
variable {T X : Type} [Zero T]

/-- the arguments of `Mesh1D::new` -/
structure Line (X : Type) where
  nodes : Array X
  nvars : Nat

def Line.mesh (l : Line X) : Mesh1 T X := Mesh1.new l.nodes l.nvars

def Inv1 (l : Line X) (m : Mesh1 T X) : Prop :=
  WF1 m ∧ RowSized1 m ∧ m.nodes = l.nodes ∧ m.nvars = l.nvars

/-- the write operations of `Mesh1D` -/
inductive Op1 (T : Type) where
  /-- `mesh.set_nodes_vars(node, v)` -/
  | setNodesVars (node : Nat) (v : Array T)
  /-- `mesh[node][var] = x` -/
  | setVar (node var : Nat) (x : T)

def Op1.run : Op1 T → Mesh1 T X → Res (Mesh1 T X)
  | .setNodesVars node v, m => Mesh1.setNodesVars m node v
  | .setVar node var x, m => Mesh1.setVar m node var x

def Op1.ref (l : Line X) : Op1 T → Ref1 T → Option (Ref1 T)
  | .setNodesVars node v, r =>
      if node < l.nodes.size ∧ v.size = l.nvars then
        some (fun k w => if k = node then v[w]? else r k w)
      else none
  | .setVar node var x, r =>
      if node < l.nodes.size ∧ var < l.nvars then
        some (fun k w => if k = node ∧ w = var then some x else r k w)
      else none

def Refines1 (l : Line X) (c : Res (Mesh1 T X)) : Option (Ref1 T) → Prop
  | some r' => ∃ m', c = .ok m' ∧ Inv1 l m' ∧ abs1 m' = r'
  | none => ∃ e, c = .error e

/-- **one 1-D step refines the reference step** -/
theorem step_refines1 (l : Line X) (op : Op1 T) {m : Mesh1 T X} (h : Inv1 l m) :
    Refines1 l (op.run m) (op.ref l (abs1 m)) := by
  obtain ⟨nodes, nv⟩ := l
  obtain ⟨hw, hs, rfl, rfl⟩ := h
  cases op with
  | setNodesVars node v =>
    simp only [Op1.ref, Op1.run]
    by_cases hc : node < m.nodes.size ∧ v.size = m.nvars
    · rw [if_pos hc]
      obtain ⟨m', h1, h2, h3, h4, h5, h6⟩ := setNodesVars_abs1 m hw hs hc.1 hc.2
      exact ⟨m', h1, ⟨h2, h3, h4, h5⟩, by funext k w; exact h6 k w⟩
    · rw [if_neg hc]
      exact set_rejects m node v (by omega)
  | setVar node var x =>
    simp only [Op1.ref, Op1.run]
    by_cases hc : node < m.nodes.size ∧ var < m.nvars
    · rw [if_pos hc]
      obtain ⟨m', h1, h2, h3, h4, h5, h6⟩ := setVar_spec1 m hw hs hc.1 hc.2 x
      exact ⟨m', h1, ⟨h2, h3, h4, h5⟩, by funext k w; exact h6 k w⟩
    · rw [if_neg hc]
      exact ⟨_, setVar_rejects1 m hw hs x (by omega)⟩

def run1 (ops : List (Op1 T)) (m : Mesh1 T X) : Res (Mesh1 T X) :=
  ops.foldlM (fun m op => op.run m) m

def refRun1 (l : Line X) (ops : List (Op1 T)) (r : Ref1 T) : Option (Ref1 T) :=
  ops.foldlM (fun r op => op.ref l r) r

def stepSkip1 (m : Mesh1 T X) (op : Op1 T) : Mesh1 T X :=
  match op.run m with
  | .ok m' => m'
  | .error _ => m

def refSkip1 (l : Line X) (r : Ref1 T) (op : Op1 T) : Ref1 T := (op.ref l r).getD r

def runSkip1 (ops : List (Op1 T)) (m : Mesh1 T X) : Mesh1 T X := ops.foldl stepSkip1 m
def refRunSkip1 (l : Line X) (ops : List (Op1 T)) (r : Ref1 T) : Ref1 T :=
  ops.foldl (refSkip1 l) r

/-- reference state of the freshly constructed 1-D mesh -/
def ref01 (l : Line X) : Ref1 T := fun k w =>
  if k < l.nodes.size ∧ w < l.nvars then some 0 else none

theorem inv1_new (l : Line X) : Inv1 l (l.mesh : Mesh1 T X) :=
  ⟨new_wf _ _, new_rowSized1 _ _, rfl, rfl⟩

theorem abs1_new (l : Line X) : abs1 (l.mesh : Mesh1 T X) = ref01 l := by
  funext k w
  rw [abs1_eq (inv1_new l).1]
  show (if k < l.nodes.size then
    ent (Array.replicate l.nodes.size (Array.replicate l.nvars (0 : T))) k w else none) = _
  by_cases hg : k < l.nodes.size
  · rw [if_pos hg]
    by_cases hw : w < l.nvars
    · simp [ref01, ent, hg, hw]
    · simp [ref01, ent, hg, hw]
  · rw [if_neg hg, ref01, if_neg (fun q => hg q.1)]

theorem run_refines1 (l : Line X) (ops : List (Op1 T)) {m : Mesh1 T X} (h : Inv1 l m) :
    Refines1 l (run1 ops m) (refRun1 l ops (abs1 m)) := by
  induction ops generalizing m with
  | nil => exact ⟨m, rfl, h, rfl⟩
  | cons op ops ih =>
    have hstep := step_refines1 l op h
    simp only [run1, refRun1, List.foldlM_cons]
    cases hr : op.ref l (abs1 m) with
    | none =>
      rw [hr] at hstep
      obtain ⟨e, he⟩ := hstep
      rw [he]
      exact ⟨e, rfl⟩
    | some r' =>
      rw [hr] at hstep
      obtain ⟨m', h1, h2, h3⟩ := hstep
      rw [h1]
      subst h3
      exact ih h2

/-- **arbitrary histories of node writes on the 1-D mesh, from `Mesh1D::new`**, refine the
    reference model -/
theorem history_refines1 (l : Line X) (ops : List (Op1 T)) :
    Refines1 l (run1 ops (l.mesh : Mesh1 T X)) (refRun1 l ops (ref01 l)) := by
  rw [← abs1_new l]
  exact run_refines1 l ops (inv1_new l)

theorem stepSkip_refines1 (l : Line X) (op : Op1 T) {m : Mesh1 T X} (h : Inv1 l m) :
    Inv1 l (stepSkip1 m op) ∧ abs1 (stepSkip1 m op) = refSkip1 l (abs1 m) op := by
  have hstep := step_refines1 l op h
  unfold stepSkip1 refSkip1
  cases hr : op.ref l (abs1 m) with
  | none =>
    rw [hr] at hstep
    obtain ⟨e, he⟩ := hstep
    rw [he]
    exact ⟨h, rfl⟩
  | some r' =>
    rw [hr] at hstep
    obtain ⟨m', h1, h2, h3⟩ := hstep
    rw [h1]
    exact ⟨h2, h3⟩

theorem runSkip_refines1 (l : Line X) (ops : List (Op1 T)) {m : Mesh1 T X} (h : Inv1 l m) :
    Inv1 l (runSkip1 ops m) ∧ abs1 (runSkip1 ops m) = refRunSkip1 l ops (abs1 m) := by
  induction ops generalizing m with
  | nil => exact ⟨h, rfl⟩
  | cons op ops ih =>
    obtain ⟨h1, h2⟩ := stepSkip_refines1 l op h
    simp only [runSkip1, refRunSkip1, List.foldl_cons]
    rw [← h2]
    exact ih h1

/-- … and with rejected calls caught (they change nothing) -/
theorem history_refines1_skip (l : Line X) (ops : List (Op1 T)) :
    Inv1 l (runSkip1 ops (l.mesh : Mesh1 T X)) ∧
      abs1 (runSkip1 ops (l.mesh : Mesh1 T X)) = refRunSkip1 l ops (ref01 l) := by
  rw [← abs1_new l]
  exact runSkip_refines1 l ops (inv1_new l)

/-- after any 1-D history both read paths return the reference values -/
theorem history_views1 (l : Line X) (ops : List (Op1 T)) :
    ∀ k, k < l.nodes.size →
      ∃ row, Mesh1.getNodesVars (runSkip1 ops (l.mesh : Mesh1 T X)) k = .ok row ∧
        Mesh1.index (runSkip1 ops (l.mesh : Mesh1 T X)) k = .ok row ∧ row.size = l.nvars ∧
        ∀ w, row[w]? = refRunSkip1 l ops (ref01 l) k w := by
  obtain ⟨⟨hw, hs, hn, hv⟩, h2⟩ := history_refines1_skip (T := T) l ops
  intro k hk
  rw [← h2]
  obtain ⟨row, r1, r2, r3⟩ := row_of_ent (shaped1 hw hs) (a := k) (by rw [hn]; exact hk)
  have hn' : ¬ k ≥ (runSkip1 ops (l.mesh : Mesh1 T X)).nodes.size := by rw [hn]; omega
  refine ⟨row, ?_, r1, r2.trans hv, fun w => ?_⟩
  · simp only [Mesh1.getNodesVars, hn', if_false]; exact r1
  · rw [r3, abs1_eq hw, if_pos (by rw [hn]; exact hk)]

end Histories1

/-! ## non-vacuity: a 2 × 3 mesh with 2 variables over `Int`, coordinates in `Int` -/
section Examples

/-- x nodes `10, 20`; y nodes `1, 2, 3`; two variables -/
def exGrid : Grid Int := ⟨#[10, 20], #[1, 2, 3], 2⟩

/-- a history mixing all four writes, one rejected `set_nodes_vars` (wrong length), one rejected
    `apply` (variable 2 does not exist) and one rejected raw write (variable 5) -/
def exOps : List (Op2 Int Int) :=
  [.assign 7, .setNodesVars 1 2 #[4, 5], .setNodesVars 0 0 #[1, 2, 3], .apply (fun x y => x + y) 1,
   .apply (fun x y => x * y) 2, .setVar 0 1 0 (-3), .setVar 0 1 5 9]

/-- the reference state after the history: variable 1 is `x + y` everywhere, variable 0 is `7`
    except for the two written nodes -/
example :
    refRunSkip2 exGrid exOps (ref0 exGrid) 1 2 0 = some 4 ∧
    refRunSkip2 exGrid exOps (ref0 exGrid) 1 2 1 = some 23 ∧
    refRunSkip2 exGrid exOps (ref0 exGrid) 0 1 0 = some (-3) ∧
    refRunSkip2 exGrid exOps (ref0 exGrid) 0 0 0 = some 7 ∧
    refRunSkip2 exGrid exOps (ref0 exGrid) 0 0 1 = some 11 ∧
    refRunSkip2 exGrid exOps (ref0 exGrid) 2 0 0 = none := by
  refine ⟨?_, ?_, ?_, ?_, ?_, ?_⟩ <;> decide

/-- … and, by `history_views2`, the model returns exactly these values through every access path -/
example :
    (∃ row, Mesh2.getNodesVars (runSkip2 exOps (exGrid.mesh : Mesh2 Int Int)) 1 2 = .ok row ∧
      Mesh2.index (runSkip2 exOps (exGrid.mesh : Mesh2 Int Int)) 1 2 = .ok row ∧
      row[0]? = some 4 ∧ row[1]? = some 23) ∧
    (∃ s, Mesh2.crossSectionY (runSkip2 exOps (exGrid.mesh : Mesh2 Int Int)) 1 = .ok s ∧
      ∃ row, Mesh1.getNodesVars s 0 = .ok row ∧ row[0]? = some (-3)) ∧
    (∃ M, Mesh2.varAsMatrix (runSkip2 exOps (exGrid.mesh : Mesh2 Int Int)) 1 = .ok M ∧
      M.rows = 2 ∧ M.cols = 3 ∧ M.get 0 0 = .ok 11) := by
  obtain ⟨hA, _, hC, hD⟩ := history_views2 exGrid exOps
  refine ⟨?_, ?_, ?_⟩
  · obtain ⟨row, r1, r2, _, r4⟩ := hA 1 2 (by decide) (by decide)
    refine ⟨row, r1, r2, ?_, ?_⟩
    · rw [r4]; decide
    · rw [r4]; decide
  · obtain ⟨s, s1, _, _, s4⟩ := hC 1 (by decide)
    obtain ⟨row, r1, _, _, r4⟩ := s4 0 (by decide)
    refine ⟨s, s1, row, r1, ?_⟩
    rw [r4]; decide
  · obtain ⟨M, m1, _, m3, m4, m5⟩ := hD 1 (by decide)
    obtain ⟨x, x1, x2⟩ := m5 0 0 (by decide) (by decide)
    refine ⟨M, m1, m3, m4, ?_⟩
    have : x = 11 := by
      have e : refRunSkip2 exGrid exOps (ref0 exGrid) 0 0 1 = some 11 := by decide
      rw [e] at x2
      exact (Option.some.inj x2).symm
    rw [x1, this]

/-- the panic-propagating semantics: the same history aborts at the wrong-length vector … -/
example : ∃ e, run2 exOps (exGrid.mesh : Mesh2 Int Int) = .error e := by
  have R := history_refines2 (T := Int) exGrid exOps
  have e : refRun2 exGrid exOps (ref0 exGrid : Ref2 Int) = none := by decide
  rw [e] at R
  exact R

/-- … while a history of accepted calls runs to completion -/
example : ∃ m, run2 [.assign 7, .setNodesVars 1 2 #[4, 5], .apply (fun x y => x + y) 1,
      .setVar 0 1 0 (-3)] (exGrid.mesh : Mesh2 Int Int) = .ok m ∧ Inv2 exGrid m ∧
      abs2 m 1 2 1 = some 23 := by
  have R := history_refines2 (T := Int) exGrid [.assign 7, .setNodesVars 1 2 #[4, 5],
    .apply (fun x y => x + y) 1, .setVar 0 1 0 (-3)]
  cases hr : refRun2 exGrid [.assign 7, .setNodesVars 1 2 #[4, 5],
    .apply (fun x y => x + y) 1, .setVar 0 1 0 (-3)] (ref0 exGrid : Ref2 Int) with
  | none => exact absurd hr (by decide)
  | some r =>
    rw [hr] at R
    obtain ⟨m, h1, h2, h3⟩ := R
    refine ⟨m, h1, h2, ?_⟩
    rw [h3]
    have : (refRun2 exGrid [.assign 7, .setNodesVars 1 2 #[4, 5],
      .apply (fun x y => x + y) 1, .setVar 0 1 0 (-3)] (ref0 exGrid : Ref2 Int)).bind
        (fun r => r 1 2 1) = some 23 := by decide
    rw [hr] at this
    exact this

end Examples

end Ohsl.Props.C19
