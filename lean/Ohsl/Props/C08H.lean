/-
  Property C08 (part H) — the rounding drift between the RECURRENCE residual and the TRUE residual
  `b − A x` for **BiCGSTAB** (`Krylov.solveBiCGSTAB`, `Sp.solveIter s .bicgstab`), in the standard
  model of floating-point arithmetic (`Fl M`, Ohsl/Lemmas/Rounding.lean).  C08F proves the drift
  bound for CG and BiCG through the abstract layer `DriftRun` (runs of updates `x += α p`,
  `r −= α q`, `q` a rounded product `A p`); C08G ties it to the model's sparse products.  This file
  does the same for BiCGSTAB, at the three levels.

  THE UPDATE ORDER OF THE MODEL (and of src/sparse.rs:406-436), per iteration `i` from state
  `(x, r, …)`:
      v = A p̂;  α = ρ/(r̃·v);  s = r − v·α;
      half-step test on `‖s‖`:  on exit  x ← x + p̂·α  (`smul`, `v[i]*α`)  and return;
      t = A ŝ (ŝ = s);  ω = (t·s)/(t·t);
      x ← x + α·p̂ ;  x ← x + ω·ŝ        (TWO `+=` statements, each `lsmul` then `add`)
      r = s − t·ω;  full-step test (strict `<`) on `‖r‖`.
  So the x-update is NOT one three-term sum: the code (and the model, `stabStep`) performs
  `(x + α p̂) + ω ŝ` as two separate rounded updates through the intermediate vector
  `x_mid = fl(x + fl(α p̂))`.  Each iteration therefore IS two sub-steps of the `DriftRun` kind
      (x, r) → (x_mid, s)   with (α, p̂, v = fl(A p̂)),      (x_mid, s) → (x', r')   with (ω, ŝ, t = fl(A ŝ)),
  and the half-step exit returns `fl(x + fl(p̂·α))`, which has the same VALUE as `x_mid` because the
  rounded product is commutative (`stabHalfX_eq_mid`).

  (1) STRUCTURAL (any scalar type, section `Structural`):
      `stabRho … stabNext`, `stabStates`, `stabInit`, `stabSeq`, `stabSeqS`, `stabSeqMid`,
      `stabSeqHalf`: the quantities of iteration `i` as functions of the state, and the un-tested state
      sequence; `stabStep_eq_next`, `stabStep_cases`: the five outcomes of a step;
      `stab_loop_trace`, `solveBiCGSTAB_trace`: a run that reports success stopped at the initial
      test (`iters = 0`), or at the half-step exit of iteration `k+1` (returning `stabSeqHalf k`, the
      tested vector is `stabSeqS k`), or at the full-step exit of iteration `k+1` (returning the `x`
      of state `k+1`, whose `r` passed the strict test); `iters ≤ maxIter`.
      `stabNext_hom … stabSeq_hom`: all of it commutes with homomorphisms of operation records.
  (2) ABSTRACT (real seminormed space, section `Abstract`): `StabRun A a u εA m …` — the perturbed
      recurrences of `m` HALF-steps (`m = 2k`: `k` full iterations; `m = 2k+1`: plus the first half of
      iteration `k+1`); `StabRun.driftRun`: the interleaved sequences
      `x₀, x_mid₀, x₁, x_mid₁, …` / `r₀, s₀, r₁, s₁, …` form a `DriftRun` of length `m`, so all of C08F
      applies; `StabRun.bound_full`, `StabRun.bound_half`:
          ‖(b − A x_k) − r_k‖       ≤ ‖d_0‖ + k · u · ((32 + 12 cA) a X + 2 R)
          ‖(b − A x_mid_k) − s_k‖   ≤ ‖d_0‖ + (2k+1) · u · ((16 + 6 cA) a X + R)
                                     ≤ ‖d_0‖ + (k+1) · u · ((32 + 12 cA) a X + 2 R)
      (`u ≤ 1/8`, product error `εA ≤ cA u`, `X` a bound of `‖x_j‖`, `‖x_mid_j‖`, `R` of `‖r_j‖`, `‖s_j‖`):
      exactly twice the CG constants, since there are two updates per iteration.
  (3) MODEL over `flOps mv mvT dot norm2` (C08F's record: componentwise rounded vector operations,
      ARBITRARY `dot`, `norm2`, `Transc (Fl M)`, a product `mv` with `FlMatVec mv A a εA`):
      * `stab_stabRun`: the model's state sequence satisfies `StabRun` with `u = M.u`, every length;
      * `stab_drift_bound` (state `k`), `stab_drift_bound_half` (half-step of iteration `k+1`), with
        `‖d_0‖ ≤ u (‖b‖ + (1 + 2 cA) a X)` for the model's `r_0 = b − mv x_0`;
      * `stab_success_true_residual`: on a reported success (any of the three exits), with `rk` the
        vector the model tested (`r_0`; `s` at the half-step exit; `r` at the full-step exit),
            ‖(b − A x_out) − rk‖∞ ≤ u (‖b‖ + (1 + 2 cA) a X) + iters · u · ((32 + 12 cA) a X + 2 R);
        `stab_success_true_residual_norm`: if passing the test implies `‖rk‖∞ ≤ τ` then
        `‖b − A x_out‖∞ ≤ τ +` that bound.
  (4) SPARSE (`Sp.solveIter s .bicgstab` at scalars `Fl M`, by C08G's transport `fnHomF`,
      `flMatVec_multiply(_normInf)`): `stab_sim_fl`, `stabSeq_sim_fl`,
      `stab_success_true_residual_arr`, `…_sparse_of`, `stab_success_true_residual_sparse`,
      `stab_success_true_residual_norm_sparse` (`a = ‖A‖∞`, `cA = 2(n+1)`:
      `‖b − A x‖∞ ≤ τ + u (‖b‖ + (4n+5) ‖A‖∞ X) + iters · u · ((24n+56) ‖A‖∞ X + 2R)`),
      `solveIter_runs_stab`.
  `X`, `R` are hypotheses (a-posteriori quantities of the run, read at the level of the statement):
  `X` bounds the iterates `x_j`, the intermediate iterates `x_mid_j` (`j < iters`) and the returned
  `x`; `R` bounds the recurrence residuals `r_j` and the half-step residuals `s_j` (`j < iters`).
  Nothing is stated in a weaker `_partial` form.

  Examples: `spd2F_stab_run` — in every model in which `0, ±1, ±2` are representable (`binary64`,
  `exact`) `solve_bicgstab` on `[[2,1],[1,2]] x = [1,−1]`, `x₀ = 0`, `tol = 0` fails the initial test
  and succeeds at the HALF-STEP exit of iteration 1; all hypotheses of
  `stab_success_true_residual_sparse` hold of it; in the exact model (`u = 0`) the bound collapses to
  `b − A x = rk` for every successful run (all three exits).

  QMR remains WITHOUT a drift theorem: its update vector `s ≈ A d` is itself maintained by a
  recurrence (`s = η·(A p) + c·s`), so the per-step product error is not a one-product error and the
  algebra of `drift_step_eq` does not apply.

  The transfer to Rust `f64` rests on the assumption stated in Rounding.lean.
-/
import Ohsl.Props.C08G

set_option linter.unusedSectionVars false
set_option linter.unusedVariables false
set_option linter.unusedSimpArgs false

namespace Ohsl.Props.C08
open Ohsl Ohsl.Krylov

/-! ### (S) the BiCGSTAB loop as a state sequence -/
section Structural
variable {K V : Type} [Add K] [Sub K] [Mul K] [Neg K] [Div K] [Zero K] [One K] [BEq K] [Transc K]

/-- the strict test passed implies the non-strict one -/
theorem stabLt_le {a b : K} (h : stabLt a b = true) : Transc.le a b = true := by
  unfold stabLt at h
  rw [Bool.and_eq_true] at h
  exact h.1

/-- `ρ = r̃ · r` of the iteration started in state `s` -/
def stabRho (o : VOps K V) (rt : V) (s : StabState K V) : K := o.dot rt s.r

/-- the direction `p = p̂` of iteration `i` -/
def stabP (o : VOps K V) (rt : V) (i : Nat) (s : StabState K V) : V := stabDir o i s (stabRho o rt s)

/-- `v = A p̂` -/
def stabV (o : VOps K V) (rt : V) (i : Nat) (s : StabState K V) : V := o.A (stabP o rt i s)

/-- `α = ρ / (r̃ · v)` -/
def stabAlpha (o : VOps K V) (rt : V) (i : Nat) (s : StabState K V) : K :=
  stabRho o rt s / o.dot rt (stabV o rt i s)

/-- the half-step residual `s = r − v·α` (`= ŝ`) -/
def stabS (o : VOps K V) (rt : V) (i : Nat) (s : StabState K V) : V :=
  o.sub s.r (o.smul (stabV o rt i s) (stabAlpha o rt i s))

/-- the `x` returned at the half-step exit: `x + p̂·α` -/
def stabHalfX (o : VOps K V) (rt : V) (i : Nat) (s : StabState K V) : V :=
  o.add s.x (o.smul (stabP o rt i s) (stabAlpha o rt i s))

/-- the intermediate iterate of a full step: `x + α·p̂` (the first of the two `+=`) -/
def stabMidX (o : VOps K V) (rt : V) (i : Nat) (s : StabState K V) : V :=
  o.add s.x (o.lsmul (stabAlpha o rt i s) (stabP o rt i s))

/-- `t = A ŝ` -/
def stabT (o : VOps K V) (rt : V) (i : Nat) (s : StabState K V) : V := o.A (stabS o rt i s)

/-- `ω = (t · s) / (t · t)` -/
def stabOmega (o : VOps K V) (rt : V) (i : Nat) (s : StabState K V) : K :=
  o.dot (stabT o rt i s) (stabS o rt i s) / o.dot (stabT o rt i s) (stabT o rt i s)

/-- the state after iteration `i` (all tests ignored) -/
def stabNext (o : VOps K V) (rt : V) (normb : K) (i : Nat) (s : StabState K V) : StabState K V :=
  ⟨o.add (stabMidX o rt i s) (o.lsmul (stabOmega o rt i s) (stabS o rt i s)),
   o.sub (stabS o rt i s) (o.smul (stabT o rt i s) (stabOmega o rt i s)),
   stabP o rt i s,
   stabV o rt i s,
   stabRho o rt s,
   stabAlpha o rt i s,
   stabOmega o rt i s,
   o.norm2 (o.sub (stabS o rt i s) (o.smul (stabT o rt i s) (stabOmega o rt i s))) / normb⟩

/-- (S) `stabStep` is: breakdown test on `ρ`, half-step test on `s`, compute `stabNext`, strict test
on its `resid`, breakdown test on `ω` -/
theorem stabStep_eq_next (o : VOps K V) (rt : V) (normb tol : K) (i : Nat) (s : StabState K V) :
    stabStep o rt normb tol i s =
      if stabRho o rt s == 0 then .done ⟨false, i, o.norm2 s.r / normb, s.x⟩
      else if Transc.le (o.norm2 (stabS o rt i s) / normb) tol
      then .done ⟨true, i, o.norm2 (stabS o rt i s) / normb, stabHalfX o rt i s⟩
      else if stabLt (stabNext o rt normb i s).resid tol
      then .done ⟨true, i, (stabNext o rt normb i s).resid, (stabNext o rt normb i s).x⟩
      else if stabOmega o rt i s == 0
      then .done ⟨false, i, (stabNext o rt normb i s).resid, (stabNext o rt normb i s).x⟩
      else .cont (stabNext o rt normb i s) := rfl

/-- (S) the outcomes of a step: a failure exit, the half-step success, the full-step success, or
the next state -/
theorem stabStep_cases (o : VOps K V) (rt : V) (normb tol : K) (i : Nat) (s : StabState K V) :
    (∃ r, stabStep o rt normb tol i s = .done r ∧ r.ok = false) ∨
    (stabStep o rt normb tol i s
        = .done ⟨true, i, o.norm2 (stabS o rt i s) / normb, stabHalfX o rt i s⟩ ∧
      Transc.le (o.norm2 (stabS o rt i s) / normb) tol = true) ∨
    (stabStep o rt normb tol i s
        = .done ⟨true, i, (stabNext o rt normb i s).resid, (stabNext o rt normb i s).x⟩ ∧
      stabLt (stabNext o rt normb i s).resid tol = true) ∨
    stabStep o rt normb tol i s = .cont (stabNext o rt normb i s) := by
  rw [stabStep_eq_next]
  by_cases c1 : (stabRho o rt s == 0) = true
  · rw [if_pos c1]
    exact Or.inl ⟨_, rfl, rfl⟩
  rw [if_neg c1]
  by_cases c2 : Transc.le (o.norm2 (stabS o rt i s) / normb) tol = true
  · rw [if_pos c2]
    exact Or.inr (Or.inl ⟨rfl, c2⟩)
  rw [if_neg c2]
  by_cases c3 : stabLt (stabNext o rt normb i s).resid tol = true
  · rw [if_pos c3]
    exact Or.inr (Or.inr (Or.inl ⟨rfl, c3⟩))
  rw [if_neg c3]
  by_cases c4 : (stabOmega o rt i s == 0) = true
  · rw [if_pos c4]
    exact Or.inl ⟨_, rfl, rfl⟩
  rw [if_neg c4]
  exact Or.inr (Or.inr (Or.inr rfl))

/-- the un-tested BiCGSTAB state sequence: state `j` is the state after `j` full iterations -/
def stabStates (o : VOps K V) (rt : V) (normb : K) (s0 : StabState K V) : Nat → StabState K V :=
  loopStates (stabNext o rt normb) s0

/-- the initial state of `solveBiCGSTAB` -/
def stabInit (o : VOps K V) (b x : V) (normb : K) : StabState K V :=
  ⟨x, o.sub b (o.A x), o.zero, o.zero, 1, 1, 1, o.norm2 (o.sub b (o.A x)) / normb⟩

/-- the state sequence of `solveBiCGSTAB o b x …` (`r̃ = r_0 = b − A x`, divisor `guardNorm ‖b‖`) -/
def stabSeq (o : VOps K V) (b x : V) (j : Nat) : StabState K V :=
  stabStates o (o.sub b (o.A x)) (guardNorm (o.norm2 b)) (stabInit o b x (guardNorm (o.norm2 b))) j

/-- the half-step residual `s` computed in iteration `j+1` (from state `j`) -/
def stabSeqS (o : VOps K V) (b x : V) (j : Nat) : V :=
  stabS o (o.sub b (o.A x)) (j + 1) (stabSeq o b x j)

/-- the intermediate iterate `x_j + α·p̂` computed in iteration `j+1` -/
def stabSeqMid (o : VOps K V) (b x : V) (j : Nat) : V :=
  stabMidX o (o.sub b (o.A x)) (j + 1) (stabSeq o b x j)

/-- the vector `x_j + p̂·α` returned by the half-step exit of iteration `j+1` -/
def stabSeqHalf (o : VOps K V) (b x : V) (j : Nat) : V :=
  stabHalfX o (o.sub b (o.A x)) (j + 1) (stabSeq o b x j)

theorem stabSeq_zero (o : VOps K V) (b x : V) :
    stabSeq o b x 0 = stabInit o b x (guardNorm (o.norm2 b)) := rfl

theorem stabSeq_succ (o : VOps K V) (b x : V) (j : Nat) :
    stabSeq o b x (j + 1)
      = stabNext o (o.sub b (o.A x)) (guardNorm (o.norm2 b)) (j + 1) (stabSeq o b x j) := rfl

/-- (S) the BiCGSTAB loop started in state `j` of the sequence, if it reports success, stopped in
some iteration `k+1` (`j ≤ k < j + rem`) at the half-step exit (returning `stabHalfX` of state `k`,
the tested vector is `stabS` of state `k`) or at the full-step exit (returning the `x` of state
`k+1`, whose `r` passed the strict test). -/
theorem stab_loop_trace (o : VOps K V) (rt : V) (normb tol : K) (fin : StabState K V → KOut K V)
    (hfin : ∀ s, (fin s).ok = false) (s0 : StabState K V) :
    ∀ (rem j : Nat) (out : KOut K V),
      iterate (stabStep o rt normb tol) fin rem (j + 1) (stabStates o rt normb s0 j) = out →
      out.ok = true →
      ∃ k, j ≤ k ∧ k < j + rem ∧ out.iters = k + 1 ∧
        ((out.x = stabHalfX o rt (k + 1) (stabStates o rt normb s0 k) ∧
          Transc.le (o.norm2 (stabS o rt (k + 1) (stabStates o rt normb s0 k)) / normb) tol = true) ∨
         (out.x = (stabStates o rt normb s0 (k + 1)).x ∧
          stabLt (o.norm2 (stabStates o rt normb s0 (k + 1)).r / normb) tol = true))
  | 0, j, out, h, hok => by
    have h' : fin (stabStates o rt normb s0 j) = out := h
    rw [← h', hfin] at hok
    cases hok
  | rem + 1, j, out, h, hok => by
    unfold iterate at h
    rcases stabStep_cases o rt normb tol (j + 1) (stabStates o rt normb s0 j) with
      ⟨r, e, hr⟩ | ⟨e, c⟩ | ⟨e, c⟩ | e
    · rw [e] at h
      have h' : r = out := h
      rw [← h', hr] at hok
      cases hok
    · rw [e] at h
      have h' : (⟨true, j + 1, _, _⟩ : KOut K V) = out := h
      subst h'
      exact ⟨j, le_rfl, by omega, rfl, Or.inl ⟨rfl, c⟩⟩
    · rw [e] at h
      have h' : (⟨true, j + 1, _, _⟩ : KOut K V) = out := h
      subst h'
      exact ⟨j, le_rfl, by omega, rfl, Or.inr ⟨rfl, c⟩⟩
    · rw [e] at h
      have h' : iterate (stabStep o rt normb tol) fin rem (j + 1 + 1)
          (stabStates o rt normb s0 (j + 1)) = out := h
      obtain ⟨k, h1, h2, h3, h4⟩ := stab_loop_trace o rt normb tol fin hfin s0 rem (j + 1) out h' hok
      exact ⟨k, by omega, by omega, h3, h4⟩

/-- `solveBiCGSTAB` as: initial test, else the loop from state `0` of `stabSeq` -/
theorem solveBiCGSTAB_eq (o : VOps K V) (b x : V) (maxIter : Nat) (tol : K) :
    solveBiCGSTAB o b x maxIter tol =
      if Transc.le (o.norm2 (o.sub b (o.A x)) / guardNorm (o.norm2 b)) tol
      then ⟨true, 0, o.norm2 (o.sub b (o.A x)) / guardNorm (o.norm2 b), x⟩
      else iterate (stabStep o (o.sub b (o.A x)) (guardNorm (o.norm2 b)) tol)
        (fun s => ⟨false, maxIter, s.resid, s.x⟩) maxIter (0 + 1)
        (stabStates o (o.sub b (o.A x)) (guardNorm (o.norm2 b))
          (stabInit o b x (guardNorm (o.norm2 b))) 0) := rfl

/-- (S) **`solveBiCGSTAB` on success**: `iters ≤ maxIter`, and the run stopped
* at the initial test (`iters = 0`, `x` unchanged, `r_0` passed `≤`), or
* at the half-step exit of iteration `k+1 = iters`: it returns `stabSeqHalf k = x_k + p̂·α` and the
  half-step residual `stabSeqS k` passed `≤`, or
* at the full-step exit of iteration `k+1 = iters`: it returns the `x` of state `k+1`, whose `r`
  passed the strict test. -/
theorem solveBiCGSTAB_trace (o : VOps K V) (b x : V) (maxIter : Nat) (tol : K)
    (hok : (solveBiCGSTAB o b x maxIter tol).ok = true) :
    (solveBiCGSTAB o b x maxIter tol).iters ≤ maxIter ∧
    (((solveBiCGSTAB o b x maxIter tol).iters = 0 ∧ (solveBiCGSTAB o b x maxIter tol).x = x ∧
        Transc.le (o.norm2 (stabSeq o b x 0).r / guardNorm (o.norm2 b)) tol = true) ∨
     (∃ k, (solveBiCGSTAB o b x maxIter tol).iters = k + 1 ∧
        (solveBiCGSTAB o b x maxIter tol).x = stabSeqHalf o b x k ∧
        Transc.le (o.norm2 (stabSeqS o b x k) / guardNorm (o.norm2 b)) tol = true) ∨
     (∃ k, (solveBiCGSTAB o b x maxIter tol).iters = k + 1 ∧
        (solveBiCGSTAB o b x maxIter tol).x = (stabSeq o b x (k + 1)).x ∧
        stabLt (o.norm2 (stabSeq o b x (k + 1)).r / guardNorm (o.norm2 b)) tol = true)) := by
  rw [solveBiCGSTAB_eq] at hok ⊢
  by_cases h0 : Transc.le (o.norm2 (o.sub b (o.A x)) / guardNorm (o.norm2 b)) tol = true
  · rw [if_pos h0]
    exact ⟨Nat.zero_le _, Or.inl ⟨rfl, rfl, h0⟩⟩
  · rw [if_neg h0] at hok ⊢
    generalize hout : iterate (stabStep o (o.sub b (o.A x)) (guardNorm (o.norm2 b)) tol)
        (fun s => (⟨false, maxIter, s.resid, s.x⟩ : KOut K V)) maxIter (0 + 1)
        (stabStates o (o.sub b (o.A x)) (guardNorm (o.norm2 b))
          (stabInit o b x (guardNorm (o.norm2 b))) 0) = out at hok ⊢
    obtain ⟨k, h1, h2, h3, h4⟩ := stab_loop_trace o (o.sub b (o.A x)) (guardNorm (o.norm2 b)) tol
      (fun s => ⟨false, maxIter, s.resid, s.x⟩) (fun _ => rfl)
      (stabInit o b x (guardNorm (o.norm2 b))) maxIter 0 out hout hok
    refine ⟨by omega, Or.inr ?_⟩
    rcases h4 with ⟨hx, ht⟩ | ⟨hx, ht⟩
    · exact Or.inl ⟨k, h3, hx, ht⟩
    · exact Or.inr ⟨k, h3, hx, ht⟩

/-! #### the state sequence commutes with homomorphisms of operation records -/
section StatesHom
variable {W : Type} {o₁ : VOps K V} {o₂ : VOps K W} {φ : V → W}

theorem stabRho_hom (H : VHom o₁ o₂ φ) (rt : V) (s : StabState K V) :
    stabRho o₂ (φ rt) (mapStab φ s) = stabRho o₁ rt s := by
  unfold stabRho
  simp only [mapStab, H.dot]

theorem stabP_hom (H : VHom o₁ o₂ φ) (rt : V) (i : Nat) (s : StabState K V) :
    stabP o₂ (φ rt) i (mapStab φ s) = φ (stabP o₁ rt i s) := by
  unfold stabP
  rw [stabRho_hom H, stabDir_hom H]

theorem stabV_hom (H : VHom o₁ o₂ φ) (rt : V) (i : Nat) (s : StabState K V) :
    stabV o₂ (φ rt) i (mapStab φ s) = φ (stabV o₁ rt i s) := by
  unfold stabV
  rw [stabP_hom H, H.A]

theorem stabAlpha_hom (H : VHom o₁ o₂ φ) (rt : V) (i : Nat) (s : StabState K V) :
    stabAlpha o₂ (φ rt) i (mapStab φ s) = stabAlpha o₁ rt i s := by
  unfold stabAlpha
  rw [stabRho_hom H, stabV_hom H, ← H.dot]

theorem stabS_hom (H : VHom o₁ o₂ φ) (rt : V) (i : Nat) (s : StabState K V) :
    stabS o₂ (φ rt) i (mapStab φ s) = φ (stabS o₁ rt i s) := by
  unfold stabS
  rw [stabV_hom H, stabAlpha_hom H, H.sub, H.smul]
  rfl

theorem stabHalfX_hom (H : VHom o₁ o₂ φ) (rt : V) (i : Nat) (s : StabState K V) :
    stabHalfX o₂ (φ rt) i (mapStab φ s) = φ (stabHalfX o₁ rt i s) := by
  unfold stabHalfX
  rw [stabP_hom H, stabAlpha_hom H, H.add, H.smul]
  rfl

theorem stabMidX_hom (H : VHom o₁ o₂ φ) (rt : V) (i : Nat) (s : StabState K V) :
    stabMidX o₂ (φ rt) i (mapStab φ s) = φ (stabMidX o₁ rt i s) := by
  unfold stabMidX
  rw [stabP_hom H, stabAlpha_hom H, H.add, H.lsmul]
  rfl

theorem stabT_hom (H : VHom o₁ o₂ φ) (rt : V) (i : Nat) (s : StabState K V) :
    stabT o₂ (φ rt) i (mapStab φ s) = φ (stabT o₁ rt i s) := by
  unfold stabT
  rw [stabS_hom H, H.A]

theorem stabOmega_hom (H : VHom o₁ o₂ φ) (rt : V) (i : Nat) (s : StabState K V) :
    stabOmega o₂ (φ rt) i (mapStab φ s) = stabOmega o₁ rt i s := by
  unfold stabOmega
  rw [stabT_hom H, stabS_hom H, ← H.dot, ← H.dot]

theorem stabNext_hom (H : VHom o₁ o₂ φ) (rt : V) (normb : K) (i : Nat) (s : StabState K V) :
    stabNext o₂ (φ rt) normb i (mapStab φ s) = mapStab φ (stabNext o₁ rt normb i s) := by
  unfold stabNext
  rw [stabMidX_hom H, stabOmega_hom H, stabS_hom H, stabT_hom H, stabP_hom H, stabV_hom H,
    stabRho_hom H, stabAlpha_hom H]
  simp only [mapStab, H.add, H.sub, H.smul, H.lsmul, H.norm2]

theorem stabInit_hom (H : VHom o₁ o₂ φ) (b x : V) (normb : K) :
    stabInit o₂ (φ b) (φ x) normb = mapStab φ (stabInit o₁ b x normb) := by
  unfold stabInit
  simp only [mapStab, H.norm2, H.sub, H.A, H.zero]

theorem stabStates_hom (H : VHom o₁ o₂ φ) (rt : V) (normb : K) (s0 : StabState K V) :
    ∀ j, stabStates o₂ (φ rt) normb (mapStab φ s0) j = mapStab φ (stabStates o₁ rt normb s0 j)
  | 0 => rfl
  | j + 1 => by
    show stabNext o₂ (φ rt) normb (j + 1) (stabStates o₂ (φ rt) normb (mapStab φ s0) j) = _
    rw [stabStates_hom H rt normb s0 j, stabNext_hom H]
    rfl

theorem stabSeq_hom (H : VHom o₁ o₂ φ) (b x : V) (j : Nat) :
    stabSeq o₂ (φ b) (φ x) j = mapStab φ (stabSeq o₁ b x j) := by
  unfold stabSeq
  rw [← H.norm2, ← H.A, ← H.sub, stabInit_hom H, stabStates_hom H]

theorem stabSeqS_hom (H : VHom o₁ o₂ φ) (b x : V) (j : Nat) :
    stabSeqS o₂ (φ b) (φ x) j = φ (stabSeqS o₁ b x j) := by
  unfold stabSeqS
  rw [stabSeq_hom H, ← H.A, ← H.sub, stabS_hom H]

theorem stabSeqMid_hom (H : VHom o₁ o₂ φ) (b x : V) (j : Nat) :
    stabSeqMid o₂ (φ b) (φ x) j = φ (stabSeqMid o₁ b x j) := by
  unfold stabSeqMid
  rw [stabSeq_hom H, ← H.A, ← H.sub, stabMidX_hom H]

theorem stabSeqHalf_hom (H : VHom o₁ o₂ φ) (b x : V) (j : Nat) :
    stabSeqHalf o₂ (φ b) (φ x) j = φ (stabSeqHalf o₁ b x j) := by
  unfold stabSeqHalf
  rw [stabSeq_hom H, ← H.A, ← H.sub, stabHalfX_hom H]

end StatesHom

/-! #### transport array ↔ function for BiCGSTAB (C08G's `fnHomF`, `valHomS`) -/
section Transport
variable {M : FlModel} [Transc (Fl M)]
variable {s : Sp (Fl M)} {n : Nat} (h : SqWF s n) (norm2 : Array (Fl M) → Fl M)
include h

/-- **simulation, BiCGSTAB** (rounded arithmetic): on arrays of size `n` the executed solver and the
function-level solver over `spFlOps` report the same flag / count and related `x` -/
theorem stab_sim_fl (b x : Array (Fl M)) (hb : b.size = n) (hx : x.size = n) (maxIter : Nat)
    (tol : Fl M) :
    (solveBiCGSTAB (arrOps s n norm2) b x maxIter tol).x.size = n ∧
    (solveBiCGSTAB (spFlOps s n norm2) (arrFn n b) (arrFn n x) maxIter tol).ok
      = (solveBiCGSTAB (arrOps s n norm2) b x maxIter tol).ok ∧
    (solveBiCGSTAB (spFlOps s n norm2) (arrFn n b) (arrFn n x) maxIter tol).iters
      = (solveBiCGSTAB (arrOps s n norm2) b x maxIter tol).iters ∧
    (solveBiCGSTAB (spFlOps s n norm2) (arrFn n b) (arrFn n x) maxIter tol).x
      = arrFn n (solveBiCGSTAB (arrOps s n norm2) b x maxIter tol).x := by
  have e1 := stab_hom (valHomS h norm2) ⟨b, hb⟩ ⟨x, hx⟩ maxIter tol
  have e2 := stab_hom (fnHomF h norm2) ⟨b, hb⟩ ⟨x, hx⟩ maxIter tol
  have e1' : solveBiCGSTAB (arrOps s n norm2) b x maxIter tol = _ := e1
  have e2' : solveBiCGSTAB (spFlOps s n norm2) (arrFn n b) (arrFn n x) maxIter tol = _ := e2
  rw [e1', e2']
  exact ⟨(solveBiCGSTAB (subOpsS h norm2) ⟨b, hb⟩ ⟨x, hx⟩ maxIter tol).x.2, rfl, rfl, rfl⟩

/-- the BiCGSTAB state sequences correspond: every array-level iterate, recurrence residual,
half-step residual has size `n` and denotes the function-level one (also the intermediate iterate) -/
theorem stabSeq_sim_fl (b x : Array (Fl M)) (hb : b.size = n) (hx : x.size = n) (j : Nat) :
    (stabSeq (arrOps s n norm2) b x j).x.size = n ∧
    (stabSeq (arrOps s n norm2) b x j).r.size = n ∧
    (stabSeqS (arrOps s n norm2) b x j).size = n ∧
    (stabSeq (spFlOps s n norm2) (arrFn n b) (arrFn n x) j).x
      = arrFn n (stabSeq (arrOps s n norm2) b x j).x ∧
    (stabSeq (spFlOps s n norm2) (arrFn n b) (arrFn n x) j).r
      = arrFn n (stabSeq (arrOps s n norm2) b x j).r ∧
    stabSeqS (spFlOps s n norm2) (arrFn n b) (arrFn n x) j
      = arrFn n (stabSeqS (arrOps s n norm2) b x j) ∧
    stabSeqMid (spFlOps s n norm2) (arrFn n b) (arrFn n x) j
      = arrFn n (stabSeqMid (arrOps s n norm2) b x j) := by
  have e1 : stabSeq (arrOps s n norm2) b x j
      = mapStab Subtype.val (stabSeq (subOpsS h norm2) ⟨b, hb⟩ ⟨x, hx⟩ j) :=
    stabSeq_hom (valHomS h norm2) ⟨b, hb⟩ ⟨x, hx⟩ j
  have e2 : stabSeq (spFlOps s n norm2) (arrFn n b) (arrFn n x) j
      = mapStab (fun a => arrFn n a.1) (stabSeq (subOpsS h norm2) ⟨b, hb⟩ ⟨x, hx⟩ j) :=
    stabSeq_hom (fnHomF h norm2) ⟨b, hb⟩ ⟨x, hx⟩ j
  have e3 : stabSeqS (arrOps s n norm2) b x j
      = (stabSeqS (subOpsS h norm2) ⟨b, hb⟩ ⟨x, hx⟩ j).1 :=
    stabSeqS_hom (valHomS h norm2) ⟨b, hb⟩ ⟨x, hx⟩ j
  have e4 : stabSeqS (spFlOps s n norm2) (arrFn n b) (arrFn n x) j
      = arrFn n (stabSeqS (subOpsS h norm2) ⟨b, hb⟩ ⟨x, hx⟩ j).1 :=
    stabSeqS_hom (fnHomF h norm2) ⟨b, hb⟩ ⟨x, hx⟩ j
  have e5 : stabSeqMid (arrOps s n norm2) b x j
      = (stabSeqMid (subOpsS h norm2) ⟨b, hb⟩ ⟨x, hx⟩ j).1 :=
    stabSeqMid_hom (valHomS h norm2) ⟨b, hb⟩ ⟨x, hx⟩ j
  have e6 : stabSeqMid (spFlOps s n norm2) (arrFn n b) (arrFn n x) j
      = arrFn n (stabSeqMid (subOpsS h norm2) ⟨b, hb⟩ ⟨x, hx⟩ j).1 :=
    stabSeqMid_hom (fnHomF h norm2) ⟨b, hb⟩ ⟨x, hx⟩ j
  rw [e1, e2, e3, e4, e5, e6]
  exact ⟨(stabSeq (subOpsS h norm2) ⟨b, hb⟩ ⟨x, hx⟩ j).x.2,
    (stabSeq (subOpsS h norm2) ⟨b, hb⟩ ⟨x, hx⟩ j).r.2,
    (stabSeqS (subOpsS h norm2) ⟨b, hb⟩ ⟨x, hx⟩ j).2, rfl, rfl, rfl, rfl⟩

end Transport

end Structural

/-! ### (F) the drift of the two residual recurrences of an iteration -/
section Rounding

/-! #### abstract layer: `m` half-steps in a real seminormed space -/
section Abstract
variable {E : Type} [SeminormedAddCommGroup E] [NormedSpace ℝ E]

/-- `f 0, g 0, f 1, g 1, …` -/
def interleave {β : Type} (f g : ℕ → β) (i : ℕ) : β := if i % 2 = 0 then f (i / 2) else g (i / 2)

theorem interleave_even {β : Type} (f g : ℕ → β) (j : ℕ) : interleave f g (2 * j) = f j := by
  have h1 : (2 * j) % 2 = 0 := by omega
  have h2 : 2 * j / 2 = j := by omega
  simp only [interleave, h1, h2, if_true]

theorem interleave_odd {β : Type} (f g : ℕ → β) (j : ℕ) : interleave f g (2 * j + 1) = g j := by
  have h1 : ¬ (2 * j + 1) % 2 = 0 := by omega
  have h2 : (2 * j + 1) / 2 = j := by omega
  simp only [interleave, h1, h2, if_false]

theorem interleave_odd_succ {β : Type} (f g : ℕ → β) (j : ℕ) :
    interleave f g (2 * j + 1 + 1) = f (j + 1) := by
  have e : 2 * j + 1 + 1 = 2 * (j + 1) := by omega
  rw [e, interleave_even]

theorem interleave_zero {β : Type} (f g : ℕ → β) : interleave f g 0 = f 0 :=
  interleave_even f g 0

/-- The perturbed recurrences of `m` HALF-steps of a BiCGSTAB-style run: iteration `i+1` goes from
`(x i, r i)` through `(xm i, s i)` (update `α i`, direction `p i`, computed product `v i ≈ A (p i)`) to
`(x (i+1), r (i+1))` (update `ω i`, direction `s i`, computed product `t i ≈ A (s i)`).  The first
half of iteration `i+1` is half-step `2i`, the second half is half-step `2i+1`; `m = 2k` is `k` full
iterations, `m = 2k+1` adds the first half of iteration `k+1`. -/
structure StabRun (A : E →ₗ[ℝ] E) (a u εA : ℝ) (m : ℕ) (x xm r s p v t : ℕ → E) (α ω : ℕ → ℝ) :
    Prop where
  a_nonneg : 0 ≤ a
  u_nonneg : 0 ≤ u
  ε_nonneg : 0 ≤ εA
  opA : ∀ w, ‖A w‖ ≤ a * ‖w‖
  hv : ∀ i, 2 * i < m → ‖v i - A (p i)‖ ≤ εA * a * ‖p i‖
  hxm : ∀ i, 2 * i < m →
    ‖xm i - (x i + α i • p i)‖ ≤ u * ‖x i‖ + (2 * u + u ^ 2) * ‖α i • p i‖
  hs : ∀ i, 2 * i < m →
    ‖s i - (r i - α i • v i)‖ ≤ u * ‖r i‖ + (2 * u + u ^ 2) * ‖α i • v i‖
  ht : ∀ i, 2 * i + 1 < m → ‖t i - A (s i)‖ ≤ εA * a * ‖s i‖
  hx : ∀ i, 2 * i + 1 < m →
    ‖x (i + 1) - (xm i + ω i • s i)‖ ≤ u * ‖xm i‖ + (2 * u + u ^ 2) * ‖ω i • s i‖
  hr : ∀ i, 2 * i + 1 < m →
    ‖r (i + 1) - (s i - ω i • t i)‖ ≤ u * ‖s i‖ + (2 * u + u ^ 2) * ‖ω i • t i‖

variable {A : E →ₗ[ℝ] E} {a u εA : ℝ} {m k : ℕ} {x xm r s p v t : ℕ → E} {α ω : ℕ → ℝ}

theorem StabRun.mono (H : StabRun A a u εA m x xm r s p v t α ω) {m' : ℕ} (h : m' ≤ m) :
    StabRun A a u εA m' x xm r s p v t α ω :=
  ⟨H.a_nonneg, H.u_nonneg, H.ε_nonneg, H.opA, fun i hi => H.hv i (by omega),
    fun i hi => H.hxm i (by omega), fun i hi => H.hs i (by omega), fun i hi => H.ht i (by omega),
    fun i hi => H.hx i (by omega), fun i hi => H.hr i (by omega)⟩

/-- **a BiCGSTAB-style run of `m` half-steps IS a `DriftRun` of length `m`** of the interleaved
sequences `x₀, xm₀, x₁, …`, `r₀, s₀, r₁, …`, directions `p₀, s₀, p₁, …`, products `v₀, t₀, v₁, …`,
scalars `α₀, ω₀, α₁, …` — so every theorem of C08F about `DriftRun` applies. -/
theorem StabRun.driftRun (H : StabRun A a u εA m x xm r s p v t α ω) :
    DriftRun A a u εA m (interleave x xm) (interleave r s) (interleave p s) (interleave v t)
      (interleave α ω) where
  a_nonneg := H.a_nonneg
  u_nonneg := H.u_nonneg
  ε_nonneg := H.ε_nonneg
  opA := H.opA
  hq i hi := by
    obtain ⟨j, rfl | rfl⟩ := Nat.even_or_odd' i
    · simp only [interleave_even]
      exact H.hv j hi
    · simp only [interleave_odd]
      exact H.ht j hi
  hx i hi := by
    obtain ⟨j, rfl | rfl⟩ := Nat.even_or_odd' i
    · simp only [interleave_even, interleave_odd]
      exact H.hxm j hi
    · simp only [interleave_odd, interleave_odd_succ]
      exact H.hx j hi
  hr i hi := by
    obtain ⟨j, rfl | rfl⟩ := Nat.even_or_odd' i
    · simp only [interleave_even, interleave_odd]
      exact H.hs j hi
    · simp only [interleave_odd, interleave_odd_succ]
      exact H.hr j hi

/-- **accumulated drift after `k` full iterations** (`u ≤ 1/8`, `εA ≤ cA u`; `X` bounds `x_j`
(`j ≤ k`) and `xm_j` (`j < k`), `R` bounds `r_j`, `s_j` (`j < k`)):
`‖(b − A x_k) − r_k‖ ≤ ‖d_0‖ + k · u · ((32 + 12 cA) · a · X + 2 R)`
— twice the constants of `DriftRun.bound_u`: two updates per iteration. -/
theorem StabRun.bound_full (H : StabRun A a u εA (2 * k) x xm r s p v t α ω) (b : E)
    (hu8 : u ≤ 1 / 8) (cA : ℝ) (hcA : 0 ≤ cA) (hεc : εA ≤ cA * u) (X R : ℝ)
    (hX : ∀ j, j ≤ k → ‖x j‖ ≤ X) (hXm : ∀ j, j < k → ‖xm j‖ ≤ X)
    (hR : ∀ j, j < k → ‖r j‖ ≤ R) (hS : ∀ j, j < k → ‖s j‖ ≤ R) :
    ‖drift A b (x k) (r k)‖ ≤ ‖drift A b (x 0) (r 0)‖
      + k * u * ((32 + 12 * cA) * a * X + 2 * R) := by
  have h := H.driftRun.bound_u b hu8 cA hcA hεc X R
    (by
      intro i hi
      obtain ⟨j, rfl | rfl⟩ := Nat.even_or_odd' i
      · rw [interleave_even]; exact hX j (by omega)
      · rw [interleave_odd]; exact hXm j (by omega))
    (by
      intro i hi
      obtain ⟨j, rfl | rfl⟩ := Nat.even_or_odd' i
      · rw [interleave_even]; exact hR j (by omega)
      · rw [interleave_odd]; exact hS j (by omega))
  rw [interleave_even, interleave_even, interleave_zero, interleave_zero] at h
  have e : ((2 * k : ℕ) : ℝ) * u * ((16 + 6 * cA) * a * X + R)
      = k * u * ((32 + 12 * cA) * a * X + 2 * R) := by push_cast; ring
  rw [e] at h
  exact h

/-- **accumulated drift at the half-step of iteration `k+1`** (`2k+1` half-steps; `X` bounds `x_j`,
`xm_j` (`j ≤ k`), `R` bounds `r_j` (`j ≤ k`), `s_j` (`j < k`)):
`‖(b − A xm_k) − s_k‖ ≤ ‖d_0‖ + (2k+1) · u · ((16 + 6 cA) · a · X + R)`. -/
theorem StabRun.bound_half (H : StabRun A a u εA (2 * k + 1) x xm r s p v t α ω) (b : E)
    (hu8 : u ≤ 1 / 8) (cA : ℝ) (hcA : 0 ≤ cA) (hεc : εA ≤ cA * u) (X R : ℝ)
    (hX : ∀ j, j ≤ k → ‖x j‖ ≤ X) (hXm : ∀ j, j ≤ k → ‖xm j‖ ≤ X)
    (hR : ∀ j, j ≤ k → ‖r j‖ ≤ R) (hS : ∀ j, j < k → ‖s j‖ ≤ R) :
    ‖drift A b (xm k) (s k)‖ ≤ ‖drift A b (x 0) (r 0)‖
      + (2 * k + 1) * u * ((16 + 6 * cA) * a * X + R) := by
  have h := H.driftRun.bound_u b hu8 cA hcA hεc X R
    (by
      intro i hi
      obtain ⟨j, rfl | rfl⟩ := Nat.even_or_odd' i
      · rw [interleave_even]; exact hX j (by omega)
      · rw [interleave_odd]; exact hXm j (by omega))
    (by
      intro i hi
      obtain ⟨j, rfl | rfl⟩ := Nat.even_or_odd' i
      · rw [interleave_even]; exact hR j (by omega)
      · rw [interleave_odd]; exact hS j (by omega))
  rw [interleave_odd, interleave_odd, interleave_zero, interleave_zero] at h
  have e : ((2 * k + 1 : ℕ) : ℝ) = 2 * k + 1 := by push_cast; ring
  rw [e] at h
  exact h

/-- the half-step bound in the form of the full-step bound, with `k+1` iterations counted:
`‖(b − A xm_k) − s_k‖ ≤ ‖d_0‖ + (k+1) · u · ((32 + 12 cA) · a · X + 2 R)` -/
theorem StabRun.bound_half' (H : StabRun A a u εA (2 * k + 1) x xm r s p v t α ω) (b : E)
    (hu8 : u ≤ 1 / 8) (cA : ℝ) (hcA : 0 ≤ cA) (hεc : εA ≤ cA * u) (X R : ℝ)
    (hX : ∀ j, j ≤ k → ‖x j‖ ≤ X) (hXm : ∀ j, j ≤ k → ‖xm j‖ ≤ X)
    (hR : ∀ j, j ≤ k → ‖r j‖ ≤ R) (hS : ∀ j, j < k → ‖s j‖ ≤ R) :
    ‖drift A b (xm k) (s k)‖ ≤ ‖drift A b (x 0) (r 0)‖
      + ((k + 1 : ℕ) : ℝ) * u * ((32 + 12 * cA) * a * X + 2 * R) := by
  have h := H.bound_half b hu8 cA hcA hεc X R hX hXm hR hS
  have hX0 : 0 ≤ X := (norm_nonneg _).trans (hX 0 (Nat.zero_le _))
  have hR0 : 0 ≤ R := (norm_nonneg _).trans (hR 0 (Nat.zero_le _))
  have hc : 0 ≤ (16 + 6 * cA) * a * X + R := by
    have := H.a_nonneg
    positivity
  have hu := H.u_nonneg
  have huc : 0 ≤ u * ((16 + 6 * cA) * a * X + R) := mul_nonneg hu hc
  have e : ((k + 1 : ℕ) : ℝ) * u * ((32 + 12 * cA) * a * X + 2 * R)
      = (2 * k + 1) * u * ((16 + 6 * cA) * a * X + R) + u * ((16 + 6 * cA) * a * X + R) := by
    push_cast; ring
  rw [e]
  linarith

end Abstract

/-! #### model layer: BiCGSTAB over componentwise rounded vectors `Fin n → Fl M` -/
section Model
variable {M : FlModel} {n : ℕ}

/-- the rounded product in the form `s * v[i]` -/
theorem vval_lsmul_err (k : Fl M) (v : Fin n → Fl M) :
    ‖vval (fun i => k * v i) - k.val • vval v‖ ≤ M.u * ‖k.val • vval v‖ :=
  norm_sub_le_of_componentwise M.u M.u_nonneg _ _ (fun i => by
    have := Fl.mul_err k (v i)
    simpa [vval] using this)

variable [Transc (Fl M)]
variable {mv mvT : (Fin n → Fl M) → (Fin n → Fl M)}
  {dot : (Fin n → Fl M) → (Fin n → Fl M) → Fl M} {norm2 : (Fin n → Fl M) → Fl M}
  {A : (Fin n → ℝ) →ₗ[ℝ] (Fin n → ℝ)} {a εA : ℝ}

local notation "oF" => flOps mv mvT dot norm2

/-- over `Fl M` the vector returned by the half-step exit (`x + p̂·α`, components `p̂[i] * α`) IS
the intermediate iterate of the full step (`x + α·p̂`, components `α * p̂[i]`): the rounded product is
commutative -/
theorem stabHalfX_eq_mid (rt : Fin n → Fl M) (i : ℕ) (s : StabState (Fl M) (Fin n → Fl M)) :
    stabHalfX oF rt i s = stabMidX oF rt i s := by
  funext l
  show s.x l + stabP oF rt i s l * stabAlpha oF rt i s = s.x l + stabAlpha oF rt i s * stabP oF rt i s l
  congr 1
  exact Fl.ext (by simp only [Fl.mul_val, mul_comm])

theorem stabSeqHalf_eq_mid (b x0 : Fin n → Fl M) (j : ℕ) :
    stabSeqHalf oF b x0 j = stabSeqMid oF b x0 j := stabHalfX_eq_mid _ _ _

/-- **the model's BiCGSTAB states satisfy the perturbed recurrences** (∞-norm, `u = M.u`), for every
number `m` of half-steps, every shadow residual `rt`, divisor `normb` and start state `s0`. -/
theorem stab_stabRun (H : FlMatVec mv A a εA) (rt : Fin n → Fl M) (normb : Fl M)
    (s0 : StabState (Fl M) (Fin n → Fl M)) (m : ℕ) :
    StabRun A a M.u εA m
      (fun j => vval (stabStates oF rt normb s0 j).x)
      (fun j => vval (stabMidX oF rt (j + 1) (stabStates oF rt normb s0 j)))
      (fun j => vval (stabStates oF rt normb s0 j).r)
      (fun j => vval (stabS oF rt (j + 1) (stabStates oF rt normb s0 j)))
      (fun j => vval (stabP oF rt (j + 1) (stabStates oF rt normb s0 j)))
      (fun j => vval (mv (stabP oF rt (j + 1) (stabStates oF rt normb s0 j))))
      (fun j => vval (mv (stabS oF rt (j + 1) (stabStates oF rt normb s0 j))))
      (fun j => (stabAlpha oF rt (j + 1) (stabStates oF rt normb s0 j)).val)
      (fun j => (stabOmega oF rt (j + 1) (stabStates oF rt normb s0 j)).val) where
  a_nonneg := H.a_nonneg
  u_nonneg := M.u_nonneg
  ε_nonneg := H.ε_nonneg
  opA := H.opA
  hv i _ := H.err _
  hxm i _ := by
    exact update_err M.u M.u_nonneg _ _ _ _ (vval_lsmul_err _ _) (vval_add_err _ _)
  hs i _ := by
    exact update_err_sub M.u M.u_nonneg _ _ _ _ (vval_smul_err _ _) (vval_sub_err _ _)
  ht i _ := H.err _
  hx i _ := by
    exact update_err M.u M.u_nonneg _ _ _ _ (vval_lsmul_err _ _) (vval_add_err _ _)
  hr i _ := by
    exact update_err_sub M.u M.u_nonneg _ _ _ _ (vval_smul_err _ _) (vval_sub_err _ _)

/-- **`stab_drift_bound`: the drift of the model's BiCGSTAB after `k` full iterations** (standard
model, ∞-norm).  With `st j = stabSeq … j` the computed states of `solveBiCGSTAB (flOps mv …) b x0 …`,
`X` a bound of the iterates `x_j` (`j ≤ k`) and of the intermediate iterates `x_j + α p̂` (`j < k`),
`R` a bound of the recurrence residuals `r_j` and of the half-step residuals `s_j` (`j < k`),
`M.u ≤ 1/8` and product error `εA ≤ cA · u`:
`‖(b − A x_k) − r_k‖∞ ≤ u (‖b‖ + (1 + 2 cA) a X) + k · u · ((32 + 12 cA) a X + 2 R)`
(the first term bounds the initial drift of `r_0 = b − mv x_0`). -/
theorem stab_drift_bound (H : FlMatVec mv A a εA) (b x0 : Fin n → Fl M) (k : ℕ)
    (hu8 : M.u ≤ 1 / 8) (cA : ℝ) (hcA : 0 ≤ cA) (hεc : εA ≤ cA * M.u) (X R : ℝ)
    (hX : ∀ j, j ≤ k → ‖vval (stabSeq oF b x0 j).x‖ ≤ X)
    (hXm : ∀ j, j < k → ‖vval (stabSeqMid oF b x0 j)‖ ≤ X)
    (hR : ∀ j, j < k → ‖vval (stabSeq oF b x0 j).r‖ ≤ R)
    (hS : ∀ j, j < k → ‖vval (stabSeqS oF b x0 j)‖ ≤ R) :
    ‖(vval b - A (vval (stabSeq oF b x0 k).x)) - vval (stabSeq oF b x0 k).r‖
      ≤ M.u * (‖vval b‖ + (1 + 2 * cA) * a * X)
        + k * M.u * ((32 + 12 * cA) * a * X + 2 * R) := by
  have D := stab_stabRun (mvT := mvT) (dot := dot) (norm2 := norm2) H
    (fun i => b i - mv x0 i) (guardNorm (norm2 b)) (stabInit oF b x0 (guardNorm (norm2 b))) (2 * k)
  have hb := D.bound_full (vval b) hu8 cA hcA hεc X R hX hXm hR hS
  have h0 := drift_init_u A a M.u εA H.a_nonneg M.u_nonneg H.ε_nonneg H.opA (vval b) (vval x0)
    (vval (mv x0)) (vval (fun i => b i - mv x0 i)) (H.err x0) (vval_sub_err b (mv x0))
    hu8 cA hcA hεc X (hX 0 (Nat.zero_le _))
  have hb' : ‖drift A (vval b) (vval (stabSeq oF b x0 k).x) (vval (stabSeq oF b x0 k).r)‖
      ≤ ‖drift A (vval b) (vval x0) (vval (fun i => b i - mv x0 i))‖
        + k * M.u * ((32 + 12 * cA) * a * X + 2 * R) := hb
  unfold drift at hb' h0
  linarith

/-- **the drift at the half-step of iteration `k+1`**: the vector `x_k + p̂·α` returned by the
half-step exit (it received only `α p̂`) against the half-step residual `s_k` the model tests there:
`‖(b − A (x_k + p̂ α)) − s_k‖∞ ≤ u (‖b‖ + (1 + 2 cA) a X) + (k+1) · u · ((32 + 12 cA) a X + 2 R)`
(`X` bounds `x_j`, `x_j + α p̂` for `j ≤ k`; `R` bounds `r_j` for `j ≤ k` and `s_j` for `j < k`). -/
theorem stab_drift_bound_half (H : FlMatVec mv A a εA) (b x0 : Fin n → Fl M) (k : ℕ)
    (hu8 : M.u ≤ 1 / 8) (cA : ℝ) (hcA : 0 ≤ cA) (hεc : εA ≤ cA * M.u) (X R : ℝ)
    (hX : ∀ j, j ≤ k → ‖vval (stabSeq oF b x0 j).x‖ ≤ X)
    (hXm : ∀ j, j ≤ k → ‖vval (stabSeqMid oF b x0 j)‖ ≤ X)
    (hR : ∀ j, j ≤ k → ‖vval (stabSeq oF b x0 j).r‖ ≤ R)
    (hS : ∀ j, j < k → ‖vval (stabSeqS oF b x0 j)‖ ≤ R) :
    ‖(vval b - A (vval (stabSeqHalf oF b x0 k))) - vval (stabSeqS oF b x0 k)‖
      ≤ M.u * (‖vval b‖ + (1 + 2 * cA) * a * X)
        + ((k + 1 : ℕ) : ℝ) * M.u * ((32 + 12 * cA) * a * X + 2 * R) := by
  rw [stabSeqHalf_eq_mid]
  have D := stab_stabRun (mvT := mvT) (dot := dot) (norm2 := norm2) H
    (fun i => b i - mv x0 i) (guardNorm (norm2 b)) (stabInit oF b x0 (guardNorm (norm2 b)))
    (2 * k + 1)
  have hb := D.bound_half' (vval b) hu8 cA hcA hεc X R hX hXm hR hS
  have h0 := drift_init_u A a M.u εA H.a_nonneg M.u_nonneg H.ε_nonneg H.opA (vval b) (vval x0)
    (vval (mv x0)) (vval (fun i => b i - mv x0 i)) (H.err x0) (vval_sub_err b (mv x0))
    hu8 cA hcA hεc X (hX 0 (Nat.zero_le _))
  have hb' : ‖drift A (vval b) (vval (stabSeqMid oF b x0 k)) (vval (stabSeqS oF b x0 k))‖
      ≤ ‖drift A (vval b) (vval x0) (vval (fun i => b i - mv x0 i))‖
        + ((k + 1 : ℕ) : ℝ) * M.u * ((32 + 12 * cA) * a * X + 2 * R) := hb
  unfold drift at hb' h0
  linarith

/-- **C08 quantitative clause for the model's BiCGSTAB** (standard model, ∞-norm).  Let
`out = solveBiCGSTAB (flOps mv mvT dot norm2) b x0 maxIter tol` report success.  Let `X` bound the
computed iterates `x_j`, the intermediate iterates `x_j + α p̂` (`j < iters`) and the returned `x`,
and `R` the recurrence residuals `r_j` and the half-step residuals `s_j` (`j < iters`); `M.u ≤ 1/8`,
product error `εA ≤ cA · u`.  Then the vector `rk` the model tested at its exit — `r` of state
`iters` (initial test, or full-step exit of iteration `iters`) or the half-step residual `s` of
iteration `iters` (half-step exit, where `x` has received only `α p̂`) — passed the model's test
and the TRUE residual of the returned `x` differs from it by at most
`u (‖b‖ + (1 + 2 cA) a X) + iters · u · ((32 + 12 cA) a X + 2 R)`. -/
theorem stab_success_true_residual (H : FlMatVec mv A a εA) (b x0 : Fin n → Fl M) (maxIter : ℕ)
    (tol : Fl M) (hu8 : M.u ≤ 1 / 8) (cA : ℝ) (hcA : 0 ≤ cA) (hεc : εA ≤ cA * M.u) (X R : ℝ)
    (hok : (solveBiCGSTAB oF b x0 maxIter tol).ok = true)
    (hX : ∀ j, j < (solveBiCGSTAB oF b x0 maxIter tol).iters → ‖vval (stabSeq oF b x0 j).x‖ ≤ X)
    (hXm : ∀ j, j < (solveBiCGSTAB oF b x0 maxIter tol).iters → ‖vval (stabSeqMid oF b x0 j)‖ ≤ X)
    (hXo : ‖vval (solveBiCGSTAB oF b x0 maxIter tol).x‖ ≤ X)
    (hR : ∀ j, j < (solveBiCGSTAB oF b x0 maxIter tol).iters → ‖vval (stabSeq oF b x0 j).r‖ ≤ R)
    (hS : ∀ j, j < (solveBiCGSTAB oF b x0 maxIter tol).iters → ‖vval (stabSeqS oF b x0 j)‖ ≤ R) :
    ∃ rk : Fin n → Fl M,
      (rk = (stabSeq oF b x0 (solveBiCGSTAB oF b x0 maxIter tol).iters).r ∨
        ∃ k, (solveBiCGSTAB oF b x0 maxIter tol).iters = k + 1 ∧ rk = stabSeqS oF b x0 k) ∧
      (solveBiCGSTAB oF b x0 maxIter tol).iters ≤ maxIter ∧
      Transc.le (norm2 rk / guardNorm (norm2 b)) tol = true ∧
      ‖(vval b - A (vval (solveBiCGSTAB oF b x0 maxIter tol).x)) - vval rk‖
        ≤ M.u * (‖vval b‖ + (1 + 2 * cA) * a * X)
          + (solveBiCGSTAB oF b x0 maxIter tol).iters * M.u * ((32 + 12 * cA) * a * X + 2 * R) := by
  obtain ⟨hit, hcase⟩ := solveBiCGSTAB_trace oF b x0 maxIter tol hok
  rcases hcase with ⟨e0, ex, ht⟩ | ⟨k, ek, ex, ht⟩ | ⟨k, ek, ex, ht⟩
  · -- initial test
    refine ⟨(stabSeq oF b x0 0).r, Or.inl (by rw [e0]), hit, ht, ?_⟩
    have hx0 : ‖vval (stabSeq oF b x0 0).x‖ ≤ X := by
      rw [ex] at hXo
      exact hXo
    have hb := stab_drift_bound (mvT := mvT) (dot := dot) (norm2 := norm2) H b x0 0 hu8 cA hcA hεc X R
      (fun j hj => by
        have : j = 0 := by omega
        subst this
        exact hx0)
      (fun j hj => absurd hj (Nat.not_lt_zero _)) (fun j hj => absurd hj (Nat.not_lt_zero _))
      (fun j hj => absurd hj (Nat.not_lt_zero _))
    rw [e0, ex]
    exact hb
  · -- half-step exit of iteration k+1
    refine ⟨stabSeqS oF b x0 k, Or.inr ⟨k, ek, rfl⟩, hit, ht, ?_⟩
    have hb := stab_drift_bound_half (mvT := mvT) (dot := dot) (norm2 := norm2) H b x0 k hu8 cA hcA
      hεc X R (fun j hj => hX j (by omega)) (fun j hj => hXm j (by omega))
      (fun j hj => hR j (by omega)) (fun j hj => hS j (by omega))
    rw [ek, ex]
    exact hb
  · -- full-step exit of iteration k+1
    refine ⟨(stabSeq oF b x0 (k + 1)).r, Or.inl (by rw [ek]), hit, stabLt_le ht, ?_⟩
    have hb := stab_drift_bound (mvT := mvT) (dot := dot) (norm2 := norm2) H b x0 (k + 1) hu8 cA hcA
      hεc X R
      (fun j hj => by
        rcases Nat.lt_or_ge j (k + 1) with h | h
        · exact hX j (by omega)
        · have : j = k + 1 := by omega
          subst this
          rw [ex] at hXo
          exact hXo)
      (fun j hj => hXm j (by omega)) (fun j hj => hR j (by omega)) (fun j hj => hS j (by omega))
    rw [ek, ex]
    exact hb

/-- the same with the norm of the tested vector: if passing the model's stopping test (arbitrary
`norm2`, rounded `/`, arbitrary comparison) implies `‖rk‖∞ ≤ τ`, then on success
`‖b − A x_out‖∞ ≤ τ + u (‖b‖ + (1 + 2 cA) a X) + iters · u · ((32 + 12 cA) a X + 2 R)`. -/
theorem stab_success_true_residual_norm (H : FlMatVec mv A a εA) (b x0 : Fin n → Fl M)
    (maxIter : ℕ) (tol : Fl M) (hu8 : M.u ≤ 1 / 8) (cA : ℝ) (hcA : 0 ≤ cA) (hεc : εA ≤ cA * M.u)
    (X R τ : ℝ)
    (htest : ∀ r : Fin n → Fl M, Transc.le (norm2 r / guardNorm (norm2 b)) tol = true →
      ‖vval r‖ ≤ τ)
    (hok : (solveBiCGSTAB oF b x0 maxIter tol).ok = true)
    (hX : ∀ j, j < (solveBiCGSTAB oF b x0 maxIter tol).iters → ‖vval (stabSeq oF b x0 j).x‖ ≤ X)
    (hXm : ∀ j, j < (solveBiCGSTAB oF b x0 maxIter tol).iters → ‖vval (stabSeqMid oF b x0 j)‖ ≤ X)
    (hXo : ‖vval (solveBiCGSTAB oF b x0 maxIter tol).x‖ ≤ X)
    (hR : ∀ j, j < (solveBiCGSTAB oF b x0 maxIter tol).iters → ‖vval (stabSeq oF b x0 j).r‖ ≤ R)
    (hS : ∀ j, j < (solveBiCGSTAB oF b x0 maxIter tol).iters → ‖vval (stabSeqS oF b x0 j)‖ ≤ R) :
    ‖vval b - A (vval (solveBiCGSTAB oF b x0 maxIter tol).x)‖
      ≤ τ + M.u * (‖vval b‖ + (1 + 2 * cA) * a * X)
        + (solveBiCGSTAB oF b x0 maxIter tol).iters * M.u * ((32 + 12 * cA) * a * X + 2 * R) := by
  obtain ⟨rk, _, _, ht, hd⟩ :=
    stab_success_true_residual H b x0 maxIter tol hu8 cA hcA hεc X R hok hX hXm hXo hR hS
  have h1 := htest rk ht
  have h2 := norm_add_le
    ((vval b - A (vval (solveBiCGSTAB oF b x0 maxIter tol).x)) - vval rk) (vval rk)
  rw [sub_add_cancel] at h2
  linarith

end Model

/-! #### (4) the drift bound for the model's `solve_bicgstab` -/
section Sparse
variable {M : FlModel} [Transc (Fl M)]
open Ohsl.Props.C07 (entryR rowCount colCount NoDup)

/-- **BiCGSTAB on arrays over `Fl M`** (the iteration `solveIter` runs once its guards have passed):
the statement of `stab_success_true_residual` with everything read at the array level. -/
theorem stab_success_true_residual_arr {s : Sp (Fl M)} {n : Nat} (h : SqWF s n)
    {A : (Fin n → ℝ) →ₗ[ℝ] (Fin n → ℝ)} {a εA : ℝ} (H : FlMatVec (mvOf s n) A a εA)
    (norm2 : Array (Fl M) → Fl M) (b x0 : Array (Fl M)) (hb : b.size = n) (hx : x0.size = n)
    (maxIter : ℕ) (tol : Fl M)
    (hu8 : M.u ≤ 1 / 8) (cA : ℝ) (hcA : 0 ≤ cA) (hεc : εA ≤ cA * M.u) (X R : ℝ)
    (hok : (solveBiCGSTAB (arrOps s n norm2) b x0 maxIter tol).ok = true)
    (hX : ∀ j, j < (solveBiCGSTAB (arrOps s n norm2) b x0 maxIter tol).iters →
      ‖rval n (stabSeq (arrOps s n norm2) b x0 j).x‖ ≤ X)
    (hXm : ∀ j, j < (solveBiCGSTAB (arrOps s n norm2) b x0 maxIter tol).iters →
      ‖rval n (stabSeqMid (arrOps s n norm2) b x0 j)‖ ≤ X)
    (hXo : ‖rval n (solveBiCGSTAB (arrOps s n norm2) b x0 maxIter tol).x‖ ≤ X)
    (hR : ∀ j, j < (solveBiCGSTAB (arrOps s n norm2) b x0 maxIter tol).iters →
      ‖rval n (stabSeq (arrOps s n norm2) b x0 j).r‖ ≤ R)
    (hS : ∀ j, j < (solveBiCGSTAB (arrOps s n norm2) b x0 maxIter tol).iters →
      ‖rval n (stabSeqS (arrOps s n norm2) b x0 j)‖ ≤ R) :
    (solveBiCGSTAB (arrOps s n norm2) b x0 maxIter tol).x.size = n ∧
    (solveBiCGSTAB (arrOps s n norm2) b x0 maxIter tol).iters ≤ maxIter ∧
    ∃ rk : Array (Fl M),
      (rk = (stabSeq (arrOps s n norm2) b x0
          (solveBiCGSTAB (arrOps s n norm2) b x0 maxIter tol).iters).r ∨
        ∃ k, (solveBiCGSTAB (arrOps s n norm2) b x0 maxIter tol).iters = k + 1 ∧
          rk = stabSeqS (arrOps s n norm2) b x0 k) ∧
      rk.size = n ∧
      Transc.le (norm2 rk / guardNorm (norm2 b)) tol = true ∧
      ‖(rval n b - A (rval n (solveBiCGSTAB (arrOps s n norm2) b x0 maxIter tol).x)) - rval n rk‖
        ≤ M.u * (‖rval n b‖ + (1 + 2 * cA) * a * X)
          + (solveBiCGSTAB (arrOps s n norm2) b x0 maxIter tol).iters * M.u
              * ((32 + 12 * cA) * a * X + 2 * R) := by
  obtain ⟨hsz, e1, e2, e4⟩ := stab_sim_fl h norm2 b x0 hb hx maxIter tol
  have hbb : Array.ofFn (arrFn n b) = b := ofFn_arrFn b hb
  have T := stabSeq_sim_fl h norm2 b x0 hb hx
  have key := stab_success_true_residual (mvT := mvTOf s n) (dot := dotOf n)
    (norm2 := fun f => norm2 (Array.ofFn f)) H
    (arrFn n b) (arrFn n x0) maxIter tol hu8 cA hcA hεc X R (e1.trans hok)
    (by
      intro j hj
      rw [(T j).2.2.2.1]
      exact hX j (e2 ▸ hj))
    (by
      intro j hj
      rw [(T j).2.2.2.2.2.2]
      exact hXm j (e2 ▸ hj))
    (by
      rw [e4]
      exact hXo)
    (by
      intro j hj
      rw [(T j).2.2.2.2.1]
      exact hR j (e2 ▸ hj))
    (by
      intro j hj
      rw [(T j).2.2.2.2.2.1]
      exact hS j (e2 ▸ hj))
  obtain ⟨rk, hrk, hit, ht, hd⟩ := key
  simp only [hbb] at ht
  rw [e2] at hrk hit hd
  rw [e4] at hd
  rcases hrk with hrk | ⟨k, ek, hrk⟩
  · rw [(T _).2.2.2.2.1] at hrk
    refine ⟨hsz, hit, _, Or.inl rfl, (T _).2.1, ?_, ?_⟩
    · rw [hrk, ofFn_arrFn _ (T _).2.1] at ht
      exact ht
    · rw [hrk] at hd
      exact hd
  · rw [(T k).2.2.2.2.2.1] at hrk
    refine ⟨hsz, hit, _, Or.inr ⟨k, ek, rfl⟩, (T k).2.2.1, ?_, ?_⟩
    · rw [hrk, ofFn_arrFn _ (T k).2.2.1] at ht
      exact ht
    · rw [hrk] at hd
      exact hd

/-- on a well-formed square storage over `Fl M` with right-hand side and guess of size `n` the call
`solve_bicgstab` does return a value: the iteration over `arrOps` -/
theorem solveIter_runs_stab {s : Sp (Fl M)} {n : Nat} (h : SqWF s n) (norm2 : Array (Fl M) → Fl M)
    (b x0 : Array (Fl M)) (hb : b.size = n) (hx : x0.size = n) (maxIter : ℕ) (tol : Fl M) :
    Sp.solveIter s .bicgstab b x0 maxIter tol norm2
      = .ok (solveBiCGSTAB (Sp.arrOps s n norm2) b x0 maxIter tol) := by
  obtain ⟨y, hy, _⟩ := C07.multiply_fold h.wf x0 (hx.trans h.cols.symm)
  have g : Guards s .bicgstab b x0 :=
    ⟨h.rows.trans hb.symm, h.rows.trans h.cols.symm, hb.trans hx.symm, fun _ hm => by cases hm⟩
  rw [solveIter_ok s .bicgstab b x0 maxIter tol norm2 g ⟨y, hy⟩, h.rows]
  rfl

/-- **`solve_bicgstab` of the model, any real matrix the product is known to approximate**: the
product assumption `FlMatVec (mvOf s n) A a εA` about the MODEL's product is a hypothesis
(`flMatVec_multiply` provides it for duplicate-free storage, `flMatVec_multiply_slots` for every
well-formed storage). -/
theorem stab_success_true_residual_sparse_of {s : Sp (Fl M)} {n : Nat} (h : SqWF s n)
    {A : (Fin n → ℝ) →ₗ[ℝ] (Fin n → ℝ)} {a εA : ℝ} (H : FlMatVec (mvOf s n) A a εA)
    (norm2 : Array (Fl M) → Fl M) (b x0 : Array (Fl M)) (maxIter : ℕ) (tol : Fl M)
    (out : KOut (Fl M) (Array (Fl M)))
    (hrun : Sp.solveIter s .bicgstab b x0 maxIter tol norm2 = .ok out) (hok : out.ok = true)
    (hu8 : M.u ≤ 1 / 8) (cA : ℝ) (hcA : 0 ≤ cA) (hεc : εA ≤ cA * M.u) (X R : ℝ)
    (hX : ∀ j, j < out.iters → ‖rval n (stabSeq (Sp.arrOps s n norm2) b x0 j).x‖ ≤ X)
    (hXm : ∀ j, j < out.iters → ‖rval n (stabSeqMid (Sp.arrOps s n norm2) b x0 j)‖ ≤ X)
    (hXo : ‖rval n out.x‖ ≤ X)
    (hR : ∀ j, j < out.iters → ‖rval n (stabSeq (Sp.arrOps s n norm2) b x0 j).r‖ ≤ R)
    (hS : ∀ j, j < out.iters → ‖rval n (stabSeqS (Sp.arrOps s n norm2) b x0 j)‖ ≤ R) :
    out.x.size = n ∧ out.iters ≤ maxIter ∧
    ∃ rk : Array (Fl M),
      (rk = (stabSeq (Sp.arrOps s n norm2) b x0 out.iters).r ∨
        ∃ k, out.iters = k + 1 ∧ rk = stabSeqS (Sp.arrOps s n norm2) b x0 k) ∧
      rk.size = n ∧
      Transc.le (norm2 rk / guardNorm (norm2 b)) tol = true ∧
      ‖(rval n b - A (rval n out.x)) - rval n rk‖
        ≤ M.u * (‖rval n b‖ + (1 + 2 * cA) * a * X)
          + out.iters * M.u * ((32 + 12 * cA) * a * X + 2 * R) := by
  obtain ⟨hb, hx, rfl⟩ := solveIter_run h norm2 .bicgstab b x0 maxIter tol out hrun
  exact stab_success_true_residual_arr h H norm2 b x0 hb hx maxIter tol hu8 cA hcA hεc X R hok
    hX hXm hXo hR hS

/-- **C08, quantitative clause, for the model's `solve_bicgstab`** (`Sp.solveIter s .bicgstab` at
scalars `Fl M`, standard model of floating-point arithmetic, ∞-norm).  Let `s` be a well-formed
duplicate-free square storage of order `n`, `A = sqMat s n` the REAL matrix it denotes, `a` a bound
of its absolute row sums (`a ≥ ‖A‖∞`), `kA` a bound of the number of stored entries per row,
`M.u ≤ 1/8` and `(1+u)^(kA+1) − 1 ≤ cA · u`.  If the call returns `out` reporting success, `X` bounds
the computed iterates `x_j`, intermediate iterates `x_j + α p̂` (`j < iters`) and the returned `x`,
and `R` the recurrence residuals `r_j` and half-step residuals `s_j` (`j < iters`), then `out.x` has
size `n`, `out.iters ≤ maxIter`, the vector `rk` tested at the exit (`r` of state `iters`, or `s` of
iteration `iters` at the half-step exit) passed the model's test, and the TRUE residual
`b − A·out.x`, formed in REAL arithmetic from the values of the arrays, differs from it by at most
`u (‖b‖ + (1 + 2 cA) a X) + iters · u · ((32 + 12 cA) a X + 2 R)`.
`norm2` and the comparison `Transc.le` are arbitrary; the product and the dot product are the
model's (`Sp.multiply`, fold of rounded products). -/
theorem stab_success_true_residual_sparse {s : Sp (Fl M)} {n : Nat} (h : SqWF s n) (hnd : NoDup s)
    (norm2 : Array (Fl M) → Fl M) (b x0 : Array (Fl M)) (maxIter : ℕ) (tol : Fl M)
    (out : KOut (Fl M) (Array (Fl M)))
    (hrun : Sp.solveIter s .bicgstab b x0 maxIter tol norm2 = .ok out) (hok : out.ok = true)
    (a : ℝ) (ha : 0 ≤ a) (hrow : ∀ i, ∑ j, |sqMat s n i j| ≤ a)
    (kA : ℕ) (hk : ∀ i, i < n → rowCount s i ≤ kA)
    (hu8 : M.u ≤ 1 / 8) (cA : ℝ) (hcA : 0 ≤ cA) (hεc : M.gam (kA + 1) ≤ cA * M.u) (X R : ℝ)
    (hX : ∀ j, j < out.iters → ‖rval n (stabSeq (Sp.arrOps s n norm2) b x0 j).x‖ ≤ X)
    (hXm : ∀ j, j < out.iters → ‖rval n (stabSeqMid (Sp.arrOps s n norm2) b x0 j)‖ ≤ X)
    (hXo : ‖rval n out.x‖ ≤ X)
    (hR : ∀ j, j < out.iters → ‖rval n (stabSeq (Sp.arrOps s n norm2) b x0 j).r‖ ≤ R)
    (hS : ∀ j, j < out.iters → ‖rval n (stabSeqS (Sp.arrOps s n norm2) b x0 j)‖ ≤ R) :
    out.x.size = n ∧ out.iters ≤ maxIter ∧
    ∃ rk : Array (Fl M),
      (rk = (stabSeq (Sp.arrOps s n norm2) b x0 out.iters).r ∨
        ∃ k, out.iters = k + 1 ∧ rk = stabSeqS (Sp.arrOps s n norm2) b x0 k) ∧
      rk.size = n ∧
      Transc.le (norm2 rk / guardNorm (norm2 b)) tol = true ∧
      ‖(rval n b - rowLin (sqMat s n) (rval n out.x)) - rval n rk‖
        ≤ M.u * (‖rval n b‖ + (1 + 2 * cA) * a * X)
          + out.iters * M.u * ((32 + 12 * cA) * a * X + 2 * R) :=
  stab_success_true_residual_sparse_of h (flMatVec_multiply h hnd a ha hrow kA hk) norm2 b x0
    maxIter tol out hrun hok hu8 cA hcA hεc X R hX hXm hXo hR hS

/-- **the same with the norm of the tested vector and explicit constants**: `a = ‖A‖∞` (`normInf`),
`εA = (1+u)^(n+1) − 1 ≤ 2(n+1)u` when `(n+1) u ≤ 1/2` (so `cA = 2(n+1)`).  If passing the model's
stopping test (arbitrary `norm2`, rounded `/`, arbitrary comparison) implies `‖r‖∞ ≤ τ` for arrays of
size `n`, then on success
`‖b − A·out.x‖∞ ≤ τ + u (‖b‖ + (4n+5) ‖A‖∞ X) + iters · u · ((24n+56) ‖A‖∞ X + 2 R)`. -/
theorem stab_success_true_residual_norm_sparse {s : Sp (Fl M)} {n : Nat} (h : SqWF s n)
    (hnd : NoDup s) (norm2 : Array (Fl M) → Fl M) (b x0 : Array (Fl M)) (maxIter : ℕ) (tol : Fl M)
    (out : KOut (Fl M) (Array (Fl M)))
    (hrun : Sp.solveIter s .bicgstab b x0 maxIter tol norm2 = .ok out) (hok : out.ok = true)
    (hu8 : M.u ≤ 1 / 8) (hnu : ((n + 1 : ℕ) : ℝ) * M.u ≤ 1 / 2) (X R τ : ℝ)
    (htest : ∀ r : Array (Fl M), r.size = n →
      Transc.le (norm2 r / guardNorm (norm2 b)) tol = true → ‖rval n r‖ ≤ τ)
    (hX : ∀ j, j < out.iters → ‖rval n (stabSeq (Sp.arrOps s n norm2) b x0 j).x‖ ≤ X)
    (hXm : ∀ j, j < out.iters → ‖rval n (stabSeqMid (Sp.arrOps s n norm2) b x0 j)‖ ≤ X)
    (hXo : ‖rval n out.x‖ ≤ X)
    (hR : ∀ j, j < out.iters → ‖rval n (stabSeq (Sp.arrOps s n norm2) b x0 j).r‖ ≤ R)
    (hS : ∀ j, j < out.iters → ‖rval n (stabSeqS (Sp.arrOps s n norm2) b x0 j)‖ ≤ R) :
    ‖rval n b - rowLin (sqMat s n) (rval n out.x)‖
      ≤ τ + M.u * (‖rval n b‖ + (4 * n + 5) * normInf (sqMat s n) * X)
        + out.iters * M.u * ((24 * n + 56) * normInf (sqMat s n) * X + 2 * R) := by
  obtain ⟨_, _, rk, _, hsz, ht, hd⟩ := stab_success_true_residual_sparse h hnd norm2 b x0 maxIter
    tol out hrun hok (normInf (sqMat s n)) (normInf_nonneg _) (row_le_normInf _) n
    (fun i _ => by have := C07.rowCount_le_cols h.wf hnd i; rw [h.cols] at this; exact this)
    hu8 (2 * (n + 1 : ℕ)) (by positivity) (gam_le_two_mul (n + 1) hnu) X R hX hXm hXo hR hS
  have h1 := htest rk hsz ht
  have h2 := norm_add_le ((rval n b - rowLin (sqMat s n) (rval n out.x)) - rval n rk) (rval n rk)
  rw [sub_add_cancel] at h2
  have e1 : (1 + 2 * (2 * ((n + 1 : ℕ) : ℝ))) = 4 * n + 5 := by push_cast; ring
  have e2 : (32 + 12 * (2 * ((n + 1 : ℕ) : ℝ))) = 24 * n + 56 := by push_cast; ring
  rw [e1, e2] at hd
  linarith

end Sparse

end Rounding

/-! ### non-vacuity -/
section Examples
open Ohsl.Props.C07 (rowCount colCount NoDup)

/-- (S) a run that fails the initial test, has `ρ ≠ 0`, and passes the half-step test of the first
iteration -/
theorem solveBiCGSTAB_first_half {K V : Type} [Add K] [Sub K] [Mul K] [Neg K] [Div K] [Zero K]
    [One K] [BEq K] [Transc K] (o : VOps K V) (b x : V) (m : Nat) (tol : K)
    (h0 : Transc.le (o.norm2 (o.sub b (o.A x)) / guardNorm (o.norm2 b)) tol = false)
    (hρ : (stabRho o (o.sub b (o.A x)) (stabSeq o b x 0) == 0) = false)
    (h1 : Transc.le (o.norm2 (stabSeqS o b x 0) / guardNorm (o.norm2 b)) tol = true) :
    solveBiCGSTAB o b x (m + 1) tol
      = ⟨true, 1, o.norm2 (stabSeqS o b x 0) / guardNorm (o.norm2 b), stabSeqHalf o b x 0⟩ := by
  rw [solveBiCGSTAB_eq, if_neg (by rw [h0]; exact Bool.false_ne_true)]
  unfold iterate
  rw [stabStep_eq_next]
  have hρ' : (stabRho o (o.sub b (o.A x)) (stabStates o (o.sub b (o.A x)) (guardNorm (o.norm2 b))
      (stabInit o b x (guardNorm (o.norm2 b))) 0) == 0) = false := hρ
  rw [if_neg (by rw [hρ']; exact Bool.false_ne_true)]
  have h1' : Transc.le (o.norm2 (stabS o (o.sub b (o.A x)) (0 + 1)
      (stabStates o (o.sub b (o.A x)) (guardNorm (o.norm2 b))
        (stabInit o b x (guardNorm (o.norm2 b))) 0)) / guardNorm (o.norm2 b)) tol = true := h1
  rw [if_pos h1']
  rfl

private theorem Fl_mk_add' {M : FlModel} (a b : ℝ) : ((⟨a⟩ : Fl M) + ⟨b⟩) = ⟨M.fl (a + b)⟩ := rfl
private theorem Fl_mk_sub' {M : FlModel} (a b : ℝ) : ((⟨a⟩ : Fl M) - ⟨b⟩) = ⟨M.fl (a - b)⟩ := rfl
private theorem Fl_mk_mul' {M : FlModel} (a b : ℝ) : ((⟨a⟩ : Fl M) * ⟨b⟩) = ⟨M.fl (a * b)⟩ := rfl
private theorem Fl_mk_div' {M : FlModel} (a b : ℝ) : ((⟨a⟩ : Fl M) / ⟨b⟩) = ⟨M.fl (a / b)⟩ := rfl
private theorem Fl_zero_mk' {M : FlModel} (a : ℝ) : (0 : Fl M) + ⟨a⟩ = ⟨M.fl (0 + a)⟩ := rfl

/-- **a BiCGSTAB run that succeeds THROUGH THE LOOP, in every model in which the integers
`0, ±1, ±2` are representable** (`binary64`, `exact`, …): the model's BiCGSTAB on
`[[2,1],[1,2]] x = [1,−1]` from `x₀ = 0` with `tol = 0` is not accepted at the initial check
(relative residual `1`), has `ρ = 2 ≠ 0`, `α = 1`, half-step residual `s = [0,0]`, and leaves at the
HALF-STEP exit of iteration 1 with `x = x₀ + p̂·α = [1,−1]`. -/
theorem spd2F_stab_run (M : FlModel) (hrep : ∀ k : ℤ, |k| ≤ 2 → M.fl k = k) :
    letI := leTransc M
    solveBiCGSTAB (Sp.arrOps (spd2F M) 2 nrm1) #[⟨1⟩, ⟨-1⟩] #[⟨0⟩, ⟨0⟩] 5 ⟨0⟩
      = ⟨true, 1, ⟨0⟩, #[⟨1⟩, ⟨-1⟩]⟩ := by
  let _ := leTransc M
  have f0 : M.fl 0 = 0 := M.fl_zero
  have f1 : M.fl 1 = 1 := by simpa using hrep 1 (by norm_num)
  have f2 : M.fl 2 = 2 := by simpa using hrep 2 (by norm_num)
  have fm1 : M.fl (-1) = -1 := by simpa using hrep (-1) (by norm_num)
  have fm2 : M.fl (-2) = -2 := by simpa using hrep (-2) (by norm_num)
  set o := Sp.arrOps (spd2F M) 2 (nrm1 (M := M)) with ho
  have hA : ∀ x0 x1 : Fl M, o.A #[x0, x1]
      = #[0 + ⟨2⟩ * x0 + ⟨1⟩ * x1, 0 + ⟨1⟩ * x0 + ⟨2⟩ * x1] := fun _ _ => rfl
  have hsub : ∀ a0 a1 b0 b1 : Fl M, o.sub #[a0, a1] #[b0, b1] = #[a0 - b0, a1 - b1] :=
    fun _ _ _ _ => by simp [o, Sp.arrOps]
  have hadd : ∀ a0 a1 b0 b1 : Fl M, o.add #[a0, a1] #[b0, b1] = #[a0 + b0, a1 + b1] :=
    fun _ _ _ _ => by simp [o, Sp.arrOps]
  have hsmul : ∀ (a0 a1 k : Fl M), o.smul #[a0, a1] k = #[a0 * k, a1 * k] :=
    fun _ _ _ => by simp [o, Sp.arrOps]
  have hdot : ∀ a0 a1 b0 b1 : Fl M, o.dot #[a0, a1] #[b0, b1] = 0 + a0 * b0 + a1 * b1 :=
    fun _ _ _ _ => by simp [o, Sp.arrOps]
  have hnrm : ∀ a0 a1 : Fl M, o.norm2 #[a0, a1] = ⟨|a0.val| + |a1.val|⟩ := fun _ _ => rfl
  have hnb : guardNorm (o.norm2 #[⟨1⟩, ⟨-1⟩]) = (⟨2⟩ : Fl M) := by
    rw [hnrm]
    have : (⟨|(1:ℝ)| + |(-1:ℝ)|⟩ : Fl M) = ⟨2⟩ := by
      apply Fl.ext; norm_num
    rw [this]
    unfold guardNorm
    rw [if_neg]
    simp [Fl.ext_iff]
  have hAx0 : o.A #[⟨0⟩, ⟨0⟩] = #[⟨0⟩, ⟨0⟩] := by
    rw [hA]; norm_num [Fl_mk_add', Fl_mk_mul', Fl_zero_mk', f0]
  have hr0 : o.sub #[⟨1⟩, ⟨-1⟩] (o.A #[⟨0⟩, ⟨0⟩]) = #[⟨1⟩, ⟨-1⟩] := by
    rw [hAx0, hsub]; norm_num [Fl_mk_sub', f1, fm1]
  have hq : o.A #[⟨1⟩, ⟨-1⟩] = #[⟨1⟩, ⟨-1⟩] := by
    rw [hA]; norm_num [Fl_mk_add', Fl_mk_mul', Fl_zero_mk', f0, f1, f2, fm1, fm2]
  have hrho : o.dot #[⟨1⟩, ⟨-1⟩] #[⟨1⟩, ⟨-1⟩] = ⟨2⟩ := by
    rw [hdot]; norm_num [Fl_mk_add', Fl_mk_mul', Fl_zero_mk', f0, f1, f2, fm1, fm2]
  have hS0 : stabSeq o #[⟨1⟩, ⟨-1⟩] #[⟨0⟩, ⟨0⟩] 0
      = ⟨#[⟨0⟩, ⟨0⟩], #[⟨1⟩, ⟨-1⟩], o.zero, o.zero, 1, 1, 1, ⟨1⟩⟩ := by
    rw [stabSeq_zero, hnb]
    unfold stabInit
    rw [hr0, hnrm]
    norm_num [Fl_mk_div', f1]
  have hP : stabP o #[⟨1⟩, ⟨-1⟩] (0 + 1)
      ⟨#[⟨0⟩, ⟨0⟩], #[⟨1⟩, ⟨-1⟩], o.zero, o.zero, 1, 1, 1, ⟨1⟩⟩ = #[⟨1⟩, ⟨-1⟩] := rfl
  have hRho : stabRho o #[⟨1⟩, ⟨-1⟩]
      ⟨#[⟨0⟩, ⟨0⟩], #[⟨1⟩, ⟨-1⟩], o.zero, o.zero, 1, 1, 1, ⟨1⟩⟩ = ⟨2⟩ := hrho
  have hV : stabV o #[⟨1⟩, ⟨-1⟩] (0 + 1)
      ⟨#[⟨0⟩, ⟨0⟩], #[⟨1⟩, ⟨-1⟩], o.zero, o.zero, 1, 1, 1, ⟨1⟩⟩ = #[⟨1⟩, ⟨-1⟩] := by
    unfold stabV
    rw [hP, hq]
  have hα : stabAlpha o #[⟨1⟩, ⟨-1⟩] (0 + 1)
      ⟨#[⟨0⟩, ⟨0⟩], #[⟨1⟩, ⟨-1⟩], o.zero, o.zero, 1, 1, 1, ⟨1⟩⟩ = ⟨1⟩ := by
    unfold stabAlpha
    rw [hRho, hV, hrho]
    norm_num [Fl_mk_div', f1]
  have hSv : stabS o #[⟨1⟩, ⟨-1⟩] (0 + 1)
      ⟨#[⟨0⟩, ⟨0⟩], #[⟨1⟩, ⟨-1⟩], o.zero, o.zero, 1, 1, 1, ⟨1⟩⟩ = #[⟨0⟩, ⟨0⟩] := by
    unfold stabS
    rw [hV, hα]
    show o.sub #[⟨1⟩, ⟨-1⟩] (o.smul #[⟨1⟩, ⟨-1⟩] ⟨1⟩) = _
    rw [hsmul, hsub]
    norm_num [Fl_mk_mul', Fl_mk_sub', f0, f1, fm1]
  have hHalf : stabHalfX o #[⟨1⟩, ⟨-1⟩] (0 + 1)
      ⟨#[⟨0⟩, ⟨0⟩], #[⟨1⟩, ⟨-1⟩], o.zero, o.zero, 1, 1, 1, ⟨1⟩⟩ = #[⟨1⟩, ⟨-1⟩] := by
    unfold stabHalfX
    rw [hP, hα]
    show o.add #[⟨0⟩, ⟨0⟩] (o.smul #[⟨1⟩, ⟨-1⟩] ⟨1⟩) = _
    rw [hsmul, hadd]
    norm_num [Fl_mk_mul', Fl_mk_add', f0, f1, fm1]
  have hSS : stabSeqS o #[⟨1⟩, ⟨-1⟩] #[⟨0⟩, ⟨0⟩] 0 = #[⟨0⟩, ⟨0⟩] := by
    unfold stabSeqS
    rw [hr0, hS0, hSv]
  have hSH : stabSeqHalf o #[⟨1⟩, ⟨-1⟩] #[⟨0⟩, ⟨0⟩] 0 = #[⟨1⟩, ⟨-1⟩] := by
    unfold stabSeqHalf
    rw [hr0, hS0, hHalf]
  have hres1 : o.norm2 #[⟨0⟩, ⟨0⟩] / (⟨2⟩ : Fl M) = ⟨0⟩ := by
    rw [hnrm]
    norm_num [Fl_mk_div', f0]
  rw [solveBiCGSTAB_first_half o _ _ 4 ⟨0⟩
    (by
      rw [hr0, hnb, hnrm]
      norm_num [Fl_mk_div', f1]
      show decide ((1 : ℝ) ≤ 0) = false
      norm_num)
    (by
      rw [hr0, hS0, hRho]
      simp [Fl.ext_iff])
    (by
      rw [hSS, hnb, hres1]
      show decide ((0 : ℝ) ≤ 0) = true
      norm_num),
    hSS, hSH, hnb, hres1]

/-- **all hypotheses of `stab_success_true_residual_sparse` are satisfiable, non-trivially**: for the
2×2 SPD storage `spd2F M` (`SqWF`, `NoDup`, `‖A‖∞ = 3`, two entries per row, so
`εA = (1+u)³ − 1 ≤ 6u`, `cA = 6`) in every model with `u ≤ 1/8` in which `0, ±1, ±2` are
representable — in particular `FlModel.binary64` and `FlModel.exact` (`rep_small_binary64_exact`) —
the call `solve_bicgstab` returns, reports success after ONE iteration of the loop (half-step exit),
and the theorem bounds the drift of its true residual by `u (‖b‖ + 39 X) + 1 · u · (312 X + 2 R)`. -/
example (M : FlModel) (hu8 : M.u ≤ 1 / 8) (hrep : ∀ k : ℤ, |k| ≤ 2 → M.fl k = k) :
    letI := leTransc M
    ∃ out : KOut (Fl M) (Array (Fl M)),
      Sp.solveIter (spd2F M) .bicgstab #[⟨1⟩, ⟨-1⟩] #[⟨0⟩, ⟨0⟩] 5 ⟨0⟩ nrm1 = .ok out ∧
      out.ok = true ∧ out.iters = 1 ∧ out.x = #[⟨1⟩, ⟨-1⟩] ∧
      ∃ X R : ℝ, ∃ rk : Array (Fl M),
        Transc.le (nrm1 rk / guardNorm (nrm1 #[(⟨1⟩ : Fl M), ⟨-1⟩])) ⟨0⟩ = true ∧
        ‖(rval 2 #[(⟨1⟩ : Fl M), ⟨-1⟩] - rowLin (sqMat (spd2F M) 2) (rval 2 out.x)) - rval 2 rk‖
          ≤ M.u * (‖rval 2 #[(⟨1⟩ : Fl M), ⟨-1⟩]‖ + (1 + 2 * 6) * 3 * X)
            + out.iters * M.u * ((32 + 12 * 6) * 3 * X + 2 * R) := by
  let _ := leTransc M
  have hrun := solveIter_runs_stab (spd2F_sqwf M).1 nrm1 #[(⟨1⟩ : Fl M), ⟨-1⟩] #[⟨0⟩, ⟨0⟩] rfl rfl
    5 ⟨0⟩
  have hout := spd2F_stab_run M hrep
  refine ⟨_, hrun, by rw [hout], by rw [hout], by rw [hout], ?_⟩
  obtain ⟨_, _, rk, _, _, ht, hd⟩ := stab_success_true_residual_sparse (spd2F_sqwf M).1
    (spd2F_sqwf M).2 nrm1 #[(⟨1⟩ : Fl M), ⟨-1⟩] #[⟨0⟩, ⟨0⟩] 5 ⟨0⟩ _ hrun (by rw [hout]) 3
    (by norm_num) (spd2F_rows M).1 2 (spd2F_rows M).2 hu8 6 (by norm_num)
    (by have := gam_le_two_mul (M := M) 3 (by push_cast; linarith); push_cast at this; linarith)
    (‖rval 2 (solveBiCGSTAB (Sp.arrOps (spd2F M) 2 nrm1) #[(⟨1⟩ : Fl M), ⟨-1⟩] #[⟨0⟩, ⟨0⟩] 5 ⟨0⟩).x‖
      + ∑ j ∈ Finset.range 6, (‖rval 2 (stabSeq (Sp.arrOps (spd2F M) 2 nrm1)
          #[(⟨1⟩ : Fl M), ⟨-1⟩] #[⟨0⟩, ⟨0⟩] j).x‖
        + ‖rval 2 (stabSeqMid (Sp.arrOps (spd2F M) 2 nrm1) #[(⟨1⟩ : Fl M), ⟨-1⟩] #[⟨0⟩, ⟨0⟩] j)‖))
    (∑ j ∈ Finset.range 6, (‖rval 2 (stabSeq (Sp.arrOps (spd2F M) 2 nrm1)
          #[(⟨1⟩ : Fl M), ⟨-1⟩] #[⟨0⟩, ⟨0⟩] j).r‖
        + ‖rval 2 (stabSeqS (Sp.arrOps (spd2F M) 2 nrm1) #[(⟨1⟩ : Fl M), ⟨-1⟩] #[⟨0⟩, ⟨0⟩] j)‖))
    (fun j hj => by
      have hj' : j ∈ Finset.range 6 := Finset.mem_range.mpr (by rw [hout] at hj; simp at hj; omega)
      have := Finset.single_le_sum (f := fun j => ‖rval 2 (stabSeq (Sp.arrOps (spd2F M) 2 nrm1)
          #[(⟨1⟩ : Fl M), ⟨-1⟩] #[⟨0⟩, ⟨0⟩] j).x‖
        + ‖rval 2 (stabSeqMid (Sp.arrOps (spd2F M) 2 nrm1) #[(⟨1⟩ : Fl M), ⟨-1⟩] #[⟨0⟩, ⟨0⟩] j)‖)
        (fun _ _ => add_nonneg (norm_nonneg _) (norm_nonneg _)) hj'
      have h1 := norm_nonneg (rval 2 (stabSeqMid (Sp.arrOps (spd2F M) 2 nrm1)
        #[(⟨1⟩ : Fl M), ⟨-1⟩] #[⟨0⟩, ⟨0⟩] j))
      have h2 := norm_nonneg (rval 2 (solveBiCGSTAB (Sp.arrOps (spd2F M) 2 nrm1)
        #[(⟨1⟩ : Fl M), ⟨-1⟩] #[⟨0⟩, ⟨0⟩] 5 ⟨0⟩).x)
      linarith)
    (fun j hj => by
      have hj' : j ∈ Finset.range 6 := Finset.mem_range.mpr (by rw [hout] at hj; simp at hj; omega)
      have := Finset.single_le_sum (f := fun j => ‖rval 2 (stabSeq (Sp.arrOps (spd2F M) 2 nrm1)
          #[(⟨1⟩ : Fl M), ⟨-1⟩] #[⟨0⟩, ⟨0⟩] j).x‖
        + ‖rval 2 (stabSeqMid (Sp.arrOps (spd2F M) 2 nrm1) #[(⟨1⟩ : Fl M), ⟨-1⟩] #[⟨0⟩, ⟨0⟩] j)‖)
        (fun _ _ => add_nonneg (norm_nonneg _) (norm_nonneg _)) hj'
      have h1 := norm_nonneg (rval 2 (stabSeq (Sp.arrOps (spd2F M) 2 nrm1)
        #[(⟨1⟩ : Fl M), ⟨-1⟩] #[⟨0⟩, ⟨0⟩] j).x)
      have h2 := norm_nonneg (rval 2 (solveBiCGSTAB (Sp.arrOps (spd2F M) 2 nrm1)
        #[(⟨1⟩ : Fl M), ⟨-1⟩] #[⟨0⟩, ⟨0⟩] 5 ⟨0⟩).x)
      linarith)
    (by
      have := Finset.sum_nonneg (s := Finset.range 6) (f := fun j => ‖rval 2 (stabSeq
          (Sp.arrOps (spd2F M) 2 nrm1) #[(⟨1⟩ : Fl M), ⟨-1⟩] #[⟨0⟩, ⟨0⟩] j).x‖
        + ‖rval 2 (stabSeqMid (Sp.arrOps (spd2F M) 2 nrm1) #[(⟨1⟩ : Fl M), ⟨-1⟩] #[⟨0⟩, ⟨0⟩] j)‖)
        (fun _ _ => add_nonneg (norm_nonneg _) (norm_nonneg _))
      linarith)
    (fun j hj => by
      have hj' : j ∈ Finset.range 6 := Finset.mem_range.mpr (by rw [hout] at hj; simp at hj; omega)
      have := Finset.single_le_sum (f := fun j => ‖rval 2 (stabSeq (Sp.arrOps (spd2F M) 2 nrm1)
          #[(⟨1⟩ : Fl M), ⟨-1⟩] #[⟨0⟩, ⟨0⟩] j).r‖
        + ‖rval 2 (stabSeqS (Sp.arrOps (spd2F M) 2 nrm1) #[(⟨1⟩ : Fl M), ⟨-1⟩] #[⟨0⟩, ⟨0⟩] j)‖)
        (fun _ _ => add_nonneg (norm_nonneg _) (norm_nonneg _)) hj'
      have h1 := norm_nonneg (rval 2 (stabSeqS (Sp.arrOps (spd2F M) 2 nrm1)
        #[(⟨1⟩ : Fl M), ⟨-1⟩] #[⟨0⟩, ⟨0⟩] j))
      linarith)
    (fun j hj => by
      have hj' : j ∈ Finset.range 6 := Finset.mem_range.mpr (by rw [hout] at hj; simp at hj; omega)
      have := Finset.single_le_sum (f := fun j => ‖rval 2 (stabSeq (Sp.arrOps (spd2F M) 2 nrm1)
          #[(⟨1⟩ : Fl M), ⟨-1⟩] #[⟨0⟩, ⟨0⟩] j).r‖
        + ‖rval 2 (stabSeqS (Sp.arrOps (spd2F M) 2 nrm1) #[(⟨1⟩ : Fl M), ⟨-1⟩] #[⟨0⟩, ⟨0⟩] j)‖)
        (fun _ _ => add_nonneg (norm_nonneg _) (norm_nonneg _)) hj'
      have h1 := norm_nonneg (rval 2 (stabSeq (Sp.arrOps (spd2F M) 2 nrm1)
        #[(⟨1⟩ : Fl M), ⟨-1⟩] #[⟨0⟩, ⟨0⟩] j).r)
      linarith)
  exact ⟨_, _, rk, ht, hd⟩

private theorem le_add_sum_pair (f g : ℕ → ℝ) (hf : ∀ j, 0 ≤ f j) (hg : ∀ j, 0 ≤ g j) (c : ℝ)
    (hc : 0 ≤ c) (N j : ℕ) (hj : j < N) :
    f j ≤ c + ∑ i ∈ Finset.range N, (f i + g i) ∧ g j ≤ c + ∑ i ∈ Finset.range N, (f i + g i) := by
  have := Finset.single_le_sum (f := fun i => f i + g i) (fun i _ => add_nonneg (hf i) (hg i))
    (Finset.mem_range.mpr hj)
  have h1 := hf j
  have h2 := hg j
  constructor <;> linarith

/-- in the exact model (`u = 0`) the drift bound collapses, at EVERY exit: the true residual of a
successful `solve_bicgstab` IS the vector that passed the test (`r_0`, the half-step residual `s`, or
the full-step residual `r`; cf. `stab_success_sound_sparse`) -/
example [Transc (Fl FlModel.exact)] {s : Sp (Fl FlModel.exact)} {n : Nat} (h : SqWF s n)
    (hnd : NoDup s) (norm2 : Array (Fl FlModel.exact) → Fl FlModel.exact)
    (b x0 : Array (Fl FlModel.exact)) (maxIter : ℕ) (tol : Fl FlModel.exact)
    (out : KOut (Fl FlModel.exact) (Array (Fl FlModel.exact)))
    (hrun : Sp.solveIter s .bicgstab b x0 maxIter tol norm2 = .ok out) (hok : out.ok = true) :
    ∃ rk : Array (Fl FlModel.exact), Transc.le (norm2 rk / guardNorm (norm2 b)) tol = true ∧
      rval n b - rowLin (sqMat s n) (rval n out.x) = rval n rk := by
  have hu0 : FlModel.exact.u = 0 := rfl
  have hXs := le_add_sum_pair
    (fun j => ‖rval n (stabSeq (Sp.arrOps s n norm2) b x0 j).x‖)
    (fun j => ‖rval n (stabSeqMid (Sp.arrOps s n norm2) b x0 j)‖)
    (fun _ => norm_nonneg _) (fun _ => norm_nonneg _) ‖rval n out.x‖ (norm_nonneg _) out.iters
  have hRs := le_add_sum_pair
    (fun j => ‖rval n (stabSeq (Sp.arrOps s n norm2) b x0 j).r‖)
    (fun j => ‖rval n (stabSeqS (Sp.arrOps s n norm2) b x0 j)‖)
    (fun _ => norm_nonneg _) (fun _ => norm_nonneg _) 0 le_rfl out.iters
  obtain ⟨_, _, rk, _, _, ht, hd⟩ := stab_success_true_residual_sparse h hnd norm2 b x0 maxIter tol
    out hrun hok (normInf (sqMat s n)) (normInf_nonneg _) (row_le_normInf _) n
    (fun i _ => by have := C07.rowCount_le_cols h.wf hnd i; rw [h.cols] at this; exact this)
    (by rw [hu0]; norm_num) 0 le_rfl (by simp [FlModel.gam, hu0]) _ _
    (fun j hj => (hXs j hj).1) (fun j hj => (hXs j hj).2)
    (by
      have := Finset.sum_nonneg (s := Finset.range out.iters)
        (f := fun j => ‖rval n (stabSeq (Sp.arrOps s n norm2) b x0 j).x‖
          + ‖rval n (stabSeqMid (Sp.arrOps s n norm2) b x0 j)‖)
        (fun _ _ => add_nonneg (norm_nonneg _) (norm_nonneg _))
      linarith)
    (fun j hj => (hRs j hj).1) (fun j hj => (hRs j hj).2)
  refine ⟨rk, ht, ?_⟩
  rw [hu0] at hd
  simp only [zero_mul, mul_zero, add_zero] at hd
  exact sub_eq_zero.mp (norm_le_zero_iff.mp hd)

/-- the abstract recurrences are satisfiable beyond the model: an EXACT BiCGSTAB-style run
(`v = A p`, `t = A s`, exact updates) is a `StabRun` with `u = εA = 0`, for which `bound_full` gives
`(b − A x_k) − r_k = (b − A x_0) − r_0`, i.e. zero accumulated drift. -/
example {E : Type} [SeminormedAddCommGroup E] [NormedSpace ℝ E] (A : E →ₗ[ℝ] E) (a : ℝ)
    (ha : 0 ≤ a) (hA : ∀ w, ‖A w‖ ≤ a * ‖w‖) (b : E) (x r p : ℕ → E) (α ω : ℕ → ℝ) (k : ℕ)
    (hx : ∀ i, x (i + 1) = (x i + α i • p i) + ω i • (r i - α i • A (p i)))
    (hr : ∀ i, r (i + 1) = (r i - α i • A (p i)) - ω i • A (r i - α i • A (p i))) :
    ‖drift A b (x k) (r k)‖ ≤ ‖drift A b (x 0) (r 0)‖ := by
  have H : StabRun A a 0 0 (2 * k) x (fun i => x i + α i • p i) r (fun i => r i - α i • A (p i)) p
      (fun i => A (p i)) (fun i => A (r i - α i • A (p i))) α ω :=
    ⟨ha, le_rfl, le_rfl, hA, fun i _ => by simp, fun i _ => by simp, fun i _ => by simp,
      fun i _ => by simp, fun i _ => by simp [hx], fun i _ => by simp [hr]⟩
  have h := H.bound_full b (by norm_num) 0 le_rfl (by simp)
    (∑ i ∈ Finset.range (k + 1), (‖x i‖ + ‖x i + α i • p i‖))
    (∑ i ∈ Finset.range (k + 1), (‖r i‖ + ‖r i - α i • A (p i)‖))
    (fun j hj => (le_add_sum_pair (fun i => ‖x i‖) (fun i => ‖x i + α i • p i‖)
      (fun _ => norm_nonneg _) (fun _ => norm_nonneg _) 0 le_rfl (k + 1) j (by omega)).1.trans
        (by simp))
    (fun j hj => (le_add_sum_pair (fun i => ‖x i‖) (fun i => ‖x i + α i • p i‖)
      (fun _ => norm_nonneg _) (fun _ => norm_nonneg _) 0 le_rfl (k + 1) j (by omega)).2.trans
        (by simp))
    (fun j hj => (le_add_sum_pair (fun i => ‖r i‖) (fun i => ‖r i - α i • A (p i)‖)
      (fun _ => norm_nonneg _) (fun _ => norm_nonneg _) 0 le_rfl (k + 1) j (by omega)).1.trans
        (by simp))
    (fun j hj => (le_add_sum_pair (fun i => ‖r i‖) (fun i => ‖r i - α i • A (p i)‖)
      (fun _ => norm_nonneg _) (fun _ => norm_nonneg _) 0 le_rfl (k + 1) j (by omega)).2.trans
        (by simp))
  simpa using h

end Examples

end Ohsl.Props.C08
