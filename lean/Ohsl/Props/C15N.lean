/-
  Property C15, numeric part — reductions, norms, sort, find, linspace of the vector model
  (Ohsl/Model/Vec.lean).
-/
import Ohsl.Props.C15
import Ohsl.Lemmas.Alg
import Ohsl.Lemmas.RealTransc
import Mathlib.Algebra.BigOperators.Group.Finset.Basic
import Mathlib.Algebra.BigOperators.Intervals
import Mathlib.Algebra.Order.BigOperators.Group.Finset
import Mathlib.Algebra.Order.BigOperators.Ring.Finset
import Mathlib.Analysis.SpecialFunctions.Pow.Real
import Mathlib.Analysis.SpecialFunctions.Sqrt
import Mathlib.Tactic.Ring
import Mathlib.Tactic.Linarith
import Mathlib.Tactic.Positivity
set_option linter.unusedSectionVars false
set_option linter.unusedVariables false
namespace Ohsl.Props.C15
open Ohsl Ohsl.Vec

/-! ## fold / big-operator bridge -/

@[to_additive]
theorem foldl_mul_eq_prod {M : Type} [CommMonoid M] {α : Type} (f : α → M) (d : α) (l : List α)
    (init : M) :
    l.foldl (fun acc x => acc * f x) init = init * ∏ i ∈ Finset.range l.length, f (l.getD i d) := by
  induction l generalizing init with
  | nil => simp
  | cons x l ih =>
    rw [List.foldl_cons, ih, List.length_cons, Finset.prod_range_succ']
    simp only [List.getD_cons_succ, List.getD_cons_zero]
    rw [mul_assoc, mul_comm (f x)]

@[to_additive]
theorem arr_foldl_mul_eq_prod {M : Type} [CommMonoid M] {α : Type} (f : α → M) (d : α) (a : Array α)
    (init : M) :
    a.foldl (fun acc x => acc * f x) init = init * ∏ i ∈ Finset.range a.size, f (a.getD i d) := by
  rw [← Array.foldl_toList, foldl_mul_eq_prod f d]
  simp


/-! ## 1. dot, sumSlice, productSlice (exact interpretation) -/
section Exact
variable {K : Type} [Field K] [LinearOrder K] [IsStrictOrderedRing K]
attribute [local instance] Ohsl.Alg.scalarExt

theorem dot_eq_sum (a b : Array K) (h : a.size = b.size) :
    Vec.dot a b = .ok (∑ i ∈ Finset.range a.size, a.getD i 0 * b.getD i 0) := by
  unfold Vec.dot
  rw [if_neg (by simpa using h)]
  congr 1
  have := arr_foldl_add_eq_sum (fun x : K => x) 0 (Array.zipWith (· * ·) a b) 0
  simp only [zero_add] at this
  rw [this]
  simp only [Array.size_zipWith, ← h, min_self]
  refine Finset.sum_congr rfl fun i hi => ?_
  have hi : i < a.size := Finset.mem_range.mp hi
  have hi' : i < b.size := h ▸ hi
  simp [Array.getD, hi, hi']

theorem dot_comm (a b : Array K) : Vec.dot a b = Vec.dot b a := by
  by_cases h : a.size = b.size
  · rw [dot_eq_sum a b h, dot_eq_sum b a h.symm, h]
    congr 1
    exact Finset.sum_congr rfl fun i _ => mul_comm _ _
  · have h' : b.size ≠ a.size := fun e => h e.symm
    simp [Vec.dot, h, h']

theorem sumSlice_eq (a : Array K) (s e : Nat) (hse : s ≤ e) (he : e < a.size) :
    Vec.sumSlice a s e = .ok (∑ i ∈ Finset.Icc s e, a.getD i 0) := by
  unfold Vec.sumSlice
  rw [if_neg (by omega), if_neg (by omega), if_neg (by omega)]
  congr 1
  have := arr_foldl_add_eq_sum (fun x : K => x) 0 (a.extract s (e + 1)) 0
  simp only [zero_add] at this
  rw [this, ← Finset.Ico_add_one_right_eq_Icc, Finset.sum_Ico_eq_sum_range]
  have hsz : (a.extract s (e + 1)).size = e + 1 - s := by simp; omega
  rw [hsz]
  refine Finset.sum_congr rfl fun i hi => ?_
  have hi : i < e + 1 - s := Finset.mem_range.mp hi
  have h1 : s + i < a.size := by omega
  simp [Array.getD, hi, h1, hsz]

theorem productSlice_eq (a : Array K) (s e : Nat) (hse : s ≤ e) (he : e < a.size) :
    Vec.productSlice a s e = .ok (∏ i ∈ Finset.Icc s e, a.getD i 0) := by
  unfold Vec.productSlice
  rw [if_neg (by omega), if_neg (by omega), if_neg (by omega)]
  have hs : s < a.size := by omega
  have hg : aget a s = .ok a[s] := by simp [aget, hs]
  rw [hg]
  simp only [bind, Except.bind, pure, Except.pure]
  congr 1
  have := arr_foldl_mul_eq_prod (fun x : K => x) 0 (a.extract (s + 1) (e + 1)) a[s]
  rw [this, ← Finset.Ico_add_one_right_eq_Icc, Finset.prod_eq_prod_Ico_succ_bot (by omega),
    Finset.prod_Ico_eq_prod_range]
  have hsz : (a.extract (s + 1) (e + 1)).size = e + 1 - (s + 1) := by simp; omega
  rw [hsz]
  congr 1
  · simp [Array.getD, hs]
  · refine Finset.prod_congr rfl fun i hi => ?_
    have hi : i < e + 1 - (s + 1) := Finset.mem_range.mp hi
    have h1 : s + 1 + i < a.size := by omega
    have h2 : i < e - s := by omega
    simp [Array.getD, h1, h2, hsz]

/-! ## 2. norm_1 -/

theorem norm1_eq (a : Array K) : Vec.norm1 a = ∑ i ∈ Finset.range a.size, |a.getD i 0| := by
  unfold Vec.norm1
  have := arr_foldl_add_eq_sum (fun x : K => ScalarExt.mag x) 0 a 0
  rw [this, zero_add]
  exact Finset.sum_congr rfl fun i _ => Alg.mag_eq_abs _

theorem norm1_nonneg (a : Array K) : 0 ≤ Vec.norm1 a := by
  rw [norm1_eq]; exact Finset.sum_nonneg fun _ _ => abs_nonneg _

theorem norm1_smul (a : Array K) (c : K) : Vec.norm1 (Vec.smul a c) = |c| * Vec.norm1 a := by
  rw [norm1_eq, norm1_eq, Finset.mul_sum]
  simp only [Vec.smul, Array.size_map]
  refine Finset.sum_congr rfl fun i hi => ?_
  have hi := Finset.mem_range.mp hi
  simp [Array.getD, hi, abs_mul, mul_comm]

theorem norm1_triangle (a b : Array K) (h : a.size = b.size) :
    Vec.norm1 (Array.zipWith (· + ·) a b) ≤ Vec.norm1 a + Vec.norm1 b := by
  rw [norm1_eq, norm1_eq, norm1_eq, ← h, ← Finset.sum_add_distrib]
  simp only [Array.size_zipWith, ← h, min_self]
  refine Finset.sum_le_sum fun i hi => ?_
  have hi : i < a.size := Finset.mem_range.mp hi
  have hi' : i < b.size := h ▸ hi
  simp only [Array.getD, Array.size_zipWith, ← h, min_self, hi, dite_true]
  simpa [hi'] using abs_add_le a[i] (b[i]'hi')

/-- the triangle inequality phrased on the checked addition -/
theorem norm1_add_le (a b c : Array K) (h : Vec.add a b = .ok c) :
    Vec.norm1 c ≤ Vec.norm1 a + Vec.norm1 b := by
  unfold Vec.add at h
  split at h
  · cases h
  · rename_i hs
    cases h
    exact norm1_triangle a b (not_not.mp hs)

end Exact

/-! ## 5. sort -/
section SortSec
variable {K : Type} [LinearOrder K] [Add K] [Sub K] [Mul K] [Neg K] [Zero K] [One K] [BEq K]
  [ScalarExt K]

theorem insSorted_perm (x : K) (l : List K) : (Vec.insSorted x l).Perm (x :: l) := by
  induction l with
  | nil => simp [Vec.insSorted]
  | cons y ys ih =>
    unfold Vec.insSorted
    split
    · exact (List.Perm.cons y ih).trans (List.Perm.swap x y ys)
    · exact List.Perm.refl _

theorem insSorted_sorted (hlt : ∀ x y : K, ScalarExt.lt x y = decide (x < y)) (x : K) (l : List K)
    (hl : l.Pairwise (· ≤ ·)) : (Vec.insSorted x l).Pairwise (· ≤ ·) := by
  induction l with
  | nil => simp [Vec.insSorted]
  | cons y ys ih =>
    rw [List.pairwise_cons] at hl
    unfold Vec.insSorted
    split
    · rename_i hc
      rw [hlt, decide_eq_true_eq] at hc
      rw [List.pairwise_cons]
      refine ⟨fun z hz => ?_, ih hl.2⟩
      have hz' := (insSorted_perm x ys).subset hz
      rcases List.mem_cons.mp hz' with rfl | hz'
      · exact hc.le
      · exact hl.1 z hz'
    · rename_i hc
      rw [hlt, decide_eq_true_eq, not_lt] at hc
      rw [List.pairwise_cons, List.pairwise_cons]
      refine ⟨fun z hz => ?_, hl⟩
      rcases List.mem_cons.mp hz with rfl | hz'
      · exact hc
      · exact hc.trans (hl.1 z hz')

/-- `sort()` returns the sorted permutation of its input whenever the scalar's `<` is the order's. -/
theorem sort_spec (hlt : ∀ x y : K, ScalarExt.lt x y = decide (x < y)) (a : Array K) :
    (Vec.sort a).toList.Pairwise (· ≤ ·) ∧ (Vec.sort a).toList.Perm a.toList := by
  unfold Vec.sort
  simp only []
  generalize a.toList = l
  induction l with
  | nil => simp
  | cons x l ih =>
    rw [List.foldr_cons]
    exact ⟨insSorted_sorted hlt x _ ih.1, (insSorted_perm x _).trans (List.Perm.cons x ih.2)⟩

theorem sort_size (a : Array K) : (Vec.sort a).size = a.size := by
  have h : ∀ l : List K, (l.foldr Vec.insSorted []).length = l.length := by
    intro l
    induction l with
    | nil => rfl
    | cons x l ih => rw [List.foldr_cons, (insSorted_perm x _).length_eq]; simp [ih]
  unfold Vec.sort
  rw [List.size_toArray, h, Array.length_toList]

end SortSec

section SortField
variable {K : Type} [Field K] [LinearOrder K] [IsStrictOrderedRing K]
attribute [local instance] Ohsl.Alg.scalarExt

/-- `sort_spec` for the exact interpretation -/
theorem sort_spec_exact (a : Array K) :
    (Vec.sort a).toList.Pairwise (· ≤ ·) ∧ (Vec.sort a).toList.Perm a.toList :=
  sort_spec (fun _ _ => rfl) a

end SortField

/-! ## 7. linspace -/
section Linspace
variable {K : Type} [Field K] [LinearOrder K] [IsStrictOrderedRing K] [Transc K]
attribute [local instance] Ohsl.Alg.scalarExt

/-- `linspace(a, b, n)` for `n ≥ 2` whenever `n as f64` is the cast: size `n`, node `i` is
    `a + (b-a)/(n-1) * i`, first node is `a`, last node is `b`, strictly increasing if `a < b`. -/
theorem linspace_spec (hcast : ∀ n : Nat, (Transc.ofNat n : K) = (n : K)) (a b : K) (n : Nat)
    (hn : 2 ≤ n) :
    ∃ v, Vec.linspace a b n = .ok v ∧ v.size = n ∧
      (∀ i, i < n → v.getD i 0 = a + (b - a) / ((n : K) - 1) * (i : K)) ∧
      v.getD 0 0 = a ∧ v.getD (n - 1) 0 = b ∧
      (a < b → ∀ i j, i < j → j < n → v.getD i 0 < v.getD j 0) := by
  have hn1 : (1 : K) < (n : K) := by exact_mod_cast (by omega : 1 < n)
  have hne : (n : K) - 1 ≠ 0 := by
    have : (0 : K) < (n : K) - 1 := by linarith
    exact this.ne'
  have hel : ∀ i, i < n →
      (Array.ofFn (n := n) fun i => a + (b - a) / ((n : K) - 1) * (Transc.ofNat i.val : K)).getD i 0
        = a + (b - a) / ((n : K) - 1) * (i : K) := by
    intro i hi
    simp [Array.getD, hi, hcast]
  refine ⟨Array.ofFn (n := n) fun i => a + (b - a) / ((n : K) - 1) * (Transc.ofNat i.val : K),
    ?_, by simp, hel, ?_, ?_, ?_⟩
  · unfold Vec.linspace
    rw [hcast n, Alg.divM_ne hne]
    rfl
  · rw [hel 0 (by omega)]; simp
  · rw [hel (n - 1) (by omega)]
    have : ((n - 1 : ℕ) : K) = (n : K) - 1 := by
      rw [Nat.cast_sub (by omega)]; simp
    rw [this]
    field_simp
    ring
  · intro hab i j hij hj
    rw [hel i (by omega), hel j hj]
    have hh : 0 < (b - a) / ((n : K) - 1) := div_pos (by linarith) (by linarith)
    have hc : (i : K) < (j : K) := by exact_mod_cast hij
    have := mul_lt_mul_of_pos_left hc hh
    linarith

end Linspace

section LinspaceReal
open Ohsl.RealI

/-- `linspace_spec` at the real interpretation of `f64` -/
theorem linspace_spec_real (a b : ℝ) (n : Nat) (hn : 2 ≤ n) :
    ∃ v, Vec.linspace a b n = .ok v ∧ v.size = n ∧
      (∀ i, i < n → v.getD i 0 = a + (b - a) / ((n : ℝ) - 1) * (i : ℝ)) ∧
      v.getD 0 0 = a ∧ v.getD (n - 1) 0 = b ∧
      (a < b → ∀ i j, i < j → j < n → v.getD i 0 < v.getD j 0) :=
  linspace_spec (fun _ => rfl) a b n hn

/-- fewer than two nodes: `size as f64 - 1.0` is an exact zero for `n = 1` -/
theorem linspace_one_rejects (a b : ℝ) : Vec.linspace a b 1 = .error .arith := by
  unfold Vec.linspace
  have : (Transc.ofNat 1 : ℝ) - 1 = 0 := by
    show ((1 : ℕ) : ℝ) - 1 = 0
    simp
  rw [this, Alg.divM_zero]
  rfl

end LinspaceReal
/-! ## 3. norm_inf (real interpretation) -/
section NormInf
open Ohsl.RealI

theorem fabs_eq (x : ℝ) : (Transc.fabs x : ℝ) = |x| := rfl

/-- `m` is the largest element magnitude of the non-empty vector `a` -/
def IsMaxAbs (a : Array ℝ) (m : ℝ) : Prop :=
  (∀ i, i < a.size → |a.getD i 0| ≤ m) ∧ ∃ i, i < a.size ∧ m = |a.getD i 0|

theorem IsMaxAbs.unique {a : Array ℝ} {m m' : ℝ} (h : IsMaxAbs a m) (h' : IsMaxAbs a m') :
    m = m' := by
  obtain ⟨i, hi, rfl⟩ := h.2
  obtain ⟨j, hj, rfl⟩ := h'.2
  exact le_antisymm (h'.1 i hi) (h.1 j hj)

theorem foldl_max_spec {α : Type} (f : α → ℝ) (l : List α) (init : ℝ) :
    init ≤ l.foldl (fun r x => if ScalarExt.lt r (f x) then f x else r) init ∧
    (∀ x ∈ l, f x ≤ l.foldl (fun r x => if ScalarExt.lt r (f x) then f x else r) init) ∧
    (l.foldl (fun r x => if ScalarExt.lt r (f x) then f x else r) init = init ∨
      ∃ x ∈ l, l.foldl (fun r x => if ScalarExt.lt r (f x) then f x else r) init = f x) := by
  induction l generalizing init with
  | nil => simp
  | cons x l ih =>
    rw [List.foldl_cons]
    obtain ⟨h1, h2, h3⟩ := ih (if ScalarExt.lt init (f x) then f x else init)
    have hc : init ≤ (if ScalarExt.lt init (f x) then f x else init) ∧
        f x ≤ (if ScalarExt.lt init (f x) then f x else init) ∧
        ((if ScalarExt.lt init (f x) then f x else init) = init ∨
         (if ScalarExt.lt init (f x) then f x else init) = f x) := by
      split
      · rename_i hlt
        have : init < f x := by simpa using hlt
        exact ⟨this.le, le_refl _, Or.inr rfl⟩
      · rename_i hlt
        have : f x ≤ init := by simpa using hlt
        exact ⟨le_refl _, this, Or.inl rfl⟩
    refine ⟨hc.1.trans h1, ?_, ?_⟩
    · intro y hy
      rcases List.mem_cons.mp hy with rfl | hy
      · exact hc.2.1.trans h1
      · exact h2 y hy
    · rcases h3 with h3 | ⟨y, hy, h3⟩
      · rcases hc.2.2 with h4 | h4
        · exact Or.inl (h3.trans h4)
        · exact Or.inr ⟨x, List.mem_cons_self, h3.trans h4⟩
      · exact Or.inr ⟨y, List.mem_cons_of_mem _ hy, h3⟩

/-- `norm_inf` of a non-empty real vector is the maximum element magnitude. -/
theorem normInf_spec (a : Array ℝ) (h : 0 < a.size) :
    ∃ m, Vec.normInf a = .ok m ∧ IsMaxAbs a m := by
  rcases a with ⟨l⟩
  cases l with
  | nil => simp at h
  | cons x0 t =>
    have hex : ((⟨x0 :: t⟩ : Array ℝ).extract 1 (⟨x0 :: t⟩ : Array ℝ).size) = ⟨t⟩ := by
      simp
    refine ⟨t.foldl (fun r x => if ScalarExt.lt r (Transc.fabs x) then Transc.fabs x else r)
      (Transc.fabs x0), ?_, ?_⟩
    · unfold Vec.normInf Vec.normInfBy
      simp only [List.getElem?_toArray, List.getElem?_cons_zero]
      rw [hex, ← Array.foldl_toList]
      -- (repair D14) the NaN test `|x| != |x|` of `norm_inf` never fires over ℝ
      have hstep : (fun (r x : ℝ) => if ScalarExt.lt r (Transc.fabs x) || !(Transc.fabs x == Transc.fabs x) then Transc.fabs x else r)
          = (fun r x => if ScalarExt.lt r (Transc.fabs x) then Transc.fabs x else r) := by
        funext r x; simp
      rw [hstep]
    · obtain ⟨h1, h2, h3⟩ := foldl_max_spec (fun x : ℝ => Transc.fabs x) t (Transc.fabs x0)
      constructor
      · intro i hi
        cases i with
        | zero => simpa [Array.getD, fabs_eq] using h1
        | succ i =>
          have hi' : i < t.length := by simpa using hi
          have := h2 t[i] (List.getElem_mem hi')
          simpa [Array.getD, hi', fabs_eq] using this
      · rcases h3 with h3 | ⟨y, hy, h3⟩
        · exact ⟨0, by simp, by simpa [Array.getD, fabs_eq] using h3⟩
        · obtain ⟨i, hi, rfl⟩ := List.mem_iff_getElem.mp hy
          exact ⟨i + 1, by simpa using hi, by simpa [Array.getD, hi, fabs_eq] using h3⟩

theorem normInf_isMaxAbs {a : Array ℝ} {m : ℝ} (h : Vec.normInf a = .ok m) : IsMaxAbs a m := by
  have hs : 0 < a.size := by
    by_contra hc
    have : a = #[] := by simpa using hc
    subst this
    simp [Vec.normInf, Vec.normInfBy] at h
  obtain ⟨m', hm', hmax⟩ := normInf_spec a hs
  rw [hm'] at h
  cases h
  exact hmax

theorem normInf_of_isMaxAbs {a : Array ℝ} {m : ℝ} (h : IsMaxAbs a m) : Vec.normInf a = .ok m := by
  obtain ⟨i, hi, _⟩ := h.2
  obtain ⟨m', hm', hmax⟩ := normInf_spec a (by omega)
  rw [hm', hmax.unique h]

/-- the empty vector is rejected (`self.vec[0]` is out of bounds) -/
theorem normInf_empty : Vec.normInf (#[] : Array ℝ) = .error .range := by
  simp [Vec.normInf, Vec.normInfBy]

theorem normInf_nonneg {a : Array ℝ} {m : ℝ} (h : Vec.normInf a = .ok m) : 0 ≤ m := by
  obtain ⟨i, hi, rfl⟩ := (normInf_isMaxAbs h).2
  exact abs_nonneg _

theorem normInf_smul {a : Array ℝ} {m : ℝ} (h : Vec.normInf a = .ok m) (c : ℝ) :
    Vec.normInf (Vec.smul a c) = .ok (|c| * m) := by
  have hm := normInf_isMaxAbs h
  apply normInf_of_isMaxAbs
  have hel : ∀ i, i < a.size → (Vec.smul a c).getD i 0 = a.getD i 0 * c := by
    intro i hi
    simp [Vec.smul, Array.getD, hi]
  have hsz : (Vec.smul a c).size = a.size := by simp [Vec.smul]
  constructor
  · intro i hi
    rw [hsz] at hi
    rw [hel i hi, abs_mul, mul_comm]
    exact mul_le_mul_of_nonneg_left (hm.1 i hi) (abs_nonneg c)
  · obtain ⟨i, hi, rfl⟩ := hm.2
    exact ⟨i, by rw [hsz]; exact hi, by rw [hel i hi, abs_mul, mul_comm]⟩

theorem normInf_triangle {a b : Array ℝ} {ma mb mab : ℝ} (hs : a.size = b.size)
    (ha : Vec.normInf a = .ok ma) (hb : Vec.normInf b = .ok mb)
    (hab : Vec.normInf (Array.zipWith (· + ·) a b) = .ok mab) : mab ≤ ma + mb := by
  have hma := normInf_isMaxAbs ha
  have hmb := normInf_isMaxAbs hb
  obtain ⟨i, hi, rfl⟩ := (normInf_isMaxAbs hab).2
  have hia : i < a.size := by simpa [← hs] using hi
  have hib : i < b.size := hs ▸ hia
  have : (Array.zipWith (· + ·) a b).getD i 0 = a.getD i 0 + b.getD i 0 := by
    simp [Array.getD, hia, hib]
  rw [this]
  exact (abs_add_le _ _).trans (add_le_add (hma.1 i hia) (hmb.1 i hib))

theorem normInf_le_norm1 {a : Array ℝ} {m : ℝ} (h : Vec.normInf a = .ok m) : m ≤ Vec.norm1 a := by
  obtain ⟨i, hi, rfl⟩ := (normInf_isMaxAbs h).2
  rw [norm1_eq]
  exact Finset.single_le_sum (f := fun i => |a.getD i 0|) (fun _ _ => abs_nonneg _)
    (Finset.mem_range.mpr hi)

end NormInf

/-! ## 4. norm_2 (real interpretation) -/
section Norm2
open Ohsl.RealI

theorem norm2_eq (a : Array ℝ) :
    Vec.norm2 a = Real.sqrt (∑ i ∈ Finset.range a.size, (a.getD i 0) ^ 2) := by
  unfold Vec.norm2
  show Real.sqrt _ = _
  congr 1
  have := arr_foldl_add_eq_sum (fun x : ℝ => Transc.powf (Transc.fabs x) ((1 : ℝ) + 1)) 0 a 0
  rw [zero_add] at this
  refine this.trans (Finset.sum_congr rfl fun i _ => ?_)
  show |a.getD i 0| ^ ((1 : ℝ) + 1) = _
  rw [one_add_one_eq_two, Real.rpow_two, sq_abs]

theorem norm2_nonneg (a : Array ℝ) : 0 ≤ Vec.norm2 a := by
  rw [norm2_eq]; exact Real.sqrt_nonneg _

theorem norm2_smul (a : Array ℝ) (c : ℝ) : Vec.norm2 (Vec.smul a c) = |c| * Vec.norm2 a := by
  rw [norm2_eq, norm2_eq]
  have hsz : (Vec.smul a c).size = a.size := by simp [Vec.smul]
  have : ∑ i ∈ Finset.range (Vec.smul a c).size, ((Vec.smul a c).getD i 0) ^ 2
      = c ^ 2 * ∑ i ∈ Finset.range a.size, (a.getD i 0) ^ 2 := by
    rw [hsz, Finset.mul_sum]
    refine Finset.sum_congr rfl fun i hi => ?_
    have hi := Finset.mem_range.mp hi
    simp [Vec.smul, Array.getD, hi]
    ring
  rw [this, Real.sqrt_mul (sq_nonneg c), Real.sqrt_sq_eq_abs]

theorem normInf_le_norm2 {a : Array ℝ} {m : ℝ} (h : Vec.normInf a = .ok m) : m ≤ Vec.norm2 a := by
  obtain ⟨i, hi, rfl⟩ := (normInf_isMaxAbs h).2
  rw [norm2_eq, ← Real.sqrt_sq_eq_abs]
  apply Real.sqrt_le_sqrt
  exact Finset.single_le_sum (f := fun i => (a.getD i 0) ^ 2) (fun _ _ => sq_nonneg _)
    (Finset.mem_range.mpr hi)

theorem norm2_le_norm1 (a : Array ℝ) : Vec.norm2 a ≤ Vec.norm1 a := by
  rw [norm2_eq, norm1_eq]
  have hS : 0 ≤ ∑ i ∈ Finset.range a.size, |a.getD i 0| :=
    Finset.sum_nonneg fun _ _ => abs_nonneg _
  apply Real.sqrt_le_iff.mpr ⟨hS, ?_⟩
  rw [sq, Finset.sum_mul]
  refine Finset.sum_le_sum fun i hi => ?_
  rw [← sq_abs, sq]
  exact mul_le_mul_of_nonneg_left
    (Finset.single_le_sum (f := fun i => |a.getD i 0|) (fun _ _ => abs_nonneg _) hi) (abs_nonneg _)

/-- Minkowski's inequality for `p = 2`, from Cauchy–Schwarz -/
theorem sqrt_sum_add_sq_le (s : Finset ℕ) (f g : ℕ → ℝ) :
    Real.sqrt (∑ i ∈ s, (f i + g i) ^ 2) ≤
      Real.sqrt (∑ i ∈ s, f i ^ 2) + Real.sqrt (∑ i ∈ s, g i ^ 2) := by
  have hA : 0 ≤ ∑ i ∈ s, f i ^ 2 := Finset.sum_nonneg fun _ _ => sq_nonneg _
  have hB : 0 ≤ ∑ i ∈ s, g i ^ 2 := Finset.sum_nonneg fun _ _ => sq_nonneg _
  have hcs : ∑ i ∈ s, f i * g i ≤ Real.sqrt (∑ i ∈ s, f i ^ 2) * Real.sqrt (∑ i ∈ s, g i ^ 2) := by
    rw [← Real.sqrt_mul hA]
    exact (le_abs_self _).trans (Real.abs_le_sqrt (Finset.sum_mul_sq_le_sq_mul_sq s f g))
  apply Real.sqrt_le_iff.mpr ⟨add_nonneg (Real.sqrt_nonneg _) (Real.sqrt_nonneg _), ?_⟩
  have hexp : ∑ i ∈ s, (f i + g i) ^ 2
      = ∑ i ∈ s, f i ^ 2 + 2 * ∑ i ∈ s, f i * g i + ∑ i ∈ s, g i ^ 2 := by
    rw [Finset.mul_sum, ← Finset.sum_add_distrib, ← Finset.sum_add_distrib]
    exact Finset.sum_congr rfl fun i _ => by ring
  rw [hexp, add_sq, Real.sq_sqrt hA, Real.sq_sqrt hB]
  nlinarith [hcs]

theorem norm2_triangle (a b : Array ℝ) (h : a.size = b.size) :
    Vec.norm2 (Array.zipWith (· + ·) a b) ≤ Vec.norm2 a + Vec.norm2 b := by
  rw [norm2_eq, norm2_eq, norm2_eq, ← h]
  have hsz : (Array.zipWith (· + ·) a b).size = a.size := by simp [← h]
  rw [hsz]
  refine le_of_eq_of_le ?_ (sqrt_sum_add_sq_le _ _ _)
  congr 1
  refine Finset.sum_congr rfl fun i hi => ?_
  have hi : i < a.size := Finset.mem_range.mp hi
  have hi' : i < b.size := h ▸ hi
  simp [Array.getD, hi, hi']

/-- the triangle inequalities phrased on the checked addition `&a + &b` -/
theorem norms_add_le (a b c : Array ℝ) (h : Vec.add a b = .ok c) :
    Vec.norm1 c ≤ Vec.norm1 a + Vec.norm1 b ∧ Vec.norm2 c ≤ Vec.norm2 a + Vec.norm2 b ∧
    ∀ ma mb mc, Vec.normInf a = .ok ma → Vec.normInf b = .ok mb → Vec.normInf c = .ok mc →
      mc ≤ ma + mb := by
  unfold Vec.add at h
  split at h
  · cases h
  · rename_i hs
    cases h
    have hs := not_not.mp hs
    exact ⟨norm1_triangle a b hs, norm2_triangle a b hs,
      fun ma mb mc ha hb hc => normInf_triangle hs ha hb hc⟩

end Norm2

/-! ## 6. find -/
section Find
variable {K : Type} [Add K] [Sub K] [Mul K] [Neg K] [Zero K] [One K] [BEq K] [LawfulBEq K]
  [ScalarExt K]

/-- a hit: the first index holding `v` -/
theorem find_spec_some (a : Array K) (v : K) (i : Nat) (hi : i < a.size) (hv : a[i] = v)
    (hfirst : ∀ j (hj : j < i), a[j] ≠ v) : Vec.find a v = .ok i := by
  have : a.findIdx? (· == v) = some i := by
    rw [Array.findIdx?_eq_some_iff_getElem]
    exact ⟨hi, by simpa using hv, fun j hj => by simpa using hfirst j hj⟩
  simp [Vec.find, this]

/-- a miss on a non-empty vector returns `size - 1` (the source's sentinel) -/
theorem find_spec_none (a : Array K) (v : K) (hne : 0 < a.size) (hv : ∀ x ∈ a, x ≠ v) :
    Vec.find a v = .ok (a.size - 1) := by
  have : a.findIdx? (· == v) = none := by
    rw [Array.findIdx?_eq_none_iff]
    intro x hx
    simpa using hv x hx
  have h1 : 1 ≤ a.size := hne
  simp [Vec.find, this, usub, h1]

/-- the empty vector underflows `size - 1` -/
theorem find_empty (v : K) : Vec.find (#[] : Array K) v = .error .arith := by
  simp [Vec.find, usub]

/-- complete specification of `find` -/
theorem find_spec (a : Array K) (v : K) :
    (a.size = 0 → Vec.find a v = .error .arith) ∧
    (0 < a.size → ∃ r, Vec.find a v = .ok r ∧ r < a.size ∧
      ((∃ h : r < a.size, a[r] = v ∧ ∀ j (hj : j < r), a[j] ≠ v) ∨
       ((∀ x ∈ a, x ≠ v) ∧ r = a.size - 1))) := by
  constructor
  · intro h
    have : a = #[] := by simpa using h
    subst this
    exact find_empty v
  · intro hne
    by_cases hex : ∃ x ∈ a, x = v
    · have hsome : ∃ i, a.findIdx? (· == v) = some i := by
        cases hf : a.findIdx? (· == v) with
        | some i => exact ⟨i, rfl⟩
        | none =>
          rw [Array.findIdx?_eq_none_iff] at hf
          obtain ⟨x, hx, rfl⟩ := hex
          simpa using hf x hx
      obtain ⟨i, hi⟩ := hsome
      obtain ⟨hlt, hp, hq⟩ := Array.findIdx?_eq_some_iff_getElem.mp hi
      refine ⟨i, by simp [Vec.find, hi], hlt, Or.inl ⟨hlt, by simpa using hp, fun j hj => ?_⟩⟩
      simpa using hq j hj
    · have hall : ∀ x ∈ a, x ≠ v := fun x hx e => hex ⟨x, hx, e⟩
      exact ⟨a.size - 1, find_spec_none a v hne hall, by omega, Or.inr ⟨hall, rfl⟩⟩

end Find

end Ohsl.Props.C15
