/-
  Property C12 (part F) — rounding-error analysis of the polynomial long division of the model
  (`Ohsl/Model/Poly.lean`: `divStep`, `divLoop`, `polydiv`) in the "rounded reals" interpretation
  `Fl M` (Ohsl/Lemmas/Rounding.lean): the clause "accuracy over floats" of C12, `u = q·v + r` up to a
  coefficientwise residual of the order of the unit roundoff times the natural scale.

  The transfer to the Rust `f64` code rests on the ASSUMPTION stated in Rounding.lean (IEEE binary64
  without overflow/underflow satisfies `FlModel` with `u = 2⁻⁵³`); it is not proved here.

  Notation: `coef p i` the real value of coefficient `i` (`0` beyond the end, from C11F), `k = deg r − deg v`
  the shift of a step, `c = fl(r_lead / v_lead)` its multiplier, `sh v k j = v_{j−k}` (`0` for `j < k`),
  `conv a b j = Σ_{i ≤ j} a_i b_{j−i}`, `exactConv`/`absConv` (C11F) the same for coefficient arrays,
  `M.gam n = (1+u)^n − 1`.

  Structural (S): `stepT_getD`, `divStep_ok`, `stepR0_getD`, `Run` (the run of the loop as an inductive
                  relation), `divLoop_run`, `polydiv_run`, `run_of_isZero`.
  * `divStep_slots`     (F) what one step computes, literally: remainder slot `(0 + r_j) − (0 + c·v_{j−k})`
                        (`mul_stepT_getD`: `Poly.mul (c·x^k) v` adds the single non-trivial product to `0`),
                        leading slot the literal `0`, quotient slot `(0 + q_k) + c`.
  * `divStep_rounding`  (F) 1. one step: quotient `|q'_i − (q_i + t_i)| ≤ gam 2·|q_i| + u·|t_i|` (one rounding
                        above `k` / where `q_i = 0`, none in the first step); remainder
                        `|r'_j − (r_j − c·v_{j−k})| ≤ gam 2·|r_j| + gam 3·|c·v_{j−k}|`, leading slot removed
                        exactly (`|r_lead − c·v_lead| ≤ u·|r_lead|` would have been left); sizes.
                        (`stepR_rounding`: the remainder bound for ALL slots.)
  * `run_rounding`      (F) telescoping over `m` steps, constant `gam (3m)` in the multipliers.
  * `polydiv_multiplier_rounding` (F) 2a. `q̂_i = d_i(1+ψ_i)`, `|ψ_i| ≤ gam m`, and
                        `|u_j − ((d*v)_j + r̂_j)| ≤ gam (3m)·(|u_j| + (|d|*|v|)_j)`, `m ≤ deg u − deg v + 1`.
  * `polydiv_residual_steps` (F) 2b. `(1 − gam m)·|u_j − ((q̂*v)_j + r̂_j)| ≤ (gam (3m) + gam m)·(|u_j| + (|q̂|*|v|)_j)`.
  * `polydiv_residual_rounding` (F) 2. `|u_j − ((q̂*v)_j + r̂_j)| ≤ divConst M N·(|u_j| + (|q̂|*|v|)_j)`,
                        `N = u.size + 1 − v.size`, `divConst M N = (gam (3N) + gam N)/(1 − gam N)` (`≈ 4Nu`),
                        under `gam N < 1` (`gam_lt_one`: implied by `2 N u < 1`).
  * `polydiv_degree_fl`, `polydiv_total_fl` (F) 3. the degree facts are structural; total statement.

  Remark on the abstract standard model: `FlModel` does not assume `fl (fl x) = fl x`, so `0 + x` is a
  rounding.  `Poly.add q t` therefore re-rounds EVERY stored quotient coefficient in every step (and
  `Poly.sub` every remainder coefficient below the shift): the returned `q̂` differs from the multipliers
  `d` used in the remainder updates by up to `m` roundings.  This is why the bound in terms of `q̂` needs
  `1/(1 − gam m)`; the multiplier form 2a needs no such factor.  For IEEE arithmetic these re-roundings
  are exact and the bounds are pessimistic but valid.
-/
import Ohsl.Props.C12D
import Ohsl.Props.C11F
set_option linter.unusedSectionVars false
set_option linter.unusedVariables false
namespace Ohsl.Props.C12
open Ohsl Ohsl.Poly Ohsl.PolyDiv Ohsl.Props.C11

/-! ### structural: one step and the run of the loop (any `K`, no algebraic law) -/

section Structural
variable {K : Type} [Add K] [Sub K] [Mul K] [Neg K] [Zero K] [One K] [BEq K] [ScalarExt K]

/-- (S) the monomial `c·x^k`: coefficient `k` is `c`, all others are the literal `0` -/
theorem stepT_getD (k : Nat) (c : K) (i : Nat) :
    (stepT k c)[i]?.getD 0 = if i = k then c else 0 := by
  rw [stepT, Array.getElem?_setIfInBounds]
  by_cases hj : k = i
  · subst hj; simp
  · have hj' : ¬ i = k := fun e => hj e.symm
    simp only [hj, hj', if_false, Array.getElem?_replicate]
    split <;> rfl

/-- (S) a successful step: the multiplier `c` is the model quotient of the two leading coefficients
and the new state is the trimmed closed form of `Ohsl.PolyDiv.divStep_eq` -/
theorem divStep_ok (v q r q1 r1 : Array K) (hv : 1 ≤ v.size) (hr : v.size ≤ r.size)
    (h : divStep v q r = .ok (q1, r1)) :
    ∃ c, divM (r[r.size - 1]'(by omega)) (v[v.size - 1]'(by omega)) = .ok c ∧
      q1 = trimA (stepQ0 v q r c) ∧ r1 = trimA (stepR0 v r c) := by
  rw [divStep_eq v q r hv hr] at h
  cases hd : divM (r[r.size - 1]'(by omega)) (v[v.size - 1]'(by omega)) with
  | error e => rw [hd] at h; simp [Except.bind] at h
  | ok c =>
    rw [hd] at h
    simp only [Except.bind, Except.ok.injEq, Prod.mk.injEq] at h
    exact ⟨c, rfl, h.1.symm, h.2.symm⟩

/-- (S) coefficient `j` of the un-trimmed new remainder: the leading slot is the literal `0`, every
other slot `j < r.size` is `(0 + r_j) − (t·v)_j` (`Poly.sub`'s `s = 0; s += a; s -= b`) -/
theorem stepR0_getD (v r : Array K) (c : K) (hv : 1 ≤ v.size) (hr : v.size ≤ r.size) (j : Nat) :
    (stepR0 v r c)[j]?.getD 0 =
      if j = r.size - 1 then 0
      else if j < r.size then
        (0 + r[j]?.getD 0) - (mul (stepT (r.size - 1 - (v.size - 1)) c) v)[j]?.getD 0
      else 0 := by
  have hms := stepMul_size v r c hv hr
  have hss := stepSub_size v r c hv hr
  rw [stepR0, Array.getElem?_setIfInBounds]
  by_cases hj : r.size - 1 = j
  · subst hj
    rw [if_pos rfl, if_pos (by rw [hss]; omega), if_pos rfl]; rfl
  · have hj' : ¬ j = r.size - 1 := fun e => hj e.symm
    rw [if_neg hj, if_neg hj', sub_coeff r _ (by omega) (by rw [hms]; omega) j, hms]
    by_cases h1 : j < r.size <;> simp [h1]

/-- the run of the `while` loop: `Run v m q r q' r'` — `m` successful steps lead from `(q, r)` to
`(q', r')` -/
inductive Run (v : Array K) : Nat → Array K → Array K → Array K → Array K → Prop
  | done (q r : Array K) : Run v 0 q r q r
  | step {m : Nat} {q r q1 r1 q' r' : Array K} : v.size ≤ r.size → isZero r = false →
      divStep v q r = .ok (q1, r1) → Run v m q1 r1 q' r' → Run v (m + 1) q r q' r'

/-- (S) a returned pair is the end of a run, and the exit condition holds -/
theorem divLoop_run (v : Array K) :
    ∀ (fuel count : Nat) (q r q' r' : Array K), divLoop v fuel count q r = .ok (some (q', r')) →
      (∃ m, Run v m q r q' r') ∧ (isZero r' = true ∨ r'.size < v.size) := by
  intro fuel
  induction fuel with
  | zero => intro count q r q' r' h; simp [divLoop] at h
  | succ fuel ih =>
    intro count q r q' r' h
    unfold divLoop at h
    split at h
    · rename_i hg
      have hs : v.size ≤ r.size := by
        simp only [Bool.and_eq_true, decide_eq_true_eq] at hg; exact hg.2
      have hz : isZero r = false := by
        simp only [Bool.and_eq_true, Bool.not_eq_eq_eq_not, Bool.not_true] at hg; exact hg.1
      cases hd : divStep v q r with
      | error e => rw [hd] at h; simp [bind, Except.bind] at h
      | ok p =>
        obtain ⟨q1, r1⟩ := p
        rw [hd] at h
        simp only [bind, Except.bind] at h
        split at h
        · simp at h
        · obtain ⟨⟨m, hm⟩, h2⟩ := ih (count + 1) q1 r1 q' r' h
          exact ⟨⟨m + 1, Run.step hs hz hd hm⟩, h2⟩
    · rename_i hg
      simp only [Except.ok.injEq, Option.some.injEq, Prod.mk.injEq] at h
      obtain ⟨rfl, rfl⟩ := h
      refine ⟨⟨0, Run.done _ _⟩, ?_⟩
      simp only [Bool.and_eq_true, decide_eq_true_eq, not_and,
        Bool.not_eq_eq_eq_not, Bool.not_true] at hg
      by_cases hz' : isZero r = true
      · exact Or.inl hz'
      · right
        have : isZero r = false := by simpa using hz'
        have := hg this; omega

theorem polydiv_run (u v q r : Array K) (h : polydiv u v = .ok (some (q, r))) :
    1 ≤ v.size ∧ (∃ m, Run v m #[] u q r) ∧ (isZero r = true ∨ r.size < v.size) := by
  unfold polydiv at h
  split at h
  · simp at h
  · rename_i h0
    split at h
    · simp at h
    · exact ⟨by omega, divLoop_run v 1002 0 #[] u q r h⟩

/-- (S) a run from a zero remainder is empty -/
theorem run_of_isZero (v : Array K) {m : Nat} {q r q' r' : Array K} (h : Run v m q r q' r')
    (hz : isZero r = true) : m = 0 ∧ q' = q ∧ r' = r := by
  cases h with
  | done => exact ⟨rfl, rfl, rfl⟩
  | step _ hz' _ _ => rw [hz] at hz'; cases hz'

end Structural

/-! ### the rounded-reals interpretation -/

section Rounding
variable {M : FlModel}
open Fl

/-! #### facts of `Fl M` used below -/

theorem fl_zero_add_zero : (0 : Fl M) + 0 = 0 := by ext; simp [M.fl_zero]
theorem fl_zero_mul (a : Fl M) : (0 : Fl M) * a = 0 := by ext; simp [M.fl_zero]
theorem fl_beq_zero : ((0 : Fl M) == 0) = true := by simp

theorem fl_divM_ok (a b c : Fl M) (h : divM a b = .ok c) : b.val ≠ 0 ∧ c = a / b := by
  have h' : (if b.val = 0 then (.error .arith : Res (Fl M)) else .ok (a / b)) = .ok c := h
  by_cases hb : b.val = 0
  · rw [if_pos hb] at h'; cases h'
  · rw [if_neg hb] at h'; exact ⟨hb, (Except.ok.inj h').symm⟩

theorem fl_divM_of_ne (a b : Fl M) (hb : b.val ≠ 0) : divM a b = .ok (a / b) := by
  show (if b.val = 0 then (.error .arith : Res (Fl M)) else .ok (a / b)) = _
  rw [if_neg hb]

theorem foldl_zeros (l : List (Fl M)) (h : ∀ x ∈ l, x = 0) : l.foldl (· + ·) (0 : Fl M) = 0 := by
  induction l with
  | nil => rfl
  | cons x l ih =>
    have hx : x = 0 := h x (List.mem_cons_self ..)
    rw [List.foldl_cons, hx, fl_zero_add_zero]
    exact ih (fun y hy => h y (List.mem_cons_of_mem _ hy))

/-- trimming only removes exact zeros -/
theorem trimList_spec_fl : ∀ l : List (Fl M), ∃ n, l = List.replicate n (0 : Fl M) ++ trimList l
  | [] => ⟨0, by simp [trimList]⟩
  | [c] => ⟨0, by simp [trimList]⟩
  | c :: d :: cs => by
    unfold trimList
    split
    · rename_i h
      have hc : c = 0 := by simpa using h
      obtain ⟨n, hn⟩ := trimList_spec_fl (d :: cs)
      refine ⟨n + 1, ?_⟩
      rw [List.replicate_succ, List.cons_append, ← hn, hc]
    · exact ⟨0, by simp⟩

/-- `trim` does not change any coefficient -/
theorem getD_trimA_fl (p : Array (Fl M)) (k : Nat) : (trimA p)[k]?.getD 0 = p[k]?.getD 0 := by
  obtain ⟨n, hn⟩ := trimList_spec_fl p.toList.reverse
  have h : p.toList = (trimA p).toList ++ List.replicate n (0 : Fl M) := by
    have := congrArg List.reverse hn
    simpa [trimA] using this
  rw [← Array.getElem?_toList, ← Array.getElem?_toList (xs := p), h, List.getElem?_append]
  split
  · rfl
  · rename_i hk
    rw [List.getElem?_eq_none (by omega)]
    rw [List.getElem?_replicate]
    split <;> rfl

theorem coef_trimA (p : Array (Fl M)) (k : Nat) : coef (trimA p) k = coef p k := by
  unfold coef; rw [getD_trimA_fl]

theorem coef_last (v : Array (Fl M)) (hv : 1 ≤ v.size) :
    coef v (v.size - 1) = (v[v.size - 1]'(by omega)).val := by
  unfold coef; rw [Array.getElem?_eq_getElem (by omega)]; rfl

/-- `is_zero()` in `Fl M`: all real coefficients vanish -/
theorem isZero_iff_coef (p : Array (Fl M)) : isZero p = true ↔ ∀ j, coef p j = 0 := by
  unfold isZero
  rw [Array.all_eq_true]
  constructor
  · intro h j
    by_cases hj : j < p.size
    · have := h j hj
      have h0 : p[j] = 0 := by simpa using this
      unfold coef; rw [Array.getElem?_eq_getElem hj]; simp [h0]
    · exact coef_of_le p j (by omega)
  · intro h j hj
    have := h j
    unfold coef at this
    rw [Array.getElem?_eq_getElem hj] at this
    have h0 : p[j] = 0 := Fl.ext this
    simp [h0]

/-- `fl(0 + fl(c·x))`: two roundings -/
theorem zero_add_mul_err (c x : Fl M) :
    |((0 : Fl M) + c * x).val - c.val * x.val| ≤ M.gam 2 * |c.val * x.val| := by
  obtain ⟨δ₁, h₁, e₁⟩ := M.exists_delta (c.val * x.val)
  obtain ⟨δ₂, h₂, e₂⟩ := M.exists_delta (0 + (c * x).val)
  have hv : ((0 : Fl M) + c * x).val = c.val * x.val * (1 + δ₁) * (1 + δ₂) := by
    rw [Fl.add_val, Fl.zero_val, e₂, Fl.mul_val, e₁, zero_add]
  have hθ := one_add_theta_step (M := M) δ₁ δ₂ 1 (by simpa using h₁) h₂
  have e : c.val * x.val * (1 + δ₁) * (1 + δ₂) - c.val * x.val
      = ((1 + δ₁) * (1 + δ₂) - 1) * (c.val * x.val) := by ring
  rw [hv, e, abs_mul]
  exact mul_le_mul_of_nonneg_right hθ (abs_nonneg _)

/-- two relative errors in a row -/
theorem rel_compose (x y z : ℝ) (n : ℕ) (h1 : |y - x| ≤ M.u * |x|)
    (h2 : |z - y| ≤ M.gam n * |y|) : |z - x| ≤ M.gam (n + 1) * |x| := by
  have hy : |y| ≤ (1 + M.u) * |x| := by
    have := abs_sub_abs_le_abs_sub y x; linarith
  have h3 := abs_sub_le z y x
  have h4 := mul_le_mul_of_nonneg_left hy (M.gam_nonneg n)
  rw [M.gam_succ]
  nlinarith

/-! #### the product `c·x^k · v` and the new remainder -/

/-- coefficient `j` of `x^k · v` as a real number (`0` outside `k ≤ j < k + v.size`) -/
def sh (v : Array (Fl M)) (k j : Nat) : ℝ := if k ≤ j then coef v (j - k) else 0

/-- `Poly.mul (c·x^k) v`: the products with the zero coefficients of the monomial are exact zeros and
leave the accumulator `0`; the slot `j` receives the single product `c·v_{j−k}`, added to `0` -/
theorem mul_stepT_getD (k : Nat) (c : Fl M) (v : Array (Fl M)) (j : Nat) :
    (mul (stepT k c) v)[j]?.getD 0
      = if k ≤ j ∧ j - k < v.size then 0 + c * v[j - k]?.getD 0 else 0 := by
  rw [mul_getD, stepT_size]
  unfold convTerms
  rw [convIdx_succ, List.map_append, List.foldl_append]
  have h0 : ((convIdx k v.size j).map
      (fun i => (stepT k c)[i]?.getD 0 * v[j - i]?.getD 0)).foldl (· + ·) (0 : Fl M) = 0 := by
    apply foldl_zeros
    intro x hx
    obtain ⟨i, hi, rfl⟩ := List.mem_map.mp hx
    have : i < k := by
      unfold convIdx at hi
      exact List.mem_range.mp (List.mem_filter.mp hi).1
    rw [stepT_getD, if_neg (by omega)]; exact fl_zero_mul _
  rw [h0]
  by_cases hc : k ≤ j ∧ j - k < v.size
  · rw [if_pos hc, if_pos hc]; simp [stepT_getD]
  · rw [if_neg hc, if_neg hc]; rfl

/-- every slot of the new remainder except the leading one: `r_j` is rounded twice (`0 + r_j`, then
the subtraction), the product `c·v_{j−k}` three times (product, `0 + ·`, subtraction) -/
theorem stepR0_rounding (v r : Array (Fl M)) (c : Fl M) (hv : 1 ≤ v.size) (hr : v.size ≤ r.size)
    (j : Nat) (hj : j ≠ r.size - 1) :
    |coef (stepR0 v r c) j - (coef r j - c.val * sh v (r.size - v.size) j)|
      ≤ M.gam 2 * |coef r j| + M.gam 3 * |c.val * sh v (r.size - v.size) j| := by
  have hk : r.size - 1 - (v.size - 1) = r.size - v.size := by omega
  have hc : coef (stepR0 v r c) j = ((stepR0 v r c)[j]?.getD 0).val := rfl
  rw [hc, stepR0_getD v r c hv hr j, if_neg hj, hk]
  by_cases h1 : j < r.size
  · rw [if_pos h1, mul_stepT_getD]
    have ha : coef r j = (r[j]?.getD 0).val := rfl
    rw [ha]
    generalize r[j]?.getD 0 = a
    by_cases h2 : r.size - v.size ≤ j ∧ j - (r.size - v.size) < v.size
    · rw [if_pos h2]
      have hsh : sh v (r.size - v.size) j = (v[j - (r.size - v.size)]?.getD 0).val := by
        simp [sh, h2.1, coef]
      rw [hsh]
      generalize v[j - (r.size - v.size)]?.getD 0 = x
      have h3 := sub3_err a (0 + c * x)
      have h4 := zero_add_mul_err c x
      have hB : |((0 : Fl M) + c * x).val| ≤ (1 + M.gam 2) * |c.val * x.val| := by
        have := abs_sub_abs_le_abs_sub ((0 : Fl M) + c * x).val (c.val * x.val); linarith
      have h5 := mul_le_mul_of_nonneg_left hB M.u_nonneg
      have e : ((0 + a) - (0 + c * x)).val - (a.val - c.val * x.val)
          = (((0 + a) - (0 + c * x)).val - (a.val - ((0 : Fl M) + c * x).val))
            - (((0 : Fl M) + c * x).val - c.val * x.val) := by ring
      rw [e, M.gam_succ 2]
      refine (abs_sub _ _).trans ?_
      nlinarith
    · rw [if_neg h2]
      have hsh : sh v (r.size - v.size) j = 0 := by
        unfold sh
        split
        · exact coef_of_le v _ (by omega)
        · rfl
      rw [hsh]
      have h3 := sub3_err a (0 : Fl M)
      simpa using h3
  · rw [if_neg h1]
    have h0 : coef r j = 0 := coef_of_le r j (by omega)
    have hsh : sh v (r.size - v.size) j = 0 := by
      unfold sh
      split
      · exact coef_of_le v _ (by omega)
      · rfl
    rw [h0, hsh]; simp

/-- the leading slot: it is set to the literal `0`, while `r_lead − c·v_lead = −δ·r_lead` for the
rounded multiplier `c = fl(r_lead / v_lead)` -/
theorem stepR0_lead_rounding (v r : Array (Fl M)) (hv : 1 ≤ v.size) (hr : v.size ≤ r.size)
    (hlv : (v[v.size - 1]'(by omega)).val ≠ 0) :
    coef (stepR0 v r (r[r.size - 1]'(by omega) / v[v.size - 1]'(by omega))) (r.size - 1) = 0 ∧
    |coef r (r.size - 1) - (r[r.size - 1]'(by omega) / v[v.size - 1]'(by omega)).val
        * sh v (r.size - v.size) (r.size - 1)| ≤ M.u * |coef r (r.size - 1)| := by
  constructor
  · have hc : ∀ c, coef (stepR0 v r c) (r.size - 1) = ((stepR0 v r c)[r.size - 1]?.getD 0).val :=
      fun _ => rfl
    rw [hc, stepR0_getD v r _ hv hr, if_pos rfl]; rfl
  · have h1 : coef r (r.size - 1) = (r[r.size - 1]'(by omega)).val := by
      unfold coef; rw [Array.getElem?_eq_getElem (by omega)]; rfl
    have h2 : sh v (r.size - v.size) (r.size - 1) = (v[v.size - 1]'(by omega)).val := by
      unfold sh coef
      rw [if_pos (by omega)]
      have e : r.size - 1 - (r.size - v.size) = v.size - 1 := by omega
      rw [e, Array.getElem?_eq_getElem (by omega)]; rfl
    rw [h1, h2]
    generalize (r[r.size - 1]'(by omega)) = lr
    generalize (v[v.size - 1]'(by omega)) = lv at hlv ⊢
    obtain ⟨δ, hδ, e⟩ := M.exists_delta (lr.val / lv.val)
    rw [Fl.div_val, e]
    have : lr.val - lr.val / lv.val * (1 + δ) * lv.val = -δ * lr.val := by field_simp; ring
    rw [this, abs_mul, abs_neg]
    exact mul_le_mul_of_nonneg_right hδ (abs_nonneg _)

/-- **the new remainder of one step**, all slots: with `c = fl(r_lead / v_lead)` and `k = deg r − deg v`
`|r'_j − (r_j − c·v_{j−k})| ≤ gam 2 · |r_j| + gam 3 · |c·v_{j−k}|` (at the leading slot `r'_j = 0` and the
left-hand side is `≤ u · |r_j|`). -/
theorem stepR_rounding (v r : Array (Fl M)) (hv : 1 ≤ v.size) (hr : v.size ≤ r.size)
    (hlv : (v[v.size - 1]'(by omega)).val ≠ 0) (j : Nat) :
    |coef (trimA (stepR0 v r (r[r.size - 1]'(by omega) / v[v.size - 1]'(by omega)))) j
        - (coef r j - (r[r.size - 1]'(by omega) / v[v.size - 1]'(by omega)).val
            * sh v (r.size - v.size) j)|
      ≤ M.gam 2 * |coef r j|
        + M.gam 3 * |(r[r.size - 1]'(by omega) / v[v.size - 1]'(by omega)).val
            * sh v (r.size - v.size) j| := by
  rw [coef_trimA]
  by_cases hj : j = r.size - 1
  · obtain ⟨h1, h2⟩ := stepR0_lead_rounding v r hv hr hlv
    subst hj
    rw [h1, zero_sub, abs_neg]
    have hgu : M.u ≤ M.gam 2 := by simpa using M.gam_mono (show 1 ≤ 2 by norm_num)
    have := mul_le_mul_of_nonneg_right hgu (abs_nonneg (coef r (r.size - 1)))
    have := mul_nonneg (M.gam_nonneg 3) (abs_nonneg
      ((r[r.size - 1]'(by omega) / v[v.size - 1]'(by omega)).val
        * sh v (r.size - v.size) (r.size - 1)))
    linarith
  · exact stepR0_rounding v r _ hv hr j hj

/-! #### the new quotient -/

/-- `add p q` where `p_i = 0`: the slot is `0 + q_i` (or `q_i`, or `0`) -/
theorem add_coef_of_zero (p q : Array (Fl M)) (i : Nat) (h : coef p i = 0) :
    |coef (add p q) i - coef q i| ≤ M.u * |coef q i| := by
  have hu := M.u_nonneg
  by_cases hp : p.size = 0
  · have : add p q = q := by simp [add, hp]
    rw [this, sub_self, abs_zero]; positivity
  by_cases hq : q.size = 0
  · have hq0 : coef q i = 0 := coef_of_le q i (by omega)
    have : add p q = p := by simp [add, hp, hq]
    rw [this, hq0, h]; simp
  have hp0 : p[i]?.getD 0 = (0 : Fl M) := Fl.ext h
  have hc : coef (add p q) i = ((add p q)[i]?.getD 0).val := rfl
  rw [hc, add_coeff p q hp hq i, hp0, fl_zero_add_zero]
  by_cases h1 : i < p.size <;> by_cases h2 : i < q.size
  · simp only [h1, h2, if_true]; exact zero_add_err _
  · have hq0 : coef q i = 0 := coef_of_le q i (by omega)
    simp [h1, h2, hq0]
  · simp only [h1, h2, if_true, if_false]; exact zero_add_err _
  · have hq0 : coef q i = 0 := coef_of_le q i (by omega)
    simp [h1, h2, hq0]

/-- `add p q` beyond the end of `q`: the slot is `0 + p_i` (or `p_i`, or `0`) -/
theorem add_coef_beyond (p q : Array (Fl M)) (i : Nat) (h : q.size ≤ i) :
    |coef (add p q) i - coef p i| ≤ M.u * |coef p i| := by
  have hu := M.u_nonneg
  have hq0 : coef q i = 0 := coef_of_le q i h
  by_cases hp : p.size = 0
  · have hp0 : coef p i = 0 := coef_of_le p i (by omega)
    have : add p q = q := by simp [add, hp]
    rw [this, hq0, hp0]; simp
  by_cases hq : q.size = 0
  · have : add p q = p := by simp [add, hp, hq]
    rw [this, sub_self, abs_zero]; positivity
  have hc : coef (add p q) i = ((add p q)[i]?.getD 0).val := rfl
  have h2 : ¬ i < q.size := by omega
  rw [hc, add_coeff p q hp hq i]
  by_cases h1 : i < p.size
  · simp only [h1, h2, if_true, if_false]; exact zero_add_err _
  · have hp0 : coef p i = 0 := coef_of_le p i (by omega)
    simp [h1, h2, hp0]

/-- the real coefficients of the monomial `c·x^k` -/
theorem coef_stepT (k : Nat) (c : Fl M) (i : Nat) :
    coef (stepT k c) i = if i = k then c.val else 0 := by
  unfold coef
  rw [stepT_getD]
  split <;> rfl

/-- **the new quotient of one step** `q' = trim (add q (c·x^k))`:
(a) in general slot `i` is `(0 + q_i) + t_i`: `|q'_i − (q_i + t_i)| ≤ gam 2 · |q_i| + u · |t_i|`, `t_k = c`,
`t_i = 0` otherwise (so, in the abstract standard model, EVERY coefficient of the quotient is re-rounded in
every step);
(b) above `k` it is `0 + q_i`: one rounding;
(c) where `q_i = 0` it is `0 + t_i`: one rounding of `c` at `i = k`, an exact `0` elsewhere;
(d) the first step (`q = #[]`) is exact. -/
theorem stepQ_rounding (v q r : Array (Fl M)) (c : Fl M) (i : Nat) :
    let k := r.size - 1 - (v.size - 1)
    let t : ℝ := if i = k then c.val else 0
    |coef (trimA (stepQ0 v q r c)) i - (coef q i + t)| ≤ M.gam 2 * |coef q i| + M.u * |t| ∧
    (k < i → |coef (trimA (stepQ0 v q r c)) i - coef q i| ≤ M.u * |coef q i|) ∧
    (coef q i = 0 → |coef (trimA (stepQ0 v q r c)) i - t| ≤ M.u * |t|) ∧
    (q.size = 0 → coef (trimA (stepQ0 v q r c)) i = t) := by
  intro k t
  have ht : coef (stepT k c) i = t := coef_stepT k c i
  rw [coef_trimA, stepQ0, ← ht]
  refine ⟨add_rounding _ _ i, fun hk => add_coef_beyond _ _ i (by rw [stepT_size]; omega),
    fun h0 => add_coef_of_zero _ _ i h0, fun hq => ?_⟩
  have : add q (stepT k c) = stepT k c := by simp [add, hq]
  rw [this]

/-! #### convolutions of real coefficient sequences -/

/-- `(a * b)_j = Σ_{i ≤ j} a_i b_{j−i}` -/
def conv (a b : ℕ → ℝ) (j : ℕ) : ℝ := ∑ i ∈ Finset.range (j + 1), a i * b (j - i)

theorem conv_add_single (d b : ℕ → ℝ) (k : ℕ) (c : ℝ) (j : ℕ) :
    conv (fun i => d i + (if i = k then c else 0)) b j
      = conv d b j + c * (if k ≤ j then b (j - k) else 0) := by
  unfold conv
  simp only [add_mul, Finset.sum_add_distrib, ite_mul, zero_mul]
  congr 1
  rw [Finset.sum_ite_eq' (Finset.range (j + 1)) k (fun i => c * b (j - i))]
  by_cases h : k ≤ j
  · simp [h, Nat.lt_succ_of_le h]
  · have : ¬ k < j + 1 := by omega
    simp [h, this]

theorem conv_nonneg (a b : ℕ → ℝ) (j : ℕ) (ha : ∀ i, 0 ≤ a i) (hb : ∀ i, 0 ≤ b i) :
    0 ≤ conv a b j :=
  Finset.sum_nonneg (fun i _ => mul_nonneg (ha i) (hb _))

theorem exactConv_eq_conv (p q : Array (Fl M)) (j : ℕ) :
    exactConv p q j = conv (coef p) (coef q) j := rfl

theorem absConv_eq_conv (p q : Array (Fl M)) (j : ℕ) :
    absConv p q j = conv (fun i => |coef p i|) (fun i => |coef q i|) j := by
  unfold absConv conv
  exact Finset.sum_congr rfl (fun i _ => abs_mul _ _)

/-! #### 1. one step -/

/-- **1a. the slots of one step, literally** (`Fl M`, divisor with non-zero leading coefficient):
with `c = r_lead / v_lead` (one rounded division) and `k = deg r − deg v`
* every remainder slot below the leading one is `(0 + r_j) − (0 + c·v_{j−k})` (`Poly.mul` adds the
  single non-trivial product to `0`, `Poly.sub` is `s = 0; s += a; s -= b`), resp. `(0 + r_j) − 0`
  for `j < k`;
* the leading remainder slot is the literal `0`;
* the quotient slot `k` is `(0 + q_k) + c` when `q` is non-empty and long enough. -/
theorem divStep_slots (v q r : Array (Fl M)) (hv : 1 ≤ v.size) (hr : v.size ≤ r.size)
    (hlv : coef v (v.size - 1) ≠ 0) :
    ∃ c q' r', divStep v q r = .ok (q', r') ∧
      c = r[r.size - 1]'(by omega) / v[v.size - 1]'(by omega) ∧
      (∀ j, j < r.size - 1 → r'[j]?.getD 0 = (0 + r[j]?.getD 0)
          - (if r.size - v.size ≤ j then 0 + c * v[j - (r.size - v.size)]?.getD 0 else 0)) ∧
      r'[r.size - 1]?.getD 0 = 0 ∧
      (r.size - v.size < q.size →
        q'[r.size - v.size]?.getD 0 = (0 + q[r.size - v.size]?.getD 0) + c) := by
  have hlv' : (v[v.size - 1]'(by omega)).val ≠ 0 := by rwa [← coef_last v hv]
  have hk : r.size - 1 - (v.size - 1) = r.size - v.size := by omega
  refine ⟨r[r.size - 1]'(by omega) / v[v.size - 1]'(by omega), _, _,
    by rw [divStep_eq v q r hv hr, fl_divM_of_ne _ _ hlv']; rfl, rfl, ?_, ?_, ?_⟩
  · intro j hj
    rw [getD_trimA_fl, stepR0_getD v r _ hv hr j, if_neg (by omega), if_pos (by omega),
      mul_stepT_getD, hk]
    by_cases h : r.size - v.size ≤ j
    · rw [if_pos ⟨h, by omega⟩, if_pos h]
    · rw [if_neg (fun h' => h h'.1), if_neg h]
  · rw [getD_trimA_fl, stepR0_getD v r _ hv hr, if_pos rfl]
  · intro hq
    rw [getD_trimA_fl, stepQ0, hk, add_coeff _ _ (by omega) (by simp), if_pos hq, stepT_size,
      if_pos (by omega), stepT_getD, if_pos rfl]

/-- **1b. rounding analysis of one step** (`Fl M`, divisor with non-zero leading coefficient).  With
`c = fl(r_lead / v_lead)`, `k = deg r − deg v`, `t_i = c` for `i = k` and `0` otherwise:
* quotient: `|q'_i − (q_i + t_i)| ≤ gam 2·|q_i| + u·|t_i|` (`(0 + q_i) + t_i`); one rounding above `k`
  and where `q_i = 0`; no rounding at all in the first step (`q = #[]`);
* remainder, `j` not the leading slot: `|r'_j − (r_j − c·v_{j−k})| ≤ gam 2·|r_j| + gam 3·|c·v_{j−k}|`;
* the leading slot of the remainder is removed exactly (`r'_lead = 0`), the exact update would have
  left `|r_lead − c·v_lead| ≤ u·|r_lead|`;
* the remainder gets shorter. -/
theorem divStep_rounding (v q r : Array (Fl M)) (hv : 1 ≤ v.size) (hr : v.size ≤ r.size)
    (hlv : coef v (v.size - 1) ≠ 0) :
    ∃ (c : ℝ) (q' r' : Array (Fl M)), divStep v q r = .ok (q', r') ∧
      c = M.fl (coef r (r.size - 1) / coef v (v.size - 1)) ∧
      (∀ i, |coef q' i - (coef q i + if i = r.size - v.size then c else 0)|
          ≤ M.gam 2 * |coef q i| + M.u * |if i = r.size - v.size then c else 0|) ∧
      (∀ i, r.size - v.size < i → |coef q' i - coef q i| ≤ M.u * |coef q i|) ∧
      (∀ i, coef q i = 0 → |coef q' i - (if i = r.size - v.size then c else 0)|
          ≤ M.u * |if i = r.size - v.size then c else 0|) ∧
      (q.size = 0 → ∀ i, coef q' i = if i = r.size - v.size then c else 0) ∧
      (∀ j, j ≠ r.size - 1 → |coef r' j - (coef r j - c * sh v (r.size - v.size) j)|
          ≤ M.gam 2 * |coef r j| + M.gam 3 * |c * sh v (r.size - v.size) j|) ∧
      coef r' (r.size - 1) = 0 ∧
      |coef r (r.size - 1) - c * coef v (v.size - 1)| ≤ M.u * |coef r (r.size - 1)| ∧
      r'.size ≤ max 1 (r.size - 1) ∧ 1 ≤ r'.size ∧ 1 ≤ q'.size := by
  have hlv' : (v[v.size - 1]'(by omega)).val ≠ 0 := by rwa [← coef_last v hv]
  have hk : r.size - 1 - (v.size - 1) = r.size - v.size := by omega
  obtain ⟨hl1, hl2⟩ := stepR0_lead_rounding v r hv hr hlv'
  have hsh : sh v (r.size - v.size) (r.size - 1) = coef v (v.size - 1) := by
    unfold sh
    rw [if_pos (by omega)]
    congr 1; omega
  rw [hsh] at hl2
  refine ⟨(r[r.size - 1]'(by omega) / v[v.size - 1]'(by omega)).val, _, _,
    by rw [divStep_eq v q r hv hr, fl_divM_of_ne _ _ hlv']; rfl,
    by rw [coef_last v hv, coef_last r (by omega)]; rfl,
    fun i => ?_, fun i hi => ?_, fun i hi => ?_, fun hq i => ?_, fun j hj => ?_, ?_, hl2,
    stepR_size_le v r _ fl_beq_zero hv hr,
    trimA_size_pos _ (by rw [stepR0_size v r _ hv hr]; omega),
    trimA_size_pos _ (stepQ0_size_pos v q r _)⟩
  · have := (stepQ_rounding v q r (r[r.size - 1]'(by omega) / v[v.size - 1]'(by omega)) i).1
    rw [hk] at this; exact this
  · have := (stepQ_rounding v q r (r[r.size - 1]'(by omega) / v[v.size - 1]'(by omega)) i).2.1
    rw [hk] at this; exact this hi
  · have := (stepQ_rounding v q r (r[r.size - 1]'(by omega) / v[v.size - 1]'(by omega)) i).2.2.1
    rw [hk] at this; exact this hi
  · have := (stepQ_rounding v q r (r[r.size - 1]'(by omega) / v[v.size - 1]'(by omega)) i).2.2.2
    rw [hk] at this; exact this hq
  · rw [coef_trimA]; exact stepR0_rounding v r _ hv hr j hj
  · rw [coef_trimA]; exact hl1

/-! #### telescoping over the run -/

/-- **the run of the division loop in `Fl M`.**  `m` steps from `(q, r)` to `(q', r')` use multipliers
`d` (`d_k = c` for the step with shift `k`, `0` elsewhere; supported on `i ≤ deg r − deg v`) with
* `m ≤ deg r − deg v + 1`;
* where `q_i = 0` the final quotient coefficient is `d_i` up to `m` roundings;
* above the current shift the quotient coefficients are only re-rounded (once per step);
* `|r_j − (d * v)_j − r'_j| ≤ gam (3m) · (|r_j| + (|d| * |v|)_j)` for every `j`. -/
theorem run_rounding (v : Array (Fl M)) (hv : 1 ≤ v.size) {m : Nat} {q r q' r' : Array (Fl M)}
    (h : Run v m q r q' r') :
    m ≤ r.size + 1 - v.size ∧
    ∃ d : ℕ → ℝ,
      (∀ i, d i ≠ 0 → i + v.size ≤ r.size ∧ 0 < m) ∧
      (∀ i, coef q i = 0 → |coef q' i - d i| ≤ M.gam m * |d i|) ∧
      (∀ i, r.size < i + v.size → |coef q' i - coef q i| ≤ M.gam m * |coef q i|) ∧
      (∀ j, |coef r j - conv d (coef v) j - coef r' j|
          ≤ M.gam (3 * m) * (|coef r j| + conv (fun i => |d i|) (fun i => |coef v i|) j)) := by
  induction h with
  | done q r =>
    refine ⟨by omega, fun _ => 0, by simp, ?_, by simp, ?_⟩
    · intro i hi; simp [hi]
    · intro j; simp [conv]
  | @step m q r q1 r1 q' r' hr hz hstep hrun ih =>
    obtain ⟨hm, d', hS, hQ1, hQ2, hB⟩ := ih
    obtain ⟨c, hc, hq1, hr1⟩ := divStep_ok v q r q1 r1 hv hr hstep
    obtain ⟨hlv, hcv⟩ := fl_divM_ok _ _ _ hc
    have hk : r.size - 1 - (v.size - 1) = r.size - v.size := by omega
    -- facts of the step
    have hRs : ∀ j, |coef r1 j - (coef r j - c.val * sh v (r.size - v.size) j)|
        ≤ M.gam 2 * |coef r j| + M.gam 3 * |c.val * sh v (r.size - v.size) j| := by
      intro j; rw [hr1, hcv]; exact stepR_rounding v r hv hr hlv j
    have hQb : ∀ i, r.size - v.size < i → |coef q1 i - coef q i| ≤ M.u * |coef q i| := by
      intro i hi
      have := (stepQ_rounding v q r c i).2.1
      rw [hk] at this; rw [hq1]; exact this hi
    have hQc : ∀ i, coef q i = 0 →
        |coef q1 i - (if i = r.size - v.size then c.val else 0)|
          ≤ M.u * |if i = r.size - v.size then c.val else 0| := by
      intro i hi
      have := (stepQ_rounding v q r c i).2.2.1
      rw [hk] at this; rw [hq1]; exact this hi
    have hsz : r1.size ≤ max 1 (r.size - 1) := by
      rw [hr1]; exact stepR_size_le v r c fl_beq_zero hv hr
    -- the rest of the run only touches shifts below the current one
    have H : (∀ i, d' i ≠ 0 → i + v.size < r.size) ∧
        (∀ i, r.size ≤ i + v.size → |coef q' i - coef q1 i| ≤ M.gam m * |coef q1 i|) ∧
        m + 1 ≤ r.size + 1 - v.size := by
      by_cases h1 : r.size = 1
      · have hr1' : r1 = #[(0 : Fl M)] := by rw [hr1]; exact stepR_single v r c hv hr h1
        have hz1 : isZero r1 = true := by rw [hr1']; simp [isZero]
        obtain ⟨hm0, hq', hr'⟩ := run_of_isZero v hrun hz1
        refine ⟨fun i hi => ?_, fun i _ => ?_, by omega⟩
        · have := (hS i hi).2; omega
        · rw [hq', sub_self, abs_zero]; exact mul_nonneg (M.gam_nonneg _) (abs_nonneg _)
      · have hlt : r1.size < r.size := by omega
        refine ⟨fun i hi => ?_, fun i hi => hQ2 i (by omega), by omega⟩
        have := (hS i hi).1; omega
    obtain ⟨H1, H2, H3⟩ := H
    have hd'k : d' (r.size - v.size) = 0 := by
      by_contra hne
      have := H1 _ hne; omega
    refine ⟨H3, fun i => d' i + (if i = r.size - v.size then c.val else 0), ?_, ?_, ?_, ?_⟩
    · intro i hi
      beta_reduce at hi
      by_cases hik : i = r.size - v.size
      · exact ⟨by omega, by omega⟩
      · rw [if_neg hik, add_zero] at hi
        have := H1 i hi
        exact ⟨by omega, by omega⟩
    · intro i hi
      by_cases hik : i = r.size - v.size
      · subst hik
        simp only [if_true, hd'k, zero_add]
        have h1 := hQc _ hi
        rw [if_pos rfl] at h1
        exact rel_compose _ _ _ m h1 (H2 _ (by omega))
      · simp only [if_neg hik, add_zero]
        have h1 := hQc _ hi
        rw [if_neg hik] at h1
        have h0 : coef q1 i = 0 := by simpa using h1
        refine (hQ1 i h0).trans ?_
        exact mul_le_mul_of_nonneg_right (M.gam_mono (by omega)) (abs_nonneg _)
    · intro i hi
      exact rel_compose _ _ _ m (hQb i (by omega)) (H2 i (by omega))
    · intro j
      have habs : (fun i => |d' i + (if i = r.size - v.size then c.val else 0)|)
          = fun i => |d' i| + (if i = r.size - v.size then |c.val| else 0) := by
        funext i
        by_cases hik : i = r.size - v.size
        · subst hik; simp [hd'k]
        · simp [hik]
      rw [habs, conv_add_single, conv_add_single]
      have hX : |c.val| * (if r.size - v.size ≤ j then |coef v (j - (r.size - v.size))| else 0)
          = |c.val * sh v (r.size - v.size) j| := by
        unfold sh; split <;> simp [abs_mul]
      have hY : c.val * (if r.size - v.size ≤ j then coef v (j - (r.size - v.size)) else 0)
          = c.val * sh v (r.size - v.size) j := rfl
      rw [hX, hY]
      have hs := hRs j
      have hb := hB j
      set a := coef r j
      set Y := c.val * sh v (r.size - v.size) j
      set A' := conv (fun i => |d' i|) (fun i => |coef v i|) j
      have hA' : 0 ≤ A' := conv_nonneg _ _ j (fun _ => abs_nonneg _) (fun _ => abs_nonneg _)
      set G' := M.gam (3 * m)
      have hG' : 0 ≤ G' := M.gam_nonneg _
      have hg2 := M.gam_nonneg 2
      have hg3 := M.gam_nonneg 3
      have h23 : M.gam 2 ≤ M.gam 3 := M.gam_mono (by norm_num)
      have hG : M.gam (3 * (m + 1)) = M.gam 3 * (1 + G') + G' := by
        have : 3 * (m + 1) = 3 * m + 3 := by ring
        rw [this, M.gam_add]
      have ha := abs_nonneg a
      have hYn := abs_nonneg Y
      have hr1a : |coef r1 j| ≤ (1 + M.gam 2) * |a| + (1 + M.gam 3) * |Y| := by
        have t1 := abs_sub_abs_le_abs_sub (coef r1 j) (a - Y)
        have t2 := abs_sub a Y
        linarith
      have hmul := mul_le_mul_of_nonneg_left hr1a hG'
      have e : a - (conv d' (coef v) j + Y) - coef r' j
          = (coef r1 j - conv d' (coef v) j - coef r' j) - (coef r1 j - (a - Y)) := by ring
      rw [e, hG]
      refine (abs_sub _ _).trans ?_
      nlinarith [mul_nonneg (mul_nonneg (sub_nonneg.2 h23) ha) (add_nonneg zero_le_one hG'),
        mul_nonneg (mul_nonneg hg3 (add_nonneg zero_le_one hG')) hA']

/-! #### 2. the division identity up to a small residual -/

/-- a run never lengthens the remainder -/
theorem run_size_le (v : Array (Fl M)) (hv : 1 ≤ v.size) {m : Nat} {q r q' r' : Array (Fl M)}
    (h : Run v m q r q' r') : r'.size ≤ r.size := by
  induction h with
  | done q r => exact le_refl _
  | @step m q r q1 r1 q' r' hr hz hstep hrun ih =>
    obtain ⟨c, hc, hq1, hr1⟩ := divStep_ok v q r q1 r1 hv hr hstep
    have hsz : r1.size ≤ max 1 (r.size - 1) := by
      rw [hr1]; exact stepR_size_le v r c fl_beq_zero hv hr
    omega

/-- **2a. backward-error form in the multipliers.**  If `polydiv u v` returns `(q̂, r̂)` then there are
`m ≤ deg u − deg v + 1` steps and multipliers `d` (the rounded quotients `c` of leading coefficients
actually used in the remainder updates) such that
* `q̂_i = d_i (1 + ψ_i)`, `|ψ_i| ≤ gam m` — in the abstract standard model `fl(0 + x)` is a rounding, so the
  stored quotient coefficients are re-rounded once in every later step;
* `|u_j − ((d * v)_j + r̂_j)| ≤ gam (3m) · (|u_j| + (|d| * |v|)_j)` for every `j`. -/
theorem polydiv_multiplier_rounding (u v q r : Array (Fl M))
    (h : polydiv u v = .ok (some (q, r))) :
    ∃ m, m ≤ u.size + 1 - v.size ∧ ∃ d : ℕ → ℝ,
      (∀ i, d i ≠ 0 → i + v.size ≤ u.size) ∧
      (∀ i, |coef q i - d i| ≤ M.gam m * |d i|) ∧
      (∀ j, |coef u j - (conv d (coef v) j + coef r j)|
          ≤ M.gam (3 * m) * (|coef u j| + conv (fun i => |d i|) (fun i => |coef v i|) j)) := by
  obtain ⟨hv, ⟨m, hrun⟩, _⟩ := polydiv_run u v q r h
  obtain ⟨hm, d, hS, hQ1, _, hB⟩ := run_rounding v hv hrun
  refine ⟨m, hm, d, fun i hi => (hS i hi).1, fun i => hQ1 i (coef_of_le _ i (by simp)), ?_⟩
  intro j
  have := hB j
  rwa [sub_sub] at this

/-- **2b. residual of the division identity, division-free form**: with `m` the number of steps,
`(1 − gam m) · |u_j − ((q̂ * v)_j + r̂_j)| ≤ (gam (3m) + gam m) · (|u_j| + (|q̂| * |v|)_j)`. -/
theorem polydiv_residual_steps (u v q r : Array (Fl M)) (h : polydiv u v = .ok (some (q, r))) :
    ∃ m, m ≤ u.size + 1 - v.size ∧ ∀ j,
      (1 - M.gam m) * |coef u j - (exactConv q v j + coef r j)|
        ≤ (M.gam (3 * m) + M.gam m) * (|coef u j| + absConv q v j) := by
  obtain ⟨m, hm, d, _, hQ, hB⟩ := polydiv_multiplier_rounding u v q r h
  refine ⟨m, hm, fun j => ?_⟩
  rw [exactConv_eq_conv, absConv_eq_conv]
  have h1 := hB j
  set D := conv (fun i => |d i|) (fun i => |coef v i|) j with hD
  set Q := conv (fun i => |coef q i|) (fun i => |coef v i|) j with hQdef
  have hDn : 0 ≤ D := conv_nonneg _ _ j (fun _ => abs_nonneg _) (fun _ => abs_nonneg _)
  have hQn : 0 ≤ Q := conv_nonneg _ _ j (fun _ => abs_nonneg _) (fun _ => abs_nonneg _)
  have hgm := M.gam_nonneg m
  have hg3 := M.gam_nonneg (3 * m)
  have h2 : |conv (coef q) (coef v) j - conv d (coef v) j| ≤ M.gam m * D := by
    rw [hD]
    unfold conv
    rw [← Finset.sum_sub_distrib, Finset.mul_sum]
    refine (Finset.abs_sum_le_sum_abs _ _).trans (Finset.sum_le_sum (fun i _ => ?_))
    rw [← sub_mul, abs_mul, ← mul_assoc]
    exact mul_le_mul_of_nonneg_right (hQ i) (abs_nonneg _)
  have h3 : (1 - M.gam m) * D ≤ Q := by
    rw [hD, hQdef]
    unfold conv
    rw [Finset.mul_sum]
    refine Finset.sum_le_sum (fun i _ => ?_)
    rw [← mul_assoc]
    refine mul_le_mul_of_nonneg_right ?_ (abs_nonneg _)
    have t1 := abs_sub_abs_le_abs_sub (d i) (coef q i)
    have t2 := hQ i
    rw [abs_sub_comm] at t2
    linarith
  have hE : |coef u j - (conv (coef q) (coef v) j + coef r j)|
      ≤ M.gam (3 * m) * (|coef u j| + D) + M.gam m * D := by
    have e : coef u j - (conv (coef q) (coef v) j + coef r j)
        = (coef u j - (conv d (coef v) j + coef r j))
          - (conv (coef q) (coef v) j - conv d (coef v) j) := by ring
    rw [e]
    refine (abs_sub _ _).trans ?_
    linarith
  set E := |coef u j - (conv (coef q) (coef v) j + coef r j)|
  have hEn : 0 ≤ E := abs_nonneg _
  have hun := abs_nonneg (coef u j)
  by_cases hρ : 0 ≤ 1 - M.gam m
  · have t1 := mul_le_mul_of_nonneg_left hE hρ
    have t2 := mul_le_mul_of_nonneg_left h3 (add_nonneg hg3 hgm)
    have t3 := mul_nonneg (mul_nonneg hg3 hun) hgm
    have t4 := mul_nonneg hgm hun
    nlinarith
  · have t1 := mul_nonneg (neg_nonneg.2 (not_le.mp hρ).le) hEn
    have t2 := mul_nonneg (add_nonneg hg3 hgm) (add_nonneg hun hQn)
    nlinarith

/-- the constant of the residual bound: `(gam (3m) + gam m) / (1 − gam m)` (`≈ 4 m u`) -/
noncomputable def divConst (M : FlModel) (m : ℕ) : ℝ :=
  (M.gam (3 * m) + M.gam m) / (1 - M.gam m)

/-- **2. accuracy of `polydiv` over floats**: if `polydiv u v` returns `(q̂, r̂)` and
`N = deg u − deg v + 1` (a bound for the number of steps) satisfies `gam N < 1`, then for every `j`
`|u_j − ((q̂ * v)_j + r̂_j)| ≤ (gam (3N) + gam N) / (1 − gam N) · (|u_j| + (|q̂| * |v|)_j)`:
the computed quotient and remainder satisfy the division identity up to a residual that is small
relative to the natural scale of each coefficient (`*` the exact convolution of the real coefficients). -/
theorem polydiv_residual_rounding (u v q r : Array (Fl M)) (h : polydiv u v = .ok (some (q, r)))
    (hN : M.gam (u.size + 1 - v.size) < 1) (j : Nat) :
    |coef u j - (exactConv q v j + coef r j)|
      ≤ divConst M (u.size + 1 - v.size) * (|coef u j| + absConv q v j) := by
  obtain ⟨m, hm, hres⟩ := polydiv_residual_steps u v q r h
  have h1 := hres j
  set N := u.size + 1 - v.size
  set E := |coef u j - (exactConv q v j + coef r j)|
  set S := |coef u j| + absConv q v j
  have hS : 0 ≤ S := add_nonneg (abs_nonneg _) (absConv_nonneg q v j)
  have hE : 0 ≤ E := abs_nonneg _
  have hgm : M.gam m ≤ M.gam N := M.gam_mono hm
  have hg3 : M.gam (3 * m) ≤ M.gam (3 * N) := M.gam_mono (by omega)
  have hpos : 0 < 1 - M.gam N := by linarith
  unfold divConst
  rw [div_mul_eq_mul_div, le_div_iff₀ hpos]
  have t1 := mul_le_mul_of_nonneg_left (show 1 - M.gam N ≤ 1 - M.gam m by linarith) hE
  have t2 := mul_le_mul_of_nonneg_right (add_le_add hg3 hgm) hS
  linarith

/-- a sufficient condition for the hypothesis `gam N < 1`: `2 N u < 1` -/
theorem gam_lt_one (M : FlModel) (n : ℕ) (h : 2 * (n : ℝ) * M.u < 1) : M.gam n < 1 := by
  have hu := M.u_nonneg
  have hn : (0 : ℝ) ≤ n := Nat.cast_nonneg n
  have h1 : (n : ℝ) * M.u < 1 := by nlinarith
  have h2 := M.gam_le_gamma n h1
  have hpos : 0 < 1 - (n : ℝ) * M.u := by linarith
  have : (n : ℝ) * M.u / (1 - n * M.u) < 1 := by
    rw [div_lt_one hpos]; linarith
  linarith

/-! #### 3. the degree facts are structural -/

/-- **3. degrees in `Fl M`**: a returned remainder is zero (all coefficients `0`) or shorter than the
divisor, it is not longer than the dividend, and the quotient has no coefficient above
`deg u − deg v` — rounding plays no role (the leading coefficient is removed structurally). -/
theorem polydiv_degree_fl (u v q r : Array (Fl M)) (h : polydiv u v = .ok (some (q, r))) :
    ((∀ j, coef r j = 0) ∨ r.size < v.size) ∧ r.size ≤ u.size ∧
      (∀ i, u.size < i + v.size → coef q i = 0) := by
  obtain ⟨hv, ⟨m, hrun⟩, hex⟩ := polydiv_run u v q r h
  refine ⟨?_, run_size_le v hv hrun, ?_⟩
  · rcases hex with hz | hs
    · exact Or.inl ((isZero_iff_coef r).mp hz)
    · exact Or.inr hs
  · obtain ⟨m', _, d, hS, hQ, _⟩ := polydiv_multiplier_rounding u v q r h
    intro i hi
    have hd : d i = 0 := by
      by_contra hne
      have := hS i hne; omega
    have := hQ i
    rw [hd, abs_zero, mul_zero, sub_zero] at this
    exact abs_nonpos_iff.mp this

/-- **total statement in `Fl M`** (instance of the class-S theorem `polydiv_terminates_of_lead`): for
a divisor with non-zero leading coefficient and `deg u − deg v < 1000` the division returns a quotient
and a remainder — never a panic, never "exceeded maximum iterations" — with the degree facts of
`polydiv_degree_fl` and the residual bound of `polydiv_residual_rounding`. -/
theorem polydiv_total_fl (u v : Array (Fl M)) (hlead : coef v (v.size - 1) ≠ 0)
    (hu : u.size < v.size + 1000) (hN : M.gam (u.size + 1 - v.size) < 1) :
    ∃ q r, polydiv u v = .ok (some (q, r)) ∧
      ((∀ j, coef r j = 0) ∨ r.size < v.size) ∧ r.size ≤ u.size ∧
      (∀ i, u.size < i + v.size → coef q i = 0) ∧
      ∀ j, |coef u j - (exactConv q v j + coef r j)|
        ≤ divConst M (u.size + 1 - v.size) * (|coef u j| + absConv q v j) := by
  have hv : v.size ≥ 1 := by
    by_contra hc
    exact hlead (coef_of_le v _ (by omega))
  have hz : isZero v = false := by
    by_contra hc
    have hc' : isZero v = true := by simpa using hc
    exact hlead ((isZero_iff_coef v).mp hc' _)
  obtain ⟨q, r, h, _⟩ := polydiv_terminates_of_lead u v hv hz hu fl_beq_zero (by
    intro a lv hl
    have hlv : lv.val ≠ 0 := by
      have : coef v (v.size - 1) = lv.val := by unfold coef; rw [hl]; rfl
      rwa [← this]
    exact ⟨a / lv, fl_divM_of_ne a lv hlv⟩)
  obtain ⟨h1, h2, h3⟩ := polydiv_degree_fl u v q r h
  exact ⟨q, r, h, h1, h2, h3, fun j => polydiv_residual_rounding u v q r h hN j⟩

end Rounding

/-! ### non-vacuity -/

section Examples
open Fl

/-- exact arithmetic is a model (`u = 0`): there the residual is `0`, i.e. `u = q·v + r`
coefficientwise (the class-E statement `polydiv_spec` of C12D, re-derived from the rounding bound) -/
example (u v q r : Array (Fl FlModel.exact)) (h : polydiv u v = .ok (some (q, r))) (j : Nat) :
    coef u j = exactConv q v j + coef r j := by
  have hg : ∀ n, FlModel.exact.gam n = 0 := fun n => by simp [FlModel.gam, FlModel.exact]
  have := polydiv_residual_rounding u v q r h (by rw [hg]; norm_num) j
  rw [divConst, hg, hg] at this
  simp only [add_zero, zero_div, zero_mul] at this
  exact sub_eq_zero.mp (abs_nonpos_iff.mp this)

/-- a concrete division, `(x² + 2x + 3) / (2x + 1)`, in ANY model with `gam 2 < 1`: all hypotheses of
`polydiv_total_fl` hold, so a quotient and a remainder of size `< 2` are returned and
`u = q̂ v + r̂` up to `divConst M 2 ≈ 8u` relative to `|u_j| + (|q̂||v|)_j` -/
example (M : FlModel) (hM : M.gam 2 < 1) :
    let u : Array (Fl M) := #[⟨3⟩, ⟨2⟩, ⟨1⟩]
    let v : Array (Fl M) := #[⟨1⟩, ⟨2⟩]
    ∃ q r, polydiv u v = .ok (some (q, r)) ∧ ((∀ j, coef r j = 0) ∨ r.size < 2) ∧
      ∀ j, |coef u j - (exactConv q v j + coef r j)|
        ≤ divConst M 2 * (|coef u j| + absConv q v j) := by
  intro u v
  have hl : coef v (v.size - 1) ≠ 0 := by
    show (2 : ℝ) ≠ 0
    norm_num
  obtain ⟨q, r, h, h1, _, _, h4⟩ := polydiv_total_fl u v hl (by simp [u, v]) hM
  exact ⟨q, r, h, h1, h4⟩

/-- the hypothesis `gam N < 1` holds with a huge margin for binary64's unit roundoff and every
admissible number of steps `N ≤ 1001` -/
example (N : ℕ) (hN : N ≤ 1001) : FlModel.binary64.gam N < 1 := by
  apply gam_lt_one
  rw [FlModel.binary64_u]
  have h1 : (N : ℝ) ≤ 1001 := by exact_mod_cast hN
  have h2 : (2 : ℝ) ^ (-53 : ℤ) ≤ 1 / 4004 := by
    rw [zpow_neg, ← one_div]
    apply one_div_le_one_div_of_le (by norm_num)
    norm_num
  have h3 : (0 : ℝ) ≤ (2 : ℝ) ^ (-53 : ℤ) := by positivity
  generalize (2 : ℝ) ^ (-53 : ℤ) = x at h2 h3 ⊢
  have h4 := mul_le_mul h1 h2 h3 (by norm_num : (0 : ℝ) ≤ 1001)
  linarith

/-- the step theorem is not vacuous either: one step of `(x² + 2x + 3) / (2x + 1)` -/
example (M : FlModel) :
    let r : Array (Fl M) := #[⟨3⟩, ⟨2⟩, ⟨1⟩]
    let v : Array (Fl M) := #[⟨1⟩, ⟨2⟩]
    ∃ (c : ℝ) (q' r' : Array (Fl M)), divStep v #[] r = .ok (q', r') ∧ c = M.fl (1 / 2) ∧
      coef q' 1 = c ∧ coef r' 2 = 0 ∧ r'.size ≤ 2 := by
  intro r v
  have hl : coef v (v.size - 1) ≠ 0 := by
    show (2 : ℝ) ≠ 0
    norm_num
  obtain ⟨c, q', r', h, hc, _, _, _, hq, _, h0, _, hs, _, _⟩ :=
    divStep_rounding v #[] r (by simp [v]) (by simp [r, v]) hl
  refine ⟨c, q', r', h, ?_, ?_, h0, hs⟩
  · rw [hc]; rfl
  · have := hq rfl 1
    simpa [r, v] using this

end Examples

end Ohsl.Props.C12
