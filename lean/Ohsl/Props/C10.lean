/-
  Property C10 — root finder (model: Ohsl/Model/Roots.lean).
  Proved here:
   (S) a polynomial of degree 0 (one coefficient) and the empty polynomial are rejected; degree 1,
       2, 3 return exactly 1, 2, 3 values for any scalar type and any arithmetic (so also with NaN);
   (E) the linear root −c₀/c₁ is a zero of c₁x + c₀ over any field.
  NOT proved: convergence and accuracy of Laguerre + deflation, finiteness and backward error of the
  float results (class F / numerical analysis; two known findings are recorded for C10).
-/
import Ohsl.Model.Roots
import Ohsl.Lemmas.Alg
set_option linter.unusedSectionVars false
namespace Ohsl.Props.C10
open Ohsl Ohsl.Roots

section Structural
variable {K : Type} [Add K] [Sub K] [Mul K] [Neg K] [Div K] [Zero K] [One K] [BEq K] [ScalarExt K] [Transc K] [OfScientific K]

theorem rejects_degree0 (c : Array (Cx K)) (refine : Bool) (h : c.size ≤ 1) :
    ∃ e, polySolve c refine = .error e := by
  unfold polySolve usub
  by_cases h1 : 1 ≤ c.size
  · have : c.size - 1 = 0 := by omega
    exact ⟨.range, by simp [h1, this, bind, Except.bind]⟩
  · exact ⟨.arith, by simp [h1, bind, Except.bind]⟩

theorem quadraticSolve_size (a b c : Cx K) : (quadraticSolve a b c).size = 2 := by
  simp [quadraticSolve]

theorem cubicSolve_size (a b c d : Cx K) : (cubicSolve a b c d).size = 3 := by
  unfold cubicSolve
  simp only [apply_ite Array.size, List.size_toArray, List.length_cons, List.length_nil, ite_self]

/-- closed-form paths: exactly `degree` values, refined or not -/
theorem low_degree_length (c : Array (Cx K)) (refine : Bool) (h : 2 ≤ c.size ∧ c.size ≤ 4) :
    ∃ rs, polySolve c refine = .ok rs ∧ rs.size = c.size - 1 := by
  have h1 : 1 ≤ c.size := by omega
  have hd : c.size - 1 ≠ 0 := by omega
  unfold polySolve usub
  simp only [h1, if_true, bind, Except.bind, hd, if_false, pure, Except.pure]
  refine ⟨_, rfl, ?_⟩
  rcases (show c.size - 1 = 1 ∨ c.size - 1 = 2 ∨ c.size - 1 = 3 by omega) with e | e | e
  · cases refine <;> simp [e]
  · have : ¬ (2 : Nat) = 1 := by omega
    cases refine <;> simp [e, quadraticSolve_size]
  · have h31 : ¬ (3 : Nat) = 1 := by omega
    have h32 : ¬ (3 : Nat) = 2 := by omega
    cases refine <;> simp [e, cubicSolve_size]
end Structural

section Exact
variable {K : Type} [Field K]
/-- the degree-1 formula: x = −c₀ / c₁ solves c₁ x + c₀ = 0 -/
theorem linear_root (c0 c1 : K) (h : c1 ≠ 0) : c1 * (-c0 / c1) + c0 = 0 := by
  field_simp; ring
end Exact

end Ohsl.Props.C10
