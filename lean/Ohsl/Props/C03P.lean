/-
  Property C03 (part P) — rounding-error bounds for the entrywise matrix `p`-norm `Matrix::norm_p(p)`
  and the Frobenius norm `norm_frob = norm_p(2)` (model `Mat.normP`, `Mat.normFrob`) in the "rounded
  reals" interpretation `Fl M` (Ohsl/Lemmas/Rounding.lean).  This closes the item "(F) norm_p /
  norm_frob rounding" that C03F leaves open, under an explicit error model for `powf`.

  ERROR MODEL FOR `powf` / `abs`.  There is no global `Transc (Fl M)` instance.  Every theorem takes an
  arbitrary instance `T` and the two hypotheses
      `hfabs : (fabs x).val = |x.val|`                                   (`abs` is exact)
      `hpowf : |(powf t q).val − t.val ^ q.val| ≤ u · |t.val ^ q.val|`    (ONE rounding of `Real.rpow`)
  i.e. `powf` is assumed CORRECTLY ROUNDED up to the unit roundoff.  `C03.flTransc M` satisfies both
  (`rfl`, `C15.flTransc_powf`); a libm `pow` that is only faithful (error ≤ 1 ulp) is covered by a model
  `M` with the larger unit roundoff `2u` (`hpowf` does not ask `powf` to be `M.fl` of anything).  The transfer to Rust `f64` rests on the ASSUMPTION of Rounding.lean.

  WHAT THE CODE COMPUTES (`normP_eq_fold`, structural, any scalar type):
      `ŝ = pSum e r c p` = the left fold from `0`, in row-major order, of the terms `powf(|a_ij|, p)`,
      `ip = 1.0 / p` — a ROUNDED division, `q̂ = fl(1/p)`; an exact zero `p` is the error `arith`,
      result `powf(ŝ, ip)`.
  Notation: `S = exactPSum e r c p = Σ_i Σ_j |a_ij| ^ p`, `N = exactNormP = S ^ (1/p)`,
  `γ = M.gam (r·c + 1) = (1+u)^(rc+1) − 1`, `F = exactNormFrob = √(Σ a_ij²)`.

  * `pSum_rounding`          `|ŝ − S| ≤ γ · S`  (every exponent `p`; one rounding per term, `rc` additions)
  * `normP_rounding`         (`p > 0`, `γ ≤ 1`)  the call succeeds and
        `(1−u) (1−γ)^q̂ · S^q̂ ≤ computed ≤ (1+u) (1+γ)^q̂ · S^q̂`   with the COMPUTED exponent `q̂ = fl(1/p)`;
    `inv_exponent_err`       `|q̂ − 1/p| ≤ u/p`, `inv_exponent_nonneg`.
  * `normP_rounding_range`   the same against the exact `N = S^(1/p)`: for `S ∈ [R⁻¹, R]`
        `(1−u) (1−γ)^((1+u)/p) R^(−u/p) · N ≤ computed ≤ (1+u) (1+γ)^((1+u)/p) R^(u/p) · N`.
    The factor `R^(±u/p)` is the honest price of the perturbed exponent: `S^(q̂−1/p)` is not bounded
    independently of the size of `S` (for binary64 `R = 2^1024`: `R^(u/p) − 1 ≈ 7.9·10⁻¹⁴ / p`).
  * `normP_rounding_exactInv` if `1/p` is representable (`p` a power of two in binary formats):
        `(1−u) (1−γ)^(1/p) · N ≤ computed ≤ (1+u) (1+γ)^(1/p) · N`;
    `normP_rounding_gam`     and for `p ≥ 1`:  `|computed − N| ≤ gam (rc+2) · N`.
  * `normFrob_rounding`      (`2`, `1/2` representable, `γ ≤ 1`)
        `(1−u) √(1−γ) · F ≤ computed ≤ (1+u) √(1+γ) · F`   (the root halves `γ` to first order),
    `normFrob_rounding_abs`  `|computed − F| ≤ max ((1+u)√(1+γ) − 1) (1 − (1−u)√(1−γ)) · F`,
    `normFrob_rounding_gam`  `|computed − F| ≤ gam (rc+2) · F`   (no hypothesis on `γ`).
  * `normP_zero_rejects_fl`  `p = 0` (exactly): error `arith` (IEEE: `1/0 = inf`, outside the model).
  * `normP_nonneg_fl`, `normFrob_nonneg_fl` (`u ≤ 1`) every successful result is `≥ 0`;
    `normP_zero_fl`, `normFrob_zero_fl` (`u < 1`) all entries zero ⇒ the result is EXACTLY `0`;
    `normP_eq_zero_fl`, `normFrob_eq_zero_fl` (`γ < 1`) result `0` ⇒ all entries zero (definiteness).
  NOT proved: anything for `p < 0` beyond `pSum_rounding` / non-negativity (Real.rpow's convention
  `0 ^ p = 0` differs from f64's `inf` there, as in C15P); a bound against `N` that is uniform in the
  size of `S` when `1/p` is not representable (none exists, see above).
-/
import Ohsl.Props.C03N
import Ohsl.Props.C03F
import Ohsl.Props.C15F
import Ohsl.Props.C15M
import Ohsl.Lemmas.C03P
import Ohsl.Lemmas.Rounding
import Mathlib.Analysis.SpecialFunctions.Pow.Real
import Mathlib.Analysis.SpecialFunctions.Sqrt
import Mathlib.Tactic.Ring
import Mathlib.Tactic.Linarith
import Mathlib.Tactic.Positivity
set_option linter.unusedSectionVars false
set_option linter.unusedVariables false
set_option linter.unusedSimpArgs false
namespace Ohsl.Props.C03
open Ohsl Ohsl.Mat Ohsl.C03P

/-! ### structural: `norm_p` as a single row-major fold -/

section Structural
variable {K : Type} [Add K] [Sub K] [Mul K] [Neg K] [Zero K] [One K] [BEq K] [ScalarExt K]
  [Transc K]

/-- the term `powf(|a_ij|, p)` of the accumulation -/
def pTerm (e : Nat → Nat → K) (p : K) (ij : Nat × Nat) : K :=
  Transc.powf (Transc.fabs (e ij.1 ij.2)) p

/-- the computed inner sum of `norm_p`: the left fold from `0` of the terms in row-major order -/
def pSum (e : Nat → Nat → K) (r c : Nat) (p : K) : K :=
  ((idx r c).map (pTerm e p)).foldl (· + ·) 0

/-- the two nested accumulation loops of `norm_p` are ONE left fold over the row-major index list -/
theorem normP_loop_eq_fold {A : Mat K} {r c : Nat} {e : Nat → Nat → K} (hA : Is A r c e) (p : K) :
    forM' 0 r (0 : K) (fun s i =>
      forM' 0 c s (fun s j => do
        let x ← A.get i j
        pure (s + Transc.powf (Transc.fabs x) p))) = .ok (pSum e r c p) := by
  have hinner : ∀ i, i < r → ∀ s : K, forM' 0 c s (fun s j => do
        let x ← A.get i j
        pure (s + Transc.powf (Transc.fabs x) p))
      = .ok ((List.range c).foldl (fun s j => s + Transc.powf (Transc.fabs (e i j)) p) s) := by
    intro i hi s
    exact forM'_eq_foldl c (fun s j => s + Transc.powf (Transc.fabs (e i j)) p) _ s (by
      intro s j hj
      simp only [hA.entry i j hi hj, bind, Except.bind, pure, Except.pure])
  rw [forM'_eq_foldl r
    (fun s i => (List.range c).foldl (fun s j => s + Transc.powf (Transc.fabs (e i j)) p) s)
    (fun s i => forM' 0 c s (fun s j => do
        let x ← A.get i j
        pure (s + Transc.powf (Transc.fabs x) p))) (0 : K) (fun s i hi => hinner i hi s)]
  rw [pSum, List.foldl_map,
    ← foldl_idx r c (fun s i j => s + Transc.powf (Transc.fabs (e i j)) p) (0 : K)]
  rfl

/-- **`norm_p` as the code computes it**: inner sum `pSum`, then `ip = 1.0 / p` (Rust `/`, here
`divM`), then `powf(sum, ip)` -/
theorem normP_eq_fold {A : Mat K} {r c : Nat} {e : Nat → Nat → K} (hA : Is A r c e) (p : K) :
    Mat.normP A p = (ScalarExt.divM 1 p).bind (fun ip => .ok (Transc.powf (pSum e r c p) ip)) := by
  simp only [Mat.normP, hA.rows, hA.cols, normP_loop_eq_fold hA p]
  rfl

end Structural

/-! ### the rounded-reals interpretation -/

section Rounding
variable {M : FlModel}
open Fl Ohsl.Props.C15

/-- the exact `Σ_i Σ_j |a_ij| ^ p` (`Real.rpow`) -/
noncomputable def exactPSum (e : Nat → Nat → Fl M) (r c : Nat) (p : ℝ) : ℝ :=
  ∑ i ∈ Finset.range r, ∑ j ∈ Finset.range c, |(e i j).val| ^ p

/-- the exact entrywise `p`-norm `(Σ |a_ij| ^ p) ^ (1/p)` -/
noncomputable def exactNormP (e : Nat → Nat → Fl M) (r c : Nat) (p : ℝ) : ℝ :=
  exactPSum e r c p ^ (1 / p)

/-- the exact Frobenius norm `√(Σ a_ij²)` -/
noncomputable def exactNormFrob (e : Nat → Nat → Fl M) (r c : Nat) : ℝ :=
  Real.sqrt (∑ i ∈ Finset.range r, ∑ j ∈ Finset.range c, (e i j).val ^ 2)

theorem exactPSum_nonneg (e : Nat → Nat → Fl M) (r c : Nat) (p : ℝ) : 0 ≤ exactPSum e r c p :=
  Finset.sum_nonneg fun _ _ => Finset.sum_nonneg fun _ _ => Real.rpow_nonneg (abs_nonneg _) _

theorem exactNormP_nonneg (e : Nat → Nat → Fl M) (r c : Nat) (p : ℝ) : 0 ≤ exactNormP e r c p :=
  Real.rpow_nonneg (exactPSum_nonneg e r c p) _

theorem exactNormFrob_nonneg (e : Nat → Nat → Fl M) (r c : Nat) : 0 ≤ exactNormFrob e r c :=
  Real.sqrt_nonneg _

/-- `Σ |a_ij|^2 = Σ a_ij²` and the `1/2`-th power is the square root -/
theorem exactPSum_two (e : Nat → Nat → Fl M) (r c : Nat) :
    exactPSum e r c 2 = ∑ i ∈ Finset.range r, ∑ j ∈ Finset.range c, (e i j).val ^ 2 := by
  refine Finset.sum_congr rfl fun i _ => Finset.sum_congr rfl fun j _ => ?_
  rw [Real.rpow_two, sq_abs]

theorem exactNormP_two (e : Nat → Nat → Fl M) (r c : Nat) :
    exactNormP e r c 2 = exactNormFrob e r c := by
  rw [exactNormP, exactNormFrob, exactPSum_two, Real.sqrt_eq_rpow]

/-- the exact sum vanishes iff all entries do (`p ≠ 0`; `Real.rpow`: `0 ^ p = 0`) -/
theorem exactPSum_eq_zero_iff (e : Nat → Nat → Fl M) (r c : Nat) {p : ℝ} (hp : p ≠ 0) :
    exactPSum e r c p = 0 ↔ ∀ i j, i < r → j < c → (e i j).val = 0 := by
  have hnn : ∀ i, 0 ≤ ∑ j ∈ Finset.range c, |(e i j).val| ^ p :=
    fun i => Finset.sum_nonneg fun _ _ => Real.rpow_nonneg (abs_nonneg _) _
  constructor
  · intro h i j hi hj
    have h1 := (Finset.sum_eq_zero_iff_of_nonneg (fun i _ => hnn i)).mp h i
      (Finset.mem_range.mpr hi)
    have h2 := (Finset.sum_eq_zero_iff_of_nonneg
      (fun j _ => Real.rpow_nonneg (abs_nonneg (e i j).val) p)).mp h1 j (Finset.mem_range.mpr hj)
    exact abs_eq_zero.mp ((Real.rpow_eq_zero_iff_of_nonneg (abs_nonneg _)).mp h2).1
  · intro h
    refine Finset.sum_eq_zero fun i hi => Finset.sum_eq_zero fun j hj => ?_
    rw [h i j (Finset.mem_range.mp hi) (Finset.mem_range.mp hj), abs_zero, Real.zero_rpow hp]

/-- `u ≤ gam (n+1)` -/
theorem u_le_gam_succ (n : ℕ) : M.u ≤ M.gam (n + 1) := by
  have := M.gam_mono (Nat.succ_le_succ (Nat.zero_le n))
  simpa using this

/-- the computed exponent `q̂ = fl(1/p)` of the outer power: `|q̂ − 1/p| ≤ u/p` -/
theorem inv_exponent_err (M : FlModel) {p : ℝ} (hp : 0 < p) :
    |M.fl (1 / p) - 1 / p| ≤ M.u / p := by
  have h := M.fl_err (1 / p)
  rwa [abs_of_pos (by positivity : (0 : ℝ) < 1 / p), mul_one_div] at h

/-- the computed exponent is non-negative (`u ≤ 1`) -/
theorem inv_exponent_nonneg (M : FlModel) (hu : M.u ≤ 1) {p : ℝ} (hp : 0 < p) :
    0 ≤ M.fl (1 / p) := fl_nonneg hu (by positivity)

/-- the computed exponent does not vanish for `p ≠ 0` (`u < 1`) -/
theorem inv_exponent_ne_zero (M : FlModel) (hu : M.u < 1) {p : ℝ} (hp : p ≠ 0) :
    M.fl (1 / p) ≠ 0 := by
  intro h0
  have h := M.fl_err (1 / p)
  rw [h0, zero_sub, abs_neg] at h
  have hpos : 0 < |1 / p| := abs_pos.mpr (one_div_ne_zero hp)
  have : M.u * |1 / p| < 1 * |1 / p| := mul_lt_mul_of_pos_right hu hpos
  linarith

variable [T : Transc (Fl M)]

/-- `norm_p` with a non-zero exponent never fails on a well-formed matrix -/
theorem normP_ok_fl {A : Mat (Fl M)} {r c : Nat} {e : Nat → Nat → Fl M} (hA : Is A r c e)
    (p : Fl M) (hp : p.val ≠ 0) :
    Mat.normP A p = .ok (Transc.powf (pSum e r c p) (1 / p)) := by
  rw [normP_eq_fold hA p]
  simp [ScalarExt.divM, hp, Except.bind]

/-- exponent exactly `0`: the division `1.0 / p` is outside the standard model → error `arith` -/
theorem normP_zero_rejects_fl {A : Mat (Fl M)} {r c : Nat} {e : Nat → Nat → Fl M}
    (hA : Is A r c e) (p : Fl M) (hp : p.val = 0) : Mat.normP A p = .error .arith := by
  rw [normP_eq_fold hA p]
  simp [ScalarExt.divM, hp, Except.bind]

/-- inversion: a successful call had a non-zero exponent and returned `powf(pSum, 1/p)` -/
theorem normP_ok_inv {A : Mat (Fl M)} {r c : Nat} {e : Nat → Nat → Fl M} (hA : Is A r c e)
    {p v : Fl M} (hv : Mat.normP A p = .ok v) :
    p.val ≠ 0 ∧ v = Transc.powf (pSum e r c p) (1 / p) := by
  by_cases hp : p.val = 0
  · rw [normP_zero_rejects_fl hA p hp] at hv; cases hv
  · rw [normP_ok_fl hA p hp] at hv; cases hv; exact ⟨hp, rfl⟩

/-- **the inner sum of `norm_p`**: each term is rounded once by `powf`, then `r·c` rounded additions
from `0`; all exact terms are non-negative, so the bound is RELATIVE:
`|ŝ − Σ|a_ij|^p| ≤ ((1+u)^(rc+1) − 1) · Σ|a_ij|^p`.  Every exponent `p`. -/
theorem pSum_rounding (hfabs : ∀ x : Fl M, (Transc.fabs x).val = |x.val|)
    (hpowf : ∀ t q : Fl M, |(Transc.powf t q).val - t.val ^ q.val| ≤ M.u * |t.val ^ q.val|)
    (e : Nat → Nat → Fl M) (r c : Nat) (p : Fl M) :
    |(pSum e r c p).val - exactPSum e r c p.val|
      ≤ M.gam (r * c + 1) * exactPSum e r c p.val := by
  have h1 := foldl_sum_rounding ((idx r c).map (pTerm e p))
  rw [List.length_map, length_idx] at h1
  have h2 := rounded_terms_sum_bound (idx r c) (pTerm e p)
    (fun ij => |(e ij.1 ij.2).val| ^ p.val) (r * c) (pSum e r c p).val
    (fun ij _ => by
      have := hpowf (Transc.fabs (e ij.1 ij.2)) p
      rwa [hfabs] at this) h1
  rw [sum_idx, sum_idx] at h2
  have e2 : ∀ i j, |(|(e i j).val| ^ p.val)| = |(e i j).val| ^ p.val :=
    fun i j => abs_of_nonneg (Real.rpow_nonneg (abs_nonneg _) _)
  simp only [e2] at h2
  exact h2

/-- the computed inner sum is non-negative (`u ≤ 1`) -/
theorem pSum_nonneg (hu : M.u ≤ 1) (hfabs : ∀ x : Fl M, (Transc.fabs x).val = |x.val|)
    (hpowf : ∀ t q : Fl M, |(Transc.powf t q).val - t.val ^ q.val| ≤ M.u * |t.val ^ q.val|)
    (e : Nat → Nat → Fl M) (r c : Nat) (p : Fl M) : 0 ≤ (pSum e r c p).val := by
  apply foldl_add_nonneg hu _ _ (le_refl _)
  intro x hx
  obtain ⟨ij, _, rfl⟩ := List.mem_map.mp hx
  have h := (abs_le.mp (hpowf (Transc.fabs (e ij.1 ij.2)) p)).1
  have hw : 0 ≤ (Transc.fabs (e ij.1 ij.2)).val ^ p.val := by
    rw [hfabs]; exact Real.rpow_nonneg (abs_nonneg _) _
  rw [abs_of_nonneg hw] at h
  have := mul_le_mul_of_nonneg_right hu hw
  show 0 ≤ (Transc.powf (Transc.fabs (e ij.1 ij.2)) p).val
  linarith

/-- **`norm_p`, `p > 0`** (relative to the COMPUTED exponent `q̂ = fl(1/p)`, see `inv_exponent_err`):
the call succeeds and, with `S = Σ|a_ij|^p`, `γ = gam (rc+1) ≤ 1`,
`(1−u) (1−γ)^q̂ S^q̂ ≤ computed ≤ (1+u) (1+γ)^q̂ S^q̂`. -/
theorem normP_rounding (hfabs : ∀ x : Fl M, (Transc.fabs x).val = |x.val|)
    (hpowf : ∀ t q : Fl M, |(Transc.powf t q).val - t.val ^ q.val| ≤ M.u * |t.val ^ q.val|)
    {A : Mat (Fl M)} {r c : Nat} {e : Nat → Nat → Fl M} (hA : Is A r c e)
    (p : Fl M) (hp : 0 < p.val) (hγ : M.gam (r * c + 1) ≤ 1) :
    ∃ v, Mat.normP A p = .ok v ∧
      (1 - M.u) * (1 - M.gam (r * c + 1)) ^ M.fl (1 / p.val)
          * exactPSum e r c p.val ^ M.fl (1 / p.val) ≤ v.val ∧
      v.val ≤ (1 + M.u) * (1 + M.gam (r * c + 1)) ^ M.fl (1 / p.val)
          * exactPSum e r c p.val ^ M.fl (1 / p.val) := by
  refine ⟨_, normP_ok_fl hA p hp.ne', ?_⟩
  have hu : M.u ≤ 1 := (u_le_gam_succ (r * c)).trans hγ
  have hu0 := M.u_nonneg
  have hg0 := M.gam_nonneg (r * c + 1)
  have hq : 0 ≤ M.fl (1 / p.val) := inv_exponent_nonneg M hu hp
  have hS := exactPSum_nonneg e r c p.val
  have hs := abs_le.mp (pSum_rounding hfabs hpowf e r c p)
  set S := exactPSum e r c p.val
  set g := M.gam (r * c + 1)
  set q := M.fl (1 / p.val)
  set s := pSum e r c p
  have hlo : (1 - g) * S ≤ s.val := by linarith [hs.1]
  have hhi : s.val ≤ (1 + g) * S := by linarith [hs.2]
  have hs0 : 0 ≤ s.val := (mul_nonneg (by linarith) hS).trans hlo
  have hw : 0 ≤ s.val ^ q := Real.rpow_nonneg hs0 _
  have hv := abs_le.mp (hpowf s (1 / p))
  have hqv : ((1 : Fl M) / p).val = q := rfl
  rw [hqv, abs_of_nonneg hw] at hv
  have h1 : ((1 - g) * S) ^ q ≤ s.val ^ q :=
    Real.rpow_le_rpow (mul_nonneg (by linarith) hS) hlo hq
  have h2 : s.val ^ q ≤ ((1 + g) * S) ^ q := Real.rpow_le_rpow hs0 hhi hq
  rw [Real.mul_rpow (by linarith) hS] at h1 h2
  have h3 := mul_le_mul_of_nonneg_left h1 (by linarith : (0 : ℝ) ≤ 1 - M.u)
  have h4 := mul_le_mul_of_nonneg_left h2 (by linarith : (0 : ℝ) ≤ 1 + M.u)
  constructor
  · rw [mul_assoc]; linarith [hv.1]
  · rw [mul_assoc]; linarith [hv.2]

/-- **`norm_p`, `p > 0`, against the exact norm** `N = (Σ|a_ij|^p)^(1/p)`, for `S = Σ|a_ij|^p` in
a range `[R⁻¹, R]`: the perturbed exponent `fl(1/p)` costs the factor `R^(±u/p)`:
`(1−u) (1−γ)^((1+u)/p) R^(−u/p) N ≤ computed ≤ (1+u) (1+γ)^((1+u)/p) R^(u/p) N`. -/
theorem normP_rounding_range (hfabs : ∀ x : Fl M, (Transc.fabs x).val = |x.val|)
    (hpowf : ∀ t q : Fl M, |(Transc.powf t q).val - t.val ^ q.val| ≤ M.u * |t.val ^ q.val|)
    {A : Mat (Fl M)} {r c : Nat} {e : Nat → Nat → Fl M} (hA : Is A r c e)
    (p : Fl M) (hp : 0 < p.val) (hγ : M.gam (r * c + 1) ≤ 1)
    {R : ℝ} (hR : 1 ≤ R) (hlo : R⁻¹ ≤ exactPSum e r c p.val) (hhi : exactPSum e r c p.val ≤ R) :
    ∃ v, Mat.normP A p = .ok v ∧
      (1 - M.u) * (1 - M.gam (r * c + 1)) ^ ((1 + M.u) / p.val) * R ^ (-(M.u / p.val))
          * exactNormP e r c p.val ≤ v.val ∧
      v.val ≤ (1 + M.u) * (1 + M.gam (r * c + 1)) ^ ((1 + M.u) / p.val) * R ^ (M.u / p.val)
          * exactNormP e r c p.val := by
  obtain ⟨v, hv, hl, hh⟩ := normP_rounding hfabs hpowf hA p hp hγ
  refine ⟨v, hv, ?_⟩
  have hu : M.u ≤ 1 := (u_le_gam_succ (r * c)).trans hγ
  have hu0 := M.u_nonneg
  have hg0 := M.gam_nonneg (r * c + 1)
  have hq0 : 0 ≤ M.fl (1 / p.val) := inv_exponent_nonneg M hu hp
  have hqe := inv_exponent_err M hp
  have hq1 : M.fl (1 / p.val) ≤ (1 + M.u) / p.val := by
    have := (abs_le.mp hqe).2
    rw [add_div]; linarith
  obtain ⟨hp1, hp2⟩ := rpow_exponent_perturb hR hlo hhi hqe
  rw [exactNormP]
  set S := exactPSum e r c p.val
  set g := M.gam (r * c + 1)
  set q := M.fl (1 / p.val)
  have hSq : 0 ≤ S ^ (1 / p.val) := Real.rpow_nonneg (exactPSum_nonneg e r c p.val) _
  have hRd : 0 ≤ R ^ (M.u / p.val) := Real.rpow_nonneg (by linarith) _
  have hRd' : 0 ≤ R ^ (-(M.u / p.val)) := Real.rpow_nonneg (by linarith) _
  -- the factors `(1 ± γ)^q̂`
  have ha : (1 + g) ^ q ≤ (1 + g) ^ ((1 + M.u) / p.val) :=
    Real.rpow_le_rpow_of_exponent_le (by linarith) hq1
  have hb : (1 - g) ^ ((1 + M.u) / p.val) ≤ (1 - g) ^ q :=
    Real.rpow_le_rpow_of_exponent_ge' (by linarith) (by linarith) hq0 hq1
  have hb0 : 0 ≤ (1 - g) ^ ((1 + M.u) / p.val) := Real.rpow_nonneg (by linarith) _
  have ha0 : 0 ≤ (1 + g) ^ q := Real.rpow_nonneg (by linarith) _
  constructor
  · refine le_trans ?_ hl
    have h1 : (1 - g) ^ ((1 + M.u) / p.val) * (R ^ (-(M.u / p.val)) * S ^ (1 / p.val))
        ≤ (1 - g) ^ q * S ^ q :=
      mul_le_mul hb hp1 (mul_nonneg hRd' hSq) (hb0.trans hb)
    have := mul_le_mul_of_nonneg_left h1 (by linarith : (0 : ℝ) ≤ 1 - M.u)
    calc (1 - M.u) * (1 - g) ^ ((1 + M.u) / p.val) * R ^ (-(M.u / p.val)) * S ^ (1 / p.val)
        = (1 - M.u) * ((1 - g) ^ ((1 + M.u) / p.val)
            * (R ^ (-(M.u / p.val)) * S ^ (1 / p.val))) := by ring
      _ ≤ (1 - M.u) * ((1 - g) ^ q * S ^ q) := this
      _ = (1 - M.u) * (1 - g) ^ q * S ^ q := by ring
  · refine le_trans hh ?_
    have h1 : (1 + g) ^ q * S ^ q
        ≤ (1 + g) ^ ((1 + M.u) / p.val) * (R ^ (M.u / p.val) * S ^ (1 / p.val)) :=
      mul_le_mul ha hp2 (Real.rpow_nonneg (exactPSum_nonneg e r c p.val) _) (ha0.trans ha)
    have := mul_le_mul_of_nonneg_left h1 (by linarith : (0 : ℝ) ≤ 1 + M.u)
    calc (1 + M.u) * (1 + g) ^ q * S ^ q = (1 + M.u) * ((1 + g) ^ q * S ^ q) := by ring
      _ ≤ (1 + M.u) * ((1 + g) ^ ((1 + M.u) / p.val)
            * (R ^ (M.u / p.val) * S ^ (1 / p.val))) := this
      _ = _ := by ring

/-- **`norm_p` when `1/p` is representable** (`p` a power of two in a binary format, in particular
`p = 1, 2, 4, …`): `(1−u) (1−γ)^(1/p) N ≤ computed ≤ (1+u) (1+γ)^(1/p) N`, every size of `N`. -/
theorem normP_rounding_exactInv (hfabs : ∀ x : Fl M, (Transc.fabs x).val = |x.val|)
    (hpowf : ∀ t q : Fl M, |(Transc.powf t q).val - t.val ^ q.val| ≤ M.u * |t.val ^ q.val|)
    {A : Mat (Fl M)} {r c : Nat} {e : Nat → Nat → Fl M} (hA : Is A r c e)
    (p : Fl M) (hp : 0 < p.val) (hinv : M.Rep (1 / p.val)) (hγ : M.gam (r * c + 1) ≤ 1) :
    ∃ v, Mat.normP A p = .ok v ∧
      (1 - M.u) * (1 - M.gam (r * c + 1)) ^ (1 / p.val) * exactNormP e r c p.val ≤ v.val ∧
      v.val ≤ (1 + M.u) * (1 + M.gam (r * c + 1)) ^ (1 / p.val) * exactNormP e r c p.val := by
  obtain ⟨v, hv, hl, hh⟩ := normP_rounding hfabs hpowf hA p hp hγ
  have hq : M.fl (1 / p.val) = 1 / p.val := hinv
  rw [hq] at hl hh
  exact ⟨v, hv, hl, hh⟩

/-- **`norm_p`, `p ≥ 1`, `1/p` representable**: `|computed − N| ≤ gam (rc+2) · N`
(`(1±γ)^(1/p)` is bounded by `1±γ`; for `p = 2` the sharper `normFrob_rounding` keeps the root). -/
theorem normP_rounding_gam (hfabs : ∀ x : Fl M, (Transc.fabs x).val = |x.val|)
    (hpowf : ∀ t q : Fl M, |(Transc.powf t q).val - t.val ^ q.val| ≤ M.u * |t.val ^ q.val|)
    {A : Mat (Fl M)} {r c : Nat} {e : Nat → Nat → Fl M} (hA : Is A r c e)
    (p : Fl M) (hp : 1 ≤ p.val) (hinv : M.Rep (1 / p.val)) (hγ : M.gam (r * c + 1) ≤ 1) :
    ∃ v, Mat.normP A p = .ok v ∧
      |v.val - exactNormP e r c p.val| ≤ M.gam (r * c + 2) * exactNormP e r c p.val := by
  have hp0 : 0 < p.val := by linarith
  obtain ⟨v, hv, hl, hh⟩ := normP_rounding_exactInv hfabs hpowf hA p hp0 hinv hγ
  refine ⟨v, hv, ?_⟩
  have hu : M.u ≤ 1 := (u_le_gam_succ (r * c)).trans hγ
  have hu0 := M.u_nonneg
  have hg0 := M.gam_nonneg (r * c + 1)
  have hN := exactNormP_nonneg e r c p.val
  have hq0 : 0 ≤ 1 / p.val := by positivity
  have hq1 : 1 / p.val ≤ 1 := by rw [div_le_one hp0]; exact hp
  have ha := one_add_rpow_le (q := 1 / p.val) hg0 hq1
  have hb := one_sub_le_rpow hγ hg0 hq0 hq1
  rw [show r * c + 2 = (r * c + 1) + 1 from rfl, M.gam_succ (r * c + 1)]
  set N := exactNormP e r c p.val
  set g := M.gam (r * c + 1)
  have h1 : (1 - M.u) * (1 - g) * N ≤ v.val := by
    refine le_trans ?_ hl
    exact mul_le_mul_of_nonneg_right (mul_le_mul_of_nonneg_left hb (by linarith)) hN
  have h2 : v.val ≤ (1 + M.u) * (1 + g) * N := by
    refine le_trans hh ?_
    exact mul_le_mul_of_nonneg_right (mul_le_mul_of_nonneg_left ha (by linarith)) hN
  have hugN : 0 ≤ M.u * g * N := mul_nonneg (mul_nonneg hu0 hg0) hN
  rw [abs_le]
  constructor <;> nlinarith

/-! #### the Frobenius norm -/

/-- `norm_frob` is `norm_p` with the exponent `1.0 + 1.0`, whose value is `2` when `2` is
representable -/
theorem two_val (h2 : M.Rep 2) : ((1 : Fl M) + 1).val = 2 := by
  show M.fl (1 + 1) = 2
  rw [one_add_one_eq_two]; exact h2

/-- **`norm_frob`** (`2` and `1/2` representable — every binary format —, `γ = gam (rc+1) ≤ 1`):
never fails on a well-formed matrix and
`(1−u) √(1−γ) ‖A‖_F ≤ computed ≤ (1+u) √(1+γ) ‖A‖_F`:
the relative error `γ` of the sum of squares is halved (to first order) by the root, then one more
rounding. -/
theorem normFrob_rounding (hfabs : ∀ x : Fl M, (Transc.fabs x).val = |x.val|)
    (hpowf : ∀ t q : Fl M, |(Transc.powf t q).val - t.val ^ q.val| ≤ M.u * |t.val ^ q.val|)
    (h2 : M.Rep 2) (hhalf : M.Rep (1 / 2))
    {A : Mat (Fl M)} {r c : Nat} {e : Nat → Nat → Fl M} (hA : Is A r c e)
    (hγ : M.gam (r * c + 1) ≤ 1) :
    ∃ v, Mat.normFrob A = .ok v ∧
      (1 - M.u) * Real.sqrt (1 - M.gam (r * c + 1)) * exactNormFrob e r c ≤ v.val ∧
      v.val ≤ (1 + M.u) * Real.sqrt (1 + M.gam (r * c + 1)) * exactNormFrob e r c := by
  have hp := two_val h2
  obtain ⟨v, hv, hl, hh⟩ := normP_rounding_exactInv hfabs hpowf hA ((1 : Fl M) + 1)
    (by rw [hp]; norm_num) (by rw [hp]; exact hhalf) hγ
  rw [hp, exactNormP_two, ← Real.sqrt_eq_rpow] at hl hh
  exact ⟨v, hv, hl, hh⟩

/-- `normFrob_rounding` as one absolute bound with the larger of the two constants -/
theorem normFrob_rounding_abs (hfabs : ∀ x : Fl M, (Transc.fabs x).val = |x.val|)
    (hpowf : ∀ t q : Fl M, |(Transc.powf t q).val - t.val ^ q.val| ≤ M.u * |t.val ^ q.val|)
    (h2 : M.Rep 2) (hhalf : M.Rep (1 / 2))
    {A : Mat (Fl M)} {r c : Nat} {e : Nat → Nat → Fl M} (hA : Is A r c e)
    (hγ : M.gam (r * c + 1) ≤ 1) :
    ∃ v, Mat.normFrob A = .ok v ∧
      |v.val - exactNormFrob e r c|
        ≤ max ((1 + M.u) * Real.sqrt (1 + M.gam (r * c + 1)) - 1)
              (1 - (1 - M.u) * Real.sqrt (1 - M.gam (r * c + 1))) * exactNormFrob e r c := by
  obtain ⟨v, hv, hl, hh⟩ := normFrob_rounding hfabs hpowf h2 hhalf hA hγ
  refine ⟨v, hv, ?_⟩
  have hF := exactNormFrob_nonneg e r c
  have h1 := mul_le_mul_of_nonneg_right
    (le_max_left ((1 + M.u) * Real.sqrt (1 + M.gam (r * c + 1)) - 1)
      (1 - (1 - M.u) * Real.sqrt (1 - M.gam (r * c + 1)))) hF
  have h2 := mul_le_mul_of_nonneg_right
    (le_max_right ((1 + M.u) * Real.sqrt (1 + M.gam (r * c + 1)) - 1)
      (1 - (1 - M.u) * Real.sqrt (1 - M.gam (r * c + 1)))) hF
  rw [abs_le]
  constructor <;> nlinarith

/-- **`norm_frob`**, the `gam` form (as `C15.norm2_rounding` for vectors, no hypothesis on `γ`):
`|computed − ‖A‖_F| ≤ gam (rc+2) · ‖A‖_F`. -/
theorem normFrob_rounding_gam (hfabs : ∀ x : Fl M, (Transc.fabs x).val = |x.val|)
    (hpowf : ∀ t q : Fl M, |(Transc.powf t q).val - t.val ^ q.val| ≤ M.u * |t.val ^ q.val|)
    (h2 : M.Rep 2) (hhalf : M.Rep (1 / 2))
    {A : Mat (Fl M)} {r c : Nat} {e : Nat → Nat → Fl M} (hA : Is A r c e) :
    ∃ v, Mat.normFrob A = .ok v ∧
      |v.val - exactNormFrob e r c| ≤ M.gam (r * c + 2) * exactNormFrob e r c := by
  have hp := two_val h2
  refine ⟨_, normP_ok_fl hA ((1 : Fl M) + 1) (by rw [hp]; norm_num), ?_⟩
  have hs := pSum_rounding hfabs hpowf e r c ((1 : Fl M) + 1)
  rw [hp, exactPSum_two] at hs
  set s := pSum e r c ((1 : Fl M) + 1)
  have hqv : ((1 : Fl M) / ((1 : Fl M) + 1)).val = 1 / 2 := by
    show M.fl (1 / ((1 : Fl M) + 1).val) = 1 / 2
    rw [hp]; exact hhalf
  have hv := hpowf s (1 / ((1 : Fl M) + 1))
  rw [hqv, ← Real.sqrt_eq_rpow, abs_of_nonneg (Real.sqrt_nonneg _)] at hv
  have hS : 0 ≤ ∑ i ∈ Finset.range r, ∑ j ∈ Finset.range c, (e i j).val ^ 2 :=
    Finset.sum_nonneg fun _ _ => Finset.sum_nonneg fun _ _ => sq_nonneg _
  have h3 := sqrt_rel hS hs
  rw [exactNormFrob]
  set R := Real.sqrt (∑ i ∈ Finset.range r, ∑ j ∈ Finset.range c, (e i j).val ^ 2)
  have hR : 0 ≤ R := Real.sqrt_nonneg _
  have h5 : Real.sqrt s.val ≤ (1 + M.gam (r * c + 1)) * R := by
    have := (abs_le.mp h3).2; linarith
  set w := (Transc.powf s (1 / ((1 : Fl M) + 1))).val
  have e' : w - R = (w - Real.sqrt s.val) + (Real.sqrt s.val - R) := by ring
  rw [e', show r * c + 2 = (r * c + 1) + 1 from rfl, M.gam_succ (r * c + 1)]
  refine (abs_add_le _ _).trans ?_
  have := mul_le_mul_of_nonneg_left h5 M.u_nonneg
  nlinarith

/-! #### norm laws that survive rounding -/

/-- **non-negativity** of every successful `norm_p` (`u ≤ 1`, every exponent) -/
theorem normP_nonneg_fl (hu : M.u ≤ 1) (hfabs : ∀ x : Fl M, (Transc.fabs x).val = |x.val|)
    (hpowf : ∀ t q : Fl M, |(Transc.powf t q).val - t.val ^ q.val| ≤ M.u * |t.val ^ q.val|)
    {A : Mat (Fl M)} {r c : Nat} {e : Nat → Nat → Fl M} (hA : Is A r c e) {p v : Fl M}
    (hv : Mat.normP A p = .ok v) : 0 ≤ v.val := by
  obtain ⟨_, rfl⟩ := normP_ok_inv hA hv
  have hs := pSum_nonneg hu hfabs hpowf e r c p
  have hw : 0 ≤ (pSum e r c p).val ^ ((1 : Fl M) / p).val := Real.rpow_nonneg hs _
  have h := (abs_le.mp (hpowf (pSum e r c p) (1 / p))).1
  rw [abs_of_nonneg hw] at h
  have := mul_le_mul_of_nonneg_right hu hw
  linarith

/-- non-negativity of every successful `norm_frob` (`u ≤ 1`) -/
theorem normFrob_nonneg_fl (hu : M.u ≤ 1) (hfabs : ∀ x : Fl M, (Transc.fabs x).val = |x.val|)
    (hpowf : ∀ t q : Fl M, |(Transc.powf t q).val - t.val ^ q.val| ≤ M.u * |t.val ^ q.val|)
    {A : Mat (Fl M)} {r c : Nat} {e : Nat → Nat → Fl M} (hA : Is A r c e) {v : Fl M}
    (hv : Mat.normFrob A = .ok v) : 0 ≤ v.val :=
  normP_nonneg_fl hu hfabs hpowf hA hv

/-- **the zero matrix has computed norm exactly `0`** (`p ≠ 0`, `u < 1`): every term is
`fl(0^p) = 0`, every partial sum `fl(0 + 0) = 0`, and `fl(0 ^ q̂) = 0` because `q̂ = fl(1/p) ≠ 0`. -/
theorem normP_zero_fl (hu : M.u < 1) (hfabs : ∀ x : Fl M, (Transc.fabs x).val = |x.val|)
    (hpowf : ∀ t q : Fl M, |(Transc.powf t q).val - t.val ^ q.val| ≤ M.u * |t.val ^ q.val|)
    {A : Mat (Fl M)} {r c : Nat} {e : Nat → Nat → Fl M} (hA : Is A r c e)
    (p : Fl M) (hp : p.val ≠ 0) (h0 : ∀ i j, i < r → j < c → (e i j).val = 0) :
    ∃ v, Mat.normP A p = .ok v ∧ v.val = 0 := by
  refine ⟨_, normP_ok_fl hA p hp, ?_⟩
  have hS : exactPSum e r c p.val = 0 := (exactPSum_eq_zero_iff e r c hp).mpr h0
  have hs := pSum_rounding hfabs hpowf e r c p
  rw [hS, mul_zero, sub_zero] at hs
  have hs0 : (pSum e r c p).val = 0 := abs_nonpos_iff.mp hs
  have hv := hpowf (pSum e r c p) (1 / p)
  have hq : ((1 : Fl M) / p).val ≠ 0 := inv_exponent_ne_zero M hu hp
  rw [hs0, Real.zero_rpow hq, abs_zero, mul_zero, sub_zero] at hv
  exact abs_nonpos_iff.mp hv

/-- the exponent `1.0 + 1.0` of `norm_frob` is positive (`u < 1`), whatever `fl 2` is -/
theorem two_val_pos (hu : M.u < 1) : 0 < ((1 : Fl M) + 1).val := by
  show 0 < M.fl (1 + 1)
  have h := (abs_le.mp (M.fl_err (1 + 1))).1
  rw [abs_of_pos (by norm_num : (0 : ℝ) < 1 + 1)] at h
  nlinarith

/-- **`norm_frob` of a zero matrix is exactly `0`** (`u < 1`; no representability hypothesis) -/
theorem normFrob_zero_fl (hu : M.u < 1) (hfabs : ∀ x : Fl M, (Transc.fabs x).val = |x.val|)
    (hpowf : ∀ t q : Fl M, |(Transc.powf t q).val - t.val ^ q.val| ≤ M.u * |t.val ^ q.val|)
    {A : Mat (Fl M)} {r c : Nat} {e : Nat → Nat → Fl M} (hA : Is A r c e)
    (h0 : ∀ i j, i < r → j < c → (e i j).val = 0) :
    ∃ v, Mat.normFrob A = .ok v ∧ v.val = 0 :=
  normP_zero_fl hu hfabs hpowf hA _ (two_val_pos hu).ne' h0

/-- **definiteness survives rounding** (`γ = gam (rc+1) < 1`): a computed `norm_p` equal to `0`
forces every entry to be `0` -/
theorem normP_eq_zero_fl (hfabs : ∀ x : Fl M, (Transc.fabs x).val = |x.val|)
    (hpowf : ∀ t q : Fl M, |(Transc.powf t q).val - t.val ^ q.val| ≤ M.u * |t.val ^ q.val|)
    {A : Mat (Fl M)} {r c : Nat} {e : Nat → Nat → Fl M} (hA : Is A r c e)
    (hγ : M.gam (r * c + 1) < 1) {p v : Fl M} (hv : Mat.normP A p = .ok v) (hz : v.val = 0) :
    ∀ i j, i < r → j < c → (e i j).val = 0 := by
  obtain ⟨hp, rfl⟩ := normP_ok_inv hA hv
  have hu : M.u < 1 := lt_of_le_of_lt (u_le_gam_succ (r * c)) hγ
  have hs := abs_le.mp (pSum_rounding hfabs hpowf e r c p)
  have hS := exactPSum_nonneg e r c p.val
  have hs0 : 0 ≤ (pSum e r c p).val := by nlinarith [hs.1]
  -- the rounded power vanishes only if the exact power does
  have hw := hpowf (pSum e r c p) (1 / p)
  rw [hz, zero_sub, abs_neg] at hw
  have hw0 : (pSum e r c p).val ^ ((1 : Fl M) / p).val = 0 := by
    by_contra hne
    have hpos : 0 < |(pSum e r c p).val ^ ((1 : Fl M) / p).val| := abs_pos.mpr hne
    have := mul_lt_mul_of_pos_right hu hpos
    linarith
  have hsz : (pSum e r c p).val = 0 := ((Real.rpow_eq_zero_iff_of_nonneg hs0).mp hw0).1
  rw [hsz] at hs
  have hS0 : exactPSum e r c p.val = 0 := by nlinarith [hs.2]
  exact (exactPSum_eq_zero_iff e r c hp).mp hS0

/-- definiteness of the computed `norm_frob` (`gam (rc+1) < 1`) -/
theorem normFrob_eq_zero_fl (hfabs : ∀ x : Fl M, (Transc.fabs x).val = |x.val|)
    (hpowf : ∀ t q : Fl M, |(Transc.powf t q).val - t.val ^ q.val| ≤ M.u * |t.val ^ q.val|)
    {A : Mat (Fl M)} {r c : Nat} {e : Nat → Nat → Fl M} (hA : Is A r c e)
    (hγ : M.gam (r * c + 1) < 1) {v : Fl M} (hv : Mat.normFrob A = .ok v) (hz : v.val = 0) :
    ∀ i j, i < r → j < c → (e i j).val = 0 :=
  normP_eq_zero_fl hfabs hpowf hA hγ hv hz

end Rounding

/-! ### models: where the hypotheses hold -/

section Rounding

/-- `2` and `1/2` are representable in the binary64-significand format -/
theorem binary64_rep_two : FlModel.binary64.Rep 2 := by
  have := C15.roundBits_rep_zpow 52 1
  simpa [FlModel.binary64] using this

/-- `1/2 = 2⁻¹` is representable (the exponent `1.0 / 2.0` of `norm_frob` is exact) -/
theorem binary64_rep_half : FlModel.binary64.Rep (1 / 2) := by
  have := C15.roundBits_rep_zpow 52 (-1)
  simpa [FlModel.binary64] using this

/-- in the binary64-significand format `gam n ≤ 1` for `n ≤ 2⁵²` (from `gam n ≤ n u / (1 − n u)`):
the hypothesis `gam (rc+1) ≤ 1` of the theorems above holds for every matrix that fits in memory -/
theorem binary64_gam_le_one {n : ℕ} (hn : n ≤ 2 ^ 52) : FlModel.binary64.gam n ≤ 1 := by
  have hn' : (n : ℝ) ≤ 2 ^ 52 := by exact_mod_cast hn
  have hn0 : (0 : ℝ) ≤ (n : ℝ) := Nat.cast_nonneg _
  have hu : FlModel.binary64.u = 2 ^ (-53 : ℤ) := FlModel.binary64_u
  have hnu : (n : ℝ) * FlModel.binary64.u ≤ 1 / 2 := by
    rw [hu]
    have : (2 : ℝ) ^ (-53 : ℤ) = 1 / 2 ^ 53 := by
      rw [zpow_neg, one_div]; norm_cast
    rw [this]
    have h53 : (2 : ℝ) ^ 53 = 2 * 2 ^ 52 := by norm_num
    rw [h53, mul_one_div, div_le_div_iff₀ (by positivity) (by norm_num)]
    nlinarith
  have hg := FlModel.binary64.gam_le_gamma n (by linarith)
  refine hg.trans ?_
  rw [div_le_one (by linarith)]
  linarith

end Rounding

/-! ### non-vacuity -/

section Examples
open Fl Ohsl.Props.C15
attribute [local instance] flTransc

/-- exact arithmetic is a model, `flTransc` satisfies `hfabs`/`hpowf` and `2`, `1/2` are
representable by `rfl`: `normFrob_rounding_gam` collapses to C03N's exact theorem
`norm_frob = √(Σ a_ij²)` -/
example {A : Mat (Fl FlModel.exact)} {r c : Nat} {e : Nat → Nat → Fl FlModel.exact}
    (hA : Is A r c e) :
    ∃ v, Mat.normFrob A = .ok v ∧
      v.val = Real.sqrt (∑ i ∈ Finset.range r, ∑ j ∈ Finset.range c, (e i j).val ^ 2) := by
  obtain ⟨v, hv, hv'⟩ := normFrob_rounding_gam (M := FlModel.exact) (fun _ => rfl)
    (flTransc_powf _) rfl rfl hA
  refine ⟨v, hv, ?_⟩
  have hg : FlModel.exact.gam (r * c + 2) = 0 := by simp [FlModel.gam, FlModel.exact]
  rw [hg, zero_mul] at hv'
  exact sub_eq_zero.mp (abs_nonpos_iff.mp hv')

/-- all hypotheses of `normFrob_rounding_gam` hold for `flTransc` in the binary64-significand format:
the computed `norm_frob` of the constant `2 × 3` matrix `x` is `‖A‖_F = √6 |x|` up to `gam 8` -/
example (x : ℝ) :
    ∃ v, Mat.normFrob (Mat.new 2 3 (⟨x⟩ : Fl FlModel.binary64)) = .ok v ∧
      |v.val - (Real.sqrt 6 * |x|)| ≤ FlModel.binary64.gam 8 * (Real.sqrt 6 * |x|) := by
  obtain ⟨v, hv, hv'⟩ := normFrob_rounding_gam (M := FlModel.binary64) (fun _ => rfl)
    (flTransc_powf _) binary64_rep_two binary64_rep_half
    (Is.of_new 2 3 (⟨x⟩ : Fl FlModel.binary64))
  refine ⟨v, hv, ?_⟩
  have e : exactNormFrob (fun _ _ => (⟨x⟩ : Fl FlModel.binary64)) 2 3 = Real.sqrt 6 * |x| := by
    rw [exactNormFrob]
    have : ∑ i ∈ Finset.range 2, ∑ j ∈ Finset.range 3, x ^ 2 = 6 * x ^ 2 := by
      simp [Finset.sum_const]; ring
    rw [this, Real.sqrt_mul (by norm_num), Real.sqrt_sq_eq_abs]
  rwa [e] at hv'

/-- the two-sided `normFrob_rounding` in the binary64-significand format for every well-formed
matrix with `r·c + 1 ≤ 2⁵²` -/
example {A : Mat (Fl FlModel.binary64)} {r c : Nat} {e : Nat → Nat → Fl FlModel.binary64}
    (hA : Is A r c e) (hrc : r * c + 1 ≤ 2 ^ 52) :
    ∃ v, Mat.normFrob A = .ok v ∧
      (1 - FlModel.binary64.u) * Real.sqrt (1 - FlModel.binary64.gam (r * c + 1))
          * exactNormFrob e r c ≤ v.val ∧
      v.val ≤ (1 + FlModel.binary64.u) * Real.sqrt (1 + FlModel.binary64.gam (r * c + 1))
          * exactNormFrob e r c :=
  normFrob_rounding (M := FlModel.binary64) (fun _ => rfl) (flTransc_powf _)
    binary64_rep_two binary64_rep_half hA (binary64_gam_le_one hrc)

/-- `normP_rounding_gam` for `p = 4` (a power of two: `1/4` is representable) in the
binary64-significand format, constant `2 × 3` matrix: `N = (6 |x|⁴)^(1/4)` -/
example (x : ℝ) :
    ∃ v, Mat.normP (Mat.new 2 3 (⟨x⟩ : Fl FlModel.binary64)) ⟨4⟩ = .ok v ∧
      |v.val - (6 * |x| ^ (4 : ℝ)) ^ (1 / 4 : ℝ)|
        ≤ FlModel.binary64.gam 8 * (6 * |x| ^ (4 : ℝ)) ^ (1 / 4 : ℝ) := by
  have hq : FlModel.binary64.Rep (1 / 4) := by
    have := C15.roundBits_rep_zpow 52 (-2)
    have e : (2 : ℝ) ^ (-2 : ℤ) = 1 / 4 := by norm_num
    rw [e] at this
    simpa [FlModel.binary64] using this
  have hγ : FlModel.binary64.gam (2 * 3 + 1) ≤ 1 := binary64_gam_le_one (by norm_num)
  obtain ⟨v, hv, hv'⟩ := normP_rounding_gam (M := FlModel.binary64) (fun _ => rfl)
    (flTransc_powf _) (Is.of_new 2 3 (⟨x⟩ : Fl FlModel.binary64)) ⟨4⟩ (by norm_num) hq hγ
  refine ⟨v, hv, ?_⟩
  have e : exactNormP (fun _ _ => (⟨x⟩ : Fl FlModel.binary64)) 2 3 4
      = (6 * |x| ^ (4 : ℝ)) ^ (1 / 4 : ℝ) := by
    rw [exactNormP, exactPSum]
    congr 1
    simp [Finset.sum_const]; ring
  rwa [e] at hv'

/-- the zero matrix: `norm_frob` is exactly `0` in every model with `u < 1` -/
example (M : FlModel) (hu : M.u < 1) (r c : Nat) :
    ∃ v, Mat.normFrob (Mat.new r c (0 : Fl M)) = .ok v ∧ v.val = 0 :=
  normFrob_zero_fl hu (fun _ => rfl) (flTransc_powf _) (Is.of_new r c (0 : Fl M))
    (fun _ _ _ _ => rfl)

/-- exponent `0` is rejected -/
example (M : FlModel) (x : ℝ) :
    Mat.normP (Mat.new 2 3 (⟨x⟩ : Fl M)) ⟨0⟩ = .error .arith :=
  normP_zero_rejects_fl (Is.of_new 2 3 (⟨x⟩ : Fl M)) ⟨0⟩ rfl

/-- the hypotheses of `normP_rounding_range` are satisfiable: the `1 × 1` matrix `[1]`, `p = 3`
(`1/3` is not representable), `R = 1`: the computed norm is within `(1 ± u)(1 ± γ)^((1+u)/3)` of
`N = 1` in every model with `gam 2 ≤ 1` -/
example (M : FlModel) (hγ : M.gam (1 * 1 + 1) ≤ 1) :
    ∃ v, Mat.normP (Mat.new 1 1 (⟨1⟩ : Fl M)) ⟨3⟩ = .ok v ∧
      (1 - M.u) * (1 - M.gam 2) ^ ((1 + M.u) / 3) ≤ v.val ∧
      v.val ≤ (1 + M.u) * (1 + M.gam 2) ^ ((1 + M.u) / 3) := by
  have hS : exactPSum (fun _ _ => (⟨1⟩ : Fl M)) 1 1 3 = 1 := by simp [exactPSum]
  obtain ⟨v, hv, hl, hh⟩ := normP_rounding_range (M := M) (fun _ => rfl) (flTransc_powf _)
    (Is.of_new 1 1 (⟨1⟩ : Fl M)) ⟨3⟩ (by norm_num) hγ (R := 1) (le_refl _)
    (by rw [hS]; norm_num) (by rw [hS])
  refine ⟨v, hv, ?_⟩
  simp only [exactNormP, hS, Real.one_rpow, mul_one] at hl hh
  exact ⟨hl, hh⟩

end Examples

end Ohsl.Props.C03
