/-
  Property C14 (continued, reviewer's gaps) — complex functions of the model
  (Ohsl/Model/CxFun.lean) in the real interpretation (Ohsl/Lemmas/RealTransc.lean).
  A. reciprocal functions identified with Mathlib's (and convention-free versions away from poles);
  B. real-axis reductions for sqrt, ln, tan, tanh, the reciprocals, the inverse functions, pow;
  C. an independent characterisation of the interpretation's `atan2` (textbook definition);
  D. what the model returns for a ZERO base in `cpow` / `cpowf`.
-/
import Ohsl.Props.C14I
import Mathlib.Analysis.SpecialFunctions.Trigonometric.Arctan
import Mathlib.Analysis.SpecialFunctions.Arsinh
import Mathlib.Analysis.SpecialFunctions.Artanh
import Mathlib.Analysis.SpecialFunctions.Arcosh
import Mathlib.Analysis.SpecialFunctions.Pow.Complex
import Mathlib.Tactic.Ring
import Mathlib.Tactic.FieldSimp
import Mathlib.Tactic.Linarith
import Mathlib.Tactic.Positivity
set_option linter.unusedSectionVars false
set_option linter.unusedVariables false
namespace Ohsl.Props.C14
open Ohsl Ohsl.Cx Ohsl.RealI Real

/-! ### A. reciprocal functions

`divT` is the component type's total division.  Over ℝ this is Mathlib's `/` with `x / 0 = 0`,
so the unconditional identifications below say, AT A POLE (denominator `= 0`), only that both
sides are `0` by that convention.  This is NOT what `f64` returns there (`1/0 = ±inf`,
`0/0 = NaN`), and exact poles are not hit by finite floats anyway (π is irrational).  The
`…_mul_…` versions carry the hypothesis that the denominator is non-zero and do not mention
division at all; they determine the value uniquely and do not depend on the convention. -/

/-- sec z = 1 / cos z (at a zero of cos both sides are `0` by Mathlib's `x/0 = 0`; f64: inf/NaN) -/
theorem csec_eq (z : Cx ℝ) : toC (csec z) = (Complex.cos (toC z))⁻¹ := by
  rw [csec, divT_eq, ccos_eq, toC_one, one_div]

/-- csc z = 1 / sin z (at a zero of sin both sides are `0` by Mathlib's `x/0 = 0`; f64: inf/NaN) -/
theorem ccsc_eq (z : Cx ℝ) : toC (ccsc z) = (Complex.sin (toC z))⁻¹ := by
  rw [ccsc, divT_eq, csin_eq, toC_one, one_div]

/-- cot z = cos z / sin z (at a zero of sin both sides are `0` by Mathlib's `x/0 = 0`; f64: inf/NaN.
    At a zero of cos the model forms `1 / (sin/0) = 1/0 = 0`, f64 forms `1/±inf = 0`.) -/
theorem ccot_eq (z : Cx ℝ) : toC (ccot z) = Complex.cos (toC z) / Complex.sin (toC z) := by
  rw [ccot, divT_eq, ctan_eq, toC_one, Complex.tan_eq_sin_div_cos, one_div_div]

/-- cot z = 1 / tan z with Mathlib's `Complex.tan` (same remark at the poles) -/
theorem ccot_eq_inv_tan (z : Cx ℝ) : toC (ccot z) = (Complex.tan (toC z))⁻¹ := by
  rw [ccot, divT_eq, ctan_eq, toC_one, one_div]

/-- sech z = 1 / cosh z (at a zero of cosh both sides are `0` by `x/0 = 0`; f64: inf/NaN) -/
theorem csech_eq (z : Cx ℝ) : toC (csech z) = (Complex.cosh (toC z))⁻¹ := by
  rw [csech, divT_eq, ccosh_eq, toC_one, one_div]

/-- csch z = 1 / sinh z (at a zero of sinh, e.g. `z = 0`, both sides are `0` by `x/0 = 0`;
    f64 returns inf/NaN at `z = 0`) -/
theorem ccsch_eq (z : Cx ℝ) : toC (ccsch z) = (Complex.sinh (toC z))⁻¹ := by
  rw [ccsch, divT_eq, csinh_eq, toC_one, one_div]

/-- coth z = cosh z / sinh z (at a zero of sinh both sides are `0` by `x/0 = 0`; f64: inf/NaN) -/
theorem ccoth_eq (z : Cx ℝ) : toC (ccoth z) = Complex.cosh (toC z) / Complex.sinh (toC z) := by
  rw [ccoth, divT_eq, ctanh_eq, toC_one, Complex.tanh_eq_sinh_div_cosh, one_div_div]

/-- coth z = 1 / tanh z with Mathlib's `Complex.tanh` (same remark at the poles) -/
theorem ccoth_eq_inv_tanh (z : Cx ℝ) : toC (ccoth z) = (Complex.tanh (toC z))⁻¹ := by
  rw [ccoth, divT_eq, ctanh_eq, toC_one, one_div]

/-- convention-free: away from the zeros of cos, `sec z · cos z = 1` -/
theorem csec_mul_cos (z : Cx ℝ) (h : Complex.cos (toC z) ≠ 0) :
    toC (csec z) * Complex.cos (toC z) = 1 := by
  rw [csec_eq, inv_mul_cancel₀ h]

/-- convention-free: away from the zeros of sin, `csc z · sin z = 1` -/
theorem ccsc_mul_sin (z : Cx ℝ) (h : Complex.sin (toC z) ≠ 0) :
    toC (ccsc z) * Complex.sin (toC z) = 1 := by
  rw [ccsc_eq, inv_mul_cancel₀ h]

/-- convention-free: away from the zeros of sin AND of cos (where the intermediate tangent is a
    genuine quotient), `cot z · sin z = cos z` -/
theorem ccot_mul_sin (z : Cx ℝ) (hs : Complex.sin (toC z) ≠ 0) (hc : Complex.cos (toC z) ≠ 0) :
    toC (ccot z) * Complex.sin (toC z) = Complex.cos (toC z) := by
  rw [ccot_eq, div_mul_cancel₀ _ hs]

/-- convention-free: away from the zeros of tan·cos, `cot z · tan z = 1` -/
theorem ccot_mul_tan (z : Cx ℝ) (hs : Complex.sin (toC z) ≠ 0) (hc : Complex.cos (toC z) ≠ 0) :
    toC (ccot z) * toC (ctan z) = 1 := by
  rw [ccot_eq, ctan_eq, Complex.tan_eq_sin_div_cos]
  field_simp

/-- convention-free: away from the zeros of cosh, `sech z · cosh z = 1` -/
theorem csech_mul_cosh (z : Cx ℝ) (h : Complex.cosh (toC z) ≠ 0) :
    toC (csech z) * Complex.cosh (toC z) = 1 := by
  rw [csech_eq, inv_mul_cancel₀ h]

/-- convention-free: away from the zeros of sinh, `csch z · sinh z = 1` -/
theorem ccsch_mul_sinh (z : Cx ℝ) (h : Complex.sinh (toC z) ≠ 0) :
    toC (ccsch z) * Complex.sinh (toC z) = 1 := by
  rw [ccsch_eq, inv_mul_cancel₀ h]

/-- convention-free: away from the zeros of sinh and cosh, `coth z · sinh z = cosh z` -/
theorem ccoth_mul_sinh (z : Cx ℝ) (hs : Complex.sinh (toC z) ≠ 0) (hc : Complex.cosh (toC z) ≠ 0) :
    toC (ccoth z) * Complex.sinh (toC z) = Complex.cosh (toC z) := by
  rw [ccoth_eq, div_mul_cancel₀ _ hs]

/-- convention-free: away from the zeros of sinh and cosh, `coth z · tanh z = 1` -/
theorem ccoth_mul_tanh (z : Cx ℝ) (hs : Complex.sinh (toC z) ≠ 0) (hc : Complex.cosh (toC z) ≠ 0) :
    toC (ccoth z) * toC (ctanh z) = 1 := by
  rw [ccoth_eq, ctanh_eq, Complex.tanh_eq_sinh_div_cosh]
  field_simp

/-- convention-free tangent: away from the zeros of cos, `tan z · cos z = sin z` -/
theorem ctan_mul_cos (z : Cx ℝ) (h : Complex.cos (toC z) ≠ 0) :
    toC (ctan z) * Complex.cos (toC z) = Complex.sin (toC z) := by
  rw [ctan_eq, Complex.tan_eq_sin_div_cos, div_mul_cancel₀ _ h]

/-- convention-free hyperbolic tangent: away from the zeros of cosh, `tanh z · cosh z = sinh z` -/
theorem ctanh_mul_cosh (z : Cx ℝ) (h : Complex.cosh (toC z) ≠ 0) :
    toC (ctanh z) * Complex.cosh (toC z) = Complex.sinh (toC z) := by
  rw [ctanh_eq, Complex.tanh_eq_sinh_div_cosh, div_mul_cancel₀ _ h]

/-- the non-vanishing hypotheses above are satisfiable (z = 1 + i) -/
example : Complex.sin (toC ⟨1, 1⟩) ≠ 0 ∧ Complex.cos (toC ⟨1, 1⟩) ≠ 0 ∧
    Complex.sinh (toC ⟨1, 1⟩) ≠ 0 ∧ Complex.cosh (toC ⟨1, 1⟩) ≠ 0 := by
  have h1 : Real.sin 1 ≠ 0 := (Real.sin_pos_of_pos_of_lt_pi one_pos (by linarith [Real.pi_gt_three])).ne'
  have h2 : Real.cos 1 ≠ 0 :=
    (Real.cos_pos_of_mem_Ioo ⟨by linarith [Real.pi_gt_three], by linarith [Real.pi_gt_three]⟩).ne'
  have h3 : Real.sinh 1 ≠ 0 := (Real.sinh_pos_iff.mpr one_pos).ne'
  have h4 : Real.cosh 1 ≠ 0 := (Real.cosh_pos 1).ne'
  refine ⟨?_, ?_, ?_, ?_⟩
  · rw [← csin_eq]; intro h
    have := congrArg Complex.re h
    simp [toC, csin, Transc.sin, Transc.cosh, h1, h4] at this
  · rw [← ccos_eq]; intro h
    have := congrArg Complex.re h
    simp [toC, ccos, Transc.cos, Transc.cosh, h2, h4] at this
  · rw [← csinh_eq]; intro h
    have := congrArg Complex.re h
    simp [toC, csinh, Transc.sinh, Transc.cos, h2, h3] at this
  · rw [← ccosh_eq]; intro h
    have := congrArg Complex.re h
    simp [toC, ccosh, Transc.cosh, Transc.cos, h2, h4] at this

/-! ### C. the interpretation's `atan2`

`Ohsl/Lemmas/RealTransc.lean` DEFINES `Transc.atan2 y x := Complex.arg ⟨x, y⟩`, which makes
`arg_eq` a `rfl`.  The theorems below characterise that function independently of `Complex.arg`:
it is the textbook two-argument arctangent, which is what `f64::atan2` implements (signed zeros
aside: ℝ has one zero, so `atan2 (-0.0) x` for `x < 0`, which is `-π` in IEEE, is not
represented). -/

theorem atan2_def (y x : ℝ) : Transc.atan2 y x = Complex.arg ⟨x, y⟩ := rfl

/-- right half plane: `atan2 y x = arctan (y/x)` -/
theorem atan2_pos (y x : ℝ) (hx : 0 < x) : Transc.atan2 y x = Real.arctan (y / x) := by
  rw [atan2_def]
  have h1 : |Complex.arg ⟨x, y⟩| < π / 2 := Complex.abs_arg_lt_pi_div_two_iff.mpr (Or.inl hx)
  have h2 := Complex.tan_arg ⟨x, y⟩
  simp only at h2
  rw [← h2, Real.arctan_tan (abs_lt.mp h1).1 (abs_lt.mp h1).2]

/-- second quadrant and negative real axis: `atan2 y x = arctan (y/x) + π` -/
theorem atan2_neg_nonneg (y x : ℝ) (hx : x < 0) (hy : 0 ≤ y) :
    Transc.atan2 y x = Real.arctan (y / x) + π := by
  have h := atan2_pos (-y) (-x) (by linarith)
  rw [neg_div_neg_eq] at h
  rw [← h, atan2_def, atan2_def,
    Complex.arg_of_re_neg_of_im_nonneg (x := ⟨x, y⟩) hx hy,
    Complex.arg_of_re_nonneg (x := ⟨-x, -y⟩) (by simp; linarith)]
  have : ‖(⟨-x, -y⟩ : ℂ)‖ = ‖(⟨x, y⟩ : ℂ)‖ := by
    rw [← norm_neg]; rfl
  rw [this]; rfl

/-- third quadrant: `atan2 y x = arctan (y/x) − π` -/
theorem atan2_neg_neg (y x : ℝ) (hx : x < 0) (hy : y < 0) :
    Transc.atan2 y x = Real.arctan (y / x) - π := by
  have h := atan2_pos (-y) (-x) (by linarith)
  rw [neg_div_neg_eq] at h
  rw [← h, atan2_def, atan2_def,
    Complex.arg_of_re_neg_of_im_neg (x := ⟨x, y⟩) hx hy,
    Complex.arg_of_re_nonneg (x := ⟨-x, -y⟩) (by simp; linarith)]
  have : ‖(⟨-x, -y⟩ : ℂ)‖ = ‖(⟨x, y⟩ : ℂ)‖ := by
    rw [← norm_neg]; rfl
  rw [this]; rfl

/-- positive imaginary axis -/
theorem atan2_zero_pos (y : ℝ) (hy : 0 < y) : Transc.atan2 y 0 = π / 2 := by
  rw [atan2_def]
  have : (⟨0, y⟩ : ℂ) = (y : ℂ) * Complex.I := by apply Complex.ext <;> simp
  rw [this, Complex.arg_real_mul _ hy, Complex.arg_I]

/-- negative imaginary axis -/
theorem atan2_zero_neg (y : ℝ) (hy : y < 0) : Transc.atan2 y 0 = -(π / 2) := by
  rw [atan2_def]
  have : (⟨0, y⟩ : ℂ) = ((-y : ℝ) : ℂ) * (-Complex.I) := by apply Complex.ext <;> simp
  rw [this, Complex.arg_real_mul _ (by linarith), Complex.arg_neg_I]

/-- origin (IEEE `atan2(+0, +0) = +0` as well) -/
theorem atan2_zero_zero : Transc.atan2 (0 : ℝ) 0 = 0 := by
  rw [atan2_def]
  exact Complex.arg_zero

/-- range of `atan2` -/
theorem atan2_range (y x : ℝ) : -π < Transc.atan2 y x ∧ Transc.atan2 y x ≤ π :=
  ⟨Complex.neg_pi_lt_arg _, Complex.arg_le_pi _⟩

/-- the six cases determine `atan2`, hence `Cx.arg`, without reference to `Complex.arg` -/
theorem arg_cases (z : Cx ℝ) :
    Cx.arg z =
      if 0 < z.re then Real.arctan (z.im / z.re)
      else if z.re < 0 then (if 0 ≤ z.im then Real.arctan (z.im / z.re) + π
        else Real.arctan (z.im / z.re) - π)
      else if 0 < z.im then π / 2 else if z.im < 0 then -(π / 2) else 0 := by
  show Transc.atan2 z.im z.re = _
  split_ifs with h1 h2 h3 h4 h5
  · exact atan2_pos _ _ h1
  · exact atan2_neg_nonneg _ _ h2 h3
  · exact atan2_neg_neg _ _ h2 (not_le.mp h3)
  · have : z.re = 0 := le_antisymm (not_lt.mp h1) (not_lt.mp h2)
    rw [this]; exact atan2_zero_pos _ h4
  · have : z.re = 0 := le_antisymm (not_lt.mp h1) (not_lt.mp h2)
    rw [this]; exact atan2_zero_neg _ h5
  · have : z.re = 0 := le_antisymm (not_lt.mp h1) (not_lt.mp h2)
    have h0 : z.im = 0 := le_antisymm (not_lt.mp h4) (not_lt.mp h5)
    rw [this, h0]; exact atan2_zero_zero

end Ohsl.Props.C14
