/-
  Property C14 (continued, reviewer's gaps) — complex functions of the model
  (Ohsl/Model/CxFun.lean) in the real interpretation (Ohsl/Lemmas/RealTransc.lean).
  A. reciprocal functions identified with Mathlib's (and convention-free versions away from poles);
  B. real-axis reductions for sqrt, ln, tan, tanh, the reciprocals, the inverse functions, pow;
  C. an independent characterisation of the interpretation's `atan2` (textbook definition);
  D. what the model returns for a ZERO base in `cpow` / `cpowf`.
-/
import Ohsl.Props.C14I
import Mathlib.Analysis.SpecialFunctions.Trigonometric.Arctan
import Mathlib.Analysis.SpecialFunctions.Arsinh
import Mathlib.Analysis.SpecialFunctions.Artanh
import Mathlib.Analysis.SpecialFunctions.Arcosh
import Mathlib.Analysis.SpecialFunctions.Pow.Complex
import Mathlib.Tactic.Ring
import Mathlib.Tactic.FieldSimp
import Mathlib.Tactic.Linarith
import Mathlib.Tactic.Positivity
set_option linter.unusedSectionVars false
set_option linter.unusedVariables false
namespace Ohsl.Props.C14
open Ohsl Ohsl.Cx Ohsl.RealI Real

/-! ### A. reciprocal functions

`divT` is the component type's total division.  Over ℝ this is Mathlib's `/` with `x / 0 = 0`,
so the unconditional identifications below say, AT A POLE (denominator `= 0`), only that both
sides are `0` by that convention.  This is NOT what `f64` returns there (`1/0 = ±inf`,
`0/0 = NaN`), and exact poles are not hit by finite floats anyway (π is irrational).  The
`…_mul_…` versions carry the hypothesis that the denominator is non-zero and do not mention
division at all; they determine the value uniquely and do not depend on the convention. -/

/-- sec z = 1 / cos z (at a zero of cos both sides are `0` by Mathlib's `x/0 = 0`; f64: inf/NaN) -/
theorem csec_eq (z : Cx ℝ) : toC (csec z) = (Complex.cos (toC z))⁻¹ := by
  rw [csec, divT_eq, ccos_eq, toC_one, one_div]

/-- csc z = 1 / sin z (at a zero of sin both sides are `0` by Mathlib's `x/0 = 0`; f64: inf/NaN) -/
theorem ccsc_eq (z : Cx ℝ) : toC (ccsc z) = (Complex.sin (toC z))⁻¹ := by
  rw [ccsc, divT_eq, csin_eq, toC_one, one_div]

/-- cot z = cos z / sin z (at a zero of sin both sides are `0` by Mathlib's `x/0 = 0`; f64: inf/NaN.
    At a zero of cos the model forms `1 / (sin/0) = 1/0 = 0`, f64 forms `1/±inf = 0`.) -/
theorem ccot_eq (z : Cx ℝ) : toC (ccot z) = Complex.cos (toC z) / Complex.sin (toC z) := by
  rw [ccot, divT_eq, ctan_eq, toC_one, Complex.tan_eq_sin_div_cos, one_div_div]

/-- cot z = 1 / tan z with Mathlib's `Complex.tan` (same remark at the poles) -/
theorem ccot_eq_inv_tan (z : Cx ℝ) : toC (ccot z) = (Complex.tan (toC z))⁻¹ := by
  rw [ccot, divT_eq, ctan_eq, toC_one, one_div]

/-- sech z = 1 / cosh z (at a zero of cosh both sides are `0` by `x/0 = 0`; f64: inf/NaN) -/
theorem csech_eq (z : Cx ℝ) : toC (csech z) = (Complex.cosh (toC z))⁻¹ := by
  rw [csech, divT_eq, ccosh_eq, toC_one, one_div]

/-- csch z = 1 / sinh z (at a zero of sinh, e.g. `z = 0`, both sides are `0` by `x/0 = 0`;
    f64 returns inf/NaN at `z = 0`) -/
theorem ccsch_eq (z : Cx ℝ) : toC (ccsch z) = (Complex.sinh (toC z))⁻¹ := by
  rw [ccsch, divT_eq, csinh_eq, toC_one, one_div]

/-- coth z = cosh z / sinh z (at a zero of sinh both sides are `0` by `x/0 = 0`; f64: inf/NaN) -/
theorem ccoth_eq (z : Cx ℝ) : toC (ccoth z) = Complex.cosh (toC z) / Complex.sinh (toC z) := by
  rw [ccoth, divT_eq, ctanh_eq, toC_one, Complex.tanh_eq_sinh_div_cosh, one_div_div]

/-- coth z = 1 / tanh z with Mathlib's `Complex.tanh` (same remark at the poles) -/
theorem ccoth_eq_inv_tanh (z : Cx ℝ) : toC (ccoth z) = (Complex.tanh (toC z))⁻¹ := by
  rw [ccoth, divT_eq, ctanh_eq, toC_one, one_div]

/-- convention-free: away from the zeros of cos, `sec z · cos z = 1` -/
theorem csec_mul_cos (z : Cx ℝ) (h : Complex.cos (toC z) ≠ 0) :
    toC (csec z) * Complex.cos (toC z) = 1 := by
  rw [csec_eq, inv_mul_cancel₀ h]

/-- convention-free: away from the zeros of sin, `csc z · sin z = 1` -/
theorem ccsc_mul_sin (z : Cx ℝ) (h : Complex.sin (toC z) ≠ 0) :
    toC (ccsc z) * Complex.sin (toC z) = 1 := by
  rw [ccsc_eq, inv_mul_cancel₀ h]

/-- convention-free: away from the zeros of sin AND of cos (where the intermediate tangent is a
    genuine quotient), `cot z · sin z = cos z` -/
theorem ccot_mul_sin (z : Cx ℝ) (hs : Complex.sin (toC z) ≠ 0) (hc : Complex.cos (toC z) ≠ 0) :
    toC (ccot z) * Complex.sin (toC z) = Complex.cos (toC z) := by
  rw [ccot_eq, div_mul_cancel₀ _ hs]

/-- convention-free: away from the zeros of tan·cos, `cot z · tan z = 1` -/
theorem ccot_mul_tan (z : Cx ℝ) (hs : Complex.sin (toC z) ≠ 0) (hc : Complex.cos (toC z) ≠ 0) :
    toC (ccot z) * toC (ctan z) = 1 := by
  rw [ccot_eq, ctan_eq, Complex.tan_eq_sin_div_cos]
  field_simp

/-- convention-free: away from the zeros of cosh, `sech z · cosh z = 1` -/
theorem csech_mul_cosh (z : Cx ℝ) (h : Complex.cosh (toC z) ≠ 0) :
    toC (csech z) * Complex.cosh (toC z) = 1 := by
  rw [csech_eq, inv_mul_cancel₀ h]

/-- convention-free: away from the zeros of sinh, `csch z · sinh z = 1` -/
theorem ccsch_mul_sinh (z : Cx ℝ) (h : Complex.sinh (toC z) ≠ 0) :
    toC (ccsch z) * Complex.sinh (toC z) = 1 := by
  rw [ccsch_eq, inv_mul_cancel₀ h]

/-- convention-free: away from the zeros of sinh and cosh, `coth z · sinh z = cosh z` -/
theorem ccoth_mul_sinh (z : Cx ℝ) (hs : Complex.sinh (toC z) ≠ 0) (hc : Complex.cosh (toC z) ≠ 0) :
    toC (ccoth z) * Complex.sinh (toC z) = Complex.cosh (toC z) := by
  rw [ccoth_eq, div_mul_cancel₀ _ hs]

/-- convention-free: away from the zeros of sinh and cosh, `coth z · tanh z = 1` -/
theorem ccoth_mul_tanh (z : Cx ℝ) (hs : Complex.sinh (toC z) ≠ 0) (hc : Complex.cosh (toC z) ≠ 0) :
    toC (ccoth z) * toC (ctanh z) = 1 := by
  rw [ccoth_eq, ctanh_eq, Complex.tanh_eq_sinh_div_cosh]
  field_simp

/-- convention-free tangent: away from the zeros of cos, `tan z · cos z = sin z` -/
theorem ctan_mul_cos (z : Cx ℝ) (h : Complex.cos (toC z) ≠ 0) :
    toC (ctan z) * Complex.cos (toC z) = Complex.sin (toC z) := by
  rw [ctan_eq, Complex.tan_eq_sin_div_cos, div_mul_cancel₀ _ h]

/-- convention-free hyperbolic tangent: away from the zeros of cosh, `tanh z · cosh z = sinh z` -/
theorem ctanh_mul_cosh (z : Cx ℝ) (h : Complex.cosh (toC z) ≠ 0) :
    toC (ctanh z) * Complex.cosh (toC z) = Complex.sinh (toC z) := by
  rw [ctanh_eq, Complex.tanh_eq_sinh_div_cosh, div_mul_cancel₀ _ h]

/-- the non-vanishing hypotheses above are satisfiable (z = 1 + i) -/
example : Complex.sin (toC ⟨1, 1⟩) ≠ 0 ∧ Complex.cos (toC ⟨1, 1⟩) ≠ 0 ∧
    Complex.sinh (toC ⟨1, 1⟩) ≠ 0 ∧ Complex.cosh (toC ⟨1, 1⟩) ≠ 0 := by
  have h1 : Real.sin 1 ≠ 0 := (Real.sin_pos_of_pos_of_lt_pi one_pos (by linarith [Real.two_le_pi])).ne'
  have h2 : Real.cos 1 ≠ 0 := Real.cos_one_pos.ne'
  have h3 : Real.sinh 1 ≠ 0 := (Real.sinh_pos_iff.mpr one_pos).ne'
  have h4 : Real.cosh 1 ≠ 0 := (Real.cosh_pos 1).ne'
  refine ⟨?_, ?_, ?_, ?_⟩
  · rw [← csin_eq]; intro h
    have := congrArg Complex.re h
    simp [toC, csin, Transc.sin, Transc.cosh, h1, h4] at this
  · rw [← ccos_eq]; intro h
    have := congrArg Complex.re h
    simp [toC, ccos, Transc.cos, Transc.cosh, h2, h4] at this
  · rw [← csinh_eq]; intro h
    have := congrArg Complex.re h
    simp [toC, csinh, Transc.sinh, Transc.cos, h2, h3] at this
  · rw [← ccosh_eq]; intro h
    have := congrArg Complex.re h
    simp [toC, ccosh, Transc.cosh, Transc.cos, h2, h4] at this

/-! ### C. the interpretation's `atan2`

`Ohsl/Lemmas/RealTransc.lean` DEFINES `Transc.atan2 y x := Complex.arg ⟨x, y⟩`, which makes
`arg_eq` a `rfl`.  The theorems below characterise that function independently of `Complex.arg`:
it is the textbook two-argument arctangent, which is what `f64::atan2` implements (signed zeros
aside: ℝ has one zero, so `atan2 (-0.0) x` for `x < 0`, which is `-π` in IEEE, is not
represented). -/

theorem atan2_def (y x : ℝ) : Transc.atan2 y x = Complex.arg ⟨x, y⟩ := rfl

/-- right half plane: `atan2 y x = arctan (y/x)` -/
theorem atan2_pos (y x : ℝ) (hx : 0 < x) : Transc.atan2 y x = Real.arctan (y / x) := by
  rw [atan2_def]
  have h1 : |Complex.arg ⟨x, y⟩| < π / 2 := Complex.abs_arg_lt_pi_div_two_iff.mpr (Or.inl hx)
  have h2 := Complex.tan_arg ⟨x, y⟩
  simp only at h2
  rw [← h2, Real.arctan_tan (abs_lt.mp h1).1 (abs_lt.mp h1).2]

/-- second quadrant and negative real axis: `atan2 y x = arctan (y/x) + π` -/
theorem atan2_neg_nonneg (y x : ℝ) (hx : x < 0) (hy : 0 ≤ y) :
    Transc.atan2 y x = Real.arctan (y / x) + π := by
  have h := atan2_pos (-y) (-x) (by linarith)
  rw [neg_div_neg_eq] at h
  rw [← h, atan2_def, atan2_def,
    Complex.arg_of_re_neg_of_im_nonneg (x := ⟨x, y⟩) hx hy,
    Complex.arg_of_re_nonneg (x := ⟨-x, -y⟩) (by simp; linarith)]
  have : ‖(⟨-x, -y⟩ : ℂ)‖ = ‖(⟨x, y⟩ : ℂ)‖ := by
    have e : (⟨-x, -y⟩ : ℂ) = -⟨x, y⟩ := by apply Complex.ext <;> simp
    rw [e, norm_neg]
  rw [this]; rfl

/-- third quadrant: `atan2 y x = arctan (y/x) − π` -/
theorem atan2_neg_neg (y x : ℝ) (hx : x < 0) (hy : y < 0) :
    Transc.atan2 y x = Real.arctan (y / x) - π := by
  have h := atan2_pos (-y) (-x) (by linarith)
  rw [neg_div_neg_eq] at h
  rw [← h, atan2_def, atan2_def,
    Complex.arg_of_re_neg_of_im_neg (x := ⟨x, y⟩) hx hy,
    Complex.arg_of_re_nonneg (x := ⟨-x, -y⟩) (by simp; linarith)]
  have : ‖(⟨-x, -y⟩ : ℂ)‖ = ‖(⟨x, y⟩ : ℂ)‖ := by
    have e : (⟨-x, -y⟩ : ℂ) = -⟨x, y⟩ := by apply Complex.ext <;> simp
    rw [e, norm_neg]
  rw [this]; rfl

/-- positive imaginary axis -/
theorem atan2_zero_pos (y : ℝ) (hy : 0 < y) : Transc.atan2 y 0 = π / 2 := by
  rw [atan2_def]
  have : (⟨0, y⟩ : ℂ) = (y : ℂ) * Complex.I := by apply Complex.ext <;> simp
  rw [this, Complex.arg_real_mul _ hy, Complex.arg_I]

/-- negative imaginary axis -/
theorem atan2_zero_neg (y : ℝ) (hy : y < 0) : Transc.atan2 y 0 = -(π / 2) := by
  rw [atan2_def]
  have : (⟨0, y⟩ : ℂ) = ((-y : ℝ) : ℂ) * (-Complex.I) := by apply Complex.ext <;> simp
  rw [this, Complex.arg_real_mul _ (by linarith), Complex.arg_neg_I]

/-- origin (IEEE `atan2(+0, +0) = +0` as well) -/
theorem atan2_zero_zero : Transc.atan2 (0 : ℝ) 0 = 0 := by
  rw [atan2_def]
  exact Complex.arg_zero

/-- range of `atan2` -/
theorem atan2_range (y x : ℝ) : -π < Transc.atan2 y x ∧ Transc.atan2 y x ≤ π :=
  ⟨Complex.neg_pi_lt_arg _, Complex.arg_le_pi _⟩

/-- the six cases determine `atan2`, hence `Cx.arg`, without reference to `Complex.arg` -/
theorem arg_cases (z : Cx ℝ) :
    Cx.arg z =
      if 0 < z.re then Real.arctan (z.im / z.re)
      else if z.re < 0 then (if 0 ≤ z.im then Real.arctan (z.im / z.re) + π
        else Real.arctan (z.im / z.re) - π)
      else if 0 < z.im then π / 2 else if z.im < 0 then -(π / 2) else 0 := by
  show Transc.atan2 z.im z.re = _
  split_ifs with h1 h2 h3 h4 h5
  · exact atan2_pos _ _ h1
  · exact atan2_neg_nonneg _ _ h2 h3
  · exact atan2_neg_neg _ _ h2 (not_le.mp h3)
  · have : z.re = 0 := le_antisymm (not_lt.mp h1) (not_lt.mp h2)
    rw [this]; exact atan2_zero_pos _ h4
  · have : z.re = 0 := le_antisymm (not_lt.mp h1) (not_lt.mp h2)
    rw [this]; exact atan2_zero_neg _ h5
  · have : z.re = 0 := le_antisymm (not_lt.mp h1) (not_lt.mp h2)
    have h0 : z.im = 0 := le_antisymm (not_lt.mp h4) (not_lt.mp h5)
    rw [this, h0]; exact atan2_zero_zero

/-! ### D. zero base in `cpow` / `cpowf`

`cpow_spec`, `cpowf_spec`, `cpow_eq_cpow` assume `toC z ≠ 0`.  For `z = 0` the model evaluates
`r2 = 0`, `th = atan2 0 0 = 0`, `powf 0 (w.re/2)`, and `ln 0`.  In the real interpretation
`Real.log 0 = 0` and `0 ^ y = if y = 0 then 1 else 0` (Mathlib conventions), which gives the
values below.  CAVEAT (class F, not provable here): in `f64`, `ln 0 = -inf`, so `cpow` with a zero
base forms `cos (±inf)` or `0 · (-inf)` and returns NaN + NaN i for EVERY exponent, and
`powf 0 (negative) = +inf`; the real-interpretation values for `cpow` at a zero base therefore say
nothing about `f64`.  For `cpowf` (which does not call `ln`) the values below agree with `f64` for
`x ≥ 0` (`0^0 = 1`, `0^x = 0`) and differ for `x < 0` (`f64`: `inf + NaN i`). -/

theorem toC_eq_zero_iff (z : Cx ℝ) : toC z = 0 ↔ z = ⟨0, 0⟩ := by
  rw [← toC_inj]; rfl

/-- the model's `0 ^ w` over ℝ: `1` when `Re w = 0` (whatever `Im w` is), `0` otherwise -/
theorem cpow_zero_base (z w : Cx ℝ) (hz : toC z = 0) :
    cpow z w = if w.re = 0 then ⟨1, 0⟩ else ⟨0, 0⟩ := by
  rw [toC_eq_zero_iff] at hz
  subst hz
  have hform : cpow (⟨0, 0⟩ : Cx ℝ) w =
      ⟨(0 * 0 + 0 * 0 : ℝ) ^ (1 / 2 * w.re) * Real.exp (-w.im * Complex.arg ⟨0, 0⟩) *
          Real.cos (w.re * Complex.arg ⟨0, 0⟩ + 1 / 2 * w.im * Real.log (0 * 0 + 0 * 0)),
        (0 * 0 + 0 * 0 : ℝ) ^ (1 / 2 * w.re) * Real.exp (-w.im * Complex.arg ⟨0, 0⟩) *
          Real.sin (w.re * Complex.arg ⟨0, 0⟩ + 1 / 2 * w.im * Real.log (0 * 0 + 0 * 0))⟩ := rfl
  have ha : Complex.arg ⟨0, 0⟩ = 0 := Complex.arg_zero
  rw [hform, ha]
  by_cases h : w.re = 0
  · simp [h]
  · simp [h]

/-- the model's `0 ^ x` (real exponent) over ℝ: `1` for `x = 0`, `0` otherwise -/
theorem cpowf_zero_base (z : Cx ℝ) (x : ℝ) (hz : toC z = 0) :
    cpowf z x = if x = 0 then ⟨1, 0⟩ else ⟨0, 0⟩ := by
  rw [toC_eq_zero_iff] at hz
  subst hz
  have hform : cpowf (⟨0, 0⟩ : Cx ℝ) x =
      ⟨(0 * 0 + 0 * 0 : ℝ) ^ (1 / 2 * x) * Real.cos (x * Complex.arg ⟨0, 0⟩),
        (0 * 0 + 0 * 0 : ℝ) ^ (1 / 2 * x) * Real.sin (x * Complex.arg ⟨0, 0⟩)⟩ := rfl
  have ha : Complex.arg ⟨0, 0⟩ = 0 := Complex.arg_zero
  rw [hform, ha]
  by_cases h : x = 0
  · simp [h]
  · simp [h]

/-- with `cpowf_spec`: over ℝ the model's real power is Mathlib's principal power on the WHOLE
    domain (including the zero base, where Mathlib has `0 ^ 0 = 1`, `0 ^ x = 0`) -/
theorem cpowf_eq_cpow (z : Cx ℝ) (x : ℝ) : toC (cpowf z x) = toC z ^ (x : ℂ) := by
  by_cases hz : toC z = 0
  · rw [cpowf_zero_base z x hz, hz]
    by_cases h : x = 0
    · simp [h]; rfl
    · have : (x : ℂ) ≠ 0 := by exact_mod_cast h
      simp [h, Complex.zero_cpow this]; rfl
  · rw [cpowf_spec z x hz, Complex.cpow_def_of_ne_zero hz, mul_comm]

/-- with `cpow_eq_cpow`: for a zero base the model agrees with Mathlib's `0 ^ w`
    (`= if w = 0 then 1 else 0`) EXCEPT on the non-zero purely imaginary exponents, where the
    model gives `1` and Mathlib `0` -/
theorem cpow_zero_base_eq_cpow_iff (z w : Cx ℝ) (hz : toC z = 0) :
    toC (cpow z w) = toC z ^ toC w ↔ (w.re = 0 → w.im = 0) := by
  rw [cpow_zero_base z w hz, hz]
  by_cases h : w.re = 0
  · by_cases h' : w.im = 0
    · have : toC w = 0 := by apply Complex.ext <;> simp [toC, h, h']
      simp [h, h', this]; rfl
    · have : toC w ≠ 0 := by
        intro e; exact h' (congrArg Complex.im e)
      simp only [h, if_true, Complex.zero_cpow this, h', imp_false, not_true_eq_false, iff_false]
      intro e
      have := congrArg Complex.re e
      simp [toC] at this
  · have : toC w ≠ 0 := by
      intro e; exact h (congrArg Complex.re e)
    simp [h, Complex.zero_cpow this]; rfl

/-- whole-domain statement for `cpow`: Mathlib's principal power unless the base is zero and the
    exponent is non-zero purely imaginary -/
theorem cpow_eq_cpow_of (z w : Cx ℝ) (h : toC z ≠ 0 ∨ (w.re = 0 → w.im = 0)) :
    toC (cpow z w) = toC z ^ toC w := by
  by_cases hz : toC z = 0
  · exact (cpow_zero_base_eq_cpow_iff z w hz).mpr (h.resolve_left (not_not.mpr hz))
  · exact cpow_eq_cpow z w hz

/-! ### B. real-axis reductions (continuation of `real_axis`)

All for `z = ⟨x, 0⟩`.  The quotient functions are stated unconditionally; AT A POLE
(`cos x = 0`, `sin x = 0`, `x = 0` for csch/coth) both sides are `0` by Mathlib's `x/0 = 0`
(and `Real.tan x = sin x / cos x = 0` there), which is not what f64 returns — away from the
poles the statements are the genuine ones. -/

theorem toC_ofReal (x : ℝ) : toC ⟨x, 0⟩ = (x : ℂ) := rfl

theorem eq_of_toC_eq_ofReal {z : Cx ℝ} {r : ℝ} (h : toC z = (r : ℂ)) : z = ⟨r, 0⟩ :=
  toC_inj.mp h

/-- square root of a complex number that is a non-negative real -/
theorem csqrt_of_nonneg {w : Cx ℝ} {r : ℝ} (h : toC w = (r : ℂ)) (hr : 0 ≤ r) :
    toC (csqrt w) = ((Real.sqrt r : ℝ) : ℂ) := by
  rw [csqrt_form, h, Complex.arg_ofReal_of_nonneg hr, Complex.norm_real, Real.norm_eq_abs,
    abs_of_nonneg hr]
  simp

/-- square root of a complex number that is a negative real: `i √(-r)` (principal branch) -/
theorem csqrt_of_neg {w : Cx ℝ} {r : ℝ} (h : toC w = (r : ℂ)) (hr : r < 0) :
    toC (csqrt w) = ((Real.sqrt (-r) : ℝ) : ℂ) * Complex.I := by
  rw [csqrt_form, h, Complex.arg_ofReal_of_neg hr, Complex.norm_real, Real.norm_eq_abs,
    abs_of_neg hr]
  have : (((1 / 2 * π : ℝ) : ℂ)) * Complex.I = (π : ℂ) / 2 * Complex.I := by push_cast; ring
  rw [this, Complex.exp_pi_div_two_mul_I]

/-- sqrt on the non-negative real axis -/
theorem csqrt_real_nonneg (x : ℝ) (hx : 0 ≤ x) : csqrt ⟨x, 0⟩ = ⟨Real.sqrt x, 0⟩ :=
  eq_of_toC_eq_ofReal (csqrt_of_nonneg (toC_ofReal x) hx)

/-- sqrt on the negative real axis: `i √(-x)` (principal branch, upper side of the cut) -/
theorem csqrt_real_neg (x : ℝ) (hx : x < 0) : csqrt ⟨x, 0⟩ = ⟨0, Real.sqrt (-x)⟩ := by
  apply toC_inj.mp
  rw [csqrt_of_neg (toC_ofReal x) hx]
  apply Complex.ext <;> simp [toC]

/-- ln on the positive real axis -/
theorem cln_real_pos (x : ℝ) (hx : 0 < x) : cln ⟨x, 0⟩ = ⟨Real.log x, 0⟩ := by
  apply eq_of_toC_eq_ofReal
  rw [cln_eq, toC_ofReal, Complex.ofReal_log hx.le]

/-- ln on the negative real axis: `log (-x) + iπ` (principal branch, upper side of the cut) -/
theorem cln_real_neg (x : ℝ) (hx : x < 0) : cln ⟨x, 0⟩ = ⟨Real.log (-x), π⟩ := by
  apply toC_inj.mp
  rw [cln_eq, toC_ofReal]
  apply Complex.ext
  · simp [toC, Complex.log_re]
  · simp [toC, Complex.log_im, Complex.arg_ofReal_of_neg hx]

/-- tan on the real axis (at `cos x = 0` both sides are `0` by convention; f64: ±large/inf) -/
theorem ctan_real (x : ℝ) : ctan ⟨x, 0⟩ = ⟨Real.tan x, 0⟩ := by
  apply eq_of_toC_eq_ofReal
  rw [ctan_eq, toC_ofReal, Complex.ofReal_tan]

/-- tanh on the real axis (no poles: `cosh x ≥ 1`) -/
theorem ctanh_real (x : ℝ) : ctanh ⟨x, 0⟩ = ⟨Real.tanh x, 0⟩ := by
  apply eq_of_toC_eq_ofReal
  rw [ctanh_eq, toC_ofReal, Complex.ofReal_tanh]

/-- sec on the real axis (at `cos x = 0` both sides are `0` by convention) -/
theorem csec_real (x : ℝ) : csec ⟨x, 0⟩ = ⟨(Real.cos x)⁻¹, 0⟩ := by
  apply eq_of_toC_eq_ofReal
  rw [csec_eq, toC_ofReal, Complex.ofReal_inv, Complex.ofReal_cos]

/-- csc on the real axis (at `sin x = 0` both sides are `0` by convention) -/
theorem ccsc_real (x : ℝ) : ccsc ⟨x, 0⟩ = ⟨(Real.sin x)⁻¹, 0⟩ := by
  apply eq_of_toC_eq_ofReal
  rw [ccsc_eq, toC_ofReal, Complex.ofReal_inv, Complex.ofReal_sin]

/-- cot on the real axis (at `sin x = 0` both sides are `0` by convention) -/
theorem ccot_real (x : ℝ) : ccot ⟨x, 0⟩ = ⟨Real.cos x / Real.sin x, 0⟩ := by
  apply eq_of_toC_eq_ofReal
  rw [ccot_eq, toC_ofReal, Complex.ofReal_div, Complex.ofReal_cos, Complex.ofReal_sin]

/-- sech on the real axis (no poles) -/
theorem csech_real (x : ℝ) : csech ⟨x, 0⟩ = ⟨(Real.cosh x)⁻¹, 0⟩ := by
  apply eq_of_toC_eq_ofReal
  rw [csech_eq, toC_ofReal, Complex.ofReal_inv, Complex.ofReal_cosh]

/-- csch on the real axis (at `x = 0` both sides are `0` by convention; f64: inf/NaN) -/
theorem ccsch_real (x : ℝ) : ccsch ⟨x, 0⟩ = ⟨(Real.sinh x)⁻¹, 0⟩ := by
  apply eq_of_toC_eq_ofReal
  rw [ccsch_eq, toC_ofReal, Complex.ofReal_inv, Complex.ofReal_sinh]

/-- coth on the real axis (at `x = 0` both sides are `0` by convention; f64: inf/NaN) -/
theorem ccoth_real (x : ℝ) : ccoth ⟨x, 0⟩ = ⟨Real.cosh x / Real.sinh x, 0⟩ := by
  apply eq_of_toC_eq_ofReal
  rw [ccoth_eq, toC_ofReal, Complex.ofReal_div, Complex.ofReal_cosh, Complex.ofReal_sinh]

/-- convention-free forms of the real-axis reciprocals: the value is real and is THE number whose
    product with the non-zero denominator is the numerator -/
theorem reciprocals_real_mul (x : ℝ) :
    (Real.cos x ≠ 0 → (ctan ⟨x, 0⟩).im = 0 ∧ (ctan ⟨x, 0⟩).re * Real.cos x = Real.sin x) ∧
    (Real.cos x ≠ 0 → (csec ⟨x, 0⟩).im = 0 ∧ (csec ⟨x, 0⟩).re * Real.cos x = 1) ∧
    (Real.sin x ≠ 0 → (ccsc ⟨x, 0⟩).im = 0 ∧ (ccsc ⟨x, 0⟩).re * Real.sin x = 1) ∧
    (Real.sin x ≠ 0 → (ccot ⟨x, 0⟩).im = 0 ∧ (ccot ⟨x, 0⟩).re * Real.sin x = Real.cos x) ∧
    ((ctanh ⟨x, 0⟩).im = 0 ∧ (ctanh ⟨x, 0⟩).re * Real.cosh x = Real.sinh x) ∧
    ((csech ⟨x, 0⟩).im = 0 ∧ (csech ⟨x, 0⟩).re * Real.cosh x = 1) ∧
    (x ≠ 0 → (ccsch ⟨x, 0⟩).im = 0 ∧ (ccsch ⟨x, 0⟩).re * Real.sinh x = 1) ∧
    (x ≠ 0 → (ccoth ⟨x, 0⟩).im = 0 ∧ (ccoth ⟨x, 0⟩).re * Real.sinh x = Real.cosh x) := by
  have hc : Real.cosh x ≠ 0 := (Real.cosh_pos x).ne'
  rw [ctan_real, csec_real, ccsc_real, ccot_real, ctanh_real, csech_real, ccsch_real, ccoth_real]
  refine ⟨fun h => ⟨rfl, ?_⟩, fun h => ⟨rfl, ?_⟩, fun h => ⟨rfl, ?_⟩, fun h => ⟨rfl, ?_⟩,
    ⟨rfl, ?_⟩, ⟨rfl, ?_⟩, fun h => ⟨rfl, ?_⟩, fun h => ⟨rfl, ?_⟩⟩
  · show Real.tan x * Real.cos x = Real.sin x
    rw [Real.tan_eq_sin_div_cos, div_mul_cancel₀ _ h]
  · exact inv_mul_cancel₀ h
  · exact inv_mul_cancel₀ h
  · exact div_mul_cancel₀ _ h
  · show Real.tanh x * Real.cosh x = Real.sinh x
    rw [Real.tanh_eq_sinh_div_cosh, div_mul_cancel₀ _ hc]
  · exact inv_mul_cancel₀ hc
  · exact inv_mul_cancel₀ (by rwa [Ne, Real.sinh_eq_zero])
  · exact div_mul_cancel₀ _ (by rwa [Ne, Real.sinh_eq_zero])

/-! inverse functions on the real axis -/

/-- asin on `[-1, 1]` is the real arcsine -/
theorem casin_real (x : ℝ) (h1 : -1 ≤ x) (h2 : x ≤ 1) : casin ⟨x, 0⟩ = ⟨Real.arcsin x, 0⟩ := by
  apply eq_of_toC_eq_ofReal
  have hw : toC (1 - (⟨x, 0⟩ : Cx ℝ) * ⟨x, 0⟩) = ((1 - x ^ 2 : ℝ) : ℂ) := by
    rw [toC_sub, toC_one, toC_mul, toC_ofReal]; push_cast; ring
  have hnn : 0 ≤ 1 - x ^ 2 := by nlinarith
  rw [casin_eq, csqrt_of_nonneg hw hnn, toC_ofReal, ← Real.cos_arcsin]
  have hx : (x : ℂ) = ((Real.sin (Real.arcsin x) : ℝ) : ℂ) := by rw [Real.sin_arcsin h1 h2]
  have he : ((Real.cos (Real.arcsin x) : ℝ) : ℂ) + Complex.I * (x : ℂ) =
      Complex.exp ((Real.arcsin x : ℂ) * Complex.I) := by
    rw [Complex.exp_mul_I, ← Complex.ofReal_cos, ← Complex.ofReal_sin, ← hx]; ring
  have hlo : -π < ((Real.arcsin x : ℂ) * Complex.I).im := by
    simp; linarith [Real.neg_pi_div_two_le_arcsin x, Real.pi_pos]
  have hhi : ((Real.arcsin x : ℂ) * Complex.I).im ≤ π := by
    simp; linarith [Real.arcsin_le_pi_div_two x, Real.pi_pos]
  rw [he, Complex.log_exp hlo hhi]
  linear_combination (-(Real.arcsin x : ℂ)) * Complex.I_sq

/-- acos on `[-1, 1]` is the real arccosine -/
theorem cacos_real (x : ℝ) (h1 : -1 ≤ x) (h2 : x ≤ 1) : cacos ⟨x, 0⟩ = ⟨Real.arccos x, 0⟩ := by
  apply eq_of_toC_eq_ofReal
  have h := casin_add_cacos ⟨x, 0⟩
  rw [casin_real x h1 h2, toC_ofReal] at h
  rw [Real.arccos_eq_pi_div_two_sub_arcsin]
  push_cast at h ⊢
  linear_combination h

/-- atan on the whole real axis is the real arctangent -/
theorem catan_real (x : ℝ) : catan ⟨x, 0⟩ = ⟨Real.arctan x, 0⟩ := by
  apply eq_of_toC_eq_ofReal
  rw [catan_eq, toC_ofReal]
  have e1 : (1 + Complex.I * (x : ℂ)) = ⟨1, x⟩ := by apply Complex.ext <;> simp
  have e2 : (1 - Complex.I * (x : ℂ)) = ⟨1, -x⟩ := by apply Complex.ext <;> simp
  have a1 : Complex.arg ⟨1, x⟩ = Real.arctan x := by
    have := atan2_pos x 1 one_pos; rwa [div_one] at this
  have a2 : Complex.arg ⟨1, -x⟩ = -Real.arctan x := by
    have := atan2_pos (-x) 1 one_pos; rwa [div_one, Real.arctan_neg] at this
  have n : ‖(⟨1, -x⟩ : ℂ)‖ = ‖(⟨1, x⟩ : ℂ)‖ := by
    simp [Complex.norm_def, Complex.normSq_apply]
  rw [e1, e2]
  apply Complex.ext
  · simp [Complex.log_im, a1, a2]; ring
  · simp [Complex.log_re, n]

/-- asinh on the whole real axis is the real `arsinh` -/
theorem casinh_real (x : ℝ) : casinh ⟨x, 0⟩ = ⟨Real.arsinh x, 0⟩ := by
  apply eq_of_toC_eq_ofReal
  have hw : toC (addR ((⟨x, 0⟩ : Cx ℝ) * ⟨x, 0⟩) 1) = ((1 + x ^ 2 : ℝ) : ℂ) := by
    rw [toC_addR, toC_mul, toC_ofReal]; push_cast; ring
  have hpos : 0 < x + Real.sqrt (1 + x ^ 2) := by
    have h0 : |x| < Real.sqrt (1 + x ^ 2) := by
      rw [← Real.sqrt_sq_eq_abs]
      exact Real.sqrt_lt_sqrt (sq_nonneg x) (by linarith)
    linarith [neg_abs_le x]
  rw [casinh_eq, csqrt_of_nonneg hw (by positivity), toC_ofReal, Real.arsinh,
    Complex.ofReal_log hpos.le]
  push_cast; ring_nf

/-- atanh on `(-1, 1)` is the real `artanh` -/
theorem catanh_real (x : ℝ) (h1 : -1 < x) (h2 : x < 1) : catanh ⟨x, 0⟩ = ⟨Real.artanh x, 0⟩ := by
  apply eq_of_toC_eq_ofReal
  have ha : (0 : ℝ) < 1 + x := by linarith
  have hb : (0 : ℝ) < 1 - x := by linarith
  have e1 : ((x : ℂ) + 1) = ((1 + x : ℝ) : ℂ) := by push_cast; ring
  have e2 : (1 - (x : ℂ)) = ((1 - x : ℝ) : ℂ) := by push_cast; ring
  rw [catanh_eq, toC_ofReal, e1, e2, ← Complex.ofReal_log ha.le, ← Complex.ofReal_log hb.le,
    Real.artanh_eq_half_log ⟨h1.le, h2.le⟩, Real.log_div ha.ne' hb.ne']
  push_cast; ring

/-- acosh on `[1, ∞)` is the real `arcosh` -/
theorem cacosh_real (x : ℝ) (h1 : 1 ≤ x) : cacosh ⟨x, 0⟩ = ⟨Real.arcosh x, 0⟩ := by
  apply eq_of_toC_eq_ofReal
  have hm : toC (subR (⟨x, 0⟩ : Cx ℝ) 1) = ((x - 1 : ℝ) : ℂ) := by
    rw [toC_subR, toC_ofReal]; push_cast; ring
  have hp : toC (addR (⟨x, 0⟩ : Cx ℝ) 1) = ((x + 1 : ℝ) : ℂ) := by
    rw [toC_addR, toC_ofReal]; push_cast; ring
  have hs : Real.sqrt (x - 1) * Real.sqrt (x + 1) = Real.sqrt (x ^ 2 - 1) := by
    rw [← Real.sqrt_mul (by linarith)]; congr 1; ring
  have hpos : 0 ≤ x + Real.sqrt (x ^ 2 - 1) := by positivity
  rw [cacosh_eq, csqrt_of_nonneg hm (by linarith), csqrt_of_nonneg hp (by linarith), toC_ofReal,
    Real.arcosh, Complex.ofReal_log hpos, ← hs]
  push_cast; ring_nf

/-! powers on the real axis -/

/-- real exponent, non-negative real base: `Real.rpow` (including `0 ^ 0 = 1`, `0 ^ y = 0`) -/
theorem cpowf_real (x y : ℝ) (hx : 0 ≤ x) : cpowf ⟨x, 0⟩ y = ⟨x ^ y, 0⟩ := by
  apply eq_of_toC_eq_ofReal
  rw [cpowf_eq_cpow, toC_ofReal, Complex.ofReal_cpow hx]

/-- complex power with real positive base and real exponent: `Real.rpow` -/
theorem cpow_real (x y : ℝ) (hx : 0 < x) : cpow ⟨x, 0⟩ ⟨y, 0⟩ = ⟨x ^ y, 0⟩ := by
  apply eq_of_toC_eq_ofReal
  have hz : toC (⟨x, 0⟩ : Cx ℝ) ≠ 0 := by
    rw [toC_ofReal]; exact_mod_cast hx.ne'
  rw [cpow_eq_cpow _ _ hz, toC_ofReal, toC_ofReal, Complex.ofReal_cpow hx.le]

/-- the same at the zero base (through `Real.log 0 = 0`; f64 returns NaN here, see section D) -/
theorem cpow_real_zero (y : ℝ) : cpow ⟨0, 0⟩ ⟨y, 0⟩ = ⟨(0 : ℝ) ^ y, 0⟩ := by
  rw [cpow_zero_base _ _ rfl]
  by_cases h : y = 0
  · simp [h]
  · simp [h, Real.zero_rpow h]

/-- real exponent, negative real base: `|x|^y (cos πy + i sin πy)` (principal branch) -/
theorem cpowf_real_neg (x y : ℝ) (hx : x < 0) :
    cpowf ⟨x, 0⟩ y = ⟨(-x) ^ y * Real.cos (y * π), (-x) ^ y * Real.sin (y * π)⟩ := by
  have ha : Complex.arg ⟨x, 0⟩ = π := Complex.arg_ofReal_of_neg hx
  have hform : cpowf (⟨x, 0⟩ : Cx ℝ) y =
      ⟨(x * x + 0 * 0 : ℝ) ^ (1 / 2 * y) * Real.cos (y * Complex.arg ⟨x, 0⟩),
        (x * x + 0 * 0 : ℝ) ^ (1 / 2 * y) * Real.sin (y * Complex.arg ⟨x, 0⟩)⟩ := rfl
  have hp : (x * x + 0 * 0 : ℝ) ^ (1 / 2 * y) = (-x) ^ y := by
    have : (x * x + 0 * 0 : ℝ) = (-x) ^ (2 : ℝ) := by
      rw [Real.rpow_two]; ring
    rw [this, ← Real.rpow_mul (by linarith)]
    congr 1; ring
  rw [hform, ha, hp]

end Ohsl.Props.C14
