/-
  Property C18 (continued) — gaps closed after review (model: `Ohsl.Jac.jacobian`,
  Ohsl/Model/Newton.lean).  The model has ONE finite-difference Jacobian, generic in the element
  type `E` (`Mat64::jacobian` is `E = f64`, `Matrix::<Cmplx>::jacobian_cmplx` is `E = Cx f64`
  with `delta` embedded as `⟨delta, 0⟩`); there is no separate `jacobianCx`, every theorem below
  covers both.

  Class (S) — every user function, any element type, arbitrary arithmetic:
  * `jacobian_eq`                     the call as a loop over the named body `jacBody`
  * `jacobian_ok_calls`               a call that RETURNS (no hypothesis at all) has evaluated `f`
                                      exactly at `point, x⁽¹⁾, …, x⁽ⁿ⁾` (`C18.evalPt`), in this
                                      order, and `f` returned a vector of the length of `f point`
                                      at every one of them
  * `jacobian_rejects_size_change_any`  hence: if `f` returns a vector of a different length at the
                                      perturbed point of ANY column `j < n`, the call panics
                                      (no other hypothesis; the panic may be an earlier one)
  * `jacobian_prefix`                 the first `j` columns, under hypotheses on the first `j`
                                      perturbed points only
  * `jacobian_rejects_size_change_at` … and it is the size panic (`.error .size`, raised by
                                      `fnew - f0` of column `j`) when the earlier columns have
                                      the right length and dividing by `delta` does not panic
                                      (always true of f64 / Complex<f64>)
  * `jacobian_entries_local`          shape / entries / call sequence of `C18.jacobian_entries`
                                      with the size hypothesis only at the `n + 1` points at which
                                      `f` is actually called (instead of at every vector of length n)
  * `jacobian_panic_evals`            a panicking call fails in a definite column `j < n`, after
                                      `j + 1` returned evaluations (so at most `n + 1` in all)
  Class (E) — linearly ordered field, `/` fails on an exact zero divisor:
  * `jacobian_entries_field`          `delta ≠ 0` only: entry `(i, j)` is the field quotient
                                      `((f (point + δ e_j))[i] − (f point)[i]) / δ`
  * `jacobian_rejects_size_change_field`  column-`j` version with the exact perturbed points
  * `jacobian_delta_zero_rejects`     `delta = 0`, `n > 0`, `f point` non-empty: `.error .arith`
  * `jacobian_delta_zero_empty`       `delta = 0` and `n = 0`: the call returns (no division)
  * `jacobian_ok_iff_field`           the call returns IF AND ONLY IF `f` has the length of
                                      `f point` at every `point + δ e_j` and (`delta ≠ 0` or there
                                      is nothing to divide: `n = 0` or `f point` empty)
-/
import Ohsl.Props.C18E
import Ohsl.Props.C17S
import Ohsl.Lemmas.C17C
import Mathlib.Algebra.Order.Field.Rat
set_option linter.unusedSectionVars false
set_option linter.unusedVariables false
set_option linter.unusedSimpArgs false
namespace Ohsl.Props.C18
open Ohsl Ohsl.Mat Ohsl.Jac

section S
variable {E : Type} [Add E] [Sub E] [Mul E] [Neg E] [Zero E] [One E] [BEq E] [ScalarExt E]

/-- the body of the column loop of `jacobian`, on the state (matrix, working copy, trace) -/
def jacBody (f : Array E → Array E) (point : Array E) (delta : E)
    (x : Mat E × Array E × List (Array E)) (i : Nat) : Res (Mat E × Array E × List (Array E)) := do
  let xi ← aget x.2.1 i
  let state ← aset x.2.1 i (xi + delta)
  let fnew := f state
  let state' ← aset state i xi
  let diff ← Vec.sub fnew (f point)
  let col ← Vec.sdiv diff delta
  let jac ← Mat.setCol x.1 i col
  pure (jac, state', x.2.2 ++ [state])

/-- the initial state of the column loop -/
def jacInit (f : Array E → Array E) (point : Array E) : Mat E × Array E × List (Array E) :=
  (Mat.new (f point).size point.size (0 : E), point, [point])

/-- `jacobian` is the loop of `jacBody` over the columns `0 … n-1` -/
theorem jacobian_eq (f : Array E → Array E) (point : Array E) (delta : E) :
    jacobian f point delta =
      (Mat.forM' 0 point.size (jacInit f point) (jacBody f point delta)) >>=
        (fun r => pure (r.1, r.2.2)) := rfl

theorem evalPt_eq_set (point : Array E) (delta : E) (k : Nat) (hk : k < point.size) :
    (stateAt point delta k).setIfInBounds k
      ((stateAt point delta k)[k]'(by simpa using hk) + delta) = evalPt point delta k := by
  rw [evalPt, modify_eq_set _ _ _ (by simpa using hk)]

theorem stateAt_succ_eq_set (point : Array E) (delta : E) (k : Nat) (hk : k < point.size) :
    (evalPt point delta k).setIfInBounds k ((stateAt point delta k)[k]'(by simpa using hk))
      = stateAt point delta (k + 1) := by
  apply Array.ext_getElem?
  intro i
  simp only [Array.getElem?_setIfInBounds, evalPt, Array.getElem?_modify, Array.getElem_modify,
    Array.size_modify, stateAt]
  by_cases e : k = i
  · subst e; simp [hk]
  · simp [e]

/-- the first five operations of the loop body in column `k`, on the working copy `stateAt k` -/
theorem jacBody_unfold (f : Array E → Array E) (point : Array E) (delta : E) (jac : Mat E)
    (tr : List (Array E)) (k : Nat) (hk : k < point.size) :
    jacBody f point delta (jac, stateAt point delta k, tr) k =
      (Vec.sub (f (evalPt point delta k)) (f point)) >>= fun diff =>
        (Vec.sdiv diff delta) >>= fun col =>
          (Mat.setCol jac k col) >>= fun jac' =>
            pure (jac', stateAt point delta (k + 1), tr ++ [evalPt point delta k]) := by
  have hk' : k < (stateAt point delta k).size := by simpa using hk
  have hk2 : k < (evalPt point delta k).size := by simpa using hk
  unfold jacBody
  simp only [aget_ok hk', aset_ok _ hk', evalPt_eq_set point delta k hk, aget_ok hk2, aset_ok _ hk2,
    stateAt_succ_eq_set point delta k hk, bind, Except.bind, pure, Except.pure]

/-- what a returning loop body did -/
theorem jacBody_ok (f : Array E → Array E) (point : Array E) (delta : E) (jac jac' : Mat E)
    (tr tr' : List (Array E)) (st' : Array E) (k : Nat) (hk : k < point.size)
    (h : jacBody f point delta (jac, stateAt point delta k, tr) k = .ok (jac', st', tr')) :
    (f (evalPt point delta k)).size = (f point).size ∧ st' = stateAt point delta (k + 1) ∧
      tr' = tr ++ [evalPt point delta k] := by
  rw [jacBody_unfold f point delta jac tr k hk] at h
  by_cases hs : (f (evalPt point delta k)).size = (f point).size
  · refine ⟨hs, ?_⟩
    simp only [bind, Except.bind, pure, Except.pure] at h
    repeat (split at h; · cases h)
    cases h
    exact ⟨rfl, rfl⟩
  · exfalso
    simp only [Vec.sub, bind, Except.bind] at h
    rw [if_pos hs] at h
    cases h

/-- **the call sequence of a returning call, unconditionally**: whenever `jacobian f point delta`
    returns — no hypothesis on `f`, on the element type or on `delta` — `f` has been called exactly
    at `point, x⁽¹⁾, …, x⁽ⁿ⁾` (`x⁽ʲ⁺¹⁾ = evalPt point delta j`), in this order, and it returned a
    vector of the length of `f point` at every one of these points. -/
theorem jacobian_ok_calls (f : Array E → Array E) (point : Array E) (delta : E)
    (J : Mat E) (tr : List (Array E)) (h : jacobian f point delta = .ok (J, tr)) :
    tr = point :: (List.range point.size).map (evalPt point delta) ∧
    ∀ j, j < point.size → (f (evalPt point delta j)).size = (f point).size := by
  rw [jacobian_eq] at h
  cases hr : Mat.forM' 0 point.size (jacInit f point) (jacBody f point delta) with
  | error e => rw [hr] at h; cases h
  | ok r =>
    rw [hr] at h
    obtain ⟨jac, state, tr0⟩ := r
    cases h
    have := C17.forM'_inv_of_ok
      (fun k (s : Mat E × Array E × List (Array E)) =>
        s.2.1 = stateAt point delta k ∧
        s.2.2 = point :: (List.range k).map (evalPt point delta) ∧
        ∀ j, j < k → (f (evalPt point delta j)).size = (f point).size)
      (jacBody f point delta) (point.size - 0) 0 (jacInit f point) _
      ⟨rfl, rfl, fun j hj => absurd hj (Nat.not_lt_zero j)⟩ (by
        rintro i ⟨jac, state, tr⟩ ⟨jac', state', tr'⟩ _ hi ⟨hs, ht, hsz⟩ hb
        simp only at hs ht hsz
        subst state ht
        obtain ⟨a, b, c⟩ := jacBody_ok f point delta jac jac' _ tr' state' i (by omega) hb
        refine ⟨b, by simp [c, List.range_succ], ?_⟩
        intro j hj
        by_cases e : j = i
        · subst e; exact a
        · exact hsz j (by omega)) hr
    simp only [Nat.sub_zero, Nat.zero_add] at this
    exact ⟨this.2.1, this.2.2⟩

/-- **a size change in ANY column is rejected, class (S), no side condition**: if `f` returns a
    vector of a different length than `f point` at the perturbed point of some column `j < n`, the
    call panics.  (Which panic: the size panic of column `j` if the earlier columns go through —
    `jacobian_rejects_size_change_at` — otherwise the panic of an earlier column.) -/
theorem jacobian_rejects_size_change_any (f : Array E → Array E) (point : Array E) (delta : E)
    (j : Nat) (hj : j < point.size)
    (hbad : (f (evalPt point delta j)).size ≠ (f point).size) :
    ∃ e, jacobian f point delta = .error e := by
  cases h : jacobian f point delta with
  | error e => exact ⟨e, rfl⟩
  | ok p =>
    obtain ⟨J, tr⟩ := p
    exact absurd ((jacobian_ok_calls f point delta J tr h).2 j hj) hbad

/-- `vector / scalar` when there is something to divide only if dividing does not panic -/
theorem sdiv_spec' (v : Array E) (delta : E)
    (hdiv : 0 < v.size → ∀ a : E, ∃ q, divM a delta = .ok q) :
    ∃ w, Vec.sdiv v delta = .ok w ∧ w.size = v.size ∧
      ∀ i (h : i < v.size) (h' : i < w.size), divM v[i] delta = .ok w[i] := by
  by_cases h0 : 0 < v.size
  · exact sdiv_spec v delta (hdiv h0)
  · have : v = #[] := Array.eq_empty_of_size_eq_zero (by omega)
    subst this
    exact ⟨#[], by simp [Vec.sdiv, pure, Except.pure], rfl, fun i h => absurd h (by simp)⟩

/-- **the first `j` columns**: if `f` returns vectors of the length `m` of `f point` at the first
    `j ≤ n` perturbed points and dividing by `delta` does not panic (needed only when `m > 0`), the
    loop over the columns `0 … j-1` returns: the working copy is `stateAt j`, `f` was called at
    `point, x⁽¹⁾, …, x⁽ʲ⁾`, and the matrix is a well-formed `m × n` matrix whose first `j` columns
    hold the computed difference quotients. -/
theorem jacobian_prefix (f : Array E → Array E) (point : Array E) (delta : E) (j : Nat)
    (hj : j ≤ point.size)
    (hdiv : 0 < (f point).size → ∀ a : E, ∃ q, divM a delta = .ok q)
    (hgood : ∀ i, i < j → (f (evalPt point delta i)).size = (f point).size) :
    ∃ jac e, Mat.forM' 0 j (jacInit f point) (jacBody f point delta)
        = .ok (jac, stateAt point delta j, point :: (List.range j).map (evalPt point delta)) ∧
      Is jac (f point).size point.size e ∧
      ∀ i c, i < (f point).size → c < j →
        ∀ (h1 : i < (f (evalPt point delta c)).size) (h0 : i < (f point).size),
          divM ((f (evalPt point delta c))[i] - (f point)[i]) delta = .ok (e i c) := by
  obtain ⟨r, hr, hP⟩ := forM'_inv
    (fun k (s : Mat E × Array E × List (Array E)) =>
      s.2.1 = stateAt point delta k ∧
      s.2.2 = point :: (List.range k).map (evalPt point delta) ∧
      ∃ e, Is s.1 (f point).size point.size e ∧
        ∀ i c, i < (f point).size → c < k →
          ∀ (h1 : i < (f (evalPt point delta c)).size) (h0 : i < (f point).size),
            divM ((f (evalPt point delta c))[i] - (f point)[i]) delta = .ok (e i c))
    0 j (jacInit f point) (jacBody f point delta) (Nat.zero_le _)
    ⟨rfl, rfl, _, Is.of_new (f point).size point.size (0 : E), fun i c _ hc => absurd hc (by omega)⟩
    (by
      rintro k ⟨jac, state, tr⟩ _ hk ⟨hs, ht, e, hI, hE⟩
      simp only at hs ht hI hE
      subst state ht
      have hkn : k < point.size := by omega
      have hfn : (f (evalPt point delta k)).size = (f point).size := hgood k hk
      have hd1 : Vec.sub (f (evalPt point delta k)) (f point)
          = .ok (Array.zipWith (· - ·) (f (evalPt point delta k)) (f point)) := by
        simp [Vec.sub, hfn]
      have hd2 : (Array.zipWith (· - ·) (f (evalPt point delta k)) (f point)).size
          = (f point).size := by simp [hfn]
      obtain ⟨col, hc1, hc2, hc3⟩ := sdiv_spec'
        (Array.zipWith (· - ·) (f (evalPt point delta k)) (f point)) delta
        (fun h => hdiv (by rw [← hd2]; exact h))
      obtain ⟨jac', hj1, hj2⟩ := setCol_spec hI (col := k) col (by rw [hc2, hd2]) hkn
      refine ⟨(jac', stateAt point delta (k + 1),
        (point :: (List.range k).map (evalPt point delta)) ++ [evalPt point delta k]), ?_, ?_⟩
      · rw [jacBody_unfold f point delta jac _ k hkn]
        simp only [hd1, hc1, hj1, bind, Except.bind, pure, Except.pure]
      · refine ⟨rfl, by simp [List.range_succ], _, hj2, ?_⟩
        intro i c hi hc h1 h0
        by_cases hck : c = k
        · subst hck
          have hic : i < col.size := by rw [hc2, hd2]; exact hi
          have := hc3 i (by rw [hd2]; exact hi) hic
          simp only [Array.getElem_zipWith] at this
          rw [this]
          simp [hic]
        · simp only [hck, if_false]
          exact hE i c hi (by omega) h1 h0)
  obtain ⟨jac, state, tr⟩ := r
  obtain ⟨hs, ht, e, hI, hE⟩ := hP
  simp only at hs ht hI hE
  subst state ht
  exact ⟨jac, e, hr, hI, hE⟩

/-- **a size change in column `j` is the size panic, class (S)**: if `f` returns a vector of the
    length of `f point` at the perturbed points of the columns `< j`, a vector of a DIFFERENT
    length at the perturbed point of column `j < n`, and dividing by `delta` does not panic
    (always true of f64 / Complex<f64>; over a field: `delta ≠ 0`), then the call ends in the size
    panic of `fnew - f0`, `.error .size`.  `j = 0` is `C18.jacobian_rejects_size_change`. -/
theorem jacobian_rejects_size_change_at (f : Array E → Array E) (point : Array E) (delta : E)
    (j : Nat) (hj : j < point.size)
    (hdiv : 0 < (f point).size → ∀ a : E, ∃ q, divM a delta = .ok q)
    (hgood : ∀ i, i < j → (f (evalPt point delta i)).size = (f point).size)
    (hbad : (f (evalPt point delta j)).size ≠ (f point).size) :
    jacobian f point delta = .error .size := by
  obtain ⟨jac, e, hpre, _, _⟩ := jacobian_prefix f point delta j (Nat.le_of_lt hj) hdiv hgood
  have hbody : jacBody f point delta
      (jac, stateAt point delta j, point :: (List.range j).map (evalPt point delta)) j
        = .error .size := by
    rw [jacBody_unfold f point delta jac _ j hj]
    simp only [Vec.sub, bind, Except.bind]
    rw [if_pos hbad]
  rw [jacobian_eq, forM'_error_at_nw 0 j point.size _ _ _ .size (Nat.zero_le _) hj hpre hbody]
  rfl

/-- **shape, entries and call sequence under a LOCAL size hypothesis**: the statement of
    `C18.jacobian_entries`, with `f` required to return vectors of length `m` only at the `n + 1`
    points at which it is actually called (not at every vector of length `n`), and division by
    `delta` required not to panic only if there is something to divide (`m > 0`). -/
theorem jacobian_entries_local (f : Array E → Array E) (point : Array E) (delta : E)
    (hgood : ∀ j, j < point.size → (f (evalPt point delta j)).size = (f point).size)
    (hdiv : 0 < (f point).size → ∀ a : E, ∃ q, divM a delta = .ok q) :
    ∃ J, jacobian f point delta
        = .ok (J, point :: (List.range point.size).map (evalPt point delta)) ∧
      J.rows = (f point).size ∧ J.cols = point.size ∧ J.WF ∧
      ∀ i j (hi : i < (f point).size) (hj : j < point.size)
        (h1 : i < (f (evalPt point delta j)).size) (h0 : i < (f point).size),
        ∃ q, divM ((f (evalPt point delta j))[i] - (f point)[i]) delta = .ok q ∧
          J.get i j = .ok q := by
  obtain ⟨jac, e, hpre, hI, hE⟩ :=
    jacobian_prefix f point delta point.size (Nat.le_refl _) hdiv hgood
  refine ⟨jac, ?_, hI.rows, hI.cols, hI.wf, ?_⟩
  · rw [jacobian_eq, hpre]; rfl
  · intro i j hi hj h1 h0
    exact ⟨e i j, hE i j hi hj _ _, hI.entry i j hi hj⟩

/-- **evaluations before a panic of the Jacobian call**: a panicking call fails in a definite
    column `j < n`: the loop over the columns `< j` returned, having called `f` exactly at
    `point, x⁽¹⁾, …, x⁽ʲ⁾` (`j + 1` evaluations), and the body of column `j` panics — after at most
    one more evaluation.  So `f` is evaluated at most `j + 2 ≤ n + 1` times before the panic, the
    count of a returning call (`C17.jacobian_trace_length`). -/
theorem jacobian_panic_evals (f : Array E → Array E) (point : Array E) (delta : E) (e : Err)
    (h : jacobian f point delta = .error e) :
    ∃ j jac, j < point.size ∧
      Mat.forM' 0 j (jacInit f point) (jacBody f point delta)
        = .ok (jac, stateAt point delta j, point :: (List.range j).map (evalPt point delta)) ∧
      jacBody f point delta
        (jac, stateAt point delta j, point :: (List.range j).map (evalPt point delta)) j = .error e ∧
      (point :: (List.range j).map (evalPt point delta)).length + 1 ≤ point.size + 1 := by
  rw [jacobian_eq] at h
  cases hr : Mat.forM' 0 point.size (jacInit f point) (jacBody f point delta) with
  | ok r => rw [hr] at h; cases h
  | error e' =>
    rw [hr] at h
    cases h
    have hr' : Mat.forM' 0 (0 + point.size) (jacInit f point) (jacBody f point delta) = .error e := by
      rw [Nat.zero_add]; exact hr
    obtain ⟨j, s', _, hj, hpre, hbody⟩ := forM'_error_split_nw _ e point.size 0 _ hr'
    rw [Nat.zero_add] at hj
    obtain ⟨jac, state, tr⟩ := s'
    have := C17.forM'_inv_of_ok
      (fun k (s : Mat E × Array E × List (Array E)) =>
        s.2.1 = stateAt point delta k ∧
        s.2.2 = point :: (List.range k).map (evalPt point delta))
      (jacBody f point delta) (j - 0) 0 (jacInit f point) _ ⟨rfl, rfl⟩ (by
        rintro i ⟨jac, state, tr⟩ ⟨jac', state', tr'⟩ _ hi ⟨hs, ht⟩ hb
        simp only at hs ht
        subst state ht
        obtain ⟨a, b, c⟩ := jacBody_ok f point delta jac jac' _ tr' state' i (by omega) hb
        exact ⟨b, by simp [c, List.range_succ]⟩) hpre
    simp only [Nat.sub_zero, Nat.zero_add] at this
    obtain ⟨hs, ht⟩ := this
    subst state ht
    exact ⟨j, jac, hj, hpre, hbody, by simp; omega⟩

end S

/-! ### exact arithmetic -/
section Field
variable {K : Type} [Field K] [LinearOrder K]
attribute [local instance] Ohsl.Alg.scalarExt

theorem hdiv_of_ne {delta : K} (hd : delta ≠ 0) : ∀ a : K, ∃ q, divM a delta = .ok q :=
  fun a => ⟨a / delta, Alg.divM_ne hd⟩

/-- **entries over a field, `delta ≠ 0` only** (the hypothesis `hdiv` of `C18.jacobian_shape` /
    `C18.jacobian_entries` discharged): if `f` returns vectors of the length `m` of `f point` at
    the `n` perturbed points `point + δ e_j`, the call returns a well-formed `m × n` matrix, `f`
    was called at `point, point + δ e_0, …, point + δ e_{n-1}` in this order, and entry `(i, j)` is
    the field quotient `((f (point + δ e_j))[i] − (f point)[i]) / δ`. -/
theorem jacobian_entries_field (f : Array K → Array K) (point : Array K) (delta : K)
    (hd : delta ≠ 0)
    (hgood : ∀ j, j < point.size →
      (f (point.modify j (fun p => p + delta))).size = (f point).size) :
    ∃ J, jacobian f point delta
        = .ok (J, point :: (List.range point.size).map
            (fun j => point.modify j (fun p => p + delta))) ∧
      J.rows = (f point).size ∧ J.cols = point.size ∧ J.WF ∧
      ∀ i j (hi : i < (f point).size) (hj : j < point.size)
        (h1 : i < (f (point.modify j (fun p => p + delta))).size),
        J.get i j = .ok (((f (point.modify j (fun p => p + delta)))[i] - (f point)[i]) / delta) := by
  have e : evalPt point delta = fun j => point.modify j (fun p => p + delta) :=
    funext (evalPt_exact point delta)
  obtain ⟨J, h1, h2, h3, h4, h5⟩ := jacobian_entries_local f point delta
    (by rw [e]; exact hgood) (fun _ => hdiv_of_ne hd)
  rw [e] at h1 h5
  refine ⟨J, h1, h2, h3, h4, ?_⟩
  intro i j hi hj h1'
  obtain ⟨q, hq1, hq2⟩ := h5 i j hi hj h1' hi
  rw [Alg.divM_ne hd] at hq1
  cases hq1
  exact hq2

/-- the same for a map of constant output size `m` (the form of `C18.jacobian_entries`) -/
theorem jacobian_entries_field_const (f : Array K → Array K) (point : Array K) (delta : K) (m : Nat)
    (hd : delta ≠ 0) (hf : ∀ x : Array K, x.size = point.size → (f x).size = m) :
    ∃ J, jacobian f point delta
        = .ok (J, point :: (List.range point.size).map
            (fun j => point.modify j (fun p => p + delta))) ∧
      J.rows = m ∧ J.cols = point.size ∧ J.WF ∧
      ∀ i j (hi : i < m) (hj : j < point.size)
        (h1 : i < (f (point.modify j (fun p => p + delta))).size) (h0 : i < (f point).size),
        J.get i j = .ok (((f (point.modify j (fun p => p + delta)))[i] - (f point)[i]) / delta) := by
  have hm : (f point).size = m := hf point rfl
  obtain ⟨J, h1, h2, h3, h4, h5⟩ := jacobian_entries_field f point delta hd
    (fun j _ => by rw [hf _ (by simp), hm])
  exact ⟨J, h1, by rw [h2, hm], h3, h4, fun i j hi hj h1' h0 => h5 i j (by rw [hm]; exact hi) hj h1'⟩

/-- **a size change in column `j` over a field**: `delta ≠ 0`, the right length at
    `point + δ e_i` for `i < j`, a different length at `point + δ e_j` (`j < n`): `.error .size` -/
theorem jacobian_rejects_size_change_field (f : Array K → Array K) (point : Array K) (delta : K)
    (hd : delta ≠ 0) (j : Nat) (hj : j < point.size)
    (hgood : ∀ i, i < j → (f (point.modify i (fun p => p + delta))).size = (f point).size)
    (hbad : (f (point.modify j (fun p => p + delta))).size ≠ (f point).size) :
    jacobian f point delta = .error .size := by
  have e : evalPt point delta = fun j => point.modify j (fun p => p + delta) :=
    funext (evalPt_exact point delta)
  exact jacobian_rejects_size_change_at f point delta j hj (fun _ => hdiv_of_ne hd)
    (by rw [e]; exact hgood) (by rw [e]; exact hbad)

/-- dividing a non-empty vector by an exact zero panics -/
theorem sdiv_zero_error (v : Array K) (hv : 0 < v.size) : Vec.sdiv v (0 : K) = .error .arith := by
  unfold Vec.sdiv
  rw [Array.mapM_eq_mapM_toList]
  obtain ⟨l, rfl⟩ : ∃ l, v = l.toArray := ⟨v.toList, by simp⟩
  cases l with
  | nil => simp at hv
  | cons a l =>
    simp only [List.mapM_cons, Alg.divM_zero, bind, Except.bind]
    rfl

/-- adding an exact zero does not move the point -/
theorem modify_add_zero' (x : Array K) (j : Nat) : x.modify j (fun p => p + (0 : K)) = x := by
  apply Array.ext
  · simp
  · intro i h1 h2
    simp only [Array.getElem_modify]
    split <;> simp

/-- **`delta = 0` is rejected, class (E)**: with an exact zero step, a non-empty point (`n > 0`)
    and a non-empty `f point` the call ends in the arithmetic panic of the division by `delta`
    in column 0, `.error .arith` — for EVERY `f` (the perturbed point of column 0 is `point`
    itself, so the size check before the division passes).  If `n = 0` or `f point` is empty
    nothing is divided: `jacobian_delta_zero_empty`, `jacobian_ok_iff_field`. -/
theorem jacobian_delta_zero_rejects (f : Array K → Array K) (point : Array K)
    (hn : 0 < point.size) (hm : 0 < (f point).size) :
    jacobian f point (0 : K) = .error .arith := by
  have hev : evalPt point (0 : K) 0 = point := by
    rw [evalPt_exact, modify_add_zero']
  have hbody : jacBody f point (0 : K) (jacInit f point) 0 = .error .arith := by
    show jacBody f point (0 : K) (_, stateAt point 0 0, _) 0 = _
    rw [jacBody_unfold f point 0 _ _ 0 hn, hev]
    simp only [Vec.sub, ne_eq, not_true_eq_false, if_false, bind, Except.bind]
    rw [sdiv_zero_error _ (by simpa using hm)]
  rw [jacobian_eq, forM'_first_error 0 point.size _ _ .arith hn hbody]
  rfl

/-- with an empty point there is no column: the call returns the `m × 0` matrix after the single
    evaluation `f point`, whatever `delta` (also `delta = 0`) -/
theorem jacobian_delta_zero_empty (f : Array K → Array K) (point : Array K) (delta : K)
    (hn : point.size = 0) :
    jacobian f point delta = .ok (Mat.new (f point).size point.size 0, [point]) := by
  rw [jacobian_eq, forM'_empty 0 point.size _ _ (by omega)]
  rfl

/-- **when the call returns, class (E)**: over a linearly ordered field `jacobian f point delta`
    returns a value IF AND ONLY IF `f` returns a vector of the length of `f point` at every
    perturbed point `point + δ e_j` (`j < n`) and either `delta ≠ 0` or there is nothing to divide
    (`n = 0`, or `f point` is empty).  Otherwise it panics. -/
theorem jacobian_ok_iff_field (f : Array K → Array K) (point : Array K) (delta : K) :
    (∃ J tr, jacobian f point delta = .ok (J, tr)) ↔
      (∀ j, j < point.size → (f (point.modify j (fun p => p + delta))).size = (f point).size) ∧
      (delta ≠ 0 ∨ point.size = 0 ∨ (f point).size = 0) := by
  have e : evalPt point delta = fun j => point.modify j (fun p => p + delta) :=
    funext (evalPt_exact point delta)
  constructor
  · rintro ⟨J, tr, h⟩
    obtain ⟨_, hs⟩ := jacobian_ok_calls f point delta J tr h
    rw [e] at hs
    refine ⟨hs, ?_⟩
    by_contra hc
    simp only [not_or, not_not] at hc
    obtain ⟨h0, hn, hm⟩ := hc
    subst h0
    rw [jacobian_delta_zero_rejects f point (by omega) (by omega)] at h
    cases h
  · rintro ⟨hs, hc⟩
    by_cases hn : point.size = 0
    · exact ⟨_, _, jacobian_delta_zero_empty f point delta hn⟩
    · have hdiv : 0 < (f point).size → ∀ a : K, ∃ q, divM a delta = .ok q := by
        intro hm
        rcases hc with hd | h0 | hm0
        · exact hdiv_of_ne hd
        · exact absurd h0 hn
        · omega
      obtain ⟨J, h1, _⟩ := jacobian_entries_local f point delta (by rw [e]; exact hs) hdiv
      exact ⟨J, _, h1⟩

end Field

/-! ### examples (non-vacuity) -/
section Examples
attribute [local instance] Ohsl.Alg.scalarExt

/-- a map `ℚ³ → ℚ²` that returns a vector of length 3 exactly when its LAST coordinate has been
    moved off 0: the size change happens in column `j = 2`, columns 0 and 1 are fine -/
def exJ (x : Array ℚ) : Array ℚ :=
  if x.getD 2 0 = 0 then #[x.getD 0 0 + x.getD 1 0, x.getD 0 0 * x.getD 1 0]
  else #[x.getD 0 0, x.getD 1 0, x.getD 2 0]

/-- the hypotheses of `jacobian_rejects_size_change_field` at `j = 2` hold for `exJ` at
    `(1, 2, 0)` with `δ = 1/2` — and the call is the size panic -/
example : jacobian exJ #[1, 2, 0] (1 / 2 : ℚ) = .error .size := by
  apply jacobian_rejects_size_change_field exJ #[1, 2, 0] (1 / 2) (by norm_num) 2 (by decide)
  · intro i hi
    have : i = 0 ∨ i = 1 := by omega
    rcases this with rfl | rfl <;> decide +kernel
  · decide +kernel

/-- `jacobian_entries_field`: `f (x, y) = (x·y, x + y, x)` at `(3, 5)`, `δ = 1/4` — a 3 × 2 result -/
example : ∃ J : Mat ℚ, ∃ tr,
    jacobian (fun x => #[x.getD 0 0 * x.getD 1 0, x.getD 0 0 + x.getD 1 0, x.getD 0 0])
      #[3, 5] (1 / 4 : ℚ) = .ok (J, tr) ∧ J.rows = 3 ∧ J.cols = 2 ∧ J.get 0 1 = .ok 3 := by
  obtain ⟨J, h1, h2, h3, _, h5⟩ := jacobian_entries_field_const
    (fun x : Array ℚ => #[x.getD 0 0 * x.getD 1 0, x.getD 0 0 + x.getD 1 0, x.getD 0 0])
    #[3, 5] (1 / 4 : ℚ) 3 (by norm_num) (fun _ _ => rfl)
  refine ⟨J, _, h1, h2, h3, ?_⟩
  rw [h5 0 1 (by decide) (by decide) (by decide) (by decide)]
  congr 1
  decide +kernel

/-- `jacobian_delta_zero_rejects` applies to every map with a non-empty value -/
example : jacobian (fun x : Array ℚ => #[x.getD 0 0 * x.getD 0 0]) #[7] (0 : ℚ) = .error .arith :=
  jacobian_delta_zero_rejects _ _ (by decide) (by decide)

end Examples

end Ohsl.Props.C18
