/-
  Property C02 (continued) — `lu_decomp_in_place`, `determinant()` and `inverse()` against exact
  linear algebra for EVERY exact element type, complex scalars included.
  Model: Ohsl/Model/Solve.lean; lemmas: Ohsl/Lemmas/LUDet.lean (generic in `Alg.PivotLaws`),
  Ohsl/Lemmas/CxField.lean (the complex instance).  See the header of Ohsl/Props/C01X.lean.

  Generic theorems (`…_gen`): `K` any field with ANY `ScalarExt K` / lawful `BEq K` satisfying
  `Alg.PivotLaws K` (`divM` = guarded field division; `lt (mag a) (mag b)` compares a size in a
  linear order, least exactly at 0).  C02D is the instance `Alg.pivotLaws` (ordered field, `|·|`).

  Complex theorems (`…_cx`): matrices over the model's `Cx ℝ` with the model's own instances
  (`mag z = |z| + 0i`, lexicographic `<`, `Cx.div`, `Cx.beq`).  Determinants, products and the
  identity matrix are Mathlib's over ℂ, through `toC : Cx ℝ → ℂ`:
  `toCMat n a = Matrix.of fun i j : Fin n => toC (a i j)`, `detC n a = Matrix.det (toCMat n a)`.
-/
import Ohsl.Props.C02D
import Ohsl.Props.C01X
import Ohsl.Lemmas.CxField
set_option linter.unusedSectionVars false
set_option linter.unusedVariables false
set_option linter.unusedSimpArgs false
namespace Ohsl.Props.C02
open Ohsl Ohsl.Mat

/-! ### generic in the pivot laws -/
section Gen
variable {K : Type} [Field K] [BEq K] [LawfulBEq K] [ScalarExt K] [DecidableEq K]
  [Alg.PivotLaws K]

/-- the in-place LU factorisation with partial pivoting never fails on a well-formed square
    matrix and returns well-formed `n × n` factors and permutation -/
theorem luDecomp_total_gen {A : Mat K} {n : Nat} {a : Nat → Nat → K} (h : Mat.Is A n n a) :
    ∃ s, luDecomp A = .ok s ∧ s.lu.WF ∧ s.lu.rows = n ∧ s.lu.cols = n ∧
      s.perm.WF ∧ s.perm.rows = n ∧ s.perm.cols = n := by
  obtain ⟨s, w, pe, hs, hw, hpe, _⟩ := luDecomp_det h
  exact ⟨s, hs, hw.wf, hw.rows, hw.cols, hpe.wf, hpe.rows, hpe.cols⟩

/-- **`lu_decomp_in_place` factorises**: `P·A = L·U`, `det P = (-1)^pivots`,
    `det U = (-1)^pivots · det A` (`L = Mat.Lfn w` unit lower, `U = Mat.Umat n n w`). -/
theorem luDecomp_correct_gen {A : Mat K} {n : Nat} {a : Nat → Nat → K} (h : Mat.Is A n n a) :
    ∃ (s : LU K) (w pe : Nat → Nat → K), luDecomp A = .ok s ∧ Mat.Is s.lu n n w ∧
      Mat.Is s.perm n n pe ∧
      Mat.toMat n pe * Mat.toMat n a = Mat.toMat n (Mat.Lfn w) * Mat.Umat n n w ∧
      Matrix.det (Mat.toMat n pe) = (-1) ^ s.pivots ∧
      Matrix.det (Mat.Umat n n w) = (-1) ^ s.pivots * Matrix.det (Mat.toMat n a) := by
  obtain ⟨s, w, pe, hs, hw, hpe, hdU, hdP, hLU⟩ := Mat.luDecomp_spec_det h
  exact ⟨s, w, pe, hs, hw, hpe, (Mat.LU_eq_PA hLU).symm, hdP, hdU⟩

/-- **`determinant()` computes the determinant** on every well-formed square matrix, singular
    ones included -/
theorem determinant_spec_gen {A : Mat K} {n : Nat} {a : Nat → Nat → K} (h : Mat.Is A n n a) :
    Mat.determinant A = .ok (Matrix.det (Matrix.of fun (i j : Fin n) => a i.val j.val)) := by
  obtain ⟨s, w, pe, hs, hw, hpe, hdet⟩ := luDecomp_det h
  unfold determinant
  simp only [hs, bind, Except.bind, h.rows]
  obtain ⟨d, hd, hP⟩ := forM'_inv (fun i (d : K) => d = ∏ k ∈ Finset.range i, w k k) 0 n (1 : K)
    (fun d i => do
      let x ← s.lu.get i i
      pure (d * x)) (Nat.zero_le _) (by simp)
    (by
      intro i d _ hi hd
      refine ⟨d * w i i, by simp only [hw.get hi hi, bind, Except.bind, pure, Except.pure], ?_⟩
      rw [Finset.prod_range_succ, hd])
  have hd' := hd
  simp only [bind, Except.bind, pure, Except.pure] at hd' ⊢
  rw [hd']
  simp only []
  congr 1
  rw [det_Umat_full, ← hP] at hdet
  by_cases hpar : s.pivots % 2 = 0
  · have : (s.pivots % 2 == 0) = true := by simpa using hpar
    rw [this, if_pos rfl]
    rw [Even.neg_one_pow (Nat.even_iff.mpr hpar), one_mul] at hdet
    exact hdet
  · have : (s.pivots % 2 == 0) = false := by simpa using hpar
    rw [this]
    simp only [Bool.false_eq_true, if_false]
    rw [Odd.neg_one_pow (Nat.odd_iff.mpr (by omega)), neg_one_mul] at hdet
    rw [hdet, neg_neg]

/-- MAIN THEOREM, any exact element type: `determinant` returns a value, and that value is the
    determinant -/
theorem determinant_correct_gen {A : Mat K} {n : Nat} {a : Nat → Nat → K} (h : Mat.Is A n n a) :
    ∃ d, Mat.determinant A = .ok d ∧
      d = Matrix.det (Matrix.of fun (i j : Fin n) => a i.val j.val) :=
  ⟨_, determinant_spec_gen h, rfl⟩

/-- a singular matrix is not an error: the result is exactly 0 -/
theorem determinant_singular_gen {A : Mat K} {n : Nat} {a : Nat → Nat → K} (h : Mat.Is A n n a)
    (hs : Matrix.det (Matrix.of fun (i j : Fin n) => a i.val j.val) = 0) :
    Mat.determinant A = .ok 0 := by
  rw [determinant_spec_gen h, hs]

/-- **`inverse()` computes the inverse**: `det A ≠ 0 → inverse A = .ok B`, `A·B = 1`, `B·A = 1` -/
theorem inverse_correct_gen {A : Mat K} {n : Nat} {a : Nat → Nat → K} (h : Mat.Is A n n a)
    (hdet : Matrix.det (Mat.toMat n a) ≠ 0) :
    ∃ (B : Mat K) (b : Nat → Nat → K), Mat.inverse A = .ok B ∧ Mat.Is B n n b ∧
      Mat.toMat n a * Mat.toMat n b = 1 ∧ Mat.toMat n b * Mat.toMat n a = 1 := by
  obtain ⟨B, b, hB, hb, hAB⟩ := Mat.inverse_spec h hdet
  exact ⟨B, b, hB, hb, hAB, mul_eq_one_comm.mp hAB⟩

/-- a singular matrix is refused with a division by an exact zero -/
theorem inverse_singular_rejects_gen {A : Mat K} {n : Nat} {a : Nat → Nat → K}
    (h : Mat.Is A n n a) (hdet : Matrix.det (Mat.toMat n a) = 0) :
    Mat.inverse A = .error .arith :=
  Mat.inverse_singular h hdet

/-- `inverse` returns a value exactly on the non-singular matrices -/
theorem inverse_ok_iff_gen {A : Mat K} {n : Nat} {a : Nat → Nat → K} (h : Mat.Is A n n a) :
    (∃ B, Mat.inverse A = .ok B) ↔ Matrix.det (Mat.toMat n a) ≠ 0 := by
  constructor
  · rintro ⟨B, hB⟩ hdet
    rw [inverse_singular_rejects_gen h hdet] at hB
    cases hB
  · intro hdet
    obtain ⟨B, _, hB, _⟩ := inverse_correct_gen h hdet
    exact ⟨B, hB⟩

/-- the returned matrix is Mathlib's `A⁻¹` -/
theorem inverse_eq_inv_gen {A : Mat K} {n : Nat} {a : Nat → Nat → K} (h : Mat.Is A n n a)
    (hdet : Matrix.det (Mat.toMat n a) ≠ 0) :
    ∃ (B : Mat K) (b : Nat → Nat → K), Mat.inverse A = .ok B ∧ Mat.Is B n n b ∧
      Mat.toMat n b = (Mat.toMat n a)⁻¹ := by
  obtain ⟨B, b, hB, hb, h1, _⟩ := inverse_correct_gen h hdet
  exact ⟨B, b, hB, hb, (Matrix.inv_eq_right_inv h1).symm⟩

end Gen

/-! ### the instance of C02D: a linearly ordered field with `Alg.scalarExt` -/
section Ordered
variable {K : Type} [Field K] [LinearOrder K] [IsStrictOrderedRing K]
attribute [local instance] Alg.scalarExt

/-- `determinant_spec` of C02D is the instance `Alg.pivotLaws` of `determinant_spec_gen` -/
example {A : Mat K} {n : Nat} {a : Nat → Nat → K} (h : Mat.Is A n n a) :
    Mat.determinant A = .ok (Matrix.det (Matrix.of fun (i j : Fin n) => a i.val j.val)) :=
  determinant_spec_gen h

end Ordered

/-! ### complex scalars: the model's `Cx ℝ` with its own instances -/
section Complex
open Ohsl.RealI Ohsl.CxField Ohsl.Props.C13 Ohsl.Props.C14 Ohsl.Props.C01

variable {n : Nat} {A : Mat (Cx ℝ)} {a : Nat → Nat → Cx ℝ}

/-- the unit lower factor stored in place, as a complex matrix -/
noncomputable def LC (n : Nat) (w : Nat → Nat → Cx ℝ) : Matrix (Fin n) (Fin n) ℂ :=
  Matrix.of fun r k => if k.val < r.val then toC (w r.val k.val) else if k = r then 1 else 0

/-- the upper factor stored in place, as a complex matrix -/
noncomputable def UC (n : Nat) (w : Nat → Nat → Cx ℝ) : Matrix (Fin n) (Fin n) ℂ :=
  Matrix.of fun r c => if c.val < r.val then 0 else toC (w r.val c.val)

/-- **the complex LU factorisation never fails and factorises**: with `w` the in-place result,
    `pe` the recorded permutation matrix: `P·A = L·U`, `det P = (-1)^pivots`,
    `det U = (-1)^pivots · det A`, all over ℂ. -/
theorem luDecomp_correct_cx (h : Mat.Is A n n a) :
    ∃ (s : LU (Cx ℝ)) (w pe : Nat → Nat → Cx ℝ), luDecomp A = .ok s ∧ Mat.Is s.lu n n w ∧
      Mat.Is s.perm n n pe ∧
      toCMat n pe * toCMat n a = LC n w * UC n w ∧
      Matrix.det (toCMat n pe) = (-1) ^ s.pivots ∧
      Matrix.det (UC n w) = (-1) ^ s.pivots * detC n a := by
  obtain ⟨s, w, pe, hs, hw, hpe, hPA, hdP, hdU⟩ :=
    @luDecomp_correct_gen (Cx ℝ) CxField.field _ _ _ (Classical.decEq _) _ A n a h
  let _ := CxField.field
  have hL : toCHom.mapMatrix (Mat.toMat n (Mat.Lfn w)) = LC n w := by
    ext r k
    simp only [RingHom.mapMatrix_apply, Matrix.map_apply, Mat.toMat, Matrix.of_apply, Mat.Lfn, LC]
    by_cases h1 : k.val < r.val
    · simp only [h1, if_true]; rfl
    · by_cases h2 : k = r
      · subst h2; simp only [Nat.lt_irrefl, if_false, if_true]; exact toC_one
      · have h3 : ¬ k.val = r.val := fun e => h2 (Fin.ext e)
        simp only [h1, h2, h3, if_false]; exact toC_zero
  have hU : toCHom.mapMatrix (Mat.Umat n n w) = UC n w := by
    ext r c
    simp only [RingHom.mapMatrix_apply, Matrix.map_apply, Mat.Umat, Matrix.of_apply, UC]
    by_cases h1 : c.val < r.val
    · simp only [h1, c.isLt, and_self, if_true]; exact toC_zero
    · simp only [h1, and_false, if_false]; rfl
  refine ⟨s, w, pe, hs, hw, hpe, ?_, ?_, ?_⟩
  · have := congrArg toCHom.mapMatrix hPA
    rw [map_mul, map_mul, hL, hU] at this
    exact this
  · have := congrArg toCHom hdP
    rw [RingHom.map_det, map_pow, map_neg, map_one] at this
    exact this
  · have := congrArg toCHom hdU
    rw [RingHom.map_det, map_mul, map_pow, map_neg, map_one, hU, RingHom.map_det] at this
    exact this

/-- **complex `determinant()` computes the determinant**: on every well-formed square complex
    matrix — singular ones included — the call returns `d` with `toC d = det A` (over ℂ). -/
theorem determinant_correct_cx (h : Mat.Is A n n a) :
    ∃ d, Mat.determinant A = .ok d ∧ toC d = detC n a := by
  refine ⟨_, @determinant_spec_gen (Cx ℝ) CxField.field _ _ _ (Classical.decEq _) _ A n a h, ?_⟩
  exact (CxField.det_toC n a).symm

/-- soundness alone: any value returned by the complex `determinant` is the determinant -/
theorem determinant_sound_cx (h : Mat.Is A n n a) (d : Cx ℝ) (hd : Mat.determinant A = .ok d) :
    toC d = detC n a := by
  obtain ⟨d', hd', e⟩ := determinant_correct_cx h
  rw [hd] at hd'
  cases hd'
  exact e

/-- a singular complex matrix is not an error: the result is exactly `0` -/
theorem determinant_singular_cx (h : Mat.Is A n n a) (hs : detC n a = 0) :
    Mat.determinant A = .ok 0 := by
  obtain ⟨d, hd, e⟩ := determinant_correct_cx h
  rw [hs] at e
  rw [hd, toC_eq_zero.mp e]

/-- **complex `inverse()` computes the inverse**: `det A ≠ 0` (over ℂ) ⇒ the call returns a
    well-formed `n × n` matrix `B` with `A·B = 1` and `B·A = 1` over ℂ. -/
theorem inverse_correct_cx (h : Mat.Is A n n a) (hdet : detC n a ≠ 0) :
    ∃ (B : Mat (Cx ℝ)) (b : Nat → Nat → Cx ℝ), Mat.inverse A = .ok B ∧ Mat.Is B n n b ∧
      toCMat n a * toCMat n b = 1 ∧ toCMat n b * toCMat n a = 1 := by
  obtain ⟨B, b, hB, hb, h1, h2⟩ :=
    @inverse_correct_gen (Cx ℝ) CxField.field _ _ _ (Classical.decEq _) _ A n a h
      ((CxField.det_ne_zero_iff n a).2 hdet)
  let _ := CxField.field
  refine ⟨B, b, hB, hb, ?_, ?_⟩
  · have := congrArg toCHom.mapMatrix h1
    rw [map_mul, map_one] at this
    exact this
  · have := congrArg toCHom.mapMatrix h2
    rw [map_mul, map_one] at this
    exact this

/-- a singular complex matrix is refused with a division by an exact zero -/
theorem inverse_singular_rejects_cx (h : Mat.Is A n n a) (hdet : detC n a = 0) :
    Mat.inverse A = .error .arith := by
  refine @inverse_singular_rejects_gen (Cx ℝ) CxField.field _ _ _ (Classical.decEq _) _ A n a h ?_
  by_contra hne
  exact (CxField.det_ne_zero_iff n a).1 hne hdet

/-- complex `inverse` returns a value exactly on the non-singular matrices -/
theorem inverse_ok_iff_cx (h : Mat.Is A n n a) :
    (∃ B, Mat.inverse A = .ok B) ↔ detC n a ≠ 0 := by
  constructor
  · rintro ⟨B, hB⟩ hdet
    rw [inverse_singular_rejects_cx h hdet] at hB
    cases hB
  · intro hdet
    obtain ⟨B, _, hB, _⟩ := inverse_correct_cx h hdet
    exact ⟨B, hB⟩

end Complex

/-! ### examples over `Cx ℝ`: `exA = [[0, 1], [i, 1]]` (zero first pivot candidate, exchange decided
    by the modulus, `det = -i`), `exS = [[1, i], [i, -1]]` (singular) -/
section Examples
open Ohsl.RealI Ohsl.CxField Ohsl.Props.C13 Ohsl.Props.C14 Ohsl.Props.C01

/-- one exchange: the returned determinant is `-i` (sign `-1` times the product `i · 1`) -/
example : ∃ d, Mat.determinant exA = .ok d ∧ toC d = -Complex.I := by
  obtain ⟨d, hd, e⟩ := determinant_correct_cx exA_is
  refine ⟨d, hd, ?_⟩
  rw [e]
  unfold detC
  rw [Matrix.det_fin_two]
  simp [Mat.ent, exA, toC, Complex.ext_iff]

example : ∃ B, Mat.inverse exA = .ok B := (inverse_ok_iff_cx exA_is).2 exA_det

example : Mat.determinant exS = .ok 0 ∧ Mat.inverse exS = .error .arith :=
  ⟨determinant_singular_cx exS_is exS_det, inverse_singular_rejects_cx exS_is exS_det⟩

end Examples
end Ohsl.Props.C02
