/-
  Property C04 (part D) — the determinant of a banded matrix equals the determinant of its dense
  twin (model: Ohsl/Model/Banded.lean, lemmas: Ohsl/Lemmas/BandSpec.lean, Ohsl/Lemmas/BandDet.lean).

  Class (E): `F` a linearly ordered field (`[Field F] [LinearOrder F] [IsStrictOrderedRing F]`; the
  compatibility of order and arithmetic is needed because the pivot is chosen by MAGNITUDE: a zero
  pivot must mean that the whole column is zero inside the search window), scalar interpretation
  `Ohsl.Alg.scalarExt`.

  `Band.det` runs the compact LU `bandec` (left shift of the first `m1` rows, then for each column a
  pivot search by magnitude inside the band, a row exchange that flips the sign `d`, and the
  elimination that shifts each row of the window one slot to the left) and multiplies the sign with
  the first slots of the upper factor.  The proof simulates every step on the dense twin `twin` of
  the compact working storage and keeps `d * det (twin) = det (dense b)`.

  * `det_correct`        `det b = .ok (Matrix.det (dense twin))` for every well-formed `b`, `m1 ≤ n`
  * `det_total`, `det_sound`, `det_ok_iff`
  * `det_singular_iff`, `det_zero_iff_kernel`, `det_ne_zero_solvable`
  * `det_padding_exact`  two banded storages (possibly of DIFFERENT band widths) with the same dense
                         twin have the same determinant
-/
import Ohsl.Props.C04B
import Ohsl.Lemmas.BandDet
import Mathlib.LinearAlgebra.Matrix.NonsingularInverse
import Mathlib.LinearAlgebra.Matrix.ToLinearEquiv
import Mathlib.Algebra.Order.Field.Rat
import Mathlib.Tactic.NormNum
set_option linter.unusedSectionVars false
set_option linter.unusedVariables false
namespace Ohsl.Props.C04
open Ohsl Ohsl.Band

section DetFull
variable {F : Type} [Field F] [LinearOrder F] [IsStrictOrderedRing F]
attribute [local instance] Ohsl.Alg.scalarExt

/-- (E) **the determinant of a banded matrix is the determinant of its dense twin.**  For every
    well-formed banded matrix (any `n`, `n = 0` included, any `m2`, any `m1 ≤ n`; padding slots
    arbitrary) `det` succeeds and returns `Matrix.det` of the `n × n` matrix `dense b`.  Singular
    matrices are included: a zero pivot suppresses the elimination of that column and the result is
    exactly `0`. -/
theorem det_correct {b : Band F} (h : WFb b) (hm : b.m1 ≤ b.n) :
    Band.det b = .ok (Matrix.det (Matrix.of (fun (i j : Fin b.n) => dense b i j))) :=
  Band.det_eq_det h hm

/-- (E) totality: over a linearly ordered field `det` never fails when `m1 ≤ n` -/
theorem det_total {b : Band F} (h : WFb b) (hm : b.m1 ≤ b.n) : ∃ δ, Band.det b = .ok δ :=
  ⟨_, det_correct h hm⟩

/-- (E) soundness without any side condition on the shape: every value returned by `det` is the
    determinant of the dense twin (for `m1 > n` nothing is returned: `decompose_rejects`) -/
theorem det_sound {b : Band F} (h : WFb b) {δ : F} (hd : Band.det b = .ok δ) :
    δ = Matrix.det (Matrix.of (fun (i j : Fin b.n) => dense b i j)) := by
  by_cases hm : b.m1 ≤ b.n
  · rw [det_correct h hm] at hd
    injection hd with hd
    exact hd.symm
  · rw [Band.det_rejects h (by omega)] at hd
    cases hd

/-- (E) `det` returns a value exactly for the shapes with `m1 ≤ n` -/
theorem det_ok_iff {b : Band F} (h : WFb b) : (∃ δ, Band.det b = .ok δ) ↔ b.m1 ≤ b.n := by
  constructor
  · rintro ⟨δ, hd⟩
    by_contra hm
    rw [Band.det_rejects h (by omega)] at hd
    cases hd
  · exact det_total h

/-- (E) the computed determinant vanishes exactly when the dense twin is singular (not invertible) -/
theorem det_singular_iff {b : Band F} (h : WFb b) {δ : F} (hd : Band.det b = .ok δ) :
    δ = 0 ↔ ¬ IsUnit (Matrix.of (fun (i j : Fin b.n) => dense b i j)) := by
  rw [det_sound h hd, Matrix.isUnit_iff_isUnit_det, isUnit_iff_ne_zero, not_not]

/-- (E) the computed determinant vanishes exactly when the dense twin has a non-trivial kernel -/
theorem det_zero_iff_kernel {b : Band F} (h : WFb b) {δ : F} (hd : Band.det b = .ok δ) :
    δ = 0 ↔ ∃ v : Fin b.n → F, v ≠ 0 ∧
      Matrix.mulVec (Matrix.of (fun (i j : Fin b.n) => dense b i j)) v = 0 := by
  rw [det_sound h hd]
  exact Matrix.exists_mulVec_eq_zero_iff.symm

/-- (E) if the dense twin has a non-zero determinant, `solve` succeeds for every right-hand side of
    length `n` and returns a solution of the dense system -/
theorem det_ne_zero_solvable {b : Band F} (h : WFb b) (hm : b.m1 ≤ b.n)
    (hdet : Matrix.det (Matrix.of (fun (i j : Fin b.n) => dense b i j)) ≠ 0) {rhs : Array F}
    (hr : rhs.size = b.n) :
    ∃ x, solve b rhs = .ok x ∧ x.size = b.n ∧ ∀ i, i < b.n →
      ∑ j ∈ Finset.range b.n, dense b i j * x[j]?.getD 0 = rhs[i]?.getD 0 :=
  solve_complete h hr (det_correct h hm) hdet

/-- (E) **the determinant depends on the dense twin only**: two well-formed banded storages of the
    same order — the band widths `(m1, m2)` may DIFFER, and so may all padding slots — whose dense
    twins agree have the same determinant.  (`det_padding` of C04B is the structural statement for
    equal shapes; this one needs exact arithmetic.) -/
theorem det_padding_exact {a b : Band F} (ha : WFb a) (hb : WFb b) (hn : a.n = b.n)
    (hma : a.m1 ≤ a.n) (hmb : b.m1 ≤ b.n)
    (hag : ∀ i j, i < a.n → j < a.n → dense a i j = dense b i j) :
    Band.det a = Band.det b := by
  rw [det_correct ha hma, det_correct hb hmb]
  obtain ⟨n, m1, m2, ca⟩ := a
  obtain ⟨n', m1', m2', cb⟩ := b
  simp only at hn
  subst hn
  congr 2
  ext i j
  exact hag i.val j.val i.isLt j.isLt

end DetFull

section ExampleD
attribute [local instance] Ohsl.Alg.scalarExt

/-- non-vacuity: the `3 × 3` tridiagonal matrix `[[1,2,0],[3,4,1],[0,1,1]]` of C04B (`m1 = m2 = 1`,
    garbage `7` in the padding slots) is well formed, `m1 ≤ n`, the pivot steps 0 and 1 both EXCHANGE
    rows (recorded 1-based indices `2` and `3`, so the final sign is `d = 1`), and `det` returns `-3` -/
example : WFb exBand ∧ exBand.m1 ≤ exBand.n ∧ Band.det exBand = .ok (-3) ∧
    (do let s ← decompose exBand; pure (s.index, s.d) : Res (Array Nat × ℚ)) = .ok (#[2, 3, 3], 1) := by
  refine ⟨⟨_, Mat.Is.of_wf (by unfold Mat.WF; rfl)⟩, by decide, by decide +kernel, by decide +kernel⟩

/-- the value `-3` is the Mathlib determinant of the dense twin -/
example : Matrix.det (Matrix.of (fun (i j : Fin exBand.n) => dense exBand i j)) = -3 := by
  have h := det_correct (F := ℚ) (b := exBand) ⟨_, Mat.Is.of_wf (by unfold Mat.WF; rfl)⟩ (by decide)
  have h' : Band.det exBand = .ok (-3) := by decide +kernel
  rw [h'] at h
  injection h with h
  exact h.symm

/-- a singular banded matrix with a zero pivot in the first column:
    dense `[[0,1,0],[0,1,1],[0,0,1]]`, padding `7` -/
def exBandSing : Band ℚ := ⟨3, 1, 1, ⟨#[7, 0, 1, 0, 1, 1, 0, 1, 7], 3, 3⟩⟩

/-- the singular case is not vacuous: `det` succeeds and returns exactly `0` -/
example : WFb exBandSing ∧ exBandSing.m1 ≤ exBandSing.n ∧ Band.det exBandSing = .ok 0 := by
  refine ⟨⟨_, Mat.Is.of_wf (by unfold Mat.WF; rfl)⟩, by decide, by decide +kernel⟩

end ExampleD

end Ohsl.Props.C04
