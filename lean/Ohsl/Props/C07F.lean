/-
  Property C07 (sparse products), part F — rounding-error bounds in the "rounded reals"
  interpretation `Fl M` of the model (Ohsl/Lemmas/Rounding.lean): the SAME model definitions
  `Sp.multiply`, `Sp.transposeMultiply`, `Sp.scale` (Ohsl/Model/Sparse.lean) instantiated at real
  numbers whose `+` and `*` round with relative error `≤ u` (standard model, no overflow/underflow).
  The transfer to the Rust `f64` code rests on the ASSUMPTION stated in Rounding.lean; it is not
  proved here.

  Notation: `s : Sp (Fl M)` well formed (`Sp.WF`), `entryR s i j = a_ij` the exact real entry of the
  matrix `s` denotes (`Sp.entry` of the real storage `realOf s`: the stored value, `0` if none),
  `rowCount s i = nᵢ` the number of slots with row index `i`, `colCount s j = mⱼ =
  col_start[j+1] - col_start[j]`, `M.gam k = (1+u)^k - 1`, `x_j = (x.getD j 0).val`.

  Structural (S, any scalar type, no algebraic law; the exact file C07S only has the
  commutative-semiring form):
  * `flat_scatter`, `multiply_fold`: component `i` of `multiply s x` is the LEFT FOLD from `0`, in
    storage order, of `val[k] * x[col k]` over the slots `k` with `row_index[k] = i`;
  * `transposeMultiply_fold`: component `j` of `transpose_multiply s y` is the left fold from `0` of
    `val[k] * y[row_index[k]]`, `k = col_start[j] … col_start[j+1]-1`;
  * `scale_eq`: `scale` maps `(· * a)` over `val`;
  * `rowCount_le_cols`, `colCount_le_rows` (duplicate-free storage), `…_le_nonzero`.

  Rounding (F):
  * `multiply_rounding`          `|fl(Ax)_i - Σ_j a_ij x_j| ≤ gam (nᵢ+1) · Σ_j |a_ij x_j|`  (WF, NoDup)
    `multiply_rounding_cols`     the same with `gam (cols+1)`; `multiply_rounding_gamma` with
                                 `γ = (nᵢ+1)u / (1 - (nᵢ+1)u)`;
    `multiply_rounding_slots`    the slot form, WITHOUT `NoDup` (duplicates are summed; the majorant
                                 is the sum of `|val[k] x_j|` over the slots, which for duplicates is
                                 larger than `|a_ij x_j|` — that is why the entry form needs `NoDup`);
  * `transposeMultiply_rounding` `|fl(Aᵀy)_j - Σ_i a_ij y_i| ≤ gam (mⱼ+1) · Σ_i |a_ij y_i|` (WF, NoDup)
    `…_rows` (`gam (rows+1)`), `…_gamma`, `…_slots` (no `NoDup`);
  * `scale_rounding`             every stored value of `scale s α` is `val[k]·α` up to relative error
                                 `u`, pattern unchanged; `scale_rounding_entry`: the same for `a_ij`;
  * `bilinear_rounding_left/right` `|⟨y, Ax⟩_fl - yᵀAx|`, `|⟨Aᵀy, x⟩_fl - yᵀAx|
                                 ≤ gam (rows+cols+2) · Σ_ij |y_i a_ij x_j|` (products by `Vec.dot`);
  * `adjoint_rounding`           `|⟨y, Ax⟩_fl - ⟨Aᵀy, x⟩_fl| ≤ 2 gam (rows+cols+2) · Σ_ij |y_i a_ij x_j|`.
  The constant `nᵢ + 1` (not `nᵢ`) is forced by the abstract model, which also rounds the first
  addition `0 + p₀` (see `Fl.foldl_sum_rounding_sharp`); the last example shows it is attained.
-/
import Ohsl.Props.C07S
import Ohsl.Props.C16F
import Ohsl.Lemmas.Rounding
import Ohsl.Lemmas.SparseWF
import Mathlib.Algebra.BigOperators.Intervals
import Mathlib.Algebra.Order.BigOperators.Group.Finset
import Mathlib.Algebra.BigOperators.Ring.Finset
set_option linter.unusedSectionVars false
set_option linter.unusedVariables false
set_option linter.unusedSimpArgs false
open Ohsl.Mat (forM' forM'_inv aget_ok aset_ok)
namespace Ohsl.Props.C07
open Ohsl Ohsl.Sp

/-! ### structural: the products as ordered folds over the slots (any `K`, no algebraic law) -/

section Structural
variable {K : Type} [Add K] [Mul K] [Zero K]

/-- the slots `k < N` whose target (`row_index` for `multiply`, column for `transpose_multiply`) is
`i`, in storage order -/
def slotsTo (tgt : Nat → Nat) (N i : Nat) : List Nat :=
  (List.range N).filter (fun k => decide (tgt k = i))

theorem slotsTo_succ (tgt : Nat → Nat) (m i : Nat) :
    slotsTo tgt (m + 1) i = slotsTo tgt m i ++ (if tgt m = i then [m] else []) := by
  unfold slotsTo
  rw [List.range_succ, List.filter_append]
  congr 1
  by_cases hc : tgt m = i <;> simp [hc]

theorem mem_slotsTo {tgt : Nat → Nat} {N i k : Nat} : k ∈ slotsTo tgt N i ↔ k < N ∧ tgt k = i := by
  simp [slotsTo]

theorem slotsTo_nodup (tgt : Nat → Nat) (N i : Nat) : (slotsTo tgt N i).Nodup :=
  List.Nodup.filter _ List.nodup_range

/-- (S) the flat scatter loop `res[tgt k] += term k`, `k = 0 … N-1`, from the zero vector:
component `i` is the LEFT FOLD from `0` of the terms aimed at `i`, in slot order. -/
theorem flat_scatter (tgt : Nat → Nat) (term : Nat → K) (n N : Nat)
    (htgt : ∀ k, k < N → tgt k < n) :
    ∃ y, forM' 0 N (Array.replicate n (0 : K)) (fun res k => do
        let r ← aget res (tgt k)
        aset res (tgt k) (r + term k)) = .ok y ∧ y.size = n ∧
      ∀ i, i < n → y[i]?.getD 0 = ((slotsTo tgt N i).map term).foldl (· + ·) 0 := by
  obtain ⟨y, h1, h2, h3⟩ := forM'_inv
    (fun m (r : Array K) => r.size = n ∧
      ∀ i, i < n → r[i]?.getD 0 = ((slotsTo tgt m i).map term).foldl (· + ·) 0)
    0 N (Array.replicate n (0 : K)) (fun res k => do
        let r ← aget res (tgt k)
        aset res (tgt k) (r + term k)) (Nat.zero_le _)
    ⟨by simp, by intro i hi; simp [hi, slotsTo]⟩ (by
      intro m r _ hm ⟨hsz, hr⟩
      have a4 : tgt m < r.size := by have := htgt m hm; omega
      refine ⟨r.setIfInBounds (tgt m) (r[tgt m] + term m),
        by simp [aget_ok a4, aset_ok _ a4, bind, Except.bind], by simpa using hsz, ?_⟩
      intro i hi
      rw [slotsTo_succ, List.map_append, List.foldl_append, ← hr i hi,
        Array.getElem?_setIfInBounds]
      by_cases hc : tgt m = i
      · subst hc; simp [a4]
      · simp [hc])
  exact ⟨y, h1, h2, h3⟩

/-- (S) **`multiply` as ordered folds**: on well-formed storage and a conformable vector the call
succeeds and component `i` is the left fold from `0`, in storage order, of the products
`val[k] * x[col k]` over the slots `k` with `row_index[k] = i`. -/
theorem multiply_fold {s : Sp K} (h : WF s) (x : Array K) (hx : x.size = s.cols) :
    ∃ y, multiply s x = .ok y ∧ y.size = s.rows ∧ ∀ i, i < s.rows → y[i]?.getD 0 =
      ((slotsTo s.ri s.nonzero i).map (fun k => s.vl k * x.getD (s.colOf k) 0)).foldl (· + ·) 0 := by
  have h0 : ¬ s.cols ≠ x.size := by omega
  simp only [multiply, h0, if_false]
  have e1 : forM' 0 s.cols (Array.replicate s.rows (0 : K)) (fun res j => do
        let xj ← aget x j
        let lo ← aget s.colStart j
        let hi ← aget s.colStart (j + 1)
        forM' lo hi res (fun res k => do
          let ri ← aget s.rowIndex k
          let v ← aget s.val k
          let r ← aget res ri
          aset res ri (r + v * xj)))
      = forM' 0 s.cols (Array.replicate s.rows (0 : K)) (fun res j => do
        let lo ← aget s.colStart j
        let hi ← aget s.colStart (j + 1)
        forM' lo hi res ((fun j res k => do
          let ri ← aget s.rowIndex k
          let v ← aget s.val k
          let r ← aget res ri
          aset res ri (r + v * x.getD j 0)) j)) := by
    apply Mat.forM'_congr
    intro j res _ hj
    have hxj : j < x.size := by omega
    rw [aget_ok hxj]
    have : x.getD j 0 = x[j] := by simp [Array.getD, hxj]
    simp only [this]
    rfl
  rw [e1, h.forM'_cols_flat]
  have e2 : forM' 0 s.nonzero (Array.replicate s.rows (0 : K)) (fun res k =>
        (fun j res k => do
          let ri ← aget s.rowIndex k
          let v ← aget s.val k
          let r ← aget res ri
          aset res ri (r + v * x.getD j 0)) (s.colOf k) res k)
      = forM' 0 s.nonzero (Array.replicate s.rows (0 : K)) (fun res k => do
        let r ← aget res (s.ri k)
        aset res (s.ri k) (r + (fun k => s.vl k * x.getD (s.colOf k) 0) k)) := by
    apply Mat.forM'_congr
    intro k res _ hk
    show (do
      let ri ← aget s.rowIndex k
      let v ← aget s.val k
      let r ← aget res ri
      aset res ri (r + v * x.getD (s.colOf k) 0)) = _
    rw [h.aget_ri hk, h.aget_vl hk]
    rfl
  rw [e2]
  exact flat_scatter s.ri (fun k => s.vl k * x.getD (s.colOf k) 0) s.rows s.nonzero h.riLt

/-- the slots of column `j`, as a filter of all slots, are the index range of the column -/
theorem slotsTo_colOf {s : Sp K} (h : WF s) {j : Nat} (hj : j < s.cols) :
    slotsTo s.colOf s.nonzero j = List.range' (s.cs j) (s.cs (j + 1) - s.cs j) := by
  have hab : s.cs j ≤ s.cs (j + 1) := h.mono j hj
  have hbn : s.cs (j + 1) ≤ s.nonzero := h.cs_le_nonzero (by omega)
  have e1 : List.range' (s.cs j) (s.cs (j + 1) - s.cs j)
      ++ List.range' (s.cs (j + 1)) (s.nonzero - s.cs (j + 1))
      = List.range' (s.cs j) (s.nonzero - s.cs j) := by
    have := List.range'_append_1 (s := s.cs j) (m := s.cs (j + 1) - s.cs j)
      (n := s.nonzero - s.cs (j + 1))
    rw [show s.cs j + (s.cs (j + 1) - s.cs j) = s.cs (j + 1) by omega,
      show s.cs (j + 1) - s.cs j + (s.nonzero - s.cs (j + 1)) = s.nonzero - s.cs j by omega] at this
    exact this
  have e2 : List.range s.nonzero = List.range' 0 (s.cs j)
      ++ (List.range' (s.cs j) (s.cs (j + 1) - s.cs j)
        ++ List.range' (s.cs (j + 1)) (s.nonzero - s.cs (j + 1))) := by
    rw [e1, List.range_eq_range']
    have := List.range'_append_1 (s := 0) (m := s.cs j) (n := s.nonzero - s.cs j)
    rw [show 0 + s.cs j = s.cs j by omega,
      show s.cs j + (s.nonzero - s.cs j) = s.nonzero by omega] at this
    exact this.symm
  unfold slotsTo
  rw [e2, List.filter_append, List.filter_append]
  have f1 : (List.range' 0 (s.cs j)).filter (fun k => decide (s.colOf k = j)) = [] := by
    rw [List.filter_eq_nil_iff]
    intro k hk
    have hk' := List.mem_range'_1.mp hk
    have hkn : k < s.nonzero := by omega
    simp only [decide_eq_true_eq]
    intro e
    have := (h.colOf_iff hj hkn).mp e
    omega
  have f3 : (List.range' (s.cs (j + 1)) (s.nonzero - s.cs (j + 1))).filter
      (fun k => decide (s.colOf k = j)) = [] := by
    rw [List.filter_eq_nil_iff]
    intro k hk
    have hk' := List.mem_range'_1.mp hk
    have hkn : k < s.nonzero := by omega
    simp only [decide_eq_true_eq]
    intro e
    have := (h.colOf_iff hj hkn).mp e
    omega
  have f2 : (List.range' (s.cs j) (s.cs (j + 1) - s.cs j)).filter
      (fun k => decide (s.colOf k = j)) = List.range' (s.cs j) (s.cs (j + 1) - s.cs j) := by
    rw [List.filter_eq_self]
    intro k hk
    have hk' := List.mem_range'_1.mp hk
    simp only [decide_eq_true_eq]
    exact h.colOf_eq hj hk'.1 (by omega)
  rw [f1, f2, f3]
  simp

/-- (S) **`transpose_multiply` as ordered folds**: component `j` is the left fold from `0` of the
products `val[k] * y[row_index[k]]` over the slots `k = col_start[j] … col_start[j+1]-1`. -/
theorem transposeMultiply_fold {s : Sp K} (h : WF s) (y : Array K) (hy : y.size = s.rows) :
    ∃ z, transposeMultiply s y = .ok z ∧ z.size = s.cols ∧ ∀ j, j < s.cols → z[j]?.getD 0 =
      ((List.range' (s.cs j) (s.cs (j + 1) - s.cs j)).map
        (fun k => s.vl k * y.getD (s.ri k) 0)).foldl (· + ·) 0 := by
  have h0 : ¬ s.rows ≠ y.size := by omega
  simp only [transposeMultiply, h0, if_false]
  rw [h.forM'_cols_flat (σ := Array K) (fun i res k => do
        let v ← aget s.val k
        let ri ← aget s.rowIndex k
        let xr ← aget y ri
        let r ← aget res i
        aset res i (r + v * xr))]
  have e2 : forM' 0 s.nonzero (Array.replicate s.cols (0 : K)) (fun res k =>
        (fun i res k => do
          let v ← aget s.val k
          let ri ← aget s.rowIndex k
          let xr ← aget y ri
          let r ← aget res i
          aset res i (r + v * xr)) (s.colOf k) res k)
      = forM' 0 s.nonzero (Array.replicate s.cols (0 : K)) (fun res k => do
        let r ← aget res (s.colOf k)
        aset res (s.colOf k) (r + (fun k => s.vl k * y.getD (s.ri k) 0) k)) := by
    apply Mat.forM'_congr
    intro k res _ hk
    show (do
      let v ← aget s.val k
      let ri ← aget s.rowIndex k
      let xr ← aget y ri
      let r ← aget res (s.colOf k)
      aset res (s.colOf k) (r + v * xr)) = _
    have hr : s.ri k < y.size := by rw [hy]; exact h.riLt k hk
    have : y.getD (s.ri k) 0 = y[s.ri k] := by simp [Array.getD, hr]
    rw [h.aget_vl hk, h.aget_ri hk]
    simp only [this]
    show (do
      let xr ← aget y (s.ri k)
      let r ← aget res (s.colOf k)
      aset res (s.colOf k) (r + s.vl k * xr)) = _
    rw [aget_ok hr]
    rfl
  rw [e2]
  obtain ⟨z, g1, g2, g3⟩ := flat_scatter s.colOf (fun k => s.vl k * y.getD (s.ri k) 0) s.cols
    s.nonzero (fun k hk => h.colOf_lt hk)
  refine ⟨z, g1, g2, ?_⟩
  intro j hj
  rw [g3 j hj, slotsTo_colOf h hj]

/-- number of slots aimed at row `i` (for duplicate-free storage: the number of stored entries of
row `i`) -/
def rowCount (s : Sp K) (i : Nat) : Nat := (slotsTo s.ri s.nonzero i).length
/-- number of slots of column `j` -/
def colCount (s : Sp K) (j : Nat) : Nat := s.cs (j + 1) - s.cs j

theorem rowCount_le_nonzero (s : Sp K) (i : Nat) : rowCount s i ≤ s.nonzero := by
  unfold rowCount slotsTo
  exact (List.length_filter_le _ _).trans (by simp)

theorem colCount_le_nonzero {s : Sp K} (h : WF s) {j : Nat} (hj : j < s.cols) :
    colCount s j ≤ s.nonzero := by
  have := h.cs_le_nonzero (j := j + 1) (by omega)
  unfold colCount; omega

/-- duplicate-free storage holds at most `cols` entries of a row -/
theorem rowCount_le_cols {s : Sp K} (h : WF s) (hnd : NoDup s) (i : Nat) :
    rowCount s i ≤ s.cols := by
  unfold rowCount
  have hnodup : ((slotsTo s.ri s.nonzero i).map s.colOf).Nodup := by
    apply List.Nodup.map_on _ (slotsTo_nodup _ _ _)
    intro k hk k' hk' e
    obtain ⟨a1, a2⟩ := mem_slotsTo.mp hk
    obtain ⟨b1, b2⟩ := mem_slotsTo.mp hk'
    have hc := h.colOf_lt a1
    obtain ⟨a, b⟩ := (h.colOf_spec a1).2
    obtain ⟨c, d⟩ := (h.colOf_spec b1).2
    rw [← e] at c d
    exact hnd _ hc k k' a b c d (by rw [a2, b2])
  have hsub : (slotsTo s.ri s.nonzero i).map s.colOf ⊆ List.range s.cols := by
    intro c hc
    obtain ⟨k, hk, rfl⟩ := List.mem_map.mp hc
    exact List.mem_range.mpr (h.colOf_lt (mem_slotsTo.mp hk).1)
  have := (List.subperm_of_subset hnodup hsub).length_le
  simpa using this

/-- duplicate-free storage holds at most `rows` entries of a column -/
theorem colCount_le_rows {s : Sp K} (h : WF s) (hnd : NoDup s) {j : Nat} (hj : j < s.cols) :
    colCount s j ≤ s.rows := by
  unfold colCount
  have hnodup : ((List.range' (s.cs j) (s.cs (j + 1) - s.cs j)).map s.ri).Nodup := by
    apply List.Nodup.map_on _ (List.nodup_range' (step := 1) (by omega))
    intro k hk k' hk' e
    have a := List.mem_range'_1.mp hk
    have b := List.mem_range'_1.mp hk'
    exact hnd j hj k k' a.1 (by omega) b.1 (by omega) e
  have hsub : (List.range' (s.cs j) (s.cs (j + 1) - s.cs j)).map s.ri ⊆ List.range s.rows := by
    intro c hc
    obtain ⟨k, hk, rfl⟩ := List.mem_map.mp hc
    have a := List.mem_range'_1.mp hk
    exact List.mem_range.mpr (h.riLt k (h.slot_lt hj (by omega)))
  have := (List.subperm_of_subset hnodup hsub).length_le
  simpa using this

/-- (S) `scale` multiplies every stored value on the right and changes nothing else (the proof of
`scale_spec` uses no algebraic law) -/
theorem scale_eq (s : Sp K) (hv : s.val.size = s.nonzero) (a : K) :
    scale s a = .ok { s with val := s.val.map (· * a) } := by
  obtain ⟨v, h1, h2, h3⟩ := forM'_inv
    (fun m (v : Array K) => v.size = s.nonzero ∧ ∀ k, v[k]? =
      if k < m then s.val[k]?.map (· * a) else s.val[k]?)
    0 s.nonzero s.val (fun v k => do
      let x ← aget v k
      aset v k (x * a)) (Nat.zero_le _) ⟨hv, by simp⟩ (by
      intro m v _ hm ⟨hsz, hr⟩
      have hm' : m < v.size := by omega
      have hm'' : m < s.val.size := by omega
      refine ⟨v.setIfInBounds m (v[m] * a), by simp [aget_ok hm', aset_ok _ hm', bind, Except.bind],
        by simpa using hsz, ?_⟩
      intro k
      rw [Array.getElem?_setIfInBounds]
      by_cases hc : m = k
      · subst hc
        have := hr m
        simp only [Nat.lt_irrefl, if_false, hm', hm'', Array.getElem?_eq_getElem, Option.some.injEq] at this
        simp [hm', hm'', this]
      · have e1 : (k < m + 1) = (k < m) := by apply propext; omega
        simp only [hc, if_false, e1, hr k])
  have : v = s.val.map (· * a) := by
    apply Array.ext_getElem?
    intro k
    rw [h3 k, Array.getElem?_map]
    by_cases hk : k < s.nonzero
    · simp [hk]
    · have : s.val.size ≤ k := by omega
      simp [hk, this]
  unfold scale
  rw [h1, this]
  rfl

theorem getD_eq (a : Array K) (i : Nat) (d : K) : a.getD i d = a[i]?.getD d := by
  by_cases h : i < a.size <;> simp [Array.getD, h]

end Structural

/-! ### sums over slots -/

section Sums
variable {K : Type}

theorem sum_map_slotsTo (tgt : Nat → Nat) (i : Nat) (g : ℕ → ℝ) : ∀ N,
    ((slotsTo tgt N i).map g).sum = ∑ k ∈ Finset.range N, if tgt k = i then g k else 0
  | 0 => by simp [slotsTo]
  | N + 1 => by
    rw [slotsTo_succ, List.map_append, List.sum_append, sum_map_slotsTo tgt i g N,
      Finset.sum_range_succ]
    by_cases hc : tgt N = i <;> simp [hc]

/-- a sum over all slots, column by column -/
theorem sum_slots_by_col {s : Sp K} (h : WF s) (F : ℕ → ℕ → ℝ) :
    ∑ k ∈ Finset.range s.nonzero, F (s.colOf k) k
      = ∑ j ∈ Finset.range s.cols, ∑ k ∈ Finset.Ico (s.cs j) (s.cs (j + 1)), F j k := by
  have key : ∀ m, m ≤ s.cols → ∑ k ∈ Finset.range (s.cs m), F (s.colOf k) k
      = ∑ j ∈ Finset.range m, ∑ k ∈ Finset.Ico (s.cs j) (s.cs (j + 1)), F j k := by
    intro m
    induction m with
    | zero => intro _; rw [h.cs_zero]; simp
    | succ m ih =>
      intro hm
      rw [Finset.sum_range_succ, ← ih (by omega),
        ← Finset.sum_range_add_sum_Ico _ (h.mono m (by omega))]
      congr 1
      refine Finset.sum_congr rfl (fun k hk => ?_)
      obtain ⟨a, b⟩ := Finset.mem_Ico.mp hk
      rw [h.colOf_eq (by omega) a b]
  have := key s.cols (le_refl _)
  rwa [h.cs_last] at this

/-- a sum with at most one non-zero term: `|Σ| = Σ |·|` -/
theorem abs_sum_unique (S : Finset ℕ) (p : ℕ → Prop) [DecidablePred p] (f : ℕ → ℝ)
    (hu : ∀ k ∈ S, ∀ k' ∈ S, p k → p k' → k = k') :
    |∑ k ∈ S, if p k then f k else 0| = ∑ k ∈ S, if p k then |f k| else 0 := by
  by_cases hex : ∃ k0 ∈ S, p k0
  · obtain ⟨k0, hk0, hp0⟩ := hex
    rw [Finset.sum_eq_single k0 (fun b hb hne => if_neg (fun hpb => hne (hu b hb k0 hk0 hpb hp0)))
        (fun hn => absurd hk0 hn),
      Finset.sum_eq_single k0 (fun b hb hne => if_neg (fun hpb => hne (hu b hb k0 hk0 hpb hp0)))
        (fun hn => absurd hk0 hn)]
    simp [hp0]
  · have hn : ∀ k ∈ S, ¬ p k := fun k hk hp => hex ⟨k, hk, hp⟩
    rw [Finset.sum_eq_zero (fun k hk => if_neg (hn k hk)),
      Finset.sum_eq_zero (fun k hk => if_neg (hn k hk))]
    simp

/-- a sum over the slots of a column, sorted by row -/
theorem sum_col_by_row {s : Sp K} (h : WF s) {j : Nat} (hj : j < s.cols) (F : ℕ → ℕ → ℝ) :
    ∑ k ∈ Finset.Ico (s.cs j) (s.cs (j + 1)), F k (s.ri k)
      = ∑ i ∈ Finset.range s.rows, ∑ k ∈ Finset.Ico (s.cs j) (s.cs (j + 1)),
          if s.ri k = i then F k i else 0 := by
  rw [Finset.sum_comm]
  refine Finset.sum_congr rfl (fun k hk => ?_)
  have hk' : k < s.nonzero := h.slot_lt hj (Finset.mem_Ico.mp hk).2
  have hr : s.ri k ∈ Finset.range s.rows := Finset.mem_range.mpr (h.riLt k hk')
  rw [Finset.sum_ite_eq (Finset.range s.rows) (s.ri k) (fun i => F k i)]
  simp [hr]

end Sums

/-! ### the rounded-reals interpretation -/

section Rounding
variable {M : FlModel}
open Fl

/-- the exact real matrix behind a storage: same pattern, the `.val`s of the stored values -/
def realOf (s : Sp (Fl M)) : Sp ℝ :=
  ⟨s.rows, s.cols, s.nonzero, s.val.map Fl.val, s.rowIndex, s.colStart⟩

@[simp] theorem realOf_cs (s : Sp (Fl M)) (j : Nat) : (realOf s).cs j = s.cs j := rfl
@[simp] theorem realOf_ri (s : Sp (Fl M)) (k : Nat) : (realOf s).ri k = s.ri k := rfl
@[simp] theorem realOf_vl (s : Sp (Fl M)) (k : Nat) : (realOf s).vl k = (s.vl k).val := by
  simp only [Sp.vl, realOf, Array.getElem?_map]
  cases s.val[k]? <;> simp

/-- the exact entry `a_ij` of the matrix the storage denotes (`Sp.entry` of `realOf s`): the stored
value at `(i, j)`, `0` if there is none -/
noncomputable def entryR (s : Sp (Fl M)) (i j : Nat) : ℝ := (realOf s).entry i j

theorem entryR_eq (s : Sp (Fl M)) (i j : Nat) :
    entryR s i j = ∑ k ∈ Finset.Ico (s.cs j) (s.cs (j + 1)), if s.ri k = i then (s.vl k).val else 0 := by
  simp only [entryR, Sp.entry, realOf_cs, realOf_ri, realOf_vl]

/-- `a_ij x` as a sum over the slots of column `j` -/
theorem entryR_mul (s : Sp (Fl M)) (i j : Nat) (c : ℝ) :
    entryR s i j * c
      = ∑ k ∈ Finset.Ico (s.cs j) (s.cs (j + 1)), if s.ri k = i then (s.vl k).val * c else 0 := by
  rw [entryR_eq, Finset.sum_mul]
  refine Finset.sum_congr rfl (fun k _ => ?_)
  split <;> simp

/-- for duplicate-free storage `|a_ij x|` is the sum of the `|val[k] x|` over the (at most one) slot
of column `j` aimed at row `i` -/
theorem abs_entryR_mul {s : Sp (Fl M)} (hnd : NoDup s) (i : Nat) {j : Nat} (hj : j < s.cols) (c : ℝ) :
    |entryR s i j * c|
      = ∑ k ∈ Finset.Ico (s.cs j) (s.cs (j + 1)), if s.ri k = i then |(s.vl k).val * c| else 0 := by
  rw [entryR_mul]
  apply abs_sum_unique
  intro k hk k' hk' e e'
  obtain ⟨a, b⟩ := Finset.mem_Ico.mp hk
  obtain ⟨c, d⟩ := Finset.mem_Ico.mp hk'
  exact hnd j hj k k' a b c d (by rw [e, e'])

/-- a left fold from `0` of computed products: one rounding per product, `length` rounded
additions -/
theorem fold_terms_rounding {ι : Type} (is : List ι) (a b : ι → Fl M) :
    |((is.map (fun k => a k * b k)).foldl (· + ·) 0).val
        - (is.map (fun k => (a k).val * (b k).val)).sum|
      ≤ M.gam (is.length + 1) * (is.map (fun k => |(a k).val * (b k).val|)).sum := by
  have h1 := foldl_sum_rounding (is.map (fun k => a k * b k))
  rw [List.length_map] at h1
  exact rounded_terms_sum_bound is (fun k => a k * b k) (fun k => (a k).val * (b k).val)
    is.length _ (fun k _ => Fl.mul_err _ _) h1

/-- **`multiply`, slot form** (duplicates allowed): component `i` against the exact sum of the
products `val[k] x[col k]` over the slots aimed at row `i`; one rounding per product and
`rowCount s i` rounded additions. -/
theorem multiply_rounding_slots {s : Sp (Fl M)} (h : WF s) (x : Array (Fl M))
    (hx : x.size = s.cols) :
    ∃ y, multiply s x = .ok y ∧ y.size = s.rows ∧ ∀ i, i < s.rows →
      |(y.getD i 0).val
          - ∑ j ∈ Finset.range s.cols, ∑ k ∈ Finset.Ico (s.cs j) (s.cs (j + 1)),
              if s.ri k = i then (s.vl k).val * (x.getD j 0).val else 0|
        ≤ M.gam (rowCount s i + 1)
          * ∑ j ∈ Finset.range s.cols, ∑ k ∈ Finset.Ico (s.cs j) (s.cs (j + 1)),
              if s.ri k = i then |(s.vl k).val * (x.getD j 0).val| else 0 := by
  obtain ⟨y, h1, h2, h3⟩ := multiply_fold h x hx
  refine ⟨y, h1, h2, ?_⟩
  intro i hi
  rw [getD_eq, h3 i hi]
  have := fold_terms_rounding (slotsTo s.ri s.nonzero i) s.vl (fun k => x.getD (s.colOf k) 0)
  rw [sum_map_slotsTo, sum_map_slotsTo,
    sum_slots_by_col h (fun j k => if s.ri k = i then (s.vl k).val * (x.getD j 0).val else 0),
    sum_slots_by_col h (fun j k => if s.ri k = i then |(s.vl k).val * (x.getD j 0).val| else 0)]
    at this
  exact this

/-- **C07F-1, `multiply`**: for well-formed duplicate-free storage and a conformable vector,
`|fl(A x)_i - Σ_j a_ij x_j| ≤ ((1+u)^(nᵢ+1) - 1) · Σ_j |a_ij x_j|` with `nᵢ = rowCount s i` the
number of stored entries of row `i`. -/
theorem multiply_rounding {s : Sp (Fl M)} (h : WF s) (hnd : NoDup s) (x : Array (Fl M))
    (hx : x.size = s.cols) :
    ∃ y, multiply s x = .ok y ∧ y.size = s.rows ∧ ∀ i, i < s.rows →
      |(y.getD i 0).val - ∑ j ∈ Finset.range s.cols, entryR s i j * (x.getD j 0).val|
        ≤ M.gam (rowCount s i + 1)
          * ∑ j ∈ Finset.range s.cols, |entryR s i j * (x.getD j 0).val| := by
  obtain ⟨y, h1, h2, h3⟩ := multiply_rounding_slots h x hx
  refine ⟨y, h1, h2, ?_⟩
  intro i hi
  have := h3 i hi
  rw [← Finset.sum_congr rfl (fun j _ => entryR_mul s i j (x.getD j 0).val),
    ← Finset.sum_congr rfl (fun j hj =>
      abs_entryR_mul hnd i (Finset.mem_range.mp hj) (x.getD j 0).val)] at this
  exact this

/-- the same with the uniform constant `cols + 1` (a row of duplicate-free storage holds at most
`cols` entries) -/
theorem multiply_rounding_cols {s : Sp (Fl M)} (h : WF s) (hnd : NoDup s) (x : Array (Fl M))
    (hx : x.size = s.cols) :
    ∃ y, multiply s x = .ok y ∧ y.size = s.rows ∧ ∀ i, i < s.rows →
      |(y.getD i 0).val - ∑ j ∈ Finset.range s.cols, entryR s i j * (x.getD j 0).val|
        ≤ M.gam (s.cols + 1) * ∑ j ∈ Finset.range s.cols, |entryR s i j * (x.getD j 0).val| := by
  obtain ⟨y, h1, h2, h3⟩ := multiply_rounding h hnd x hx
  refine ⟨y, h1, h2, fun i hi => (h3 i hi).trans ?_⟩
  exact mul_le_mul_of_nonneg_right (M.gam_mono (by have := rowCount_le_cols h hnd i; omega))
    (Finset.sum_nonneg (fun _ _ => abs_nonneg _))

/-- **`transpose_multiply`, slot form** (duplicates allowed): component `j` against the exact sum
over the slots of column `j`; one rounding per product, `colCount s j` rounded additions. -/
theorem transposeMultiply_rounding_slots {s : Sp (Fl M)} (h : WF s) (y : Array (Fl M))
    (hy : y.size = s.rows) :
    ∃ z, transposeMultiply s y = .ok z ∧ z.size = s.cols ∧ ∀ j, j < s.cols →
      |(z.getD j 0).val
          - ∑ k ∈ Finset.Ico (s.cs j) (s.cs (j + 1)), (s.vl k).val * (y.getD (s.ri k) 0).val|
        ≤ M.gam (colCount s j + 1)
          * ∑ k ∈ Finset.Ico (s.cs j) (s.cs (j + 1)), |(s.vl k).val * (y.getD (s.ri k) 0).val| := by
  obtain ⟨z, h1, h2, h3⟩ := transposeMultiply_fold h y hy
  refine ⟨z, h1, h2, ?_⟩
  intro j hj
  rw [getD_eq, h3 j hj]
  have := fold_terms_rounding (List.range' (s.cs j) (s.cs (j + 1) - s.cs j)) s.vl
    (fun k => y.getD (s.ri k) 0)
  have e : s.cs j + (s.cs (j + 1) - s.cs j) = s.cs (j + 1) := by have := h.mono j hj; omega
  rw [sum_map_range', sum_map_range', e, List.length_range'] at this
  exact this

/-- **C07F-2, `transpose_multiply`**: for well-formed duplicate-free storage and a conformable
vector, `|fl(Aᵀ y)_j - Σ_i a_ij y_i| ≤ ((1+u)^(mⱼ+1) - 1) · Σ_i |a_ij y_i|` with
`mⱼ = colCount s j = col_start[j+1] - col_start[j]` the number of stored entries of column `j`. -/
theorem transposeMultiply_rounding {s : Sp (Fl M)} (h : WF s) (hnd : NoDup s) (y : Array (Fl M))
    (hy : y.size = s.rows) :
    ∃ z, transposeMultiply s y = .ok z ∧ z.size = s.cols ∧ ∀ j, j < s.cols →
      |(z.getD j 0).val - ∑ i ∈ Finset.range s.rows, entryR s i j * (y.getD i 0).val|
        ≤ M.gam (colCount s j + 1)
          * ∑ i ∈ Finset.range s.rows, |entryR s i j * (y.getD i 0).val| := by
  obtain ⟨z, h1, h2, h3⟩ := transposeMultiply_rounding_slots h y hy
  refine ⟨z, h1, h2, ?_⟩
  intro j hj
  have := h3 j hj
  rw [sum_col_by_row h hj (fun k i => (s.vl k).val * (y.getD i 0).val),
    sum_col_by_row h hj (fun k i => |(s.vl k).val * (y.getD i 0).val|),
    ← Finset.sum_congr rfl (fun i _ => entryR_mul s i j (y.getD i 0).val),
    ← Finset.sum_congr rfl (fun i _ => abs_entryR_mul hnd i hj (y.getD i 0).val)] at this
  exact this

/-- the same with the uniform constant `rows + 1` -/
theorem transposeMultiply_rounding_rows {s : Sp (Fl M)} (h : WF s) (hnd : NoDup s)
    (y : Array (Fl M)) (hy : y.size = s.rows) :
    ∃ z, transposeMultiply s y = .ok z ∧ z.size = s.cols ∧ ∀ j, j < s.cols →
      |(z.getD j 0).val - ∑ i ∈ Finset.range s.rows, entryR s i j * (y.getD i 0).val|
        ≤ M.gam (s.rows + 1) * ∑ i ∈ Finset.range s.rows, |entryR s i j * (y.getD i 0).val| := by
  obtain ⟨z, h1, h2, h3⟩ := transposeMultiply_rounding h hnd y hy
  refine ⟨z, h1, h2, fun j hj => (h3 j hj).trans ?_⟩
  exact mul_le_mul_of_nonneg_right (M.gam_mono (by have := colCount_le_rows h hnd hj; omega))
    (Finset.sum_nonneg (fun _ _ => abs_nonneg _))

/-- the classical form of `multiply_rounding`: `γ = (nᵢ+1) u / (1 - (nᵢ+1) u)` -/
theorem multiply_rounding_gamma {s : Sp (Fl M)} (h : WF s) (hnd : NoDup s) (x : Array (Fl M))
    (hx : x.size = s.cols) :
    ∃ y, multiply s x = .ok y ∧ y.size = s.rows ∧ ∀ i, i < s.rows →
      ((rowCount s i + 1 : ℕ) : ℝ) * M.u < 1 →
      |(y.getD i 0).val - ∑ j ∈ Finset.range s.cols, entryR s i j * (x.getD j 0).val|
        ≤ ((rowCount s i + 1 : ℕ) : ℝ) * M.u / (1 - ((rowCount s i + 1 : ℕ) : ℝ) * M.u)
          * ∑ j ∈ Finset.range s.cols, |entryR s i j * (x.getD j 0).val| := by
  obtain ⟨y, h1, h2, h3⟩ := multiply_rounding h hnd x hx
  refine ⟨y, h1, h2, fun i hi hu => (h3 i hi).trans ?_⟩
  exact mul_le_mul_of_nonneg_right (M.gam_le_gamma _ hu)
    (Finset.sum_nonneg (fun _ _ => abs_nonneg _))

/-- the classical form of `transposeMultiply_rounding` -/
theorem transposeMultiply_rounding_gamma {s : Sp (Fl M)} (h : WF s) (hnd : NoDup s)
    (y : Array (Fl M)) (hy : y.size = s.rows) :
    ∃ z, transposeMultiply s y = .ok z ∧ z.size = s.cols ∧ ∀ j, j < s.cols →
      ((colCount s j + 1 : ℕ) : ℝ) * M.u < 1 →
      |(z.getD j 0).val - ∑ i ∈ Finset.range s.rows, entryR s i j * (y.getD i 0).val|
        ≤ ((colCount s j + 1 : ℕ) : ℝ) * M.u / (1 - ((colCount s j + 1 : ℕ) : ℝ) * M.u)
          * ∑ i ∈ Finset.range s.rows, |entryR s i j * (y.getD i 0).val| := by
  obtain ⟨z, h1, h2, h3⟩ := transposeMultiply_rounding h hnd y hy
  refine ⟨z, h1, h2, fun j hj hu => (h3 j hj).trans ?_⟩
  exact mul_le_mul_of_nonneg_right (M.gam_le_gamma _ hu)
    (Finset.sum_nonneg (fun _ _ => abs_nonneg _))

/-- **C07F-3, `scale`**: the call succeeds, the pattern is unchanged, and every stored value is
the exact product rounded once: relative error `≤ u`. -/
theorem scale_rounding (s : Sp (Fl M)) (hv : s.val.size = s.nonzero) (a : Fl M) :
    ∃ s', scale s a = .ok s' ∧ s'.rows = s.rows ∧ s'.cols = s.cols ∧ s'.nonzero = s.nonzero ∧
      s'.rowIndex = s.rowIndex ∧ s'.colStart = s.colStart ∧ s'.val.size = s.nonzero ∧
      ∀ k, k < s.nonzero →
        |(s'.vl k).val - (s.vl k).val * a.val| ≤ M.u * |(s.vl k).val * a.val| := by
  refine ⟨_, scale_eq s hv a, rfl, rfl, rfl, rfl, rfl, by simpa using hv, ?_⟩
  intro k hk
  have hk' : k < s.val.size := by omega
  have e : Sp.vl { s with val := s.val.map (· * a) } k = s.vl k * a := by
    simp [Sp.vl, hk']
  rw [e]
  exact Fl.mul_err _ _

/-- `scale` at the level of the denoted matrix (duplicate-free storage): every entry is the exact
product `a_ij · α` up to relative error `u` -/
theorem scale_rounding_entry {s : Sp (Fl M)} (h : WF s) (hnd : NoDup s) (a : Fl M) :
    ∃ s', scale s a = .ok s' ∧ WF s' ∧ NoDup s' ∧ ∀ i j, j < s.cols →
      |entryR s' i j - entryR s i j * a.val| ≤ M.u * |entryR s i j * a.val| := by
  refine ⟨_, scale_eq s h.valSize a,
    ⟨h.csSize, h.cs0, h.mono, h.csLast, by simpa using h.valSize, h.riSize, h.riLt⟩, hnd, ?_⟩
  intro i j hj
  rw [abs_entryR_mul hnd i hj, entryR_mul, entryR_eq]
  show |∑ k ∈ Finset.Ico (s.cs j) (s.cs (j + 1)),
        (if s.ri k = i then (Sp.vl { s with val := s.val.map (· * a) } k).val else 0)
      - ∑ k ∈ Finset.Ico (s.cs j) (s.cs (j + 1)), if s.ri k = i then (s.vl k).val * a.val else 0| ≤ _
  rw [← Finset.sum_sub_distrib, Finset.mul_sum]
  refine (Finset.abs_sum_le_sum_abs _ _).trans (Finset.sum_le_sum (fun k hk => ?_))
  have hk' : k < s.val.size := by
    rw [h.valSize]; exact h.slot_lt hj (Finset.mem_Ico.mp hk).2
  have e : Sp.vl { s with val := s.val.map (· * a) } k = s.vl k * a := by
    simp [Sp.vl, hk']
  rw [e]
  split
  · simpa using Fl.mul_err (s.vl k) a
  · simp

/-! #### the adjoint identity up to rounding -/

/-- a computed dot product `d ≈ Σ aᵢ bᵢ` (constant `g`) of a vector `b` that is itself a computed
approximation of `E` (componentwise constant `G` against the majorant `R ≥ |E|`) -/
theorem perturbed_dot_bound (n : ℕ) (d : ℝ) (a b E R : ℕ → ℝ) (g G : ℝ) (hg : 0 ≤ g) (hG : 0 ≤ G)
    (hd : |d - ∑ i ∈ Finset.range n, a i * b i| ≤ g * ∑ i ∈ Finset.range n, |a i * b i|)
    (hb : ∀ i, i < n → |b i - E i| ≤ G * R i) (hE : ∀ i, i < n → |E i| ≤ R i) :
    |d - ∑ i ∈ Finset.range n, a i * E i|
      ≤ (g * (1 + G) + G) * ∑ i ∈ Finset.range n, |a i| * R i := by
  have h1 : |∑ i ∈ Finset.range n, a i * b i - ∑ i ∈ Finset.range n, a i * E i|
      ≤ G * ∑ i ∈ Finset.range n, |a i| * R i := by
    rw [← Finset.sum_sub_distrib, Finset.mul_sum]
    refine (Finset.abs_sum_le_sum_abs _ _).trans (Finset.sum_le_sum (fun i hi => ?_))
    have hi' := Finset.mem_range.mp hi
    rw [← mul_sub, abs_mul]
    have := mul_le_mul_of_nonneg_left (hb i hi') (abs_nonneg (a i))
    linarith
  have h2 : ∑ i ∈ Finset.range n, |a i * b i| ≤ (1 + G) * ∑ i ∈ Finset.range n, |a i| * R i := by
    rw [Finset.mul_sum]
    refine Finset.sum_le_sum (fun i hi => ?_)
    have hi' := Finset.mem_range.mp hi
    rw [abs_mul]
    have hb' : |b i| ≤ R i + G * R i := by
      have := abs_add_le (b i - E i) (E i)
      simp only [sub_add_cancel] at this
      linarith [hb i hi', hE i hi']
    have := mul_le_mul_of_nonneg_left hb' (abs_nonneg (a i))
    linarith
  have e : d - ∑ i ∈ Finset.range n, a i * E i
      = (d - ∑ i ∈ Finset.range n, a i * b i)
        + (∑ i ∈ Finset.range n, a i * b i - ∑ i ∈ Finset.range n, a i * E i) := by ring
  rw [e]
  refine (abs_add_le _ _).trans ?_
  have := mul_le_mul_of_nonneg_left h2 hg
  linarith

/-- the exact bilinear form `yᵀ A x = Σ_ij y_i a_ij x_j` -/
noncomputable def bilin (s : Sp (Fl M)) (x y : Array (Fl M)) : ℝ :=
  ∑ i ∈ Finset.range s.rows, ∑ j ∈ Finset.range s.cols,
    (y.getD i 0).val * entryR s i j * (x.getD j 0).val
/-- `Σ_ij |y_i a_ij x_j|` -/
noncomputable def absBilin (s : Sp (Fl M)) (x y : Array (Fl M)) : ℝ :=
  ∑ i ∈ Finset.range s.rows, ∑ j ∈ Finset.range s.cols,
    |(y.getD i 0).val * entryR s i j * (x.getD j 0).val|

theorem absBilin_nonneg (s : Sp (Fl M)) (x y : Array (Fl M)) : 0 ≤ absBilin s x y :=
  Finset.sum_nonneg (fun _ _ => Finset.sum_nonneg (fun _ _ => abs_nonneg _))

/-- **`⟨y, A x⟩` computed** (`multiply`, then the model's `Vec.dot`) against the exact bilinear
form: constant `(1+u)^(rows+cols+2) - 1`. -/
theorem bilinear_rounding_left {s : Sp (Fl M)} (h : WF s) (hnd : NoDup s) (x y : Array (Fl M))
    (hx : x.size = s.cols) (hy : y.size = s.rows) :
    ∃ u d, multiply s x = .ok u ∧ Vec.dot y u = .ok d ∧
      |d.val - bilin s x y| ≤ M.gam (s.rows + s.cols + 2) * absBilin s x y := by
  obtain ⟨u, hu1, hu2, hu3⟩ := multiply_rounding_cols h hnd x hx
  obtain ⟨d, hd1, hd2⟩ := C16.dot_rounding y u (by omega)
  refine ⟨u, d, hu1, hd1, ?_⟩
  simp only [C16.exactDot, C16.absDot, C16.term, hy] at hd2
  have := perturbed_dot_bound s.rows d.val (fun i => (y.getD i 0).val) (fun i => (u.getD i 0).val)
    (fun i => ∑ j ∈ Finset.range s.cols, entryR s i j * (x.getD j 0).val)
    (fun i => ∑ j ∈ Finset.range s.cols, |entryR s i j * (x.getD j 0).val|)
    (M.gam (s.rows + 1)) (M.gam (s.cols + 1)) (M.gam_nonneg _) (M.gam_nonneg _) hd2 hu3
    (fun i _ => Finset.abs_sum_le_sum_abs _ _)
  have e1 : ∑ i ∈ Finset.range s.rows, (y.getD i 0).val
      * ∑ j ∈ Finset.range s.cols, entryR s i j * (x.getD j 0).val = bilin s x y := by
    unfold bilin
    refine Finset.sum_congr rfl (fun i _ => ?_)
    rw [Finset.mul_sum]
    refine Finset.sum_congr rfl (fun j _ => ?_)
    ring
  have e2 : ∑ i ∈ Finset.range s.rows, |(y.getD i 0).val|
      * ∑ j ∈ Finset.range s.cols, |entryR s i j * (x.getD j 0).val| = absBilin s x y := by
    unfold absBilin
    refine Finset.sum_congr rfl (fun i _ => ?_)
    rw [Finset.mul_sum]
    refine Finset.sum_congr rfl (fun j _ => ?_)
    rw [← abs_mul, mul_assoc]
  have e3 : M.gam (s.rows + 1) * (1 + M.gam (s.cols + 1)) + M.gam (s.cols + 1)
      = M.gam (s.rows + s.cols + 2) := by
    rw [show s.rows + s.cols + 2 = (s.cols + 1) + (s.rows + 1) by omega]
    exact (M.gam_add (s.cols + 1) (s.rows + 1)).symm
  rwa [e1, e2, e3] at this

/-- **`⟨Aᵀ y, x⟩` computed** (`transpose_multiply`, then `Vec.dot`) against the exact bilinear
form: constant `(1+u)^(rows+cols+2) - 1`. -/
theorem bilinear_rounding_right {s : Sp (Fl M)} (h : WF s) (hnd : NoDup s) (x y : Array (Fl M))
    (hx : x.size = s.cols) (hy : y.size = s.rows) :
    ∃ v d, transposeMultiply s y = .ok v ∧ Vec.dot v x = .ok d ∧
      |d.val - bilin s x y| ≤ M.gam (s.rows + s.cols + 2) * absBilin s x y := by
  obtain ⟨v, hv1, hv2, hv3⟩ := transposeMultiply_rounding_rows h hnd y hy
  obtain ⟨d, hd1, hd2⟩ := C16.dot_rounding v x (by omega)
  refine ⟨v, d, hv1, hd1, ?_⟩
  simp only [C16.exactDot, C16.absDot, C16.term, hv2] at hd2
  rw [Finset.sum_congr rfl (fun j _ => mul_comm (v.getD j 0).val (x.getD j 0).val),
    Finset.sum_congr rfl (fun j _ => congrArg abs (mul_comm (v.getD j 0).val (x.getD j 0).val))]
    at hd2
  have := perturbed_dot_bound s.cols d.val (fun j => (x.getD j 0).val) (fun j => (v.getD j 0).val)
    (fun j => ∑ i ∈ Finset.range s.rows, entryR s i j * (y.getD i 0).val)
    (fun j => ∑ i ∈ Finset.range s.rows, |entryR s i j * (y.getD i 0).val|)
    (M.gam (s.cols + 1)) (M.gam (s.rows + 1)) (M.gam_nonneg _) (M.gam_nonneg _) hd2 hv3
    (fun i _ => Finset.abs_sum_le_sum_abs _ _)
  have e1 : ∑ j ∈ Finset.range s.cols, (x.getD j 0).val
      * ∑ i ∈ Finset.range s.rows, entryR s i j * (y.getD i 0).val = bilin s x y := by
    unfold bilin
    rw [Finset.sum_comm]
    refine Finset.sum_congr rfl (fun j _ => ?_)
    rw [Finset.mul_sum]
    refine Finset.sum_congr rfl (fun i _ => ?_)
    ring
  have e2 : ∑ j ∈ Finset.range s.cols, |(x.getD j 0).val|
      * ∑ i ∈ Finset.range s.rows, |entryR s i j * (y.getD i 0).val| = absBilin s x y := by
    unfold absBilin
    rw [Finset.sum_comm]
    refine Finset.sum_congr rfl (fun j _ => ?_)
    rw [Finset.mul_sum]
    refine Finset.sum_congr rfl (fun i _ => ?_)
    rw [← abs_mul]
    congr 1
    ring
  have e3 : M.gam (s.cols + 1) * (1 + M.gam (s.rows + 1)) + M.gam (s.rows + 1)
      = M.gam (s.rows + s.cols + 2) := by
    rw [show s.rows + s.cols + 2 = (s.rows + 1) + (s.cols + 1) by omega]
    exact (M.gam_add (s.rows + 1) (s.cols + 1)).symm
  rwa [e1, e2, e3] at this

/-- **C07F-4, the adjoint identity up to rounding**: the two computed values of `yᵀ A x`,
`⟨y, A x⟩` (`multiply` then `Vec.dot`) and `⟨Aᵀ y, x⟩` (`transpose_multiply` then `Vec.dot`),
differ by at most `2 ((1+u)^(rows+cols+2) - 1) · Σ_ij |y_i a_ij x_j|`. -/
theorem adjoint_rounding {s : Sp (Fl M)} (h : WF s) (hnd : NoDup s) (x y : Array (Fl M))
    (hx : x.size = s.cols) (hy : y.size = s.rows) :
    ∃ u v d1 d2, multiply s x = .ok u ∧ transposeMultiply s y = .ok v ∧
      Vec.dot y u = .ok d1 ∧ Vec.dot v x = .ok d2 ∧
      |d1.val - d2.val| ≤ 2 * M.gam (s.rows + s.cols + 2) * absBilin s x y := by
  obtain ⟨u, d1, a1, a2, a3⟩ := bilinear_rounding_left h hnd x y hx hy
  obtain ⟨v, d2, b1, b2, b3⟩ := bilinear_rounding_right h hnd x y hx hy
  refine ⟨u, v, d1, d2, a1, b1, a2, b2, ?_⟩
  have e : d1.val - d2.val = (d1.val - bilin s x y) - (d2.val - bilin s x y) := by ring
  rw [e]
  refine (abs_sub _ _).trans ?_
  linarith

end Rounding

/-! ### non-vacuity -/

section Examples
open Fl

/-- the 2×3 matrix `[[1,0,4],[2,3,0]]` in any rounded-reals model -/
def demoF (M : FlModel) : Sp (Fl M) :=
  ⟨2, 3, 4, #[⟨1⟩, ⟨2⟩, ⟨3⟩, ⟨4⟩], #[0, 1, 1, 0], #[0, 2, 3, 4]⟩

/-- the hypotheses `WF`, `NoDup` are satisfiable (in every model) -/
theorem demoF_wf (M : FlModel) : WF (demoF M) ∧ NoDup (demoF M) := by
  refine ⟨⟨rfl, rfl, ?_, rfl, rfl, rfl, ?_⟩, ?_⟩
  · intro j hj
    have : j = 0 ∨ j = 1 ∨ j = 2 := by simp only [demoF] at hj; omega
    rcases this with rfl | rfl | rfl <;> simp [Sp.cs, demoF]
  · intro k hk
    have : k = 0 ∨ k = 1 ∨ k = 2 ∨ k = 3 := by simp only [demoF] at hk; omega
    rcases this with rfl | rfl | rfl | rfl <;> simp [Sp.ri, demoF]
  · intro j hj k k' a b c d e
    have hj' : j < 3 := hj
    interval_cases j <;> simp [Sp.cs, demoF] at a b c d <;>
      interval_cases k <;> interval_cases k' <;> simp_all [Sp.ri, demoF]

/-- row 0 holds two entries, column 0 two: the constants of `multiply_rounding` /
`transposeMultiply_rounding` there are `gam 3` -/
example (M : FlModel) : rowCount (demoF M) 0 = 2 ∧ colCount (demoF M) 0 = 2 := by
  constructor <;> rfl

/-- the theorems apply to `demoF` in the binary64-significand model -/
example (x : Array (Fl FlModel.binary64)) (hx : x.size = 3) :
    ∃ y, multiply (demoF FlModel.binary64) x = .ok y ∧ y.size = 2 ∧ ∀ i, i < 2 →
      |(y.getD i 0).val - ∑ j ∈ Finset.range 3, entryR (demoF FlModel.binary64) i j * (x.getD j 0).val|
        ≤ FlModel.binary64.gam (rowCount (demoF FlModel.binary64) i + 1)
          * ∑ j ∈ Finset.range 3, |entryR (demoF FlModel.binary64) i j * (x.getD j 0).val| :=
  multiply_rounding (demoF_wf _).1 (demoF_wf _).2 x hx

/-- exact arithmetic is a model; there the bound collapses to equality with `Σ_j a_ij x_j` -/
example (s : Sp (Fl FlModel.exact)) (h : WF s) (hnd : NoDup s) (x : Array (Fl FlModel.exact))
    (hx : x.size = s.cols) :
    ∃ y, multiply s x = .ok y ∧ ∀ i, i < s.rows →
      (y.getD i 0).val = ∑ j ∈ Finset.range s.cols, entryR s i j * (x.getD j 0).val := by
  obtain ⟨y, h1, _, h3⟩ := multiply_rounding h hnd x hx
  refine ⟨y, h1, fun i hi => ?_⟩
  have := h3 i hi
  have hg : FlModel.exact.gam (rowCount s i + 1) = 0 := by simp [FlModel.gam, FlModel.exact]
  rw [hg, zero_mul] at this
  exact sub_eq_zero.mp (abs_nonpos_iff.mp this)

/-- the constant `rowCount + 1` cannot be lowered in the abstract standard model: with
`fl x = (1 + 2⁻⁵³) x` the 1×1 product `[a]·[1]` is computed as `(1+u)² a` (one rounded product, one
rounded addition `0 + ·`), so the bound of `multiply_rounding` (`gam 2 · |a|`) is attained. -/
example (a : ℝ) :
    let M := FlModel.scale (2 ^ (-53 : ℤ)) (by positivity)
    let s : Sp (Fl M) := ⟨1, 1, 1, #[⟨a⟩], #[0], #[0, 1]⟩
    let x : Array (Fl M) := #[1]
    ∃ y, multiply s x = .ok y ∧
      |(y.getD 0 0).val - ∑ j ∈ Finset.range s.cols, entryR s 0 j * (x.getD j 0).val|
        = M.gam (rowCount s 0 + 1) * ∑ j ∈ Finset.range s.cols, |entryR s 0 j * (x.getD j 0).val| := by
  intro M s x
  have hy : multiply s x = .ok #[(0 : Fl M) + (⟨a⟩ : Fl M) * 1] := rfl
  refine ⟨_, hy, ?_⟩
  have hv : ((#[(0 : Fl M) + (⟨a⟩ : Fl M) * 1] : Array (Fl M)).getD 0 0).val
      = (1 + M.u) * (0 + (1 + M.u) * (a * 1)) := rfl
  have he : entryR s 0 0 = a := by
    rw [entryR_eq]
    have : s.cs 0 = 0 ∧ s.cs 1 = 1 := ⟨rfl, rfl⟩
    rw [this.1, this.2]
    simp [Sp.ri, Sp.vl, s]
  have hc : rowCount s 0 = 1 := rfl
  have hg := M.gam_nonneg 2
  have hg2 : M.gam 2 = (1 + M.u) ^ 2 - 1 := rfl
  rw [hv, hc]
  simp only [s, Finset.sum_range_one]
  rw [he]
  have hx0 : (x.getD 0 0).val = 1 := rfl
  rw [hx0]
  have : (1 + M.u) * (0 + (1 + M.u) * (a * 1)) - a * 1 = M.gam 2 * (a * 1) := by rw [hg2]; ring
  rw [this, abs_mul, abs_of_nonneg hg]

end Examples

end Ohsl.Props.C07
