/-
  Property C19 (continued) — the decimal text form of a mesh file (model: Ohsl/Model/Fmt.lean):
  writing with `prec` decimals and reading back reproduces every value to the printed precision.
  Lean's `Float` is opaque, so the statements are about the integer / rational computations inside
  `Fmt.fixed` (`decode`, `roundHalfEven`) and `Fmt.nearest` (its pure companion `nearestME`).

  1. `roundHalfEven_spec` (+ `_err`, `_exact`, `_tie_even`, `_mono`, `_err_rat`)
  2. `decimal_error`, `printed_exact`: |printed − value| ≤ 1/(2·10^prec), exact on short decimals
  3. `fixed_eq`, `fixed_digits`, `fracField_length`, `fields_toNat!`: shape of the text, exactly
     `prec` fraction digits, the digit fields read back (by `String.toNat!`) as the rounded integer
  4. `nearest_eq` (`Fmt.nearest` = `scaleB (ofNat m) e` for `nearestME = some (m, e)`),
     `nearestME_mantissa`, `nearestME_error` (half an ulp), `nearestME_isSome` (fuel 2200 suffices
     for `num/den ≥ 2^-2198`, no upper limit), `nearestME_exact` (representable values are exact)
  5. `roundtrip_error`, `roundtrip_error_total`, `roundtrip_exact`, `roundtrip_exact_total`
  Not proved (string library has no lemmas for `String.splitOn` / `startsWith` / `drop`):
  `Fmt.parse (Fmt.fixed x prec) = ± Fmt.nearest N (10^prec)`; and nothing is said about the
  floating point operations `Float.ofNat`, `Float.scaleB` (opaque).
-/
import Ohsl.Model.Fmt
import Std.Data.String.ToNat
import Mathlib.Tactic.Ring
import Mathlib.Tactic.Linarith
import Mathlib.Tactic.FieldSimp
import Mathlib.Data.Rat.Defs
import Mathlib.Algebra.Order.Field.Rat
import Mathlib.Algebra.Order.Field.Basic
import Mathlib.Algebra.Order.Ring.Abs
import Mathlib.Algebra.Order.Field.Power
set_option linter.unusedSectionVars false
set_option linter.unusedVariables false
set_option linter.unusedSimpArgs false
namespace Ohsl.Props.C19
open Ohsl Ohsl.Fmt

/-! ## 1. `roundHalfEven` -/

/-- the three cases of `roundHalfEven` in terms of quotient and remainder -/
theorem roundHalfEven_cases (num den : Nat) :
    (2 * (num % den) < den ∧ roundHalfEven num den = num / den) ∨
    (den < 2 * (num % den) ∧ roundHalfEven num den = num / den + 1) ∨
    (2 * (num % den) = den ∧ (num / den) % 2 = 0 ∧ roundHalfEven num den = num / den) ∨
    (2 * (num % den) = den ∧ (num / den) % 2 = 1 ∧ roundHalfEven num den = num / den + 1) := by
  unfold roundHalfEven
  simp only []
  by_cases h1 : 2 * (num % den) < den
  · left; simp [h1]
  · by_cases h2 : 2 * (num % den) > den
    · right; left; exact ⟨h2, by simp [h1, h2]⟩
    · have h3 : 2 * (num % den) = den := by omega
      rcases Nat.mod_two_eq_zero_or_one (num / den) with h4 | h4
      · right; right; left; exact ⟨h3, h4, by simp [h1, h2, h4]⟩
      · right; right; right; exact ⟨h3, h4, by simp [h1, h2, h4]⟩

/-- `|n − num/den| ≤ 1/2`, stated without division -/
theorem roundHalfEven_err (num den : Nat) (hd : 0 < den) :
    2 * ((roundHalfEven num den : Int) * den - num).natAbs ≤ den := by
  have hdm : den * (num / den) + num % den = num := Nat.div_add_mod num den
  have hr : num % den < den := Nat.mod_lt _ hd
  generalize hq : num / den = q at *
  generalize hrr : num % den = r at *
  have hnum : (num : Int) = (den : Int) * q + r := by exact_mod_cast hdm.symm
  rcases roundHalfEven_cases num den with h | h | h | h <;> rw [hq, hrr] at h
  · rw [h.2, hnum]
    have : ((q : Int) * den - (den * q + r)) = -(r : Int) := by ring
    rw [this]; omega
  · rw [h.2, hnum]
    have : (((q + 1 : Nat) : Int) * den - (den * q + r)) = (den : Int) - r := by push_cast; ring
    rw [this]; omega
  · rw [h.2.2, hnum]
    have : ((q : Int) * den - (den * q + r)) = -(r : Int) := by ring
    rw [this]; omega
  · rw [h.2.2, hnum]
    have : (((q + 1 : Nat) : Int) * den - (den * q + r)) = (den : Int) - r := by push_cast; ring
    rw [this]; omega

/-- an exact division is returned unchanged -/
theorem roundHalfEven_exact (num den : Nat) (hd : 0 < den) (h : den ∣ num) :
    roundHalfEven num den = num / den := by
  have h0 : num % den = 0 := Nat.mod_eq_zero_of_dvd h
  rcases roundHalfEven_cases num den with h | h | h | h <;> omega

theorem roundHalfEven_mul (m den : Nat) (hd : 0 < den) : roundHalfEven (m * den) den = m := by
  rw [roundHalfEven_exact _ _ hd (Dvd.intro_left m rfl), Nat.mul_div_cancel _ hd]

/-- on a tie the even neighbour is chosen -/
theorem roundHalfEven_tie_even (num den : Nat) (h : 2 * (num % den) = den) :
    roundHalfEven num den % 2 = 0 := by
  rcases roundHalfEven_cases num den with h | h | h | h <;> omega

/-- the result is the floor or the ceiling of `num/den` -/
theorem roundHalfEven_floor_ceil (num den : Nat) :
    roundHalfEven num den = num / den ∨ roundHalfEven num den = num / den + 1 := by
  rcases roundHalfEven_cases num den with h | h | h | h <;> omega

/-- monotone in the numerator -/
theorem roundHalfEven_mono (den : Nat) (hd : 0 < den) {a b : Nat} (hab : a ≤ b) :
    roundHalfEven a den ≤ roundHalfEven b den := by
  have hq : a / den ≤ b / den := Nat.div_le_div_right hab
  have ha := Nat.div_add_mod a den
  have hb := Nat.div_add_mod b den
  rcases Nat.lt_or_eq_of_le hq with hlt | heq
  · rcases roundHalfEven_floor_ceil a den with h1 | h1 <;>
    rcases roundHalfEven_floor_ceil b den with h2 | h2 <;> omega
  · have hr : a % den ≤ b % den := by
      rw [heq] at ha
      have : den * (b / den) + a % den ≤ den * (b / den) + b % den := by omega
      omega
    rcases roundHalfEven_cases a den with h1 | h1 | h1 | h1 <;>
    rcases roundHalfEven_cases b den with h2 | h2 | h2 | h2 <;> omega

/-- The specification of `roundHalfEven` collected: within one half of `num/den`, exact on exact
divisions, even on ties, monotone. -/
theorem roundHalfEven_spec (num den : Nat) (hd : 0 < den) :
    2 * ((roundHalfEven num den : Int) * den - num).natAbs ≤ den ∧
    (den ∣ num → roundHalfEven num den = num / den) ∧
    (2 * (num % den) = den → roundHalfEven num den % 2 = 0) ∧
    (∀ num', num ≤ num' → roundHalfEven num den ≤ roundHalfEven num' den) :=
  ⟨roundHalfEven_err num den hd, roundHalfEven_exact num den hd, roundHalfEven_tie_even num den,
    fun _ h => roundHalfEven_mono den hd h⟩

/-- rational form of the error bound -/
theorem roundHalfEven_err_rat (num den : Nat) (hd : 0 < den) :
    |(roundHalfEven num den : ℚ) - (num : ℚ) / den| ≤ 1 / 2 := by
  have h := roundHalfEven_err num den hd
  have hdq : (0 : ℚ) < den := by exact_mod_cast hd
  have h2 : (2 : ℚ) * |(roundHalfEven num den : ℚ) * den - num| ≤ den := by
    have : ((2 * ((roundHalfEven num den : Int) * den - num).natAbs : Nat) : ℚ) ≤ (den : ℚ) := by
      exact_mod_cast h
    rw [Nat.cast_mul, Nat.cast_natAbs] at this
    push_cast at this
    exact this
  have e : (roundHalfEven num den : ℚ) - (num : ℚ) / den
      = ((roundHalfEven num den : ℚ) * den - num) / den := by
    field_simp
  rw [e, abs_div, abs_of_pos hdq, div_le_iff₀ hdq]
  linarith

/-! ## 2. the printed decimal -/

/-- exact rational value of a decoded double `(negative, num, den)` -/
def val (d : Bool × Nat × Nat) : ℚ := (if d.1 then -1 else 1) * ((d.2.1 : ℚ) / d.2.2)

/-- integer `N` such that the printed decimal is `± N / 10^prec` -/
def printedNum (d : Bool × Nat × Nat) (prec : Nat) : Nat := roundHalfEven (d.2.1 * 10 ^ prec) d.2.2

/-- rational value of the decimal that `Fmt.fixed` prints for a decoded double -/
def printedQ (d : Bool × Nat × Nat) (prec : Nat) : ℚ :=
  (if d.1 then -1 else 1) * ((printedNum d prec : ℚ) / 10 ^ prec)

/-- rational value of the decimal text `Fmt.fixed x prec` of a finite double -/
def printed (x : Float) (prec : Nat) : ℚ := printedQ (decode x) prec

theorem decode_den_pos (x : Float) : 0 < (decode x).2.2 := by
  unfold decode
  simp only []
  split
  · dsimp only
    exact Nat.two_pow_pos 1074
  · split
    · exact Nat.one_pos
    · exact Nat.two_pow_pos _

theorem abs_sign_mul (b : Bool) (a : ℚ) : |(if b then (-1 : ℚ) else 1) * a| = |a| := by
  cases b <;> simp

/-- the printed decimal is within half a unit of the last printed place of the exact value -/
theorem decimal_error_decoded (d : Bool × Nat × Nat) (hd : 0 < d.2.2) (prec : Nat) :
    |printedQ d prec - val d| ≤ 1 / (2 * 10 ^ prec) := by
  obtain ⟨neg, num, den⟩ := d
  simp only [printedQ, val, printedNum] at *
  rw [← mul_sub, abs_sign_mul]
  have hp : (0 : ℚ) < 10 ^ prec := by positivity
  have h := roundHalfEven_err_rat (num * 10 ^ prec) den hd
  have e : (roundHalfEven (num * 10 ^ prec) den : ℚ) / 10 ^ prec - (num : ℚ) / den
      = ((roundHalfEven (num * 10 ^ prec) den : ℚ) - ((num * 10 ^ prec : Nat) : ℚ) / den) / 10 ^ prec := by
    push_cast
    field_simp
  rw [e, abs_div, abs_of_pos hp, div_le_iff₀ hp]
  calc _ ≤ (1 : ℚ) / 2 := h
    _ = 1 / (2 * 10 ^ prec) * 10 ^ prec := by field_simp

/-- `decimal_error`: writing a finite double with `prec` decimals reproduces its exact value to
half a unit of the last printed decimal. -/
theorem decimal_error (x : Float) (prec : Nat) :
    |printed x prec - val (decode x)| ≤ 1 / (2 * 10 ^ prec) :=
  decimal_error_decoded _ (decode_den_pos x) prec

/-- a value with at most `prec` decimals is printed exactly -/
theorem printed_exact_decoded (d : Bool × Nat × Nat) (hd : 0 < d.2.2) (prec : Nat)
    (h : d.2.2 ∣ d.2.1 * 10 ^ prec) : printedQ d prec = val d := by
  obtain ⟨neg, num, den⟩ := d
  simp only [printedQ, val, printedNum] at *
  obtain ⟨k, hk⟩ := h
  have hdq : (den : ℚ) ≠ 0 := by exact_mod_cast hd.ne'
  have hkq : (num : ℚ) * 10 ^ prec = den * k := by exact_mod_cast hk
  rw [hk, Nat.mul_comm den k, roundHalfEven_mul _ _ hd]
  congr 1
  have hp : (10 : ℚ) ^ prec ≠ 0 := by positivity
  field_simp
  linarith

theorem printed_exact (x : Float) (prec : Nat)
    (h : (decode x).2.2 ∣ (decode x).2.1 * 10 ^ prec) : printed x prec = val (decode x) :=
  printed_exact_decoded _ (decode_den_pos x) prec h

/-! ## 3. the text written by `Fmt.fixed` -/

/-- the zero-padded fractional field written by `Fmt.fixed` -/
def fracField (fp prec : Nat) : String :=
  String.ofList (List.replicate (prec - (toString fp).length) '0') ++ toString fp

/-- for a finite `x` the text is `sign ++ integer part ++ "." ++ zero-padded fraction` -/
theorem fixed_eq (x : Float) (prec : Nat) (hn : x.isNaN = false) (hi : x.isInf = false) :
    Fmt.fixed x prec =
      (if (decode x).1 then "-" else "") ++
        toString (printedNum (decode x) prec / 10 ^ prec) ++
        (if prec == 0 then "" else "." ++ fracField (printedNum (decode x) prec % 10 ^ prec) prec) := by
  unfold Fmt.fixed
  simp only [hn, hi, fracField, printedNum]
  rfl

theorem fixed_nan (x : Float) (prec : Nat) (h : x.isNaN = true) : Fmt.fixed x prec = "NaN" := by
  unfold Fmt.fixed; simp only [h, if_true]

theorem fixed_inf (x : Float) (prec : Nat) (hn : x.isNaN = false) (h : x.isInf = true) :
    Fmt.fixed x prec = if x < 0 then "-inf" else "inf" := by
  unfold Fmt.fixed; simp only [hn, h, if_true]; rfl

/-- a number below `10^prec` fills the fractional field to exactly `prec` characters -/
theorem fracField_length (fp prec : Nat) (hp : 0 < prec) (h : fp < 10 ^ prec) :
    (fracField fp prec).length = prec := by
  have := (Nat.length_repr_le_iff (n := fp) hp).2 h
  simp [fracField]
  omega

theorem toNat!_of_toNat? {s : String} {n : Nat} (h : s.toNat? = some n) : s.toNat! = n := by
  have hn : s.toSlice.isNat = true := by
    have := String.isNat_of_toNat?_eq_some h
    simpa using this
  unfold String.toNat? String.Slice.toNat? at h
  unfold String.toNat! String.Slice.toNat!
  rw [if_pos hn] at h ⊢
  exact Option.some.inj h

/-- digits of `ip`, then `k` zeros, then the digits of `fp`, read as one decimal number -/
theorem toNat?_repr_zeros_repr (ip fp k : Nat) :
    (toString ip ++ (String.ofList (List.replicate k '0') ++ toString fp)).toNat?
      = some (ip * 10 ^ (k + (toString fp).length) + fp) := by
  have hdig : ∀ c ∈ (toString ip ++ (String.ofList (List.replicate k '0') ++ toString fp)).toList,
      c.isDigit = true := by
    intro c hc
    simp only [Nat.toString_eq_repr, String.toList_append, Nat.toList_repr, String.toList_ofList,
      List.mem_append, List.mem_replicate] at hc
    rcases hc with hc | ⟨_, rfl⟩ | hc
    · exact Nat.isDigit_of_mem_toDigits (by decide) (by decide) hc
    · decide
    · exact Nat.isDigit_of_mem_toDigits (by decide) (by decide) hc
  have hne : (toString ip ++ (String.ofList (List.replicate k '0') ++ toString fp)) ≠ "" := by
    intro h
    have := congrArg String.length h
    simp at this
  rw [String.toNat?_eq_some_ofDigitChars (String.isNat_of_isDigit hne hdig)]
  rw [List.filter_eq_self.2 (fun c hc => by
    have := hdig c hc
    simp only [bne_iff_ne, ne_eq]
    rintro rfl
    simp at this)]
  simp only [Nat.toString_eq_repr, String.toList_append, Nat.toList_repr, String.toList_ofList,
    Nat.ofDigitChars_append, Nat.ofDigitChars_ten_toDigits, Nat.ofDigitChars_replicate_zero]
  rw [Nat.ofDigitChars_eq_ofDigitChars_zero, Nat.ofDigitChars_ten_toDigits]
  have hl : fp.repr.length = (Nat.toDigits 10 fp).length := by simp [Nat.repr_eq_ofList_toDigits]
  rw [hl, Nat.pow_add]
  congr 1
  ring

/-- the integer and fraction fields, concatenated as `Fmt.parse` does (`(a ++ b).toNat!`), read
back as the integer `ip * 10^prec + fp` -/
theorem fields_toNat! (ip fp prec : Nat) (hp : 0 < prec) (h : fp < 10 ^ prec) :
    (toString ip ++ fracField fp prec).toNat! = ip * 10 ^ prec + fp := by
  have hlen := (Nat.length_repr_le_iff (n := fp) hp).2 h
  have := toNat?_repr_zeros_repr ip fp (prec - (toString fp).length)
  rw [show prec - (toString fp).length + (toString fp).length = prec from
    Nat.sub_add_cancel (by simpa using hlen)] at this
  exact toNat!_of_toNat? this

/-- `fixed_digits`: for a finite `x`, `Fmt.fixed x prec` is the sign, the decimal digits of `ip`,
and (for `prec > 0`) a point followed by exactly `prec` digits, where `ip * 10^prec + fp` is the
half-even rounding `N` of `num * 10^prec / den`; the digit fields read back as `N`, so the text
denotes `± N / 10^prec = printed x prec`. -/
theorem fixed_digits (x : Float) (prec : Nat) (hn : x.isNaN = false) (hi : x.isInf = false) :
    ∃ ip fp : Nat,
      ip * 10 ^ prec + fp = printedNum (decode x) prec ∧ fp < 10 ^ prec ∧
      Fmt.fixed x prec = (if (decode x).1 then "-" else "") ++ toString ip ++
        (if prec == 0 then "" else "." ++ fracField fp prec) ∧
      (0 < prec → (fracField fp prec).length = prec ∧
        (toString ip ++ fracField fp prec).toNat! = printedNum (decode x) prec) ∧
      (prec = 0 → (toString ip).toNat! = printedNum (decode x) prec) := by
  have h10 : 0 < 10 ^ prec := Nat.pow_pos (by decide)
  have hdm : printedNum (decode x) prec / 10 ^ prec * 10 ^ prec + printedNum (decode x) prec % 10 ^ prec
      = printedNum (decode x) prec := by
    rw [Nat.mul_comm]; exact Nat.div_add_mod _ _
  have hlt := Nat.mod_lt (printedNum (decode x) prec) h10
  refine ⟨_, _, hdm, hlt, fixed_eq x prec hn hi, fun hp => ⟨fracField_length _ _ hp hlt, ?_⟩, ?_⟩
  · rw [fields_toNat! _ _ _ hp hlt, hdm]
  · rintro rfl
    rw [Nat.pow_zero, Nat.div_one]
    exact toNat!_of_toNat? (Nat.toNat?_repr _)

/-! ## 4. the nearest double: pure companion of `Fmt.nearest` -/

/-- the scaled fraction `n'/d' = (num/den) / 2^e` that `Fmt.nearest` forms at exponent `e` -/
def scaled (num den : Nat) (e : Int) : Nat × Nat :=
  if e ≥ 0 then (num, den * 2 ^ e.toNat) else (num * 2 ^ (-e).toNat, den)

/-- pure companion of `Fmt.nearest.go`: the mantissa and exponent it selects -/
def nearestGo (num den : Nat) : Nat → Int → Option (Nat × Int)
  | 0, _ => none
  | fuel + 1, e =>
    let q := (scaled num den e).1 / (scaled num den e).2
    if q < 2 ^ 52 then nearestGo num den fuel (e - 1)
    else if q ≥ 2 ^ 53 then nearestGo num den fuel (e + 1)
    else some (roundHalfEven (scaled num den e).1 (scaled num den e).2, e)

/-- pure companion of `Fmt.nearest`: `some (m, e)` when it returns `Float.scaleB (Float.ofNat m) e` -/
def nearestME (num den : Nat) : Option (Nat × Int) :=
  if num == 0 then none else nearestGo num den 2200 (((num.log2 - den.log2 : Nat) : Int) - 52)

theorem nearest_go_eq (num den fuel : Nat) (e : Int) :
    Fmt.nearest.go num den fuel e =
      match nearestGo num den fuel e with
      | some (m, e) => Float.scaleB (Float.ofNat m) e
      | none => 0.0 := by
  induction fuel generalizing e with
  | zero => rfl
  | succ fuel ih =>
    unfold Fmt.nearest.go nearestGo scaled
    by_cases he : e ≥ 0
    · simp only [he, if_true]
      split
      · exact ih _
      · split
        · exact ih _
        · rfl
    · simp only [he, if_false]
      split
      · exact ih _
      · split
        · exact ih _
        · rfl

theorem nearest_eq (num den : Nat) :
    Fmt.nearest num den =
      match nearestME num den with
      | some (m, e) => Float.scaleB (Float.ofNat m) e
      | none => 0.0 := by
  unfold Fmt.nearest nearestME
  by_cases h : (num == 0) = true
  · simp only [h, if_true]
  · simp only [h, if_false]
    exact nearest_go_eq _ _ _ _

theorem scaled_den_pos (num den : Nat) (hd : 0 < den) (e : Int) : 0 < (scaled num den e).2 := by
  unfold scaled
  split
  · exact Nat.mul_pos hd (Nat.two_pow_pos _)
  · exact hd

/-- `n'/d' = (num/den) / 2^e` -/
theorem scaled_ratio (num den : Nat) (hd : 0 < den) (e : Int) :
    ((scaled num den e).1 : ℚ) / (scaled num den e).2 = (num : ℚ) / den / 2 ^ e := by
  have hdq : (den : ℚ) ≠ 0 := by exact_mod_cast hd.ne'
  unfold scaled
  split
  · rename_i he
    have : e = (e.toNat : Int) := (Int.toNat_of_nonneg he).symm
    rw [this]; simp only [Int.toNat_natCast, zpow_natCast]
    push_cast
    rw [div_div]
  · rename_i he
    have : e = -((-e).toNat : Int) := by rw [Int.toNat_of_nonneg (by omega)]; ring
    rw [this]; simp only [neg_neg, Int.toNat_natCast, zpow_neg, zpow_natCast]
    push_cast
    field_simp

/-- the integer quotient at exponent `e` is `⌊(num/den) / 2^e⌋` -/
theorem le_scaled_quot_iff (num den : Nat) (hd : 0 < den) (e : Int) (k : Nat) :
    k ≤ (scaled num den e).1 / (scaled num den e).2 ↔ (k : ℚ) * 2 ^ e ≤ (num : ℚ) / den := by
  have hd' := scaled_den_pos num den hd e
  have hdq : (0 : ℚ) < (scaled num den e).2 := by exact_mod_cast hd'
  have h2 : (0 : ℚ) < 2 ^ e := by positivity
  rw [Nat.le_div_iff_mul_le hd', ← le_div_iff₀ h2, ← scaled_ratio num den hd e, le_div_iff₀ hdq]
  exact_mod_cast Iff.rfl

theorem nearestGo_some (num den : Nat) (fuel : Nat) (e : Int) (m : Nat) (e' : Int)
    (h : nearestGo num den fuel e = some (m, e')) :
    2 ^ 52 ≤ (scaled num den e').1 / (scaled num den e').2 ∧
    (scaled num den e').1 / (scaled num den e').2 < 2 ^ 53 ∧
    m = roundHalfEven (scaled num den e').1 (scaled num den e').2 := by
  induction fuel generalizing e with
  | zero => simp [nearestGo] at h
  | succ fuel ih =>
    unfold nearestGo at h
    simp only [] at h
    split at h
    · exact ih _ h
    · split at h
      · exact ih _ h
      · simp only [Option.some.injEq, Prod.mk.injEq] at h
        obtain ⟨rfl, rfl⟩ := h
        exact ⟨by omega, by omega, rfl⟩

theorem nearestME_some (num den : Nat) (m : Nat) (e : Int) (h : nearestME num den = some (m, e)) :
    2 ^ 52 ≤ (scaled num den e).1 / (scaled num den e).2 ∧
    (scaled num den e).1 / (scaled num den e).2 < 2 ^ 53 ∧
    m = roundHalfEven (scaled num den e).1 (scaled num den e).2 := by
  unfold nearestME at h
  split at h
  · simp at h
  · exact nearestGo_some _ _ _ _ _ _ h

/-- the selected mantissa has 53 bits (or is `2^53`, when rounding carries) -/
theorem nearestME_mantissa (num den : Nat) (hd : 0 < den) (m : Nat) (e : Int)
    (h : nearestME num den = some (m, e)) : 2 ^ 52 ≤ m ∧ m ≤ 2 ^ 53 := by
  obtain ⟨h1, h2, rfl⟩ := nearestME_some num den m e h
  have hd' := scaled_den_pos num den hd e
  constructor
  · have := roundHalfEven_mono _ hd' ((Nat.le_div_iff_mul_le hd').1 h1)
    rwa [roundHalfEven_mul _ _ hd'] at this
  · have := roundHalfEven_mono _ hd' (Nat.le_of_lt ((Nat.div_lt_iff_lt_mul hd').1 h2))
    rwa [roundHalfEven_mul _ _ hd'] at this

/-- the selected `m * 2^e` is within half a unit in the last place (`2^e / 2`) of `num/den` -/
theorem nearestME_error (num den : Nat) (hd : 0 < den) (m : Nat) (e : Int)
    (h : nearestME num den = some (m, e)) :
    |(m : ℚ) * 2 ^ e - (num : ℚ) / den| ≤ 2 ^ e / 2 := by
  obtain ⟨h1, h2, rfl⟩ := nearestME_some num den m e h
  have hd' := scaled_den_pos num den hd e
  have herr := roundHalfEven_err_rat (scaled num den e).1 (scaled num den e).2 hd'
  rw [scaled_ratio num den hd e] at herr
  have h2e : (0 : ℚ) < 2 ^ e := by positivity
  have e1 : (roundHalfEven (scaled num den e).1 (scaled num den e).2 : ℚ) * 2 ^ e - (num : ℚ) / den
      = ((roundHalfEven (scaled num den e).1 (scaled num den e).2 : ℚ) - (num : ℚ) / den / 2 ^ e) * 2 ^ e := by
    field_simp
  rw [e1, abs_mul, abs_of_pos h2e]
  calc _ ≤ (1 / 2 : ℚ) * 2 ^ e := mul_le_mul_of_nonneg_right herr h2e.le
    _ = 2 ^ e / 2 := by ring

theorem two_zpow_succ_le {a b : ℤ} (h : a + 1 ≤ b) : (2 : ℚ) * 2 ^ a ≤ 2 ^ b := by
  have : (2 : ℚ) * 2 ^ a = 2 ^ (a + 1) := by rw [zpow_add_one₀ (by norm_num)]; ring
  rw [this]; exact zpow_le_zpow_right₀ (by norm_num) h

/-- `es` brackets `num/den`: `2^52 ≤ (num/den) / 2^es < 2^53` -/
def InBinade (num den : Nat) (es : Int) : Prop :=
  (2 : ℚ) ^ 52 * 2 ^ es ≤ (num : ℚ) / den ∧ (num : ℚ) / den < (2 : ℚ) ^ 53 * 2 ^ es

theorem nearestGo_reaches (num den : Nat) (hd : 0 < den) (es : Int) (hb : InBinade num den es)
    (fuel : Nat) (e : Int) (hf : (e - es).natAbs < fuel) :
    nearestGo num den fuel e = some (roundHalfEven (scaled num den es).1 (scaled num den es).2, es) := by
  obtain ⟨h1, h2⟩ := hb
  have key52 : ∀ e : ℤ, 2 ^ 52 ≤ (scaled num den e).1 / (scaled num den e).2 ↔
      (2 : ℚ) ^ 52 * 2 ^ e ≤ (num : ℚ) / den := fun e => by
    have := le_scaled_quot_iff num den hd e (2 ^ 52)
    rwa [Nat.cast_pow, Nat.cast_ofNat] at this
  have key53 : ∀ e : ℤ, 2 ^ 53 ≤ (scaled num den e).1 / (scaled num den e).2 ↔
      (2 : ℚ) ^ 53 * 2 ^ e ≤ (num : ℚ) / den := fun e => by
    have := le_scaled_quot_iff num den hd e (2 ^ 53)
    rwa [Nat.cast_pow, Nat.cast_ofNat] at this
  induction fuel generalizing e with
  | zero => omega
  | succ fuel ih =>
    unfold nearestGo
    simp only []
    have hpos : ∀ t : ℤ, (0 : ℚ) < 2 ^ t := fun t => by positivity
    rcases lt_trichotomy e es with hlt | heq | hgt
    · have hq : 2 ^ 53 ≤ (scaled num den e).1 / (scaled num den e).2 := by
        rw [key53]
        have := two_zpow_succ_le (a := e) (b := es) (by omega)
        calc (2 : ℚ) ^ 53 * 2 ^ e = 2 ^ 52 * (2 * 2 ^ e) := by ring
          _ ≤ 2 ^ 52 * 2 ^ es := by gcongr
          _ ≤ _ := h1
      rw [if_neg (by omega), if_pos hq]
      exact ih _ (by omega)
    · subst heq
      have hq1 : 2 ^ 52 ≤ (scaled num den e).1 / (scaled num den e).2 := (key52 e).2 h1
      have hq2 : ¬ 2 ^ 53 ≤ (scaled num den e).1 / (scaled num den e).2 := by
        rw [key53]; exact not_le.2 h2
      rw [if_neg (by omega), if_neg hq2]
    · have hq : ¬ 2 ^ 52 ≤ (scaled num den e).1 / (scaled num den e).2 := by
        rw [key52, not_le]
        have := two_zpow_succ_le (a := es) (b := e) (by omega)
        calc _ < (2 : ℚ) ^ 53 * 2 ^ es := h2
          _ = 2 ^ 52 * (2 * 2 ^ es) := by ring
          _ ≤ 2 ^ 52 * 2 ^ e := by gcongr
      rw [if_pos (by omega)]
      exact ih _ (by omega)

theorem two_pow_mul_zpow (n : ℕ) (t : ℤ) : (2 : ℚ) ^ n * 2 ^ t = 2 ^ ((n : ℤ) + t) := by
  rw [zpow_add₀ (by norm_num : (2 : ℚ) ≠ 0), zpow_natCast]

/-- `2^(log2 num - log2 den - 1) < num/den < 2^(log2 num - log2 den + 1)` -/
theorem ratio_log2_bounds (num den : Nat) (hn : 0 < num) (hd : 0 < den) :
    (2 : ℚ) ^ ((num.log2 : ℤ) - den.log2 - 1) < (num : ℚ) / den ∧
    (num : ℚ) / den < (2 : ℚ) ^ ((num.log2 : ℤ) - den.log2 + 1) := by
  have hdq : (0 : ℚ) < den := by exact_mod_cast hd
  have ha1 : ((2 : ℚ) ^ (num.log2 : ℤ)) ≤ num := by
    rw [zpow_natCast]; exact_mod_cast Nat.log2_self_le hn.ne'
  have ha2 : (num : ℚ) < (2 : ℚ) ^ ((num.log2 : ℤ) + 1) := by
    have : (num : ℚ) < ((2 ^ (num.log2 + 1) : Nat) : ℚ) := by exact_mod_cast Nat.lt_log2_self (n := num)
    rw [show ((num.log2 : ℤ) + 1) = ((num.log2 + 1 : Nat) : ℤ) by push_cast; rfl, zpow_natCast]
    exact_mod_cast this
  have hb1 : ((2 : ℚ) ^ (den.log2 : ℤ)) ≤ den := by
    rw [zpow_natCast]; exact_mod_cast Nat.log2_self_le hd.ne'
  have hb2 : (den : ℚ) < (2 : ℚ) ^ ((den.log2 : ℤ) + 1) := by
    have : (den : ℚ) < ((2 ^ (den.log2 + 1) : Nat) : ℚ) := by exact_mod_cast Nat.lt_log2_self (n := den)
    rw [show ((den.log2 : ℤ) + 1) = ((den.log2 + 1 : Nat) : ℤ) by push_cast; rfl, zpow_natCast]
    exact_mod_cast this
  generalize (num.log2 : ℤ) = a at *
  generalize (den.log2 : ℤ) = b at *
  have two : (2 : ℚ) ≠ 0 := by norm_num
  have hpos : ∀ t : ℤ, (0 : ℚ) < 2 ^ t := fun t => by positivity
  constructor
  · rw [lt_div_iff₀ hdq]
    calc (2 : ℚ) ^ (a - b - 1) * den < 2 ^ (a - b - 1) * 2 ^ (b + 1) := by gcongr
      _ = 2 ^ a := by rw [← zpow_add₀ two]; congr 1; ring
      _ ≤ num := ha1
  · rw [div_lt_iff₀ hdq]
    calc (num : ℚ) < 2 ^ (a + 1) := ha2
      _ = 2 ^ (a - b + 1) * 2 ^ b := by rw [← zpow_add₀ two]; congr 1; ring
      _ ≤ 2 ^ (a - b + 1) * den := by gcongr

/-- the bracketing exponent is `log2 num - log2 den - 52` or one less -/
theorem bracket_near (num den : Nat) (hn : 0 < num) (hd : 0 < den) (es : Int)
    (hb : InBinade num den es) :
    (num.log2 : Int) - den.log2 - 53 ≤ es ∧ es ≤ (num.log2 : Int) - den.log2 - 52 := by
  obtain ⟨h1, h2⟩ := hb
  obtain ⟨hx1, hx2⟩ := ratio_log2_bounds num den hn hd
  rw [two_pow_mul_zpow] at h1 h2
  have l1 := (zpow_lt_zpow_iff_right₀ (a := (2 : ℚ)) (by norm_num)).1 (lt_of_le_of_lt h1 hx2)
  have l2 := (zpow_lt_zpow_iff_right₀ (a := (2 : ℚ)) (by norm_num)).1 (lt_trans hx1 h2)
  push_cast at l1 l2
  constructor <;> omega

/-- a bracketing exponent exists for every positive `num/den` -/
theorem bracket_exists (num den : Nat) (hn : 0 < num) (hd : 0 < den) : ∃ es, InBinade num den es := by
  obtain ⟨hx1, hx2⟩ := ratio_log2_bounds num den hn hd
  generalize (num.log2 : ℤ) - den.log2 = A at *
  by_cases h : (2 : ℚ) ^ A ≤ (num : ℚ) / den
  · refine ⟨A - 52, ?_, ?_⟩
    · rw [two_pow_mul_zpow]; push_cast; rwa [show (52 : ℤ) + (A - 52) = A by ring]
    · rw [two_pow_mul_zpow]; push_cast; rwa [show (53 : ℤ) + (A - 52) = A + 1 by ring]
  · refine ⟨A - 53, ?_, ?_⟩
    · rw [two_pow_mul_zpow]; push_cast; rw [show (52 : ℤ) + (A - 53) = A - 1 by ring]; exact hx1.le
    · rw [two_pow_mul_zpow]; push_cast; rw [show (53 : ℤ) + (A - 53) = A by ring]; exact not_le.1 h

theorem log2_lt_of_le_mul_pow (num den K : Nat) (hd : 0 < den) (hr : den ≤ num * 2 ^ K) :
    den.log2 < num.log2 + 1 + K := by
  rw [Nat.log2_lt hd.ne']
  calc den ≤ num * 2 ^ K := hr
    _ < 2 ^ (num.log2 + 1) * 2 ^ K := Nat.mul_lt_mul_of_pos_right Nat.lt_log2_self (Nat.two_pow_pos K)
    _ = 2 ^ (num.log2 + 1 + K) := by rw [← Nat.pow_add]

/-- the fuel suffices: for `num/den ≥ 2^-2198` (all finite doubles, half the least subnormal
included, are ≥ 2^-1075) and without any upper limit, `nearestME` finds the bracketing exponent. -/
theorem nearestME_eq_of_bracket (num den : Nat) (hn : 0 < num) (hd : 0 < den)
    (hr : den ≤ num * 2 ^ 2198) (es : Int) (hb : InBinade num den es) :
    nearestME num den = some (roundHalfEven (scaled num den es).1 (scaled num den es).2, es) := by
  unfold nearestME
  rw [if_neg (by simp; omega)]
  apply nearestGo_reaches num den hd es hb
  obtain ⟨l1, l2⟩ := bracket_near num den hn hd es hb
  have hlog := log2_lt_of_le_mul_pow num den 2198 hd hr
  omega

/-- `nearestME` succeeds on every positive `num/den ≥ 2^-2198` -/
theorem nearestME_isSome (num den : Nat) (hn : 0 < num) (hd : 0 < den) (hr : den ≤ num * 2 ^ 2198) :
    ∃ m e, nearestME num den = some (m, e) := by
  obtain ⟨es, hb⟩ := bracket_exists num den hn hd
  exact ⟨_, _, nearestME_eq_of_bracket num den hn hd hr es hb⟩

/-- a representable value is selected exactly: if `num/den = m0 * 2^e0` with `0 < m0 < 2^53`
then the mantissa and exponent returned by `nearestME` reproduce `num/den` without error. -/
theorem nearestME_exact (num den : Nat) (hd : 0 < den) (m0 : Nat) (e0 : Int)
    (hm0 : m0 < 2 ^ 53) (hx : (num : ℚ) / den = (m0 : ℚ) * 2 ^ e0) (m : Nat) (e : Int)
    (h : nearestME num den = some (m, e)) : (m : ℚ) * 2 ^ e = (num : ℚ) / den := by
  obtain ⟨h1, h2, rfl⟩ := nearestME_some num den m e h
  have hd' := scaled_den_pos num den hd e
  have hdq' : ((scaled num den e).2 : ℚ) ≠ 0 := by exact_mod_cast hd'.ne'
  have two : (2 : ℚ) ≠ 0 := by norm_num
  have hpos : ∀ t : ℤ, (0 : ℚ) < 2 ^ t := fun t => by positivity
  have k52 := (le_scaled_quot_iff num den hd e (2 ^ 52)).1 h1
  rw [Nat.cast_pow, Nat.cast_ofNat, hx] at k52
  have hm0q : (m0 : ℚ) < 2 ^ 53 := by exact_mod_cast hm0
  -- the exponent found is at most `e0`
  have hle : e ≤ e0 := by
    by_contra hc
    have := two_zpow_succ_le (a := e0) (b := e) (by omega)
    have : (m0 : ℚ) * 2 ^ e0 < 2 ^ 52 * 2 ^ e :=
      calc (m0 : ℚ) * 2 ^ e0 < 2 ^ 53 * 2 ^ e0 := by gcongr
        _ = 2 ^ 52 * (2 * 2 ^ e0) := by ring
        _ ≤ 2 ^ 52 * 2 ^ e := by gcongr
    linarith
  obtain ⟨t, ht⟩ : ∃ t : Nat, e0 = e + t := ⟨(e0 - e).toNat, by omega⟩
  have hM : ((scaled num den e).1 : ℚ) = ((m0 * 2 ^ t : Nat) : ℚ) * (scaled num den e).2 := by
    have := scaled_ratio num den hd e
    rw [hx, ht, zpow_add₀ two, zpow_natCast] at this
    rw [div_eq_iff hdq'] at this
    rw [this]; push_cast; field_simp
  have hM' : (scaled num den e).1 = m0 * 2 ^ t * (scaled num den e).2 := by exact_mod_cast hM
  rw [hM', roundHalfEven_mul _ _ hd', hx, ht, zpow_add₀ two, zpow_natCast]
  push_cast; ring

/-! ## 5. write then read, at the level of exact rational values -/

/-- sign factor of a decoded double -/
def sgn (d : Bool × Nat × Nat) : ℚ := if d.1 then -1 else 1

theorem abs_sgn_mul (d : Bool × Nat × Nat) (a : ℚ) : |sgn d * a| = |a| := abs_sign_mul d.1 a

/-- `roundtrip_error`: the double `± m * 2^e` that `nearestME` selects from the printed decimal
`N / 10^prec` differs from the exact value written by at most half a printed unit plus half an
ulp of the result. -/
theorem roundtrip_error_decoded (d : Bool × Nat × Nat) (hd : 0 < d.2.2) (prec : Nat) (m : Nat) (e : Int)
    (h : nearestME (printedNum d prec) (10 ^ prec) = some (m, e)) :
    |sgn d * ((m : ℚ) * 2 ^ e) - val d| ≤ 1 / (2 * 10 ^ prec) + 2 ^ e / 2 := by
  have h1 := nearestME_error (printedNum d prec) (10 ^ prec) (Nat.pow_pos (by decide)) m e h
  have h2 := decimal_error_decoded d hd prec
  have e1 : sgn d * ((m : ℚ) * 2 ^ e) - val d
      = sgn d * ((m : ℚ) * 2 ^ e - (printedNum d prec : ℚ) / ((10 ^ prec : Nat) : ℚ))
        + (printedQ d prec - val d) := by
    simp only [printedQ, sgn]; push_cast; ring
  rw [e1]
  calc _ ≤ |sgn d * ((m : ℚ) * 2 ^ e - (printedNum d prec : ℚ) / ((10 ^ prec : Nat) : ℚ))|
        + |printedQ d prec - val d| := abs_add_le _ _
    _ ≤ 2 ^ e / 2 + 1 / (2 * 10 ^ prec) := by rw [abs_sgn_mul]; exact add_le_add h1 h2
    _ = _ := add_comm _ _

theorem roundtrip_error (x : Float) (prec : Nat) (m : Nat) (e : Int)
    (h : nearestME (printedNum (decode x) prec) (10 ^ prec) = some (m, e)) :
    |sgn (decode x) * ((m : ℚ) * 2 ^ e) - val (decode x)| ≤ 1 / (2 * 10 ^ prec) + 2 ^ e / 2 :=
  roundtrip_error_decoded _ (decode_den_pos x) prec m e h

/-- `roundtrip_error` with the success of `nearestME` discharged: whenever the printed decimal is
not `0.00…0` and `10^prec ≤ 2^2198` (`prec ≤ 661`), `Fmt.nearest` selects a 53-bit mantissa `m` and
an exponent `e` with `± m * 2^e` within half a printed unit plus half an ulp of the value written. -/
theorem roundtrip_error_total (x : Float) (prec : Nat) (hN : printedNum (decode x) prec ≠ 0)
    (hp : 10 ^ prec ≤ 2 ^ 2198) :
    ∃ m e, nearestME (printedNum (decode x) prec) (10 ^ prec) = some (m, e) ∧
      2 ^ 52 ≤ m ∧ m ≤ 2 ^ 53 ∧
      |sgn (decode x) * ((m : ℚ) * 2 ^ e) - val (decode x)| ≤ 1 / (2 * 10 ^ prec) + 2 ^ e / 2 := by
  have h10 : 0 < 10 ^ prec := Nat.pow_pos (by decide)
  obtain ⟨m, e, hme⟩ := nearestME_isSome _ (10 ^ prec) (Nat.pos_of_ne_zero hN) h10
    (le_trans hp (Nat.le_mul_of_pos_left _ (Nat.pos_of_ne_zero hN)))
  obtain ⟨hm1, hm2⟩ := nearestME_mantissa _ _ h10 m e hme
  exact ⟨m, e, hme, hm1, hm2, roundtrip_error x prec m e hme⟩

/-- when the printed decimal is `0.00…0` (`nearestME` gives `none`, `Fmt.nearest` returns `0.0`)
the value read back is zero, still within half a printed unit -/
theorem roundtrip_error_zero (x : Float) (prec : Nat) (h : printedNum (decode x) prec = 0) :
    |(0 : ℚ) - val (decode x)| ≤ 1 / (2 * 10 ^ prec) := by
  have := decimal_error x prec
  simpa [printed, printedQ, h] using this

/-! ### values of doubles are dyadic, so short decimals survive the round trip exactly -/

theorem div_two_pow (a k : ℕ) : (a : ℚ) / ((2 ^ k : ℕ) : ℚ) = a * 2 ^ (-(k : ℤ)) := by
  rw [Nat.cast_pow, Nat.cast_ofNat, zpow_neg, zpow_natCast, div_eq_mul_inv]

theorem two_pow_le_mul_two_pow (j K m : ℕ) (hj : j ≤ K) (hm : 0 < m) : 2 ^ j ≤ m * 2 ^ K :=
  le_trans (Nat.pow_le_pow_right (by decide) hj) (Nat.le_mul_of_pos_left _ hm)

/-- the exact value of a decoded double is `m0 * 2^e0` with a mantissa below `2^53` -/
theorem decode_dyadic (x : Float) :
    ∃ (m0 : Nat) (e0 : Int), m0 < 2 ^ 53 ∧
      ((decode x).2.1 : ℚ) / (decode x).2.2 = (m0 : ℚ) * 2 ^ e0 := by
  unfold decode
  simp only []
  split
  · dsimp only
    generalize (1074 : ℕ) = K
    exact ⟨_, _, by omega, div_two_pow _ K⟩
  · split
    · dsimp only
      refine ⟨x.toBits.toNat % 2 ^ 52 + 2 ^ 52, ((x.toBits.toNat / 2 ^ 52 % 2048 - 1075 : ℕ) : ℤ),
        by omega, ?_⟩
      rw [zpow_natCast]; push_cast; ring
    · dsimp only
      exact ⟨_, _, by omega, div_two_pow _ _⟩

/-- a non-zero finite double is at least `2^-1074` in magnitude -/
theorem decode_range (x : Float) (h : (decode x).2.1 ≠ 0) :
    (decode x).2.2 ≤ (decode x).2.1 * 2 ^ 1074 := by
  revert h
  unfold decode
  simp only []
  split
  · dsimp only
    intro h
    generalize (1074 : ℕ) = K
    exact two_pow_le_mul_two_pow K K _ (Nat.le_refl _) (Nat.pos_of_ne_zero h)
  · rename_i hex
    split
    · dsimp only
      intro h
      generalize (1074 : ℕ) = K
      exact Nat.mul_pos (Nat.pos_of_ne_zero h) (Nat.two_pow_pos K)
    · dsimp only
      intro h
      exact two_pow_le_mul_two_pow _ 1074 _ (by simp at hex; omega) (Nat.pos_of_ne_zero h)

/-- decoded-triple form of `roundtrip_exact`: a dyadic value `num/den = m0 * 2^e0` (`m0 < 2^53`)
with at most `prec` decimals is recovered exactly from its printed decimal. -/
theorem roundtrip_exact_decoded (d : Bool × Nat × Nat) (hd : 0 < d.2.2) (prec : Nat)
    (m0 : Nat) (e0 : Int) (hm0 : m0 < 2 ^ 53) (hx : (d.2.1 : ℚ) / d.2.2 = (m0 : ℚ) * 2 ^ e0)
    (hdiv : d.2.2 ∣ d.2.1 * 10 ^ prec) (m : Nat) (e : Int)
    (h : nearestME (printedNum d prec) (10 ^ prec) = some (m, e)) :
    sgn d * ((m : ℚ) * 2 ^ e) = val d := by
  have hp := printed_exact_decoded d hd prec hdiv
  have hmag : ((printedNum d prec : ℕ) : ℚ) / ((10 ^ prec : ℕ) : ℚ) = (d.2.1 : ℚ) / d.2.2 := by
    simp only [printedQ, val] at hp
    have hs : (if d.1 then (-1 : ℚ) else 1) ≠ 0 := by split <;> norm_num
    have := mul_left_cancel₀ hs hp
    rw [← this]; push_cast; rfl
  have := nearestME_exact _ _ (Nat.pow_pos (by decide)) m0 e0 hm0 (hmag.trans hx) m e h
  rw [this, hmag]; rfl

/-- `roundtrip_exact`: if the exact value of a finite double has at most `prec` decimals
(`den ∣ num * 10^prec`), the mantissa and exponent selected from the printed decimal give back the
value exactly. -/
theorem roundtrip_exact (x : Float) (prec : Nat)
    (hdiv : (decode x).2.2 ∣ (decode x).2.1 * 10 ^ prec) (m : Nat) (e : Int)
    (h : nearestME (printedNum (decode x) prec) (10 ^ prec) = some (m, e)) :
    sgn (decode x) * ((m : ℚ) * 2 ^ e) = val (decode x) := by
  obtain ⟨m0, e0, hm0, hx⟩ := decode_dyadic x
  exact roundtrip_exact_decoded _ (decode_den_pos x) prec m0 e0 hm0 hx hdiv m e h

/-- an exactly printed non-zero value `N / 10^p = num/den ≥ 2^-K1` is in the range where the fuel
of `nearestME` suffices -/
theorem exact_print_range (num den N p K1 K2 : ℕ) (hnum : 0 < num) (hK : K1 ≤ K2)
    (hr : den ≤ num * 2 ^ K1) (hNeq : N * den = num * 10 ^ p) :
    0 < N ∧ 10 ^ p ≤ N * 2 ^ K2 := by
  have h10 : 0 < 10 ^ p := Nat.pow_pos (by decide)
  constructor
  · rcases Nat.eq_zero_or_pos N with h0 | h0
    · rw [h0, Nat.zero_mul] at hNeq
      exact absurd hNeq.symm (Nat.mul_pos hnum h10).ne'
    · exact h0
  · have h1 : num * 10 ^ p ≤ num * (N * 2 ^ K1) := by
      calc num * 10 ^ p = N * den := hNeq.symm
        _ ≤ N * (num * 2 ^ K1) := Nat.mul_le_mul_left _ hr
        _ = num * (N * 2 ^ K1) := by ring
    have h2 := Nat.le_of_mul_le_mul_left h1 hnum
    exact le_trans h2 (Nat.mul_le_mul_left _ (Nat.pow_le_pow_right (by decide) hK))

/-- … and for a non-zero such value `nearestME` does succeed (the fuel 2200 is enough), so the
rational model of write-then-read is the identity on values with at most `prec` decimals. -/
theorem roundtrip_exact_total (x : Float) (prec : Nat) (hnz : (decode x).2.1 ≠ 0)
    (hdiv : (decode x).2.2 ∣ (decode x).2.1 * 10 ^ prec) :
    ∃ m e, nearestME (printedNum (decode x) prec) (10 ^ prec) = some (m, e) ∧
      sgn (decode x) * ((m : ℚ) * 2 ^ e) = val (decode x) := by
  have hd := decode_den_pos x
  have hNeq : printedNum (decode x) prec * (decode x).2.2 = (decode x).2.1 * 10 ^ prec := by
    rw [printedNum, roundHalfEven_exact _ _ hd hdiv, Nat.div_mul_cancel hdiv]
  obtain ⟨hNpos, hrange⟩ := exact_print_range _ _ _ prec 1074 2198 (Nat.pos_of_ne_zero hnz)
    (by decide) (decode_range x hnz) hNeq
  obtain ⟨m, e, hme⟩ := nearestME_isSome _ (10 ^ prec) hNpos (Nat.pow_pos (by decide)) hrange
  exact ⟨m, e, hme, roundtrip_exact x prec hdiv m e hme⟩

/-! ## examples -/

-- ties go to the even neighbour: 3/8 = 0.375 prints as 0.38, 1/4 = 0.25 prints as 0.2,
-- 1/8 = 0.125 prints as 0.12; non-ties go to the nearer one: 1/3 prints as 0.33, 2/3 as 0.67
example : printedNum (false, 3, 8) 2 = 38 := by decide
example : printedNum (false, 1, 4) 1 = 2 := by decide
example : printedNum (false, 1, 8) 2 = 12 := by decide
example : printedNum (false, 1, 3) 2 = 33 := by decide
example : printedNum (false, 2, 3) 2 = 67 := by decide
example : roundHalfEven 5 2 = 2 ∧ roundHalfEven 7 2 = 4 ∧ roundHalfEven 6 2 = 3 := by decide
-- the text fields
example : toString 0 ++ "." ++ fracField 38 2 = "0.38" := by decide
example : toString 12 ++ "." ++ fracField 5 3 = "12.005" := by decide
-- 0.375 = 3 * 2^51 * 2^-54 is found from the decimal 375/1000 and from 3/8
example : nearestME 375 1000 = some (3 * 2 ^ 51, -54) := by decide
example : nearestME 3 8 = some (3 * 2 ^ 51, -54) := by decide
-- 0.1: mantissa 0x1999999999999a, exponent -56
example : nearestME 1 10 = some (7205759403792794, -56) := by decide
example : InBinade 3 8 (-54) := by
  constructor <;> norm_num [zpow_neg]
-- the hypotheses of `roundtrip_exact_decoded` hold for 3/8 with three decimals
example : sgn (false, 3, 8) * (((3 * 2 ^ 51 : ℕ) : ℚ) * 2 ^ (-54 : ℤ)) = val (false, 3, 8) :=
  roundtrip_exact_decoded (false, 3, 8) (by decide) 3 3 (-3) (by decide)
    (by norm_num [zpow_neg]) (by decide) _ _ (by decide)

end Ohsl.Props.C19
