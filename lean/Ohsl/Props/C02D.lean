/-
  Property C02 (continued) — `determinant()` against `Matrix.det`.
  Model: Ohsl/Model/Solve.lean (`luPivot`, `luElimRow`, `luStep`, `luDecomp`, `determinant`);
  helper lemmas: Ohsl/Lemmas/LUDet.lean.

  Class (E): exact linearly ordered field (`divM` fails only on an exact zero, `mag = |·|`).

  * `luDecomp_total`        the in-place LU factorisation never fails on a square matrix
  * `luDecomp_correct`      `P·A = L·U`, `det P = (-1)^p`, `det U = (-1)^p · det A`
  * `determinant_spec`      `determinant A = .ok (det A)` for EVERY well-formed square matrix
  * `determinant_correct`   the same in `∃ d` form
  * `determinant_total`, `determinant_sound`
  * `determinant_singular`, `determinant_zero_column`, `determinant_equal_rows`,
    `determinant_ok_iff_square`
  * `inverse_correct`       `det A ≠ 0 → inverse A = .ok B` with `A·B = 1` and `B·A = 1`
  * `inverse_singular_rejects`  `det A = 0 → inverse A = .error .arith` (exact division by zero)
  * `inverse_ok_iff`, `inverse_sound`, `inverse_eq_inv`
-/
import Ohsl.Props.C02
import Ohsl.Lemmas.LUDet
import Mathlib.Algebra.Order.Field.Rat
import Mathlib.Tactic.NormNum
set_option linter.unusedSectionVars false
set_option linter.unusedVariables false
set_option linter.unusedSimpArgs false
namespace Ohsl.Props.C02
open Ohsl Ohsl.Mat

section Exact
variable {K : Type} [Field K] [LinearOrder K] [IsStrictOrderedRing K]
attribute [local instance] Alg.scalarExt

/-- (E) the in-place LU factorisation with partial pivoting **never fails on a well-formed square
    matrix** — a column that is zero on and below the diagonal is skipped, so no division by zero
    can occur — and it returns well-formed `n × n` factors and permutation. -/
theorem luDecomp_total {A : Mat K} {n : Nat} {a : Nat → Nat → K} (h : Mat.Is A n n a) :
    ∃ s, luDecomp A = .ok s ∧ s.lu.WF ∧ s.lu.rows = n ∧ s.lu.cols = n ∧
      s.perm.WF ∧ s.perm.rows = n ∧ s.perm.cols = n := by
  obtain ⟨s, w, pe, hs, hw, hpe, _⟩ := luDecomp_det h
  exact ⟨s, hs, hw.wf, hw.rows, hw.cols, hpe.wf, hpe.rows, hpe.cols⟩

/-- (E) **`lu_decomp_in_place` factorises**: with `w` the returned in-place matrix (unit lower
    factor `Mat.Lfn w` = stored multipliers, upper factor `Mat.Umat n n w` = upper triangle of `w`)
    and `pe` the recorded permutation matrix, `P·A = L·U`, `det P = (-1)^pivots` and
    `det U = (-1)^pivots · det A`. -/
theorem luDecomp_correct {A : Mat K} {n : Nat} {a : Nat → Nat → K} (h : Mat.Is A n n a) :
    ∃ (s : LU K) (w pe : Nat → Nat → K), luDecomp A = .ok s ∧ Mat.Is s.lu n n w ∧
      Mat.Is s.perm n n pe ∧
      Mat.toMat n pe * Mat.toMat n a = Mat.toMat n (Mat.Lfn w) * Mat.Umat n n w ∧
      Matrix.det (Mat.toMat n pe) = (-1) ^ s.pivots ∧
      Matrix.det (Mat.Umat n n w) = (-1) ^ s.pivots * Matrix.det (Mat.toMat n a) := by
  obtain ⟨s, w, pe, hs, hw, hpe, hdU, hdP, hLU⟩ := Mat.luDecomp_spec_det h
  exact ⟨s, w, pe, hs, hw, hpe, (Mat.LU_eq_PA hLU).symm, hdP, hdU⟩

/-- (E) **`determinant()` computes the determinant**: on every well-formed square matrix —
    singular ones included — the call succeeds and returns exactly `Matrix.det` of the matrix. -/
theorem determinant_spec {A : Mat K} {n : Nat} {a : Nat → Nat → K} (h : Mat.Is A n n a) :
    Mat.determinant A = .ok (Matrix.det (Matrix.of fun (i j : Fin n) => a i.val j.val)) := by
  obtain ⟨s, w, pe, hs, hw, hpe, hdet⟩ := luDecomp_det h
  unfold determinant
  simp only [hs, bind, Except.bind, h.rows]
  obtain ⟨d, hd, hP⟩ := forM'_inv (fun i (d : K) => d = ∏ k ∈ Finset.range i, w k k) 0 n (1 : K)
    (fun d i => do
      let x ← s.lu.get i i
      pure (d * x)) (Nat.zero_le _) (by simp)
    (by
      intro i d _ hi hd
      refine ⟨d * w i i, by simp only [hw.get hi hi, bind, Except.bind, pure, Except.pure], ?_⟩
      rw [Finset.prod_range_succ, hd])
  have hd' := hd
  simp only [bind, Except.bind, pure, Except.pure] at hd' ⊢
  rw [hd']
  simp only []
  congr 1
  rw [det_Umat_full, ← hP] at hdet
  by_cases hpar : s.pivots % 2 = 0
  · have : (s.pivots % 2 == 0) = true := by simpa using hpar
    rw [this, if_pos rfl]
    rw [Even.neg_one_pow (Nat.even_iff.mpr hpar), one_mul] at hdet
    exact hdet
  · have : (s.pivots % 2 == 0) = false := by simpa using hpar
    rw [this]
    simp only [Bool.false_eq_true, if_false]
    rw [Odd.neg_one_pow (Nat.odd_iff.mpr (by omega)), neg_one_mul] at hdet
    rw [hdet, neg_neg]

/-- (E) MAIN THEOREM. For every well-formed square matrix `determinant` returns a value, and that
    value is the determinant (total: singular matrices give 0, nothing panics). -/
theorem determinant_correct {A : Mat K} {n : Nat} {a : Nat → Nat → K} (h : Mat.Is A n n a) :
    ∃ d, Mat.determinant A = .ok d ∧
      d = Matrix.det (Matrix.of fun (i j : Fin n) => a i.val j.val) :=
  ⟨_, determinant_spec h, rfl⟩

/-- (E) totality alone -/
theorem determinant_total {A : Mat K} {n : Nat} {a : Nat → Nat → K} (h : Mat.Is A n n a) :
    ∃ d, Mat.determinant A = .ok d := ⟨_, determinant_spec h⟩

/-- (E) soundness alone: any returned value is the determinant -/
theorem determinant_sound {A : Mat K} {n : Nat} {a : Nat → Nat → K} (h : Mat.Is A n n a) (d : K)
    (hd : Mat.determinant A = .ok d) :
    d = Matrix.det (Matrix.of fun (i j : Fin n) => a i.val j.val) := by
  rw [determinant_spec h] at hd
  cases hd; rfl

/-- (E) the statement for a raw well-formed square matrix, entries read off its own buffer -/
theorem determinant_of_wf (A : Mat K) (hwf : A.WF) (hsq : A.rows = A.cols) :
    Mat.determinant A = .ok (Matrix.det (Matrix.of fun (i j : Fin A.rows) =>
      Mat.entryOf A i.val j.val)) := by
  have h : Mat.Is A A.rows A.rows (Mat.entryOf A) := by
    have := Mat.Is.of_wf hwf
    rw [← hsq] at this
    exact this
  exact determinant_spec h

/-- (E) `determinant` returns a value exactly on square matrices (for well-formed input) -/
theorem determinant_ok_iff_square (A : Mat K) (hwf : A.WF) :
    (∃ d, Mat.determinant A = .ok d) ↔ A.rows = A.cols := by
  constructor
  · rintro ⟨d, hd⟩
    by_contra hne
    rw [determinant_rejects A hne] at hd
    cases hd
  · intro hsq
    exact ⟨_, determinant_of_wf A hwf hsq⟩

/-- (E) a singular matrix is not an error: the result is exactly 0 -/
theorem determinant_singular {A : Mat K} {n : Nat} {a : Nat → Nat → K} (h : Mat.Is A n n a)
    (hs : Matrix.det (Matrix.of fun (i j : Fin n) => a i.val j.val) = 0) :
    Mat.determinant A = .ok 0 := by
  rw [determinant_spec h, hs]

/-- (E) a matrix with a zero column (the very first pivot search finds nothing, the column is
    skipped) has `determinant = .ok 0` -/
theorem determinant_zero_column {A : Mat K} {n : Nat} {a : Nat → Nat → K} (h : Mat.Is A n n a)
    {c : Nat} (hc : c < n) (hz : ∀ r, r < n → a r c = 0) : Mat.determinant A = .ok 0 := by
  apply determinant_singular h
  exact Matrix.det_eq_zero_of_column_eq_zero ⟨c, hc⟩ (fun r => hz r.val r.isLt)

/-- (E) a matrix with two equal rows has `determinant = .ok 0` -/
theorem determinant_equal_rows {A : Mat K} {n : Nat} {a : Nat → Nat → K} (h : Mat.Is A n n a)
    {r1 r2 : Nat} (h1 : r1 < n) (h2 : r2 < n) (hne : r1 ≠ r2) (heq : ∀ c, c < n → a r1 c = a r2 c) :
    Mat.determinant A = .ok 0 := by
  apply determinant_singular h
  refine Matrix.det_zero_of_row_eq (i := ⟨r1, h1⟩) (j := ⟨r2, h2⟩) ?_ ?_
  · intro e; exact hne (Fin.mk.injEq _ _ _ _ ▸ e)
  · funext c; exact heq c.val c.isLt

/-! ### `inverse` -/

/-- (E) **`inverse()` computes the inverse**: for every well-formed square matrix with non-zero
    determinant the call succeeds, returns a well-formed `n × n` matrix `B`, and `A·B = 1` and
    `B·A = 1` hold exactly (as Mathlib matrices; `Mat.toMat n a = Matrix.of fun i j => a i j`). -/
theorem inverse_correct {A : Mat K} {n : Nat} {a : Nat → Nat → K} (h : Mat.Is A n n a)
    (hdet : Matrix.det (Mat.toMat n a) ≠ 0) :
    ∃ (B : Mat K) (b : Nat → Nat → K), Mat.inverse A = .ok B ∧ Mat.Is B n n b ∧
      Mat.toMat n a * Mat.toMat n b = 1 ∧ Mat.toMat n b * Mat.toMat n a = 1 := by
  obtain ⟨B, b, hB, hb, hAB⟩ := Mat.inverse_spec h hdet
  exact ⟨B, b, hB, hb, hAB, mul_eq_one_comm.mp hAB⟩

/-- (E) a singular matrix is refused with a division by an exact zero; no value is returned -/
theorem inverse_singular_rejects {A : Mat K} {n : Nat} {a : Nat → Nat → K} (h : Mat.Is A n n a)
    (hdet : Matrix.det (Mat.toMat n a) = 0) : Mat.inverse A = .error .arith :=
  Mat.inverse_singular h hdet

/-- (E) `inverse` returns a value exactly on the non-singular matrices -/
theorem inverse_ok_iff {A : Mat K} {n : Nat} {a : Nat → Nat → K} (h : Mat.Is A n n a) :
    (∃ B, Mat.inverse A = .ok B) ↔ Matrix.det (Mat.toMat n a) ≠ 0 := by
  constructor
  · rintro ⟨B, hB⟩ hdet
    rw [inverse_singular_rejects h hdet] at hB
    cases hB
  · intro hdet
    obtain ⟨B, _, hB, _⟩ := inverse_correct h hdet
    exact ⟨B, hB⟩

/-- (E) soundness: any returned matrix is well-formed `n × n` and is a two-sided inverse -/
theorem inverse_sound {A B : Mat K} {n : Nat} {a : Nat → Nat → K} (h : Mat.Is A n n a)
    (hB : Mat.inverse A = .ok B) :
    B.WF ∧ B.rows = n ∧ B.cols = n ∧
      Mat.toMat n a * Mat.toMat n (Mat.entryOf B) = 1 ∧
      Mat.toMat n (Mat.entryOf B) * Mat.toMat n a = 1 := by
  have hdet := (inverse_ok_iff h).mp ⟨B, hB⟩
  obtain ⟨B', b, hB', hb, h1, h2⟩ := inverse_correct h hdet
  rw [hB] at hB'
  cases hB'
  have hbe : Mat.toMat n (Mat.entryOf B) = Mat.toMat n b := by
    ext r c
    have g1 := hb.get r.isLt c.isLt
    have hwf := Mat.Is.of_wf hb.wf
    rw [hb.rows, hb.cols] at hwf
    have g2 := hwf.get r.isLt c.isLt
    rw [g1] at g2
    exact (Except.ok.inj g2).symm
  rw [hbe]
  exact ⟨hb.wf, hb.rows, hb.cols, h1, h2⟩

/-- (E) the returned matrix is Mathlib's `A⁻¹` -/
theorem inverse_eq_inv {A : Mat K} {n : Nat} {a : Nat → Nat → K} (h : Mat.Is A n n a)
    (hdet : Matrix.det (Mat.toMat n a) ≠ 0) :
    ∃ (B : Mat K) (b : Nat → Nat → K), Mat.inverse A = .ok B ∧ Mat.Is B n n b ∧
      Mat.toMat n b = (Mat.toMat n a)⁻¹ := by
  obtain ⟨B, b, hB, hb, h1, _⟩ := inverse_correct h hdet
  exact ⟨B, b, hB, hb, (Matrix.inv_eq_right_inv h1).symm⟩

end Exact

/-! ### sanity instances over ℚ (n = 1, 2; a singular one) -/
section Examples
attribute [local instance] Alg.scalarExt

/-- row-major `n × n` matrix from a list of entries -/
def ofList (n : Nat) (l : List ℚ) : Mat ℚ := ⟨l.toArray, n, n⟩

theorem ofList_is (n : Nat) (l : List ℚ) (hl : l.length = n * n) :
    Mat.Is (ofList n l) n n (Mat.entryOf (ofList n l)) :=
  Mat.Is.of_wf (m := ofList n l) (by simp [ofList, Mat.WF, hl])

example : Mat.determinant (ofList 1 [7]) = .ok 7 := by
  rw [determinant_spec (ofList_is 1 [7] rfl), Matrix.det_fin_one]
  congr 1

example : Mat.determinant (ofList 2 [1, 2, 3, 4]) = .ok (-2) := by
  rw [determinant_spec (ofList_is 2 [1, 2, 3, 4] rfl), Matrix.det_fin_two]
  congr 1
  simp [Mat.entryOf, ofList]
  norm_num

/-- singular, with a zero leading column: no panic, result 0 -/
example : Mat.determinant (ofList 2 [0, 1, 0, 5]) = .ok 0 := by
  refine determinant_zero_column (ofList_is 2 [0, 1, 0, 5] rfl) (c := 0) (by decide) ?_
  intro r hr
  obtain rfl | rfl : r = 0 ∨ r = 1 := by omega
  · simp [Mat.entryOf, ofList]
  · simp [Mat.entryOf, ofList]

/-- singular with non-zero entries everywhere ([[1,2],[2,4]]): the second pivot search finds
    nothing, the column is skipped -/
example : Mat.determinant (ofList 2 [1, 2, 2, 4]) = .ok 0 := by
  apply determinant_singular (ofList_is 2 [1, 2, 2, 4] rfl)
  rw [Matrix.det_fin_two]
  simp [Mat.entryOf, ofList]
  norm_num

/-- [[1,2],[3,4]] is inverted (hypothesis of `inverse_correct` satisfiable) -/
example : ∃ B, Mat.inverse (ofList 2 [1, 2, 3, 4]) = .ok B := by
  refine (inverse_ok_iff (ofList_is 2 [1, 2, 3, 4] rfl)).mpr ?_
  rw [Matrix.det_fin_two]
  simp [Mat.toMat, Mat.entryOf, ofList]
  norm_num

/-- [[1,2],[2,4]] is refused -/
example : Mat.inverse (ofList 2 [1, 2, 2, 4]) = .error .arith := by
  apply inverse_singular_rejects (ofList_is 2 [1, 2, 2, 4] rfl)
  rw [Matrix.det_fin_two]
  simp [Mat.toMat, Mat.entryOf, ofList]
  norm_num

end Examples

end Ohsl.Props.C02
