/-
  Property C19 — meshes (model: Ohsl/Model/Mesh.lean).
  Proved here: (S) the 1-D mesh returns exactly what was stored at a node, writes to one node do
  not disturb another, out-of-range nodes / wrong vector lengths are rejected; for ANY element type.
-/
import Ohsl.Lemmas.MatIdx
import Ohsl.Model.Mesh
set_option linter.unusedSectionVars false
namespace Ohsl.Props.C19
open Ohsl
variable {T X : Type} [Zero T]

/-- invariant: one variable vector per node -/
def WF1 (m : Mesh1 T X) : Prop := m.vars.size = m.nodes.size

theorem new_wf (nodes : Array X) (nvars : Nat) : WF1 (Mesh1.new nodes nvars : Mesh1 T X) := by
  simp [WF1, Mesh1.new]

theorem set_get (m : Mesh1 T X) (h : WF1 m) (node : Nat) (v : Array T) (hn : node < m.nodes.size)
    (hv : v.size = m.nvars) :
    ∃ m', Mesh1.setNodesVars m node v = .ok m' ∧ WF1 m' ∧ m'.nodes = m.nodes ∧ m'.nvars = m.nvars ∧
      Mesh1.getNodesVars m' node = .ok v ∧
      ∀ k, k ≠ node → Mesh1.getNodesVars m' k = Mesh1.getNodesVars m k := by
  have h1 : ¬ node ≥ m.nodes.size := by omega
  have h2 : ¬ v.size ≠ m.nvars := by omega
  have hlt : node < m.vars.size := by rw [h]; exact hn
  refine ⟨{ m with vars := m.vars.setIfInBounds node v }, ?_, ?_, rfl, rfl, ?_, ?_⟩
  · simp [Mesh1.setNodesVars, h1, h2, Mat.aset_ok v hlt, bind, Except.bind, pure, Except.pure]
  · simp [WF1] at *; exact h
  · simp [Mesh1.getNodesVars, h1, aget, hlt]
  · intro k hk
    simp only [Mesh1.getNodesVars, aget]
    have : node ≠ k := fun e => hk e.symm
    simp [this]

theorem set_rejects (m : Mesh1 T X) (node : Nat) (v : Array T)
    (h : node ≥ m.nodes.size ∨ v.size ≠ m.nvars) : ∃ e, Mesh1.setNodesVars m node v = .error e := by
  unfold Mesh1.setNodesVars
  by_cases h1 : node ≥ m.nodes.size
  · exact ⟨.range, by simp [h1]⟩
  · have h2 := h.resolve_left h1
    exact ⟨.size, by simp [h1, h2]⟩

theorem get_rejects (m : Mesh1 T X) (node : Nat) (h : node ≥ m.nodes.size) :
    Mesh1.getNodesVars m node = .error .range := by simp [Mesh1.getNodesVars, h]

/-- the 2-D node address `i*ny + j` is injective on the grid (shared with the dense matrix) -/
theorem node_address_injective (ny i j i' j' : Nat) (hj : j < ny) (hj' : j' < ny)
    (h : i * ny + j = i' * ny + j') : i = i' ∧ j = j' := Mat.idx_inj hj hj' h

end Ohsl.Props.C19
