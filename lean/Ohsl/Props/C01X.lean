/-
  Property C01 (continued) — the exact-arithmetic theorems about the dense direct solvers for
  EVERY exact element type, complex scalars included.
  Model: Ohsl/Model/Solve.lean; lemmas: Ohsl/Lemmas/SolveSound.lean, SolveComplete.lean, LUDet.lean
  (generic in the laws below), Ohsl/Lemmas/CxField.lean (the complex instance).

  C01S / C01C state soundness, uniqueness and completeness for a linearly ordered field `K` with
  the interpretation `Alg.scalarExt` (`mag = |·|`, `lt = <`).  That does not cover
  `Complex<f64>`-like scalars: ℂ has no compatible order, and the code pivots on the modulus there
  (`mag z = |z| + 0i`, compared with the lexicographic `<`).  The proofs, however, never use the
  order of `K`; they use

  * `Alg.DivLaw K`    : `divM a b = if b = 0 then error else ok (a / b)`, and
  * `Alg.PivotLaws K` : `lt (mag a) (mag b) = decide (size a < size b)` for a `size : K → S` into
                        some linear order, `mag 0 = 0`, `size 0 ≤ size a`, `size a = size 0 → a = 0`.

  Generic theorems (`…_gen`): `K` any field, ANY `ScalarExt K`/`BEq K` instances satisfying those
  laws (`BEq` lawful).  The theorems of C01S/C01C are the instance `Alg.pivotLaws` (size `|·|`).

  Complex theorems (`…_cx`): matrices over the model's own complex type `Cx ℝ` with the model's
  own instances (`Cx.add`, `Cx.mul`, …, `Cx.beq`, `Cx.instScalarExt`: `divM = Cx.div`,
  `lt = Cx.lt`, `mag z = ⟨Cx.abs z, 0⟩`; over ℝ the `f64` primitives are the real functions of
  Ohsl/Lemmas/RealTransc.lean).  Equations and determinants are stated in Mathlib's ℂ through
  `toC : Cx ℝ → ℂ` (`toC ⟨x, y⟩ = x + iy`, a bijection commuting with the operations, C13R):
  the system is `Σ_j toC (a i j) · toC x_j = toC b_i`, "nonsingular" is
  `Matrix.det (Matrix.of fun i j : Fin n => toC (a i j)) ≠ 0` with `Matrix.det` over ℂ.
-/
import Ohsl.Props.C01C
import Ohsl.Lemmas.CxField
import Mathlib.Algebra.BigOperators.Fin
set_option linter.unusedSectionVars false
set_option linter.unusedVariables false
set_option linter.unusedSimpArgs false
namespace Ohsl.Props.C01
open Ohsl Ohsl.Mat

/-! ### generic in the division and pivot laws -/
section Gen
variable {K : Type} [Field K] [BEq K] [LawfulBEq K] [ScalarExt K] [DecidableEq K]

theorem det_ent_eq_gen {n : Nat} {A : Mat K} {a : Nat → Nat → K} (hA : Mat.Is A n n a) :
    Matrix.det (Mat.toMat n (Mat.ent A)) =
      Matrix.det (Matrix.of fun (i j : Fin n) => a i.val j.val) := by
  rw [Mat.toMat_congr (fun r c hr hc => hA.ent_eq hr hc)]
  rfl

section Div
variable [Alg.DivLaw K]

/-- **Soundness of `solve_basic`, any exact field** (`Alg.DivLaw` only; the pivot comparison may
    be arbitrary): any returned vector has length `n` and satisfies every equation exactly. -/
theorem solveBasic_sound_gen {n : Nat} (hn : 1 ≤ n) {A : Mat K} {a : Nat → Nat → K}
    (hA : Mat.Is A n n a) {b x : Array K} (hb : b.size = n)
    (h : Mat.solveBasic A b = .ok x) :
    x.size = n ∧
      ∀ i, i < n → ∑ j ∈ Finset.range n, a i j * (x[j]?.getD 0) = b[i]?.getD 0 := by
  obtain ⟨hs, hsol⟩ := solveBasic_sound_ent hn hA.wfn hb h
  refine ⟨hs, ?_⟩
  intro i hi
  have := hsol i hi
  simp only [vf] at this
  rw [← this]
  apply Finset.sum_congr rfl
  intro j hj
  rw [hA.ent_eq hi (Finset.mem_range.1 hj)]

/-- a successful `solve_basic` certifies uniqueness of the solution -/
theorem solveBasic_unique_gen {n : Nat} (hn : 1 ≤ n) {A : Mat K} {a : Nat → Nat → K}
    (hA : Mat.Is A n n a) {b x : Array K} (hb : b.size = n)
    (h : Mat.solveBasic A b = .ok x) (z : Nat → K)
    (hz : ∀ i, i < n → ∑ j ∈ Finset.range n, a i j * z j = b[i]?.getD 0) :
    ∀ j, j < n → z j = x[j]?.getD 0 := by
  refine solveBasic_unique_ent hn hA.wfn hb h z ?_
  intro i hi
  rw [← show _ = vf b i from hz i hi]
  apply Finset.sum_congr rfl
  intro j hj
  rw [hA.ent_eq hi (Finset.mem_range.1 hj)]

/-- a value returned by `solve_basic` certifies nonsingularity -/
theorem solveBasic_nonsingular_gen {n : Nat} (hn : 1 ≤ n) {A : Mat K} {a : Nat → Nat → K}
    (hA : Mat.Is A n n a) {b x : Array K} (hb : b.size = n)
    (h : Mat.solveBasic A b = .ok x) :
    Matrix.det (Matrix.of fun (i j : Fin n) => a i.val j.val) ≠ 0 := by
  rw [← det_ent_eq_gen hA]
  exact Mat.solveBasic_ok_det hn hA.wfn hb h

end Div

variable [Alg.PivotLaws K]

/-- **Soundness of `solve_lu`, any exact field with a lawful pivot comparison.** -/
theorem solveLU_sound_gen {n : Nat} (hn : 1 ≤ n) {A : Mat K}
    {a : Nat → Nat → K} (hA : Mat.Is A n n a) {b x : Array K} (hb : b.size = n)
    (h : Mat.solveLU A b = .ok x) :
    x.size = n ∧
      ∀ i, i < n → ∑ j ∈ Finset.range n, a i j * (x[j]?.getD 0) = b[i]?.getD 0 := by
  obtain ⟨hs, hsol⟩ := solveLU_sound_ent hn hA.wfn hb h
  refine ⟨hs, ?_⟩
  intro i hi
  have := hsol i hi
  simp only [vf] at this
  rw [← this]
  apply Finset.sum_congr rfl
  intro j hj
  rw [hA.ent_eq hi (Finset.mem_range.1 hj)]

/-- the two direct solvers agree whenever both return a value -/
theorem solvers_agree_gen {n : Nat} (hn : 1 ≤ n) {A : Mat K}
    {a : Nat → Nat → K} (hA : Mat.Is A n n a) {b x₁ x₂ : Array K} (hb : b.size = n)
    (h₁ : Mat.solveBasic A b = .ok x₁) (h₂ : Mat.solveLU A b = .ok x₂) : x₁ = x₂ := by
  obtain ⟨s1, _⟩ := solveBasic_sound_gen hn hA hb h₁
  obtain ⟨s2, e2⟩ := solveLU_sound_gen hn hA hb h₂
  have := solveBasic_unique_gen hn hA hb h₁ (fun j => x₂[j]?.getD 0) e2
  apply Array.ext
  · rw [s1, s2]
  · intro j hj1 hj2
    have := this j (by omega)
    simp only [hj1, hj2, Array.getElem?_eq_getElem, Option.getD_some] at this
    exact this.symm

/-- **Completeness of `solve_basic`**: a nonsingular system is never refused -/
theorem solveBasic_complete_gen {n : Nat} (hn : 1 ≤ n) {A : Mat K} {a : Nat → Nat → K}
    (hA : Mat.Is A n n a) {b : Array K} (hb : b.size = n)
    (hdet : Matrix.det (Matrix.of fun (i j : Fin n) => a i.val j.val) ≠ 0) :
    ∃ x, Mat.solveBasic A b = .ok x := by
  rw [← det_ent_eq_gen hA] at hdet
  exact Mat.solveBasic_complete_ent hn hA.wfn hb hdet

/-- **Completeness of `solve_lu`** -/
theorem solveLU_complete_gen {n : Nat} (hn : 1 ≤ n) {A : Mat K} {a : Nat → Nat → K}
    (hA : Mat.Is A n n a) {b : Array K} (hb : b.size = n)
    (hdet : Matrix.det (Matrix.of fun (i j : Fin n) => a i.val j.val) ≠ 0) :
    ∃ x, Mat.solveLU A b = .ok x := by
  rw [← det_ent_eq_gen hA] at hdet
  exact Mat.solveLU_complete_ent hn hA.wfn hb hdet

/-- a value returned by `solve_lu` certifies nonsingularity -/
theorem solveLU_nonsingular_gen {n : Nat} (hn : 1 ≤ n) {A : Mat K} {a : Nat → Nat → K}
    (hA : Mat.Is A n n a) {b x : Array K} (hb : b.size = n)
    (h : Mat.solveLU A b = .ok x) :
    Matrix.det (Matrix.of fun (i j : Fin n) => a i.val j.val) ≠ 0 := by
  rw [← det_ent_eq_gen hA]
  exact Mat.solveLU_ok_det hn hA.wfn hb h

/-- `solve_basic` returns a value **if and only if** the matrix is nonsingular -/
theorem solveBasic_ok_iff_gen {n : Nat} (hn : 1 ≤ n) {A : Mat K} {a : Nat → Nat → K}
    (hA : Mat.Is A n n a) {b : Array K} (hb : b.size = n) :
    (∃ x, Mat.solveBasic A b = .ok x) ↔
      Matrix.det (Matrix.of fun (i j : Fin n) => a i.val j.val) ≠ 0 :=
  ⟨fun ⟨_, h⟩ => solveBasic_nonsingular_gen hn hA hb h, solveBasic_complete_gen hn hA hb⟩

/-- `solve_lu` returns a value **if and only if** the matrix is nonsingular -/
theorem solveLU_ok_iff_gen {n : Nat} (hn : 1 ≤ n) {A : Mat K} {a : Nat → Nat → K}
    (hA : Mat.Is A n n a) {b : Array K} (hb : b.size = n) :
    (∃ x, Mat.solveLU A b = .ok x) ↔
      Matrix.det (Matrix.of fun (i j : Fin n) => a i.val j.val) ≠ 0 :=
  ⟨fun ⟨_, h⟩ => solveLU_nonsingular_gen hn hA hb h, solveLU_complete_gen hn hA hb⟩

/-- the two direct solvers accept exactly the same systems -/
theorem solvers_ok_iff_gen {n : Nat} (hn : 1 ≤ n) {A : Mat K} {a : Nat → Nat → K}
    (hA : Mat.Is A n n a) {b b' : Array K} (hb : b.size = n) (hb' : b'.size = n) :
    (∃ x, Mat.solveBasic A b = .ok x) ↔ (∃ x, Mat.solveLU A b' = .ok x) :=
  (solveBasic_ok_iff_gen hn hA hb).trans (solveLU_ok_iff_gen hn hA hb').symm

/-- **Correctness of the dense direct solvers, any exact element type**: for a nonsingular system
    both solvers return the SAME vector; it has length `n`, solves the system exactly and is the
    only solution. -/
theorem solve_correct_gen {n : Nat} (hn : 1 ≤ n) {A : Mat K} {a : Nat → Nat → K}
    (hA : Mat.Is A n n a) {b : Array K} (hb : b.size = n)
    (hdet : Matrix.det (Matrix.of fun (i j : Fin n) => a i.val j.val) ≠ 0) :
    ∃ x, Mat.solveBasic A b = .ok x ∧ Mat.solveLU A b = .ok x ∧ x.size = n ∧
      (∀ i, i < n → ∑ j ∈ Finset.range n, a i j * (x[j]?.getD 0) = b[i]?.getD 0) ∧
      (∀ z : Nat → K, (∀ i, i < n → ∑ j ∈ Finset.range n, a i j * z j = b[i]?.getD 0) →
        ∀ j, j < n → z j = x[j]?.getD 0) := by
  obtain ⟨x, hx⟩ := solveBasic_complete_gen hn hA hb hdet
  obtain ⟨x', hx'⟩ := solveLU_complete_gen hn hA hb hdet
  have heq : x = x' := solvers_agree_gen hn hA hb hx hx'
  subst heq
  obtain ⟨hs, hsol⟩ := solveBasic_sound_gen hn hA hb hx
  exact ⟨x, hx, hx', hs, hsol, fun z hz => solveBasic_unique_gen hn hA hb hx z hz⟩

end Gen

/-! ### the instance of C01S / C01C: a linearly ordered field with `Alg.scalarExt` -/
section Ordered
variable {K : Type} [Field K] [LinearOrder K] [IsStrictOrderedRing K]
attribute [local instance] Ohsl.Alg.scalarExt

/-- `solve_correct` of C01C is the instance `Alg.pivotLaws` (size `|·|`) of `solve_correct_gen` -/
example {n : Nat} (hn : 1 ≤ n) {A : Mat K} {a : Nat → Nat → K}
    (hA : Mat.Is A n n a) {b : Array K} (hb : b.size = n)
    (hdet : Matrix.det (Matrix.of fun (i j : Fin n) => a i.val j.val) ≠ 0) :
    ∃ x, Mat.solveBasic A b = .ok x ∧ Mat.solveLU A b = .ok x ∧ x.size = n ∧
      (∀ i, i < n → ∑ j ∈ Finset.range n, a i j * (x[j]?.getD 0) = b[i]?.getD 0) ∧
      (∀ z : Nat → K, (∀ i, i < n → ∑ j ∈ Finset.range n, a i j * z j = b[i]?.getD 0) →
        ∀ j, j < n → z j = x[j]?.getD 0) :=
  solve_correct_gen hn hA hb hdet

end Ordered

/-! ### complex scalars: the model's `Cx ℝ` with its own instances -/
section Complex
open Ohsl.RealI Ohsl.CxField Ohsl.Props.C13 Ohsl.Props.C14

/-- the system `A z = b` over `Cx ℝ`, written in ℂ -/
def SolC (n : Nat) (a : Nat → Nat → Cx ℝ) (b : Array (Cx ℝ)) (z : Nat → Cx ℝ) : Prop :=
  ∀ i, i < n → ∑ j ∈ Finset.range n, toC (a i j) * toC (z j) = toC (b[i]?.getD 0)

/-- the complex determinant of the matrix described by `a` -/
noncomputable def detC (n : Nat) (a : Nat → Nat → Cx ℝ) : ℂ :=
  Matrix.det (Matrix.of fun (i j : Fin n) => toC (a i.val j.val))

theorem detC_eq (n : Nat) (a : Nat → Nat → Cx ℝ) : detC n a = (toCMat n a).det := rfl

/-- a system over the field `Cx ℝ` holds iff its `toC`-image holds in ℂ -/
theorem solC_iff (n : Nat) (a : Nat → Nat → Cx ℝ) (b : Array (Cx ℝ)) (z : Nat → Cx ℝ) :
    SolC n a b z ↔
      ∀ i, i < n → @Finset.sum _ _ CxField.field.toAddCommMonoid (Finset.range n)
        (fun j => a i j * z j) = b[i]?.getD 0 := by
  let _ := CxField.field
  have e : ∀ f : Nat → Cx ℝ, toC (∑ j ∈ Finset.range n, f j) = ∑ j ∈ Finset.range n, toC (f j) :=
    fun f => map_sum CxField.toCHom f _
  unfold SolC
  refine forall_congr' fun i => forall_congr' fun _ => ?_
  rw [← toC_inj, e]
  simp only [toC_mul]

theorem detC_ne_zero_iff (n : Nat) (a : Nat → Nat → Cx ℝ) :
    detC n a ≠ 0 ↔
      @Matrix.det _ _ _ _ CxField.field.toCommRing
        (Matrix.of fun (i j : Fin n) => a i.val j.val) ≠ 0 :=
  (CxField.det_ne_zero_iff n a).symm

variable {n : Nat} {A : Mat (Cx ℝ)} {a : Nat → Nat → Cx ℝ}

/-- **Soundness of `solve_basic` over complex scalars**: any vector returned for a well-formed
    `n × n` complex system has length `n` and solves it exactly (equations read in ℂ). -/
theorem solveBasic_sound_cx (hn : 1 ≤ n) (hA : Mat.Is A n n a) {b x : Array (Cx ℝ)}
    (hb : b.size = n) (h : Mat.solveBasic A b = .ok x) :
    x.size = n ∧ SolC n a b (fun j => x[j]?.getD 0) := by
  obtain ⟨hs, hsol⟩ := @solveBasic_sound_gen (Cx ℝ) CxField.field _ _ _ (Classical.decEq _) _
    n hn A a hA b x hb h
  exact ⟨hs, (solC_iff n a b _).2 hsol⟩

/-- **Soundness of `solve_lu` over complex scalars** (the factorisation pivots on the modulus) -/
theorem solveLU_sound_cx (hn : 1 ≤ n) (hA : Mat.Is A n n a) {b x : Array (Cx ℝ)}
    (hb : b.size = n) (h : Mat.solveLU A b = .ok x) :
    x.size = n ∧ SolC n a b (fun j => x[j]?.getD 0) := by
  obtain ⟨hs, hsol⟩ := @solveLU_sound_gen (Cx ℝ) CxField.field _ _ _ (Classical.decEq _) _
    n hn A a hA b x hb h
  exact ⟨hs, (solC_iff n a b _).2 hsol⟩

/-- a successful complex `solve_basic` certifies that the system has no other solution -/
theorem solveBasic_unique_cx (hn : 1 ≤ n) (hA : Mat.Is A n n a) {b x : Array (Cx ℝ)}
    (hb : b.size = n) (h : Mat.solveBasic A b = .ok x) (z : Nat → Cx ℝ) (hz : SolC n a b z) :
    ∀ j, j < n → z j = x[j]?.getD 0 :=
  @solveBasic_unique_gen (Cx ℝ) CxField.field _ _ _ (Classical.decEq _) _
    n hn A a hA b x hb h z ((solC_iff n a b z).1 hz)

/-- the two solvers agree on complex systems whenever both return a value -/
theorem solvers_agree_cx (hn : 1 ≤ n) (hA : Mat.Is A n n a) {b x₁ x₂ : Array (Cx ℝ)}
    (hb : b.size = n) (h₁ : Mat.solveBasic A b = .ok x₁) (h₂ : Mat.solveLU A b = .ok x₂) :
    x₁ = x₂ :=
  @solvers_agree_gen (Cx ℝ) CxField.field _ _ _ (Classical.decEq _) _ n hn A a hA b x₁ x₂ hb h₁ h₂

/-- complex `solve_basic` returns a value **if and only if** `det A ≠ 0` (determinant over ℂ) -/
theorem solveBasic_ok_iff_cx (hn : 1 ≤ n) (hA : Mat.Is A n n a) {b : Array (Cx ℝ)}
    (hb : b.size = n) : (∃ x, Mat.solveBasic A b = .ok x) ↔ detC n a ≠ 0 := by
  rw [detC_ne_zero_iff]
  exact @solveBasic_ok_iff_gen (Cx ℝ) CxField.field _ _ _ (Classical.decEq _) _ n hn A a hA b hb

/-- complex `solve_lu` returns a value **if and only if** `det A ≠ 0` -/
theorem solveLU_ok_iff_cx (hn : 1 ≤ n) (hA : Mat.Is A n n a) {b : Array (Cx ℝ)}
    (hb : b.size = n) : (∃ x, Mat.solveLU A b = .ok x) ↔ detC n a ≠ 0 := by
  rw [detC_ne_zero_iff]
  exact @solveLU_ok_iff_gen (Cx ℝ) CxField.field _ _ _ (Classical.decEq _) _ n hn A a hA b hb

/-- a singular complex system is refused by both solvers whatever the right-hand side -/
theorem singular_rejects_cx (hn : 1 ≤ n) (hA : Mat.Is A n n a) {b : Array (Cx ℝ)}
    (hb : b.size = n) (hdet : detC n a = 0) :
    (∃ e, Mat.solveBasic A b = .error e) ∧ (∃ e, Mat.solveLU A b = .error e) := by
  constructor
  · cases h : Mat.solveBasic A b with
    | error e => exact ⟨e, rfl⟩
    | ok x => exact absurd hdet ((solveBasic_ok_iff_cx hn hA hb).1 ⟨x, h⟩)
  · cases h : Mat.solveLU A b with
    | error e => exact ⟨e, rfl⟩
    | ok x => exact absurd hdet ((solveLU_ok_iff_cx hn hA hb).1 ⟨x, h⟩)

/-- **Correctness of the dense direct solvers over complex scalars**: for a nonsingular complex
    system both `solve_basic` and `solve_lu` return a value, the SAME vector `x`; it has length
    `n`, solves the system exactly, and every solution of the system coincides with it. -/
theorem solve_correct_cx (hn : 1 ≤ n) (hA : Mat.Is A n n a) {b : Array (Cx ℝ)}
    (hb : b.size = n) (hdet : detC n a ≠ 0) :
    ∃ x, Mat.solveBasic A b = .ok x ∧ Mat.solveLU A b = .ok x ∧ x.size = n ∧
      SolC n a b (fun j => x[j]?.getD 0) ∧
      (∀ z : Nat → Cx ℝ, SolC n a b z → ∀ j, j < n → z j = x[j]?.getD 0) := by
  obtain ⟨x, hx⟩ := (solveBasic_ok_iff_cx hn hA hb).2 hdet
  obtain ⟨x', hx'⟩ := (solveLU_ok_iff_cx hn hA hb).2 hdet
  have heq : x = x' := solvers_agree_cx hn hA hb hx hx'
  subst heq
  obtain ⟨hs, hsol⟩ := solveBasic_sound_cx hn hA hb hx
  exact ⟨x, hx, hx', hs, hsol, fun z hz => solveBasic_unique_cx hn hA hb hx z hz⟩

end Complex

/-! ### examples: a zero first pivot candidate, exchange decided by the modulus; a singular matrix -/
section Examples
open Ohsl.RealI Ohsl.CxField Ohsl.Props.C13 Ohsl.Props.C14

/-- the complex matrix [[0, 1], [i, 1]] -/
def exA : Mat (Cx ℝ) := ⟨#[⟨0, 0⟩, ⟨1, 0⟩, ⟨0, 1⟩, ⟨1, 0⟩], 2, 2⟩
/-- the singular complex matrix [[1, i], [i, -1]] -/
def exS : Mat (Cx ℝ) := ⟨#[⟨1, 0⟩, ⟨0, 1⟩, ⟨0, 1⟩, ⟨-1, 0⟩], 2, 2⟩

theorem exA_is : Mat.Is exA 2 2 (Mat.ent exA) := Mat.WFn.is ⟨rfl, rfl, rfl⟩
theorem exS_is : Mat.Is exS 2 2 (Mat.ent exS) := Mat.WFn.is ⟨rfl, rfl, rfl⟩

theorem exA_det : detC 2 (Mat.ent exA) ≠ 0 := by
  unfold detC
  rw [Matrix.det_fin_two]
  simp [Mat.ent, exA, toC, Complex.ext_iff]

theorem exS_det : detC 2 (Mat.ent exS) = 0 := by
  unfold detC
  rw [Matrix.det_fin_two]
  simp [Mat.ent, exS, toC, Complex.ext_iff]

theorem exA_get00 : exA.get 0 0 = .ok ⟨0, 0⟩ := by
  rw [exA_is.get (by norm_num) (by norm_num)]; simp [Mat.ent, exA]
theorem exA_get10 : exA.get 1 0 = .ok ⟨0, 1⟩ := by
  rw [exA_is.get (by norm_num) (by norm_num)]; simp [Mat.ent, exA]

/-- on column 0 of `exA` the diagonal candidate is `0`; both pivot searches choose row 1, whose
    entry `i` has modulus 1 (it is not `>` 0 in any order on ℂ compatible with the field: the
    comparison is on `|i| + 0i` against `0`) -/
example : Mat.luPivot exA 0 = .ok (⟨1, 0⟩, 1) ∧ Mat.maxAbsInColumn exA 0 0 = .ok 1 := by
  constructor
  · simp only [Mat.luPivot, Mat.forM', show exA.rows = 2 from rfl, List.range', List.foldlM,
      exA_get00, exA_get10, bind, Except.bind, pure, Except.pure]
    simp [ScalarExt.mag, ScalarExt.lt, Cx.lt, Cx.abs, Cx.absSqr, Transc.sqrt, exA_get10]
  · simp only [Mat.maxAbsInColumn, Mat.forM', show exA.rows = 2 from rfl, List.range', List.foldlM,
      exA_get00, exA_get10, bind, Except.bind, pure, Except.pure]
    simp [ScalarExt.mag, ScalarExt.lt, Cx.lt, Cx.abs, Cx.absSqr, Transc.sqrt, exA_get10]

/-- … and both solvers return the solution `(1, 1)` of `x₁ = 1`, `i·x₀ + x₁ = 1 + i` -/
example : ∃ x, Mat.solveBasic exA #[⟨1, 0⟩, ⟨1, 1⟩] = .ok x ∧
    Mat.solveLU exA #[⟨1, 0⟩, ⟨1, 1⟩] = .ok x ∧ x.size = 2 ∧
    x[0]?.getD 0 = ⟨1, 0⟩ ∧ x[1]?.getD 0 = ⟨1, 0⟩ := by
  obtain ⟨x, h1, h2, hs, _, huniq⟩ :=
    solve_correct_cx (by norm_num) exA_is (b := #[⟨1, 0⟩, ⟨1, 1⟩]) rfl exA_det
  have hz : SolC 2 (Mat.ent exA) #[⟨1, 0⟩, ⟨1, 1⟩] (fun _ => ⟨1, 0⟩) := by
    intro i hi
    interval_cases i <;>
      simp [Finset.sum_range_succ, Mat.ent, exA, toC, Complex.ext_iff]
  exact ⟨x, h1, h2, hs, (huniq _ hz 0 (by norm_num)).symm, (huniq _ hz 1 (by norm_num)).symm⟩

/-- the singular complex matrix `exS` (`det = -1 - i² = 0`) is refused by both solvers -/
example : (∃ e, Mat.solveBasic exS #[⟨1, 0⟩, ⟨0, 1⟩] = .error e) ∧
    (∃ e, Mat.solveLU exS #[⟨1, 0⟩, ⟨0, 1⟩] = .error e) :=
  singular_rejects_cx (by norm_num) exS_is rfl exS_det

end Examples
end Ohsl.Props.C01
