/-
  Property C06 (sparse matrix views / CSC well-formedness), part H — histories of operations.
  Model: Ohsl/Model/Sparse.lean.  Class (S): ANY scalar type with a `Zero` (the fill value of
  `transpose` / `to_dense`) and a `Mul` (`scale`); no algebraic law is used anywhere in this file,
  so every statement also holds of IEEE floats.

  One packaged refinement theorem: the compressed-sparse-column storage `Sp K`, driven by an
  arbitrary history of `insert` / `scale` / `transpose` calls (`SpOp`, `stepC`, `runC`), refines a
  partial function matrix `Ref K = (rows, cols, Nat → Nat → Option K)` driven by the obvious
  abstract steps (`stepR`, `runR`) through the abstraction `refOf` ("the value `get` finds").
  * `step_refines`   : one step; success iff the reference step is defined, `WF ∧ NoDup` kept,
                       abstraction commutes; rejected steps are `Err.range` panics (`step_ok_iff`);
  * `history_refines`: arbitrary histories from any `WF ∧ NoDup` storage (rows in ANY order inside a
                       column), `history_refines_fromTriplets` from `from_triplets` of in-range,
                       position-duplicate-free triplets (in any order);
  * `refOf_views` / `history_views`: after any history `get`, `to_triplets`, `to_dense`,
                       `col_index` all describe the reference matrix put through the same history;
  * `nonzero_eq_nnz`, `step_nonzero`, `history_nonzero`, `nnz_stepR`: `nonzero` is the number of
                       stored positions of the reference; overwrites keep it, new insertions add 1.
  Note on `scale`: the code never drops entries, a stored value that becomes zero stays stored
  (`stepR` maps `some x` to `some (x * a)`).
-/
import Ohsl.Props.C06W
set_option linter.unusedSectionVars false
set_option linter.unusedVariables false
set_option linter.unusedSimpArgs false
open Ohsl.Mat (forM' forM'_inv aget_ok aset_ok)
namespace Ohsl.Props.C06
open Ohsl Ohsl.Sp
variable {K : Type}

/-! ### operations, concrete and reference semantics -/

/-- the operations of a history -/
inductive SpOp (K : Type) where
  | insert (i j : Nat) (v : K)
  | scale (a : K)
  | transpose

/-- reference model: a partial function matrix -/
structure Ref (K : Type) where
  rows : Nat
  cols : Nat
  ent : Nat → Nat → Option K

theorem Ref.ext_some {r r' : Ref K} (h1 : r.rows = r'.rows) (h2 : r.cols = r'.cols)
    (h3 : ∀ i j v, r.ent i j = some v ↔ r'.ent i j = some v) : r = r' := by
  cases r with
  | mk a b e =>
    cases r' with
    | mk a' b' e' =>
      simp only at h1 h2 h3
      subst h1; subst h2
      congr
      funext i j
      exact Option.ext (h3 i j)

theorem Ref.ext_ent {r r' : Ref K} (h1 : r.rows = r'.rows) (h2 : r.cols = r'.cols)
    (h3 : ∀ i j, r.ent i j = r'.ent i j) : r = r' :=
  Ref.ext_some h1 h2 (fun i j v => by rw [h3 i j])

/-- number of stored positions of the reference matrix -/
def Ref.nnz (r : Ref K) : Nat :=
  ((Finset.range r.rows ×ˢ Finset.range r.cols).filter (fun p => (r.ent p.1 p.2).isSome)).card

section S
variable [Zero K] [Mul K]

/-- concrete step: the MODEL functions -/
def stepC (s : Sp K) : SpOp K → Res (Sp K)
  | .insert i j v => Sp.insert s i j v
  | .scale a => Sp.scale s a
  | .transpose => Sp.transpose s

/-- reference step: `insert` sets an in-range position (and is rejected otherwise), `scale`
    multiplies every stored value (nothing is dropped), `transpose` swaps -/
def stepR (r : Ref K) : SpOp K → Option (Ref K)
  | .insert i j v =>
    if i < r.rows ∧ j < r.cols then
      some ⟨r.rows, r.cols, fun i' j' => if i' = i ∧ j' = j then some v else r.ent i' j'⟩
    else none
  | .scale a => some ⟨r.rows, r.cols, fun i j => (r.ent i j).map (· * a)⟩
  | .transpose => some ⟨r.cols, r.rows, fun i j => r.ent j i⟩

/-- growth of the number of stored positions caused by an accepted operation on the reference `r`:
    1 for an `insert` at an empty position, 0 otherwise (overwrite, `scale`, `transpose`) -/
def growth (r : Ref K) : SpOp K → Nat
  | .insert i j _ => if (r.ent i j).isSome then 0 else 1
  | _ => 0

/-- a history on the storage (`?` after every call: the first panic aborts) -/
def runC (ops : List (SpOp K)) (s : Sp K) : Res (Sp K) := ops.foldlM stepC s

/-- the same history on the reference -/
def runR (ops : List (SpOp K)) (r : Ref K) : Option (Ref K) := ops.foldlM stepR r

/-- abstraction: shape, and at every position the value of the first slot holding it (this is what
    `get` returns, `get_spec`) -/
def refOf (s : Sp K) : Ref K := ⟨s.rows, s.cols, fun i j => (firstSlot s i j).map s.vl⟩

/-- the reference matrix of a triplet list: first triplet at the position -/
def refOfTriplets (rows cols : Nat) (ts : List (Nat × Nat × K)) : Ref K :=
  ⟨rows, cols, fun i j => (ts.find? (fun t => t.1 == i && t.2.1 == j)).map (·.2.2)⟩

/-- refinement of outcomes: success with a well-formed, duplicate-free storage that abstracts to
    the reference state, or a rejected reference step and an index panic -/
def Refines : Res (Sp K) → Option (Ref K) → Prop
  | x, some r => ∃ s', x = .ok s' ∧ WF s' ∧ C07.NoDup s' ∧ refOf s' = r
  | x, none => x = .error .range

/-! ### duplicate-free storage: slots and positions correspond one to one -/

/-- in duplicate-free well-formed storage a position determines its slot -/
theorem slot_inj {s : Sp K} (h : WF s) (hnd : C07.NoDup s) {k k' : Nat} (hk : k < s.nonzero)
    (hk' : k' < s.nonzero) (e1 : s.ri k = s.ri k') (e2 : s.colOf k = s.colOf k') : k = k' := by
  have hc := h.colOf_lt hk
  obtain ⟨a, b⟩ := (h.colOf_spec hk).2
  obtain ⟨c, d⟩ := (h.colOf_spec hk').2
  rw [← e2] at c d
  exact hnd _ hc k k' a b c d e1

/-- converse of `noDup_of_posNodup` -/
theorem posNodup_trips {s : Sp K} (h : WF s) (hnd : C07.NoDup s) : PosNodup (trips s) := by
  unfold PosNodup trips
  rw [List.map_map]
  apply List.Nodup.map_on _ List.nodup_range
  intro k hk k' hk' e
  have hk1 := List.mem_range.mp hk
  have hk2 := List.mem_range.mp hk'
  simp only [Function.comp, trip, Prod.mk.injEq] at e
  exact slot_inj h hnd hk1 hk2 e.1 e.2

/-- the reference matrix of a duplicate-free well-formed storage holds exactly the stored triplets
    (for EVERY position, also out-of-range ones, where both sides are empty) -/
theorem refOf_some_iff {s : Sp K} (h : WF s) (hnd : C07.NoDup s) (i j : Nat) (v : K) :
    (refOf s).ent i j = some v ↔ (i, j, v) ∈ trips s := by
  show (firstSlot s i j).map s.vl = some v ↔ _
  constructor
  · intro hg
    cases hf : firstSlot s i j with
    | none => rw [hf] at hg; cases hg
    | some k =>
      rw [hf] at hg
      obtain ⟨a, ⟨b1, b2⟩, _⟩ := firstSlot_eq_some.mp hf
      have : s.vl k = v := by simpa using hg
      exact mem_trips.mpr ⟨k, a, by simp [trip, b1, b2, this]⟩
  · intro hm
    obtain ⟨k, hk, hkt⟩ := mem_trips.mp hm
    have e1 : s.ri k = i := congrArg (·.1) hkt
    have e2 : s.colOf k = j := congrArg (·.2.1) hkt
    have e3 : s.vl k = v := congrArg (·.2.2) hkt
    cases hf : firstSlot s i j with
    | none => exact absurd ⟨e1, e2⟩ (firstSlot_eq_none.mp hf k hk)
    | some k0 =>
      obtain ⟨a, ⟨b1, b2⟩, _⟩ := firstSlot_eq_some.mp hf
      have : k0 = k := slot_inj h hnd a hk (by rw [b1, e1]) (by rw [b2, e2])
      subst this
      simp [e3]

/-- outside the shape the reference matrix of a well-formed storage is empty -/
theorem refOf_outside {s : Sp K} (h : WF s) {i j : Nat} (ho : s.rows ≤ i ∨ s.cols ≤ j) :
    (refOf s).ent i j = none := by
  show (firstSlot s i j).map s.vl = none
  have : firstSlot s i j = none := by
    apply firstSlot_eq_none.mpr
    intro k hk ⟨e1, e2⟩
    have := h.riLt k hk
    have := h.colOf_lt hk
    omega
  rw [this]; rfl

/-- two duplicate-free well-formed storages of the same shape whose triplet lists have the same
    members have the same reference matrix -/
theorem refOf_eq_of_mem {s : Sp K} (h : WF s) (hnd : C07.NoDup s) {r : Ref K}
    (h1 : s.rows = r.rows) (h2 : s.cols = r.cols)
    (h3 : ∀ i j v, (i, j, v) ∈ trips s ↔ r.ent i j = some v) : refOf s = r :=
  Ref.ext_some h1 h2 (fun i j v => by rw [refOf_some_iff h hnd, h3])

theorem posNodup_cons {t : Nat × Nat × K} {ts : List (Nat × Nat × K)} :
    PosNodup (t :: ts) ↔ (∀ u, u ∈ ts → ¬ (u.1 = t.1 ∧ u.2.1 = t.2.1)) ∧ PosNodup ts := by
  unfold PosNodup
  rw [List.map_cons, List.nodup_cons]
  apply and_congr_left'
  constructor
  · intro hh u hu ⟨e1, e2⟩
    exact hh (List.mem_map.mpr ⟨u, hu, by rw [e1, e2]⟩)
  · intro hh hm
    obtain ⟨u, hu, e⟩ := List.mem_map.mp hm
    simp only [Prod.mk.injEq] at e
    exact hh u hu e

/-- lookup in a position-duplicate-free triplet list -/
theorem find_some_iff : ∀ (ts : List (Nat × Nat × K)), PosNodup ts → ∀ (i j : Nat) (v : K),
    (ts.find? (fun t => t.1 == i && t.2.1 == j)).map (·.2.2) = some v ↔ (i, j, v) ∈ ts
  | [], _, i, j, v => by simp
  | t :: ts, hnd, i, j, v => by
    obtain ⟨h1, h2⟩ := posNodup_cons.mp hnd
    have ih := find_some_iff ts h2 i j v
    rw [List.find?_cons, List.mem_cons]
    by_cases hp : t.1 = i ∧ t.2.1 = j
    · have hp' : (t.1 == i && t.2.1 == j) = true := by simp [hp]
      rw [hp']
      simp only [Option.map_some, Option.some.injEq]
      constructor
      · intro e
        left
        obtain ⟨a, b, c⟩ := t
        simp only at hp e
        rw [hp.1, hp.2, e]
      · intro e
        rcases e with e | e
        · rw [← e]
        · exact absurd ⟨hp.1.symm, hp.2.symm⟩ (h1 _ e)
    · have hp' : (t.1 == i && t.2.1 == j) = false := by
        cases hb : (t.1 == i && t.2.1 == j) with
        | false => rfl
        | true => exact absurd (by simpa using hb) hp
      rw [hp']
      simp only
      rw [ih]
      constructor
      · intro e; exact Or.inr e
      · intro e
        rcases e with e | e
        · exact absurd (by rw [← e]; exact ⟨rfl, rfl⟩) hp
        · exact e

/-! ### 1. one step -/

/-- **one operation refines the reference step**: for well-formed duplicate-free storage the model
    call succeeds iff the reference step is defined; then the result is again well formed and
    duplicate free and abstracts to the reference result.  If the reference step rejects (an
    out-of-range `insert`), the call is an index panic (no new state). -/
theorem step_refines {s : Sp K} (h : WF s) (hnd : C07.NoDup s) (op : SpOp K) :
    Refines (stepC s op) (stepR (refOf s) op) := by
  cases op with
  | insert i j v =>
    by_cases hin : i < s.rows ∧ j < s.cols
    · have hR : stepR (refOf s) (.insert i j v) = some ⟨s.rows, s.cols, fun i' j' =>
          if i' = i ∧ j' = j then some v else (refOf s).ent i' j'⟩ := by
        have hin' : i < (refOf s).rows ∧ j < (refOf s).cols := hin
        simp only [stepR, hin', and_self, if_true]
        rfl
      rw [hR]
      obtain ⟨s', h1, h2, h3, h4, hcase⟩ := insert_spec h hin.1 hin.2 v
      rcases hcase with ⟨k, hf, n1, n2, n3, n4⟩ | ⟨hf, n1, n2⟩
      · -- overwrite: same structure, one value changes
        have e1 : ∀ k', s'.ri k' = s.ri k' := by intro k'; simp [Sp.ri, n2]
        have ecs : ∀ c, s'.cs c = s.cs c := by intro c; simp [Sp.cs, n3]
        have e2 : ∀ k', s'.colOf k' = s.colOf k' := by
          intro k'; unfold Sp.colOf Sp.cs; rw [n3, h4]
        have e3 : ∀ a b, firstSlot s' a b = firstSlot s a b := by
          intro a b
          unfold firstSlot
          rw [n1]
          congr 1
          funext k'
          rw [e1, e2]
        obtain ⟨hk, ⟨p1, p2⟩, _⟩ := firstSlot_eq_some.mp hf
        refine ⟨s', h1, h2, ?_, ?_⟩
        · intro c hc k1 k2 a b c' d e
          rw [ecs] at a b c' d
          rw [e1, e1] at e
          exact hnd c (by omega) k1 k2 a b c' d e
        · apply Ref.ext_ent h3 h4
          intro a b
          show (firstSlot s' a b).map s'.vl =
            if a = i ∧ b = j then some v else (firstSlot s a b).map s.vl
          rw [e3]
          by_cases hab : a = i ∧ b = j
          · obtain ⟨rfl, rfl⟩ := hab
            rw [hf]
            simp [n4]
          · cases hfs : firstSlot s a b with
            | none => simp [hab]
            | some k' =>
              obtain ⟨_, ⟨q1, q2⟩, _⟩ := firstSlot_eq_some.mp hfs
              have hne : ¬ k' = k := by
                intro e; subst e
                exact hab ⟨q1.symm.trans p1, q2.symm.trans p2⟩
              simp [hab, n4, hne]
      · -- new position: rebuilt from the extended triplet list
        have hn := firstSlot_eq_none.mp hf
        have htr : trips s' = sortByCol (trips s ++ [(i, j, v)]) := by
          rw [h2.toTriplets_spec] at n2; injection n2
        have hperm : (trips s').Perm ((i, j, v) :: trips s) := by
          rw [htr]
          exact (sortByCol_perm _).trans (List.perm_append_singleton _ _)
        have hpn : PosNodup ((i, j, v) :: trips s) := by
          refine posNodup_cons.mpr ⟨?_, posNodup_trips h hnd⟩
          intro u hu hpos
          obtain ⟨k, hk, rfl⟩ := mem_trips.mp hu
          exact hn k hk hpos
        have hnd' : C07.NoDup s' := noDup_of_posNodup h2 (hpn.perm hperm.symm)
        refine ⟨s', h1, h2, hnd', ?_⟩
        apply refOf_eq_of_mem h2 hnd' h3 h4
        intro a b w
        rw [hperm.mem_iff, List.mem_cons, ← refOf_some_iff h hnd]
        show _ ↔ (if a = i ∧ b = j then some v else (refOf s).ent a b) = some w
        by_cases hab : a = i ∧ b = j
        · obtain ⟨rfl, rfl⟩ := hab
          have hnone : (refOf s).ent a b = none := by
            show (firstSlot s a b).map s.vl = none
            rw [hf]; rfl
          simp only [hnone, and_self, if_true, Option.some.injEq, Prod.mk.injEq, true_and,
            reduceCtorEq, or_false]
          exact eq_comm
        · simp only [hab, if_false]
          constructor
          · intro e
            rcases e with e | e
            · simp only [Prod.mk.injEq] at e
              exact absurd ⟨e.1, e.2.1⟩ hab
            · exact e
          · intro e; exact Or.inr e
    · have hR : stepR (refOf s) (.insert i j v) = none := by
        have hin' : ¬ (i < (refOf s).rows ∧ j < (refOf s).cols) := hin
        simp only [stepR, hin', if_false]
      rw [hR]
      show Sp.insert s i j v = .error .range
      unfold Sp.insert
      by_cases h1 : s.rows ≤ i
      · simp [h1]
      · have h2 : s.cols ≤ j := by omega
        simp [h1, h2]
  | scale a =>
    obtain ⟨s', h1, h2, h3⟩ := scale_wf h a
    subst h3
    refine ⟨_, h1, h2, hnd, ?_⟩
    show refOf _ = (⟨s.rows, s.cols, fun i j => ((refOf s).ent i j).map (· * a)⟩ : Ref K)
    refine Ref.ext_ent ?_ ?_ ?_
    · rfl
    · rfl
    intro i j
    show (firstSlot s i j).map (Sp.vl { s with val := s.val.map (· * a) }) =
      ((firstSlot s i j).map s.vl).map (· * a)
    cases hfs : firstSlot s i j with
    | none => rfl
    | some k =>
      obtain ⟨hk, _, _⟩ := firstSlot_eq_some.mp hfs
      have hk' : k < s.val.size := by rw [h.valSize]; exact hk
      simp [Sp.vl, Array.getElem?_map, hk']
  | transpose =>
    obtain ⟨t, h1, h2, h3, h4, h5, h6⟩ := h.transpose_trips
    have hperm : (trips t).Perm ((trips s).map swapT) := by rw [h6]; exact sortByCol_perm _
    have hpn : PosNodup ((trips s).map swapT) := by
      have := posNodup_trips h hnd
      unfold PosNodup at this ⊢
      rw [List.map_map]
      have e : ((fun u : Nat × Nat × K => (u.1, u.2.1)) ∘ swapT) =
          (Prod.swap ∘ fun u : Nat × Nat × K => (u.1, u.2.1)) := by
        funext u; rfl
      rw [e, ← List.map_map]
      exact this.map Prod.swap_injective
    have hnd' : C07.NoDup t := noDup_of_posNodup h2 (hpn.perm hperm.symm)
    refine ⟨t, h1, h2, hnd', ?_⟩
    show refOf t = (⟨s.cols, s.rows, fun i j => (refOf s).ent j i⟩ : Ref K)
    apply refOf_eq_of_mem h2 hnd' h3 h4
    intro a b w
    rw [hperm.mem_iff]
    show _ ↔ (refOf s).ent b a = some w
    rw [refOf_some_iff h hnd]
    simp only [List.mem_map]
    constructor
    · intro ⟨u, hu, e⟩
      obtain ⟨x, y, z⟩ := u
      simp only [swapT, Prod.mk.injEq] at e
      obtain ⟨rfl, rfl, rfl⟩ := e
      exact hu
    · intro e
      exact ⟨(b, a, w), e, rfl⟩

/-- the call succeeds iff the reference step is defined (and only `insert` can be rejected:
    exactly when the position is out of range) -/
theorem step_ok_iff {s : Sp K} (h : WF s) (hnd : C07.NoDup s) (op : SpOp K) :
    ((∃ s', stepC s op = .ok s') ↔ (stepR (refOf s) op).isSome) ∧
    ((stepR (refOf s) op).isSome ↔
      match op with
      | .insert i j _ => i < s.rows ∧ j < s.cols
      | _ => True) := by
  have R := step_refines h hnd op
  constructor
  · cases hr : stepR (refOf s) op with
    | none =>
      rw [hr] at R
      have R' : stepC s op = .error .range := R
      simp [R']
    | some r =>
      rw [hr] at R
      obtain ⟨s', e, _⟩ := R
      simp [e]
  · cases op with
    | insert i j v =>
      by_cases hin : i < s.rows ∧ j < s.cols
      · have hin' : i < (refOf s).rows ∧ j < (refOf s).cols := hin
        simp [stepR, hin', hin]
      · have hin' : ¬ (i < (refOf s).rows ∧ j < (refOf s).cols) := hin
        simp only [stepR, hin', if_false, hin]
        simp
    | scale a => simp [stepR]
    | transpose => simp [stepR]

/-! ### 2. arbitrary histories -/

theorem runC_cons (op : SpOp K) (ops : List (SpOp K)) (s : Sp K) :
    runC (op :: ops) s = (stepC s op >>= fun s' => runC ops s') := by
  simp [runC, List.foldlM_cons]

theorem runR_cons (op : SpOp K) (ops : List (SpOp K)) (r : Ref K) :
    runR (op :: ops) r = (stepR r op).bind (fun r' => runR ops r') := by
  simp [runR, List.foldlM_cons]

/-- **arbitrary histories** from ANY well-formed duplicate-free storage (e.g. raw arrays whose rows
    are in any order inside a column): by induction over the operation list, the model's storage
    after the history is well formed, duplicate free and abstracts to the reference matrix put
    through the same history; the history panics (index panic) iff the reference rejects it -/
theorem history_refines (ops : List (SpOp K)) : ∀ {s : Sp K}, WF s → C07.NoDup s →
    Refines (runC ops s) (runR ops (refOf s)) := by
  induction ops with
  | nil =>
    intro s h hnd
    exact ⟨s, rfl, h, hnd, rfl⟩
  | cons op ops ih =>
    intro s h hnd
    have R := step_refines h hnd op
    rw [runC_cons, runR_cons]
    cases hr : stepR (refOf s) op with
    | none =>
      rw [hr] at R
      have R' : stepC s op = .error .range := R
      rw [R']
      rfl
    | some r =>
      rw [hr] at R
      obtain ⟨s', e, h', hnd', rfl⟩ := R
      rw [e]
      exact ih h' hnd'

/-- well-formedness and duplicate-freeness are invariant under every history that does not panic -/
theorem history_wf (ops : List (SpOp K)) {s s' : Sp K} (h : WF s) (hnd : C07.NoDup s)
    (hrun : runC ops s = .ok s') : WF s' ∧ C07.NoDup s' := by
  have R := history_refines ops h hnd
  cases hr : runR ops (refOf s) with
  | none =>
    rw [hr] at R
    have R' : runC ops s = .error .range := R
    rw [R'] at hrun
    cases hrun
  | some r =>
    rw [hr] at R
    obtain ⟨s'', e, h', hnd', _⟩ := R
    rw [e] at hrun
    injection hrun with hrun
    subst hrun
    exact ⟨h', hnd'⟩

/-- `from_triplets` of in-range triplets with pairwise distinct positions (in ANY order) builds a
    well-formed duplicate-free storage that abstracts to the reference matrix of the list -/
theorem fromTriplets_refOf (rows cols : Nat) (ts : List (Nat × Nat × K))
    (hr : ∀ t, t ∈ ts → t.1 < rows ∧ t.2.1 < cols) (hnd : PosNodup ts) :
    ∃ s, fromTriplets rows cols ts = .ok s ∧ WF s ∧ C07.NoDup s ∧
      refOf s = refOfTriplets rows cols ts := by
  obtain ⟨s, h1, h2, h3, h4, _, h6⟩ := fromTriplets_ok rows cols ts (sortByCol_length ts)
    (sortByCol_sorted ts) (fun t ht => hr t ((sortByCol_perm ts).subset ht))
  have hnd' : C07.NoDup s := noDup_of_posNodup h2 (by
    rw [h6]; exact PosNodup.perm (sortByCol_perm ts).symm hnd)
  refine ⟨s, h1, h2, hnd', ?_⟩
  apply refOf_eq_of_mem h2 hnd' h3 h4
  intro i j v
  rw [h6, (sortByCol_perm ts).mem_iff]
  exact (find_some_iff ts hnd i j v).symm

/-- **arbitrary histories starting from `from_triplets`** -/
theorem history_refines_fromTriplets (rows cols : Nat) (ts : List (Nat × Nat × K))
    (hr : ∀ t, t ∈ ts → t.1 < rows ∧ t.2.1 < cols) (hnd : PosNodup ts) (ops : List (SpOp K)) :
    Refines (fromTriplets rows cols ts >>= fun s => runC ops s)
      (runR ops (refOfTriplets rows cols ts)) := by
  obtain ⟨s, h1, h2, h3, h4⟩ := fromTriplets_refOf rows cols ts hr hnd
  rw [h1, ← h4]
  exact history_refines ops h2 h3

/-! ### the views of a well-formed duplicate-free storage describe its reference matrix -/

theorem is_congr {m : Mat K} {r c : Nat} {e e' : Nat → Nat → K} (h : Mat.Is m r c e)
    (he : ∀ i j, i < r → j < c → e i j = e' i j) : Mat.Is m r c e' :=
  ⟨h.wf, h.rows, h.cols, fun i j hi hj => by rw [h.entry i j hi hj, he i j hi hj]⟩

/-- `to_dense` of a well-formed duplicate-free storage, class (S) (no sums): entry (i, j) is the
    stored value of the position, the fill value `0` where nothing is stored -/
theorem toDense_refOf {s : Sp K} (h : WF s) (hnd : C07.NoDup s) :
    ∃ d, toDense s = .ok d ∧
      Mat.Is d s.rows s.cols (fun i j => ((refOf s).ent i j).getD 0) := by
  unfold toDense
  rw [h.forM'_cols_flat (σ := Mat K) (fun j d k => do
      let r ← aget s.rowIndex k
      let v ← aget s.val k
      d.set r j v)]
  obtain ⟨d, h1, h2⟩ := forM'_inv
    (fun m (d : Mat K) => Mat.Is d s.rows s.cols (fun a b =>
      ((firstHit (fun k => s.ri k == a && s.colOf k == b) m).map s.vl).getD 0))
    0 s.nonzero (Mat.new s.rows s.cols (0 : K)) (fun d k => do
      let r ← aget s.rowIndex k
      let v ← aget s.val k
      d.set r (s.colOf k) v) (Nat.zero_le _)
    (by simpa [firstHit] using Mat.Is.of_new s.rows s.cols (0 : K)) (by
      intro m d _ hm hI
      obtain ⟨d', g1, g2⟩ := hI.set (h.riLt m hm) (h.colOf_lt hm) (s.vl m)
      refine ⟨d', by simp only [h.aget_ri hm, h.aget_vl hm, bind, Except.bind]; exact g1,
        is_congr g2 ?_⟩
      intro a b _ _
      simp only [firstHit]
      by_cases hab : a = s.ri m ∧ b = s.colOf m
      · obtain ⟨rfl, rfl⟩ := hab
        have hnone : firstHit (fun k => s.ri k == s.ri m && s.colOf k == s.colOf m) m = none := by
          apply firstHit_eq_none.mpr
          intro k hk
          cases hb : (s.ri k == s.ri m && s.colOf k == s.colOf m) with
          | false => rfl
          | true =>
            have hb' : s.ri k = s.ri m ∧ s.colOf k = s.colOf m := by simpa using hb
            have := slot_inj h hnd (by omega) hm hb'.1 hb'.2
            omega
        simp [hnone]
      · have hp : (s.ri m == a && s.colOf m == b) = false := by
          cases hb : (s.ri m == a && s.colOf m == b) with
          | false => rfl
          | true =>
            have hb' : s.ri m = a ∧ s.colOf m = b := by simpa using hb
            exact absurd ⟨hb'.1.symm, hb'.2.symm⟩ hab
        simp only [hab, if_false, hp]
        cases firstHit (fun k => s.ri k == a && s.colOf k == b) m <;> simp)
  exact ⟨d, h1, h2⟩

/-- **all views of a well-formed duplicate-free storage describe its reference matrix**:
    `get` returns the reference entry (index panic outside the shape), `to_triplets` lists exactly
    the stored positions of the reference (each once, `nonzero` many), `col_index` gives the column
    of every stored triplet, `to_dense` is the reference matrix with `0` for the empty positions -/
theorem refOf_views {s : Sp K} (h : WF s) (hnd : C07.NoDup s) :
    (∀ i j, i < s.rows → j < s.cols → get s i j = .ok ((refOf s).ent i j)) ∧
    (∀ i j, s.rows ≤ i ∨ s.cols ≤ j → get s i j = .error .range ∧ (refOf s).ent i j = none) ∧
    (∃ l, toTriplets s = .ok l ∧ l.length = s.nonzero ∧ PosNodup l ∧
      (∀ i j v, (i, j, v) ∈ l ↔ (refOf s).ent i j = some v) ∧
      ∃ ci, colIndex s = .ok ci ∧ ci.size = s.nonzero ∧
        ∀ k, k < s.nonzero → ∃ c, ci[k]? = some c ∧ c < s.cols ∧ s.ri k < s.rows ∧
          l[k]? = some (s.ri k, c, s.vl k) ∧ (refOf s).ent (s.ri k) c = some (s.vl k)) ∧
    (∃ d, toDense s = .ok d ∧
      Mat.Is d s.rows s.cols (fun i j => ((refOf s).ent i j).getD 0)) := by
  refine ⟨fun i j hi hj => h.get_spec hi hj, ?_, ?_, toDense_refOf h hnd⟩
  · intro i j ho
    refine ⟨?_, refOf_outside h ho⟩
    unfold Sp.get
    by_cases h1 : s.rows ≤ i
    · simp [h1]
    · have h2 : s.cols ≤ j := by omega
      simp [h1, h2]
  · obtain ⟨ci, c1, c2, c3⟩ := h.colIndex_spec
    refine ⟨trips s, h.toTriplets_spec, length_trips s, posNodup_trips h hnd,
      fun i j v => (refOf_some_iff h hnd i j v).symm, ci, c1, c2, ?_⟩
    intro k hk
    refine ⟨s.colOf k, c3 k hk, h.colOf_lt hk, h.riLt k hk, getElem?_trips s hk, ?_⟩
    exact (refOf_some_iff h hnd _ _ _).mpr (mem_trips.mpr ⟨k, hk, rfl⟩)

/-- **packaged history theorem**: start from any well-formed duplicate-free storage, run any
    history.  If the reference accepts the history (result `r`), the model run succeeds with a
    well-formed duplicate-free storage of the reference shape on which `get`, `to_triplets`,
    `col_index` and `to_dense` all describe `r`; if the reference rejects it, the model run is an
    index panic. -/
theorem history_views (ops : List (SpOp K)) {s : Sp K} (h : WF s) (hnd : C07.NoDup s) :
    (∀ r, runR ops (refOf s) = some r →
      ∃ s', runC ops s = .ok s' ∧ WF s' ∧ C07.NoDup s' ∧ s'.rows = r.rows ∧ s'.cols = r.cols ∧
        (∀ i j, i < r.rows → j < r.cols → get s' i j = .ok (r.ent i j)) ∧
        (∀ i j, r.rows ≤ i ∨ r.cols ≤ j → get s' i j = .error .range ∧ r.ent i j = none) ∧
        (∃ l, toTriplets s' = .ok l ∧ l.length = s'.nonzero ∧ PosNodup l ∧
          (∀ i j v, (i, j, v) ∈ l ↔ r.ent i j = some v) ∧
          ∃ ci, colIndex s' = .ok ci ∧ ci.size = s'.nonzero ∧
            ∀ k, k < s'.nonzero → ∃ c, ci[k]? = some c ∧ c < r.cols ∧ s'.ri k < r.rows ∧
              l[k]? = some (s'.ri k, c, s'.vl k) ∧ r.ent (s'.ri k) c = some (s'.vl k)) ∧
        (∃ d, toDense s' = .ok d ∧ Mat.Is d r.rows r.cols (fun i j => (r.ent i j).getD 0))) ∧
    (runR ops (refOf s) = none → runC ops s = .error .range) := by
  have R := history_refines ops h hnd
  constructor
  · intro r hr
    rw [hr] at R
    obtain ⟨s', e, h', hnd', rfl⟩ := R
    obtain ⟨v1, v2, v3, v4⟩ := refOf_views h' hnd'
    exact ⟨s', e, h', hnd', rfl, rfl, v1, v2, v3, v4⟩
  · intro hr
    rw [hr] at R
    exact R

/-- the packaged theorem for histories that start with `from_triplets` (in-range triplets with
    pairwise distinct positions, in any order) -/
theorem history_views_fromTriplets (rows cols : Nat) (ts : List (Nat × Nat × K))
    (hr : ∀ t, t ∈ ts → t.1 < rows ∧ t.2.1 < cols) (hnd : PosNodup ts) (ops : List (SpOp K)) :
    (∀ r, runR ops (refOfTriplets rows cols ts) = some r →
      ∃ s', (fromTriplets rows cols ts >>= fun s => runC ops s) = .ok s' ∧ WF s' ∧
        C07.NoDup s' ∧ s'.rows = r.rows ∧ s'.cols = r.cols ∧
        (∀ i j, i < r.rows → j < r.cols → get s' i j = .ok (r.ent i j)) ∧
        (∀ i j, r.rows ≤ i ∨ r.cols ≤ j → get s' i j = .error .range ∧ r.ent i j = none) ∧
        (∃ l, toTriplets s' = .ok l ∧ l.length = s'.nonzero ∧ PosNodup l ∧
          (∀ i j v, (i, j, v) ∈ l ↔ r.ent i j = some v) ∧
          ∃ ci, colIndex s' = .ok ci ∧ ci.size = s'.nonzero ∧
            ∀ k, k < s'.nonzero → ∃ c, ci[k]? = some c ∧ c < r.cols ∧ s'.ri k < r.rows ∧
              l[k]? = some (s'.ri k, c, s'.vl k) ∧ r.ent (s'.ri k) c = some (s'.vl k)) ∧
        (∃ d, toDense s' = .ok d ∧ Mat.Is d r.rows r.cols (fun i j => (r.ent i j).getD 0))) ∧
    (runR ops (refOfTriplets rows cols ts) = none →
      (fromTriplets rows cols ts >>= fun s => runC ops s) = .error .range) := by
  obtain ⟨s, h1, h2, h3, h4⟩ := fromTriplets_refOf rows cols ts hr hnd
  rw [h1, ← h4]
  exact history_views ops h2 h3

/-! ### 3. `nonzero` counts the stored positions of the reference -/

/-- `nonzero` of a well-formed duplicate-free storage is the number of positions at which its
    reference matrix is defined -/
theorem nonzero_eq_nnz {s : Sp K} (h : WF s) (hnd : C07.NoDup s) : s.nonzero = (refOf s).nnz := by
  have himg : ((Finset.range (refOf s).rows ×ˢ Finset.range (refOf s).cols).filter
      (fun p => ((refOf s).ent p.1 p.2).isSome)) =
      (Finset.range s.nonzero).image (fun k => (s.ri k, s.colOf k)) := by
    ext p
    simp only [Finset.mem_filter, Finset.mem_product, Finset.mem_range, Finset.mem_image]
    constructor
    · intro ⟨_, hs⟩
      have hs' : ((firstSlot s p.1 p.2).map s.vl).isSome = true := hs
      cases hf : firstSlot s p.1 p.2 with
      | none => rw [hf] at hs'; cases hs'
      | some k =>
        obtain ⟨a, ⟨b1, b2⟩, _⟩ := firstSlot_eq_some.mp hf
        exact ⟨k, a, by rw [b1, b2]⟩
    · intro ⟨k, hk, e⟩
      subst e
      refine ⟨⟨h.riLt k hk, h.colOf_lt hk⟩, ?_⟩
      show ((firstSlot s (s.ri k) (s.colOf k)).map s.vl).isSome = true
      cases hf : firstSlot s (s.ri k) (s.colOf k) with
      | none => exact absurd ⟨rfl, rfl⟩ (firstSlot_eq_none.mp hf k hk)
      | some k0 => rfl
  unfold Ref.nnz
  rw [himg, Finset.card_image_of_injOn, Finset.card_range]
  intro k hk k' hk' e
  have hk1 : k < s.nonzero := by simpa using hk
  have hk2 : k' < s.nonzero := by simpa using hk'
  simp only [Prod.mk.injEq] at e
  exact slot_inj h hnd hk1 hk2 e.1 e.2

/-- effect of one successful step on `nonzero`: an `insert` at a stored position (overwrite) keeps
    it, an `insert` at a new position grows it by one, `scale` and `transpose` keep it -/
theorem step_nonzero {s s' : Sp K} (h : WF s) (hnd : C07.NoDup s) (op : SpOp K)
    (hstep : stepC s op = .ok s') :
    s'.nonzero = s.nonzero + growth (refOf s) op := by
  cases op with
  | insert i j v =>
    by_cases hin : i < s.rows ∧ j < s.cols
    · obtain ⟨s'', h1, _, _, _, hcase⟩ := insert_spec h hin.1 hin.2 v
      have h1' : stepC s (.insert i j v) = .ok s'' := h1
      rw [h1'] at hstep
      injection hstep with hstep
      subst hstep
      have hent : (refOf s).ent i j = (firstSlot s i j).map s.vl := rfl
      rcases hcase with ⟨k, hf, n1, _⟩ | ⟨hf, n1, _⟩
      · simp [growth, hent, hf, n1]
      · simp [growth, hent, hf, n1]
    · have R := step_refines h hnd (.insert i j v)
      have hin' : ¬ (i < (refOf s).rows ∧ j < (refOf s).cols) := hin
      have hR : stepR (refOf s) (.insert i j v) = none := by simp only [stepR, hin', if_false]
      rw [hR] at R
      have R' : stepC s (.insert i j v) = .error .range := R
      rw [R'] at hstep
      cases hstep
  | scale a =>
    obtain ⟨s'', h1, _, h3⟩ := scale_wf h a
    have h1' : stepC s (.scale a) = .ok s'' := h1
    rw [h1'] at hstep
    injection hstep with hstep
    subst hstep
    subst h3
    rfl
  | transpose =>
    obtain ⟨t, h1, _, _, _, h5⟩ := transpose_wf h
    have h1' : stepC s .transpose = .ok t := h1
    rw [h1'] at hstep
    injection hstep with hstep
    subst hstep
    simpa [growth] using h5

/-- **after any history `nonzero` is the number of stored positions of the reference** -/
theorem history_nonzero (ops : List (SpOp K)) {s : Sp K} (h : WF s) (hnd : C07.NoDup s) {r : Ref K}
    (hr : runR ops (refOf s) = some r) :
    ∃ s', runC ops s = .ok s' ∧ s'.nonzero = r.nnz := by
  have R := history_refines ops h hnd
  rw [hr] at R
  obtain ⟨s', e, h', hnd', rfl⟩ := R
  exact ⟨s', e, nonzero_eq_nnz h' hnd'⟩

/-- the same for histories that start with `from_triplets` -/
theorem history_nonzero_fromTriplets (rows cols : Nat) (ts : List (Nat × Nat × K))
    (hr : ∀ t, t ∈ ts → t.1 < rows ∧ t.2.1 < cols) (hnd : PosNodup ts) (ops : List (SpOp K))
    {r : Ref K} (hrun : runR ops (refOfTriplets rows cols ts) = some r) :
    ∃ s', (fromTriplets rows cols ts >>= fun s => runC ops s) = .ok s' ∧ s'.nonzero = r.nnz := by
  obtain ⟨s, h1, h2, h3, h4⟩ := fromTriplets_refOf rows cols ts hr hnd
  rw [h1]
  rw [← h4] at hrun
  exact history_nonzero ops h2 h3 hrun

/-- on the reference side (for every reference matrix that is the abstraction of a storage): the
    number of stored positions is kept by overwrites, `scale`, `transpose` and grows by one with an
    insertion at an empty position -/
theorem nnz_stepR {s : Sp K} (h : WF s) (hnd : C07.NoDup s) (op : SpOp K) {r : Ref K}
    (hr : stepR (refOf s) op = some r) :
    r.nnz = (refOf s).nnz + growth (refOf s) op := by
  have R := step_refines h hnd op
  rw [hr] at R
  obtain ⟨s', e, h', hnd', rfl⟩ := R
  rw [← nonzero_eq_nnz h' hnd', ← nonzero_eq_nnz h hnd]
  exact step_nonzero h hnd op e

end S

/-! ### non-vacuity -/

/-- the 3×2 matrix `[[6,0],[0,7],[5,0]]`; column 0 stores row 2 BEFORE row 0 (unsorted rows) -/
def demoH : Sp ℤ := ⟨3, 2, 3, #[5, 6, 7], #[2, 0, 1], #[0, 2, 3]⟩

theorem demoH_wf : WF demoH ∧ C07.NoDup demoH := by
  refine ⟨⟨rfl, rfl, ?_, rfl, rfl, rfl, ?_⟩, ?_⟩
  · intro j hj
    have : j = 0 ∨ j = 1 := by simp only [demoH] at hj; omega
    rcases this with rfl | rfl <;> simp [Sp.cs, demoH]
  · intro k hk
    have : k = 0 ∨ k = 1 ∨ k = 2 := by simp only [demoH] at hk; omega
    rcases this with rfl | rfl | rfl <;> simp [Sp.ri, demoH]
  · intro j hj k k' a b c d e
    have hj' : j < 2 := hj
    interval_cases j <;> simp [Sp.cs, demoH] at a b c d <;>
      interval_cases k <;> interval_cases k' <;> simp_all [Sp.ri, demoH]

/-- an overwrite of the stored position (0,0), a transpose, a scaling, a new insertion, and a
    rejected history -/
def demoOps : List (SpOp ℤ) := [.insert 0 0 9, .transpose, .scale 2, .insert 1 2 4]

theorem demoRef : ∃ r, runR demoOps (refOf demoH) = some r ∧ r.rows = 2 ∧ r.cols = 3 ∧
    r.ent 0 0 = some 18 ∧ r.ent 0 2 = some 10 ∧ r.ent 1 1 = some 14 ∧ r.ent 1 2 = some 4 ∧
    r.ent 0 1 = none ∧ r.nnz = 4 := by
  refine ⟨_, rfl, rfl, rfl, ?_, ?_, ?_, ?_, ?_, ?_⟩ <;> decide

/-- the hypotheses of `history_views` / `history_nonzero` are satisfiable by a non-trivial storage
    (unsorted rows inside a column) and a non-trivial history; the conclusions pin down the result -/
example : ∃ s', runC demoOps demoH = .ok s' ∧ WF s' ∧ C07.NoDup s' ∧ s'.rows = 2 ∧ s'.cols = 3 ∧
    s'.nonzero = 4 ∧ get s' 0 0 = .ok (some 18) ∧ get s' 0 2 = .ok (some 10) ∧
    get s' 1 1 = .ok (some 14) ∧ get s' 1 2 = .ok (some 4) ∧ get s' 0 1 = .ok none ∧
    get s' 2 0 = .error .range ∧
    ∃ d, toDense s' = .ok d ∧ d.get 0 0 = .ok 18 ∧ d.get 0 1 = .ok 0 := by
  obtain ⟨r, hr, r1, r2, e1, e2, e3, e4, e5, e6⟩ := demoRef
  obtain ⟨s', g1, g2, g3, g4, g5, g6, g7, _, d, g8, g9⟩ :=
    (history_views demoOps demoH_wf.1 demoH_wf.2).1 r hr
  obtain ⟨s'', k1, k2⟩ := history_nonzero demoOps demoH_wf.1 demoH_wf.2 hr
  rw [g1] at k1
  injection k1 with k1
  subst k1
  rw [r1] at g4 g6 g7 g9
  rw [r2] at g5 g6 g7 g9
  refine ⟨s', g1, g2, g3, g4, g5, by rw [k2, e6], ?_, ?_, ?_, ?_, ?_, ?_, d, g8, ?_, ?_⟩
  · rw [g6 0 0 (by omega) (by omega), e1]
  · rw [g6 0 2 (by omega) (by omega), e2]
  · rw [g6 1 1 (by omega) (by omega), e3]
  · rw [g6 1 2 (by omega) (by omega), e4]
  · rw [g6 0 1 (by omega) (by omega), e5]
  · exact (g7 2 0 (Or.inl (by omega))).1
  · rw [g9.entry 0 0 (by omega) (by omega), e1]; rfl
  · rw [g9.entry 0 1 (by omega) (by omega), e5]; rfl

/-- the same history is an index panic as soon as one `insert` is out of range (row 2 of the
    transposed 2×3 matrix) -/
example : runC [.insert 0 0 9, .transpose, .insert 2 0 1, .scale 2] demoH = .error .range :=
  (history_views _ demoH_wf.1 demoH_wf.2).2 rfl

/-- from unsorted triplets -/
example : ∃ s', (fromTriplets 3 2 [((1 : Nat), (1 : Nat), (7 : ℤ)), (2, 0, 5), (0, 0, 6)] >>=
      fun s => runC demoOps s) = .ok s' ∧ WF s' ∧ C07.NoDup s' ∧ get s' 0 0 = .ok (some 18) ∧
    s'.nonzero = 4 := by
  have hr : ∀ t, t ∈ [((1 : Nat), (1 : Nat), (7 : ℤ)), (2, 0, 5), (0, 0, 6)] → t.1 < 3 ∧ t.2.1 < 2 := by
    intro t ht; simp at ht; rcases ht with rfl | rfl | rfl <;> simp
  have hnd : PosNodup [((1 : Nat), (1 : Nat), (7 : ℤ)), (2, 0, 5), (0, 0, 6)] := by
    unfold PosNodup; decide
  have hR : ∃ r, runR demoOps (refOfTriplets 3 2 [((1 : Nat), (1 : Nat), (7 : ℤ)), (2, 0, 5), (0, 0, 6)])
      = some r ∧ r.rows = 2 ∧ r.cols = 3 ∧ r.ent 0 0 = some 18 ∧ r.nnz = 4 := by
    refine ⟨_, rfl, rfl, rfl, ?_, ?_⟩ <;> decide
  obtain ⟨r, hr', r1, r2, e1, e6⟩ := hR
  obtain ⟨s', g1, g2, g3, g4, g5, g6, _⟩ := (history_views_fromTriplets 3 2 _ hr hnd demoOps).1 r hr'
  obtain ⟨s'', k1, k2⟩ := history_nonzero_fromTriplets 3 2 _ hr hnd demoOps hr'
  rw [g1] at k1
  injection k1 with k1
  subst k1
  exact ⟨s', g1, g2, g3, by rw [g6 0 0 (by omega) (by omega), e1], by rw [k2, e6]⟩

end Ohsl.Props.C06
