/-
  Property C01 (part H) — GROWTH of the computed upper factor under partial pivoting, and the
  normwise backward error of `solve_lu` / `solve_basic` RELATIVE TO `A`, in the "rounded reals"
  interpretation `Fl M` of the model (standard model of floating-point arithmetic, Rounding.lean).
  Completes C01F (`solve_lu`) and C01G (`solve_basic`), whose normwise corollaries
  `solveLU_backward_normwise_U` / `solveBasic_backward_normwise_U` bound `‖ΔA‖_∞` by a multiple of
  `‖Û‖_∞`, not of `‖A‖_∞`.  Helper file: Ohsl/Lemmas/C01H.lean.  The transfer to the Rust `f64` code
  rests on the ASSUMPTION stated in Rounding.lean (binary64 without overflow/underflow satisfies
  `FlModel`), not proved here.

  THE GROWTH FACTOR.  One elimination update is `fl(a − fl(l·p))` with a multiplier `|l| ≤ 1 + u`
  (`luDecomp_backward` / `gauss_backward`: a ROUNDED quotient of magnitudes `≤ 1`), so
        `|new| ≤ (1+u)·(|a| + (1+u)²·|p|) ≤ g·max(|a|,|p|)`,   `g = M.gro = (1+u)(1 + (1+u)²)`
  (`g = 2` for `u = 0`, `2 ≤ g ≤ 2(1+u)³` in general: `growth_factor_bounds`).  Row exchanges and
  skipped zero columns do not change the maximum, so with `μ_k` the largest magnitude in the active
  sub-matrix after `k` steps `μ_{k+1} ≤ g μ_k` (`luStep_growth`, `gaussStep_growth`) and row `r` of
  `Û`, which is final after `r` steps, is bounded by `g^r · max|a_ij|`.

  Rounding (F)
  * `elim_step_growth`, `elim_step_growth_max`   one update
  * `luStep_growth`, `gaussStep_growth`          one step of the model's loops: `μ_{k+1} ≤ g μ_k`
  * `lu_growth`                `luDecomp A = .ok s` ⇒ `|û_rc| ≤ g^r max|a_ij| ≤ g^(n−1) max|a_ij|`
  * `lu_growth_norm`           `‖Û‖_∞ ≤ n g^(n−1) max|a_ij| ≤ n g^(n−1) ‖A‖_∞`
  * `gauss_growth`, `gauss_growth_norm`          the same for the result of `gaussWithPivot`
  * `solveLU_backward_normwise_max`, `solveLU_backward_normwise_A`  (Higham, Thm 9.5 + Lemma 9.6)
        `(A + ΔA) x̂ = b`,  `‖ΔA‖_∞ ≤ (gq n + gq (3n)) · n² (1+u) g^(n−1) · max|a_ij|
                                    ≤ (gq n + gq (3n)) · n² (1+u) g^(n−1) · ‖A‖_∞`
  * `solveLU_backward_relative`   `‖ΔA‖_∞ / ‖A‖_∞ ≤ (gq n + gq (3n)) · n² (1+u) g^(n−1)`
  * `solveBasic_backward_normwise_max`, `solveBasic_backward_normwise_A`, `solveBasic_backward_relative`
        the same for `solve_basic` with the constant `gq (n−1) + gq (2n−1)` of C01G
  * `wilkinson_growth`         the bound `g^(n−1)` is ATTAINED in exact arithmetic (`g = 2`): for
        Wilkinson's matrix (`1` on the diagonal, `−1` below, `1` in the last column) `luDecomp` returns,
        without any row exchange, a factor with `û_{n−1,n−1} = 2^(n−1)` while `max|a_ij| = 1`.
  Nothing is `_partial`.

  AN HONEST REMARK ON THE PROPERTY.  The constant `n² (1+u) g^(n−1) ≈ n² 2^(n−1)` is EXPONENTIAL in `n`,
  and by `wilkinson_growth` the factor `2^(n−1)` in the growth of `Û` cannot be improved for Gaussian
  elimination with partial pivoting.  So "a backward error of the order of machine epsilon" (C01) is
  a theorem only in the sense `‖ΔA‖_∞/‖A‖_∞ ≤ ρ_n · p(n) · u` with the growth factor `ρ_n ≤ 2^(n−1)`:
  of the order of `u` for small `n`, or for matrices whose growth is moderate (the generic case in
  practice: the growth factor is almost always small); for Wilkinson-type matrices of large order
  the backward error of `solve_lu` / `solve_basic` really is large.  What is proved WITHOUT any growth
  assumption is the componentwise bound `|ΔA| ≤ c·Pᵀ|L̂||Û|` of C01F / C01G; the float oracle of the
  harness measures the actual backward error on its test matrices.

  Examples (section `Examples`): the `3 × 3` Wilkinson matrix with `b = A·[1,1,1]` in EVERY model
  in which the integers up to `8` are representable (`ExH.SmallRep`) — in particular
  `FlModel.exact` and `FlModel.binary64` — `solve_lu` and `solve_basic` return `[1,1,1]`,
  `Û = [[1,0,1],[0,1,2],[0,0,4]]`: the hypotheses of all theorems are satisfiable there, and in the
  exact model `û₂₂ = 4 = g² · max|a_ij|` attains `lu_growth`.
-/
import Ohsl.Props.C01G
import Ohsl.Lemmas.C01H
import Mathlib.Algebra.BigOperators.Intervals
import Mathlib.Algebra.Order.BigOperators.Group.Finset
import Mathlib.Algebra.BigOperators.Ring.Finset
import Mathlib.Tactic.Ring
import Mathlib.Tactic.Linarith
import Mathlib.Tactic.Positivity
import Mathlib.Tactic.NormNum
import Mathlib.Tactic.SplitIfs
set_option linter.unusedSectionVars false
set_option linter.unusedVariables false
set_option linter.unusedSimpArgs false
namespace Ohsl.Props.C01
open Ohsl Ohsl.Mat

section Rounding
variable {M : FlModel}

/-! ### one update, one step -/

/-- **one elimination update**: `|fl(a − fl(l·p))| ≤ (1+u)·(|a| + (1+u)²·|p|)` for a multiplier
`|l| ≤ 1 + u` (the bound of `luDecomp_backward` / `gauss_backward`) -/
theorem elim_step_growth (a p l : Fl M) (hl : |l.val| ≤ 1 + M.u) :
    |(a - l * p).val| ≤ (1 + M.u) * (|a.val| + (1 + M.u) ^ 2 * |p.val|) :=
  Fl.abs_elim_le a p l hl

/-- … hence `≤ g·μ`, `g = (1+u)(1+(1+u)²)`, when `|a|, |p| ≤ μ` -/
theorem elim_step_growth_max (a p l : Fl M) (hl : |l.val| ≤ 1 + M.u) {μ : ℝ}
    (ha : |a.val| ≤ μ) (hp : |p.val| ≤ μ) : |(a - l * p).val| ≤ M.gro * μ :=
  Fl.abs_elim_le_gro a p l hl ha hp

/-- the growth factor: `g = (1+u)(1+(1+u)²)`, `2 ≤ g ≤ 2(1+u)³`, `g^k ≤ 2^k (1+u)^(3k)`, and `g = 2`
in exact arithmetic -/
theorem growth_factor_bounds (k : ℕ) :
    M.gro = (1 + M.u) * (1 + (1 + M.u) ^ 2) ∧ 2 ≤ M.gro ∧ M.gro ≤ 2 * (1 + M.u) ^ 3 ∧
      M.gro ^ k ≤ 2 ^ k * (1 + M.u) ^ (3 * k) ∧ FlModel.exact.gro = 2 := by
  refine ⟨rfl, M.two_le_gro, M.gro_le, ?_, FlModel.gro_exact⟩
  have := pow_le_pow_left₀ M.gro_pos.le M.gro_le k
  rwa [mul_pow, ← pow_mul] at this

/-- **one column step of `lu_decomp_in_place`: `μ_{k+1} ≤ g·μ_k`.**  If, before step `i`, the active
sub-matrix (rows and columns `≥ i` of the in-place array) is bounded by `β`, then whenever
`luStep s i` returns `s'`: the rows above `i` are unchanged; the new row `i` — row `i` of `Û`, final
from now on — is bounded by `β` from the diagonal on; the new active sub-matrix (rows and columns
`> i`) is bounded by `g·β`.  Covers the row exchange and the skipped column (all candidates exact
zeros), neither of which increases the maximum. -/
theorem luStep_growth {n i : Nat} {s s' : LU (Fl M)} {β : ℝ} (hw : WFn s.lu n) (hi : i < n)
    (hβ : ∀ r c, i ≤ r → r < n → i ≤ c → c < n → |(ent s.lu r c).val| ≤ β)
    (h : Mat.luStep s i = .ok s') :
    WFn s'.lu n ∧ (∀ r c, r < i → c < n → ent s'.lu r c = ent s.lu r c) ∧
      (∀ c, i ≤ c → c < n → |(ent s'.lu i c).val| ≤ β) ∧
      (∀ r c, i < r → r < n → i < c → c < n → |(ent s'.lu r c).val| ≤ M.gro * β) :=
  luStep_growth_core hw hi hβ h

/-- **one step of `gauss_with_pivot`: `μ_{k+1} ≤ g·μ_k`** (the same recurrence with the right-hand
side carried along; `gaussStep` is the body of the loop of `gaussWithPivot`,
`Mat.gaussWithPivot_eq`) -/
theorem gaussStep_growth {n k : Nat} {mx mx' : Mat (Fl M) × Array (Fl M)} {β : ℝ}
    (hw : WFn mx.1 n) (hx : mx.2.size = n) (hk : k < n)
    (hβ : ∀ r c, k ≤ r → r < n → k ≤ c → c < n → |(ent mx.1 r c).val| ≤ β)
    (h : Mat.gaussStep mx k = .ok mx') :
    WFn mx'.1 n ∧ mx'.2.size = n ∧ (∀ r c, r < k → c < n → ent mx'.1 r c = ent mx.1 r c) ∧
      (∀ c, k ≤ c → c < n → |(ent mx'.1 k c).val| ≤ β) ∧
      (∀ r c, k < r → r < n → k < c → c < n → |(ent mx'.1 r c).val| ≤ M.gro * β) :=
  gaussStep_growth_core hw hx hk hβ h

/-! ### the growth of `Û` -/

/-- **growth bound for the LU factorisation with partial pivoting.**  Whenever `luDecomp A` returns
the state `s` in `Fl M` (`A` a well-formed `n × n` matrix): every entry of the computed upper factor
satisfies `|û_rc| ≤ g^r · max|a_ij|` (row `r` is final after `r` steps), hence
`|û_rc| ≤ g^(n−1) · max|a_ij|`. -/
theorem lu_growth {n : Nat} {A : Mat (Fl M)} {a : Nat → Nat → Fl M} (hA : Mat.Is A n n a)
    {s : LU (Fl M)} (h : Mat.luDecomp A = .ok s) :
    ∀ r c, r < n → c < n →
      |Uhat n s r c| ≤ M.gro ^ r * maxEnt n (fun i j => (a i j).val) ∧
      |Uhat n s r c| ≤ M.gro ^ (n - 1) * maxEnt n (fun i j => (a i j).val) := by
  intro r c hr hc
  have hμ0 := maxEnt_nonneg n (fun i j => (a i j).val)
  have hinv := luDecomp_growth (μ := maxEnt n (fun i j => (a i j).val)) hA.wfn (by
    intro i j hi hj
    rw [hA.ent_eq hi hj]
    exact abs_le_maxEnt (fun i j => (a i j).val) hi hj) h
  have hmono : M.gro ^ r * maxEnt n (fun i j => (a i j).val)
      ≤ M.gro ^ (n - 1) * maxEnt n (fun i j => (a i j).val) :=
    mul_le_mul_of_nonneg_right (M.gro_pow_mono (by omega)) hμ0
  have h1 : |Uhat n s r c| ≤ M.gro ^ r * maxEnt n (fun i j => (a i j).val) := by
    rw [Uhat_apply n s hc]
    by_cases hcr : c < r
    · rw [if_pos hcr, abs_zero]
      exact mul_nonneg (pow_nonneg M.gro_pos.le _) hμ0
    · rw [if_neg hcr]
      have := (hinv.final hμ0 hr (by omega) hc).1
      have e : min r n = r := by omega
      rwa [e] at this
  exact ⟨h1, h1.trans hmono⟩

/-- `‖Û‖_∞ ≤ n·g^(n−1)·max|a_ij| ≤ n·g^(n−1)·‖A‖_∞` -/
theorem lu_growth_norm {n : Nat} {A : Mat (Fl M)} {a : Nat → Nat → Fl M} (hA : Mat.Is A n n a)
    {s : LU (Fl M)} (h : Mat.luDecomp A = .ok s) :
    rowNorm n (Uhat n s) ≤ n * (M.gro ^ (n - 1) * maxEnt n (fun i j => (a i j).val)) ∧
    rowNorm n (Uhat n s) ≤ n * (M.gro ^ (n - 1) * rowNorm n (fun i j => (a i j).val)) := by
  have hμ0 := maxEnt_nonneg n (fun i j => (a i j).val)
  have hg : 0 ≤ M.gro ^ (n - 1) := pow_nonneg M.gro_pos.le _
  have h1 : rowNorm n (Uhat n s) ≤ n * (M.gro ^ (n - 1) * maxEnt n (fun i j => (a i j).val)) :=
    rowNorm_le_of_entries _ (mul_nonneg hg hμ0) (fun r c hr hc => (lu_growth hA h r c hr hc).2)
  refine ⟨h1, h1.trans ?_⟩
  exact mul_le_mul_of_nonneg_left
    (mul_le_mul_of_nonneg_left (maxEnt_le_rowNorm n _) hg) (Nat.cast_nonneg n)

/-- **growth bound for `gauss_with_pivot`** (the elimination of `solve_basic`): whenever it returns
`(m', ŷ)` in `Fl M`, the upper triangle `Û` of `m'` satisfies `|û_rc| ≤ g^r max|a_ij| ≤ g^(n−1) max|a_ij|` -/
theorem gauss_growth {n : Nat} (hn : 1 ≤ n) {A : Mat (Fl M)} {a : Nat → Nat → Fl M}
    (hA : Mat.Is A n n a) {b : Array (Fl M)} (hb : b.size = n) {m' : Mat (Fl M)}
    {y : Array (Fl M)} (h : Mat.gaussWithPivot A b = .ok (m', y)) :
    ∀ r c, r < n → c < n →
      |GUhat n m' r c| ≤ M.gro ^ r * maxEnt n (fun i j => (a i j).val) ∧
      |GUhat n m' r c| ≤ M.gro ^ (n - 1) * maxEnt n (fun i j => (a i j).val) := by
  intro r c hr hc
  have hμ0 := maxEnt_nonneg n (fun i j => (a i j).val)
  have hinv := gaussWithPivot_growth (μ := maxEnt n (fun i j => (a i j).val)) hn hA.wfn hb (by
    intro i j hi hj
    rw [hA.ent_eq hi hj]
    exact abs_le_maxEnt (fun i j => (a i j).val) hi hj) h
  have hmono : M.gro ^ r * maxEnt n (fun i j => (a i j).val)
      ≤ M.gro ^ (n - 1) * maxEnt n (fun i j => (a i j).val) :=
    mul_le_mul_of_nonneg_right (M.gro_pow_mono (by omega)) hμ0
  have h1 : |GUhat n m' r c| ≤ M.gro ^ r * maxEnt n (fun i j => (a i j).val) := by
    rw [GUhat_apply n m' hc]
    by_cases hcr : c < r
    · rw [if_pos hcr, abs_zero]
      exact mul_nonneg (pow_nonneg M.gro_pos.le _) hμ0
    · rw [if_neg hcr]
      have := (hinv.final hμ0 hr (by omega) hc).1
      have e : min r (n - 1) = r := by omega
      rwa [e] at this
  exact ⟨h1, h1.trans hmono⟩

/-- `‖Û‖_∞ ≤ n·g^(n−1)·max|a_ij| ≤ n·g^(n−1)·‖A‖_∞` for `gauss_with_pivot` -/
theorem gauss_growth_norm {n : Nat} (hn : 1 ≤ n) {A : Mat (Fl M)} {a : Nat → Nat → Fl M}
    (hA : Mat.Is A n n a) {b : Array (Fl M)} (hb : b.size = n) {m' : Mat (Fl M)}
    {y : Array (Fl M)} (h : Mat.gaussWithPivot A b = .ok (m', y)) :
    rowNorm n (GUhat n m') ≤ n * (M.gro ^ (n - 1) * maxEnt n (fun i j => (a i j).val)) ∧
    rowNorm n (GUhat n m') ≤ n * (M.gro ^ (n - 1) * rowNorm n (fun i j => (a i j).val)) := by
  have hμ0 := maxEnt_nonneg n (fun i j => (a i j).val)
  have hg : 0 ≤ M.gro ^ (n - 1) := pow_nonneg M.gro_pos.le _
  have h1 : rowNorm n (GUhat n m') ≤ n * (M.gro ^ (n - 1) * maxEnt n (fun i j => (a i j).val)) :=
    rowNorm_le_of_entries _ (mul_nonneg hg hμ0)
      (fun r c hr hc => (gauss_growth hn hA hb h r c hr hc).2)
  refine ⟨h1, h1.trans ?_⟩
  exact mul_le_mul_of_nonneg_left
    (mul_le_mul_of_nonneg_left (maxEnt_le_rowNorm n _) hg) (Nat.cast_nonneg n)

/-! ### the normwise backward error relative to `A` -/

/-- **`solve_lu`, normwise backward error relative to the largest entry of `A`**:
`(A + ΔA) x̂ = b` EXACTLY with `‖ΔA‖_∞ ≤ (gq n + gq (3n)) · n²(1+u) g^(n−1) · max|a_ij|`. -/
theorem solveLU_backward_normwise_max (hu : M.u < 1) {n : Nat} (hn : 1 ≤ n) {A : Mat (Fl M)}
    {a : Nat → Nat → Fl M} (hA : Mat.Is A n n a) {b x : Array (Fl M)} (hb : b.size = n)
    (h : Mat.solveLU A b = .ok x) :
    ∃ ΔA : Nat → Nat → ℝ,
      (∀ i, i < n →
        ∑ j ∈ Finset.range n, ((a i j).val + ΔA i j) * (vf x j).val = (vf b i).val) ∧
      rowNorm n ΔA ≤ (M.gq n + M.gq (3 * n)) * ((n : ℝ) ^ 2 * (1 + M.u) * M.gro ^ (n - 1))
        * maxEnt n (fun i j => (a i j).val) := by
  obtain ⟨s, hd, ΔA, hsol, hbd⟩ := solveLU_backward_normwise_U hu hn hA hb h
  refine ⟨ΔA, hsol, hbd.trans ?_⟩
  have hc0 : 0 ≤ M.gq n + M.gq (3 * n) :=
    add_nonneg (FlModel.gq_nonneg hu _) (FlModel.gq_nonneg hu _)
  have hU := (lu_growth_norm hA hd).1
  have h1 : (n : ℝ) * (1 + M.u) * rowNorm n (Uhat n s)
      ≤ (n : ℝ) * (1 + M.u)
        * (n * (M.gro ^ (n - 1) * maxEnt n (fun i j => (a i j).val))) :=
    mul_le_mul_of_nonneg_left hU (mul_nonneg (Nat.cast_nonneg n) M.one_add_u_pos.le)
  calc (M.gq n + M.gq (3 * n)) * ((n : ℝ) * (1 + M.u) * rowNorm n (Uhat n s))
      ≤ (M.gq n + M.gq (3 * n)) * ((n : ℝ) * (1 + M.u)
        * (n * (M.gro ^ (n - 1) * maxEnt n (fun i j => (a i j).val)))) :=
        mul_le_mul_of_nonneg_left h1 hc0
    _ = _ := by ring

/-- **`solve_lu`, normwise backward error relative to `A`** (Higham, Thm 9.5 with Lemma 9.6, for the
model's `solve_lu`).  Whenever `solveLU A b` returns `x̂` in `Fl M` (`A` is `n × n`, `n ≥ 1`, `u < 1`):
`(A + ΔA) x̂ = b` EXACTLY with
`‖ΔA‖_∞ ≤ (gq n + gq (3n)) · n² (1+u) g^(n−1) · ‖A‖_∞`, `g = (1+u)(1+(1+u)²)` (`→ 2`).
The constant is EXPONENTIAL in `n`, and the factor `g^(n−1)` (the growth of `Û`) is attained
(`wilkinson_growth`): this is "of the order of machine epsilon" only for small `n` or for matrices
with moderate growth — see the remark in the header. -/
theorem solveLU_backward_normwise_A (hu : M.u < 1) {n : Nat} (hn : 1 ≤ n) {A : Mat (Fl M)}
    {a : Nat → Nat → Fl M} (hA : Mat.Is A n n a) {b x : Array (Fl M)} (hb : b.size = n)
    (h : Mat.solveLU A b = .ok x) :
    ∃ ΔA : Nat → Nat → ℝ,
      (∀ i, i < n →
        ∑ j ∈ Finset.range n, ((a i j).val + ΔA i j) * (vf x j).val = (vf b i).val) ∧
      rowNorm n ΔA ≤ (M.gq n + M.gq (3 * n)) * ((n : ℝ) ^ 2 * (1 + M.u) * M.gro ^ (n - 1))
        * rowNorm n (fun i j => (a i j).val) := by
  obtain ⟨ΔA, hsol, hbd⟩ := solveLU_backward_normwise_max hu hn hA hb h
  refine ⟨ΔA, hsol, hbd.trans (mul_le_mul_of_nonneg_left (maxEnt_le_rowNorm n _) ?_)⟩
  have hc0 : 0 ≤ M.gq n + M.gq (3 * n) :=
    add_nonneg (FlModel.gq_nonneg hu _) (FlModel.gq_nonneg hu _)
  have := M.one_add_u_pos
  have := pow_nonneg M.gro_pos.le (n - 1)
  positivity

/-- **`solve_lu`: the normwise RELATIVE backward error** `‖ΔA‖_∞/‖A‖_∞ ≤ (gq n + gq (3n))·n²(1+u)g^(n−1)`
(`A ≠ 0`); with `3 n u < 1` the first factor is `≤ γ_n + γ_{3n} ≈ 4 n u` (`solveLU_backward_gamma`) -/
theorem solveLU_backward_relative (hu : M.u < 1) {n : Nat} (hn : 1 ≤ n) {A : Mat (Fl M)}
    {a : Nat → Nat → Fl M} (hA : Mat.Is A n n a) {b x : Array (Fl M)} (hb : b.size = n)
    (hA0 : 0 < rowNorm n (fun i j => (a i j).val)) (h : Mat.solveLU A b = .ok x) :
    ∃ ΔA : Nat → Nat → ℝ,
      (∀ i, i < n →
        ∑ j ∈ Finset.range n, ((a i j).val + ΔA i j) * (vf x j).val = (vf b i).val) ∧
      rowNorm n ΔA / rowNorm n (fun i j => (a i j).val)
        ≤ (M.gq n + M.gq (3 * n)) * ((n : ℝ) ^ 2 * (1 + M.u) * M.gro ^ (n - 1)) := by
  obtain ⟨ΔA, hsol, hbd⟩ := solveLU_backward_normwise_A hu hn hA hb h
  exact ⟨ΔA, hsol, (div_le_iff₀ hA0).mpr hbd⟩

/-- **`solve_basic`, normwise backward error relative to the largest entry of `A`**:
`(A + ΔA) x̂ = b` EXACTLY with `‖ΔA‖_∞ ≤ (gq (n−1) + gq (2n−1)) · n²(1+u) g^(n−1) · max|a_ij|`. -/
theorem solveBasic_backward_normwise_max (hu : M.u < 1) {n : Nat} (hn : 1 ≤ n) {A : Mat (Fl M)}
    {a : Nat → Nat → Fl M} (hA : Mat.Is A n n a) {b x : Array (Fl M)} (hb : b.size = n)
    (h : Mat.solveBasic A b = .ok x) :
    ∃ ΔA : Nat → Nat → ℝ,
      (∀ i, i < n →
        ∑ j ∈ Finset.range n, ((a i j).val + ΔA i j) * (vf x j).val = (vf b i).val) ∧
      rowNorm n ΔA
        ≤ (M.gq (n - 1) + M.gq (2 * n - 1)) * ((n : ℝ) ^ 2 * (1 + M.u) * M.gro ^ (n - 1))
          * maxEnt n (fun i j => (a i j).val) := by
  obtain ⟨m', y, tr, hg, _, ΔA, hsol, hbd⟩ := solveBasic_backward_normwise_U hu hn hA hb h
  have hgw : Mat.gaussWithPivot A b = .ok (m', y) := by
    rw [← Mat.gaussT_fst, hg]; rfl
  refine ⟨ΔA, hsol, hbd.trans ?_⟩
  have hc0 : 0 ≤ M.gq (n - 1) + M.gq (2 * n - 1) :=
    add_nonneg (FlModel.gq_nonneg hu _) (FlModel.gq_nonneg hu _)
  have hU := (gauss_growth_norm hn hA hb hgw).1
  have h1 : (n : ℝ) * (1 + M.u) * rowNorm n (GUhat n m')
      ≤ (n : ℝ) * (1 + M.u)
        * (n * (M.gro ^ (n - 1) * maxEnt n (fun i j => (a i j).val))) :=
    mul_le_mul_of_nonneg_left hU (mul_nonneg (Nat.cast_nonneg n) M.one_add_u_pos.le)
  calc (M.gq (n - 1) + M.gq (2 * n - 1)) * ((n : ℝ) * (1 + M.u) * rowNorm n (GUhat n m'))
      ≤ (M.gq (n - 1) + M.gq (2 * n - 1)) * ((n : ℝ) * (1 + M.u)
        * (n * (M.gro ^ (n - 1) * maxEnt n (fun i j => (a i j).val)))) :=
        mul_le_mul_of_nonneg_left h1 hc0
    _ = _ := by ring

/-- **`solve_basic`, normwise backward error relative to `A`**: whenever `solveBasic A b` returns `x̂`
in `Fl M`: `(A + ΔA) x̂ = b` EXACTLY with
`‖ΔA‖_∞ ≤ (gq (n−1) + gq (2n−1)) · n² (1+u) g^(n−1) · ‖A‖_∞`. -/
theorem solveBasic_backward_normwise_A (hu : M.u < 1) {n : Nat} (hn : 1 ≤ n) {A : Mat (Fl M)}
    {a : Nat → Nat → Fl M} (hA : Mat.Is A n n a) {b x : Array (Fl M)} (hb : b.size = n)
    (h : Mat.solveBasic A b = .ok x) :
    ∃ ΔA : Nat → Nat → ℝ,
      (∀ i, i < n →
        ∑ j ∈ Finset.range n, ((a i j).val + ΔA i j) * (vf x j).val = (vf b i).val) ∧
      rowNorm n ΔA
        ≤ (M.gq (n - 1) + M.gq (2 * n - 1)) * ((n : ℝ) ^ 2 * (1 + M.u) * M.gro ^ (n - 1))
          * rowNorm n (fun i j => (a i j).val) := by
  obtain ⟨ΔA, hsol, hbd⟩ := solveBasic_backward_normwise_max hu hn hA hb h
  refine ⟨ΔA, hsol, hbd.trans (mul_le_mul_of_nonneg_left (maxEnt_le_rowNorm n _) ?_)⟩
  have hc0 : 0 ≤ M.gq (n - 1) + M.gq (2 * n - 1) :=
    add_nonneg (FlModel.gq_nonneg hu _) (FlModel.gq_nonneg hu _)
  have := M.one_add_u_pos
  have := pow_nonneg M.gro_pos.le (n - 1)
  positivity

/-- **`solve_basic`: the normwise RELATIVE backward error**
`‖ΔA‖_∞/‖A‖_∞ ≤ (gq (n−1) + gq (2n−1))·n²(1+u)g^(n−1)` (`A ≠ 0`); with `3 n u < 1` the first factor is
`≤ γ_{3n}` (`solveBasic_backward_gamma`) -/
theorem solveBasic_backward_relative (hu : M.u < 1) {n : Nat} (hn : 1 ≤ n) {A : Mat (Fl M)}
    {a : Nat → Nat → Fl M} (hA : Mat.Is A n n a) {b x : Array (Fl M)} (hb : b.size = n)
    (hA0 : 0 < rowNorm n (fun i j => (a i j).val)) (h : Mat.solveBasic A b = .ok x) :
    ∃ ΔA : Nat → Nat → ℝ,
      (∀ i, i < n →
        ∑ j ∈ Finset.range n, ((a i j).val + ΔA i j) * (vf x j).val = (vf b i).val) ∧
      rowNorm n ΔA / rowNorm n (fun i j => (a i j).val)
        ≤ (M.gq (n - 1) + M.gq (2 * n - 1)) * ((n : ℝ) ^ 2 * (1 + M.u) * M.gro ^ (n - 1)) := by
  obtain ⟨ΔA, hsol, hbd⟩ := solveBasic_backward_normwise_A hu hn hA hb h
  exact ⟨ΔA, hsol, (div_le_iff₀ hA0).mpr hbd⟩

/-! ### the bound is attained: Wilkinson's matrix -/

/-- **Wilkinson's matrix attains the growth bound** (exact arithmetic, `u = 0`, `g = 2`).  Let `A` be
the `n × n` matrix with `1` on the diagonal, `−1` below it, `0` above it and `1` in the last
column.  Then `luDecomp A` succeeds without any row exchange (every pivot candidate has magnitude
`1`; the search keeps the first one, the diagonal), `max|a_ij| = 1`, and the last diagonal entry of
the computed upper factor is `û_{n−1,n−1} = 2^(n−1) = g^(n−1)·max|a_ij|`: equality in `lu_growth`. -/
theorem wilkinson_growth {n : Nat} (hn : 1 ≤ n) {A : Mat (Fl FlModel.exact)}
    {a : Nat → Nat → Fl FlModel.exact} (hA : Mat.Is A n n a)
    (ha : ∀ r c, r < n → c < n → (a r c).val =
      if c = n - 1 then 1 else if c < r then -1 else if c = r then 1 else 0) :
    ∃ s, Mat.luDecomp A = .ok s ∧ s.pivots = 0 ∧
      maxEnt n (fun i j => (a i j).val) = 1 ∧
      Uhat n s (n - 1) (n - 1) = 2 ^ (n - 1) ∧
      |Uhat n s (n - 1) (n - 1)|
        = FlModel.exact.gro ^ (n - 1) * maxEnt n (fun i j => (a i j).val) := by
  have hA' : Mat.Is A n n (wilk n 0) := by
    refine hA.congr ?_
    intro r c hr hc
    apply Fl.ext
    rw [ha r c hr hc]
    simp [wilk, wilkR]
  obtain ⟨s, hs, hpv, hI⟩ := luDecomp_wilkinson hA'
  have hmax : maxEnt n (fun i j => (a i j).val) = 1 := by
    apply le_antisymm
    · refine maxEnt_le _ zero_le_one ?_
      intro r c hr hc
      show |(a r c).val| ≤ 1
      rw [ha r c hr hc]
      split_ifs <;> simp
    · have h0 : (a 0 0).val = 1 := by
        rw [ha 0 0 (by omega) (by omega)]
        split_ifs <;> first | rfl | omega
      have := abs_le_maxEnt (fun i j => (a i j).val) (show 0 < n by omega) (show 0 < n by omega)
      simp only [h0, abs_one] at this
      exact this
  have hU : Uhat n s (n - 1) (n - 1) = 2 ^ (n - 1) := by
    have hl : n - 1 < n := by omega
    rw [Uhat_apply n s hl, if_neg (by omega), hI.ent_eq hl hl]
    have m1 : min (n - 1) n = n - 1 := by omega
    simp [wilk, wilkR, m1]
  refine ⟨s, hs, hpv, hmax, hU, ?_⟩
  rw [hU, hmax, FlModel.gro_exact, mul_one]
  exact abs_of_nonneg (by positivity)

end Rounding

/-! ### non-vacuity -/

section Examples

/-- Wilkinson's matrix exists for every order `n`: the hypotheses of `wilkinson_growth` are satisfiable -/
example (n : Nat) : ∃ (A : Mat (Fl FlModel.exact)) (a : Nat → Nat → Fl FlModel.exact),
    Mat.Is A n n a ∧ ∀ r c, r < n → c < n → (a r c).val =
      if c = n - 1 then 1 else if c < r then -1 else if c = r then 1 else 0 :=
  ⟨matOfFn n (wilk n 0), wilk n 0, matOfFn_is n _, fun r c _ _ => by simp [wilk, wilkR]⟩

/-- the growth of order `11` is already `1024` -/
example {A : Mat (Fl FlModel.exact)} (hA : Mat.Is A 11 11 (wilk 11 0)) :
    ∃ s, Mat.luDecomp A = .ok s ∧ Uhat 11 s 10 10 = 1024 := by
  obtain ⟨s, hs, _, _, hU, _⟩ := wilkinson_growth (n := 11) (by omega) hA
    (fun r c _ _ => by simp [wilk, wilkR])
  exact ⟨s, hs, by rw [hU]; norm_num⟩

/-- the constants in the binary64 significand format: `u = 2⁻⁵³ < 1`, and the growth factor of one
step is `2 ≤ g ≤ 2(1+2⁻⁵³)³` -/
example : FlModel.binary64.u < 1 ∧ 2 ≤ FlModel.binary64.gro ∧
    FlModel.binary64.gro ≤ 2 * (1 + 2 ^ (-53 : ℤ)) ^ 3 := by
  have h := growth_factor_bounds (M := FlModel.binary64) 0
  refine ⟨by rw [FlModel.binary64_u]; norm_num, h.2.1, ?_⟩
  have := h.2.2.1
  rwa [FlModel.binary64_u] at this

namespace ExH

/-! The `3 × 3` Wilkinson matrix `W3 = [[1,0,1],[−1,1,1],[−1,−1,1]]` with `c3 = W3·[1,1,1] = [2,1,−1]`,
evaluated in EVERY model `M` in which the integers of magnitude `≤ 8` are representable
(`SmallRep M`; `FlModel.exact` and `FlModel.binary64` are such models): all intermediate quantities
are small integers, so no rounding error is committed. -/

/-- the integers of magnitude at most `8` are representable -/
def SmallRep (M : FlModel) : Prop := ∀ k : ℤ, |k| ≤ 8 → M.Rep (k : ℝ)

theorem smallRep_exact : SmallRep FlModel.exact := fun _ _ => rfl
theorem smallRep_binary64 : SmallRep FlModel.binary64 := fun k hk =>
  FlModel.roundBits_rep_int 52 k (lt_of_le_of_lt hk (by norm_num))

variable {M : FlModel}

theorem F.add_eq (a b : Fl M) : a + b = ⟨M.fl (a.val + b.val)⟩ := rfl
theorem F.sub_eq (a b : Fl M) : a - b = ⟨M.fl (a.val - b.val)⟩ := rfl
theorem F.mul_eq (a b : Fl M) : a * b = ⟨M.fl (a.val * b.val)⟩ := rfl
theorem F.lt_eq (a b : Fl M) : ScalarExt.lt a b = decide (a.val < b.val) := rfl
theorem F.mag_eq (a : Fl M) : ScalarExt.mag a = if a.val < 0 then -a else a := by
  simp only [ScalarExt.mag]
theorem F.divM_eq (a b : Fl M) :
    divM a b = if b.val = 0 then .error .arith else .ok ⟨M.fl (a.val / b.val)⟩ := rfl

theorem dot3 {K : Type} [Add K] [Sub K] [Mul K] [Neg K] [Zero K] [One K] [BEq K] [ScalarExt K]
    (a0 a1 a2 b0 b1 b2 : K) :
    Vec.dot #[a0, a1, a2] #[b0, b1, b2] = .ok (0 + a0 * b0 + a1 * b1 + a2 * b2) := by
  unfold Vec.dot
  rw [← Array.foldl_toList]
  simp

noncomputable def W3 : Mat (Fl M) := ⟨#[⟨1⟩, ⟨0⟩, ⟨1⟩, ⟨-1⟩, ⟨1⟩, ⟨1⟩, ⟨-1⟩, ⟨-1⟩, ⟨1⟩], 3, 3⟩
noncomputable def c3 : Array (Fl M) := #[⟨2⟩, ⟨1⟩, ⟨-1⟩]
/-- the in-place result of `luDecomp W3`: multipliers `−1` below the diagonal, `Û = [[1,0,1],[0,1,2],[0,0,4]]` -/
noncomputable def LU3 : Mat (Fl M) := ⟨#[⟨1⟩, ⟨0⟩, ⟨1⟩, ⟨-1⟩, ⟨1⟩, ⟨2⟩, ⟨-1⟩, ⟨-1⟩, ⟨4⟩], 3, 3⟩

theorem W3_is : Mat.Is (W3 : Mat (Fl M)) 3 3 (Mat.ent W3) := Mat.WFn.is ⟨rfl, rfl, rfl⟩

theorem luDecomp_W3 (hM : SmallRep M) :
    Mat.luDecomp (W3 : Mat (Fl M)) = .ok ⟨LU3, ⟨#[1, 0, 0, 0, 1, 0, 0, 0, 1], 3, 3⟩, 0⟩ := by
  have f0 : M.fl 0 = 0 := M.fl_zero
  have f1 : M.fl 1 = 1 := by simpa [FlModel.Rep] using hM 1 (by norm_num)
  have f2 : M.fl 2 = 2 := by simpa [FlModel.Rep] using hM 2 (by norm_num)
  have f3 : M.fl 3 = 3 := by simpa [FlModel.Rep] using hM 3 (by norm_num)
  have f4 : M.fl 4 = 4 := by simpa [FlModel.Rep] using hM 4 (by norm_num)
  have g1 : M.fl (-1) = -1 := by simpa [FlModel.Rep] using hM (-1) (by norm_num)
  have g2 : M.fl (-2) = -2 := by simpa [FlModel.Rep] using hM (-2) (by norm_num)
  norm_num [luDecomp, W3, LU3, eye, forM', Mat.new, Mat.set, aset, List.range', luStep, luPivot,
    Mat.get, aget, bind, Except.bind, pure, Except.pure, F.add_eq, F.sub_eq, F.mul_eq, F.lt_eq,
    F.mag_eq, F.divM_eq, swapRows, swapElem, luElimRow, Fl.ext_iff, f0, f1, f2, f3, f4, g1, g2]
  rfl

theorem mulVec_I_c3 (hM : SmallRep M) :
    Mat.mulVec (⟨#[1, 0, 0, 0, 1, 0, 0, 0, 1], 3, 3⟩ : Mat (Fl M)) c3 = .ok #[⟨2⟩, ⟨1⟩, ⟨-1⟩] := by
  have f0 : M.fl 0 = 0 := M.fl_zero
  have f1 : M.fl 1 = 1 := by simpa [FlModel.Rep] using hM 1 (by norm_num)
  have f2 : M.fl 2 = 2 := by simpa [FlModel.Rep] using hM 2 (by norm_num)
  have f3 : M.fl 3 = 3 := by simpa [FlModel.Rep] using hM 3 (by norm_num)
  have g1 : M.fl (-1) = -1 := by simpa [FlModel.Rep] using hM (-1) (by norm_num)
  norm_num [c3, mulVec, getRow, dot3, aget, List.range_succ, List.mapM_toArray, List.mapM_cons,
    bind, Except.bind, pure, Except.pure, F.add_eq, F.mul_eq, Fl.ext_iff, f0, f1, f2, f3, g1]

theorem solveLU_W3_c3 (hM : SmallRep M) :
    Mat.solveLU (W3 : Mat (Fl M)) c3 = .ok #[⟨1⟩, ⟨1⟩, ⟨1⟩] := by
  have f0 : M.fl 0 = 0 := M.fl_zero
  have f1 : M.fl 1 = 1 := by simpa [FlModel.Rep] using hM 1 (by norm_num)
  have f2 : M.fl 2 = 2 := by simpa [FlModel.Rep] using hM 2 (by norm_num)
  have f3 : M.fl 3 = 3 := by simpa [FlModel.Rep] using hM 3 (by norm_num)
  have f4 : M.fl 4 = 4 := by simpa [FlModel.Rep] using hM 4 (by norm_num)
  have g1 : M.fl (-1) = -1 := by simpa [FlModel.Rep] using hM (-1) (by norm_num)
  have g2 : M.fl (-2) = -2 := by simpa [FlModel.Rep] using hM (-2) (by norm_num)
  have g3 : M.fl (-3) = -3 := by simpa [FlModel.Rep] using hM (-3) (by norm_num)
  have h1 : ¬ (W3 : Mat (Fl M)).rows ≠ (c3 : Array (Fl M)).size := by simp [W3, c3]
  have h2 : ¬ (W3 : Mat (Fl M)).rows ≠ (W3 : Mat (Fl M)).cols := by simp [W3]
  simp only [solveLU, h1, h2, if_false, luDecomp_W3 hM, mulVec_I_c3 hM, bind, Except.bind]
  norm_num [LU3, forM', List.range', Mat.get, aget, aset, bind, Except.bind, pure, Except.pure,
    F.add_eq, F.sub_eq, F.mul_eq, F.divM_eq, Fl.ext_iff, forwardSub, backsolve, usub,
    f0, f1, f2, f3, f4, g1, g2, g3]

/-- `gauss_with_pivot` on the same system: the same `Û`, exact zeros as residues, `ŷ = [2,3,4]` -/
theorem gaussWithPivot_W3_c3 (hM : SmallRep M) :
    Mat.gaussWithPivot (W3 : Mat (Fl M)) c3
      = .ok (⟨#[⟨1⟩, ⟨0⟩, ⟨1⟩, ⟨0⟩, ⟨1⟩, ⟨2⟩, ⟨0⟩, ⟨0⟩, ⟨4⟩], 3, 3⟩, #[⟨2⟩, ⟨3⟩, ⟨4⟩]) := by
  have f0 : M.fl 0 = 0 := M.fl_zero
  have f1 : M.fl 1 = 1 := by simpa [FlModel.Rep] using hM 1 (by norm_num)
  have f2 : M.fl 2 = 2 := by simpa [FlModel.Rep] using hM 2 (by norm_num)
  have f3 : M.fl 3 = 3 := by simpa [FlModel.Rep] using hM 3 (by norm_num)
  have f4 : M.fl 4 = 4 := by simpa [FlModel.Rep] using hM 4 (by norm_num)
  have g1 : M.fl (-1) = -1 := by simpa [FlModel.Rep] using hM (-1) (by norm_num)
  have g2 : M.fl (-2) = -2 := by simpa [FlModel.Rep] using hM (-2) (by norm_num)
  have g3 : M.fl (-3) = -3 := by simpa [FlModel.Rep] using hM (-3) (by norm_num)
  norm_num [W3, c3, gaussWithPivot, partialPivot, maxAbsInColumn, swapRows, swapElem, Vec.swap,
    elimRow, forM', List.range', Mat.get, Mat.set, aget, aset, bind, Except.bind, pure,
    Except.pure, F.add_eq, F.sub_eq, F.mul_eq, F.divM_eq, F.lt_eq, F.mag_eq, Fl.ext_iff, usub,
    f0, f1, f2, f3, f4, g1, g2, g3]

theorem solveBasic_W3_c3 (hM : SmallRep M) :
    Mat.solveBasic (W3 : Mat (Fl M)) c3 = .ok #[⟨1⟩, ⟨1⟩, ⟨1⟩] := by
  have f0 : M.fl 0 = 0 := M.fl_zero
  have f1 : M.fl 1 = 1 := by simpa [FlModel.Rep] using hM 1 (by norm_num)
  have f2 : M.fl 2 = 2 := by simpa [FlModel.Rep] using hM 2 (by norm_num)
  have f3 : M.fl 3 = 3 := by simpa [FlModel.Rep] using hM 3 (by norm_num)
  have f4 : M.fl 4 = 4 := by simpa [FlModel.Rep] using hM 4 (by norm_num)
  have g1 : M.fl (-1) = -1 := by simpa [FlModel.Rep] using hM (-1) (by norm_num)
  have h1 : ¬ (W3 : Mat (Fl M)).rows ≠ (c3 : Array (Fl M)).size := by simp [W3, c3]
  have h2 : ¬ (W3 : Mat (Fl M)).rows ≠ (W3 : Mat (Fl M)).cols := by simp [W3]
  simp only [solveBasic, h1, h2, if_false, gaussWithPivot_W3_c3 hM, bind, Except.bind]
  norm_num [forM', List.range', Mat.get, aget, aset, bind, Except.bind, pure, Except.pure,
    F.add_eq, F.sub_eq, F.mul_eq, F.divM_eq, Fl.ext_iff, backsolve, usub,
    f0, f1, f2, f3, f4, g1]

/-- **the hypotheses of `lu_growth`, `solveLU_backward_normwise_A` and `solveBasic_backward_normwise_A`
are satisfiable on a concrete `3 × 3` system in every model with `SmallRep` and `u < 1`**, and the
conclusions hold there: `solve_lu` and `solve_basic` return `x̂`, `û₂₂ = 4`, and there are backward
errors `ΔA`, `ΔA'` with the proved normwise bounds -/
theorem W3_all (hM : SmallRep M) (hu : M.u < 1) :
    ∃ (A : Mat (Fl M)) (b x : Array (Fl M)) (s : LU (Fl M)),
      Mat.Is A 3 3 (Mat.ent A) ∧ b.size = 3 ∧
      Mat.luDecomp A = .ok s ∧ Mat.solveLU A b = .ok x ∧ Mat.solveBasic A b = .ok x ∧
      Uhat 3 s 2 2 = 4 ∧ maxEnt 3 (fun i j => (Mat.ent A i j).val) = 1 ∧
      |Uhat 3 s 2 2| ≤ M.gro ^ 2 * maxEnt 3 (fun i j => (Mat.ent A i j).val) ∧
      (∃ ΔA : Nat → Nat → ℝ,
        (∀ i, i < 3 →
          ∑ j ∈ Finset.range 3, ((Mat.ent A i j).val + ΔA i j) * (vf x j).val = (vf b i).val) ∧
        rowNorm 3 ΔA ≤ (M.gq 3 + M.gq (3 * 3)) * (((3 : ℕ) : ℝ) ^ 2 * (1 + M.u) * M.gro ^ (3 - 1))
          * rowNorm 3 (fun i j => (Mat.ent A i j).val)) ∧
      (∃ ΔA : Nat → Nat → ℝ,
        (∀ i, i < 3 →
          ∑ j ∈ Finset.range 3, ((Mat.ent A i j).val + ΔA i j) * (vf x j).val = (vf b i).val) ∧
        rowNorm 3 ΔA
          ≤ (M.gq (3 - 1) + M.gq (2 * 3 - 1)) * (((3 : ℕ) : ℝ) ^ 2 * (1 + M.u) * M.gro ^ (3 - 1))
            * rowNorm 3 (fun i j => (Mat.ent A i j).val)) := by
  have hU : Uhat 3 (⟨LU3, ⟨#[1, 0, 0, 0, 1, 0, 0, 0, 1], 3, 3⟩, 0⟩ : LU (Fl M)) 2 2 = 4 := by
    rw [Uhat_apply 3 _ (by omega : 2 < 3), if_neg (by omega)]
    simp [Mat.ent, LU3]
  have hmax : maxEnt 3 (fun i j => ((Mat.ent (W3 : Mat (Fl M))) i j).val) = 1 := by
    simp [maxEnt, maxRow, Mat.ent, W3]
  refine ⟨W3, c3, _, _, W3_is, rfl, luDecomp_W3 hM, solveLU_W3_c3 hM, solveBasic_W3_c3 hM, hU,
    hmax, ?_, solveLU_backward_normwise_A hu (by omega) W3_is rfl (solveLU_W3_c3 hM),
    solveBasic_backward_normwise_A hu (by omega) W3_is rfl (solveBasic_W3_c3 hM)⟩
  exact (lu_growth W3_is (luDecomp_W3 hM) 2 2 (by omega) (by omega)).1

/-- … in exact arithmetic, where moreover the growth bound is attained: `û₂₂ = 4 = g²·max|a_ij|` -/
example : ∃ (A : Mat (Fl FlModel.exact)) (b x : Array (Fl FlModel.exact)) (s : LU (Fl FlModel.exact)),
    Mat.Is A 3 3 (Mat.ent A) ∧ b.size = 3 ∧ FlModel.exact.u < 1 ∧
      Mat.luDecomp A = .ok s ∧ Mat.solveLU A b = .ok x ∧ Mat.solveBasic A b = .ok x ∧
      |Uhat 3 s 2 2| = FlModel.exact.gro ^ 2 * maxEnt 3 (fun i j => (Mat.ent A i j).val) := by
  have hu : FlModel.exact.u < 1 := by simp [FlModel.exact]
  obtain ⟨A, b, x, s, h1, h2, h3, h4, h5, h6, h7, _⟩ := W3_all smallRep_exact hu
  refine ⟨A, b, x, s, h1, h2, hu, h3, h4, h5, ?_⟩
  rw [h6, h7, FlModel.gro_exact]
  norm_num

/-- … and in the binary64 significand format (`u = 2⁻⁵³`) -/
example : ∃ (A : Mat (Fl FlModel.binary64)) (b x : Array (Fl FlModel.binary64))
    (s : LU (Fl FlModel.binary64)),
    Mat.Is A 3 3 (Mat.ent A) ∧ b.size = 3 ∧ FlModel.binary64.u < 1 ∧
      Mat.luDecomp A = .ok s ∧ Mat.solveLU A b = .ok x ∧ Mat.solveBasic A b = .ok x ∧
      Uhat 3 s 2 2 = 4 ∧
      |Uhat 3 s 2 2| ≤ FlModel.binary64.gro ^ 2 * maxEnt 3 (fun i j => (Mat.ent A i j).val) := by
  have hu : FlModel.binary64.u < 1 := by rw [FlModel.binary64_u]; norm_num
  obtain ⟨A, b, x, s, h1, h2, h3, h4, h5, h6, _, h8, _⟩ := W3_all smallRep_binary64 hu
  exact ⟨A, b, x, s, h1, h2, hu, h3, h4, h5, h6, h8⟩

end ExH

end Examples

end Ohsl.Props.C01
