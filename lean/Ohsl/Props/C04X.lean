/-
  Property C04 (continued) — the banded solver and determinant (`bandec` / `banbks`) for EVERY exact
  element type, complex scalars included.
  Model: Ohsl/Model/Banded.lean; lemmas: Ohsl/Lemmas/BandSpec.lean (generic in `Alg.DivLaw`: the
  soundness of `solve` does not depend on WHICH row the pivot search picks), Ohsl/Lemmas/BandDet.lean
  (generic in `Alg.PivotLaws`: the determinant needs the chosen pivot to have maximal size),
  Ohsl/Lemmas/CxField.lean (the complex instance).  See the header of Ohsl/Props/C01X.lean.

  * `solve_sound_gen`, `solve_complete_gen`, `det_correct_gen`, `det_sound_gen`,
    `det_ne_zero_solvable_gen`     any field with the laws (C04B / C04D are the ordered instance)
  * `solve_sound_cx`, `det_correct_cx`, `det_sound_cx`, `det_ne_zero_solvable_cx`
                                   banded matrices over the model's `Cx ℝ` with its own instances;
                                   equations and determinants over ℂ through `toC`.
-/
import Ohsl.Props.C04D
import Ohsl.Props.C01X
import Ohsl.Lemmas.CxField
set_option linter.unusedSectionVars false
set_option linter.unusedVariables false
set_option linter.unusedSimpArgs false
namespace Ohsl.Props.C04
open Ohsl Ohsl.Band

/-! ### generic in the division and pivot laws -/
section Gen
variable {F : Type} [Field F] [DecidableEq F] [BEq F] [LawfulBEq F] [ScalarExt F]

section Div
variable [Alg.DivLaw F]

/-- **soundness of the banded solver for every shape, any exact field** (`Alg.DivLaw` only: the
    pivot comparison may be arbitrary) -/
theorem solve_sound_gen {b : Band F} (h : WFb b) {rhs x : Array F} (hs : solve b rhs = .ok x) :
    x.size = b.n ∧ ∀ i, i < b.n →
      ∑ j ∈ Finset.range b.n, dense b i j * x[j]?.getD 0 = rhs[i]?.getD 0 :=
  Band.solve_sound h hs

/-- a non-zero computed determinant guarantees that `solve` succeeds and solves the system -/
theorem solve_complete_gen {b : Band F} (h : WFb b) {rhs : Array F} (hr : rhs.size = b.n) {δ : F}
    (hd : det b = .ok δ) (hδ : δ ≠ 0) :
    ∃ x, solve b rhs = .ok x ∧ x.size = b.n ∧ ∀ i, i < b.n →
      ∑ j ∈ Finset.range b.n, dense b i j * x[j]?.getD 0 = rhs[i]?.getD 0 := by
  obtain ⟨x, hx, _⟩ := Band.solve_complete h hr hd hδ
  exact ⟨x, hx, Band.solve_sound h hx⟩

end Div

variable [Alg.PivotLaws F]

/-- **the determinant of a banded matrix is the determinant of its dense twin**, any exact field
    with a lawful pivot comparison; singular matrices included -/
theorem det_correct_gen {b : Band F} (h : WFb b) (hm : b.m1 ≤ b.n) :
    Band.det b = .ok (Matrix.det (Matrix.of (fun (i j : Fin b.n) => dense b i j))) :=
  Band.det_eq_det h hm

/-- every value returned by `det` is the determinant of the dense twin -/
theorem det_sound_gen {b : Band F} (h : WFb b) {δ : F} (hd : Band.det b = .ok δ) :
    δ = Matrix.det (Matrix.of (fun (i j : Fin b.n) => dense b i j)) := by
  by_cases hm : b.m1 ≤ b.n
  · rw [det_correct_gen h hm] at hd
    injection hd with hd
    exact hd.symm
  · rw [Band.det_rejects h (by omega)] at hd
    cases hd

/-- if the dense twin is nonsingular, `solve` succeeds for every right-hand side of length `n`
    and returns a solution of the dense system -/
theorem det_ne_zero_solvable_gen {b : Band F} (h : WFb b) (hm : b.m1 ≤ b.n)
    (hdet : Matrix.det (Matrix.of (fun (i j : Fin b.n) => dense b i j)) ≠ 0) {rhs : Array F}
    (hr : rhs.size = b.n) :
    ∃ x, solve b rhs = .ok x ∧ x.size = b.n ∧ ∀ i, i < b.n →
      ∑ j ∈ Finset.range b.n, dense b i j * x[j]?.getD 0 = rhs[i]?.getD 0 :=
  solve_complete_gen h hr (det_correct_gen h hm) hdet

end Gen

/-! ### the instance of C04B / C04D -/
section Ordered
variable {F : Type} [Field F] [LinearOrder F] [IsStrictOrderedRing F]
attribute [local instance] Ohsl.Alg.scalarExt

example {b : Band F} (h : WFb b) (hm : b.m1 ≤ b.n) :
    Band.det b = .ok (Matrix.det (Matrix.of (fun (i j : Fin b.n) => dense b i j))) :=
  det_correct_gen h hm

end Ordered

/-! ### complex scalars -/
section Complex
open Ohsl.RealI Ohsl.CxField Ohsl.Props.C13 Ohsl.Props.C14 Ohsl.Props.C01

/-- **soundness of the banded solver over complex scalars**: every vector returned by `solve`
    on a well-formed banded matrix over `Cx ℝ` has length `n` and solves the dense system
    (equations read in ℂ; `SolC` is defined in C01X) -/
theorem solve_sound_cx {b : Band (Cx ℝ)} (h : WFb b) {rhs x : Array (Cx ℝ)}
    (hs : solve b rhs = .ok x) :
    x.size = b.n ∧ SolC b.n (dense b) rhs (fun j => x[j]?.getD 0) := by
  obtain ⟨hsz, hsol⟩ := @solve_sound_gen (Cx ℝ) CxField.field (Classical.decEq _) _ _ _ _
    b h rhs x hs
  exact ⟨hsz, (solC_iff b.n (dense b) rhs _).2 hsol⟩

/-- **the complex banded determinant is the determinant of the dense twin** (over ℂ), singular
    matrices included -/
theorem det_correct_cx {b : Band (Cx ℝ)} (h : WFb b) (hm : b.m1 ≤ b.n) :
    ∃ δ, Band.det b = .ok δ ∧ toC δ = detC b.n (dense b) :=
  ⟨_, @det_correct_gen (Cx ℝ) CxField.field (Classical.decEq _) _ _ _ _ b h hm,
    (CxField.det_toC b.n (dense b)).symm⟩

/-- every value returned by the complex banded `det` is the determinant of the dense twin -/
theorem det_sound_cx {b : Band (Cx ℝ)} (h : WFb b) {δ : Cx ℝ} (hd : Band.det b = .ok δ) :
    toC δ = detC b.n (dense b) := by
  have := @det_sound_gen (Cx ℝ) CxField.field (Classical.decEq _) _ _ _ _ b h δ hd
  rw [this]
  exact (CxField.det_toC b.n (dense b)).symm

/-- a nonsingular complex banded system is solved for every right-hand side of length `n` -/
theorem det_ne_zero_solvable_cx {b : Band (Cx ℝ)} (h : WFb b) (hm : b.m1 ≤ b.n)
    (hdet : detC b.n (dense b) ≠ 0) {rhs : Array (Cx ℝ)} (hr : rhs.size = b.n) :
    ∃ x, solve b rhs = .ok x ∧ x.size = b.n ∧ SolC b.n (dense b) rhs (fun j => x[j]?.getD 0) := by
  obtain ⟨x, hx, hsz, hsol⟩ :=
    @det_ne_zero_solvable_gen (Cx ℝ) CxField.field (Classical.decEq _) _ _ _ _ b h hm
      ((CxField.det_ne_zero_iff b.n (dense b)).2 hdet) rhs hr
  exact ⟨x, hx, hsz, (solC_iff b.n (dense b) rhs _).2 hsol⟩

end Complex

/-! ### example: the tridiagonal complex matrix [[0, 1], [i, 1]] (`m1 = m2 = 1`, compact rows
    `(pad, 0, 1)`, `(i, 1, pad)`): the diagonal candidate of column 0 is 0, the exchange is decided
    by the modulus of `i`; `det = -i` -/
section Examples
open Ohsl.RealI Ohsl.CxField Ohsl.Props.C13 Ohsl.Props.C14 Ohsl.Props.C01

/-- the banded storage of [[0, 1], [i, 1]] -/
def exB : Band (Cx ℝ) :=
  ⟨2, 1, 1, ⟨#[⟨0, 0⟩, ⟨0, 0⟩, ⟨1, 0⟩, ⟨0, 1⟩, ⟨1, 0⟩, ⟨0, 0⟩], 2, 3⟩⟩

theorem exB_wf : WFb exB := ⟨_, Mat.Is.of_wf (by simp [exB, Mat.WF])⟩

theorem exB_det : detC exB.n (dense exB) ≠ 0 := by
  show detC 2 (dense exB) ≠ 0
  unfold detC
  rw [Matrix.det_fin_two]
  simp [dense, exB, Mat.entryOf, toC, Complex.ext_iff]

example : ∃ δ, Band.det exB = .ok δ ∧ toC δ ≠ 0 := by
  obtain ⟨δ, hδ, e⟩ := det_correct_cx exB_wf (by decide)
  exact ⟨δ, hδ, by rw [e]; exact exB_det⟩

example : ∃ x, solve exB #[⟨1, 0⟩, ⟨1, 1⟩] = .ok x ∧ x.size = 2 :=
  let ⟨x, hx, hs, _⟩ := det_ne_zero_solvable_cx exB_wf (by decide) exB_det
    (rhs := #[⟨1, 0⟩, ⟨1, 1⟩]) rfl
  ⟨x, hx, hs⟩

end Examples
end Ohsl.Props.C04
