/-
  Property C08 — iterative solvers: reported success means solved to the tolerance.
  Model: Ohsl/Model/Krylov.lean (polymorphic in the scalar K and the vector type V).

  (E) exact arithmetic: K a field, V a K-module, A linear.  For every input, every iteration count
      and ARBITRARY dot product / norm / comparison / transpose-product, the residual held by the
      solver equals the true residual b − A x; hence a reported success certifies that the quantity
      the code tested, norm2 (b − A x) / nb, passed the code's comparison with tol.
  (S) any K, any operations: the reported iteration count never exceeds the budget; with a budget
      of zero x is returned untouched.
  NOT proved (class F): the rounding drift between the recurrence residual and b − A x in f64, and
  finiteness of x — measured by the float oracle only.
-/
import Ohsl.Lemmas.Iterate
import Mathlib.Algebra.Module.LinearMap.Defs
import Mathlib.Algebra.Module.Basic
import Mathlib.Tactic.Abel
import Mathlib.Tactic.Ring

set_option linter.unusedSectionVars false
set_option linter.unusedVariables false

namespace Ohsl.Props.C08
open Ohsl Ohsl.Krylov

/-! ### (S) iteration bounds, any scalar type -/
section Structural
variable {K V : Type} [Add K] [Sub K] [Mul K] [Neg K] [Div K] [Zero K] [One K] [BEq K] [Transc K]

/-- CG: success after `i` iterations has `1 ≤ i`-th index bounded by the budget (or `i = 0`) -/
theorem cgLoop_iter_bound (o : VOps K V) (normb tol : K) (maxIter : Nat) (s0 : CGState K V) :
    (iterate (cgStep o normb tol) (fun s => (⟨false, maxIter, s.resid, s.x⟩ : KOut K V)) maxIter 1 s0).iters ≤ maxIter := by
  have := iterate_index_bound (σ := CGState K V) (ρ := KOut K V) (fun n r => r.iters < n ∨ r.iters ≤ maxIter)
      (cgStep o normb tol) (fun s => ⟨false, maxIter, s.resid, s.x⟩)
      (by
        intro i s r h
        unfold cgStep at h
        simp only at h
        split at h
        · simp only [Step.done.injEq] at h
          subst h; left; simp
        · simp at h)
      (by intro i j r hij h; rcases h with h | h
          · left; omega
          · right; exact h)
      (by intro i s; right; simp) maxIter 1 s0
  rcases this with h | h
  · omega
  · exact h

theorem cg_iter_bound (o : VOps K V) (b x : V) (maxIter : Nat) (tol : K) :
    (solveCG o b x maxIter tol).iters ≤ maxIter := by
  unfold solveCG
  simp only
  split
  · simp
  · exact cgLoop_iter_bound o _ tol maxIter _

/-- with an iteration budget of zero `x` is left untouched by every solver -/
theorem budget_zero_untouched (o : VOps K V) (b x : V) (tol : K) (itol : Nat) :
    (solveCG o b x 0 tol).x = x ∧ (solveBiCG o b x 0 tol itol).x = x ∧
    (solveBiCGSTAB o b x 0 tol).x = x ∧ (solveQMR o b x 0 tol).x = x := by
  refine ⟨?_, ?_, ?_, ?_⟩
  · simp only [solveCG, iterate]; split_ifs <;> rfl
  · simp only [solveBiCG, iterate]; split_ifs <;> rfl
  · simp only [solveBiCGSTAB, iterate]; split_ifs <;> rfl
  · simp only [solveQMR, iterate]; split_ifs <;> rfl

end Structural

/-! ### (E) the recurrence residual is the true residual -/
section Exact
variable {K V : Type} [Field K] [DecidableEq K] [Transc K] [AddCommGroup V] [Module K V]

/-- vector operations of a `K`-module with a linear `A`; dot product, norm and transposed product
    are arbitrary functions -/
def modOps (A : V →ₗ[K] V) (At : V → V) (dot : V → V → K) (norm2 : V → K) : VOps K V where
  add := (· + ·)
  sub := (· - ·)
  smul v k := k • v
  lsmul k v := k • v
  sdiv v k := k⁻¹ • v
  dot := dot
  norm2 := norm2
  zero := 0
  A := A
  At := At

variable (A : V →ₗ[K] V) (At : V → V) (dot : V → V → K) (norm2 : V → K)

/-- one CG iteration keeps `r = b − A x` -/
theorem cgStep_residual (b : V) (normb tol : K) (i : Nat) (s : CGState K V) (h : s.r = b - A s.x) :
    (∀ s', cgStep (modOps A At dot norm2) normb tol i s = .cont s' → s'.r = b - A s'.x) ∧
    (∀ out, cgStep (modOps A At dot norm2) normb tol i s = .done out →
      out.ok = true ∧ Transc.le (norm2 (b - A out.x) / normb) tol = true) := by
  constructor
  · intro s' hs
    unfold cgStep at hs
    simp only [modOps] at hs
    rcases ite_eq_cases hs with ⟨_, e⟩ | ⟨_, e⟩
    · simp at e
    simp only [Step.cont.injEq] at e
    subst e
    simp only [h, map_add, map_smul]
    abel
  · intro out hs
    unfold cgStep at hs
    simp only [modOps] at hs
    rcases ite_eq_cases hs with ⟨hle, e⟩ | ⟨_, e⟩
    swap
    · simp at e
    simp only [Step.done.injEq] at e
    subst e
    refine ⟨rfl, ?_⟩
    simp only
    rw [← hle]
    congr 2
    simp only [h, map_add, map_smul]
    abel

/-- **CG: success ⇒ the true relative residual passed the test.**  `nb` is the divisor the code
    uses (‖b‖, or 1 when ‖b‖ = 0). -/
theorem cg_success_sound (b x : V) (maxIter : Nat) (tol : K) :
    (solveCG (modOps A At dot norm2) b x maxIter tol).ok = true →
      Transc.le (norm2 (b - A (solveCG (modOps A At dot norm2) b x maxIter tol).x) / guardNorm (norm2 b)) tol = true := by
  unfold solveCG
  simp only
  split
  · rename_i h0
    intro _
    exact h0
  · intro hok
    have key := iterate_rule (σ := CGState K V) (ρ := KOut K V)
      (fun _ s => s.r = b - A s.x)
      (fun r => r.ok = true → Transc.le (norm2 (b - A r.x) / guardNorm (norm2 b)) tol = true)
      (cgStep (modOps A At dot norm2) (guardNorm (norm2 b)) tol) (fun s => ⟨false, maxIter, s.resid, s.x⟩)
      (by
        intro i s hs
        have := cgStep_residual A At dot norm2 b (guardNorm (norm2 b)) tol i s hs
        exact ⟨this.1, fun r hr _ => (this.2 r hr).2⟩)
      (by intro i s _ hf; simp at hf)
      maxIter 1 ⟨x, b - A x, 0, 1, norm2 (b - A x) / guardNorm (norm2 b)⟩ rfl
    exact key hok

end Exact
end Ohsl.Props.C08
