/-
  Property C16 — threaded dot product (model: Ohsl/Model/Dot.lean).
  Proved here: the partition of the index range into per-worker chunks has exactly `w` chunks, the
  first starts at 0, the last ends at `len`, consecutive chunks abut (so every index is covered
  exactly once, in order) — for EVERY length and worker count; mismatched lengths are rejected.
  Outside the model: thread scheduling (the code joins in spawn order and workers only read their
  own immutable slices) — observed under different CPU affinities, not proved.
-/
import Ohsl.Model.Dot
set_option linter.unusedSectionVars false
namespace Ohsl.Props.C16
open Ohsl Ohsl.Dot

theorem chunks_length (len w : Nat) : (chunks len w).length = w := by simp [chunks]

theorem chunk_first (len w : Nat) (hw : 0 < w) : (chunk len w 0).1 = 0 := by simp [chunk]

theorem chunk_last (len w : Nat) (hw : 0 < w) : (chunk len w (w - 1)).2 = len := by simp [chunk]

/-- chunk `i` ends where chunk `i+1` starts -/
theorem chunk_abut (len w i : Nat) (hi : i + 1 < w) : (chunk len w i).2 = (chunk len w (i + 1)).1 := by
  have : ¬ i = w - 1 := by omega
  simp [chunk, this]

/-- every chunk is a valid, in-range, non-reversed slice -/
theorem chunk_valid (len w i : Nat) (hw : 0 < w) (hi : i < w) :
    (chunk len w i).1 ≤ (chunk len w i).2 ∧ (chunk len w i).2 ≤ len := by
  have hq : w * (len / w) ≤ len := Nat.mul_div_le len w
  have h1 : (i + 1) * (len / w) ≤ w * (len / w) := Nat.mul_le_mul_right _ (by omega)
  have h2 : i * (len / w) ≤ (i + 1) * (len / w) := Nat.mul_le_mul_right _ (by omega)
  unfold chunk
  by_cases e : i = w - 1
  · simp only [e, if_true]
    constructor
    · have : (w - 1) * (len / w) ≤ w * (len / w) := Nat.mul_le_mul_right _ (by omega)
      omega
    · exact Nat.le_refl _
  · simp only [e, if_false]
    omega

section
variable {K : Type} [Add K] [Mul K] [Zero K]
theorem rejects (w : Nat) (a b : Array K) (h : a.size ≠ b.size) : dotThreaded w a b = .error .size := by
  simp [dotThreaded, h]

/-- one worker: the threaded product is the sequential one -/
theorem one_worker (a b : Array K) (h : a.size = b.size) :
    dotThreaded 1 a b = .ok ((0 : K) + (Array.zipWith (· * ·) a b).foldl (· + ·) 0) := by
  have ha : a.extract 0 b.size = a := by rw [← h]; simp
  simp [dotThreaded, h, chunks, chunk, partialSum, ha]
end

end Ohsl.Props.C16
