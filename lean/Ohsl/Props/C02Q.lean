/-
  Property C02 (continued) — what `lu_decomp_in_place` RECORDS (`perm` is a permutation matrix,
  `pivots` is the number of row exchanges), for EVERY exact element type, complex scalars included.
  Model: Ohsl/Model/Solve.lean (`luPivot`, `luStep`, `luDecomp`); lemmas: Ohsl/Lemmas/C02Q.lean
  (the lemmas of Ohsl/Lemmas/C02P.lean under the generic binders), Ohsl/Lemmas/LUDet.lean,
  Ohsl/Lemmas/CxField.lean.  See the headers of Ohsl/Props/C02P.lean (the statements for a linearly
  ordered field) and Ohsl/Props/C02X.lean / C01X.lean (the `_gen` / `_cx` set-up).

  Generic theorems (`…_gen`): `K` any field with ANY `ScalarExt K` / lawful `BEq K` satisfying
  `Alg.PivotLaws K` (`divM` = guarded field division; `lt (mag a) (mag b)` compares a size in a
  linear order, least exactly at 0).  `σ = Mat.luPerm A n : Equiv.Perm (Fin n)` is the product, in
  loop order, of the transpositions `(k  p_k)`, `p_k = Mat.pivotChoice A k` the row returned by the
  model's own pivot search at step `k` (definitions of Ohsl/Lemmas/C02P.lean, structural).

  * `luDecomp_perm_gen`           `perm` is the permutation matrix of `σ`
                                  (`= Equiv.Perm.permMatrix K σ`), `P·A = A.submatrix σ id`
  * `luDecomp_perm_entries_gen`   entry by entry: every entry is `0` or `1`, and `1` iff `j = σ i`
  * `luDecomp_pivots_count_gen`   `pivots = Mat.exchangeCount A n ≤ n`
  * `pivotChoice_range_gen`       the chosen row at step `k < n` lies in `[k, n)`
  * `luDecomp_pivots_parity_gen`  `sign σ = (-1)^pivots`
  * `luDecomp_factors_gen`        `A[σ ·, ·] = L·U`, `det U = sign σ · det A`, with the above

  The theorems of C02P are the instance `Alg.pivotLaws` (ordered field, size `|·|`) — see the
  `example`s in section `Ordered`.

  Complex theorems (`…_cx`): matrices over the model's `Cx ℝ` with the model's own instances
  (`mag z = |z| + 0i`, lexicographic `<`, `Cx.div`, `Cx.beq`); `σ`, `exchangeCount` are computed by
  the model's functions on `Cx ℝ`; matrices, products, determinants are Mathlib's over ℂ through
  `toC` (`toCMat`, `detC`, `LC`, `UC` of C02X / CxField):
  `luDecomp_perm_cx`, `luDecomp_perm_entries_cx`, `luDecomp_pivots_count_cx`,
  `pivotChoice_range_cx`, `luDecomp_pivots_parity_cx`, `luDecomp_factors_cx`.

  Example over `Cx ℝ`: `exB = [[1, 1], [2i, 1]]` — the exchange at step 0 is decided by the modulus
  (`|2i| = 2 > 1 = |1|`; in the lexicographic order `2i < 1`): `pivotChoice exB 0 = some 1`,
  `pivots = 1`, `σ = (0 1)`.
  Nothing is `_partial`.
-/
import Ohsl.Props.C02P
import Ohsl.Props.C02X
import Ohsl.Lemmas.C02Q
import Mathlib.LinearAlgebra.Matrix.Permutation
set_option linter.unusedSectionVars false
set_option linter.unusedVariables false
set_option linter.unusedSimpArgs false
namespace Ohsl.Props.C02
open Ohsl Ohsl.Mat

/-! ### generic in the pivot laws -/
section Gen
variable {K : Type} [Field K] [BEq K] [LawfulBEq K] [ScalarExt K] [DecidableEq K]
  [Alg.PivotLaws K]

/-- **the recorded `perm` is a permutation matrix, any exact element type.**  For every
    well-formed square matrix the factorisation returns `s` with `s.perm` the well-formed `n × n`
    matrix whose entry `(i, j)` is `1` if `j = σ i` and `0` otherwise, where
    `σ = Mat.luPerm A n : Equiv.Perm (Fin n)` is the product of the transpositions chosen by the
    model's pivot search.  In Mathlib's terms the matrix is `Equiv.Perm.permMatrix K σ`, and
    multiplying by it from the left moves row `σ i` of `A` to row `i`. -/
theorem luDecomp_perm_gen {A : Mat K} {n : Nat} {a : Nat → Nat → K} (h : Mat.Is A n n a) :
    ∃ s, luDecomp A = .ok s ∧
      Mat.Is s.perm n n (Mat.permEntries (Mat.luPerm A n)) ∧
      Mat.toMat n (Mat.permEntries (K := K) (Mat.luPerm A n))
        = Equiv.Perm.permMatrix K (Mat.luPerm A n) ∧
      Mat.toMat n (Mat.permEntries (K := K) (Mat.luPerm A n)) * Mat.toMat n a
        = (Mat.toMat n a).submatrix (Mat.luPerm A n) id := by
  obtain ⟨s, w, hs, hw, hpe, _, _⟩ := Mat.luPrefix_spec_gen h n (le_refl _)
  have hsq : A.rows = A.cols := by rw [h.rows, h.cols]
  have hrun : luDecomp A = .ok s := by rw [← Mat.luPrefix_full A hsq, h.rows]; exact hs
  refine ⟨s, hrun, hpe, Mat.toMat_permEntries_gen _, ?_⟩
  rw [Mat.toMat_permEntries_gen, PEquiv.toMatrix_toPEquiv_mul]

/-- the same, read entry by entry off the returned matrix: there is a permutation `σ` of
    `Fin n` such that every in-range entry of `perm` is `0` or `1` and entry `(i, j)` is `1`
    exactly when `j = σ i`. -/
theorem luDecomp_perm_entries_gen {A : Mat K} {n : Nat} {a : Nat → Nat → K}
    (h : Mat.Is A n n a) :
    ∃ (s : LU K) (σ : Equiv.Perm (Fin n)), luDecomp A = .ok s ∧ s.perm.WF ∧ s.perm.rows = n ∧
      s.perm.cols = n ∧
      ∀ (i j : Nat) (hi : i < n) (hj : j < n),
        (s.perm.get i j = .ok 0 ∨ s.perm.get i j = .ok 1) ∧
        (s.perm.get i j = .ok 1 ↔ (⟨j, hj⟩ : Fin n) = σ ⟨i, hi⟩) := by
  obtain ⟨s, hs, hpe, _, _⟩ := luDecomp_perm_gen h
  refine ⟨s, Mat.luPerm A n, hs, hpe.wf, hpe.rows, hpe.cols, ?_⟩
  intro i j hi hj
  rw [hpe.get hi hj, Mat.permEntries_apply _ hi]
  by_cases e : ((Mat.luPerm A n) ⟨i, hi⟩).val = j
  · have e' : (⟨j, hj⟩ : Fin n) = (Mat.luPerm A n) ⟨i, hi⟩ := Fin.ext e.symm
    simp [e, e']
  · have e' : ¬ (⟨j, hj⟩ : Fin n) = (Mat.luPerm A n) ⟨i, hi⟩ := fun h' =>
      e (by rw [← h'])
    simp [e, e']

/-- **`pivots` is the number of row exchanges**: the returned counter equals the number of
    loop steps `k < n` at which the pivot row chosen by the model's own search (on the model's own
    intermediate state) differs from `k` — see `exchangeAt_iff` (C02P, structural). -/
theorem luDecomp_pivots_count_gen {A : Mat K} {n : Nat} {a : Nat → Nat → K}
    (h : Mat.Is A n n a) :
    ∃ s, luDecomp A = .ok s ∧ s.pivots = Mat.exchangeCount A n ∧ s.pivots ≤ n := by
  obtain ⟨s, w, hs, hw, hpe, hcnt, _⟩ := Mat.luPrefix_spec_gen h n (le_refl _)
  have hsq : A.rows = A.cols := by rw [h.rows, h.cols]
  refine ⟨s, by rw [← Mat.luPrefix_full A hsq, h.rows]; exact hs, hcnt, ?_⟩
  rw [hcnt]; exact Mat.exchangeCount_le A n

/-- the chosen pivot row at a step `k < n` is a row on or below the diagonal -/
theorem pivotChoice_range_gen {A : Mat K} {n : Nat} {a : Nat → Nat → K} (h : Mat.Is A n n a)
    {k p : Nat} (hk : k < n) (hp : Mat.pivotChoice A k = some p) : k ≤ p ∧ p < n :=
  Mat.pivotChoice_range_gen h hk hp

/-- **parity**: the sign of the recorded permutation is `(-1)^pivots`; hence the sign that
    `determinant` applies (`pivots % 2`) is the sign of the row permutation. -/
theorem luDecomp_pivots_parity_gen {A : Mat K} {n : Nat} {a : Nat → Nat → K}
    (h : Mat.Is A n n a) :
    ∃ s, luDecomp A = .ok s ∧ Equiv.Perm.sign (Mat.luPerm A n) = (-1) ^ s.pivots ∧
      (s.pivots % 2 = 0 ↔ Equiv.Perm.sign (Mat.luPerm A n) = 1) := by
  obtain ⟨s, w, hs, hw, hpe, hcnt, hsign⟩ := Mat.luPrefix_spec_gen h n (le_refl _)
  have hsq : A.rows = A.cols := by rw [h.rows, h.cols]
  refine ⟨s, by rw [← Mat.luPrefix_full A hsq, h.rows]; exact hs, hsign, ?_⟩
  unfold Mat.luPerm
  rw [hsign]
  constructor
  · intro he
    exact Even.neg_one_pow (Nat.even_iff.mpr he)
  · intro h1
    by_contra hodd
    rw [Odd.neg_one_pow (Nat.odd_iff.mpr (by omega))] at h1
    exact absurd h1 (by decide)

/-- **the factorisation with its permutation, any exact element type**: for every well-formed
    square matrix, `luDecomp` returns the in-place factors `w` (unit lower `Lfn w`, upper
    `Umat n n w`), the permutation matrix of `σ = luPerm A n`, and the exchange count, with
    `A[σ ·, ·] = L·U`, `pivots = exchangeCount A n`, `sign σ = (-1)^pivots` and
    `det U = sign σ · det A`. -/
theorem luDecomp_factors_gen {A : Mat K} {n : Nat} {a : Nat → Nat → K} (h : Mat.Is A n n a) :
    ∃ (s : LU K) (w : Nat → Nat → K), luDecomp A = .ok s ∧ Mat.Is s.lu n n w ∧
      Mat.Is s.perm n n (Mat.permEntries (Mat.luPerm A n)) ∧
      (Mat.toMat n a).submatrix (Mat.luPerm A n) id = Mat.toMat n (Mat.Lfn w) * Mat.Umat n n w ∧
      s.pivots = Mat.exchangeCount A n ∧
      Equiv.Perm.sign (Mat.luPerm A n) = (-1) ^ s.pivots ∧
      Matrix.det (Mat.Umat n n w)
        = ((Equiv.Perm.sign (Mat.luPerm A n) : ℤ) : K) * Matrix.det (Mat.toMat n a) := by
  obtain ⟨s, w, pe, hs, hw, hpe, hPA, hdP, hdU⟩ := luDecomp_correct_gen h
  obtain ⟨s1, hs1, hpe1, _, hmul⟩ := luDecomp_perm_gen h
  obtain ⟨s2, hs2, hcnt, _⟩ := luDecomp_pivots_count_gen h
  obtain ⟨s3, hs3, hsign, _⟩ := luDecomp_pivots_parity_gen h
  rw [hs] at hs1 hs2 hs3
  cases hs1; cases hs2; cases hs3
  -- the two descriptions of `s.perm` agree on the index range
  have hpeq : Mat.toMat n pe = Mat.toMat n (Mat.permEntries (K := K) (Mat.luPerm A n)) := by
    ext r c
    have g1 := hpe.get r.isLt c.isLt
    have g2 := hpe1.get r.isLt c.isLt
    rw [g1] at g2
    exact Except.ok.inj g2
  refine ⟨s, w, hs, hw, hpe1, ?_, hcnt, hsign, ?_⟩
  · rw [← hmul, ← hpeq]; exact hPA
  · rw [hdU, hsign]
    simp

end Gen

/-! ### the instance of C02P: a linearly ordered field with `Alg.scalarExt` -/
section Ordered
variable {K : Type} [Field K] [LinearOrder K] [IsStrictOrderedRing K]
attribute [local instance] Alg.scalarExt

/-- `luDecomp_perm` of C02P is the instance `Alg.pivotLaws` (size `|·|`) of `luDecomp_perm_gen` -/
example {A : Mat K} {n : Nat} {a : Nat → Nat → K} (h : Mat.Is A n n a) :
    ∃ s, luDecomp A = .ok s ∧
      Mat.Is s.perm n n (Mat.permEntries (Mat.luPerm A n)) ∧
      Mat.toMat n (Mat.permEntries (K := K) (Mat.luPerm A n))
        = Equiv.Perm.permMatrix K (Mat.luPerm A n) ∧
      Mat.toMat n (Mat.permEntries (K := K) (Mat.luPerm A n)) * Mat.toMat n a
        = (Mat.toMat n a).submatrix (Mat.luPerm A n) id :=
  luDecomp_perm_gen h

/-- `luDecomp_factors` of C02P is the instance `Alg.pivotLaws` of `luDecomp_factors_gen` -/
example {A : Mat K} {n : Nat} {a : Nat → Nat → K} (h : Mat.Is A n n a) :
    ∃ (s : LU K) (w : Nat → Nat → K), luDecomp A = .ok s ∧ Mat.Is s.lu n n w ∧
      Mat.Is s.perm n n (Mat.permEntries (Mat.luPerm A n)) ∧
      (Mat.toMat n a).submatrix (Mat.luPerm A n) id = Mat.toMat n (Mat.Lfn w) * Mat.Umat n n w ∧
      s.pivots = Mat.exchangeCount A n ∧
      Equiv.Perm.sign (Mat.luPerm A n) = (-1) ^ s.pivots ∧
      Matrix.det (Mat.Umat n n w)
        = ((Equiv.Perm.sign (Mat.luPerm A n) : ℤ) : K) * Matrix.det (Mat.toMat n a) :=
  luDecomp_factors_gen h

/-- the statements coincide literally: the `_gen` theorem at the ordered-field instances has the
    type of the C02P theorem -/
example {A : Mat K} {n : Nat} {a : Nat → Nat → K} :
    Mat.Is A n n a →
      ∃ s, luDecomp A = .ok s ∧ s.pivots = Mat.exchangeCount A n ∧ s.pivots ≤ n :=
  (fun h => (luDecomp_pivots_count_gen h : _) : _)

example {A : Mat K} {n : Nat} {a : Nat → Nat → K} (h : Mat.Is A n n a) :
    (luDecomp_pivots_count_gen h : ∃ s, luDecomp A = .ok s ∧ s.pivots = Mat.exchangeCount A n ∧
      s.pivots ≤ n) = luDecomp_pivots_count h := rfl

end Ordered

/-! ### complex scalars: the model's `Cx ℝ` with its own instances -/
section Complex
open Ohsl.RealI Ohsl.CxField Ohsl.Props.C13 Ohsl.Props.C14 Ohsl.Props.C01

variable {n : Nat} {A : Mat (Cx ℝ)} {a : Nat → Nat → Cx ℝ}

/-- the `toC`-image of the 0/1 entries of `σ` is the permutation matrix of `σ` over ℂ -/
theorem toCMat_permEntries (σ : Equiv.Perm (Fin n)) :
    toCMat n (Mat.permEntries (K := Cx ℝ) σ) = Equiv.Perm.permMatrix ℂ σ := by
  ext r c
  simp only [toCMat, Matrix.of_apply, Mat.permEntries_apply σ r.isLt, Equiv.Perm.permMatrix,
    PEquiv.toMatrix_apply, Equiv.toPEquiv_apply, Option.mem_def, Option.some.injEq]
  by_cases h : σ r = c
  · have : (σ ⟨r.val, r.isLt⟩).val = c.val := by rw [← h]
    rw [if_pos this, if_pos h]; exact toC_one
  · have : ¬ (σ ⟨r.val, r.isLt⟩).val = c.val := fun e => h (Fin.ext e)
    rw [if_neg this, if_neg h]; exact toC_zero

/-- **the `perm` recorded by the complex factorisation is a permutation matrix.**  For every
    well-formed square matrix over `Cx ℝ` the factorisation (pivoting on the modulus) returns `s`
    with `s.perm` the well-formed `n × n` matrix with entries `permEntries σ` (`1` at `(i, σ i)`,
    `0` elsewhere), `σ = Mat.luPerm A n` the product of the transpositions chosen by the model's
    own pivot search on `Cx ℝ`; over ℂ it is `Equiv.Perm.permMatrix ℂ σ`, and `P·A` is `A` with
    row `i` replaced by row `σ i`. -/
theorem luDecomp_perm_cx (h : Mat.Is A n n a) :
    ∃ s, luDecomp A = .ok s ∧
      Mat.Is s.perm n n (Mat.permEntries (Mat.luPerm A n)) ∧
      toCMat n (Mat.permEntries (K := Cx ℝ) (Mat.luPerm A n))
        = Equiv.Perm.permMatrix ℂ (Mat.luPerm A n) ∧
      toCMat n (Mat.permEntries (K := Cx ℝ) (Mat.luPerm A n)) * toCMat n a
        = (toCMat n a).submatrix (Mat.luPerm A n) id := by
  obtain ⟨s, hs, hpe, _, _⟩ :=
    @luDecomp_perm_gen (Cx ℝ) CxField.field _ _ _ (Classical.decEq _) _ A n a h
  refine ⟨s, hs, hpe, toCMat_permEntries _, ?_⟩
  rw [toCMat_permEntries, Equiv.Perm.permMatrix, PEquiv.toMatrix_toPEquiv_mul]

/-- the same, read entry by entry off the returned complex matrix -/
theorem luDecomp_perm_entries_cx (h : Mat.Is A n n a) :
    ∃ (s : LU (Cx ℝ)) (σ : Equiv.Perm (Fin n)), luDecomp A = .ok s ∧ s.perm.WF ∧
      s.perm.rows = n ∧ s.perm.cols = n ∧
      ∀ (i j : Nat) (hi : i < n) (hj : j < n),
        (s.perm.get i j = .ok 0 ∨ s.perm.get i j = .ok 1) ∧
        (s.perm.get i j = .ok 1 ↔ (⟨j, hj⟩ : Fin n) = σ ⟨i, hi⟩) :=
  @luDecomp_perm_entries_gen (Cx ℝ) CxField.field _ _ _ (Classical.decEq _) _ A n a h

/-- **complex `pivots` is the number of row exchanges** performed by the model's own loop -/
theorem luDecomp_pivots_count_cx (h : Mat.Is A n n a) :
    ∃ s, luDecomp A = .ok s ∧ s.pivots = Mat.exchangeCount A n ∧ s.pivots ≤ n :=
  @luDecomp_pivots_count_gen (Cx ℝ) CxField.field _ _ _ (Classical.decEq _) _ A n a h

/-- the pivot row chosen on a complex matrix at a step `k < n` lies in `[k, n)` -/
theorem pivotChoice_range_cx (h : Mat.Is A n n a) {k p : Nat} (hk : k < n)
    (hp : Mat.pivotChoice A k = some p) : k ≤ p ∧ p < n :=
  @pivotChoice_range_gen (Cx ℝ) CxField.field _ _ _ (Classical.decEq _) _ A n a h k p hk hp

/-- **parity, complex scalars**: `sign σ = (-1)^pivots` -/
theorem luDecomp_pivots_parity_cx (h : Mat.Is A n n a) :
    ∃ s, luDecomp A = .ok s ∧ Equiv.Perm.sign (Mat.luPerm A n) = (-1) ^ s.pivots ∧
      (s.pivots % 2 = 0 ↔ Equiv.Perm.sign (Mat.luPerm A n) = 1) :=
  @luDecomp_pivots_parity_gen (Cx ℝ) CxField.field _ _ _ (Classical.decEq _) _ A n a h

/-- **the complex factorisation with its permutation**: `luDecomp` returns the in-place factors
    `w` (unit lower `LC n w`, upper `UC n w`, C02X), the permutation matrix of `σ = luPerm A n`
    and the exchange count, with `A[σ ·, ·] = L·U` over ℂ, `pivots = exchangeCount A n`,
    `sign σ = (-1)^pivots` and `det U = sign σ · det A` over ℂ. -/
theorem luDecomp_factors_cx (h : Mat.Is A n n a) :
    ∃ (s : LU (Cx ℝ)) (w : Nat → Nat → Cx ℝ), luDecomp A = .ok s ∧ Mat.Is s.lu n n w ∧
      Mat.Is s.perm n n (Mat.permEntries (Mat.luPerm A n)) ∧
      (toCMat n a).submatrix (Mat.luPerm A n) id = LC n w * UC n w ∧
      s.pivots = Mat.exchangeCount A n ∧
      Equiv.Perm.sign (Mat.luPerm A n) = (-1) ^ s.pivots ∧
      Matrix.det (UC n w) = ((Equiv.Perm.sign (Mat.luPerm A n) : ℤ) : ℂ) * detC n a := by
  obtain ⟨s, w, pe, hs, hw, hpe, hPA, hdP, hdU⟩ := luDecomp_correct_cx h
  obtain ⟨s1, hs1, hpe1, _, hmul⟩ := luDecomp_perm_cx h
  obtain ⟨s2, hs2, hcnt, _⟩ := luDecomp_pivots_count_cx h
  obtain ⟨s3, hs3, hsign, _⟩ := luDecomp_pivots_parity_cx h
  rw [hs] at hs1 hs2 hs3
  cases hs1; cases hs2; cases hs3
  have hpeq : toCMat n pe = toCMat n (Mat.permEntries (K := Cx ℝ) (Mat.luPerm A n)) := by
    ext r c
    have g1 := hpe.get r.isLt c.isLt
    have g2 := hpe1.get r.isLt c.isLt
    rw [g1] at g2
    simp only [toCMat, Matrix.of_apply]
    rw [Except.ok.inj g2]
  refine ⟨s, w, hs, hw, hpe1, ?_, hcnt, hsign, ?_⟩
  · rw [← hmul, ← hpeq]; exact hPA
  · rw [hdU, hsign]
    simp

end Complex

/-! ### example over `Cx ℝ`: `exB = [[1, 1], [2i, 1]]`, exchange decided by the modulus -/
section Examples
open Ohsl.RealI Ohsl.CxField Ohsl.Props.C13 Ohsl.Props.C14 Ohsl.Props.C01

/-- the complex matrix [[1, 1], [2i, 1]] -/
def exB : Mat (Cx ℝ) := ⟨#[⟨1, 0⟩, ⟨1, 0⟩, ⟨0, 2⟩, ⟨1, 0⟩], 2, 2⟩

theorem exB_is : Mat.Is exB 2 2 (Mat.ent exB) := Mat.WFn.is ⟨rfl, rfl, rfl⟩

theorem exB_get00 : exB.get 0 0 = .ok ⟨1, 0⟩ := by
  rw [exB_is.get (by norm_num) (by norm_num)]; simp [Mat.ent, exB]
theorem exB_get10 : exB.get 1 0 = .ok ⟨0, 2⟩ := by
  rw [exB_is.get (by norm_num) (by norm_num)]; simp [Mat.ent, exB]

theorem sqrt_four : Real.sqrt 4 = 2 := by
  rw [show (4 : ℝ) = 2 ^ 2 by norm_num]
  exact Real.sqrt_sq (by norm_num)

/-- on column 0 of `exB` the pivot search returns row 1 with magnitude `|2i| = 2 (+ 0i)`: the
    candidate `1` of row 0 (magnitude 1) is beaten on the modulus, although `2i < 1` in the
    lexicographic order that `<` is on `Cx ℝ` -/
theorem exB_luPivot0 : Mat.luPivot exB 0 = .ok (⟨2, 0⟩, 1) := by
  simp only [Mat.luPivot, Mat.forM', show exB.rows = 2 from rfl, List.range', List.foldlM,
    exB_get00, exB_get10, bind, Except.bind, pure, Except.pure]
  simp [ScalarExt.mag, ScalarExt.lt, Cx.lt, Cx.abs, Cx.absSqr, Transc.sqrt, exB_get10, sqrt_four]

/-- `2i < 1` in the lexicographic order of `Cx ℝ`: the exchange is NOT an order comparison of the
    entries -/
example : ScalarExt.lt (⟨0, 2⟩ : Cx ℝ) ⟨1, 0⟩ = true := by
  simp [ScalarExt.lt, Cx.lt]

/-- the row chosen at step 0 is row 1 -/
theorem exB_pivotChoice0 : Mat.pivotChoice exB 0 = some 1 := by
  obtain ⟨p0, hp0, _⟩ := Mat.eye_spec (K := Cx ℝ) 2
  have hpre : Mat.luPrefix exB 0 = .ok { lu := exB, perm := p0, pivots := 0 } := by
    simp only [Mat.luPrefix, show exB.rows = 2 from rfl, hp0, bind, Except.bind]
    exact Mat.forM'_empty 0 0 _ _ (Nat.le_refl _)
  have hne : ((⟨2, 0⟩ : Cx ℝ) == 0) = false := by
    show Cx.beq ⟨2, 0⟩ 0 = false
    simp [Cx.beq, show (0 : Cx ℝ) = ⟨0, 0⟩ from rfl]
  simp only [Mat.pivotChoice, hpre, exB_luPivot0, hne]
  rfl

/-- at step 1 only row 1 is left: no exchange -/
theorem exB_exchangeAt1 : Mat.exchangeAt exB 1 = false := by
  unfold Mat.exchangeAt
  cases hc : Mat.pivotChoice exB 1 with
  | none => rfl
  | some p =>
    have := pivotChoice_range_cx exB_is (by norm_num : 1 < 2) hc
    have hp : p = 1 := by omega
    subst hp
    rfl

/-- one exchange -/
theorem exB_exchangeCount : Mat.exchangeCount exB 2 = 1 := by
  have h0 : Mat.exchangeAt exB 0 = true := by
    simp only [Mat.exchangeAt, exB_pivotChoice0]; rfl
  rw [show (2 : Nat) = 0 + 1 + 1 from rfl, Mat.exchangeCount_succ, Mat.exchangeCount_succ, h0,
    exB_exchangeAt1]
  rfl

/-- the recorded permutation is the transposition `(0 1)` -/
theorem exB_luPerm : Mat.luPerm exB 2 = Equiv.swap 0 1 := by
  have h0 : Mat.pivotSwap exB 2 0 = Equiv.swap 0 1 := by
    simp only [Mat.pivotSwap, exB_pivotChoice0]
    rfl
  have h1 : Mat.pivotSwap exB 2 1 = 1 := by
    unfold Mat.pivotSwap
    cases hc : Mat.pivotChoice exB 1 with
    | none => rfl
    | some p =>
      have := pivotChoice_range_cx exB_is (by norm_num : 1 < 2) hc
      have hp : p = 1 := by omega
      subst hp
      simp
      rfl
  simp only [Mat.luPerm, Mat.luPermUpTo, h0, h1, one_mul, mul_one]

/-- **`exB`**: the complex factorisation succeeds, counts ONE exchange, records the permutation
    matrix of the transposition `(0 1)` (`[[0,1],[1,0]]` over ℂ), and the sign is `-1` -/
example : ∃ s, luDecomp exB = .ok s ∧ s.pivots = 1 ∧ Mat.luPerm exB 2 = Equiv.swap 0 1 ∧
    Mat.Is s.perm 2 2 (Mat.permEntries (Equiv.swap (0 : Fin 2) 1)) ∧
    toCMat 2 (Mat.permEntries (K := Cx ℝ) (Equiv.swap (0 : Fin 2) 1)) = !![0, 1; 1, 0] ∧
    Equiv.Perm.sign (Mat.luPerm exB 2) = -1 := by
  obtain ⟨s, w, hs, _, hpe, _, hcnt, hsign, _⟩ := luDecomp_factors_cx exB_is
  rw [exB_exchangeCount] at hcnt
  rw [hcnt] at hsign
  rw [exB_luPerm] at hpe
  refine ⟨s, hs, hcnt, exB_luPerm, hpe, ?_, by rw [hsign]; rfl⟩
  ext r c
  fin_cases r <;> fin_cases c <;>
    simp [toCMat, Mat.permEntries, Equiv.swap_apply_def, toC, Complex.ext_iff]

end Examples
end Ohsl.Props.C02
