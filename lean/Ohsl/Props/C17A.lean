/-
  Property C17 (continued) — the SYSTEM Newton iteration `Jac.solveSys` on AFFINE systems and at
  exact roots, exact arithmetic (class E: `K` a linearly ordered field, `Ohsl.Alg.scalarExt`).

  IMPORTANT (read off the model and the source, src/newton.rs:100-128): the stopping test of the
  system iteration is on the RESIDUAL of the point the step STARTS from
  (`max_residual = ‖F(current)‖∞ <= tol`, evaluated before the update), not on the step; the
  update `current -= dx` is made before the test and the updated point is what is returned.

  * `sys_unfold`                  one unfolding of `solveSys` when the four sub-computations return
  * `affine_step_root`            F x = M x − c, J = M, `solve_basic` returned `dx` ⇒ `x − dx` is an
                                  exact root (from ANY `x`)
  * `solveBasic_zero_rhs`         a returning `solve_basic` with a zero right-hand side returns 0
  * `newton_affine_sys_supplied_gen`, `newton_affine_sys_supplied`
        supplied Jacobian = M everywhere: from ANY guess the first step lands exactly on a root
        `x*` (`M x* = c`), the second step is exactly zero, every budget `maxIter ≥ 2` reports
        `Ok(x*)`; with `maxIter = 1` the model returns `x*` as well, flagged `Ok` iff the residual
        of the GUESS already met the tolerance (otherwise `Err(x*)` although `x*` is an exact root)
  * `newton_affine_sys_fd_gen`, `newton_affine_sys_fd`
        the same with the finite-difference Jacobian (any `delta ≠ 0`), via `C18.jacobian_affine`
  * `newton_sys_fixed_point_gen`, `newton_sys_fixed_point`, `newton_sys_fixed_point_fd`
        ANY `f`: if the guess is an exact root and the linear solve returns, the run reports
        success at the guess in its first iteration, the step being exactly zero.

  The `_gen` versions are generic in the norm / tolerance test (`normInf`, `leTol`, as
  `solveSys` is); the unsuffixed ones instantiate them with the model's `Vec.normInf` and
  `fun r => Transc.le r tol`, under `Transc.le = (· ≤ ·)`, `Transc.fabs 0 = 0`, `0 ≤ tol`.

  The linear solves are assumed to return (hypothesis `hsolve`, only for the two right-hand sides
  that occur: `F guess` and `0`).  With `[IsStrictOrderedRing K]` and `hdet : det M ≠ 0`
  (`Matrix.det (Matrix.of fun (i j : Fin n) => M i.val j.val) ≠ 0`) the completeness theorem
  `C01.solveBasic_complete` (Ohsl/Props/C01C.lean, not imported here) discharges it:
    `fun J hJ => ⟨C01.solveBasic_complete hn hJ (by simp) hdet,
                  C01.solveBasic_complete hn hJ (by simp) hdet⟩`.
-/
import Ohsl.Props.C17S
import Ohsl.Props.C18E
import Ohsl.Props.C01S
set_option linter.unusedSectionVars false
set_option linter.unusedVariables false
set_option linter.unusedSimpArgs false
namespace Ohsl.Props.C17
open Ohsl Ohsl.Newton Ohsl.Jac Ohsl.Mat

section Unfold
variable {E : Type} [Add E] [Sub E] [Mul E] [Neg E] [Zero E] [One E] [BEq E] [ScalarExt E]

/-- one unfolding of `solveSys` when the norm, the Jacobian, the linear solve and the update
    all return -/
theorem sys_unfold {R : Type} (f : Array E → Array E)
    (jacF : Array E → Res (Mat E × List (Array E)))
    (normInf : Array E → Res R) (leTol : R → Bool) (n : Nat) (cur : Array E) (tr : List (Array E))
    {r : R} {J : Mat E} {jtr : List (Array E)} {dx cur' : Array E}
    (h1 : normInf (f cur) = .ok r) (h2 : jacF cur = .ok (J, jtr))
    (h3 : Mat.solveBasic J (f cur) = .ok dx) (h4 : Vec.sub cur dx = .ok cur') :
    solveSys f jacF normInf leTol (n + 1) cur tr =
      if leTol r then .ok (⟨true, cur'⟩, tr ++ [cur] ++ jtr)
      else solveSys f jacF normInf leTol n cur' (tr ++ [cur] ++ jtr) := by
  rw [solveSys]
  simp only [h1, h2, h3, h4, bind, Except.bind, pure, Except.pure]

end Unfold

section AffineSys
variable {K : Type} [Field K] [LinearOrder K]
attribute [local instance] Ohsl.Alg.scalarExt

/-- the residual map `x ↦ M x − c` of the `n × n` linear system `M x = c`, on arrays -/
def affineRes (M : Nat → Nat → K) (c : Nat → K) (n : Nat) : Array K → Array K :=
  C18.affineMap M (fun i => -c i) n n

/-- `x` has length `n` and solves `M x = c` exactly -/
def IsRoot (M : Nat → Nat → K) (c : Nat → K) (n : Nat) (x : Array K) : Prop :=
  x.size = n ∧ ∀ i, i < n → ∑ j ∈ Finset.range n, M i j * (x[j]?.getD 0) = c i

@[simp] theorem affineRes_size (M : Nat → Nat → K) (c : Nat → K) (n : Nat) (x : Array K) :
    (affineRes M c n x).size = n := by simp [affineRes, C18.affineMap]

theorem affineRes_get (M : Nat → Nat → K) (c : Nat → K) (n : Nat) (x : Array K) {i : Nat}
    (hi : i < n) :
    (affineRes M c n x)[i]?.getD 0 = (∑ j ∈ Finset.range n, M i j * (x[j]?.getD 0)) - c i := by
  simp [affineRes, C18.affineMap, hi, sub_eq_add_neg]

/-- at a root the residual is the zero vector -/
theorem affineRes_root {M : Nat → Nat → K} {c : Nat → K} {n : Nat} {x : Array K}
    (h : IsRoot M c n x) : affineRes M c n x = Array.replicate n 0 := by
  apply Array.ext
  · simp
  · intro i h1 h2
    have hi : i < n := by simpa using h1
    have := affineRes_get M c n x hi
    simp only [h1, Array.getElem?_eq_getElem, Option.getD_some] at this
    rw [this, h.2 i hi]
    simp

/-- a well-formed matrix is determined by its shape and entries -/
theorem Is_unique {r c : Nat} {e : Nat → Nat → K} {A B : Mat K} (hA : Mat.Is A r c e)
    (hB : Mat.Is B r c e) : A = B := by
  have wA : A.data.size = r * c := by rw [hA.wf, hA.rows, hA.cols]
  have wB : B.data.size = r * c := by rw [hB.wf, hB.rows, hB.cols]
  have hd : A.data = B.data := by
    apply Array.ext
    · rw [wA, wB]
    · intro k hk1 hk2
      have hk : k < r * c := by rw [← wA]; exact hk1
      have hc : 0 < c := by
        rcases Nat.eq_zero_or_pos c with h | h
        · subst h; simp at hk
        · exact h
      have hj : k % c < c := Nat.mod_lt _ hc
      have hi : k / c < r := by
        rw [Nat.div_lt_iff_lt_mul hc]; exact hk
      have hidx : k / c * c + k % c = k := Nat.div_add_mod' k c
      have eA := hA.entry (k / c) (k % c) hi hj
      have eB := hB.entry (k / c) (k % c) hi hj
      simp only [Mat.get, hA.cols, hB.cols, hidx, aget_eq_ok] at eA eB
      have := eA.trans eB.symm
      simpa [hk1, hk2] using this
  obtain ⟨dA, rA, cA⟩ := A
  obtain ⟨dB, rB, cB⟩ := B
  have h1 := hA.rows; have h2 := hA.cols; have h3 := hB.rows; have h4 := hB.cols
  simp only at h1 h2 h3 h4 hd
  rw [hd, h1, h2, h3, h4]

/-- subtracting the zero vector -/
theorem vecSub_zero {n : Nat} {x : Array K} (hx : x.size = n) :
    Vec.sub x (Array.replicate n (0 : K)) = .ok x := by
  unfold Vec.sub
  simp only [Array.size_replicate, hx, ne_eq, not_true_eq_false, if_false]
  congr 1
  apply Array.ext
  · simp [hx]
  · intro i h1 h2
    simp

/-- **a returning `solve_basic` with a zero right-hand side returns the zero vector** -/
theorem solveBasic_zero_rhs {n : Nat} (hn : 1 ≤ n) {J : Mat K} {a : Nat → Nat → K}
    (hJ : Mat.Is J n n a) {dx : Array K}
    (h : Mat.solveBasic J (Array.replicate n (0 : K)) = .ok dx) : dx = Array.replicate n 0 := by
  have hb : (Array.replicate n (0 : K)).size = n := by simp
  obtain ⟨hs, _⟩ := C01.solveBasic_sound hn hJ hb h
  have hu := C01.solveBasic_unique hn hJ hb h (fun _ => 0) (by
    intro i hi
    simp [hi])
  apply Array.ext
  · simp [hs]
  · intro j h1 h2
    have := hu j (by omega)
    simp only [h1, Array.getElem?_eq_getElem, Option.getD_some] at this
    simp [← this]

/-- **one exact Newton step on an affine system lands on a root**: from any `x` of length `n`,
    with `J = M`, if `solve_basic J (M x − c)` returned `dx` then `x − dx` is computed and
    solves `M x' = c` exactly. -/
theorem affine_step_root {M : Nat → Nat → K} {c : Nat → K} {n : Nat} (hn : 1 ≤ n) {J : Mat K}
    (hJ : Mat.Is J n n M) {x dx : Array K} (hx : x.size = n)
    (h : Mat.solveBasic J (affineRes M c n x) = .ok dx) :
    ∃ x', Vec.sub x dx = .ok x' ∧ IsRoot M c n x' := by
  obtain ⟨hs, hsol⟩ := C01.solveBasic_sound hn hJ (affineRes_size M c n x) h
  refine ⟨Array.zipWith (· - ·) x dx, by simp [Vec.sub, hx, hs], by simp [hx, hs], ?_⟩
  intro i hi
  have e := hsol i hi
  rw [affineRes_get M c n x hi] at e
  have : ∀ j ∈ Finset.range n, M i j * ((Array.zipWith (· - ·) x dx)[j]?.getD 0)
      = M i j * (x[j]?.getD 0) - M i j * (dx[j]?.getD 0) := by
    intro j hj
    have hj' : j < n := Finset.mem_range.mp hj
    have h1 : j < x.size := by omega
    have h2 : j < dx.size := by omega
    simp [h1, h2, mul_sub]
  rw [Finset.sum_congr rfl this, Finset.sum_sub_distrib, e]
  ring

/-- **Newton on an affine system, supplied Jacobian, generic norm / tolerance test.**
    `F x = M x − c` (`n ≥ 1`); `jacF` returns a well-formed `n × n` matrix with entries `M` at
    every point of length `n`; the two linear solves that occur return (`hsolve`); the norm is
    defined on vectors of length `n` and the zero vector passes the tolerance test.
    Then from ANY guess of length `n`:
    * the first step `guess ↦ x*` is computed and `x*` is an exact root, `M x* = c`;
    * at `x*` the residual is the zero vector, the linear solve returns the zero step, and the
      step `x* ↦ x*` meets the tolerance;
    * `maxIter = 1`: the model returns `x*`, flagged `Ok` iff the residual norm `r0` of the GUESS
      met the tolerance (else `Err(x*)`), after one evaluation of `F` (+ the Jacobian's);
    * every `maxIter ≥ 2`: the model returns `Ok(x*)`, after one iteration if `r0` met the
      tolerance and after exactly two otherwise. -/
theorem newton_affine_sys_supplied_gen {R : Type} (M : Nat → Nat → K) (c : Nat → K) (n : Nat)
    (hn : 1 ≤ n) (jacF : Array K → Res (Mat K × List (Array K)))
    (hJ : ∀ x : Array K, x.size = n → ∃ J jtr, jacF x = .ok (J, jtr) ∧ Mat.Is J n n M)
    (normInf : Array K → Res R) (leTol : R → Bool)
    (hN : ∀ v : Array K, v.size = n → ∃ r, normInf v = .ok r)
    (hN0 : ∀ r, normInf (Array.replicate n (0 : K)) = .ok r → leTol r = true)
    (guess : Array K) (hg : guess.size = n)
    (hsolve : ∀ J : Mat K, Mat.Is J n n M →
      (∃ dx, Mat.solveBasic J (affineRes M c n guess) = .ok dx) ∧
      (∃ dx, Mat.solveBasic J (Array.replicate n (0 : K)) = .ok dx))
    (tr : List (Array K)) :
    ∃ (xs : Array K) (r0 : R) (jtr0 jtr1 : List (Array K)),
      IsRoot M c n xs ∧
      normInf (affineRes M c n guess) = .ok r0 ∧
      (∃ J0, jacF guess = .ok (J0, jtr0)) ∧
      IsStep (affineRes M c n) jacF normInf leTol (leTol r0) guess xs ∧
      affineRes M c n xs = Array.replicate n 0 ∧
      (∃ J1, jacF xs = .ok (J1, jtr1) ∧
        Mat.solveBasic J1 (affineRes M c n xs) = .ok (Array.replicate n 0)) ∧
      IsStep (affineRes M c n) jacF normInf leTol true xs xs ∧
      solveSys (affineRes M c n) jacF normInf leTol 1 guess tr
        = .ok (⟨leTol r0, xs⟩, tr ++ [guess] ++ jtr0) ∧
      ∀ maxIter, 2 ≤ maxIter →
        solveSys (affineRes M c n) jacF normInf leTol maxIter guess tr
          = .ok (⟨true, xs⟩, if leTol r0 then tr ++ [guess] ++ jtr0
                              else tr ++ [guess] ++ jtr0 ++ [xs] ++ jtr1) := by
  -- first step
  obtain ⟨r0, hr0⟩ := hN (affineRes M c n guess) (by simp)
  obtain ⟨J0, jtr0, hj0, hI0⟩ := hJ guess hg
  obtain ⟨dx0, hdx0⟩ := (hsolve J0 hI0).1
  obtain ⟨xs, hsub0, hroot⟩ := affine_step_root hn hI0 hg hdx0
  -- second step
  have hF1 : affineRes M c n xs = Array.replicate n 0 := affineRes_root hroot
  obtain ⟨r1, hr1⟩ := hN (affineRes M c n xs) (by simp)
  have hle1 : leTol r1 = true := hN0 r1 (by rw [← hF1]; exact hr1)
  obtain ⟨J1, jtr1, hj1, hI1⟩ := hJ xs hroot.1
  obtain ⟨dx1, hdx1⟩ := (hsolve J1 hI1).2
  have hz : dx1 = Array.replicate n 0 := solveBasic_zero_rhs hn hI1 hdx1
  subst hz
  have hdx1' : Mat.solveBasic J1 (affineRes M c n xs) = .ok (Array.replicate n 0) := by
    rw [hF1]; exact hdx1
  have hsub1 : Vec.sub xs (Array.replicate n (0 : K)) = .ok xs := vecSub_zero hroot.1
  have one : ∀ k t, solveSys (affineRes M c n) jacF normInf leTol (k + 1) xs t
      = .ok (⟨true, xs⟩, t ++ [xs] ++ jtr1) := by
    intro k t
    rw [sys_unfold _ _ _ _ k xs t hr1 hj1 hdx1' hsub1, hle1]
    rfl
  refine ⟨xs, r0, jtr0, jtr1, hroot, hr0, ⟨J0, hj0⟩, ⟨r0, J0, jtr0, dx0, hr0, rfl, hj0, hdx0, hsub0⟩,
    hF1, ⟨J1, hj1, hdx1'⟩, ⟨r1, J1, jtr1, _, hr1, hle1, hj1, hdx1', hsub1⟩, ?_, ?_⟩
  · rw [sys_unfold _ _ _ _ 0 guess tr hr0 hj0 hdx0 hsub0]
    cases leTol r0 <;> rfl
  · intro maxIter hm
    obtain ⟨k, rfl⟩ : ∃ k, maxIter = k + 2 := ⟨maxIter - 2, by omega⟩
    rw [sys_unfold _ _ _ _ (k + 1) guess tr hr0 hj0 hdx0 hsub0]
    cases hl : leTol r0
    · simp only [Bool.false_eq_true, if_false]
      exact one k _
    · simp

/-- **Newton on an affine system, finite-difference Jacobian, generic norm / tolerance test**:
    over a field the finite-difference Jacobian of `x ↦ M x − c` is exactly `M` for every
    `delta ≠ 0` (`C18.jacobian_affine`), so the statement of `newton_affine_sys_supplied_gen`
    holds with `jacF x = jacobian F x delta`; each Jacobian evaluates `F` `n + 1` times. -/
theorem newton_affine_sys_fd_gen {R : Type} (M : Nat → Nat → K) (c : Nat → K) (n : Nat)
    (hn : 1 ≤ n) (delta : K) (hd : delta ≠ 0)
    (normInf : Array K → Res R) (leTol : R → Bool)
    (hN : ∀ v : Array K, v.size = n → ∃ r, normInf v = .ok r)
    (hN0 : ∀ r, normInf (Array.replicate n (0 : K)) = .ok r → leTol r = true)
    (guess : Array K) (hg : guess.size = n)
    (hsolve : ∀ J : Mat K, Mat.Is J n n M →
      (∃ dx, Mat.solveBasic J (affineRes M c n guess) = .ok dx) ∧
      (∃ dx, Mat.solveBasic J (Array.replicate n (0 : K)) = .ok dx))
    (tr : List (Array K)) :
    ∃ (xs : Array K) (r0 : R) (jtr0 jtr1 : List (Array K)),
      IsRoot M c n xs ∧
      normInf (affineRes M c n guess) = .ok r0 ∧
      jtr0.length = n + 1 ∧ jtr1.length = n + 1 ∧
      (∃ J0, jacobian (affineRes M c n) guess delta = .ok (J0, jtr0) ∧ Mat.Is J0 n n M) ∧
      IsStep (affineRes M c n) (fun x => jacobian (affineRes M c n) x delta) normInf leTol
        (leTol r0) guess xs ∧
      affineRes M c n xs = Array.replicate n 0 ∧
      (∃ J1, jacobian (affineRes M c n) xs delta = .ok (J1, jtr1) ∧ Mat.Is J1 n n M ∧
        Mat.solveBasic J1 (affineRes M c n xs) = .ok (Array.replicate n 0)) ∧
      IsStep (affineRes M c n) (fun x => jacobian (affineRes M c n) x delta) normInf leTol
        true xs xs ∧
      solveSys (affineRes M c n) (fun x => jacobian (affineRes M c n) x delta) normInf leTol 1
          guess tr = .ok (⟨leTol r0, xs⟩, tr ++ [guess] ++ jtr0) ∧
      ∀ maxIter, 2 ≤ maxIter →
        solveSys (affineRes M c n) (fun x => jacobian (affineRes M c n) x delta) normInf leTol
            maxIter guess tr
          = .ok (⟨true, xs⟩, if leTol r0 then tr ++ [guess] ++ jtr0
                              else tr ++ [guess] ++ jtr0 ++ [xs] ++ jtr1) := by
  have hJ : ∀ x : Array K, x.size = n → ∃ J jtr,
      (fun x => jacobian (affineRes M c n) x delta) x = .ok (J, jtr) ∧ Mat.Is J n n M := by
    intro x hx
    obtain ⟨J, jtr, h1, _, h3⟩ := C18.jacobian_affine M (fun i => -c i) n x delta hd
    rw [hx] at h1 h3
    exact ⟨J, jtr, h1, h3⟩
  obtain ⟨xs, r0, jtr0, jtr1, h1, h2, ⟨J0, h3⟩, h4, h5, ⟨J1, h6, h6'⟩, h7, h8, h9⟩ :=
    newton_affine_sys_supplied_gen M c n hn _ hJ normInf leTol hN hN0 guess hg hsolve tr
  have l0 := jacobian_trace_length _ _ _ _ _ h3
  have l1 := jacobian_trace_length _ _ _ _ _ h6
  have i0 : Mat.Is J0 n n M := by
    obtain ⟨J, jtr, e, hI⟩ := hJ guess hg
    simp only at e
    rw [h3] at e
    cases e
    exact hI
  have i1 : Mat.Is J1 n n M := by
    obtain ⟨J, jtr, e, hI⟩ := hJ xs h1.1
    simp only at e
    rw [h6] at e
    cases e
    exact hI
  exact ⟨xs, r0, jtr0, jtr1, h1, h2, by rw [l0, hg], by rw [l1, h1.1], ⟨J0, h3, i0⟩, h4, h5,
    ⟨J1, h6, i1, h6'⟩, h7, h8, h9⟩

/-- **an exact root is a fixed point reported at once** (generic norm / tolerance test): for ANY
    function `f` (no smoothness, no shape condition away from `x0`), if `f x0` is the zero vector
    of length `n = |x0| ≥ 1`, the Jacobian call at `x0` returns a well-formed `n × n` matrix and
    the linear solve returns, then the step is exactly zero and every run with `maxIter ≥ 1`
    reports `Ok(x0)` in its first iteration (one evaluation of `f` + the Jacobian's). -/
theorem newton_sys_fixed_point_gen {R : Type} (f : Array K → Array K)
    (jacF : Array K → Res (Mat K × List (Array K)))
    (normInf : Array K → Res R) (leTol : R → Bool) (n : Nat) (hn : 1 ≤ n)
    (x0 : Array K) (hx : x0.size = n) (hroot : f x0 = Array.replicate n 0)
    {J : Mat K} {jtr : List (Array K)} (hjac : jacF x0 = .ok (J, jtr)) (hJ : Mat.WFn J n)
    (hsolve : ∃ dx, Mat.solveBasic J (f x0) = .ok dx)
    {r0 : R} (hN : normInf (Array.replicate n (0 : K)) = .ok r0) (hle : leTol r0 = true)
    (tr : List (Array K)) :
    Mat.solveBasic J (f x0) = .ok (Array.replicate n 0) ∧
    IsStep f jacF normInf leTol true x0 x0 ∧
    ∀ maxIter, 1 ≤ maxIter →
      solveSys f jacF normInf leTol maxIter x0 tr = .ok (⟨true, x0⟩, tr ++ [x0] ++ jtr) := by
  obtain ⟨dx, hdx⟩ := hsolve
  have hz : dx = Array.replicate n 0 := by
    rw [hroot] at hdx
    exact solveBasic_zero_rhs hn hJ.is hdx
  subst hz
  have hr : normInf (f x0) = .ok r0 := by rw [hroot]; exact hN
  have hsub : Vec.sub x0 (Array.replicate n (0 : K)) = .ok x0 := vecSub_zero hx
  refine ⟨hdx, ⟨r0, J, jtr, _, hr, hle, hjac, hdx, hsub⟩, ?_⟩
  intro maxIter hm
  obtain ⟨k, rfl⟩ : ∃ k, maxIter = k + 1 := ⟨maxIter - 1, by omega⟩
  rw [sys_unfold _ _ _ _ k x0 tr hr hjac hdx hsub, hle]
  rfl

/-! ### the model's norm and tolerance test -/
section Concrete
variable [Transc K]

/-- `norm_inf` is defined on every non-empty vector -/
theorem normInf_total {v : Array K} (h : 1 ≤ v.size) : ∃ r, Vec.normInf v = .ok r := by
  unfold Vec.normInf Vec.normInfBy
  have : v[0]? = some v[0] := by simp [show 0 < v.size from h]
  rw [this]
  exact ⟨_, rfl⟩

/-- over a field with lawful equality the NaN test of `norm_inf` (repair D14: `|x| != |x|`) never fires -/
theorem normInf_step_eq (g : K → K) :
    (fun (r x : K) => if ScalarExt.lt r (g x) || !(g x == g x) then g x else r)
      = (fun r x => if ScalarExt.lt r (g x) then g x else r) := by
  funext r x; simp

theorem foldl_zero (g : K → K) (h0 : g 0 = 0) (l : List K) (hl : ∀ x ∈ l, x = 0) :
    l.foldl (fun r x => if ScalarExt.lt r (g x) then g x else r) 0 = 0 := by
  induction l with
  | nil => rfl
  | cons a l ih =>
    have ha : a = 0 := hl a (by simp)
    subst ha
    simp only [List.foldl_cons, h0, Alg.lt_eq, lt_self_iff_false, decide_false, Bool.false_eq_true,
      if_false]
    exact ih (fun x hx => hl x (by simp [hx]))

/-- `norm_inf` of the zero vector is `0` (only `fabs 0 = 0` is used) -/
theorem normInf_zero {n : Nat} (hn : 1 ≤ n) (habs0 : Transc.fabs (0 : K) = 0) :
    Vec.normInf (Array.replicate n (0 : K)) = .ok 0 := by
  unfold Vec.normInf Vec.normInfBy
  have : (Array.replicate n (0 : K))[0]? = some 0 := by simp [show 0 < n from hn]
  rw [this]
  simp only [habs0, normInf_step_eq]
  congr 1
  rw [← Array.foldl_toList]
  apply foldl_zero _ habs0
  intro x hx
  simp at hx
  exact hx.2

/-- the two facts about the stopping test that the `_gen` theorems need, for the model's
    `Vec.normInf` and `fun r => Transc.le r tol` -/
theorem concrete_norm (hle : ∀ x y : K, Transc.le x y = decide (x ≤ y))
    (habs0 : Transc.fabs (0 : K) = 0) (tol : K) (htol : 0 ≤ tol) (n : Nat) (hn : 1 ≤ n) :
    (∀ v : Array K, v.size = n → ∃ r, Vec.normInf v = .ok r) ∧
    (∀ r, Vec.normInf (Array.replicate n (0 : K)) = .ok r → Transc.le r tol = true) := by
  refine ⟨fun v hv => normInf_total (by omega), ?_⟩
  intro r hr
  rw [normInf_zero hn habs0] at hr
  cases hr
  rw [hle]
  simpa using htol

/-- **Newton for systems on an affine map, supplied Jacobian: one exact step, then success.**
    Over a linearly ordered field, with `<=` read as `≤` and `fabs 0 = 0`: let `F x = M x − c`
    be an `n × n` affine system (`n ≥ 1`), let the supplied Jacobian return a well-formed matrix
    with entries `M` at every point, let `0 ≤ tol` and suppose the two linear solves that occur
    return (`hsolve`; implied by `det M ≠ 0` through completeness of `solve_basic`).  Then for
    ANY guess of length `n`:
    * the first step lands on an exact root `x*` (`M x* = c`);
    * at `x*` the residual is the zero vector and the second step is exactly zero;
    * with `maxIter = 1` the model returns `x*` flagged `Ok` iff `‖F guess‖∞ ≤ tol`
      (`Err(x*)` otherwise — the test looks at the residual of the point the step started from);
    * with every `maxIter ≥ 2` the model returns `Ok(x*)`, after at most two iterations. -/
theorem newton_affine_sys_supplied
    (hle : ∀ x y : K, Transc.le x y = decide (x ≤ y)) (habs0 : Transc.fabs (0 : K) = 0)
    (M : Nat → Nat → K) (c : Nat → K) (n : Nat) (hn : 1 ≤ n)
    (jacF : Array K → Res (Mat K × List (Array K)))
    (hJ : ∀ x : Array K, x.size = n → ∃ J jtr, jacF x = .ok (J, jtr) ∧ Mat.Is J n n M)
    (tol : K) (htol : 0 ≤ tol) (guess : Array K) (hg : guess.size = n)
    (hsolve : ∀ J : Mat K, Mat.Is J n n M →
      (∃ dx, Mat.solveBasic J (affineRes M c n guess) = .ok dx) ∧
      (∃ dx, Mat.solveBasic J (Array.replicate n (0 : K)) = .ok dx)) :
    ∃ (xs : Array K) (r0 : K) (jtr0 jtr1 : List (Array K)),
      IsRoot M c n xs ∧
      Vec.normInf (affineRes M c n guess) = .ok r0 ∧
      (∃ J0, jacF guess = .ok (J0, jtr0)) ∧
      IsStep (affineRes M c n) jacF Vec.normInf (fun r => Transc.le r tol) (decide (r0 ≤ tol))
        guess xs ∧
      affineRes M c n xs = Array.replicate n 0 ∧
      (∃ J1, jacF xs = .ok (J1, jtr1) ∧
        Mat.solveBasic J1 (affineRes M c n xs) = .ok (Array.replicate n 0)) ∧
      IsStep (affineRes M c n) jacF Vec.normInf (fun r => Transc.le r tol) true xs xs ∧
      solveSys (affineRes M c n) jacF Vec.normInf (fun r => Transc.le r tol) 1 guess []
        = .ok (⟨decide (r0 ≤ tol), xs⟩, [guess] ++ jtr0) ∧
      ∀ maxIter, 2 ≤ maxIter →
        solveSys (affineRes M c n) jacF Vec.normInf (fun r => Transc.le r tol) maxIter guess []
          = .ok (⟨true, xs⟩, if r0 ≤ tol then [guess] ++ jtr0
                              else [guess] ++ jtr0 ++ [xs] ++ jtr1) := by
  obtain ⟨hN, hN0⟩ := concrete_norm hle habs0 tol htol n hn
  have := newton_affine_sys_supplied_gen M c n hn jacF hJ Vec.normInf (fun r => Transc.le r tol)
    hN hN0 guess hg hsolve []
  simpa only [hle, decide_eq_true_eq, List.nil_append] using this

/-- **Newton for systems on an affine map, finite-difference Jacobian**: the same with
    `Mat64::jacobian` (any `delta ≠ 0`: the forward difference of an affine map is exact over a
    field); each iteration evaluates `F` `n + 2` times. -/
theorem newton_affine_sys_fd
    (hle : ∀ x y : K, Transc.le x y = decide (x ≤ y)) (habs0 : Transc.fabs (0 : K) = 0)
    (M : Nat → Nat → K) (c : Nat → K) (n : Nat) (hn : 1 ≤ n) (delta : K) (hd : delta ≠ 0)
    (tol : K) (htol : 0 ≤ tol) (guess : Array K) (hg : guess.size = n)
    (hsolve : ∀ J : Mat K, Mat.Is J n n M →
      (∃ dx, Mat.solveBasic J (affineRes M c n guess) = .ok dx) ∧
      (∃ dx, Mat.solveBasic J (Array.replicate n (0 : K)) = .ok dx)) :
    ∃ (xs : Array K) (r0 : K) (jtr0 jtr1 : List (Array K)),
      IsRoot M c n xs ∧
      Vec.normInf (affineRes M c n guess) = .ok r0 ∧
      jtr0.length = n + 1 ∧ jtr1.length = n + 1 ∧
      (∃ J0, jacobian (affineRes M c n) guess delta = .ok (J0, jtr0) ∧ Mat.Is J0 n n M) ∧
      IsStep (affineRes M c n) (fun x => jacobian (affineRes M c n) x delta) Vec.normInf
        (fun r => Transc.le r tol) (decide (r0 ≤ tol)) guess xs ∧
      affineRes M c n xs = Array.replicate n 0 ∧
      (∃ J1, jacobian (affineRes M c n) xs delta = .ok (J1, jtr1) ∧ Mat.Is J1 n n M ∧
        Mat.solveBasic J1 (affineRes M c n xs) = .ok (Array.replicate n 0)) ∧
      IsStep (affineRes M c n) (fun x => jacobian (affineRes M c n) x delta) Vec.normInf
        (fun r => Transc.le r tol) true xs xs ∧
      solveSys (affineRes M c n) (fun x => jacobian (affineRes M c n) x delta) Vec.normInf
          (fun r => Transc.le r tol) 1 guess [] = .ok (⟨decide (r0 ≤ tol), xs⟩, [guess] ++ jtr0) ∧
      ∀ maxIter, 2 ≤ maxIter →
        solveSys (affineRes M c n) (fun x => jacobian (affineRes M c n) x delta) Vec.normInf
            (fun r => Transc.le r tol) maxIter guess []
          = .ok (⟨true, xs⟩, if r0 ≤ tol then [guess] ++ jtr0
                              else [guess] ++ jtr0 ++ [xs] ++ jtr1) := by
  obtain ⟨hN, hN0⟩ := concrete_norm hle habs0 tol htol n hn
  have := newton_affine_sys_fd_gen M c n hn delta hd Vec.normInf (fun r => Transc.le r tol)
    hN hN0 guess hg hsolve []
  simpa only [hle, decide_eq_true_eq, List.nil_append] using this

/-- **an exact root is reported at once**: for ANY `f`, if `f x0 = 0` (the zero vector of length
    `n = |x0| ≥ 1`), the Jacobian call at `x0` returns a well-formed `n × n` matrix and the linear
    solve returns, then the step is exactly zero and every run with `maxIter ≥ 1`, `tol ≥ 0`
    reports `Ok(x0)` in its first iteration. -/
theorem newton_sys_fixed_point
    (hle : ∀ x y : K, Transc.le x y = decide (x ≤ y)) (habs0 : Transc.fabs (0 : K) = 0)
    (f : Array K → Array K) (jacF : Array K → Res (Mat K × List (Array K)))
    (tol : K) (htol : 0 ≤ tol) (n : Nat) (hn : 1 ≤ n)
    (x0 : Array K) (hx : x0.size = n) (hroot : f x0 = Array.replicate n 0)
    {J : Mat K} {jtr : List (Array K)} (hjac : jacF x0 = .ok (J, jtr)) (hJ : Mat.WFn J n)
    (hsolve : ∃ dx, Mat.solveBasic J (f x0) = .ok dx) :
    Mat.solveBasic J (f x0) = .ok (Array.replicate n 0) ∧
    IsStep f jacF Vec.normInf (fun r => Transc.le r tol) true x0 x0 ∧
    ∀ maxIter, 1 ≤ maxIter →
      solveSys f jacF Vec.normInf (fun r => Transc.le r tol) maxIter x0 []
        = .ok (⟨true, x0⟩, [x0] ++ jtr) := by
  have hle0 : (fun r => Transc.le r tol) (0 : K) = true := by
    simp only [hle]; simpa using htol
  exact newton_sys_fixed_point_gen f jacF Vec.normInf (fun r => Transc.le r tol) n hn x0 hx hroot
    hjac hJ hsolve (normInf_zero hn habs0) hle0 []

/-- the same with the finite-difference Jacobian: `f` only has to return vectors of length `n`
    on arguments of length `n`, and `delta ≠ 0`; the run evaluates `f` `n + 2` times. -/
theorem newton_sys_fixed_point_fd
    (hle : ∀ x y : K, Transc.le x y = decide (x ≤ y)) (habs0 : Transc.fabs (0 : K) = 0)
    (f : Array K → Array K) (delta : K) (hd : delta ≠ 0)
    (tol : K) (htol : 0 ≤ tol) (n : Nat) (hn : 1 ≤ n)
    (hf : ∀ x : Array K, x.size = n → (f x).size = n)
    (x0 : Array K) (hx : x0.size = n) (hroot : f x0 = Array.replicate n 0)
    (hsolve : ∀ J jtr, jacobian f x0 delta = .ok (J, jtr) →
      ∃ dx, Mat.solveBasic J (f x0) = .ok dx) :
    ∃ J jtr, jacobian f x0 delta = .ok (J, jtr) ∧ jtr.length = n + 1 ∧
      Mat.solveBasic J (f x0) = .ok (Array.replicate n 0) ∧
      ∀ maxIter, 1 ≤ maxIter →
        solveSys f (fun x => jacobian f x delta) Vec.normInf (fun r => Transc.le r tol) maxIter
          x0 [] = .ok (⟨true, x0⟩, [x0] ++ jtr) := by
  have hdiv : ∀ a : K, ∃ q, divM a delta = .ok q := fun a => ⟨a / delta, Alg.divM_ne hd⟩
  obtain ⟨J, h1, h2, h3, h4, _⟩ := C18.jacobian_entries f x0 delta n
    (fun x h => hf x (by rw [h, hx])) hdiv
  have hJ : Mat.WFn J n := ⟨h4, h2, by rw [h3, hx]⟩
  obtain ⟨a, _, c⟩ := newton_sys_fixed_point hle habs0 f (fun x => jacobian f x delta) tol htol n
    hn x0 hx hroot h1 hJ (hsolve _ _ h1)
  exact ⟨J, _, h1, by simp [hx], a, c⟩

end Concrete

end AffineSys

section Examples
attribute [local instance] Ohsl.Alg.scalarExt

/-- ℚ with `le := decide (· ≤ ·)`, `fabs := |·|` (the other operations are irrelevant) -/
@[reducible] def transcQ : Transc ℚ :=
  { sqrt := id, sin := id, cos := id, tan := id, exp := id, ln := id, sinh := id, cosh := id,
    fabs := fun x => |x|, atan2 := fun x _ => x, powf := fun x _ => x, fmax := max,
    ofNat := fun n => (n : ℚ), le := fun x y => decide (x ≤ y), half := 1 / 2, piHalf := 0,
    eps := 0, snap := 0 }

/-- **non-vacuity**: the hypotheses of `newton_affine_sys_supplied` / `newton_affine_sys_fd` are
    satisfiable — ℚ with `le := decide (· ≤ ·)`, `fabs := |·|`, the 2×2 system
    `2x + y = 3, x + 3y = 5` (root `(4/5, 7/5)`), the constant supplied Jacobian, the guess
    `(7, -4)`: both linear solves return for every matrix with these entries. -/
example : ∃ (_ : Transc ℚ) (M : Nat → Nat → ℚ) (c : Nat → ℚ)
    (jacF : Array ℚ → Res (Mat ℚ × List (Array ℚ))) (guess : Array ℚ),
    (∀ x y : ℚ, Transc.le x y = decide (x ≤ y)) ∧ Transc.fabs (0 : ℚ) = 0 ∧ guess.size = 2 ∧
    (∀ x : Array ℚ, x.size = 2 → ∃ J jtr, jacF x = .ok (J, jtr) ∧ Mat.Is J 2 2 M) ∧
    (∀ J : Mat ℚ, Mat.Is J 2 2 M →
      (∃ dx, Mat.solveBasic J (affineRes M c 2 guess) = .ok dx) ∧
      (∃ dx, Mat.solveBasic J (Array.replicate 2 (0 : ℚ)) = .ok dx)) := by
  refine ⟨transcQ, Mat.ent ⟨#[2, 1, 1, 3], 2, 2⟩, fun i => (#[3, 5] : Array ℚ)[i]?.getD 0,
     fun _ => .ok (⟨#[2, 1, 1, 3], 2, 2⟩, []), #[7, -4], fun _ _ => rfl, abs_zero, rfl, ?_, ?_⟩
  · intro x _
    exact ⟨_, _, rfl, Mat.WFn.is ⟨rfl, rfl, rfl⟩⟩
  · intro J hJ
    have e : J = ⟨#[2, 1, 1, 3], 2, 2⟩ := Is_unique hJ (Mat.WFn.is ⟨rfl, rfl, rfl⟩)
    subst e
    have hF : affineRes (Mat.ent ⟨#[2, 1, 1, 3], 2, 2⟩) (fun i => (#[3, 5] : Array ℚ)[i]?.getD 0) 2
        #[7, -4] = #[7, -10] := by
      decide +kernel
    rw [hF]
    exact ⟨⟨#[31 / 5, -27 / 5], by decide +kernel⟩, ⟨#[0, 0], by decide +kernel⟩⟩

/-- **non-vacuity** of `newton_sys_fixed_point`: the same system as a black-box `f`, started at
    its exact root `(4/5, 7/5)`. -/
example : ∃ (_ : Transc ℚ) (f : Array ℚ → Array ℚ)
    (jacF : Array ℚ → Res (Mat ℚ × List (Array ℚ))) (x0 : Array ℚ) (J : Mat ℚ)
    (jtr : List (Array ℚ)),
    (∀ x y : ℚ, Transc.le x y = decide (x ≤ y)) ∧ Transc.fabs (0 : ℚ) = 0 ∧ x0.size = 2 ∧
    f x0 = Array.replicate 2 0 ∧ jacF x0 = .ok (J, jtr) ∧ Mat.WFn J 2 ∧
    ∃ dx, Mat.solveBasic J (f x0) = .ok dx :=
  ⟨transcQ, fun x => #[2 * x.getD 0 0 + x.getD 1 0 - 3, x.getD 0 0 + 3 * x.getD 1 0 - 5],
    fun _ => .ok (⟨#[2, 1, 1, 3], 2, 2⟩, []), #[4 / 5, 7 / 5], ⟨#[2, 1, 1, 3], 2, 2⟩, [],
    fun _ _ => rfl, abs_zero, rfl, by decide +kernel, rfl, ⟨rfl, rfl, rfl⟩,
    ⟨#[0, 0], by decide +kernel⟩⟩

end Examples

end Ohsl.Props.C17
