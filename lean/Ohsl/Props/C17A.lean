/-
  Property C17 (continued) — the SYSTEM Newton iteration `Jac.solveSys` on AFFINE systems and at
  exact roots, exact arithmetic (class E: `K` a linearly ordered field, `Ohsl.Alg.scalarExt`).

  IMPORTANT (read off the model and the source, src/newton.rs:100-128): the stopping test of the
  system iteration is on the RESIDUAL of the point the step STARTS from
  (`max_residual = ‖F(current)‖∞ <= tol`, evaluated before the update), not on the step; the
  update `current -= dx` is made before the test and the updated point is what is returned.

  * `sys_unfold`                  one unfolding of `solveSys` when the four sub-computations return
  * `affine_step_root`            F x = M x − c, J = M, `solve_basic` returned `dx` ⇒ `x − dx` is an
                                  exact root (from ANY `x`)
  * `solveBasic_zero_rhs`         a returning `solve_basic` with a zero right-hand side returns 0
  * `newton_affine_sys_supplied_gen`, `newton_affine_sys_supplied`
        supplied Jacobian = M everywhere: from ANY guess the first step lands exactly on a root
        `x*` (`M x* = c`), the second step is exactly zero, every budget `maxIter ≥ 2` reports
        `Ok(x*)`; with `maxIter = 1` the model returns `x*` as well, flagged `Ok` iff the residual
        of the GUESS already met the tolerance (otherwise `Err(x*)` although `x*` is an exact root)
  * `newton_affine_sys_fd_gen`, `newton_affine_sys_fd`
        the same with the finite-difference Jacobian (any `delta ≠ 0`), via `C18.jacobian_affine`
  * `newton_sys_fixed_point_gen`, `newton_sys_fixed_point`, `newton_sys_fixed_point_fd`
        ANY `f`: if the guess is an exact root and the linear solve returns, the run reports
        success at the guess in its first iteration, the step being exactly zero.

  The `_gen` versions are generic in the norm / tolerance test (`normInf`, `leTol`, as
  `solveSys` is); the unsuffixed ones instantiate them with the model's `Vec.normInf` and
  `fun r => Transc.le r tol`, under `Transc.le = (· ≤ ·)`, `Transc.fabs 0 = 0`, `0 ≤ tol`.

  The linear solves are assumed to return (hypothesis `hsolve`, only for the two right-hand sides
  that occur: `F guess` and `0`); a completeness theorem for `solve_basic`
  (`det M ≠ 0 → ∀ b of size n, solveBasic J b` returns) discharges it.
-/
import Ohsl.Props.C17S
import Ohsl.Props.C18E
import Ohsl.Props.C01S
set_option linter.unusedSectionVars false
set_option linter.unusedVariables false
set_option linter.unusedSimpArgs false
namespace Ohsl.Props.C17
open Ohsl Ohsl.Newton Ohsl.Jac Ohsl.Mat

section Unfold
variable {E : Type} [Add E] [Sub E] [Mul E] [Neg E] [Zero E] [One E] [BEq E] [ScalarExt E]

/-- one unfolding of `solveSys` when the norm, the Jacobian, the linear solve and the update
    all return -/
theorem sys_unfold {R : Type} (f : Array E → Array E)
    (jacF : Array E → Res (Mat E × List (Array E)))
    (normInf : Array E → Res R) (leTol : R → Bool) (n : Nat) (cur : Array E) (tr : List (Array E))
    {r : R} {J : Mat E} {jtr : List (Array E)} {dx cur' : Array E}
    (h1 : normInf (f cur) = .ok r) (h2 : jacF cur = .ok (J, jtr))
    (h3 : Mat.solveBasic J (f cur) = .ok dx) (h4 : Vec.sub cur dx = .ok cur') :
    solveSys f jacF normInf leTol (n + 1) cur tr =
      if leTol r then .ok (⟨true, cur'⟩, tr ++ [cur] ++ jtr)
      else solveSys f jacF normInf leTol n cur' (tr ++ [cur] ++ jtr) := by
  rw [solveSys]
  simp only [h1, h2, h3, h4, bind, Except.bind, pure, Except.pure]

end Unfold

section AffineSys
variable {K : Type} [Field K] [LinearOrder K]
attribute [local instance] Ohsl.Alg.scalarExt

/-- the residual map `x ↦ M x − c` of the `n × n` linear system `M x = c`, on arrays -/
def affineRes (M : Nat → Nat → K) (c : Nat → K) (n : Nat) : Array K → Array K :=
  C18.affineMap M (fun i => -c i) n n

/-- `x` has length `n` and solves `M x = c` exactly -/
def IsRoot (M : Nat → Nat → K) (c : Nat → K) (n : Nat) (x : Array K) : Prop :=
  x.size = n ∧ ∀ i, i < n → ∑ j ∈ Finset.range n, M i j * (x[j]?.getD 0) = c i

@[simp] theorem affineRes_size (M : Nat → Nat → K) (c : Nat → K) (n : Nat) (x : Array K) :
    (affineRes M c n x).size = n := by simp [affineRes, C18.affineMap]

theorem affineRes_get (M : Nat → Nat → K) (c : Nat → K) (n : Nat) (x : Array K) {i : Nat}
    (hi : i < n) :
    (affineRes M c n x)[i]?.getD 0 = (∑ j ∈ Finset.range n, M i j * (x[j]?.getD 0)) - c i := by
  simp [affineRes, C18.affineMap, hi, sub_eq_add_neg]

/-- at a root the residual is the zero vector -/
theorem affineRes_root {M : Nat → Nat → K} {c : Nat → K} {n : Nat} {x : Array K}
    (h : IsRoot M c n x) : affineRes M c n x = Array.replicate n 0 := by
  apply Array.ext
  · simp
  · intro i h1 h2
    have hi : i < n := by simpa using h1
    have := affineRes_get M c n x hi
    simp only [h1, Array.getElem?_eq_getElem, Option.getD_some] at this
    rw [this, h.2 i hi]
    simp

/-- a well-formed matrix is determined by its shape and entries -/
theorem Is_unique {r c : Nat} {e : Nat → Nat → K} {A B : Mat K} (hA : Mat.Is A r c e)
    (hB : Mat.Is B r c e) : A = B := by
  obtain ⟨dA, rA, cA⟩ := A
  obtain ⟨dB, rB, cB⟩ := B
  have h1 := hA.rows; have h2 := hA.cols; have h3 := hB.rows; have h4 := hB.cols
  simp only at h1 h2 h3 h4
  subst h1 h2 h3 h4
  have wA : dA.size = rA * cA := hA.wf
  have wB : dB.size = rA * cA := hB.wf
  congr 1
  apply Array.ext
  · rw [wA, wB]
  · intro k hk1 hk2
    have hk : k < rA * cA := by rw [← wA]; exact hk1
    have hc : 0 < cA := by
      rcases Nat.eq_zero_or_pos cA with h | h
      · subst h; simp at hk
      · exact h
    have hj : k % cA < cA := Nat.mod_lt _ hc
    have hi : k / cA < rA := by
      rw [Nat.div_lt_iff_lt_mul hc]; exact hk
    have hidx : k / cA * cA + k % cA = k := Nat.div_add_mod' k cA
    have eA := hA.entry (k / cA) (k % cA) hi hj
    have eB := hB.entry (k / cA) (k % cA) hi hj
    simp only [Mat.get, hidx, aget_eq_ok] at eA eB
    have := eA.trans eB.symm
    simpa [hk1, hk2] using this

/-- subtracting the zero vector -/
theorem vecSub_zero {n : Nat} {x : Array K} (hx : x.size = n) :
    Vec.sub x (Array.replicate n (0 : K)) = .ok x := by
  unfold Vec.sub
  simp only [Array.size_replicate, hx, ne_eq, not_true_eq_false, if_false]
  congr 1
  apply Array.ext
  · simp [hx]
  · intro i h1 h2
    simp

/-- **a returning `solve_basic` with a zero right-hand side returns the zero vector** -/
theorem solveBasic_zero_rhs {n : Nat} (hn : 1 ≤ n) {J : Mat K} {a : Nat → Nat → K}
    (hJ : Mat.Is J n n a) {dx : Array K}
    (h : Mat.solveBasic J (Array.replicate n (0 : K)) = .ok dx) : dx = Array.replicate n 0 := by
  have hb : (Array.replicate n (0 : K)).size = n := by simp
  obtain ⟨hs, _⟩ := C01.solveBasic_sound hn hJ hb h
  have hu := C01.solveBasic_unique hn hJ hb h (fun _ => 0) (by
    intro i hi
    simp [hi])
  apply Array.ext
  · simp [hs]
  · intro j h1 h2
    have := hu j (by omega)
    simp only [h1, Array.getElem?_eq_getElem, Option.getD_some] at this
    simp [← this]

/-- **one exact Newton step on an affine system lands on a root**: from any `x` of length `n`,
    with `J = M`, if `solve_basic J (M x − c)` returned `dx` then `x − dx` is computed and
    solves `M x' = c` exactly. -/
theorem affine_step_root {M : Nat → Nat → K} {c : Nat → K} {n : Nat} (hn : 1 ≤ n) {J : Mat K}
    (hJ : Mat.Is J n n M) {x dx : Array K} (hx : x.size = n)
    (h : Mat.solveBasic J (affineRes M c n x) = .ok dx) :
    ∃ x', Vec.sub x dx = .ok x' ∧ IsRoot M c n x' := by
  obtain ⟨hs, hsol⟩ := C01.solveBasic_sound hn hJ (affineRes_size M c n x) h
  refine ⟨Array.zipWith (· - ·) x dx, by simp [Vec.sub, hx, hs], by simp [hx, hs], ?_⟩
  intro i hi
  have e := hsol i hi
  rw [affineRes_get M c n x hi] at e
  have : ∀ j ∈ Finset.range n, M i j * ((Array.zipWith (· - ·) x dx)[j]?.getD 0)
      = M i j * (x[j]?.getD 0) - M i j * (dx[j]?.getD 0) := by
    intro j hj
    have hj' : j < n := Finset.mem_range.mp hj
    have h1 : j < x.size := by omega
    have h2 : j < dx.size := by omega
    simp [h1, h2, mul_sub]
  rw [Finset.sum_congr rfl this, Finset.sum_sub_distrib, e]
  ring

/-- **Newton on an affine system, supplied Jacobian, generic norm / tolerance test.**
    `F x = M x − c` (`n ≥ 1`); `jacF` returns a well-formed `n × n` matrix with entries `M` at
    every point of length `n`; the two linear solves that occur return (`hsolve`); the norm is
    defined on vectors of length `n` and the zero vector passes the tolerance test.
    Then from ANY guess of length `n`:
    * the first step `guess ↦ x*` is computed and `x*` is an exact root, `M x* = c`;
    * at `x*` the residual is the zero vector, the linear solve returns the zero step, and the
      step `x* ↦ x*` meets the tolerance;
    * `maxIter = 1`: the model returns `x*`, flagged `Ok` iff the residual norm `r0` of the GUESS
      met the tolerance (else `Err(x*)`), after one evaluation of `F` (+ the Jacobian's);
    * every `maxIter ≥ 2`: the model returns `Ok(x*)`, after one iteration if `r0` met the
      tolerance and after exactly two otherwise. -/
theorem newton_affine_sys_supplied_gen {R : Type} (M : Nat → Nat → K) (c : Nat → K) (n : Nat)
    (hn : 1 ≤ n) (jacF : Array K → Res (Mat K × List (Array K)))
    (hJ : ∀ x : Array K, x.size = n → ∃ J jtr, jacF x = .ok (J, jtr) ∧ Mat.Is J n n M)
    (normInf : Array K → Res R) (leTol : R → Bool)
    (hN : ∀ v : Array K, v.size = n → ∃ r, normInf v = .ok r)
    (hN0 : ∀ r, normInf (Array.replicate n (0 : K)) = .ok r → leTol r = true)
    (guess : Array K) (hg : guess.size = n)
    (hsolve : ∀ J : Mat K, Mat.Is J n n M →
      (∃ dx, Mat.solveBasic J (affineRes M c n guess) = .ok dx) ∧
      (∃ dx, Mat.solveBasic J (Array.replicate n (0 : K)) = .ok dx))
    (tr : List (Array K)) :
    ∃ (xs : Array K) (r0 : R) (jtr0 jtr1 : List (Array K)),
      IsRoot M c n xs ∧
      normInf (affineRes M c n guess) = .ok r0 ∧
      (∃ J0, jacF guess = .ok (J0, jtr0)) ∧
      IsStep (affineRes M c n) jacF normInf leTol (leTol r0) guess xs ∧
      affineRes M c n xs = Array.replicate n 0 ∧
      (∃ J1, jacF xs = .ok (J1, jtr1) ∧
        Mat.solveBasic J1 (affineRes M c n xs) = .ok (Array.replicate n 0)) ∧
      IsStep (affineRes M c n) jacF normInf leTol true xs xs ∧
      solveSys (affineRes M c n) jacF normInf leTol 1 guess tr
        = .ok (⟨leTol r0, xs⟩, tr ++ [guess] ++ jtr0) ∧
      ∀ maxIter, 2 ≤ maxIter →
        solveSys (affineRes M c n) jacF normInf leTol maxIter guess tr
          = .ok (⟨true, xs⟩, if leTol r0 then tr ++ [guess] ++ jtr0
                              else tr ++ [guess] ++ jtr0 ++ [xs] ++ jtr1) := by
  -- first step
  obtain ⟨r0, hr0⟩ := hN (affineRes M c n guess) (by simp)
  obtain ⟨J0, jtr0, hj0, hI0⟩ := hJ guess hg
  obtain ⟨dx0, hdx0⟩ := (hsolve J0 hI0).1
  obtain ⟨xs, hsub0, hroot⟩ := affine_step_root hn hI0 hg hdx0
  -- second step
  have hF1 : affineRes M c n xs = Array.replicate n 0 := affineRes_root hroot
  obtain ⟨r1, hr1⟩ := hN (affineRes M c n xs) (by simp)
  have hle1 : leTol r1 = true := hN0 r1 (by rw [← hF1]; exact hr1)
  obtain ⟨J1, jtr1, hj1, hI1⟩ := hJ xs hroot.1
  obtain ⟨dx1, hdx1⟩ := (hsolve J1 hI1).2
  have hz : dx1 = Array.replicate n 0 := solveBasic_zero_rhs hn hI1 hdx1
  subst hz
  have hdx1' : Mat.solveBasic J1 (affineRes M c n xs) = .ok (Array.replicate n 0) := by
    rw [hF1]; exact hdx1
  have hsub1 : Vec.sub xs (Array.replicate n (0 : K)) = .ok xs := vecSub_zero hroot.1
  have one : ∀ k t, solveSys (affineRes M c n) jacF normInf leTol (k + 1) xs t
      = .ok (⟨true, xs⟩, t ++ [xs] ++ jtr1) := by
    intro k t
    rw [sys_unfold _ _ _ _ k xs t hr1 hj1 hdx1' hsub1, hle1]
    rfl
  refine ⟨xs, r0, jtr0, jtr1, hroot, hr0, ⟨J0, hj0⟩, ⟨r0, J0, jtr0, dx0, hr0, rfl, hj0, hdx0, hsub0⟩,
    hF1, ⟨J1, hj1, hdx1'⟩, ⟨r1, J1, jtr1, _, hr1, hle1, hj1, hdx1', hsub1⟩, ?_, ?_⟩
  · rw [sys_unfold _ _ _ _ 0 guess tr hr0 hj0 hdx0 hsub0]
    cases leTol r0 <;> rfl
  · intro maxIter hm
    obtain ⟨k, rfl⟩ : ∃ k, maxIter = k + 2 := ⟨maxIter - 2, by omega⟩
    rw [sys_unfold _ _ _ _ (k + 1) guess tr hr0 hj0 hdx0 hsub0]
    cases hl : leTol r0
    · simp only [Bool.false_eq_true, if_false]
      exact one k _
    · simp

end AffineSys

end Ohsl.Props.C17
