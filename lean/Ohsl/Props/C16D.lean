/-
  Property C16 (part D) — threaded dot product: the chunks partition the index range and the
  threaded product is the sequential one re-associated (model: Ohsl/Model/Dot.lean).

  * `chunks_partition`   (S) the per-worker index ranges, concatenated in spawn order, are exactly
                         `0, 1, …, len-1` — every index once, in order, for every `len` and `w > 0`.
  * `partialSum_eq_fold_indices`, `dotThreaded_is_reassociation`
                         (S) no algebraic law: each worker folds the products of exactly its indices
                         from `0`, the partial sums are folded from `0` in spawn order.
  * `dotThreaded_eq_dot_of_laws` / `dotThreaded_eq_dot`
                         (E) with `+` associative and `0` a two-sided unit (an `AddMonoid`; NO
                         commutativity, nothing about `*`) the threaded product equals the
                         sequential left fold.  All three laws are needed: `0 + x = x` because every
                         worker (and the final reduction) starts from `0`, `x + 0 = x` because a
                         chunk may be empty (`len < w`), associativity for the regrouping.
                         IEEE `f64` addition is not associative, so for floats the threaded result
                         is only a re-association of the sequential one (see
                         `dotThreaded_is_reassociation`).
-/
import Ohsl.Props.C16
import Mathlib.Algebra.Group.Defs
set_option linter.unusedSectionVars false
set_option linter.unusedVariables false
namespace Ohsl.Props.C16
open Ohsl Ohsl.Dot

/-! ### the chunks partition `range len` -/

/-- the first `m` full-width blocks of width `c` cover `0 … m*c-1` -/
theorem blocks_flatMap (c m : Nat) :
    (List.range m).flatMap (fun i => List.range' (i * c) c) = List.range (m * c) := by
  induction m with
  | zero => simp
  | succ m ih =>
    rw [List.range_succ, List.flatMap_append, ih, List.range_eq_range', List.range_eq_range']
    have : (m + 1) * c = m * c + c := by rw [Nat.succ_mul]
    rw [this, ← List.range'_append (s := 0) (m := m * c) (n := c) (step := 1)]
    simp

/-- the index ranges of the chunks, as a function of the worker index -/
theorem chunks_flatMap_eq (len w : Nat) (hw : 0 < w) :
    (chunks len w).flatMap (fun se => List.range' se.1 (se.2 - se.1))
      = (List.range (w - 1)).flatMap (fun i => List.range' (i * (len / w)) (len / w))
        ++ List.range' ((w - 1) * (len / w)) (len - (w - 1) * (len / w)) := by
  obtain ⟨m, rfl⟩ : ∃ m, w = m + 1 := ⟨w - 1, by omega⟩
  simp only [chunks, List.flatMap_map, Nat.add_sub_cancel]
  rw [List.range_succ, List.flatMap_append]
  congr 1
  · simp only [List.flatMap_def]
    congr 1
    apply List.map_congr_left
    intro i hi
    have hne : ¬ i = m := by
      have := List.mem_range.mp hi
      omega
    simp [chunk, hne, Nat.succ_mul]
  · simp [chunk]

/-- **C16 partition**: the chunks cover every index of `0 … len-1` exactly once, in order —
for every length (0, 1, `< w`, `= w`, not divisible by `w`, …) and every worker count `w > 0`. -/
theorem chunks_partition (len w : Nat) (hw : 0 < w) :
    (chunks len w).flatMap (fun se => List.range' se.1 (se.2 - se.1)) = List.range len := by
  rw [chunks_flatMap_eq len w hw, blocks_flatMap]
  have hq : w * (len / w) ≤ len := Nat.mul_div_le len w
  have h1 : (w - 1) * (len / w) ≤ w * (len / w) := Nat.mul_le_mul_right _ (by omega)
  rw [List.range_eq_range', List.range_eq_range']
  have := List.range'_append (s := 0) (m := (w - 1) * (len / w))
    (n := len - (w - 1) * (len / w)) (step := 1)
  simp only [Nat.zero_add, Nat.one_mul] at this
  rw [this]
  congr 1
  omega

/-! ### each worker folds the products of exactly its own indices (no algebraic law) -/

section structural
variable {K : Type} [Add K] [Mul K] [Zero K]

/-- a slice of an array, listed by index -/
theorem extract_toList_eq_map_range' (P : Array K) (d : K) (s e : Nat) (he : e ≤ P.size) :
    (P.extract s e).toList = (List.range' s (e - s)).map (fun j => P.getD j d) := by
  apply List.ext_getElem
  · simp; omega
  · intro i h1 h2
    simp at h1 h2
    have : s + i < P.size := by omega
    simp [Array.getD, this]

/-- the whole array, listed by index -/
theorem toList_eq_map_range (P : Array K) (d : K) :
    P.toList = (List.range P.size).map (fun j => P.getD j d) := by
  have := extract_toList_eq_map_range' P d 0 P.size (Nat.le_refl _)
  simpa [List.range_eq_range'] using this

/-- the partial sum of a worker is the left fold, from `0`, of the slice `s … e-1` of the
element-wise products -/
theorem partialSum_eq_extract (a b : Array K) (se : Nat × Nat) :
    partialSum a b se = ((Array.zipWith (· * ·) a b).extract se.1 se.2).foldl (· + ·) 0 := by
  rw [partialSum, Array.extract_zipWith]

/-- (S) the partial sum of the worker owning `s … e-1` (`e ≤ len`) is the left fold from `0`, in
index order, of the products `a[j] * b[j]` of exactly the indices `j = s, …, e-1`. -/
theorem partialSum_eq_fold_indices (a b : Array K) (h : a.size = b.size) (se : Nat × Nat)
    (he : se.2 ≤ a.size) :
    partialSum a b se
      = ((List.range' se.1 (se.2 - se.1)).map (fun j => a.getD j 0 * b.getD j 0)).foldl (· + ·) 0 := by
  have hP : (Array.zipWith (fun x y : K => x * y) a b).size = a.size := by simp [h]
  rw [partialSum_eq_extract, ← Array.foldl_toList,
    extract_toList_eq_map_range' _ (0 : K) se.1 se.2 (by omega)]
  congr 1
  apply List.map_congr_left
  intro j hj
  have hj' : j < a.size := by
    have := List.mem_range'_1.mp hj
    omega
  have hjb : j < b.size := by omega
  have hmin : j < min a.size b.size := by omega
  simp [Array.getD, hj', hjb, hmin]

/-- (S) **the threaded product is a re-association of the sequential one**, for arbitrary
`+`, `*`, `0` (so also for IEEE floats): the result is the left fold from `0`, in spawn order, of the
workers' partial sums, and the partial sum of worker `i` is the left fold from `0`, in index order,
of the products `a[j] * b[j]` over exactly the indices of chunk `i` (which by `chunks_partition`
tile `0 … len-1` in order). -/
theorem dotThreaded_is_reassociation (w : Nat) (a b : Array K) (hw : 0 < w) (h : a.size = b.size) :
    dotThreaded w a b = .ok (((chunks a.size w).map (partialSum a b)).foldl (· + ·) 0)
    ∧ ∀ i, i < w →
        partialSum a b (chunk a.size w i)
          = ((List.range' (chunk a.size w i).1 ((chunk a.size w i).2 - (chunk a.size w i).1)).map
              (fun j => a.getD j 0 * b.getD j 0)).foldl (· + ·) 0 := by
  refine ⟨?_, fun i hi => ?_⟩
  · have : ¬ w = 0 := by omega
    simp [dotThreaded, h, this]
  · exact partialSum_eq_fold_indices a b h _ (chunk_valid a.size w i hw hi).2

/-- (S) the list of partial sums, written over the index lists of the chunks -/
theorem partialSums_eq (w : Nat) (a b : Array K) (hw : 0 < w) (h : a.size = b.size) :
    (chunks a.size w).map (partialSum a b)
      = ((chunks a.size w).map (fun se => (List.range' se.1 (se.2 - se.1)).map
          (fun j => a.getD j 0 * b.getD j 0))).map (fun l => l.foldl (· + ·) 0) := by
  rw [List.map_map]
  apply List.map_congr_left
  intro se hse
  simp only [chunks, List.mem_map, List.mem_range] at hse
  obtain ⟨i, hi, rfl⟩ := hse
  exact partialSum_eq_fold_indices a b h _ (chunk_valid a.size w i hw hi).2

/-! ### with an associative `+` and a two-sided `0` the threaded product is the sequential one -/

/-- left fold from `s` = `s +` left fold from `0` -/
theorem foldl_add_start (hassoc : ∀ x y z : K, x + y + z = x + (y + z))
    (hz : ∀ x : K, 0 + x = x) (hz' : ∀ x : K, x + 0 = x) (l : List K) (s : K) :
    l.foldl (· + ·) s = s + l.foldl (· + ·) 0 := by
  induction l generalizing s with
  | nil => simp [hz']
  | cons x l ih =>
    simp only [List.foldl_cons]
    rw [ih (s + x), ih (0 + x), hz, hassoc]

/-- summing the sums of the blocks = summing the concatenation -/
theorem foldl_map_foldl (hassoc : ∀ x y z : K, x + y + z = x + (y + z))
    (hz : ∀ x : K, 0 + x = x) (hz' : ∀ x : K, x + 0 = x) (L : List (List K)) (s : K) :
    (L.map (fun l => l.foldl (· + ·) 0)).foldl (· + ·) s = L.flatten.foldl (· + ·) s := by
  induction L generalizing s with
  | nil => simp
  | cons l L ih =>
    simp only [List.map_cons, List.foldl_cons, List.flatten_cons, List.foldl_append]
    rw [ih, ← foldl_add_start hassoc hz hz' l s]

/-- (E) **threaded = sequential**, under the weakest hypotheses: `+` associative and `0` a
two-sided unit for `+` (no commutativity — the order of the terms is preserved — and no law for
`*`).  Holds for every length and every positive worker count. -/
theorem dotThreaded_eq_dot_of_laws (hassoc : ∀ x y z : K, x + y + z = x + (y + z))
    (hz : ∀ x : K, 0 + x = x) (hz' : ∀ x : K, x + 0 = x)
    (w : Nat) (a b : Array K) (hw : 0 < w) (h : a.size = b.size) :
    dotThreaded w a b = .ok ((Array.zipWith (· * ·) a b).foldl (· + ·) 0) := by
  rw [(dotThreaded_is_reassociation w a b hw h).1, partialSums_eq w a b hw h,
    foldl_map_foldl hassoc hz hz', ← List.flatMap_def, ← List.map_flatMap,
    chunks_partition a.size w hw, ← Array.foldl_toList]
  have hP : (Array.zipWith (fun x y : K => x * y) a b).size = a.size := by simp [h]
  rw [toList_eq_map_range _ (0 : K), hP]
  congr 2
  apply List.map_congr_left
  intro j hj
  have hj' : j < a.size := List.mem_range.mp hj
  have hjb : j < b.size := by omega
  have hmin : j < min a.size b.size := by omega
  simp [Array.getD, hj', hjb, hmin]

end structural

/-- (E) **C16**: over an additive monoid (not necessarily commutative; `*` arbitrary) the threaded
dot product equals the sequential one, for every length and every worker count `w > 0`. -/
theorem dotThreaded_eq_dot {K : Type} [AddMonoid K] [Mul K]
    (w : Nat) (a b : Array K) (hw : 0 < w) (h : a.size = b.size) :
    dotThreaded w a b = .ok ((Array.zipWith (· * ·) a b).foldl (· + ·) 0) :=
  dotThreaded_eq_dot_of_laws add_assoc zero_add add_zero w a b hw h

/-- the result depends on `(w, a, b)` only through the chunk list: any two worker counts give the
same value (over an additive monoid) -/
theorem dotThreaded_worker_independent {K : Type} [AddMonoid K] [Mul K]
    (w w' : Nat) (a b : Array K) (hw : 0 < w) (hw' : 0 < w') (h : a.size = b.size) :
    dotThreaded w a b = dotThreaded w' a b := by
  rw [dotThreaded_eq_dot w a b hw h, dotThreaded_eq_dot w' a b hw' h]

/-- sanity: non-trivial instances (length 5, 3 workers: chunk sizes 1,1,3; length 2 < 3 workers:
two empty chunks) -/
example : chunks 5 3 = [(0, 1), (1, 2), (2, 5)] := by decide
example : chunks 2 3 = [(0, 0), (0, 0), (0, 2)] := by decide
example : chunks 0 4 = [(0, 0), (0, 0), (0, 0), (0, 0)] := by decide
example : dotThreaded 3 (#[1, 2, 3, 4, 5] : Array Nat) #[6, 7, 8, 9, 10] = .ok 130 := by
  simp [dotThreaded, chunks, chunk, partialSum, List.range, List.range.loop]

end Ohsl.Props.C16
