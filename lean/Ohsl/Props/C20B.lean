/-
  Property C20 (part B) — completion of the rejection clauses of C20.lean.
  Class (S): every theorem holds for ANY scalar type with arbitrary operations.
-/
import Ohsl.Props.C20
import Ohsl.Props.C20K
import Ohsl.Props.C05A
import Ohsl.Props.C06W
import Ohsl.Props.C10
import Ohsl.Props.C12
import Ohsl.Props.C19A
import Ohsl.Lemmas.MatIdx
import Ohsl.Lemmas.BandSpec
import Ohsl.Lemmas.SolveSound
import Ohsl.Model.Inst
set_option linter.unusedSectionVars false
set_option linter.unusedVariables false
set_option linter.unusedSimpArgs false
namespace Ohsl.Props.C20
open Ohsl
variable {K : Type} [Add K] [Sub K] [Mul K] [Neg K] [Zero K] [One K] [BEq K] [ScalarExt K]

/-! ## (a) the solver clause at full strength -/

/-- `solve_basic` / `solve_lu`: a right-hand side of the wrong length OR a non-square matrix is
    rejected; the class is `size` for both disjuncts (the length test comes first in the code, the
    squareness test second, both raise the same class). -/
theorem rejects_solvers_full (m : Mat K) (b : Array K) (h : m.rows ≠ b.size ∨ m.rows ≠ m.cols) :
    Mat.solveBasic m b = .error .size ∧ Mat.solveLU m b = .error .size :=
  ⟨C01.solveBasic_rejects m b h, C01.solveLU_rejects m b h⟩

/-- the hypothesis of `rejects_solvers_full` is satisfiable by a SQUARE matrix (the case the
    clause of C20.lean missed) -/
example : Mat.solveBasic (Mat.new 2 2 (1 : Rat)) #[(1 : Rat)] = .error .size ∧
    Mat.solveLU (Mat.new 2 2 (1 : Rat)) #[(1 : Rat)] = .error .size :=
  rejects_solvers_full _ _ (Or.inl (by simp [Mat.new]))

/-- the LU factorisation, the determinant and the inverse reject a non-square matrix, class `size` -/
theorem rejects_lu_det_inv (m : Mat K) (h : m.rows ≠ m.cols) :
    Mat.luDecomp m = .error .size ∧ Mat.determinant m = .error .size ∧
    Mat.inverse m = .error .size :=
  ⟨by simp [Mat.luDecomp, h], C02.determinant_rejects m h, C02.inverse_rejects m h⟩

/-- a system of order 0 is rejected by both solvers (`rows - 1` underflows in `usize`) -/
theorem rejects_solvers_order0 (m : Mat K) (b : Array K) (h0 : m.rows = 0) (hc : m.cols = 0)
    (hb : b.size = 0) :
    Mat.solveBasic m b = .error .arith ∧ Mat.solveLU m b = .error .arith := by
  refine ⟨C01.solveBasic_order0 m b h0 hc hb, ?_⟩
  have hb' : b = #[] := Array.eq_empty_of_size_eq_zero hb
  subst hb'
  simp [Mat.solveLU, h0, hc, Mat.luDecomp, Mat.eye, Mat.forM', Mat.mulVec, Mat.new, Mat.forwardSub,
    Mat.backsolve, usub, bind, Except.bind, pure, Except.pure]

/-! ## helpers: what a successful monadic step tells -/

theorem bind_ok_inv {α β : Type} {x : Res α} {f : α → Res β} {b : β} (h : (x >>= f) = .ok b) :
    ∃ a, x = .ok a ∧ f a = .ok b := by
  cases x with
  | error e => cases h
  | ok a => exact ⟨a, rfl, h⟩

theorem aset_size {α : Type} {a a' : Array α} {i : Nat} {v : α} (h : aset a i v = .ok a') :
    a'.size = a.size := by
  unfold aset at h
  split at h
  · cases h; simp
  · cases h

/-! ## (b) Vector -/

/-- the checked slice read / write and the `usize` subtraction every other guard is built from -/
theorem rejects_primitives {α : Type} (a : Array α) (i : Nat) (v : α) (x y : Nat) :
    (a.size ≤ i → aget a i = .error .range ∧ aset a i v = .error .range) ∧
    (x < y → usub x y = .error .arith) := by
  refine ⟨fun h => ⟨Mat.aget_err h, Mat.aset_err v h⟩, fun h => ?_⟩
  have : ¬ y ≤ x := by omega
  simp [usub, this]

theorem rejects_vector_more (a b : Array K) (i j : Nat) (v : K) :
    (a.size ≠ b.size → Vec.addAssign a b = .error .size ∧ Vec.subAssign a b = .error .size) ∧
    ((a.size ≤ i ∨ a.size ≤ j) → Vec.swap a i j = .error .range) ∧
    (a.size = 0 → Vec.sum a = .error .arith ∧ Vec.product a = .error .arith ∧
      Vec.find a v = .error .arith ∧ Vec.pop a = .error .unwrap) := by
  refine ⟨fun h => ⟨(C15.binary_rejects a b h).1, (C15.binary_rejects a b h).2.1⟩, fun h => ?_,
    fun h => ?_⟩
  · unfold Vec.swap
    by_cases hi : a.size ≤ i
    · simp [Mat.aget_err hi, bind, Except.bind]
    · have hi' : i < a.size := by omega
      have hj : a.size ≤ j := h.resolve_left hi
      simp [Mat.aget_ok hi', Mat.aget_err hj, bind, Except.bind]
  · have ha : a = #[] := Array.eq_empty_of_size_eq_zero h
    subst ha
    refine ⟨by simp [Vec.sum, usub, bind, Except.bind], by simp [Vec.product, usub, bind, Except.bind],
      by simp [Vec.find, usub], by simp [Vec.pop]⟩

/-- a successful `swap` returns a vector of the same length -/
theorem vec_swap_keeps_shape (a a' : Array K) (i j : Nat) (h : Vec.swap a i j = .ok a') :
    a'.size = a.size := by
  unfold Vec.swap at h
  obtain ⟨x, _, h⟩ := bind_ok_inv h
  obtain ⟨y, _, h⟩ := bind_ok_inv h
  obtain ⟨a1, h3, h⟩ := bind_ok_inv h
  rw [aset_size h, aset_size h3]

section F64
variable [Div K] [Transc K]

/-- `norm_inf` of an empty vector reads `vec[0]`: rejected (real and complex vectors) -/
theorem rejects_normInf {α : Type} (absf : α → K) (e : Array α) (a : Array K) (c : Array (Cx K)) :
    (e.size = 0 → Vec.normInfBy absf e = .error .range) ∧
    (a.size = 0 → Vec.normInf a = .error .range) ∧ (c.size = 0 → Vec.normInfC c = .error .range) := by
  have key : ∀ {β : Type} (g : β → K) (w : Array β), w.size = 0 → Vec.normInfBy g w = .error .range := by
    intro β g w hw
    have : w = #[] := Array.eq_empty_of_size_eq_zero hw
    subst this
    simp [Vec.normInfBy]
  exact ⟨key absf e, key _ a, key _ c⟩

end F64

/-! ## (b) dense matrix -/

/-- raw index operators and `swap_elem`: only the flat offset is checked (outside the claim of
    C20 as far as the per-dimension ranges go), but an offset outside the buffer is rejected -/
theorem rejects_matrix_raw (m : Mat K) (i j i2 j2 : Nat) (v : K) :
    (m.data.size ≤ i * m.cols + j → m.get i j = .error .range ∧ m.set i j v = .error .range) ∧
    ((m.data.size ≤ i * m.cols + j ∨ m.data.size ≤ i2 * m.cols + j2) →
      Mat.swapElem m i j i2 j2 = .error .range) := by
  refine ⟨fun h => ⟨Mat.aget_err h, Mat.set_err v h⟩, fun h => ?_⟩
  unfold Mat.swapElem Mat.get
  by_cases h1 : m.data.size ≤ i * m.cols + j
  · simp [Mat.aget_err h1, bind, Except.bind]
  · have h1' : i * m.cols + j < m.data.size := by omega
    have h2 : m.data.size ≤ i2 * m.cols + j2 := h.resolve_left h1
    simp [Mat.aget_ok h1', Mat.aget_err h2, bind, Except.bind]

/-- exact classes of the two guards of `set_row` / `set_col` (C20.lean: `∃ e`), and the second
    guard of `delete_row` (a buffer shorter than `rows * cols`) -/
theorem rejects_matrix_classes (m : Mat K) (k : Nat) (v : Array K) :
    (v.size ≠ m.cols → Mat.setRow m k v = .error .size) ∧
    (v.size = m.cols → m.rows ≤ k → Mat.setRow m k v = .error .range) ∧
    (v.size ≠ m.rows → Mat.setCol m k v = .error .size) ∧
    (v.size = m.rows → m.cols ≤ k → Mat.setCol m k v = .error .range) ∧
    (k < m.rows → m.data.size < (k + 1) * m.cols → Mat.deleteRow m k = .error .range) := by
  refine ⟨fun h => by simp [Mat.setRow, h], fun h1 h2 => by simp [Mat.setRow, h1, h2],
    fun h => by simp [Mat.setCol, h], fun h1 h2 => by simp [Mat.setCol, h1, h2], fun h1 h2 => ?_⟩
  have h1' : ¬ m.rows ≤ k := by omega
  simp [Mat.deleteRow, h1', h2]

/-- same `rows`, `cols` and buffer length -/
def SameShapeM (m m' : Mat K) : Prop :=
  m'.rows = m.rows ∧ m'.cols = m.cols ∧ m'.data.size = m.data.size

theorem SameShapeM.refl (m : Mat K) : SameShapeM m m := ⟨rfl, rfl, rfl⟩

theorem SameShapeM.trans {a b c : Mat K} (h1 : SameShapeM a b) (h2 : SameShapeM b c) :
    SameShapeM a c :=
  ⟨h2.1.trans h1.1, h2.2.1.trans h1.2.1, h2.2.2.trans h1.2.2⟩

theorem mat_set_keeps_shape {m m' : Mat K} {i j : Nat} {v : K} (h : m.set i j v = .ok m') :
    SameShapeM m m' := by
  unfold Mat.set at h
  obtain ⟨d, h1, h2⟩ := bind_ok_inv h
  cases h2
  exact ⟨rfl, rfl, aset_size h1⟩

/-- a loop whose successful iterations keep the shape keeps the shape -/
theorem loop_keeps_shape {m m' : Mat K} (lo hi : Nat) (f : Mat K → Nat → Res (Mat K))
    (hf : ∀ s i s1, f s i = .ok s1 → SameShapeM s s1) (h : Mat.forM' lo hi m f = .ok m') :
    SameShapeM m m' := by
  by_cases hle : lo ≤ hi
  · exact Mat.forM'_ok_inv (fun _ s => SameShapeM m s) lo hi m m' f hle (SameShapeM.refl m)
      (fun i s s1 _ _ hp hs => hp.trans (hf s i s1 hs)) h
  · rw [Mat.forM'_empty lo hi m f (by omega)] at h
    cases h
    exact SameShapeM.refl m

theorem mat_swapElem_keeps_shape {m m' : Mat K} {r1 c1 r2 c2 : Nat}
    (h : Mat.swapElem m r1 c1 r2 c2 = .ok m') : SameShapeM m m' := by
  unfold Mat.swapElem at h
  obtain ⟨x, _, h⟩ := bind_ok_inv h
  obtain ⟨y, _, h⟩ := bind_ok_inv h
  obtain ⟨m1, h3, h⟩ := bind_ok_inv h
  exact (mat_set_keeps_shape h3).trans (mat_set_keeps_shape h)

/-- every writing entry point of the dense matrix: on success the shape (`rows`, `cols`, buffer
    length) is unchanged; on rejection nothing is returned (the result is `.error _`) -/
theorem mat_keeps_shape (m m' : Mat K) (i j i2 j2 : Nat) (v : K) (w : Array K) :
    (m.set i j v = .ok m' → SameShapeM m m') ∧
    (Mat.swapElem m i j i2 j2 = .ok m' → SameShapeM m m') ∧
    (Mat.swapRows m i i2 = .ok m' → SameShapeM m m') ∧
    (Mat.setRow m i w = .ok m' → SameShapeM m m') ∧
    (Mat.setCol m j w = .ok m' → SameShapeM m m') ∧
    (Mat.fillRow m i v = .ok m' → SameShapeM m m') ∧
    (Mat.fillCol m j v = .ok m' → SameShapeM m m') := by
  refine ⟨mat_set_keeps_shape, mat_swapElem_keeps_shape, fun h => ?_, fun h => ?_, fun h => ?_,
    fun h => ?_, fun h => ?_⟩
  · unfold Mat.swapRows at h
    split at h
    · cases h
    · exact loop_keeps_shape _ _ _ (fun s k s1 hs => mat_swapElem_keeps_shape hs) h
  · unfold Mat.setRow at h
    split at h
    · cases h
    · split at h
      · cases h
      · refine loop_keeps_shape _ _ _ (fun s k s1 hs => ?_) h
        obtain ⟨x, _, hs⟩ := bind_ok_inv hs
        obtain ⟨d, h2, hs⟩ := bind_ok_inv hs
        cases hs
        exact ⟨rfl, rfl, aset_size h2⟩
  · unfold Mat.setCol at h
    split at h
    · cases h
    · split at h
      · cases h
      · refine loop_keeps_shape _ _ _ (fun s k s1 hs => ?_) h
        obtain ⟨x, _, hs⟩ := bind_ok_inv hs
        exact mat_set_keeps_shape hs
  · unfold Mat.fillRow at h
    split at h
    · cases h
    · exact loop_keeps_shape _ _ _ (fun s k s1 hs => mat_set_keeps_shape hs) h
  · unfold Mat.fillCol at h
    split at h
    · cases h
    · exact loop_keeps_shape _ _ _ (fun s k s1 hs => mat_set_keeps_shape hs) h

/-! ## (b) banded matrix -/

/-- the index operator tests the band only; a row beyond `n` is caught by the compact buffer
    (`n` rows of `m1 + m2 + 1` slots), class `range` in both cases -/
theorem rejects_banded_rows (b : Band K) (hwf : b.compact.data.size = b.n * b.compact.cols)
    (i j : Nat) (x : K) (hi : b.n ≤ i) :
    Band.get b i j = .error .range ∧ Band.set b i j x = .error .range := by
  have hle : b.n * b.compact.cols ≤ i * b.compact.cols := Nat.mul_le_mul_right _ hi
  have hoff : b.compact.data.size ≤ i * b.compact.cols + (b.m1 + j - i) := by omega
  constructor
  · unfold Band.get
    split
    · rfl
    · exact Mat.aget_err hoff
  · unfold Band.set
    split
    · rfl
    · simp [Mat.set_err x hoff, bind, Except.bind]

/-- more sub-diagonals than rows: `decompose`, `det` and `solve` are rejected (first-phase shift
    reads outside the compact buffer) -/
theorem rejects_banded_wide (b : Band K) (h : Band.WFb b) (hm : b.n < b.m1) (rhs : Array K)
    (hr : rhs.size = b.n) :
    Band.decompose b = .error .range ∧ Band.det b = .error .range ∧
    Band.solve b rhs = .error .range :=
  ⟨Band.decompose_rejects h hm, Band.det_rejects h hm, Band.solve_rejects_m1 h hm rhs hr⟩

/-- writes to a banded matrix: on success `(n, m1, m2)` and the shape of the compact storage are
    unchanged -/
theorem band_keeps_shape (b b' : Band K) (i j : Nat) (band : Int) (x : K) :
    (Band.set b i j x = .ok b' →
      b'.n = b.n ∧ b'.m1 = b.m1 ∧ b'.m2 = b.m2 ∧ SameShapeM b.compact b'.compact) ∧
    (Band.fillBand b band x = .ok b' →
      b'.n = b.n ∧ b'.m1 = b.m1 ∧ b'.m2 = b.m2 ∧ SameShapeM b.compact b'.compact) := by
  constructor
  · intro h
    unfold Band.set at h
    split at h
    · cases h
    · obtain ⟨c, h1, h2⟩ := bind_ok_inv h
      cases h2
      exact ⟨rfl, rfl, rfl, mat_set_keeps_shape h1⟩
  · intro h
    unfold Band.fillBand at h
    split at h
    · cases h
    · obtain ⟨c, h1, h2⟩ := bind_ok_inv h
      cases h2
      exact ⟨rfl, rfl, rfl, (mat_keeps_shape b.compact c 0 _ 0 0 x #[]).2.2.2.2.2.2 h1⟩

/-! ## (b) tridiagonal matrix -/

/-- every guard of `Tridiagonal` that C20.lean does not state (no storage invariant needed) -/
theorem rejects_tridiagonal_more (t a b : Tri K) (i j : Nat) (v x y z : K) (sub main sup : Array K) :
    ((t.n ≤ i ∨ t.n ≤ j ∨ (i ≠ j ∧ i ≠ j + 1 ∧ i + 1 ≠ j)) →
      Tri.get t i j = .error .range ∧ Tri.set t i j v = .error .range) ∧
    (a.n ≠ b.n → Tri.add a b = .error .size ∧ Tri.sub' a b = .error .size) ∧
    (main.size = 0 → Tri.withVecs sub main sup = .error .arith) ∧
    (1 ≤ main.size → (sub.size ≠ main.size - 1 ∨ sup.size ≠ main.size - 1) →
      Tri.withVecs sub main sup = .error .size) ∧
    Tri.new (K := K) 0 = .error .arith ∧ Tri.withElements x y z 0 = .error .arith ∧
    ((t.main.size = 0 ∨ t.n = 0) → Tri.det t = .error .range) ∧
    (t.n = 0 → Tri.convert t = .error .range) := by
  refine ⟨fun h => ?_, fun h => ⟨C05.add_guard a b h, C05.sub_guard a b h⟩,
    C05.withVecs_guard_empty sub main sup, C05.withVecs_guard_size sub main sup,
    C05.new_guard, C05.withElements_guard x y z, fun h => ?_, C05.convert_guard t⟩
  · have h' : t.n ≤ i ∨ t.n ≤ j ∨ ¬ C05.inBand i j := by
      unfold C05.inBand; omega
    exact ⟨C05.get_guard t i j h', C05.set_guard t i j v h'⟩
  · unfold Tri.det
    by_cases h0 : t.main.size = 0
    · simp [Mat.aget_err (show t.main.size ≤ 0 by omega), bind, Except.bind]
    · have hn : t.n = 0 := h.resolve_left h0
      simp [Mat.aget_ok (show 0 < t.main.size by omega), hn, bind, Except.bind]

/-- a successful element write keeps `n` and the lengths of the three diagonals -/
theorem tri_set_keeps_shape (t t' : Tri K) (i j : Nat) (v : K) (h : Tri.set t i j v = .ok t') :
    t'.n = t.n ∧ t'.main.size = t.main.size ∧ t'.sub.size = t.sub.size ∧
    t'.sup.size = t.sup.size := by
  unfold Tri.set at h
  split at h
  · cases h
  · split at h
    · obtain ⟨a, h1, h2⟩ := bind_ok_inv h
      cases h2
      exact ⟨rfl, aset_size h1, rfl, rfl⟩
    · split at h
      · obtain ⟨a, h1, h2⟩ := bind_ok_inv h
        cases h2
        exact ⟨rfl, rfl, aset_size h1, rfl⟩
      · split at h
        · obtain ⟨a, h1, h2⟩ := bind_ok_inv h
          cases h2
          exact ⟨rfl, rfl, rfl, aset_size h1⟩
        · cases h

/-! ## (b) sparse matrix -/

theorem rejects_sparse_more (s : Sp K) (rows cols r c : Nat) (v : K) (ts : List (Nat × Nat × K))
    (val : Array K) (ri cs : Array Nat) :
    ((∃ t, t ∈ ts ∧ ¬ (t.1 < rows ∧ t.2.1 < cols)) → Sp.fromTriplets rows cols ts = .error .range) ∧
    (cs.size = 0 → Sp.fromVecs rows cols val ri cs = .error .arith) ∧
    ((s.rows ≤ r ∨ s.cols ≤ c ∨ s.colStart.size ≤ c) →
      Sp.get s r c = .error .range ∧ Sp.insert s r c v = .error .range) ∧
    (s.nonzero ≠ 0 → s.colStart.size < s.cols + 1 → Sp.colIndex s = .error .range) := by
  refine ⟨C06.fromTriplets_rejects rows cols ts, fun h => ?_, fun h => ⟨?_, ?_⟩, fun h1 h2 => ?_⟩
  · simp [Sp.fromVecs, usub, h, bind, Except.bind]
  · unfold Sp.get
    split
    · rfl
    · split
      · rfl
      · split
        · rfl
        · exfalso; omega
  · unfold Sp.insert
    split
    · rfl
    · split
      · rfl
      · split
        · rfl
        · exfalso; omega
  · simp [Sp.colIndex, h1, h2]

theorem fromTriplets_shape {rows cols : Nat} {ts : List (Nat × Nat × K)} {s : Sp K}
    (h : Sp.fromTriplets rows cols ts = .ok s) : s.rows = rows ∧ s.cols = cols := by
  unfold Sp.fromTriplets at h
  obtain ⟨acc, _, h⟩ := bind_ok_inv h
  obtain ⟨ri, ci, vs⟩ := acc
  obtain ⟨cs, _, h⟩ := bind_ok_inv h
  cases h
  exact ⟨rfl, rfl⟩

/-- a successful `insert` keeps the dimensions of the matrix -/
theorem sparse_insert_keeps_shape (s s' : Sp K) (r c : Nat) (v : K)
    (h : Sp.insert s r c v = .ok s') : s'.rows = s.rows ∧ s'.cols = s.cols := by
  unfold Sp.insert at h
  split at h
  · cases h
  · split at h
    · cases h
    · split at h
      · cases h
      · obtain ⟨ci, _, h⟩ := bind_ok_inv h
        obtain ⟨hit, _, h⟩ := bind_ok_inv h
        cases hit with
        | some k =>
          obtain ⟨vs, _, h⟩ := bind_ok_inv h
          cases h
          exact ⟨rfl, rfl⟩
        | none =>
          obtain ⟨ts, _, h⟩ := bind_ok_inv h
          exact fromTriplets_shape h

/-! ## (b) meshes -/
section Mesh
variable {T X : Type} [Zero T]

/-- partial-correctness loop rule for a state predicate -/
theorem loop_preserves {σ : Type} (P : σ → Prop) (lo hi : Nat) (s s' : σ) (f : σ → Nat → Res σ)
    (hf : ∀ s i s1, P s → f s i = .ok s1 → P s1) (h0 : P s)
    (h : Mat.forM' lo hi s f = .ok s') : P s' := by
  by_cases hle : lo ≤ hi
  · exact Mat.forM'_ok_inv (fun _ s => P s) lo hi s s' f hle h0
      (fun i s s1 _ _ hp hs => hf s i s1 hp hs) h
  · rw [Mat.forM'_empty lo hi s f (by omega)] at h
    cases h
    exact h0

/-- the "write one variable of one node" block keeps the number of stored node vectors -/
theorem poke_size {vs vs' : Array (Array T)} {a w : Nat} {x : T}
    (h : (do let row ← aget vs a; let row ← aset row w x; aset vs a row : Res (Array (Array T)))
      = .ok vs') : vs'.size = vs.size := by
  obtain ⟨row, _, h⟩ := bind_ok_inv h
  obtain ⟨row', _, h⟩ := bind_ok_inv h
  exact aset_size h

/-- 1-D mesh: coordinates, raw node access, and the exact classes of `set_nodes_vars`
    (node test first: `range`; then the length test: `size`) -/
theorem rejects_mesh1_more (m : Mesh1 T X) (node : Nat) (v : Array T) :
    (m.nodes.size ≤ node → Mesh1.coord m node = .error .range) ∧
    (m.vars.size ≤ node → Mesh1.index m node = .error .range) ∧
    (m.nodes.size ≤ node → Mesh1.setNodesVars m node v = .error .range) ∧
    (node < m.nodes.size → v.size ≠ m.nvars → Mesh1.setNodesVars m node v = .error .size) := by
  refine ⟨fun h => Mat.aget_err h, fun h => Mat.aget_err h, fun h => ?_, fun h1 h2 => ?_⟩
  · simp [Mesh1.setNodesVars, h]
  · have h1' : ¬ m.nodes.size ≤ node := by omega
    simp [Mesh1.setNodesVars, h1', h2]

/-- raw `mesh[node][var] = x` on a 1-D mesh with one row of `nvars` entries per node -/
theorem rejects_mesh1_setVar (m : Mesh1 T X) (h : C19.WF1 m) (hs : C19.RowSized1 m)
    (node var : Nat) (x : T) (ho : m.nodes.size ≤ node ∨ m.nvars ≤ var) :
    Mesh1.setVar m node var x = .error .range := C19.setVar_rejects1 m h hs x ho

/-- 2-D mesh: coordinates, raw node access, cross sections (exact classes; the loop of a cross
    section runs only when the other direction is non-empty) -/
theorem rejects_mesh2_more (m : Mesh2 T X) (i j : Nat) :
    ((m.xnodes.size ≤ i ∨ m.ynodes.size ≤ j) → Mesh2.coord m i j = .error .range) ∧
    (m.vars.size ≤ i * m.ny + j → Mesh2.index m i j = .error .range) ∧
    (m.nx ≤ i → 0 < m.ny →
      Mesh2.crossSectionX m i = .error (if m.nx = 0 then .arith else .range)) ∧
    (m.ny ≤ j → 0 < m.nx →
      Mesh2.crossSectionY m j = .error (if m.ny = 0 then .arith else .range)) := by
  refine ⟨fun h => ?_, fun h => Mat.aget_err h, fun hi hy => ?_, fun hj hx => ?_⟩
  · unfold Mesh2.coord
    by_cases h1 : m.xnodes.size ≤ i
    · simp [Mat.aget_err h1, bind, Except.bind]
    · have h1' : i < m.xnodes.size := by omega
      simp [Mat.aget_ok h1', Mat.aget_err (h.resolve_left h1), bind, Except.bind]
  · refine Mat.forM'_first_error 0 m.ny _ _ _ hy ?_
    show (do let v ← Mesh2.getNodesVars m i 0; Mesh1.setNodesVars _ 0 v) = _
    unfold Mesh2.getNodesVars
    rw [C19.guard_err m i 0 (Or.inl hi)]
    simp [hi, bind, Except.bind]
  · refine Mat.forM'_first_error 0 m.nx _ _ _ hx ?_
    show (do let v ← Mesh2.getNodesVars m 0 j; Mesh1.setNodesVars _ 0 v) = _
    unfold Mesh2.getNodesVars
    rw [C19.guard_err m 0 j (Or.inr hj)]
    have h0 : m.nx ≠ 0 := by omega
    simp [h0, bind, Except.bind]

/-- exact classes of the checked 2-D accessors (C20.lean: `∃ e`): outside the grid the class is
    the one of the guard (`arith` when a direction is empty — `nx - 1` underflows — else `range`,
    x before y); a vector of the wrong length at a grid node is `size` -/
theorem rejects_mesh2_classes (m : Mesh2 T X) (i j : Nat) (v : Array T) :
    ((m.nx ≤ i ∨ m.ny ≤ j) →
      Mesh2.getNodesVars m i j = .error (if m.nx = 0 then .arith else if m.nx ≤ i then .range
        else if m.ny = 0 then .arith else .range) ∧
      Mesh2.setNodesVars m i j v = .error (if m.nx = 0 then .arith else if m.nx ≤ i then .range
        else if m.ny = 0 then .arith else .range)) ∧
    (i < m.nx → j < m.ny → v.size ≠ m.nvars → Mesh2.setNodesVars m i j v = .error .size) := by
  refine ⟨fun h => ⟨?_, ?_⟩, fun hi hj hv => ?_⟩
  · unfold Mesh2.getNodesVars; rw [C19.guard_err m i j h]; rfl
  · unfold Mesh2.setNodesVars; rw [C19.guard_err m i j h]; rfl
  · simp [Mesh2.setNodesVars, C19.guard_ok m hi hj, hv, bind, Except.bind]

/-- raw `mesh[(i,j)][var] = x` and `apply(func, var)` on a mesh with `nx*ny` rows of `nvars`
    entries: an offset outside the storage or an unknown variable is rejected (for `apply`
    provided the grid has a node at all; otherwise no write is attempted and the mesh is
    returned unchanged) -/
theorem rejects_mesh2_setVar_apply (m : Mesh2 T X) (h : C19.WF2 m) (hs : C19.Sized2 m)
    (i j var : Nat) (x : T) (f : X → X → T) :
    ((m.nx * m.ny ≤ i * m.ny + j ∨ m.nvars ≤ var) → Mesh2.setVar m i j var x = .error .range) ∧
    (m.nvars ≤ var → 0 < m.nx → 0 < m.ny → Mesh2.apply m f var = .error .range) := by
  refine ⟨C19.setVar_rejects2 m h hs x, fun hv hx hy => ?_⟩
  rw [C19.apply_rejects m h hs f hv, if_pos ⟨hx, hy⟩]

/-- writes to a 1-D mesh keep the nodes, the number of variables and the number of node vectors -/
theorem mesh1_keeps_shape (m m' : Mesh1 T X) (node var : Nat) (v : Array T) (x : T) :
    (Mesh1.setNodesVars m node v = .ok m' →
      m'.nvars = m.nvars ∧ m'.nodes = m.nodes ∧ m'.vars.size = m.vars.size) ∧
    (Mesh1.setVar m node var x = .ok m' →
      m'.nvars = m.nvars ∧ m'.nodes = m.nodes ∧ m'.vars.size = m.vars.size) := by
  constructor
  · intro h
    unfold Mesh1.setNodesVars at h
    split at h
    · cases h
    · split at h
      · cases h
      · obtain ⟨vs, h1, h2⟩ := bind_ok_inv h
        cases h2
        exact ⟨rfl, rfl, aset_size h1⟩
  · intro h
    unfold Mesh1.setVar at h
    rw [C19.poke_bind] at h
    obtain ⟨vs, h1, h2⟩ := bind_ok_inv h
    cases h2
    exact ⟨rfl, rfl, poke_size h1⟩

/-- same grid, same number of variables, same number of stored node vectors -/
def SameShape2 (m m' : Mesh2 T X) : Prop :=
  m'.nvars = m.nvars ∧ m'.nx = m.nx ∧ m'.ny = m.ny ∧ m'.xnodes = m.xnodes ∧
  m'.ynodes = m.ynodes ∧ m'.vars.size = m.vars.size

/-- writes to a 2-D mesh keep the grid, the number of variables and the number of node vectors -/
theorem mesh2_keeps_shape (m m' : Mesh2 T X) (i j var : Nat) (v : Array T) (x : T) (f : X → X → T) :
    (Mesh2.setNodesVars m i j v = .ok m' → SameShape2 m m') ∧
    (Mesh2.setVar m i j var x = .ok m' → SameShape2 m m') ∧
    (Mesh2.assign m x = .ok m' → SameShape2 m m') ∧
    (Mesh2.apply m f var = .ok m' → SameShape2 m m') := by
  refine ⟨fun h => ?_, fun h => ?_, fun h => ?_, fun h => ?_⟩
  · unfold Mesh2.setNodesVars at h
    obtain ⟨u, _, h⟩ := bind_ok_inv h
    split at h
    · cases h
    · obtain ⟨vs, h1, h2⟩ := bind_ok_inv h
      cases h2
      exact ⟨rfl, rfl, rfl, rfl, rfl, aset_size h1⟩
  · unfold Mesh2.setVar at h
    rw [C19.poke_bind] at h
    obtain ⟨vs, h1, h2⟩ := bind_ok_inv h
    cases h2
    exact ⟨rfl, rfl, rfl, rfl, rfl, poke_size h1⟩
  · unfold Mesh2.assign at h
    obtain ⟨vs, h1, h2⟩ := bind_ok_inv h
    cases h2
    refine ⟨rfl, rfl, rfl, rfl, rfl, ?_⟩
    refine loop_preserves (fun s : Array (Array T) => s.size = m.vars.size) _ _ _ _ _
      (fun s a s1 hp hs => ?_) rfl h1
    refine loop_preserves (fun s : Array (Array T) => s.size = m.vars.size) _ _ _ _ _
      (fun s b s1 hp hs => ?_) hp hs
    refine loop_preserves (fun s : Array (Array T) => s.size = m.vars.size) _ _ _ _ _
      (fun s c s1 hp hs => ?_) hp hs
    rw [poke_size hs, hp]
  · unfold Mesh2.apply at h
    obtain ⟨vs, h1, h2⟩ := bind_ok_inv h
    cases h2
    refine ⟨rfl, rfl, rfl, rfl, rfl, ?_⟩
    refine loop_preserves (fun s : Array (Array T) => s.size = m.vars.size) _ _ _ _ _
      (fun s a s1 hp hs => ?_) rfl h1
    obtain ⟨xa, _, hs⟩ := bind_ok_inv hs
    refine loop_preserves (fun s : Array (Array T) => s.size = m.vars.size) _ _ _ _ _
      (fun s b s1 hp hs => ?_) hp hs
    obtain ⟨yb, _, hs⟩ := bind_ok_inv hs
    rw [poke_size hs, hp]

end Mesh

section MeshF64
variable [Div K] [Transc K]

/-- quadrature and interpolation on a mesh with an empty direction: `n - 1` underflows (for the
    2-D rule: an empty x direction, or an empty y direction once the x loop runs at all) -/
theorem rejects_mesh_empty (m1 : Mesh1 K K) (m2 : Mesh2 K K) (x : K) (var : Nat) (g : K → K) :
    (m1.nodes.size = 0 →
      Mesh1.interpolate m1 x = .error .arith ∧ Mesh1.trapezium m1 var = .error .arith) ∧
    ((m2.nx = 0 ∨ (2 ≤ m2.nx ∧ 2 ≤ m2.xnodes.size ∧ m2.ny = 0)) →
      Mesh2.trapWith g m2 var = .error .arith ∧ Mesh2.trapezium m2 var = .error .arith ∧
      Mesh2.squareTrapezium m2 var = .error .arith) := by
  constructor
  · intro h
    exact ⟨by simp [Mesh1.interpolate, usub, h, bind, Except.bind],
      by simp [Mesh1.trapezium, usub, h, bind, Except.bind]⟩
  · intro h
    have key : ∀ g : K → K, Mesh2.trapWith g m2 var = .error .arith := by
      intro g
      unfold Mesh2.trapWith
      rcases h with h | ⟨h1, h2, h3⟩
      · simp [usub, h, bind, Except.bind]
      · rw [C19.usub_one_ok (by omega)]
        show Mat.forM' 0 (m2.nx - 1) (0 : K) _ = _
        apply Mat.forM'_first_error 0 (m2.nx - 1) _ _ _ (by omega)
        simp only [Mat.aget_ok (show 0 < m2.xnodes.size by omega),
          Mat.aget_ok (show 0 + 1 < m2.xnodes.size by omega), h3, C19.usub_one_err, bind,
          Except.bind]
    exact ⟨key g, key _, key _⟩

end MeshF64

/-! ## (b) polynomial -/

/-- `n ≤ len` derivatives succeed and shorten the coefficient list by `n` -/
theorem derivativeN_size (p : Array K) :
    ∀ n, n ≤ p.size → ∃ d, Poly.derivativeN p n = .ok d ∧ d.size = p.size - n
  | 0, _ => ⟨p, rfl, by simp⟩
  | n + 1, h => by
    obtain ⟨d, h1, h2⟩ := derivativeN_size p n (by omega)
    have hd : ¬ d.size = 0 := by omega
    refine ⟨Array.ofFn (n := d.size - 1) (fun i => Poly.addRep (d[i.val + 1]?.getD 0) (i.val + 1)),
      ?_, ?_⟩
    · simp [Poly.derivativeN, h1, bind, Except.bind, Poly.derivative, hd]
    · rw [Array.size_ofFn]; omega

/-- more derivatives than coefficients: `degree().unwrap()` on the empty polynomial panics -/
theorem derivativeN_rejects (p : Array K) :
    ∀ n, p.size < n → Poly.derivativeN p n = .error .unwrap
  | 0, h => absurd h (Nat.not_lt_zero _)
  | n + 1, h => by
    by_cases hn : p.size < n
    · simp [Poly.derivativeN, derivativeN_rejects p n hn, bind, Except.bind]
    · obtain ⟨d, h1, h2⟩ := derivativeN_size p n (by omega)
      have hd : d.size = 0 := by omega
      simp [Poly.derivativeN, h1, bind, Except.bind, Poly.derivative, hd]

theorem rejects_poly_more (p : Array K) (x : K) (n : Nat) :
    (p.size = 0 → Poly.eval p x = .error .unwrap ∧ Poly.derivative p = .error .unwrap ∧
      Poly.trim p = .error .arith) ∧
    (p.size < n → Poly.derivativeN p n = .error .unwrap) ∧
    (p.size < n → Poly.derivativeAt p x n = .error .unwrap) ∧
    (p.size = n → Poly.derivativeAt p x n = .ok 0) := by
  refine ⟨fun h => ?_, derivativeN_rejects p n, fun h => ?_, fun h => ?_⟩
  · have hp : p = #[] := Array.eq_empty_of_size_eq_zero h
    subst hp
    exact ⟨by simp [Poly.eval], by simp [Poly.derivative], by simp [Poly.trim]⟩
  · unfold Poly.derivativeAt
    simp [derivativeN_rejects p n h, bind, Except.bind]
  · -- (repair D16) order = number of coefficients: the derivative is the empty polynomial, its value is 0
    unfold Poly.derivativeAt
    obtain ⟨d, h1, h2⟩ := derivativeN_size p n (by omega)
    have hd : d = #[] := Array.eq_empty_of_size_eq_zero (by omega)
    subst hd
    simp [h1, bind, Except.bind]

/-- `polydiv` by the empty or the all-zero polynomial: the library returns `Err(&str)` (model:
    `.ok none`) — refused WITHOUT a panic, and no quotient/remainder pair is produced -/
theorem polydiv_refuses (u v : Array K) (h : v.size = 0 ∨ Poly.isZero v = true) :
    Poly.polydiv u v = .ok none := by
  rcases h with h | h
  · simp [Poly.polydiv, h]
  · exact C12.polydiv_rejects_zero u v h

/-! ## (b) threaded dot product, root finder, iterative solvers -/

/-- zero workers: `len / w` divides by zero -/
theorem rejects_dot_workers (a b : Array K) (h : a.size = b.size) :
    Dot.dotThreaded 0 a b = .error .arith := by
  simp [Dot.dotThreaded, h]

section RootsKrylov
variable [Div K] [Transc K]

/-- `poly_solve` / `roots` need at least two coefficients: none underflows `len - 1` (`arith`),
    a constant polynomial is refused explicitly (`range`) -/
theorem rejects_polySolve [OfScientific K] (c : Array (Cx K)) (r : Array K) (refine : Bool) :
    (c.size = 0 → Roots.polySolve c refine = .error .arith) ∧
    (c.size = 1 → Roots.polySolve c refine = .error .range) ∧
    (r.size = 0 → Roots.rootsReal r refine = .error .arith) ∧
    (r.size = 1 → Roots.rootsReal r refine = .error .range) := by
  have k0 : ∀ c : Array (Cx K), c.size = 0 → Roots.polySolve c refine = .error .arith := by
    intro c h; simp [Roots.polySolve, usub, h, bind, Except.bind]
  have k1 : ∀ c : Array (Cx K), c.size = 1 → Roots.polySolve c refine = .error .range := by
    intro c h; simp [Roots.polySolve, usub, h, bind, Except.bind]
  exact ⟨k0 c, k1 c, fun h => k0 _ (by simpa using h), fun h => k1 _ (by simpa using h)⟩

/-- `solve_bicg` with an unknown error measure `itol ∉ {1, 2}` (sizes consistent, storage
    readable): rejected with class `range` -/
theorem rejects_krylov_itol (s : Sp K) (itol : Nat) (b x0 : Array K) (maxIter : Nat) (tol : K)
    (norm2 : Array K → K) (h1 : s.rows = b.size) (h2 : s.rows = s.cols) (h3 : b.size = x0.size)
    (hm : C08.Multipliable s x0) (hi : itol ≠ 1 ∧ itol ≠ 2) :
    Sp.solveIter s (.bicg itol) b x0 maxIter tol norm2 = .error .range :=
  C08.solveIter_rejects_itol s itol b x0 maxIter tol norm2 h1 h2 h3 hm hi

end RootsKrylov

/-! ## the hypotheses with a storage invariant are satisfiable -/

example : Band.get (Band.new 2 1 1 (0 : Rat)) 2 2 = .error .range ∧
    Band.set (Band.new 2 1 1 (0 : Rat)) 2 2 5 = .error .range :=
  rejects_banded_rows _ (by simp [Band.new, Mat.new]) 2 2 5 (by simp [Band.new])

example : Band.det (Band.new 1 2 0 (0 : Rat)) = .error .range :=
  (rejects_banded_wide _ (Band.WFb.mk' (Mat.Is.of_new 1 (2 + 0 + 1) (0 : Rat))) (by simp [Band.new])
    #[0] (by simp [Band.new])).2.1

example : Mesh2.setVar (Mesh2.new #[(0 : Rat), 1] #[(0 : Rat), 1] 3 : Mesh2 Rat Rat) 0 0 3 7
    = .error .range :=
  (rejects_mesh2_setVar_apply _ (C19.new_wf2 _ _ _) (C19.new_sized2 _ _ _) 0 0 3 7
    (fun _ _ => 0)).1 (Or.inr (by simp [Mesh2.new]))

example : Mesh1.setVar (Mesh1.new #[(0 : Rat), 1] 3 : Mesh1 Rat Rat) 2 0 7 = .error .range :=
  rejects_mesh1_setVar _ (C19.new_wf _ _) (C19.new_rowSized1 _ _) 2 0 7 (Or.inl (by simp [Mesh1.new]))

example : Sp.solveIter (⟨1, 1, 1, #[(1 : Float)], #[0], #[0, 1]⟩ : Sp Float) (.bicg 3) #[1] #[0] 10 0
    (fun _ => 0) = .error .range :=
  rejects_krylov_itol _ 3 _ _ 10 0 _ rfl rfl rfl ⟨_, rfl⟩ (by decide)

/-!
## Coverage table: every `.error`-producing guard of the model and the theorem that covers it

`C20.x` = theorem `Ohsl.Props.C20.x` (file: C20.lean, C20K.lean, or this file = "B");
`Cnn.x` = theorem `Ohsl.Props.Cnn.x`.  "internal" = helper that is not an entry point of the
library (reached only through a listed entry point).  "no guard" = the function states no check of
its own; its raw slice accesses are in range on well-formed storage (proved by the named spec).
`divM` = the only failure is the scalar's division (class `arith`, exact types only) — not a
size / index guard, listed for completeness.

Model/Vec.lean
| guard                                                         | class          | theorem |
| `aget` / `aset` index ≥ len                                   | range          | C20.rejects_primitives (B) |
| `usub a b`, a < b                                             | arith          | C20.rejects_primitives (B) |
| `add` `sub` `dot`: sizes differ                               | size           | C20.rejects_vector |
| `addAssign` `subAssign`: sizes differ                         | size           | C20.rejects_vector_more (B) |
| `sumSlice` `productSlice`: s > e, s ≥ len, e ≥ len            | range          | C20.rejects_vector |
| `sum` `product` `find` on the empty vector (`len - 1`)        | arith          | C20.rejects_vector_more (B) |
| `insert` pos > len                                            | range          | C20.rejects_vector |
| `pop` on the empty vector                                     | unwrap         | C20.rejects_vector (`#[]`), C20.rejects_vector_more (B, size = 0) |
| `swap` i ≥ len or j ≥ len                                     | range          | C20.rejects_vector_more (B); shape: C20.vec_swap_keeps_shape (B) |
| `normInfBy` `normInf` `normInfC` on the empty vector          | range          | C20.rejects_normInf (B) |
| `sdiv` `divS` `linspace` `powspace` `normP`                   | divM           | C15.linspace_one_rejects, C15.powspace_one_rejects, C15.normP_zero_rejects |

Model/Mat.lean
| raw `get` / `set`: flat offset ≥ buffer length                | range          | C20.rejects_matrix_raw (B) |
| `swapElem`: either flat offset ≥ buffer length                | range          | C20.rejects_matrix_raw (B) |
| `getRow` row ≥ rows, `getCol` col ≥ cols                      | range          | C20.rejects_matrix |
| `setRow` len ≠ cols / row ≥ rows                              | size / range   | C20.rejects_matrix_more (∃), C20.rejects_matrix_classes (B, exact) |
| `setCol` len ≠ rows / col ≥ cols                              | size / range   | C20.rejects_matrix (∃), C20.rejects_matrix_classes (B, exact) |
| `deleteRow` row ≥ rows                                        | range          | C20.rejects_matrix_more |
| `deleteRow` buffer shorter than (row+1)·cols                  | range          | C20.rejects_matrix_classes (B) |
| `mulVec` len ≠ cols, `mul` a.cols ≠ b.rows                    | size           | C20.rejects_matrix |
| `swapRows`, `fillRow` row ≥ rows; `fillCol` col ≥ cols        | range          | C20.rejects_matrix_more |
| `add` `sub`: rows or cols differ                              | size           | C20.rejects_matrix_more |
| `eye` `resize` `transpose(InPlace)` `fill*` `map2` `mapM1` `neg` `smul` `addS` `subS` `lsmul` norms | no guard | C03 / C03M / C03N specs |
| `sdiv`, `normP`                                               | divM           | C03.sdiv_zero_rejects, C03.normP_zero_rejects |
| shape after a successful write (`set` `swapElem` `swapRows` `setRow` `setCol` `fillRow` `fillCol`) | — | C20.mat_keeps_shape (B); histories: C20.history_keeps_wf |

Model/Solve.lean
| `solveBasic` `solveLU`: rows ≠ len(b) or rows ≠ cols           | size           | C20.rejects_solvers_full (B) |
| `solveBasic` `solveLU`: order 0 (`rows - 1`)                   | arith          | C20.rejects_solvers_order0 (B) |
| `luDecomp` `determinant` `inverse`: rows ≠ cols                | size           | C20.rejects_lu_det_inv (B) |
| `backsolve` `gaussWithPivot` (`usub rows 1`)                   | arith          | internal; reached only by the order-0 case above |
| `maxAbsInColumn` `partialPivot` `elimRow` `luPivot` `luElimRow` `luStep` `forwardSub` | no guard | internal (C01S / C02D specs) |
| zero pivot in `backsolve` / `inverse`                          | divM           | C01.solveBasic_singular_rejects, C01.solveLU_singular_rejects, C02.inverse_singular_rejects |

Model/Banded.lean
| `fillBand` band ∉ [-m1, m2]                                    | range          | C20.rejects_banded |
| `get` `set` outside the band                                   | range          | C20.rejects_banded |
| `get` `set` row ≥ n (caught by the compact buffer)             | range          | C20.rejects_banded_rows (B) |
| `solve` `mulVec` n ≠ len                                       | size           | C20.rejects_banded |
| `add` `sub'` (n, m1, m2) differ                                | size           | C20.rejects_banded |
| `decompose` `det` `solve` with n < m1 (`shiftRows` reads outside) | range       | C20.rejects_banded_wide (B) |
| `shiftRows` `decElim` `decStep` (`usub`, raw accesses)         | —              | internal (Lemmas/BandSpec, C04B) |
| `fill` `resize` `neg` `smul` `sdiv` `addS` `subS`              | no guard       | delegate to Mat (C04B / C04D) |
| shape after `set` / `fillBand`                                 | —              | C20.band_keeps_shape (B) |

Model/Tridiag.lean
| `withVecs` empty main (`n - 1`) / wrong off-diagonal lengths   | arith / size   | C20.rejects_tridiagonal_more (B) |
| `new 0`, `withElements _ _ _ 0`                                | arith          | C20.rejects_tridiagonal_more (B) |
| `get` `set`: i ≥ n, j ≥ n, or off the three diagonals          | range          | C20.rejects_tridiagonal_more (B) (get also C20.rejects_tridiagonal) |
| `det`: `main[0]` on an empty diagonal, `f[1]` when n = 0       | range          | C20.rejects_tridiagonal_more (B) |
| `convert` n = 0                                                | range          | C20.rejects_tridiagonal_more (B) |
| `solve` `mulVec` n ≠ len                                       | size           | C20.rejects_tridiagonal |
| `solve` zero pivot                                             | zeroPivot      | C05.solve_error_class, C05.solve_error_class_structural |
| `add` `sub'` a.n ≠ b.n                                         | size           | C20.rejects_tridiagonal_more (B) |
| `sdiv`                                                         | divM           | C05.sdiv_guard |
| shape after `set`                                              | —              | C20.tri_set_keeps_shape (B) |

Model/Sparse.lean
| `fromVecs` empty `col_start` (`len - 1`)                       | arith          | C20.rejects_sparse_more (B) |
| `fromTriplets` a triplet with row ≥ rows or col ≥ cols         | range          | C20.rejects_sparse_more (B) (= C06.fromTriplets_rejects) |
| `colIndex` nonzero ≠ 0 and `col_start` shorter than cols + 1   | range          | C20.rejects_sparse_more (B) |
| `get` `insert`: row ≥ rows, col ≥ cols, col ≥ len(col_start)   | range          | C20.rejects_sparse_more (B) (first two also C20.rejects_sparse_mesh_poly) |
| `multiply` cols ≠ len, `transposeMultiply` rows ≠ len          | size           | C20.rejects_sparse_mesh_poly |
| `colStartFromIndex`                                            | —              | internal (C06.colStartFromIndex_counts) |
| `scale` `transpose` `toTriplets` `toDense`                     | no guard       | C06 / C07 specs on well-formed storage |
| shape after `insert`                                           | —              | C20.sparse_insert_keeps_shape (B) |

Model/KrylovSp.lean
| `solveIter` rows ≠ len(b), rows ≠ cols, len(b) ≠ len(x0)       | size           | C20.rejects_krylov_size, C20.rejects_krylov |
| `solveIter` first product fails on inconsistent storage        | (as product)   | C08.solveIter_rejects_storage, C20.rejects_krylov |
| `solveIter (.bicg itol)` itol ∉ {1, 2}                         | range          | C20.rejects_krylov_itol (B) |

Model/Mesh.lean
| `Mesh1.coord` node ≥ len(nodes), `Mesh1.index` node ≥ len(vars) | range         | C20.rejects_mesh1_more (B) |
| `Mesh1.setNodesVars` node ≥ len(nodes) / len(v) ≠ nvars        | range / size   | C20.rejects_mesh (∃), C20.rejects_mesh1_more (B, exact) |
| `Mesh1.getNodesVars` node ≥ len(nodes)                         | range          | C20.rejects_mesh |
| `Mesh1.setVar` node ≥ len(nodes) or var ≥ nvars                | range          | C20.rejects_mesh1_setVar (B) (= C19.setVar_rejects1; needs the storage invariant) |
| `Mesh1.interpolate` `Mesh1.trapezium` on an empty mesh         | arith          | C20.rejects_mesh_empty (B) |
| `Mesh2.coord` i ≥ len(xnodes) or j ≥ len(ynodes)               | range          | C20.rejects_mesh2_more (B) |
| `Mesh2.guard` (i > nx-1, j > ny-1, underflow on empty)         | range / arith  | C19.guard_err |
| `Mesh2.setNodesVars` `getNodesVars` outside the grid / wrong length | range / arith / size | C20.rejects_mesh2 (∃), C20.rejects_mesh2_classes (B, exact) |
| `Mesh2.index` flat offset ≥ len(vars)                          | range          | C20.rejects_mesh2_more (B) |
| `Mesh2.setVar` offset outside the storage or var ≥ nvars       | range          | C20.rejects_mesh2_setVar_apply (B) (= C19.setVar_rejects2; storage invariant) |
| `Mesh2.apply` var ≥ nvars (grid non-empty)                     | range          | C20.rejects_mesh2_setVar_apply (B) (= C19.apply_rejects) |
| `Mesh2.crossSectionX` i ≥ nx, `crossSectionY` j ≥ ny           | range / arith  | C20.rejects_mesh2 (X, ∃), C20.rejects_mesh2_more (B, both, exact) |
| `Mesh2.varAsMatrix` var ≥ nvars                                | range          | C20.rejects_mesh2 |
| `Mesh2.trapWith` `trapezium` `squareTrapezium`, empty direction | arith         | C20.rejects_mesh_empty (B) |
| `Mesh2.assign`                                                 | no guard       | C19.assign_abs |
| shape after `setNodesVars` `setVar` (`assign` `apply`)         | —              | C20.mesh1_keeps_shape, C20.mesh2_keeps_shape (B) |

Model/Poly.lean
| `eval` `derivative` on the empty polynomial                    | unwrap         | C20.rejects_poly_more (B) |
| `trim` on the empty polynomial (`len - 1`)                     | arith          | C20.rejects_poly_more (B) |
| `derivativeN p n`, `derivativeAt p x n`, n > len (n = len: value 0)      | unwrap         | C20.rejects_poly_more (B), C20.derivativeN_rejects (B) |
| `get` i ≥ len                                                  | range          | C20.rejects_sparse_mesh_poly |
| `polydiv` by the empty / zero polynomial: `Err(&str)`, no panic | (`.ok none`)  | C20.polydiv_refuses (B) |
| `divStep` (`usub`, `aget`, `aset`; `divM`)                    | —              | internal; inside `polydiv` only `divM` can fail (C12.divStep_size, C12D) |

Model/Roots.lean
| `polySolve` `rootsReal`: no coefficient / one coefficient      | arith / range  | C20.rejects_polySolve (B) (∃: C10.rejects_degree0) |

Model/Dot.lean
| `dotThreaded` sizes differ                                     | size           | C20.rejects_sparse_mesh_poly |
| `dotThreaded` w = 0                                            | arith          | C20.rejects_dot_workers (B) |

Model/Cx.lean, Model/Inst.lean (`div` `divR` `divAssign` `divAssignR`, `divM` on `Rat`): divM only —
C13.cx_div_rejects, C13.toC_div_error, C13.toC_divR_error.
Model/Newton.lean (`jacobian`: `aget` / `setCol` when the map changes its output size):
C18.jacobian_rejects_size_change.
Model/Krylov.lean, Model/CxFun.lean, Model/Basic.lean: no `.error`.
Model/Fmt.lean (`output2`, `outputVar2`: raw reads, formatting of the driver) and Model/Wire.lean
(`throw` of the token parser of the driver): not library entry points, no clause.
-/

end Ohsl.Props.C20
