/-
  Property C08 / C20 (part K) — the four iterative solvers AS METHODS of the sparse matrix:
  entry guards + iteration (Ohsl/Model/KrylovSp.lean, `Sp.solveIter`), which is what the
  executable driver runs and the correspondence compares with `Sparse<f64>::solve_*`.

  (S) any scalar type, arbitrary arithmetic (hence also `Float`):
      `solveIter_rejects_size`  a failed size / squareness guard is an error of class `size`
                                and nothing is computed;
      `solveIter_rejects_itol`  `solve_bicg` with `itol ∉ {1, 2}` is an error of class `range`;
      `solveIter_rejects_storage` inconsistent storage arrays: the error of the first sparse product
                                is the error of the call (the code panics inside `multiply`);
      `solveIter_ok_iff`        the call returns a value exactly when all guards pass and the first
                                product does not panic (`solveIter_ok_iff_wf`: on a well-formed
                                storage, exactly when the guards pass);
      `solveIter_iter_bound`    the reported iteration count never exceeds the budget;
      `solveIter_budget_zero`   with budget 0 the vector handed in comes back untouched.
  (E) over a field, for a well-formed square storage:
      `solveIter_success_sound` whichever method is called, a reported success certifies that the
                                TRUE relative residual of the returned array passed the test.
-/
import Ohsl.Props.C08C
import Ohsl.Model.KrylovSp
set_option linter.unusedSectionVars false
set_option linter.unusedVariables false
namespace Ohsl.Props.C08
open Ohsl Ohsl.Krylov Ohsl.Sp

section Structural
variable {K : Type}
variable [Add K] [Sub K] [Mul K] [Neg K] [Div K] [Zero K] [One K] [BEq K] [ScalarExt K] [Transc K]

/-- the guards of a call -/
def Guards (s : Sp K) (m : Method) (b x0 : Array K) : Prop :=
  s.rows = b.size ∧ s.rows = s.cols ∧ b.size = x0.size ∧
    (∀ itol, m = .bicg itol → itol = 1 ∨ itol = 2)

/-- the storage can be multiplied with the guess: the first product `A x0` of every method does not
    panic (always true of a well-formed storage, `C07.multiply_spec`; on inconsistent public arrays
    the code panics inside `multiply`) -/
def Multipliable (s : Sp K) (x0 : Array K) : Prop := ∃ r, Sp.multiply s x0 = .ok r

/-- the iteration that runs once the guards have passed -/
def runMethod (o : VOps K (Array K)) (m : Method) (b x0 : Array K) (maxIter : Nat) (tol : K) :
    KOut K (Array K) :=
  match m with
  | .cg => solveCG o b x0 maxIter tol
  | .bicg itol => solveBiCG o b x0 maxIter tol itol
  | .bicgstab => solveBiCGSTAB o b x0 maxIter tol
  | .qmr => solveQMR o b x0 maxIter tol

/-- the model's array operations are the ones the C08C theorems speak about -/
theorem sp_arrOps_eq (s : Sp K) (n : Nat) (norm2 : Array K → K) :
    Sp.arrOps s n norm2 = arrOps s n norm2 := rfl

theorem solveIter_rejects_size (s : Sp K) (m : Method) (b x0 : Array K) (maxIter : Nat) (tol : K)
    (norm2 : Array K → K) (h : s.rows ≠ b.size ∨ s.rows ≠ s.cols ∨ b.size ≠ x0.size) :
    solveIter s m b x0 maxIter tol norm2 = .error .size := by
  unfold solveIter
  by_cases h1 : s.rows ≠ b.size
  · simp [h1]
  · by_cases h2 : s.rows ≠ s.cols
    · simp [h1, h2]
    · have h3 : b.size ≠ x0.size := by
        rcases h with h | h | h
        · exact absurd h h1
        · exact absurd h h2
        · exact h
      simp [h1, h2, h3]

theorem solveIter_rejects_itol (s : Sp K) (itol : Nat) (b x0 : Array K) (maxIter : Nat) (tol : K)
    (norm2 : Array K → K) (h1 : s.rows = b.size) (h2 : s.rows = s.cols) (h3 : b.size = x0.size)
    (hm : Multipliable s x0) (hi : itol ≠ 1 ∧ itol ≠ 2) :
    solveIter s (.bicg itol) b x0 maxIter tol norm2 = .error .range := by
  obtain ⟨r, hr⟩ := hm
  unfold solveIter
  have e1 : ¬ s.rows ≠ b.size := by simp [h1]
  have e2 : ¬ s.rows ≠ s.cols := by simp [h2]
  have e3 : ¬ b.size ≠ x0.size := by simp [h3]
  simp only [e1, e2, e3, if_false, hr]
  exact if_pos hi

/-- inconsistent storage: the error of the first product is the error of the call -/
theorem solveIter_rejects_storage (s : Sp K) (m : Method) (b x0 : Array K) (maxIter : Nat) (tol : K)
    (norm2 : Array K → K) (h1 : s.rows = b.size) (h2 : s.rows = s.cols) (h3 : b.size = x0.size)
    (e : Err) (he : Sp.multiply s x0 = .error e) :
    solveIter s m b x0 maxIter tol norm2 = .error e := by
  unfold solveIter
  have e1 : ¬ s.rows ≠ b.size := by simp [h1]
  have e2 : ¬ s.rows ≠ s.cols := by simp [h2]
  have e3 : ¬ b.size ≠ x0.size := by simp [h3]
  simp only [e1, e2, e3, if_false, he]

theorem solveIter_ok (s : Sp K) (m : Method) (b x0 : Array K) (maxIter : Nat) (tol : K)
    (norm2 : Array K → K) (g : Guards s m b x0) (hm : Multipliable s x0) :
    solveIter s m b x0 maxIter tol norm2 =
      .ok (runMethod (arrOps s s.rows norm2) m b x0 maxIter tol) := by
  obtain ⟨h1, h2, h3, h4⟩ := g
  obtain ⟨r, hr⟩ := hm
  unfold solveIter
  have e1 : ¬ s.rows ≠ b.size := by simp [h1]
  have e2 : ¬ s.rows ≠ s.cols := by simp [h2]
  have e3 : ¬ b.size ≠ x0.size := by simp [h3]
  simp only [e1, e2, e3, if_false, hr]
  cases m with
  | cg => rfl
  | bicgstab => rfl
  | qmr => rfl
  | bicg itol =>
    have : ¬ (itol ≠ 1 ∧ itol ≠ 2) := by
      rcases h4 itol rfl with h | h <;> simp [h]
    simp only [this, if_false]
    rfl

/-- the call returns a value exactly when every guard passes and the storage can be multiplied -/
theorem solveIter_ok_iff (s : Sp K) (m : Method) (b x0 : Array K) (maxIter : Nat) (tol : K)
    (norm2 : Array K → K) :
    (∃ out, solveIter s m b x0 maxIter tol norm2 = .ok out) ↔
      (Guards s m b x0 ∧ Multipliable s x0) := by
  constructor
  · rintro ⟨out, h⟩
    by_cases h1 : s.rows = b.size
    · by_cases h2 : s.rows = s.cols
      · by_cases h3 : b.size = x0.size
        · have hmul : Multipliable s x0 := by
            cases hr : Sp.multiply s x0 with
            | ok r => exact ⟨r, hr⟩
            | error e =>
              rw [solveIter_rejects_storage s m b x0 maxIter tol norm2 h1 h2 h3 e hr] at h
              cases h
          refine ⟨⟨h1, h2, h3, ?_⟩, hmul⟩
          intro itol hm
          subst hm
          by_contra hc
          have hi : itol ≠ 1 ∧ itol ≠ 2 := by omega
          rw [solveIter_rejects_itol s itol b x0 maxIter tol norm2 h1 h2 h3 hmul hi] at h
          cases h
        · rw [solveIter_rejects_size s m b x0 maxIter tol norm2 (Or.inr (Or.inr h3))] at h; cases h
      · rw [solveIter_rejects_size s m b x0 maxIter tol norm2 (Or.inr (Or.inl h2))] at h; cases h
    · rw [solveIter_rejects_size s m b x0 maxIter tol norm2 (Or.inl h1)] at h; cases h
  · rintro ⟨g, hm⟩
    exact ⟨_, solveIter_ok s m b x0 maxIter tol norm2 g hm⟩

/-- on a well-formed storage the products cannot panic: the call returns a value exactly when the
    four guards pass -/
theorem solveIter_ok_iff_wf {K : Type} [CommSemiring K] [Sub K] [Neg K] [Div K] [BEq K] [ScalarExt K]
    [Transc K] {s : Sp K} (hs : WF s) (m : Method) (b x0 : Array K) (maxIter : Nat) (tol : K)
    (norm2 : Array K → K) :
    (∃ out, solveIter s m b x0 maxIter tol norm2 = .ok out) ↔ Guards s m b x0 := by
  rw [solveIter_ok_iff]
  constructor
  · exact fun h => h.1
  · intro g
    obtain ⟨y, hy, _⟩ := Ohsl.Props.C07.multiply_spec hs x0 (by have := g.1; have := g.2.1; have := g.2.2.1; omega)
    exact ⟨g, y, hy⟩

theorem runMethod_iter_bound (o : VOps K (Array K)) (m : Method) (b x0 : Array K) (maxIter : Nat)
    (tol : K) : (runMethod o m b x0 maxIter tol).iters ≤ maxIter := by
  cases m with
  | cg => exact cg_iter_bound o b x0 maxIter tol
  | bicg itol => exact bicg_iter_bound o b x0 maxIter tol itol
  | bicgstab => exact stab_iter_bound o b x0 maxIter tol
  | qmr => exact qmr_iter_bound o b x0 maxIter tol

/-- whatever a method returns, its iteration count is within the budget -/
theorem solveIter_iter_bound (s : Sp K) (m : Method) (b x0 : Array K) (maxIter : Nat) (tol : K)
    (norm2 : Array K → K) (out : KOut K (Array K))
    (h : solveIter s m b x0 maxIter tol norm2 = .ok out) : out.iters ≤ maxIter := by
  have g := (solveIter_ok_iff s m b x0 maxIter tol norm2).1 ⟨out, h⟩
  rw [solveIter_ok s m b x0 maxIter tol norm2 g.1 g.2] at h
  cases h
  exact runMethod_iter_bound _ m b x0 maxIter tol

/-- with an iteration budget of zero every method hands the guess back untouched -/
theorem solveIter_budget_zero (s : Sp K) (m : Method) (b x0 : Array K) (tol : K)
    (norm2 : Array K → K) (out : KOut K (Array K))
    (h : solveIter s m b x0 0 tol norm2 = .ok out) : out.x = x0 := by
  have g := (solveIter_ok_iff s m b x0 0 tol norm2).1 ⟨out, h⟩
  rw [solveIter_ok s m b x0 0 tol norm2 g.1 g.2] at h
  cases h
  cases m with
  | cg => exact (budget_zero_untouched _ b x0 tol 1).1
  | bicg itol => exact (budget_zero_untouched _ b x0 tol itol).2.1
  | bicgstab => exact (budget_zero_untouched _ b x0 tol 1).2.2.1
  | qmr => exact (budget_zero_untouched _ b x0 tol 1).2.2.2

end Structural

section Exact
variable {K : Type} [Field K] [DecidableEq K] [Transc K]
attribute [local instance] Ohsl.Alg.scalarExtField

/-- **Method level: success ⇒ solved to the tolerance** (exact arithmetic).  For a well-formed
    square storage of order `n`, whichever of the four methods is called (BiCG with either error
    measure), if the call returns a value that reports success then the returned array has size `n`
    and its TRUE relative residual `‖b − s·x‖ / guard ‖b‖` passed the code's test with `tol`
    (`≤ tol`; BiCGSTAB's full-step exit is the strict test `< tol`, the second disjunct). -/
theorem solveIter_success_sound {s : Sp K} {n : Nat} (h : SqWF s n) (norm2 : Array K → K)
    (m : Method) (b x0 : Array K) (maxIter : Nat) (tol : K) (out : KOut K (Array K))
    (hrun : solveIter s m b x0 maxIter tol norm2 = .ok out) (hok : out.ok = true) :
    out.x.size = n ∧
      (Transc.le (norm2 (trueResid s n b out.x) / guardNorm (norm2 b)) tol = true ∨
        stabLt (norm2 (trueResid s n b out.x) / guardNorm (norm2 b)) tol = true) := by
  obtain ⟨g, gm⟩ := (solveIter_ok_iff s m b x0 maxIter tol norm2).1 ⟨out, hrun⟩
  rw [solveIter_ok s m b x0 maxIter tol norm2 g gm] at hrun
  obtain ⟨h1, h2, h3, h4⟩ := g
  have hb : b.size = n := by rw [← h1, h.rows]
  have hx : x0.size = n := by rw [← h3, hb]
  rw [h.rows] at hrun
  cases hrun
  cases m with
  | cg => exact (cg_success_sound_sparse h norm2 b x0 hb hx maxIter tol hok).imp id Or.inl
  | bicg itol => exact (bicg_success_sound_sparse h norm2 b x0 hb hx maxIter tol itol hok).imp id Or.inl
  | bicgstab => exact stab_success_sound_sparse h norm2 b x0 hb hx maxIter tol hok
  | qmr => exact (qmr_success_sound_sparse h norm2 b x0 hb hx maxIter tol hok).imp id Or.inl

end Exact
end Ohsl.Props.C08
