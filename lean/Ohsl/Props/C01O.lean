/-
  Property C01 (continued) — the order-0 system and the LU solver.
  Model: Ohsl/Model/Solve.lean (`solveLU`, `luDecomp`, `forwardSub`, `backsolve`).

  (S) `solveLU_order0`: for ANY scalar type, `solve_lu` on a matrix with `rows = cols = 0` and an
  empty right-hand side is rejected with an arithmetic panic (`rows - 1` underflows in the back
  substitution), exactly like `solve_basic` (`C01.solveBasic_order0`): the factorisation of the
  empty matrix, `P·b` and the forward substitution are all empty loops, the first statement of
  `backsolve` is `usub 0 1`.  No hypothesis on the buffer (`WF` is not needed: nothing is read).
-/
import Ohsl.Props.C01
import Ohsl.Lemmas.Loop
import Ohsl.Lemmas.Alg
import Mathlib.Algebra.Order.Field.Rat
set_option linter.unusedSectionVars false
namespace Ohsl.Props.C01
open Ohsl Ohsl.Mat

section Structural
variable {K : Type} [Add K] [Sub K] [Mul K] [Neg K] [Zero K] [One K] [BEq K] [ScalarExt K]

/-- (S) the LU factorisation of an order-0 matrix is the empty loop: it returns the input, the
    0×0 "identity" and zero exchanges -/
theorem luDecomp_order0 (m : Mat K) (h0 : m.rows = 0) (hc : m.cols = 0) :
    luDecomp m = .ok { lu := m, perm := Mat.new 0 0 (0 : K), pivots := 0 } := by
  have hsq : ¬ m.rows ≠ m.cols := by rw [h0, hc]; simp
  unfold luDecomp
  rw [if_neg hsq]
  simp only [h0, eye, forM'_empty 0 0 _ _ (Nat.le_refl _), bind, Except.bind]

/-- (S) an order-0 system is rejected by `solve_lu` (`rows - 1` underflows in the back
    substitution); it never returns a value.  Holds for every scalar type and every buffer. -/
theorem solveLU_order0 (m : Mat K) (b : Array K) (h0 : m.rows = 0) (hc : m.cols = 0)
    (hb : b.size = 0) : solveLU m b = .error .arith := by
  have h1 : ¬ m.rows ≠ b.size := by rw [h0, hb]; simp
  have h2 : ¬ m.rows ≠ m.cols := by rw [h0, hc]; simp
  have hb' : b = #[] := Array.eq_empty_of_size_eq_zero hb
  subst hb'
  unfold solveLU
  rw [if_neg h1, if_neg h2]
  simp only [luDecomp_order0 m h0 hc, bind, Except.bind]
  have hmv : mulVec (Mat.new 0 0 (0 : K)) (#[] : Array K) = .ok #[] := by
    simp [mulVec, Mat.new, pure, Except.pure]
  simp only [hmv, forwardSub, h0, forM'_empty 0 0 _ _ (Nat.le_refl _), backsolve, usub, bind,
    Except.bind]
  rfl

/-- the same for the literal empty matrix -/
theorem solveLU_empty : solveLU (⟨#[], 0, 0⟩ : Mat K) #[] = .error .arith :=
  solveLU_order0 _ _ rfl rfl rfl

/-- both direct solvers agree on the order-0 system: both reject it with the same panic class -/
theorem solvers_agree_order0 (m : Mat K) (b : Array K) (h0 : m.rows = 0) (hc : m.cols = 0)
    (hb : b.size = 0) : solveLU m b = solveBasic m b := by
  rw [solveLU_order0 m b h0 hc hb, solveBasic_order0 m b h0 hc hb]

end Structural

/-! the review's instance: `Mat.solveLU (⟨#[],0,0⟩ : Mat ℚ) #[]` is `.error arith` -/
section Examples
attribute [local instance] Alg.scalarExt
example : Mat.solveLU (⟨#[], 0, 0⟩ : Mat ℚ) #[] = .error .arith := solveLU_empty
/-- an ill-formed buffer does not matter: nothing is read before the underflow -/
example : Mat.solveLU (⟨#[1, 2, 3], 0, 0⟩ : Mat ℚ) #[] = .error .arith :=
  solveLU_order0 _ _ rfl rfl rfl
end Examples

end Ohsl.Props.C01
