/-
  Property C08 (part B) — BiCG, BiCGSTAB, QMR: reported success means solved to the tolerance.
  Model: Ohsl/Model/Krylov.lean.  Same setting as Ohsl/Props/C08.lean (which treats CG).

  (E) exact arithmetic: K a field, V a K-module, A linear; ARBITRARY dot product / norm /
      comparison / transpose-product.  The residual carried by each solver equals the true residual
      b − A x (for QMR additionally the auxiliary vector s equals A d), hence a reported success
      certifies that the quantity the code tested, computed from the TRUE residual, passed the
      code's comparison with tol.
  (S) any K, any operations: the reported iteration count never exceeds the budget.
-/
import Ohsl.Props.C08
import Mathlib.Tactic.Module
import Mathlib.Algebra.Field.Rat
import Mathlib.Tactic.NormNum

set_option linter.unusedSectionVars false
set_option linter.unusedVariables false

namespace Ohsl.Props.C08
open Ohsl Ohsl.Krylov

/-! ### (S) iteration bounds, any scalar type -/
section Structural
variable {K V : Type} [Add K] [Sub K] [Mul K] [Neg K] [Div K] [Zero K] [One K] [BEq K] [Transc K]

/-- generic bound: if every early `return` at loop index `i` reports `iters = i`, and the
    fall-through reports `maxIter`, the reported count is at most `maxIter` -/
theorem loop_iter_bound {σ : Type} (f : Nat → σ → Step σ (KOut K V)) (fin : σ → KOut K V)
    (maxIter : Nat) (s0 : σ)
    (hdone : ∀ i s r, f i s = .done r → r.iters = i)
    (hfin : ∀ s, (fin s).iters = maxIter) :
    (iterate f fin maxIter 1 s0).iters ≤ maxIter := by
  have := iterate_index_bound (σ := σ) (ρ := KOut K V) (fun n r => r.iters < n ∨ r.iters ≤ maxIter)
      f fin
      (by intro i s r h; left; rw [hdone i s r h]; omega)
      (by intro i j r hij h; rcases h with h | h
          · left; omega
          · right; exact h)
      (by intro i s; right; rw [hfin s]) maxIter 1 s0
  rcases this with h | h
  · omega
  · exact h

/-- every early exit of a BiCG step at index `i` reports `iters = i` -/
theorem bicgStep_done_iters (o : VOps K V) (bnrm tol : K) (itol i : Nat) (s : BiCGState K V)
    (r : KOut K V) (h : bicgStep o bnrm tol itol i s = .done r) : r.iters = i := by
  unfold bicgStep at h
  simp only at h
  split at h
  · simp only [Step.done.injEq] at h
    subst h; rfl
  · simp at h

/-- every early exit (success or failure) of a BiCGSTAB step at index `i` reports `iters = i` -/
theorem stabStep_done_iters (o : VOps K V) (rtilde : V) (normb tol : K) (i : Nat) (s : StabState K V)
    (r : KOut K V) (h : stabStep o rtilde normb tol i s = .done r) : r.iters = i := by
  unfold stabStep at h
  simp only at h
  split at h
  · simp only [Step.done.injEq] at h
    subst h; rfl
  split at h
  · simp only [Step.done.injEq] at h
    subst h; rfl
  split at h
  · simp only [Step.done.injEq] at h
    subst h; rfl
  split at h
  · simp only [Step.done.injEq] at h
    subst h; rfl
  · simp at h

/-- every early exit (success or failure) of a QMR step at index `i` reports `iters = i` -/
theorem qmrStep_done_iters (o : VOps K V) (normb tol : K) (i : Nat) (s : QMRState K V)
    (r : KOut K V) (h : qmrStep o normb tol i s = .done r) : r.iters = i := by
  unfold qmrStep at h
  simp only at h
  split at h
  · simp only [Step.done.injEq] at h
    subst h; rfl
  split at h
  · simp only [Step.done.injEq] at h
    subst h; rfl
  split at h
  · simp only [Step.done.injEq] at h
    subst h; rfl
  split at h
  · simp only [Step.done.injEq] at h
    subst h; rfl
  split at h
  · simp only [Step.done.injEq] at h
    subst h; rfl
  split at h
  · simp only [Step.done.injEq] at h
    subst h; rfl
  split at h
  · simp only [Step.done.injEq] at h
    subst h; rfl
  · simp at h

theorem bicgLoop_iter_bound (o : VOps K V) (bnrm tol : K) (itol maxIter : Nat) (s0 : BiCGState K V) :
    (iterate (bicgStep o bnrm tol itol) (fun s => (⟨false, maxIter, s.err, s.x⟩ : KOut K V))
      maxIter 1 s0).iters ≤ maxIter :=
  loop_iter_bound _ _ maxIter s0 (bicgStep_done_iters o bnrm tol itol) (fun _ => rfl)

theorem stabLoop_iter_bound (o : VOps K V) (rtilde : V) (normb tol : K) (maxIter : Nat)
    (s0 : StabState K V) :
    (iterate (stabStep o rtilde normb tol) (fun s => (⟨false, maxIter, s.resid, s.x⟩ : KOut K V))
      maxIter 1 s0).iters ≤ maxIter :=
  loop_iter_bound _ _ maxIter s0 (stabStep_done_iters o rtilde normb tol) (fun _ => rfl)

theorem qmrLoop_iter_bound (o : VOps K V) (normb tol : K) (maxIter : Nat) (s0 : QMRState K V) :
    (iterate (qmrStep o normb tol) (fun s => (⟨false, maxIter, s.resid, s.x⟩ : KOut K V))
      maxIter 1 s0).iters ≤ maxIter :=
  loop_iter_bound _ _ maxIter s0 (qmrStep_done_iters o normb tol) (fun _ => rfl)

/-- BiCG: the reported iteration count never exceeds the budget -/
theorem bicg_iter_bound (o : VOps K V) (b x : V) (maxIter : Nat) (tol : K) (itol : Nat) :
    (solveBiCG o b x maxIter tol itol).iters ≤ maxIter := by
  unfold solveBiCG
  simp only
  split
  · simp
  · exact bicgLoop_iter_bound o _ tol itol maxIter _

/-- BiCGSTAB: the reported iteration count (success or breakdown) never exceeds the budget -/
theorem stab_iter_bound (o : VOps K V) (b x : V) (maxIter : Nat) (tol : K) :
    (solveBiCGSTAB o b x maxIter tol).iters ≤ maxIter := by
  unfold solveBiCGSTAB
  simp only
  split
  · simp
  · exact stabLoop_iter_bound o _ _ tol maxIter _

/-- QMR: the reported iteration count (success or breakdown) never exceeds the budget -/
theorem qmr_iter_bound (o : VOps K V) (b x : V) (maxIter : Nat) (tol : K) :
    (solveQMR o b x maxIter tol).iters ≤ maxIter := by
  unfold solveQMR
  simp only
  split
  · simp
  · exact qmrLoop_iter_bound o _ tol maxIter _

end Structural

/-! ### (E) the recurrence residual is the true residual -/
section Exact
variable {K V : Type} [Field K] [DecidableEq K] [Transc K] [AddCommGroup V] [Module K V]

/-- the strict comparison `a < b` that BiCGSTAB's full-step exit uses, built from `Transc.le` -/
def stabLt (a b : K) : Bool := Transc.le a b && !(Transc.le b a)

/-- `stabLt` is literally the model's local definition -/
theorem stabLt_eq_model (a b : K) : stabLt a b = Ohsl.Krylov.stabStep.ScalarLt.lt a b := rfl

variable (A : V →ₗ[K] V) (At : V → V) (dot : V → V → K) (norm2 : V → K)

/-! #### BiCG -/

/-- one BiCG iteration keeps `r = b − A x` (and `z = r`); a `done` exit is a success whose tested
    quantity, recomputed from the true residual, passed the test -/
theorem bicgStep_residual (b : V) (bnrm tol : K) (itol i : Nat) (s : BiCGState K V)
    (h : s.r = b - A s.x) :
    (∀ s', bicgStep (modOps A At dot norm2) bnrm tol itol i s = .cont s' →
      s'.r = b - A s'.x ∧ s'.z = s'.r) ∧
    (∀ out, bicgStep (modOps A At dot norm2) bnrm tol itol i s = .done out →
      out.ok = true ∧
      Transc.le (bicgErr (modOps A At dot norm2) itol (b - A out.x) (b - A out.x) bnrm) tol = true) := by
  constructor
  · intro s' hs
    unfold bicgStep at hs
    simp only at hs
    rcases ite_eq_cases hs with ⟨_, e⟩ | ⟨_, e⟩
    · simp at e
    simp only [Step.cont.injEq] at e
    subst e
    refine ⟨?_, rfl⟩
    simp only [modOps, h, map_add, map_smul]
    abel
  · intro out hs
    unfold bicgStep at hs
    simp only at hs
    rcases ite_eq_cases hs with ⟨hle, e⟩ | ⟨_, e⟩
    swap
    · simp at e
    simp only [Step.done.injEq] at e
    subst e
    refine ⟨rfl, ?_⟩
    simp only
    rw [← hle]
    congr 2 <;> (simp only [modOps, h, map_add, map_smul]; abel)

/-- **BiCG: success ⇒ the error measure of the true residual passed the test.** -/
theorem bicg_success_sound (b x : V) (maxIter : Nat) (tol : K) (itol : Nat) :
    (solveBiCG (modOps A At dot norm2) b x maxIter tol itol).ok = true →
      Transc.le (bicgErr (modOps A At dot norm2) itol
        (b - A (solveBiCG (modOps A At dot norm2) b x maxIter tol itol).x)
        (b - A (solveBiCG (modOps A At dot norm2) b x maxIter tol itol).x)
        (guardNorm (norm2 b))) tol = true := by
  unfold solveBiCG
  simp only
  split
  · rename_i h0
    intro _
    exact h0
  · intro hok
    have key := iterate_rule (σ := BiCGState K V) (ρ := KOut K V)
      (fun _ s => s.r = b - A s.x ∧ s.z = s.r)
      (fun r => r.ok = true → Transc.le (bicgErr (modOps A At dot norm2) itol
        (b - A r.x) (b - A r.x) (guardNorm (norm2 b))) tol = true)
      (bicgStep (modOps A At dot norm2) (guardNorm (norm2 b)) tol itol)
      (fun s => ⟨false, maxIter, s.err, s.x⟩)
      (by
        intro i s hs
        have := bicgStep_residual A At dot norm2 b (guardNorm (norm2 b)) tol itol i s hs.1
        exact ⟨this.1, fun r hr _ => (this.2 r hr).2⟩)
      (by intro i s _ hf; simp at hf)
      maxIter 1 ⟨x, b - A x, b - A x, b - A x, 0, 0, 1,
        bicgErr (modOps A At dot norm2) itol (b - A x) (b - A x) (guardNorm (norm2 b))⟩ ⟨rfl, rfl⟩
    exact key hok

/-! #### BiCGSTAB -/

/-- one BiCGSTAB iteration keeps `r = b − A x`; every successful exit (the half-step exit, which
    returns `x + alpha • phat` with true residual `r − alpha • A phat`, and the full-step exit) has
    a true residual that passed the test the code applied (`≤` resp. the strict `stabLt`) -/
theorem stabStep_residual (b rtilde : V) (normb tol : K) (i : Nat) (s : StabState K V)
    (h : s.r = b - A s.x) :
    (∀ s', stabStep (modOps A At dot norm2) rtilde normb tol i s = .cont s' → s'.r = b - A s'.x) ∧
    (∀ out, stabStep (modOps A At dot norm2) rtilde normb tol i s = .done out → out.ok = true →
      (Transc.le (norm2 (b - A out.x) / normb) tol = true ∨
       stabLt (norm2 (b - A out.x) / normb) tol = true)) := by
  constructor
  · intro s' hs
    unfold stabStep at hs
    simp only at hs
    rcases ite_eq_cases hs with ⟨_, e⟩ | ⟨_, hs⟩
    · simp at e
    rcases ite_eq_cases hs with ⟨_, e⟩ | ⟨_, hs⟩
    · simp at e
    rcases ite_eq_cases hs with ⟨_, e⟩ | ⟨_, hs⟩
    · simp at e
    rcases ite_eq_cases hs with ⟨_, e⟩ | ⟨_, e⟩
    · simp at e
    simp only [Step.cont.injEq] at e
    subst e
    simp only [modOps, h, map_add, map_smul, map_sub]
    abel
  · intro out hs hok
    unfold stabStep at hs
    simp only at hs
    rcases ite_eq_cases hs with ⟨_, e⟩ | ⟨_, hs⟩
    · simp only [Step.done.injEq] at e
      subst e; simp at hok
    rcases ite_eq_cases hs with ⟨hle, e⟩ | ⟨_, hs⟩
    · simp only [Step.done.injEq] at e
      subst e
      left
      rw [← hle]
      simp only [modOps, h, map_add, map_smul]
      congr 3
      abel
    rcases ite_eq_cases hs with ⟨hlt, e⟩ | ⟨_, hs⟩
    · simp only [Step.done.injEq] at e
      subst e
      right
      rw [stabLt_eq_model, ← hlt]
      simp only [modOps, h, map_add, map_smul, map_sub]
      congr 3
      abel
    rcases ite_eq_cases hs with ⟨_, e⟩ | ⟨_, e⟩
    · simp only [Step.done.injEq] at e
      subst e; simp at hok
    · simp at e

/-- **BiCGSTAB: success ⇒ the true relative residual passed the test the code applied**
    (`≤ tol` at the initial check and the half-step exit, strict `< tol` at the full-step exit). -/
theorem stab_success_sound (b x : V) (maxIter : Nat) (tol : K) :
    (solveBiCGSTAB (modOps A At dot norm2) b x maxIter tol).ok = true →
      (Transc.le (norm2 (b - A (solveBiCGSTAB (modOps A At dot norm2) b x maxIter tol).x) /
          guardNorm (norm2 b)) tol = true ∨
       stabLt (norm2 (b - A (solveBiCGSTAB (modOps A At dot norm2) b x maxIter tol).x) /
          guardNorm (norm2 b)) tol = true) := by
  unfold solveBiCGSTAB
  simp only
  split
  · rename_i h0
    intro _
    exact Or.inl h0
  · intro hok
    have key := iterate_rule (σ := StabState K V) (ρ := KOut K V)
      (fun _ s => s.r = b - A s.x)
      (fun r => r.ok = true →
        (Transc.le (norm2 (b - A r.x) / guardNorm (norm2 b)) tol = true ∨
         stabLt (norm2 (b - A r.x) / guardNorm (norm2 b)) tol = true))
      (stabStep (modOps A At dot norm2) (b - A x) (guardNorm (norm2 b)) tol)
      (fun s => ⟨false, maxIter, s.resid, s.x⟩)
      (by
        intro i s hs
        exact stabStep_residual A At dot norm2 b (b - A x) (guardNorm (norm2 b)) tol i s hs)
      (by intro i s _ hf; simp at hf)
      maxIter 1 ⟨x, b - A x, 0, 0, 1, 1, 1, norm2 (b - A x) / guardNorm (norm2 b)⟩ rfl
    exact key hok

/-! #### QMR -/

/-- the QMR update `qmrUpd` commutes with the linear map `A` -/
theorem qmrUpd_map (i : Nat) (eta c : K) (p d : V) :
    A (qmrUpd (modOps A At dot norm2) i eta p c d) =
      qmrUpd (modOps A At dot norm2) i eta (A p) c (A d) := by
  unfold qmrUpd
  split
  · simp only [modOps, map_add, map_smul]
  · simp only [modOps, map_smul]

/-- the QMR update of `x`, `r` keeps `r = b − A x` provided the auxiliary vector is `A d` -/
theorem qmrUpd_residual (b : V) (i : Nat) (eta c : K) (p x r d sv : V)
    (h : r = b - A x) (hd : sv = A d) :
    (modOps A At dot norm2).sub r
        (qmrUpd (modOps A At dot norm2) i eta ((modOps A At dot norm2).A p) c sv) =
      b - A ((modOps A At dot norm2).add x (qmrUpd (modOps A At dot norm2) i eta p c d)) := by
  subst h hd
  show (b - A x) - qmrUpd (modOps A At dot norm2) i eta (A p) c (A d) =
    b - A (x + qmrUpd (modOps A At dot norm2) i eta p c d)
  rw [map_add, qmrUpd_map]
  abel

/-- one QMR iteration keeps `r = b − A x` and `s = A d`; a `done` exit that reports success has a
    true residual that passed the test -/
theorem qmrStep_residual (b : V) (normb tol : K) (i : Nat) (s : QMRState K V)
    (h : s.r = b - A s.x) (hd : s.s = A s.d) :
    (∀ s', qmrStep (modOps A At dot norm2) normb tol i s = .cont s' →
      s'.r = b - A s'.x ∧ s'.s = A s'.d) ∧
    (∀ out, qmrStep (modOps A At dot norm2) normb tol i s = .done out → out.ok = true →
      Transc.le (norm2 (b - A out.x) / normb) tol = true) := by
  constructor
  · intro s' hs
    unfold qmrStep at hs
    simp only at hs
    rcases ite_eq_cases hs with ⟨_, e⟩ | ⟨_, hs⟩
    · simp at e
    rcases ite_eq_cases hs with ⟨_, e⟩ | ⟨_, hs⟩
    · simp at e
    rcases ite_eq_cases hs with ⟨_, e⟩ | ⟨_, hs⟩
    · simp at e
    rcases ite_eq_cases hs with ⟨_, e⟩ | ⟨_, hs⟩
    · simp at e
    rcases ite_eq_cases hs with ⟨_, e⟩ | ⟨_, hs⟩
    · simp at e
    rcases ite_eq_cases hs with ⟨_, e⟩ | ⟨_, hs⟩
    · simp at e
    rcases ite_eq_cases hs with ⟨_, e⟩ | ⟨_, e⟩
    · simp at e
    simp only [Step.cont.injEq] at e
    subst e
    exact ⟨qmrUpd_residual A At dot norm2 b i _ _ _ s.x s.r s.d s.s h hd,
      by rw [hd]; exact (qmrUpd_map A At dot norm2 i _ _ _ s.d).symm⟩
  · intro out hs hok
    unfold qmrStep at hs
    simp only at hs
    rcases ite_eq_cases hs with ⟨_, e⟩ | ⟨_, hs⟩
    · simp only [Step.done.injEq] at e
      subst e; simp at hok
    rcases ite_eq_cases hs with ⟨_, e⟩ | ⟨_, hs⟩
    · simp only [Step.done.injEq] at e
      subst e; simp at hok
    rcases ite_eq_cases hs with ⟨_, e⟩ | ⟨_, hs⟩
    · simp only [Step.done.injEq] at e
      subst e; simp at hok
    rcases ite_eq_cases hs with ⟨_, e⟩ | ⟨_, hs⟩
    · simp only [Step.done.injEq] at e
      subst e; simp at hok
    rcases ite_eq_cases hs with ⟨_, e⟩ | ⟨_, hs⟩
    · simp only [Step.done.injEq] at e
      subst e; simp at hok
    rcases ite_eq_cases hs with ⟨_, e⟩ | ⟨_, hs⟩
    · simp only [Step.done.injEq] at e
      subst e; simp at hok
    rcases ite_eq_cases hs with ⟨hle, e⟩ | ⟨_, e⟩
    swap
    · simp at e
    simp only [Step.done.injEq] at e
    subst e
    simp only
    refine Eq.trans (congrArg (fun v => Transc.le (norm2 v / normb) tol) ?_) hle
    exact (qmrUpd_residual A At dot norm2 b i _ _ _ s.x s.r s.d s.s h hd).symm

/-- **QMR: success ⇒ the true relative residual passed the test.** -/
theorem qmr_success_sound (b x : V) (maxIter : Nat) (tol : K) :
    (solveQMR (modOps A At dot norm2) b x maxIter tol).ok = true →
      Transc.le (norm2 (b - A (solveQMR (modOps A At dot norm2) b x maxIter tol).x) /
        guardNorm (norm2 b)) tol = true := by
  unfold solveQMR
  simp only
  split
  · rename_i h0
    intro _
    exact h0
  · intro hok
    have key := iterate_rule (σ := QMRState K V) (ρ := KOut K V)
      (fun _ s => s.r = b - A s.x ∧ s.s = A s.d)
      (fun r => r.ok = true → Transc.le (norm2 (b - A r.x) / guardNorm (norm2 b)) tol = true)
      (qmrStep (modOps A At dot norm2) (guardNorm (norm2 b)) tol)
      (fun s => ⟨false, maxIter, s.resid, s.x⟩)
      (by
        intro i s hs
        exact qmrStep_residual A At dot norm2 b (guardNorm (norm2 b)) tol i s hs.1 hs.2)
      (by intro i s _ hf; simp at hf)
      maxIter 1 ⟨x, b - A x, b - A x, b - A x, b - A x, b - A x, 0, 0, 0, 0,
        norm2 (b - A x), norm2 (b - A x), 1, -1, 0, 1, norm2 (b - A x) / guardNorm (norm2 b)⟩
      ⟨rfl, (map_zero A).symm⟩
    exact key hok

end Exact
/-! ### Non-vacuity: the success hypotheses are reachable through the loop (K = V = ℚ) -/
section Examples

/-- a `Transc ℚ` used only by the examples below (`le` is `≤`, `sqrt` is the identity, which is
    correct at the only argument the examples evaluate it at, `sqrt 1 = 1`) -/
@[reducible] private def transcQ : Transc ℚ where
  sqrt := id
  sin := id
  cos := id
  tan := id
  exp := id
  ln := id
  sinh := id
  cosh := id
  fabs := id
  atan2 := fun a _ => a
  powf := fun a _ => a
  fmax := fun a _ => a
  ofNat := fun n => n
  le := fun a b => decide (a ≤ b)
  half := 1 / 2
  piHalf := 0
  eps := 0
  snap := 0

attribute [local instance] transcQ

/-- BiCG succeeds in iteration 1 (not at the initial check) on `1 · x = 1`, `x₀ = 0` -/
example : (solveBiCG (modOps (LinearMap.id : ℚ →ₗ[ℚ] ℚ) id (· * ·) id) 1 0 1 0 1).ok = true ∧
    (solveBiCG (modOps (LinearMap.id : ℚ →ₗ[ℚ] ℚ) id (· * ·) id) 1 0 1 0 1).iters = 1 := by
  have hle : ∀ a b : ℚ, Transc.le a b = decide (a ≤ b) := fun _ _ => rfl
  norm_num [hle, solveBiCG, iterate, bicgStep, bicgErr, bicgDir, guardNorm, modOps]

/-- BiCGSTAB, half-step exit in iteration 1 -/
example : (solveBiCGSTAB (modOps (LinearMap.id : ℚ →ₗ[ℚ] ℚ) id (· * ·) id) 1 0 1 0).ok = true ∧
    (solveBiCGSTAB (modOps (LinearMap.id : ℚ →ₗ[ℚ] ℚ) id (· * ·) id) 1 0 1 0).iters = 1 := by
  have hle : ∀ a b : ℚ, Transc.le a b = decide (a ≤ b) := fun _ _ => rfl
  norm_num [hle, solveBiCGSTAB, iterate, stabStep, stabDir, guardNorm, modOps]

/-- BiCGSTAB, full-step exit (strict comparison) in iteration 1: half-step residual `1/9 > 1/10`,
    full-step residual `9/169 < 1/10` (with a non-bilinear `dot`, which the theorems allow) -/
example : (solveBiCGSTAB (modOps ((2 : ℚ) • LinearMap.id : ℚ →ₗ[ℚ] ℚ) id (fun u v => u * v + 1)
      (fun u => u * u)) 1 0 1 (1 / 10)).ok = true ∧
    (solveBiCGSTAB (modOps ((2 : ℚ) • LinearMap.id : ℚ →ₗ[ℚ] ℚ) id (fun u v => u * v + 1)
      (fun u => u * u)) 1 0 1 (1 / 10)).x = 5 / 13 := by
  have hle : ∀ a b : ℚ, Transc.le a b = decide (a ≤ b) := fun _ _ => rfl
  norm_num [hle, solveBiCGSTAB, iterate, stabStep, stabStep.ScalarLt.lt, stabDir, guardNorm, modOps]

/-- QMR succeeds in iteration 1 -/
example : (solveQMR (modOps (LinearMap.id : ℚ →ₗ[ℚ] ℚ) id (· * ·) id) 1 0 1 0).ok = true ∧
    (solveQMR (modOps (LinearMap.id : ℚ →ₗ[ℚ] ℚ) id (· * ·) id) 1 0 1 0).iters = 1 := by
  have hle : ∀ a b : ℚ, Transc.le a b = decide (a ≤ b) := fun _ _ => rfl
  have hsq : ∀ a : ℚ, Transc.sqrt a = a := fun _ => rfl
  norm_num [hle, hsq, solveQMR, iterate, qmrStep, qmrDir, qmrUpd, guardNorm, modOps]

end Examples

end Ohsl.Props.C08
