/-
  Property C05 (continued) — tridiagonal matrix against its dense twin.
  Model: Ohsl/Model/Tridiag.lean; helper lemmas: Ohsl/Lemmas/Tridiag.lean.

  * `dense t i j`            the dense twin of a tridiagonal matrix
  * (S) `mulVec_rows`        `&T * &v` succeeds for every n ≥ 1 and returns the band expressions
  * (E) `mulVec_spec`        … which are the rows of `dense t · v`
  * (E) `solve_char`         `solve` either meets a vanishing pivot and refuses with `zeroPivot`,
                             or all pivots are non-zero and it returns `u` with `dense t · u = r`
  * (E) `solve_sound`, `solve_refuses`, `solve_ok_iff`, `solve_error_class`
  * (S) `solve_total_structural`, `solve_error_class_structural`
                             no panic class other than `zeroPivot` / `size`, for any scalar type
                             whose `/` cannot fail on a divisor that passed the `== 0` test
  * (E) `det_spec`, `det_correct`  `det` = `Matrix.det` of the dense twin (general n)
-/
import Ohsl.Props.C05
import Ohsl.Lemmas.Alg
import Ohsl.Lemmas.Tridiag
import Mathlib.Algebra.BigOperators.Group.Finset.Basic
import Mathlib.Algebra.BigOperators.Ring.Finset
import Mathlib.Tactic.Ring
import Mathlib.LinearAlgebra.Matrix.Determinant.Basic
set_option linter.unusedSectionVars false
set_option linter.unusedVariables false
set_option linter.unusedSimpArgs false
namespace Ohsl.Props.C05
open Ohsl Ohsl.Tri

/-- the dense twin: entry (i,j) is `main[i]` on the diagonal, `sub[j]` just below it,
    `sup[i]` just above it and 0 elsewhere -/
def dense {K : Type} [Zero K] (t : Tri K) (i j : Nat) : K :=
  if i = j then t.main[i]?.getD 0
  else if i = j + 1 then t.sub[j]?.getD 0
  else if i + 1 = j then t.sup[i]?.getD 0
  else 0

theorem dense_eq_triEntry {K : Type} [Zero K] (t : Tri K) :
    dense t = triEntry (fun k => t.sub[k]?.getD 0) (fun k => t.main[k]?.getD 0)
      (fun k => t.sup[k]?.getD 0) := rfl

section Structural
variable {K : Type} [Add K] [Sub K] [Mul K] [Neg K] [Zero K] [One K] [BEq K] [ScalarExt K]

/-- the expression `&T * &v` computes for row `i` (first and last rows have two terms, the 1×1
    case one term) -/
def rowExpr (t : Tri K) (v : Array K) (i : Nat) : K :=
  if t.n = 1 then t.main[0]?.getD 0 * v[0]?.getD 0
  else if i = 0 then t.main[0]?.getD 0 * v[0]?.getD 0 + t.sup[0]?.getD 0 * v[1]?.getD 0
  else if i = t.n - 1 then
    t.sub[t.n - 2]?.getD 0 * v[t.n - 2]?.getD 0 + t.main[t.n - 1]?.getD 0 * v[t.n - 1]?.getD 0
  else t.sub[i - 1]?.getD 0 * v[i - 1]?.getD 0 + t.main[i]?.getD 0 * v[i]?.getD 0
    + t.sup[i]?.getD 0 * v[i + 1]?.getD 0

/-- (S) `&T * &v` succeeds for every well-formed `T` of size n ≥ 1 (including n = 1, n = 2) and
    every `v` of length n; row `i` of the result is the band expression `rowExpr t v i`. -/
theorem mulVec_rows (t : Tri K) (h : WF t) (v : Array K) (hv : v.size = t.n) :
    ∃ w, mulVec t v = .ok w ∧ w.size = t.n ∧ ∀ i, i < t.n → w[i]? = some (rowExpr t v i) := by
  have hpos := h.pos
  have hm := h.main
  have hsb := h.sub
  have hsp := h.sup
  have hne : ¬ t.n ≠ v.size := by omega
  unfold mulVec
  simp only [hne, if_false]
  by_cases h1 : t.n = 1
  · -- 1 × 1
    simp only [h1, if_true]
    rw [aget_getD (by omega : 0 < t.main.size), aget_getD (by omega : 0 < v.size)]
    simp only [bind, Except.bind]
    rw [Mat.aset_ok _ (by simp)]
    refine ⟨_, rfl, by simp, ?_⟩
    intro i hi
    have : i = 0 := by omega
    subst this
    simp [rowExpr, h1]
  · simp only [h1, if_false]
    have hn2 : 2 ≤ t.n := by omega
    rw [aget_getD (by omega : 0 < t.main.size), aget_getD (by omega : 0 < v.size),
      aget_getD (by omega : 0 < t.sup.size), aget_getD (by omega : 1 < v.size)]
    simp only [bind, Except.bind]
    rw [Mat.aset_ok _ (by simp; omega)]
    have hus : usub t.n 1 = .ok (t.n - 1) := by simp [usub, hpos]
    simp only [hus]
    -- middle rows
    obtain ⟨w1, hw1, hsz, hP⟩ := Mat.forM'_inv
      (fun k (s : Array K) => s.size = t.n ∧ ∀ i, i < k → s[i]? = some (rowExpr t v i))
      1 (t.n - 1)
      ((Array.replicate t.n (0 : K)).setIfInBounds 0
        (t.main[0]?.getD 0 * v[0]?.getD 0 + t.sup[0]?.getD 0 * v[1]?.getD 0))
      (fun res i => do
        let a ← aget t.sub (i - 1)
        let x ← aget v (i - 1)
        let b ← aget t.main i
        let y ← aget v i
        let c ← aget t.sup i
        let z ← aget v (i + 1)
        aset res i (a * x + b * y + c * z))
      (by omega)
      (by
        refine ⟨by simp, ?_⟩
        intro i hi
        have : i = 0 := by omega
        subst this
        have : 0 < t.n := by omega
        simp [rowExpr, h1, this])
      (by
        intro k s hk1 hk2 ⟨hs, hrows⟩
        rw [aget_getD (by omega : k - 1 < t.sub.size), aget_getD (by omega : k - 1 < v.size),
          aget_getD (by omega : k < t.main.size), aget_getD (by omega : k < v.size),
          aget_getD (by omega : k < t.sup.size), aget_getD (by omega : k + 1 < v.size)]
        simp only [bind, Except.bind]
        rw [Mat.aset_ok _ (by omega)]
        refine ⟨_, rfl, by simpa using hs, ?_⟩
        intro i hi
        by_cases hik : i = k
        · subst hik
          have e0 : ¬ i = 0 := by omega
          have e1 : ¬ i = t.n - 1 := by omega
          have : i < s.size := by omega
          simp [rowExpr, h1, e0, e1, this]
        · have hki : ¬ k = i := fun e => hik e.symm
          rw [Array.getElem?_setIfInBounds]
          simp only [hki, if_false]
          exact hrows i (by omega))
    have hw1' := hw1
    simp only [bind, Except.bind] at hw1' ⊢
    rw [hw1']
    rw [aget_getD (by omega : t.n - 2 < t.sub.size), aget_getD (by omega : t.n - 2 < v.size),
      aget_getD (by omega : t.n - 1 < t.main.size), aget_getD (by omega : t.n - 1 < v.size)]
    simp only []
    rw [Mat.aset_ok _ (by omega)]
    refine ⟨_, rfl, by simpa using hsz, ?_⟩
    intro i hi
    by_cases hik : i = t.n - 1
    · subst hik
      have e0 : ¬ t.n - 1 = 0 := by omega
      have : t.n - 1 < w1.size := by omega
      simp [rowExpr, h1, e0, this]
    · have hki : ¬ t.n - 1 = i := fun e => hik e.symm
      rw [Array.getElem?_setIfInBounds]
      simp only [hki, if_false]
      exact hP i (by omega)

/-- (S) **`solve` never panics in any class other than `zeroPivot`** on a well-formed matrix and a
    right-hand side of the right length, for ANY scalar type whose `/` cannot fail on a divisor
    that passed the `== 0` test (IEEE floats: `/` never fails; exact types: `/` fails only on an
    exact zero): it either returns a vector of length n or refuses with `zeroPivot`. -/
theorem solve_total_structural (t : Tri K) (h : WF t) (r : Array K) (hr : t.n = r.size)
    (hdiv : ∀ a b : K, (b == 0) = false → ∃ q, divM a b = .ok q) :
    (∃ u, solve t r = .ok u ∧ u.size = t.n) ∨ solve t r = .error .zeroPivot := by
  have hpos := h.pos
  have hm := h.main
  have hsb := h.sub
  have hsp := h.sup
  have hne : ¬ t.n ≠ r.size := by omega
  unfold solve
  simp only [hne, if_false]
  rw [aget_getD (by omega : 0 < t.main.size)]
  simp only [bind, Except.bind]
  cases hb0 : (t.main[0]?.getD 0 == 0)
  · simp only [Bool.false_eq_true, if_false]
    obtain ⟨q0, hq0⟩ := hdiv (r[0]?.getD 0) _ hb0
    rw [aget_getD (by omega : 0 < r.size)]
    simp only []
    rw [hq0]
    simp only []
    rw [Mat.aset_ok _ (by simp; omega)]
    simp only []
    have hus : usub t.n 1 = .ok (t.n - 1) := by simp [usub, hpos]
    rcases Mat.forM'_inv_err
      (fun _ (s : Sweep K) => s.gamma.size = t.n ∧ s.u.size = t.n ∧ (s.beta == 0) = false)
      (fun e => e = .zeroPivot) 1 t.n
      (⟨t.main[0]?.getD 0, Array.replicate t.n 0,
        (Array.replicate t.n (0 : K)).setIfInBounds 0 q0⟩ : Sweep K)
      (fun s j => do
        let c ← aget (t.sup.push 0) (j - 1)
        let g ← divM c s.beta
        let gamma ← aset s.gamma j g
        let mj ← aget t.main j
        let aj ← aget (#[(0 : K)] ++ t.sub) j
        let beta := mj - aj * g
        if beta == 0 then .error .zeroPivot
        else do
          let rj ← aget r j
          let ujm1 ← aget s.u (j - 1)
          let q ← divM (rj - aj * ujm1) beta
          let u ← aset s.u j q
          pure ⟨beta, gamma, u⟩)
      hpos ⟨by simp, by simp, hb0⟩
      (by
        rintro i ⟨beta, gamma, u⟩ hi1 hi2 ⟨hgs, hus', hbeta⟩
        simp only at hgs hus' hbeta
        obtain ⟨m, rfl⟩ : ∃ m, i = m + 1 := ⟨i - 1, by omega⟩
        simp only [Nat.add_sub_cancel]
        obtain ⟨g, hg⟩ := hdiv (t.sup[m]?.getD 0) beta hbeta
        simp only [aget_push_lt _ _ (by omega : m < t.sup.size), hg,
          Mat.aset_ok _ (by omega : m + 1 < gamma.size),
          aget_getD (by omega : m + 1 < t.main.size),
          aget_singleton_append_succ _ _ (by omega : m < t.sub.size), bind, Except.bind]
        cases hz : (t.main[m + 1]?.getD 0 - t.sub[m]?.getD 0 * g == 0)
        · left
          obtain ⟨q, hq⟩ := hdiv (r[m + 1]?.getD 0 - t.sub[m]?.getD 0 * u[m]?.getD 0) _ hz
          simp only [Bool.false_eq_true, if_false,
            aget_getD (by omega : m + 1 < r.size), aget_getD (by omega : m < u.size),
            hq, Mat.aset_ok _ (by omega : m + 1 < u.size), pure, Except.pure]
          exact ⟨_, rfl, by simpa using hgs, by simpa using hus', hz⟩
        · right
          simp only [if_true]
          exact ⟨_, rfl, rfl⟩)
      with ⟨s, hs, hgs, hus', _⟩ | ⟨e, he, rfl⟩
    · left
      have hs' := hs
      simp only [bind, Except.bind, pure, Except.pure] at hs' ⊢
      rw [hs']
      simp only [hus]
      obtain ⟨u, hu, hQ⟩ := foldlM_range_reverse_inv (fun _ (u : Array K) => u.size = t.n)
        (fun u j => do
          let g ← aget s.gamma (j + 1)
          let uj1 ← aget u (j + 1)
          let uj ← aget u j
          aset u j (uj - g * uj1))
        (t.n - 1) s.u hus'
        (by
          intro j u hj hsz
          simp only [aget_getD (by omega : j + 1 < s.gamma.size),
            aget_getD (by omega : j + 1 < u.size), aget_getD (by omega : j < u.size),
            Mat.aset_ok _ (by omega : j < u.size), bind, Except.bind]
          exact ⟨_, rfl, by simpa using hsz⟩)
      have hu' := hu
      simp only [bind, Except.bind, pure, Except.pure] at hu' ⊢
      exact ⟨u, hu', hQ⟩
    · right
      have he' := he
      simp only [bind, Except.bind, pure, Except.pure] at he' ⊢
      rw [he']
  · right
    simp only [if_true]

/-- (S) the only panic classes of `solve` on a well-formed matrix are the two explicit refusals:
    `size` (right-hand side of the wrong length) and `zeroPivot`. -/
theorem solve_error_class_structural (t : Tri K) (h : WF t) (r : Array K)
    (hdiv : ∀ a b : K, (b == 0) = false → ∃ q, divM a b = .ok q) (e : Err)
    (he : solve t r = .error e) : e = .zeroPivot ∨ e = .size := by
  by_cases hr : t.n = r.size
  · rcases solve_total_structural t h r hr hdiv with ⟨u, hu, _⟩ | hz
    · rw [hu] at he; cases he
    · rw [hz] at he; cases he; exact Or.inl rfl
  · rw [solve_rejects_size t r hr] at he
    cases he; exact Or.inr rfl

end Structural

section Exact
variable {K : Type} [Field K] [LinearOrder K]
attribute [local instance] Alg.scalarExt
open Finset

/-- the band expression is the row of the dense twin times the vector -/
theorem rowExpr_eq_sum (t : Tri K) (h : WF t) (v : Array K) (i : Nat) (hi : i < t.n) :
    rowExpr t v i = ∑ j ∈ range t.n, dense t i j * v[j]?.getD 0 := by
  rw [dense_eq_triEntry, triEntry_row_sum _ _ _ (fun j => v[j]?.getD 0) t.n i hi]
  unfold rowExpr
  by_cases h1 : t.n = 1
  · have : i = 0 := by omega
    subst this
    simp [h1]
  · by_cases h0 : i = 0
    · subst h0
      have : 0 + 1 < t.n := by omega
      simp [h1, this]
    · by_cases hl : i = t.n - 1
      · have e1 : 0 < i := by omega
        have e2 : ¬ i + 1 < t.n := by omega
        have e3 : i - 1 = t.n - 2 := by omega
        subst hl
        simp [h1, h0, e1, e2, e3]
      · have e1 : 0 < i := by omega
        have e2 : i + 1 < t.n := by omega
        simp [h1, h0, hl, e1, e2]

/-- (E) **matrix–vector product = dense twin times vector**, for every n ≥ 1 (n = 1 and n = 2
    included): the call succeeds, the result has length n and `w[i] = Σ_{j<n} dense t i j · v[j]`. -/
theorem mulVec_spec (t : Tri K) (h : WF t) (v : Array K) (hv : v.size = t.n) :
    ∃ w, mulVec t v = .ok w ∧ w.size = t.n ∧
      ∀ i, i < t.n → w[i]? = some (∑ j ∈ range t.n, dense t i j * v[j]?.getD 0) := by
  obtain ⟨w, hw, hs, hr⟩ := mulVec_rows t h v hv
  refine ⟨w, hw, hs, fun i hi => ?_⟩
  rw [hr i hi, rowExpr_eq_sum t h v i hi]

/-! ### `solve` : Thomas algorithm -/

/-- the pivots of the elimination: `β₀ = main[0]`, `βⱼ₊₁ = main[j+1] − sub[j]·(sup[j]/βⱼ)` -/
def pivot (t : Tri K) : Nat → K :=
  thBeta (fun k => t.sub[k]?.getD 0) (fun k => t.main[k]?.getD 0) (fun k => t.sup[k]?.getD 0)
/-- the multipliers `γⱼ₊₁ = sup[j]/βⱼ` -/
def mult (t : Tri K) : Nat → K :=
  thGamma (fun k => t.sub[k]?.getD 0) (fun k => t.main[k]?.getD 0) (fun k => t.sup[k]?.getD 0)
/-- the forward-substituted right-hand side -/
def fwd (t : Tri K) (r : Array K) : Nat → K :=
  thY (fun k => t.sub[k]?.getD 0) (fun k => t.main[k]?.getD 0) (fun k => t.sup[k]?.getD 0)
    (fun k => r[k]?.getD 0)

theorem pivot_zero (t : Tri K) : pivot t 0 = t.main[0]?.getD 0 := rfl
theorem pivot_succ (t : Tri K) (j : Nat) :
    pivot t (j + 1) = t.main[j + 1]?.getD 0 - t.sub[j]?.getD 0 * (t.sup[j]?.getD 0 / pivot t j) := rfl
theorem mult_succ (t : Tri K) (j : Nat) : mult t (j + 1) = t.sup[j]?.getD 0 / pivot t j := rfl
theorem fwd_zero (t : Tri K) (r : Array K) : fwd t r 0 = r[0]?.getD 0 / pivot t 0 := rfl
theorem fwd_succ (t : Tri K) (r : Array K) (j : Nat) :
    fwd t r (j + 1) = (r[j + 1]?.getD 0 - t.sub[j]?.getD 0 * fwd t r j) / pivot t (j + 1) := rfl

/-- forward-sweep invariant -/
structure SweepInv (t : Tri K) (r : Array K) (k : Nat) (s : Sweep K) : Prop where
  gsize : s.gamma.size = t.n
  usize : s.u.size = t.n
  beta : s.beta = pivot t (k - 1)
  piv : ∀ j, j < k → pivot t j ≠ 0
  gam : ∀ j, j < k → s.gamma[j]?.getD 0 = mult t j
  fw : ∀ j, j < k → s.u[j]?.getD 0 = fwd t r j

/-- back-substitution invariant: rows `m … n-1` already satisfy the bidiagonal system -/
structure BackInv (t : Tri K) (r : Array K) (m : Nat) (u : Array K) : Prop where
  usize : u.size = t.n
  low : ∀ j, j < m → u[j]?.getD 0 = fwd t r j
  last : u[t.n - 1]?.getD 0 = fwd t r (t.n - 1)
  rel : ∀ j, m ≤ j → j + 1 < t.n → u[j]?.getD 0 = fwd t r j - mult t (j + 1) * u[j + 1]?.getD 0

/-- (E) **complete description of `solve`** for a well-formed matrix and a right-hand side of the
    right length: either every pivot is non-zero and the call returns `u` of length n with
    `dense t · u = r` exactly, or some pivot vanishes and the call refuses with `zeroPivot`. -/
theorem solve_char (t : Tri K) (h : WF t) (r : Array K) (hr : t.n = r.size) :
    ((∀ j, j < t.n → pivot t j ≠ 0) ∧ ∃ u, solve t r = .ok u ∧ u.size = t.n ∧
        ∀ i, i < t.n → ∑ j ∈ range t.n, dense t i j * u[j]?.getD 0 = r[i]?.getD 0) ∨
    ((∃ j, j < t.n ∧ pivot t j = 0) ∧ solve t r = .error .zeroPivot) := by
  have hpos := h.pos
  have hm := h.main
  have hsb := h.sub
  have hsp := h.sup
  have hne : ¬ t.n ≠ r.size := by omega
  unfold solve
  simp only [hne, if_false]
  rw [aget_getD (by omega : 0 < t.main.size)]
  simp only [bind, Except.bind]
  by_cases hb0 : t.main[0]?.getD 0 = 0
  · right
    refine ⟨⟨0, by omega, hb0⟩, ?_⟩
    have : (t.main[0]?.getD 0 == 0) = true := by simpa using hb0
    simp only [this, if_true]
  · have hbeq : (t.main[0]?.getD 0 == 0) = false := by simpa using hb0
    simp only [hbeq, Bool.false_eq_true, if_false]
    rw [aget_getD (by omega : 0 < r.size)]
    simp only []
    rw [Alg.divM_ne hb0]
    simp only []
    rw [Mat.aset_ok _ (by simp; omega)]
    simp only []
    have hus : usub t.n 1 = .ok (t.n - 1) := by simp [usub, hpos]
    rcases Mat.forM'_inv_err (SweepInv t r)
      (fun e => e = .zeroPivot ∧ ∃ j, j < t.n ∧ pivot t j = 0) 1 t.n
      (⟨t.main[0]?.getD 0, Array.replicate t.n 0,
        (Array.replicate t.n (0 : K)).setIfInBounds 0 (r[0]?.getD 0 / t.main[0]?.getD 0)⟩ : Sweep K)
      (fun s j => do
        let c ← aget (t.sup.push 0) (j - 1)
        let g ← divM c s.beta
        let gamma ← aset s.gamma j g
        let mj ← aget t.main j
        let aj ← aget (#[(0 : K)] ++ t.sub) j
        let beta := mj - aj * g
        if beta == 0 then .error .zeroPivot
        else do
          let rj ← aget r j
          let ujm1 ← aget s.u (j - 1)
          let q ← divM (rj - aj * ujm1) beta
          let u ← aset s.u j q
          pure ⟨beta, gamma, u⟩)
      hpos
      (by
        refine ⟨by simp, by simp, rfl, ?_, ?_, ?_⟩
        · intro j hj
          have : j = 0 := by omega
          subst this; exact hb0
        · intro j hj
          have : j = 0 := by omega
          subst this
          have : 0 < t.n := by omega
          simp [this, mult, thGamma]
        · intro j hj
          have : j = 0 := by omega
          subst this
          have : 0 < t.n := by omega
          simp [this, fwd_zero, pivot_zero])
      (by
        rintro i ⟨beta, gamma, u⟩ hi1 hi2 ⟨hgs, hus', hbeta, hpiv, hgam, hfw⟩
        obtain ⟨m, rfl⟩ : ∃ m, i = m + 1 := ⟨i - 1, by omega⟩
        simp only [Nat.add_sub_cancel] at hbeta ⊢
        simp only at hgs hus' hbeta hgam hfw
        subst hbeta
        have hpm : pivot t m ≠ 0 := hpiv m (by omega)
        simp only [aget_push_lt _ _ (by omega : m < t.sup.size), Alg.divM_ne hpm,
          Mat.aset_ok _ (by omega : m + 1 < gamma.size),
          aget_getD (by omega : m + 1 < t.main.size),
          aget_singleton_append_succ _ _ (by omega : m < t.sub.size), bind, Except.bind]
        rw [← pivot_succ t m]
        by_cases hz : pivot t (m + 1) = 0
        · right
          have : (pivot t (m + 1) == 0) = true := by simpa using hz
          simp only [this, if_true]
          exact ⟨_, rfl, rfl, m + 1, hi2, hz⟩
        · left
          have hbq : (pivot t (m + 1) == 0) = false := by simpa using hz
          simp only [hbq, Bool.false_eq_true, if_false,
            aget_getD (by omega : m + 1 < r.size), aget_getD (by omega : m < u.size),
            Alg.divM_ne hz, Mat.aset_ok _ (by omega : m + 1 < u.size), pure, Except.pure]
          refine ⟨_, rfl, ?_⟩
          refine ⟨by simpa using hgs, by simpa using hus', rfl, ?_, ?_, ?_⟩
          · intro j hj
            by_cases hjm : j = m + 1
            · subst hjm; exact hz
            · exact hpiv j (by omega)
          · intro j hj
            simp only
            rw [getD_setIfInBounds _ _ _ _ (by omega)]
            by_cases hjm : j = m + 1
            · subst hjm; simp [mult_succ]
            · simp only [hjm, if_false]; exact hgam j (by omega)
          · intro j hj
            simp only
            rw [getD_setIfInBounds _ _ _ _ (by omega)]
            by_cases hjm : j = m + 1
            · subst hjm
              simp only [if_true]
              rw [hfw m (by omega), fwd_succ]
            · simp only [hjm, if_false]; exact hfw j (by omega))
      with ⟨s, hs, hP⟩ | ⟨e, he, rfl, hE⟩
    · -- forward sweep succeeded: back substitution
      left
      refine ⟨hP.piv, ?_⟩
      have hs' := hs
      simp only [bind, Except.bind, pure, Except.pure] at hs' ⊢
      rw [hs']
      simp only [hus]
      obtain ⟨u, hu, hQ⟩ := foldlM_range_reverse_inv (BackInv t r)
        (fun u j => do
          let g ← aget s.gamma (j + 1)
          let uj1 ← aget u (j + 1)
          let uj ← aget u j
          aset u j (uj - g * uj1))
        (t.n - 1) s.u
        ⟨hP.usize, fun j hj => hP.fw j (by omega), hP.fw _ (by omega), fun j h1 h2 => by omega⟩
        (by
          intro j u hj ⟨hsz, hlow, hlast, hrel⟩
          rw [aget_getD (by rw [hP.gsize]; omega : j + 1 < s.gamma.size),
            aget_getD (by omega : j + 1 < u.size), aget_getD (by omega : j < u.size)]
          simp only [bind, Except.bind]
          rw [Mat.aset_ok _ (by omega : j < u.size)]
          refine ⟨_, rfl, ?_⟩
          refine ⟨by simpa using hsz, ?_, ?_, ?_⟩
          · intro i hi
            rw [getD_setIfInBounds _ _ _ _ (by omega)]
            have : ¬ i = j := by omega
            simp only [this, if_false]; exact hlow i (by omega)
          · rw [getD_setIfInBounds _ _ _ _ (by omega)]
            have : ¬ t.n - 1 = j := by omega
            simp only [this, if_false]; exact hlast
          · intro i hi1 hi2
            rw [getD_setIfInBounds _ _ _ _ (by omega), getD_setIfInBounds _ _ _ _ (by omega)]
            have e1 : ¬ i + 1 = j := by omega
            simp only [e1, if_false]
            by_cases hij : i = j
            · subst hij
              simp only [if_true]
              rw [hlow i (by omega), hP.gam (i + 1) (by omega)]
            · simp only [hij, if_false]
              exact hrel i (by omega) hi2)
      have hu' := hu
      simp only [bind, Except.bind, pure, Except.pure] at hu' ⊢
      refine ⟨u, hu', hQ.usize, ?_⟩
      intro i hi
      rw [dense_eq_triEntry, triEntry_row_sum _ _ _ (fun j => u[j]?.getD 0) t.n i hi]
      exact thomas_row _ _ _ (fun k => r[k]?.getD 0) (fun j => u[j]?.getD 0) t.n hP.piv hQ.last
        (fun j hj => hQ.rel j (Nat.zero_le _) hj) i hi
    · right
      refine ⟨hE, ?_⟩
      have he' := he
      simp only [bind, Except.bind, pure, Except.pure] at he' ⊢
      rw [he']

/-- (E) over an exact field `/` fails only on an exact zero divisor -/
theorem divM_ok_of_beq_false (a b : K) (hb : (b == 0) = false) : ∃ q, divM a b = .ok q := by
  have : b ≠ 0 := by simpa using hb
  exact ⟨a / b, Alg.divM_ne this⟩

/-- (E) **soundness of `solve`**: whenever the call returns a vector `u`, it has length n and
    `dense t · u = r` holds exactly (row by row). -/
theorem solve_sound (t : Tri K) (h : WF t) (r u : Array K) (hu : solve t r = .ok u) :
    u.size = t.n ∧ ∀ i, i < t.n → ∑ j ∈ range t.n, dense t i j * u[j]?.getD 0 = r[i]?.getD 0 := by
  by_cases hr : t.n = r.size
  · rcases solve_char t h r hr with ⟨_, u', hu', hs, hrow⟩ | ⟨_, hz⟩
    · rw [hu] at hu'
      cases hu'
      exact ⟨hs, hrow⟩
    · rw [hu] at hz; cases hz
  · rw [solve_rejects_size t r hr] at hu; cases hu

/-- (E) **`solve` refuses rather than lies**: for a right-hand side of the right length it returns
    `zeroPivot` exactly when `main[0] = 0` or a later pivot `βⱼ` vanishes, and in that case it
    never returns a value. -/
theorem solve_refuses (t : Tri K) (h : WF t) (r : Array K) (hr : t.n = r.size) :
    (solve t r = .error .zeroPivot ↔ ∃ j, j < t.n ∧ pivot t j = 0) ∧
    ((∃ j, j < t.n ∧ pivot t j = 0) → ∀ u, solve t r ≠ .ok u) := by
  rcases solve_char t h r hr with ⟨hp, u, hu, _⟩ | ⟨hz, he⟩
  · refine ⟨⟨fun he => ?_, fun ⟨j, hj, hz⟩ => absurd hz (hp j hj)⟩,
      fun ⟨j, hj, hz⟩ => absurd hz (hp j hj)⟩
    rw [hu] at he; cases he
  · refine ⟨⟨fun _ => hz, fun _ => he⟩, fun _ u hu => ?_⟩
    rw [he] at hu; cases hu

/-- (E) `solve` returns a value exactly when the lengths agree and no pivot vanishes -/
theorem solve_ok_iff (t : Tri K) (h : WF t) (r : Array K) :
    (∃ u, solve t r = .ok u) ↔ t.n = r.size ∧ ∀ j, j < t.n → pivot t j ≠ 0 := by
  constructor
  · rintro ⟨u, hu⟩
    by_cases hr : t.n = r.size
    · rcases solve_char t h r hr with ⟨hp, _⟩ | ⟨_, he⟩
      · exact ⟨hr, hp⟩
      · rw [he] at hu; cases hu
    · rw [solve_rejects_size t r hr] at hu; cases hu
  · rintro ⟨hr, hp⟩
    rcases solve_char t h r hr with ⟨_, u, hu, _⟩ | ⟨⟨j, hj, hz⟩, _⟩
    · exact ⟨u, hu⟩
    · exact absurd hz (hp j hj)

/-- (E) no other panic class can arise from `solve` on a well-formed matrix -/
theorem solve_error_class (t : Tri K) (h : WF t) (r : Array K) (e : Err)
    (he : solve t r = .error e) : e = .zeroPivot ∨ e = .size :=
  solve_error_class_structural t h r divM_ok_of_beq_false e he

/-! ### `det` : three-term recurrence = determinant of the dense twin -/

/-- the dense twin as a Mathlib matrix -/
def denseMatrix (t : Tri K) : Matrix (Fin t.n) (Fin t.n) K :=
  Matrix.of fun i j => dense t i.val j.val

theorem denseMatrix_apply (t : Tri K) (i j : Fin t.n) : denseMatrix t i j = dense t i.val j.val := rfl

/-- (E) `det` succeeds on every well-formed matrix and returns the determinant of the dense twin
    (Laplace expansion along the last row gives the three-term recurrence the code runs). -/
theorem det_spec (t : Tri K) (h : WF t) : Tri.det t = .ok (Matrix.det (denseMatrix t)) := by
  have hpos := h.pos
  have hm := h.main
  have hsb := h.sub
  have hsp := h.sup
  have hD : Matrix.det (denseMatrix t) = triDet (fun k => t.sub[k]?.getD 0)
      (fun k => t.main[k]?.getD 0) (fun k => t.sup[k]?.getD 0) t.n := by
    have e : denseMatrix t = triMatrix (fun k => t.sub[k]?.getD 0)
      (fun k => t.main[k]?.getD 0) (fun k => t.sup[k]?.getD 0) t.n := rfl
    rw [e]; exact triMatrix_det _ _ _ t.n
  rw [hD]
  unfold Tri.det
  rw [aget_getD (by omega : 0 < t.main.size)]
  have hlt : ¬ t.n + 1 < 2 := by omega
  simp only [bind, Except.bind, hlt, if_false]
  obtain ⟨s, hs, hP1, hP2⟩ := Mat.forM'_inv
    (fun j (s : K × K) =>
      s.1 = triDet (fun k => t.sub[k]?.getD 0) (fun k => t.main[k]?.getD 0)
        (fun k => t.sup[k]?.getD 0) (j - 2) ∧
      s.2 = triDet (fun k => t.sub[k]?.getD 0) (fun k => t.main[k]?.getD 0)
        (fun k => t.sup[k]?.getD 0) (j - 1))
    2 (t.n + 1) ((1 : K), t.main[0]?.getD 0 * 1)
    (fun (fjm2, fjm1) j => do
      let mj ← aget t.main (j - 1)
      let sb ← aget t.sub (j - 2)
      let sp ← aget t.sup (j - 2)
      pure (fjm1, mj * fjm1 - sb * sp * fjm2))
    (by omega)
    ⟨rfl, by simp [triDet]⟩
    (by
      rintro j ⟨p, q⟩ hj1 hj2 ⟨hp, hq⟩
      obtain ⟨m, rfl⟩ : ∃ m, j = m + 2 := ⟨j - 2, by omega⟩
      simp only [Nat.add_sub_cancel] at hp hq ⊢
      have e1 : m + 2 - 1 = m + 1 := by omega
      have e2 : m + 2 + 1 - 2 = m + 1 := by omega
      have e3 : m + 2 + 1 - 1 = m + 2 := by omega
      rw [e1] at hq
      simp only [e1, e2, e3]
      subst hp hq
      simp only [aget_getD (by omega : m + 1 < t.main.size),
        aget_getD (by omega : m < t.sub.size), aget_getD (by omega : m < t.sup.size),
        bind, Except.bind, pure, Except.pure]
      exact ⟨_, rfl, rfl, rfl⟩)
  have hs' := hs
  simp only [bind, Except.bind, pure, Except.pure] at hs' ⊢
  rw [hs']
  simp only [Nat.add_sub_cancel] at hP2
  simp only [hP2]

/-- (E) **`det` is the determinant of the dense twin** -/
theorem det_correct (t : Tri K) (h : WF t) (d : K) (hd : Tri.det t = .ok d) :
    d = Matrix.det (denseMatrix t) := by
  rw [det_spec t h] at hd
  cases hd; rfl

end Exact

/-! ### non-vacuity: a 3×3 system over ℚ that is solved, and a singular 2×2 one that is refused -/
section Examples
attribute [local instance] Alg.scalarExt

def T3 : Tri ℚ := ⟨#[1, 1], #[2, 2, 2], #[1, 1], 3⟩
def S2 : Tri ℚ := ⟨#[1], #[1, 1], #[1], 2⟩

theorem T3_wf : WF T3 := ⟨by decide, rfl, rfl, rfl⟩
theorem S2_wf : WF S2 := ⟨by decide, rfl, rfl, rfl⟩

theorem T3_pivots : ∀ j, j < T3.n → pivot T3 j ≠ 0 := by
  intro j hj
  have hj' : j < 3 := hj
  have h0 : pivot T3 0 = 2 := by simp [pivot, thBeta, T3]
  have h1 : pivot T3 1 = 3 / 2 := by rw [pivot_succ, h0]; simp [T3]; norm_num
  have h2 : pivot T3 2 = 4 / 3 := by rw [pivot_succ, h1]; simp [T3]; norm_num
  obtain rfl | rfl | rfl : j = 0 ∨ j = 1 ∨ j = 2 := by omega
  · rw [h0]; norm_num
  · rw [h1]; norm_num
  · rw [h2]; norm_num

/-- the hypotheses of `solve_sound` are satisfiable: `solve` returns a value on `T3` -/
example : ∃ u, solve T3 #[1, 2, 3] = .ok u :=
  (solve_ok_iff T3 T3_wf #[1, 2, 3]).mpr ⟨rfl, T3_pivots⟩

/-- the refusal branch is reachable with a non-zero leading pivot: [[1,1],[1,1]] -/
example : solve S2 #[1, 2] = .error .zeroPivot :=
  ((solve_refuses S2 S2_wf #[1, 2] rfl).1).mpr ⟨1, by decide, by
    rw [pivot_succ, pivot_zero]; simp [S2]⟩

example : Tri.det T3 = .ok 4 := by
  rw [det_spec T3 T3_wf]
  congr 1
  have e : denseMatrix T3 = triMatrix (fun k => T3.sub[k]?.getD 0)
      (fun k => T3.main[k]?.getD 0) (fun k => T3.sup[k]?.getD 0) T3.n := rfl
  rw [e, triMatrix_det]
  show triDet _ _ _ 3 = 4
  simp [triDet, T3]; norm_num
end Examples

end Ohsl.Props.C05
