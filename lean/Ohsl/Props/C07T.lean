/-
  Property C07 (sparse products), part T: the transposed product — model: Ohsl/Model/Sparse.lean.
  Class (E), `K` a commutative semiring (`Sub`, `Neg`, `BEq`, `ScalarExt` arbitrary: unused by the
  code).  For a well-formed CSC storage `s` (`Sp.WF`, Ohsl/Lemmas/SparseSpec.lean):
  * multiplying by the EXPLICIT transpose is the transposed product:
    `multiply (transpose s) y = transpose_multiply s y` (`transpose_multiply`);
  * component `j` of `transpose_multiply s y` is `Σ_{i<rows} entry s i j * y[i]`, component `i` of
    `multiply s x` is `Σ_{j<cols} entry s i j * x[j]` (`transposeMultiply_entry`, `multiply_entry`;
    `Sp.entry` is the denoted entry, duplicates summed — no duplicate-freeness is needed);
  * for duplicate-free storage the transposed product is the dense product of the (dense)
    transpose of `to_dense` (`transposeMultiply_eq_dense`), and so is the product with the explicit
    sparse transpose (`transpose_multiply_eq_dense`);
  * the adjoint identity ⟨y, A x⟩ = ⟨Aᵀ y, x⟩ for the model's `Vec.dot`, where `Aᵀ y` is computed
    either way (`adjoint_identity`).
-/
import Ohsl.Props.C06W
import Ohsl.Props.C07S
import Ohsl.Lemmas.SparseSpec
import Ohsl.Lemmas.SparseWF
import Ohsl.Lemmas.MatSpec2
import Ohsl.Lemmas.Alg
import Mathlib.Algebra.Order.Field.Rat
import Mathlib.Tactic.IntervalCases
set_option linter.unusedSectionVars false
set_option linter.unusedVariables false
set_option linter.unusedSimpArgs false
namespace Ohsl.Props.C07
open Ohsl Ohsl.Sp
variable {K : Type} [CommSemiring K] [Sub K] [Neg K] [BEq K] [ScalarExt K]

/-! ### 1. the explicit transpose -/

/-- Multiplying by the explicit transpose equals the transposed product: on a well-formed storage
    `transpose` succeeds and `multiply (transpose s) y` is the same computation result as
    `transpose_multiply s y` (both are `.ok` of the same array, see `transposeMultiply_entry`).
    Duplicates are allowed. -/
theorem transpose_multiply {s : Sp K} (h : WF s) (y : Array K) (hy : y.size = s.rows) :
    ∃ t, Sp.transpose s = .ok t ∧ Sp.multiply t y = Sp.transposeMultiply s y := by
  obtain ⟨t, h1, h2, h3⟩ := C06.transpose_entry h
  obtain ⟨t', e1, _, r1, c1, _⟩ := C06.transpose_wf h
  rw [h1] at e1; cases e1
  refine ⟨t, h1, ?_⟩
  rw [multiply_eq h2 y (by omega), transposeMultiply_eq h y hy]
  congr 1
  apply Array.ext_getElem?
  intro i
  simp only [Array.getElem?_ofFn, r1]
  by_cases hi : i < s.cols
  · simp only [hi, dif_pos]
    congr 1
    rw [mulF_eq_entry, tmulF_eq_entry h _ hi, c1]
    exact Finset.sum_congr rfl (fun j hj => by rw [h3 i j hi (Finset.mem_range.mp hj)])
  · simp [hi]

/-- the same with the value made explicit: both computations return the same array `z` -/
theorem transpose_multiply_ok {s : Sp K} (h : WF s) (y : Array K) (hy : y.size = s.rows) :
    ∃ t z, Sp.transpose s = .ok t ∧ Sp.multiply t y = .ok z ∧ Sp.transposeMultiply s y = .ok z ∧
      z.size = s.cols := by
  obtain ⟨t, h1, h2⟩ := transpose_multiply h y hy
  obtain ⟨z, g1, g2, _⟩ := transposeMultiply_spec h y hy
  exact ⟨t, z, h1, by rw [h2, g1], g1, g2⟩

/-! ### 2. entry forms -/

/-- `transpose_multiply` in entry form: component `j` of the result is
    `Σ_{i<rows} entry s i j * y[i]` — row `j` of the transposed denoted matrix times `y`
    (independent of the loop structure; duplicates are summed in `Sp.entry`). -/
theorem transposeMultiply_entry {s : Sp K} (h : WF s) (y : Array K) (hy : y.size = s.rows) :
    ∃ z, transposeMultiply s y = .ok z ∧ z.size = s.cols ∧ ∀ j, j < s.cols → z[j]? = some
      (∑ i ∈ Finset.range s.rows, s.entry i j * y[i]?.getD 0) := by
  refine ⟨_, transposeMultiply_eq h y hy, by simp, ?_⟩
  intro j hj
  rw [Array.getElem?_ofFn]
  simp only [hj, dif_pos]
  rw [tmulF_eq_entry h _ hj]

/-- `multiply` in entry form: component `i` of the result is `Σ_{j<cols} entry s i j * x[j]` -/
theorem multiply_entry {s : Sp K} (h : WF s) (x : Array K) (hx : x.size = s.cols) :
    ∃ y, multiply s x = .ok y ∧ y.size = s.rows ∧ ∀ i, i < s.rows → y[i]? = some
      (∑ j ∈ Finset.range s.cols, s.entry i j * x[j]?.getD 0) := by
  refine ⟨_, multiply_eq h x hx, by simp, ?_⟩
  intro i hi
  rw [Array.getElem?_ofFn]
  simp only [hi, dif_pos]
  rw [mulF_eq_entry]

/-! ### 3. relation with the dense transpose -/

/-- for duplicate-free well-formed storage the transposed sparse product is the dense product of
    the TRANSPOSE (`Mat.transpose`, the model of `Matrix::transpose`) of `to_dense` -/
theorem transposeMultiply_eq_dense {s : Sp K} (h : WF s) (hnd : NoDup s) (y : Array K)
    (hy : y.size = s.rows) :
    ∃ d dt z, toDense s = .ok d ∧ Mat.transpose d = .ok dt ∧ transposeMultiply s y = .ok z ∧
      Mat.mulVec dt y = .ok z := by
  obtain ⟨d, h1, h2⟩ := toDense_spec h hnd
  obtain ⟨dt, h3, h4⟩ := Mat.transpose_spec h2
  refine ⟨d, dt, _, h1, h3, transposeMultiply_eq h y hy, ?_⟩
  rw [Mat.mulVec_spec h4 y hy]
  congr 1
  apply Array.ext_getElem?
  intro j
  rw [Array.getElem?_ofFn]
  by_cases hj : j < s.cols
  · simp only [hj, dif_pos, List.getElem?_toArray, List.getElem?_map, List.getElem?_range hj,
      Option.map_some, Option.some.injEq]
    rw [foldl_zipWith_eq_sum _ y s.rows (by simp) hy, tmulF_eq_entry h _ hj]
    refine Finset.sum_congr rfl (fun i hi => ?_)
    have := Finset.mem_range.mp hi
    simp [this]
  · simp [hj]

/-- … and so is the sparse product with the explicit sparse transpose: the three ways of computing
    `Aᵀ y` (`transpose().multiply`, `transpose_multiply`, dense transpose times `y`) agree -/
theorem transpose_multiply_eq_dense {s : Sp K} (h : WF s) (hnd : NoDup s) (y : Array K)
    (hy : y.size = s.rows) :
    ∃ t d dt z, Sp.transpose s = .ok t ∧ toDense s = .ok d ∧ Mat.transpose d = .ok dt ∧
      multiply t y = .ok z ∧ transposeMultiply s y = .ok z ∧ Mat.mulVec dt y = .ok z := by
  obtain ⟨t, g1, g2⟩ := transpose_multiply h y hy
  obtain ⟨d, dt, z, h1, h2, h3, h4⟩ := transposeMultiply_eq_dense h hnd y hy
  exact ⟨t, d, dt, z, g1, h1, h2, by rw [g2, h3], h3, h4⟩

/-! ### 4. adjoint identity -/

/-- the classical adjoint identity ⟨y, A x⟩ = ⟨Aᵀ y, x⟩ for the model's dot product `Vec.dot`
    (accumulation in index order): all computations succeed, `Aᵀ y` is the common value `v` of
    `transpose_multiply s y` and `multiply (transpose s) y`, and both inner products return the
    same scalar `c`.  Duplicates are allowed. -/
theorem adjoint_identity {s : Sp K} (h : WF s) (x y : Array K) (hx : x.size = s.cols)
    (hy : y.size = s.rows) :
    ∃ t u v c, Sp.transpose s = .ok t ∧ multiply s x = .ok u ∧ transposeMultiply s y = .ok v ∧
      multiply t y = .ok v ∧ Vec.dot y u = .ok c ∧ Vec.dot v x = .ok c := by
  obtain ⟨u, v, h1, h2, h3, h4, h5⟩ := adjoint h x y hx hy
  obtain ⟨t, g1, g2⟩ := transpose_multiply h y hy
  have e1 : ¬ y.size ≠ u.size := by omega
  have e2 : ¬ v.size ≠ x.size := by omega
  refine ⟨t, u, v, ∑ i ∈ Finset.range s.rows, y[i]?.getD 0 * u[i]?.getD 0, g1, h1, h2,
    by rw [g2, h2], ?_, ?_⟩
  · simp only [Vec.dot, e1, if_false, foldl_zipWith_eq_sum y u s.rows hy h3]
  · simp only [Vec.dot, e2, if_false, foldl_zipWith_eq_sum v x s.cols h4 hx, h5]

/-! ### the hypotheses are satisfiable -/

section Examples
attribute [local instance] Ohsl.Alg.scalarExt

/-- the 2×3 rational matrix `[[1,0,4],[2,3,0]]` (duplicate-free pattern) -/
def demoQ : Sp ℚ := ⟨2, 3, 4, #[1, 2, 3, 4], #[0, 1, 1, 0], #[0, 2, 3, 4]⟩

theorem demoQ_wf : WF demoQ := by
  refine ⟨rfl, rfl, ?_, rfl, rfl, rfl, ?_⟩
  · intro j hj
    have hj' : j < 3 := hj
    interval_cases j <;> simp [Sp.cs, demoQ]
  · intro k hk
    have hk' : k < 4 := hk
    interval_cases k <;> simp [Sp.ri, demoQ]

theorem demoQ_noDup : NoDup demoQ := by
  intro j hj k k' a b c d e
  have hj' : j < 3 := hj
  interval_cases j <;> simp [Sp.cs, demoQ] at a b c d <;>
    interval_cases k <;> interval_cases k' <;> simp_all [Sp.ri, demoQ]

/-- all hypotheses of this file hold for `demoQ`, `x = (1, 2, 3)`, `y = (5, 7)` -/
example : WF demoQ ∧ NoDup demoQ ∧ (#[1, 2, 3] : Array ℚ).size = demoQ.cols ∧
    (#[5, 7] : Array ℚ).size = demoQ.rows := ⟨demoQ_wf, demoQ_noDup, rfl, rfl⟩

/-- … and the conclusions can be observed on the model: `Aᵀ y = (19, 21, 20)` all three ways,
    `A x = (13, 8)`, `⟨y, A x⟩ = 121 = ⟨Aᵀ y, x⟩` -/
example :
    transposeMultiply demoQ #[5, 7] = .ok #[19, 21, 20] ∧
    (Sp.transpose demoQ >>= fun t => multiply t #[5, 7]) = .ok #[19, 21, 20] ∧
    (toDense demoQ >>= Mat.transpose >>= fun dt => Mat.mulVec dt #[5, 7]) = .ok #[19, 21, 20] ∧
    multiply demoQ #[1, 2, 3] = .ok #[13, 8] ∧
    Vec.dot (#[5, 7] : Array ℚ) #[13, 8] = .ok 121 ∧
    Vec.dot (#[19, 21, 20] : Array ℚ) #[1, 2, 3] = .ok 121 := by
  decide +kernel

end Examples

end Ohsl.Props.C07
