/-
  Property C02 (continued) — what `lu_decomp_in_place` RECORDS: the matrix `perm` is a permutation
  matrix and `pivots` is the number of row exchanges performed.
  Model: Ohsl/Model/Solve.lean (`luPivot`, `luStep`, `luDecomp`); lemmas: Ohsl/Lemmas/C02P.lean,
  Ohsl/Lemmas/LUDet.lean.

  `C02.luDecomp_correct` states `P·A = L·U` and `det P = (-1)^pivots` for the returned matrix `P`
  and counter; that alone does not say that `P` is a permutation matrix nor that `pivots` counts
  exchanges.  Here (class (E): exact linearly ordered field):

  * `luDecomp_perm`          the returned `perm` is the permutation matrix of
                             `σ = Mat.luPerm A n : Equiv.Perm (Fin n)` — entry `(i, j)` is `1` if
                             `j = σ i` and `0` otherwise; as a Mathlib matrix it is
                             `Equiv.Perm.permMatrix K σ`; and `P·A` is `A` with row `i` replaced by
                             row `σ i`.  `σ` is the product, in loop order, of the transpositions
                             `(k  p_k)` where `p_k = Mat.pivotChoice A k` is the row returned by the
                             model's own pivot search `luPivot` at step `k` of the model's own loop.
  * `luDecomp_perm_entries`  the same read entry by entry off the returned matrix:
                             every entry is `0` or `1`, and it is `1` iff `j = σ i`.
  * `luDecomp_pivots_count`  `pivots = Mat.exchangeCount A n`, the number of loop steps `k < n` at
                             which the chosen pivot row differs from `k`
                             (`exchangeAt_iff` unfolds that predicate to the model's functions).
  * `luDecomp_pivots_parity` `sign σ = (-1)^pivots` (so the sign used by `determinant` is the sign
                             of the recorded permutation), `pivots ≤ n`.
  * `luDecomp_factors`       everything together: `A` with rows permuted by `σ` equals `L·U`,
                             `det U = sign σ · det A`.
  * `determinant_total_wf`   totality of `determinant` with ALL hypotheses visible (`A.WF`,
                             `A.rows = A.cols`); `determinant_nonsquare`; and an `example`:
                             without `WF` the call fails
                             (`determinant ⟨#[1,2,3],2,2⟩ = .error .range` over ℚ).
  Nothing is `_partial`.
-/
import Ohsl.Props.C02D
import Ohsl.Lemmas.C02P
import Mathlib.LinearAlgebra.Matrix.Permutation
set_option linter.unusedSectionVars false
set_option linter.unusedVariables false
set_option linter.unusedSimpArgs false
namespace Ohsl.Props.C02
open Ohsl Ohsl.Mat

section Structural
variable {K : Type} [Add K] [Sub K] [Mul K] [Neg K] [Zero K] [One K] [BEq K] [ScalarExt K]

/-- (S) `Mat.luPrefix` is the model's own loop: run for all `rows` steps it IS `luDecomp` -/
theorem luPrefix_rows (A : Mat K) (h : A.rows = A.cols) : Mat.luPrefix A A.rows = luDecomp A :=
  Mat.luPrefix_full A h

/-- (S) what `exchangeAt A k` says, in terms of the model's functions only: the first `k` steps
    of the factorisation succeed with state `s`, the pivot search on column `k` of `s.lu` returns
    a magnitude that is not (`==`) zero, and the row it returns is not `k` — exactly the condition
    under which `luStep` executes `swap_rows` and `pivots += 1`. -/
theorem exchangeAt_iff (A : Mat K) (k : Nat) :
    Mat.exchangeAt A k = true ↔
      ∃ s mx p, Mat.luPrefix A k = .ok s ∧ luPivot s.lu k = .ok (mx, p) ∧ (mx == 0) = false ∧
        p ≠ k := by
  unfold Mat.exchangeAt Mat.pivotChoice
  constructor
  · intro h
    cases hs : Mat.luPrefix A k with
    | error e => rw [hs] at h; cases h
    | ok s =>
      rw [hs] at h
      cases hp : luPivot s.lu k with
      | error e => simp only [hp] at h; cases h
      | ok mp =>
        obtain ⟨mx, p⟩ := mp
        simp only [hp] at h
        cases hb : (mx == 0) with
        | true => rw [hb] at h; simp at h
        | false =>
          rw [hb] at h
          exact ⟨s, mx, p, rfl, hp, hb, by simpa using h⟩
  · rintro ⟨s, mx, p, hs, hp, hb, hne⟩
    simp [hs, hp, hb, hne]

end Structural

section Exact
variable {K : Type} [Field K] [LinearOrder K] [IsStrictOrderedRing K]
attribute [local instance] Alg.scalarExt

/-- (E) **the recorded `perm` is a permutation matrix.**  For every well-formed square matrix the
    factorisation returns `s` with `s.perm` the well-formed `n × n` matrix whose entry `(i, j)` is
    `1` if `j = σ i` and `0` otherwise, where `σ = Mat.luPerm A n : Equiv.Perm (Fin n)` is the
    product of the transpositions chosen by the model's pivot search.  In Mathlib's terms the
    matrix is `Equiv.Perm.permMatrix K σ` (`= σ.toPEquiv.toMatrix`), and multiplying by it from
    the left moves row `σ i` of `A` to row `i`. -/
theorem luDecomp_perm {A : Mat K} {n : Nat} {a : Nat → Nat → K} (h : Mat.Is A n n a) :
    ∃ s, luDecomp A = .ok s ∧
      Mat.Is s.perm n n (Mat.permEntries (Mat.luPerm A n)) ∧
      Mat.toMat n (Mat.permEntries (K := K) (Mat.luPerm A n))
        = Equiv.Perm.permMatrix K (Mat.luPerm A n) ∧
      Mat.toMat n (Mat.permEntries (K := K) (Mat.luPerm A n)) * Mat.toMat n a
        = (Mat.toMat n a).submatrix (Mat.luPerm A n) id := by
  obtain ⟨s, w, hs, hw, hpe, _, _⟩ := Mat.luPrefix_spec h n (le_refl _)
  have hsq : A.rows = A.cols := by rw [h.rows, h.cols]
  have hrun : luDecomp A = .ok s := by rw [← Mat.luPrefix_full A hsq, h.rows]; exact hs
  refine ⟨s, hrun, hpe, Mat.toMat_permEntries _, ?_⟩
  rw [Mat.toMat_permEntries, PEquiv.toMatrix_toPEquiv_mul]

/-- (E) the same, read entry by entry off the returned matrix: there is a permutation `σ` of
    `Fin n` such that every in-range entry of `perm` is `0` or `1` and entry `(i, j)` is `1`
    exactly when `j = σ i`. -/
theorem luDecomp_perm_entries {A : Mat K} {n : Nat} {a : Nat → Nat → K} (h : Mat.Is A n n a) :
    ∃ (s : LU K) (σ : Equiv.Perm (Fin n)), luDecomp A = .ok s ∧ s.perm.WF ∧ s.perm.rows = n ∧
      s.perm.cols = n ∧
      ∀ (i j : Nat) (hi : i < n) (hj : j < n),
        (s.perm.get i j = .ok 0 ∨ s.perm.get i j = .ok 1) ∧
        (s.perm.get i j = .ok 1 ↔ (⟨j, hj⟩ : Fin n) = σ ⟨i, hi⟩) := by
  obtain ⟨s, hs, hpe, _, _⟩ := luDecomp_perm h
  refine ⟨s, Mat.luPerm A n, hs, hpe.wf, hpe.rows, hpe.cols, ?_⟩
  intro i j hi hj
  rw [hpe.get hi hj, Mat.permEntries_apply _ hi]
  by_cases e : ((Mat.luPerm A n) ⟨i, hi⟩).val = j
  · have e' : (⟨j, hj⟩ : Fin n) = (Mat.luPerm A n) ⟨i, hi⟩ := Fin.ext e.symm
    simp [e, e']
  · have e' : ¬ (⟨j, hj⟩ : Fin n) = (Mat.luPerm A n) ⟨i, hi⟩ := fun h' =>
      e (by rw [← h'])
    simp [e, e']

/-- (E) **`pivots` is the number of row exchanges**: the returned counter equals the number of
    loop steps `k < n` at which the pivot row chosen by the model's own search (on the model's own
    intermediate state) differs from `k` — see `exchangeAt_iff`. -/
theorem luDecomp_pivots_count {A : Mat K} {n : Nat} {a : Nat → Nat → K} (h : Mat.Is A n n a) :
    ∃ s, luDecomp A = .ok s ∧ s.pivots = Mat.exchangeCount A n ∧ s.pivots ≤ n := by
  obtain ⟨s, w, hs, hw, hpe, hcnt, _⟩ := Mat.luPrefix_spec h n (le_refl _)
  have hsq : A.rows = A.cols := by rw [h.rows, h.cols]
  refine ⟨s, by rw [← Mat.luPrefix_full A hsq, h.rows]; exact hs, hcnt, ?_⟩
  rw [hcnt]; exact Mat.exchangeCount_le A n

/-- (E) the chosen pivot row at a step `k < n` is a row on or below the diagonal -/
theorem pivotChoice_range {A : Mat K} {n : Nat} {a : Nat → Nat → K} (h : Mat.Is A n n a)
    {k p : Nat} (hk : k < n) (hp : Mat.pivotChoice A k = some p) : k ≤ p ∧ p < n :=
  Mat.pivotChoice_range h hk hp

/-- (E) **parity**: the sign of the recorded permutation is `(-1)^pivots`; hence the sign that
    `determinant` applies (`pivots % 2`) is the sign of the row permutation. -/
theorem luDecomp_pivots_parity {A : Mat K} {n : Nat} {a : Nat → Nat → K} (h : Mat.Is A n n a) :
    ∃ s, luDecomp A = .ok s ∧ Equiv.Perm.sign (Mat.luPerm A n) = (-1) ^ s.pivots ∧
      (s.pivots % 2 = 0 ↔ Equiv.Perm.sign (Mat.luPerm A n) = 1) := by
  obtain ⟨s, w, hs, hw, hpe, hcnt, hsign⟩ := Mat.luPrefix_spec h n (le_refl _)
  have hsq : A.rows = A.cols := by rw [h.rows, h.cols]
  refine ⟨s, by rw [← Mat.luPrefix_full A hsq, h.rows]; exact hs, hsign, ?_⟩
  unfold Mat.luPerm
  rw [hsign]
  constructor
  · intro he
    exact Even.neg_one_pow (Nat.even_iff.mpr he)
  · intro h1
    by_contra hodd
    rw [Odd.neg_one_pow (Nat.odd_iff.mpr (by omega))] at h1
    exact absurd h1 (by decide)

/-- (E) **the factorisation with its permutation**: for every well-formed square matrix,
    `luDecomp` returns the in-place factors `w` (unit lower `Lfn w`, upper `Umat n n w`), the
    permutation matrix of `σ = luPerm A n`, and the exchange count, with
    `A[σ ·, ·] = L·U`, `pivots = exchangeCount A n`, `sign σ = (-1)^pivots` and
    `det U = sign σ · det A`. -/
theorem luDecomp_factors {A : Mat K} {n : Nat} {a : Nat → Nat → K} (h : Mat.Is A n n a) :
    ∃ (s : LU K) (w : Nat → Nat → K), luDecomp A = .ok s ∧ Mat.Is s.lu n n w ∧
      Mat.Is s.perm n n (Mat.permEntries (Mat.luPerm A n)) ∧
      (Mat.toMat n a).submatrix (Mat.luPerm A n) id = Mat.toMat n (Mat.Lfn w) * Mat.Umat n n w ∧
      s.pivots = Mat.exchangeCount A n ∧
      Equiv.Perm.sign (Mat.luPerm A n) = (-1) ^ s.pivots ∧
      Matrix.det (Mat.Umat n n w)
        = ((Equiv.Perm.sign (Mat.luPerm A n) : ℤ) : K) * Matrix.det (Mat.toMat n a) := by
  obtain ⟨s, w, pe, hs, hw, hpe, hPA, hdP, hdU⟩ := luDecomp_correct h
  obtain ⟨s1, hs1, hpe1, _, hmul⟩ := luDecomp_perm h
  obtain ⟨s2, hs2, hcnt, _⟩ := luDecomp_pivots_count h
  obtain ⟨s3, hs3, hsign, _⟩ := luDecomp_pivots_parity h
  rw [hs] at hs1 hs2 hs3
  cases hs1; cases hs2; cases hs3
  -- the two descriptions of `s.perm` agree on the index range
  have hpeq : Mat.toMat n pe = Mat.toMat n (Mat.permEntries (K := K) (Mat.luPerm A n)) := by
    ext r c
    have g1 := hpe.get r.isLt c.isLt
    have g2 := hpe1.get r.isLt c.isLt
    rw [g1] at g2
    exact Except.ok.inj g2
  refine ⟨s, w, hs, hw, hpe1, ?_, hcnt, hsign, ?_⟩
  · rw [← hmul, ← hpeq]; exact hPA
  · rw [hdU, hsign]
    simp

/-! ### `determinant`: totality with all hypotheses visible -/

/-- (E) **totality of `determinant`, hypotheses spelled out**: if the buffer has exactly
    `rows * cols` elements (`A.WF`) and the matrix is square, `determinant` returns a value — never
    a panic, singular matrices included — and the value is the determinant of the matrix read off
    the buffer.  (`C02.determinant_total` hides both hypotheses in `Mat.Is A n n a`.) -/
theorem determinant_total_wf (A : Mat K) (hwf : A.WF) (hsq : A.rows = A.cols) :
    ∃ d, Mat.determinant A = .ok d ∧
      d = Matrix.det (Matrix.of fun (i j : Fin A.rows) => Mat.entryOf A i.val j.val) :=
  ⟨_, determinant_of_wf A hwf hsq, rfl⟩

/-- (E) squareness is necessary (for any buffer): a non-square matrix is a size panic -/
theorem determinant_nonsquare (A : Mat K) (h : A.rows ≠ A.cols) :
    Mat.determinant A = .error .size := determinant_rejects A h

end Exact

/-! ### the hypotheses are satisfiable, and `WF` cannot be dropped -/
section Examples
attribute [local instance] Alg.scalarExt

/-- `determinant_total_wf` applies to `[[1,2],[3,4]]` -/
example : ∃ d, Mat.determinant (⟨#[1, 2, 3, 4], 2, 2⟩ : Mat ℚ) = .ok d :=
  let ⟨d, hd, _⟩ := determinant_total_wf (⟨#[1, 2, 3, 4], 2, 2⟩ : Mat ℚ) (by simp [Mat.WF]) rfl
  ⟨d, hd⟩

/-- a square shape with a buffer that is too short is NOT well-formed … -/
example : ¬ (⟨#[1, 2, 3], 2, 2⟩ : Mat ℚ).WF := by simp [Mat.WF]

/-- … and on it `determinant` panics (the row exchange reads entry (1,1) at flat offset 3):
    the hypothesis `A.WF` of `determinant_total_wf` cannot be dropped -/
example : Mat.determinant (⟨#[1, 2, 3], 2, 2⟩ : Mat ℚ) = .error .range := by decide

/-- the squareness hypothesis cannot be dropped either -/
example : Mat.determinant (⟨#[1, 2, 3, 4, 5, 6], 2, 3⟩ : Mat ℚ) = .error .size :=
  determinant_nonsquare _ (by decide)

/-- `[[0,1],[1,0]]`: the pivot search at step 0 returns row 1, one exchange is counted, the
    recorded permutation is the transposition (0 1) -/
example : Mat.pivotChoice (⟨#[0, 1, 1, 0], 2, 2⟩ : Mat ℚ) 0 = some 1 := by decide
theorem exchangeCount_example : Mat.exchangeCount (⟨#[0, 1, 1, 0], 2, 2⟩ : Mat ℚ) 2 = 1 := by
  have h0 : Mat.exchangeAt (⟨#[0, 1, 1, 0], 2, 2⟩ : Mat ℚ) 0 = true := by decide
  have h1 : Mat.exchangeAt (⟨#[0, 1, 1, 0], 2, 2⟩ : Mat ℚ) 1 = false := by decide +kernel
  rw [show (2 : Nat) = 0 + 1 + 1 from rfl, Mat.exchangeCount_succ, Mat.exchangeCount_succ, h0, h1]
  rfl
example : ∃ s, luDecomp (⟨#[0, 1, 1, 0], 2, 2⟩ : Mat ℚ) = .ok s ∧ s.pivots = 1 := by
  obtain ⟨s, hs, hc, _⟩ := luDecomp_pivots_count
    (Mat.Is.of_wf (m := (⟨#[0, 1, 1, 0], 2, 2⟩ : Mat ℚ)) (by simp [Mat.WF]))
  exact ⟨s, hs, by rw [hc]; exact exchangeCount_example⟩

end Examples

end Ohsl.Props.C02
