/-
  Property C19 (continued) — the FILE-level round trip of a one-dimensional mesh:
  `Fmt.read r (Fmt.output m prec)` (model: Ohsl/Model/Fmt.lean; helper lemmas: Ohsl/Lemmas/C19H.lean).
  C19F / C19G prove the single-token round trip `parse (fixed x prec)`; here the tokenisation, the
  node / variable placement and the resizing of `Mesh1D::read` are proved, so that the file-level
  round trip reduces, entry by entry, to the token-level one.

  Structural (class S: arbitrary text / tokens, nothing about `fixed` or `parse`):
    `tokenise_lines`   words followed by a space, lines closed by a newline → the words in order
    `read_shape`, `read_nodes`, `read_vars`   what `read` does with ANY text of `n·(nvars+1)` tokens
  About the text written by `output`:
    `fixed_printable`, `fixed_word`   every printed token (finite, NaN, ±inf) is non-empty and
                                       contains no separator
    `output_tokens_getD`, `output_tokens`, `output_tokens_length`, `output_token_node`,
    `output_token_var`   the token list of the written text, row-major
  Round trip:
    `read_output_shape`, `read_output_values` (+ `_coord`, `_index` through the accessors)
    `token_roundtrip`, `file_roundtrip`, `file_roundtrip_exact`, `file_roundtrip_nonfinite`
-/
import Ohsl.Props.C19G
import Ohsl.Lemmas.C19H
import Ohsl.Lemmas.MatIdx
set_option linter.unusedSectionVars false
set_option linter.unusedVariables false
set_option linter.unusedSimpArgs false
namespace Ohsl.Props.C19
open Ohsl Ohsl.Fmt Ohsl.Tok

/-! ## 1. structural: the tokeniser and the placement, for arbitrary text -/

/-- `tokenise_lines` (class S): a text made of lines, each line a sequence of words each followed
by one space, each line closed by a newline, is tokenised by `Fmt.read` into exactly these words in
reading order — for ARBITRARY words that are non-empty and contain no space / newline / tab. -/
theorem tokenise_lines (text : String) (lines : List (List String))
    (hl : ∀ l ∈ lines, ∀ w ∈ l, w.toList ≠ [] ∧ ∀ c ∈ w.toList, isSep c = false)
    (ht : text.toList = lines.flatMap (fun l => l.flatMap (fun w => w.toList ++ [' ']) ++ ['\n'])) :
    tokens text = lines.flatten :=
  tokens_lines text lines hl ht

/-- `Fmt.read` is `readToks` (placement and resizing) after `tokens` (the tokeniser) -/
theorem read_factor (r : Mesh1 Float Float) (text : String) :
    Fmt.read r text = Fmt.readToks r (tokens text) := rfl

/-- `read_shape` (class S): reading ANY text with `n * (nvars + 1)` tokens into a mesh `r` whose rows
have `r.nvars` entries gives a well-shaped mesh with `n` nodes and the same `nvars` — whatever
the number of nodes and rows of `r` was (`vars` is resized). -/
theorem read_shape (r : Mesh1 Float Float) (hr : r.RowsOk) (text : String) (n : Nat)
    (hlen : (tokens text).length = n * (r.nvars + 1)) :
    (Fmt.read r text).nvars = r.nvars ∧ (Fmt.read r text).Shaped n := by
  rw [read_factor]
  refine ⟨rfl, ?_, readToks_vars_size r _ n hlen, readToks_rows r hr _ n hlen⟩
  rw [readToks_nodes r _ n hlen]
  simp

/-- `read_nodes` (class S): node `i` of the mesh read from ANY text with `n * (nvars + 1)` tokens is
`parse` of token `i * (nvars + 1)`. -/
theorem read_nodes (r : Mesh1 Float Float) (text : String) (n : Nat)
    (hlen : (tokens text).length = n * (r.nvars + 1)) (i : Nat) (hi : i < n) :
    (Fmt.read r text).nodes[i]?
      = some (Fmt.parse ((tokens text)[i * (r.nvars + 1)]?.getD "0")) := by
  rw [read_factor, readToks_nodes r _ n hlen]
  simp [hi]

/-- `read_vars` (class S): variable `j` of node `i` of the mesh read from ANY text with
`n * (nvars + 1)` tokens is `parse` of token `i * (nvars + 1) + j + 1`. -/
theorem read_vars (r : Mesh1 Float Float) (hr : r.RowsOk) (text : String) (n : Nat)
    (hlen : (tokens text).length = n * (r.nvars + 1)) (i j : Nat) (hi : i < n) (hj : j < r.nvars) :
    (Fmt.read r text).vars[i]?.bind (·[j]?)
      = some (Fmt.parse ((tokens text)[i * (r.nvars + 1) + (j + 1)]?.getD "0")) := by
  rw [read_factor]
  exact readToks_vars r hr _ n hlen i j hi hj

/-! ## 2. the tokens printed by `Fmt.fixed` -/

/-- the characters `Fmt.fixed` can print: digits, sign, point, and the letters of `NaN` / `inf` -/
def Printable (c : Char) : Prop :=
  c.isDigit = true ∨ c = '-' ∨ c = '.' ∨ c ∈ ['N', 'a', 'i', 'n', 'f']

theorem Printable.not_sep {c : Char} (h : Printable c) : isSep c = false := by
  cases hs : isSep c with
  | false => rfl
  | true =>
    exfalso
    simp only [isSep, Bool.or_eq_true, beq_iff_eq] at hs
    rcases hs with (rfl | rfl) | rfl <;>
      · rcases h with h | h | h | h
        · exact absurd h (by decide)
        · exact absurd h (by decide)
        · exact absurd h (by decide)
        · exact absurd h (by decide)

/-- `fixed_printable`: whatever the value (finite, NaN, infinite), `Fmt.fixed` prints only digits,
`-`, `.` and the letters of `NaN` / `inf`. -/
theorem fixed_printable (x : Float) (prec : Nat) : ∀ c ∈ (Fmt.fixed x prec).toList, Printable c := by
  intro c hc
  cases hn : x.isNaN with
  | true =>
    rw [fixed_nan x prec hn] at hc
    have : c ∈ ['N', 'a', 'N'] := hc
    simp only [List.mem_cons, List.not_mem_nil, or_false] at this
    rcases this with rfl | rfl | rfl <;> exact Or.inr (Or.inr (Or.inr (by decide)))
  | false =>
    cases hi : x.isInf with
    | true =>
      rw [fixed_inf x prec hn hi] at hc
      split at hc
      · have : c ∈ ['-', 'i', 'n', 'f'] := hc
        simp only [List.mem_cons, List.not_mem_nil, or_false] at this
        rcases this with rfl | rfl | rfl | rfl
        · exact Or.inr (Or.inl rfl)
        all_goals exact Or.inr (Or.inr (Or.inr (by decide)))
      · have : c ∈ ['i', 'n', 'f'] := hc
        simp only [List.mem_cons, List.not_mem_nil, or_false] at this
        rcases this with rfl | rfl | rfl <;> exact Or.inr (Or.inr (Or.inr (by decide)))
    | false =>
      rw [fixed_eq x prec hn hi] at hc
      simp only [String.toList_append, List.mem_append] at hc
      rcases hc with (hc | hc) | hc
      · split at hc
        · have : c ∈ ['-'] := hc
          exact Or.inr (Or.inl (by simpa using this))
        · exact absurd hc (by simp)
      · exact Or.inl (repr_isDigit _ c hc)
      · split at hc
        · exact absurd hc (by simp)
        · simp only [String.toList_append, List.mem_append] at hc
          rcases hc with hc | hc
          · have : c ∈ ['.'] := hc
            exact Or.inr (Or.inr (Or.inl (by simpa using this)))
          · rw [fracField_toList, List.mem_append, List.mem_replicate] at hc
            rcases hc with ⟨_, rfl⟩ | hc
            · exact Or.inl (by decide)
            · exact Or.inl (repr_isDigit _ c hc)

theorem fixed_ne_nil (x : Float) (prec : Nat) : (Fmt.fixed x prec).toList ≠ [] := by
  cases hn : x.isNaN with
  | true => rw [fixed_nan x prec hn]; decide
  | false =>
    cases hi : x.isInf with
    | true => rw [fixed_inf x prec hn hi]; split <;> decide
    | false =>
      rw [fixed_eq x prec hn hi]
      simp only [String.toList_append]
      intro h
      have h2 := (List.append_eq_nil_iff.1 (List.append_eq_nil_iff.1 h).1).2
      exact repr_toList_ne_nil _ h2

/-- `fixed_word`: every token written by `Fmt.fixed` — for a finite value, a NaN or an infinity — is
non-empty and contains no separator of the tokeniser, so it is read back as ONE token. -/
theorem fixed_word (x : Float) (prec : Nat) : Word isSep (Fmt.fixed x prec).toList :=
  ⟨fixed_ne_nil x prec, fun c hc => (fixed_printable x prec c hc).not_sep⟩

/-! ## 3. the tokens of the text written by `Fmt.output` -/

/-- the tokens of line `i` of the file: the node, then its `nvars` variables (with the defaults the
model's `output` uses for missing entries) -/
def lineToks (m : Mesh1 Float Float) (prec i : Nat) : List String :=
  Fmt.fixed (m.nodes[i]?.getD 0.0) prec ::
    (List.range m.nvars).map (fun v => Fmt.fixed ((m.vars[i]?.getD #[])[v]?.getD 0.0) prec)

theorem lineToks_length (m : Mesh1 Float Float) (prec i : Nat) :
    (lineToks m prec i).length = m.nvars + 1 := by
  simp [lineToks]

/-- the characters of the written text: every token followed by a space, every line by a newline -/
theorem output_toList (m : Mesh1 Float Float) (prec : Nat) :
    (Fmt.output m prec).toList = (List.range m.nodes.size).flatMap
      (fun i => (lineToks m prec i).flatMap (fun w => w.toList ++ [' ']) ++ ['\n']) := by
  have h : Fmt.output m prec = (List.range m.nodes.size).foldl (fun acc i => acc ++
      ((List.range m.nvars).foldl (fun l v =>
        l ++ Fmt.fixed ((m.vars[i]?.getD #[])[v]?.getD 0.0) prec ++ " ")
        (Fmt.fixed (m.nodes[i]?.getD 0.0) prec ++ " ")) ++ "\n") "" := rfl
  rw [h, foldl_append2_toList]
  simp only [String.toList_empty, List.nil_append]
  congr 1
  funext i
  rw [foldl_append2_toList]
  simp only [lineToks, List.flatMap_cons, List.flatMap_map, String.toList_append]
  rfl

/-- `output_tokens_getD`: for ANY mesh, the tokens `Fmt.read` finds in the text written by
`Fmt.output` are, line by line, the printed node and the printed variables (row-major). -/
theorem output_tokens_getD (m : Mesh1 Float Float) (prec : Nat) :
    tokens (Fmt.output m prec) = (List.range m.nodes.size).flatMap (lineToks m prec) := by
  have h := tokens_lines (Fmt.output m prec) ((List.range m.nodes.size).map (lineToks m prec))
    (by
      intro l hl w hw
      obtain ⟨i, -, rfl⟩ := List.mem_map.1 hl
      simp only [lineToks, List.mem_cons, List.mem_map] at hw
      rcases hw with rfl | ⟨v, -, rfl⟩ <;> exact fixed_word _ _)
    (by rw [output_toList, List.flatMap_map])
  rw [h, List.flatMap_def]

/-- the number of tokens: `nvars + 1` per node -/
theorem output_tokens_length (m : Mesh1 Float Float) (prec : Nat) :
    (tokens (Fmt.output m prec)).length = m.nodes.size * (m.nvars + 1) := by
  rw [output_tokens_getD]
  exact length_flatMap_range _ _ (lineToks_length m prec) _

theorem zip_eq_map_range {α β : Type} (l1 : List α) (l2 : List β) (n : Nat) (h1 : l1.length = n)
    (h2 : l2.length = n) (d1 : α) (d2 : β) :
    l1.zip l2 = (List.range n).map (fun i => (l1[i]?.getD d1, l2[i]?.getD d2)) := by
  apply List.ext_getElem
  · simp [h1, h2]
  · intro i hi hi'
    simp only [List.length_zip, h1, h2, Nat.min_self] at hi
    simp [List.getElem?_eq_getElem (h1 ▸ hi), List.getElem?_eq_getElem (h2 ▸ hi)]

theorem map_range_getD {α β : Type} (row : Array α) (d : α) (f : α → β) :
    (List.range row.size).map (fun v => f (row[v]?.getD d)) = row.toList.map f := by
  apply List.ext_getElem
  · simp
  · intro i hi hi'
    simp only [List.length_map, List.length_range] at hi
    simp [hi]

/-- `output_tokens`: for a well-shaped mesh the token list of the written text is exactly
`[fixed x_0, fixed v_{0,0}, …, fixed v_{0,nvars-1}, fixed x_1, …]`: nodes paired with their rows, in
order, every value printed by `Fmt.fixed`. -/
theorem output_tokens (m : Mesh1 Float Float) (prec n : Nat) (hm : m.Shaped n) :
    tokens (Fmt.output m prec) = (m.nodes.toList.zip m.vars.toList).flatMap
      (fun p => Fmt.fixed p.1 prec :: p.2.toList.map (fun v => Fmt.fixed v prec)) := by
  obtain ⟨h1, h2, h3⟩ := hm
  rw [output_tokens_getD, zip_eq_map_range m.nodes.toList m.vars.toList n (by simpa using h1)
    (by simpa using h2) 0.0 #[], List.flatMap_map, h1]
  apply List.flatMap_congr
  intro i hi
  have hi' : i < m.vars.size := by rw [h2]; exact List.mem_range.1 hi
  simp only [lineToks, Array.getElem?_toList, List.cons.injEq, true_and]
  rw [Array.getElem?_eq_getElem hi', Option.getD_some, ← h3 i hi']
  exact map_range_getD m.vars[i] 0.0 (fun v => Fmt.fixed v prec)

/-- token `i * (nvars + 1)` of the written text is the printed node `i` -/
theorem output_token_node (m : Mesh1 Float Float) (prec : Nat) (i : Nat) (hi : i < m.nodes.size) :
    (tokens (Fmt.output m prec))[i * (m.nvars + 1)]? = some (Fmt.fixed m.nodes[i] prec) := by
  rw [output_tokens_getD]
  have := getElem?_flatMap_range (lineToks m prec) (m.nvars + 1) (lineToks_length m prec)
    m.nodes.size i 0 hi (Nat.succ_pos _)
  rw [Nat.add_zero] at this
  rw [this]
  simp [lineToks, hi]

/-- token `i * (nvars + 1) + j + 1` of the written text is the printed variable `j` of node `i` -/
theorem output_token_var (m : Mesh1 Float Float) (prec n : Nat) (hm : m.Shaped n) (i j : Nat)
    (hi : i < m.vars.size) (hj : j < m.vars[i].size) :
    (tokens (Fmt.output m prec))[i * (m.nvars + 1) + (j + 1)]?
      = some (Fmt.fixed m.vars[i][j] prec) := by
  obtain ⟨h1, h2, h3⟩ := hm
  have hj' : j < m.nvars := by rw [← h3 i hi]; exact hj
  rw [output_tokens_getD,
    getElem?_flatMap_range (lineToks m prec) (m.nvars + 1) (lineToks_length m prec)
      m.nodes.size i (j + 1) (by omega) (by omega)]
  simp [lineToks, hi, hj, hj']

/-! ## 4. write, then read -/

/-- `read_output_shape`: reading the text written for a mesh `m` into a mesh `r` with the same
`nvars` (whose rows have `nvars` entries; its number of nodes is irrelevant — `read` takes `nvars`
from the receiving mesh and resizes `vars` to the number of nodes found) gives a mesh of the shape
of `m`: as many nodes and rows as `m` has nodes, `nvars` entries per row. -/
theorem read_output_shape (m r : Mesh1 Float Float) (prec : Nat) (hr : r.RowsOk)
    (hnv : r.nvars = m.nvars) :
    (Fmt.read r (Fmt.output m prec)).nvars = m.nvars ∧
      (Fmt.read r (Fmt.output m prec)).Shaped m.nodes.size := by
  have h := read_shape r hr (Fmt.output m prec) m.nodes.size
    (by rw [output_tokens_length, hnv])
  exact ⟨h.1.trans hnv, h.2⟩

/-- `read_output_values`: the file-level round trip reduces EXACTLY to the token-level one — node
`i` read back is `parse (fixed x_i prec)` and variable `(i, j)` read back is
`parse (fixed v_{i,j} prec)`, for every node and every variable of a well-shaped mesh (all values,
finite or not). -/
theorem read_output_values (m r : Mesh1 Float Float) (prec n : Nat) (hm : m.Shaped n)
    (hr : r.RowsOk) (hnv : r.nvars = m.nvars) :
    (∀ i (hi : i < m.nodes.size),
      (Fmt.read r (Fmt.output m prec)).nodes[i]? = some (Fmt.parse (Fmt.fixed m.nodes[i] prec))) ∧
    (∀ i j (hi : i < m.vars.size) (hj : j < m.vars[i].size),
      (Fmt.read r (Fmt.output m prec)).vars[i]?.bind (·[j]?)
        = some (Fmt.parse (Fmt.fixed m.vars[i][j] prec))) := by
  have hlen : (tokens (Fmt.output m prec)).length = m.nodes.size * (r.nvars + 1) := by
    rw [output_tokens_length, hnv]
  constructor
  · intro i hi
    rw [read_nodes r _ _ hlen i hi, hnv, output_token_node m prec i hi]
    rfl
  · intro i j hi hj
    have hi' : i < m.nodes.size := by rw [hm.1, ← hm.2.1]; exact hi
    have hj' : j < r.nvars := by rw [hnv, ← hm.2.2 i hi]; exact hj
    rw [read_vars r hr _ _ hlen i j hi' hj', hnv, output_token_var m prec n hm i j hi hj]
    rfl

/-- the same through the accessors of the mesh: `coord` and `mesh[node]` / `getNodesVars` -/
theorem read_output_values_coord (m r : Mesh1 Float Float) (prec n : Nat) (hm : m.Shaped n)
    (hr : r.RowsOk) (hnv : r.nvars = m.nvars) (i : Nat) (hi : i < m.nodes.size) :
    (Fmt.read r (Fmt.output m prec)).coord i = .ok (Fmt.parse (Fmt.fixed m.nodes[i] prec)) := by
  unfold Mesh1.coord
  rw [Mat.aget_eq_ok]
  exact (read_output_values m r prec n hm hr hnv).1 i hi

theorem read_output_values_index (m r : Mesh1 Float Float) (prec n : Nat) (hm : m.Shaped n)
    (hr : r.RowsOk) (hnv : r.nvars = m.nvars) (i : Nat) (hi : i < m.vars.size) :
    ∃ row, (Fmt.read r (Fmt.output m prec)).index i = .ok row ∧
      (Fmt.read r (Fmt.output m prec)).getNodesVars i = .ok row ∧
      row.size = m.vars[i].size ∧
      ∀ j (hj : j < m.vars[i].size), row[j]? = some (Fmt.parse (Fmt.fixed m.vars[i][j] prec)) := by
  obtain ⟨hnv', hs1, hs2, hs3⟩ := read_output_shape m r prec hr hnv
  have hin : i < (Fmt.read r (Fmt.output m prec)).vars.size := by
    rw [hs2, hm.1, ← hm.2.1]; exact hi
  refine ⟨(Fmt.read r (Fmt.output m prec)).vars[i], Mat.aget_ok hin, ?_, ?_, ?_⟩
  · unfold Mesh1.getNodesVars
    rw [if_neg (by rw [hs1, ← hs2]; omega)]
    exact Mat.aget_ok hin
  · rw [hs3 i hin, hnv', hm.2.2 i hi]
  · intro j hj
    have := (read_output_values m r prec n hm hr hnv).2 i j hi hj
    rw [Array.getElem?_eq_getElem hin] at this
    exact this

/-! ## 5. the file round trip to the printed precision -/

/-- `ReadBack x prec y`: `y` is a double that differs from the finite double `x` by at most half a
unit of the last printed decimal plus half an ulp of `y` — the conclusion of the token theorems
`roundtrip_value` / `roundtrip_value_zero` of C19G: either the printed text is not `±0.00…0` and
`y = ± scaleB (ofNat m) e` with a 53-bit `m` and `|± m·2^e − x| ≤ 1/(2·10^prec) + 2^e/2`, or the
text is `±0.00…0`, `y = ±0.0` and `|x| ≤ 1/(2·10^prec)`. -/
def ReadBack (x : Float) (prec : Nat) (y : Float) : Prop :=
  (printedNum (decode x) prec ≠ 0 ∧ ∃ (m : Nat) (e : Int), 2 ^ 52 ≤ m ∧ m ≤ 2 ^ 53 ∧
      y = withSign (decode x) (Float.scaleB (Float.ofNat m) e) ∧
      |sgn (decode x) * ((m : ℚ) * 2 ^ e) - val (decode x)| ≤ 1 / (2 * 10 ^ prec) + 2 ^ e / 2) ∨
  (printedNum (decode x) prec = 0 ∧ y = withSign (decode x) 0.0 ∧
      |(0 : ℚ) - val (decode x)| ≤ 1 / (2 * 10 ^ prec))

/-- `ReadBackExact x prec y`: `y` is `± scaleB (ofNat m) e` with `± m·2^e` EQUAL to the exact value
of `x` (or `±0.0` when `x` is a zero) — the conclusion of `roundtrip_value_exact` /
`roundtrip_value_exact_zero`. -/
def ReadBackExact (x : Float) (y : Float) : Prop :=
  ((decode x).2.1 ≠ 0 ∧ ∃ (m : Nat) (e : Int), 2 ^ 52 ≤ m ∧ m ≤ 2 ^ 53 ∧
      y = withSign (decode x) (Float.scaleB (Float.ofNat m) e) ∧
      sgn (decode x) * ((m : ℚ) * 2 ^ e) = val (decode x)) ∨
  ((decode x).2.1 = 0 ∧ y = withSign (decode x) 0.0 ∧ val (decode x) = 0)

/-- the token theorems of C19G in one statement -/
theorem token_roundtrip (x : Float) (prec : Nat) (hn : x.isNaN = false) (hi : x.isInf = false)
    (hp : 10 ^ prec ≤ 2 ^ 2198) : ReadBack x prec (Fmt.parse (Fmt.fixed x prec)) := by
  by_cases hN : printedNum (decode x) prec = 0
  · exact Or.inr ⟨hN, roundtrip_value_zero x prec hn hi hN⟩
  · exact Or.inl ⟨hN, roundtrip_value x prec hn hi hN hp⟩

theorem token_roundtrip_exact (x : Float) (prec : Nat) (hn : x.isNaN = false)
    (hi : x.isInf = false) (hdiv : (decode x).2.2 ∣ (decode x).2.1 * 10 ^ prec) :
    ReadBackExact x (Fmt.parse (Fmt.fixed x prec)) := by
  by_cases hz : (decode x).2.1 = 0
  · exact Or.inr ⟨hz, roundtrip_value_exact_zero x prec hn hi hz⟩
  · exact Or.inl ⟨hz, roundtrip_value_exact x prec hn hi hz hdiv⟩

/-- `file_roundtrip`: writing a well-shaped mesh `m` with `prec` decimals (`prec ≤ 661`) and reading
the file into a mesh `r` with the same `nvars` reproduces every FINITE node and every FINITE
variable to the printed precision (`ReadBack`: within half a unit of the last printed decimal plus
half an ulp of the value read). -/
theorem file_roundtrip (m r : Mesh1 Float Float) (prec n : Nat) (hm : m.Shaped n) (hr : r.RowsOk)
    (hnv : r.nvars = m.nvars) (hp : 10 ^ prec ≤ 2 ^ 2198) :
    (∀ i (hi : i < m.nodes.size), m.nodes[i].isNaN = false → m.nodes[i].isInf = false →
      ∃ y, (Fmt.read r (Fmt.output m prec)).nodes[i]? = some y ∧ ReadBack m.nodes[i] prec y) ∧
    (∀ i j (hi : i < m.vars.size) (hj : j < m.vars[i].size),
      m.vars[i][j].isNaN = false → m.vars[i][j].isInf = false →
      ∃ y, (Fmt.read r (Fmt.output m prec)).vars[i]?.bind (·[j]?) = some y ∧
        ReadBack m.vars[i][j] prec y) := by
  obtain ⟨h1, h2⟩ := read_output_values m r prec n hm hr hnv
  exact ⟨fun i hi hN hI => ⟨_, h1 i hi, token_roundtrip _ prec hN hI hp⟩,
    fun i j hi hj hN hI => ⟨_, h2 i j hi hj, token_roundtrip _ prec hN hI hp⟩⟩

/-- `file_roundtrip_exact`: every finite node / variable whose exact value has at most `prec`
decimals (`den ∣ num · 10^prec`; e.g. the integer-valued data and dyadic nodes of property C19 with
enough decimals) is reproduced EXACTLY by writing and reading the file. -/
theorem file_roundtrip_exact (m r : Mesh1 Float Float) (prec n : Nat) (hm : m.Shaped n)
    (hr : r.RowsOk) (hnv : r.nvars = m.nvars) :
    (∀ i (hi : i < m.nodes.size), m.nodes[i].isNaN = false → m.nodes[i].isInf = false →
      (decode m.nodes[i]).2.2 ∣ (decode m.nodes[i]).2.1 * 10 ^ prec →
      ∃ y, (Fmt.read r (Fmt.output m prec)).nodes[i]? = some y ∧ ReadBackExact m.nodes[i] y) ∧
    (∀ i j (hi : i < m.vars.size) (hj : j < m.vars[i].size),
      m.vars[i][j].isNaN = false → m.vars[i][j].isInf = false →
      (decode m.vars[i][j]).2.2 ∣ (decode m.vars[i][j]).2.1 * 10 ^ prec →
      ∃ y, (Fmt.read r (Fmt.output m prec)).vars[i]?.bind (·[j]?) = some y ∧
        ReadBackExact m.vars[i][j] y) := by
  obtain ⟨h1, h2⟩ := read_output_values m r prec n hm hr hnv
  exact ⟨fun i hi hN hI hd => ⟨_, h1 i hi, token_roundtrip_exact _ prec hN hI hd⟩,
    fun i j hi hj hN hI hd => ⟨_, h2 i j hi hj, token_roundtrip_exact _ prec hN hI hd⟩⟩

/-- `file_roundtrip_nonfinite`: a NaN variable is read back as `0.0 / 0.0`, an infinite one as
`±1.0 / 0.0` (the same for nodes) — the spellings `NaN`, `inf`, `-inf` are single tokens too. -/
theorem file_roundtrip_nonfinite (m r : Mesh1 Float Float) (prec n : Nat) (hm : m.Shaped n)
    (hr : r.RowsOk) (hnv : r.nvars = m.nvars) :
    (∀ i (hi : i < m.nodes.size),
      (m.nodes[i].isNaN = true →
        (Fmt.read r (Fmt.output m prec)).nodes[i]? = some (0.0 / 0.0)) ∧
      (m.nodes[i].isNaN = false → m.nodes[i].isInf = true →
        (Fmt.read r (Fmt.output m prec)).nodes[i]?
          = some (if m.nodes[i] < 0 then -1.0 / 0.0 else 1.0 / 0.0))) ∧
    (∀ i j (hi : i < m.vars.size) (hj : j < m.vars[i].size),
      (m.vars[i][j].isNaN = true →
        (Fmt.read r (Fmt.output m prec)).vars[i]?.bind (·[j]?) = some (0.0 / 0.0)) ∧
      (m.vars[i][j].isNaN = false → m.vars[i][j].isInf = true →
        (Fmt.read r (Fmt.output m prec)).vars[i]?.bind (·[j]?)
          = some (if m.vars[i][j] < 0 then -1.0 / 0.0 else 1.0 / 0.0))) := by
  obtain ⟨h1, h2⟩ := read_output_values m r prec n hm hr hnv
  refine ⟨fun i hi => ⟨fun hN => ?_, fun hN hI => ?_⟩, fun i j hi hj => ⟨fun hN => ?_, fun hN hI => ?_⟩⟩
  · rw [h1 i hi, parse_fixed_nan _ prec hN]
  · rw [h1 i hi, parse_fixed_inf _ prec hN hI]
  · rw [h2 i j hi hj, parse_fixed_nan _ prec hN]
  · rw [h2 i j hi hj, parse_fixed_inf _ prec hN hI]

/-! ## 6. the hypotheses are satisfiable; examples -/

/-- a freshly constructed mesh (`Mesh1D::new`) is well shaped — the natural receiving mesh -/
theorem new_shaped (nodes : Array Float) (nvars : Nat) :
    (Mesh1.new nodes nvars : Mesh1 Float Float).Shaped nodes.size ∧
      (Mesh1.new nodes nvars : Mesh1 Float Float).nvars = nvars := by
  refine ⟨⟨rfl, by simp [Mesh1.new], ?_⟩, rfl⟩
  intro i hi
  simp [Mesh1.new]

/-- the empty 2-variable mesh can receive a file -/
example : (Mesh1.new #[] 2 : Mesh1 Float Float).RowsOk ∧ (Mesh1.new #[] 2 : Mesh1 Float Float).nvars = 2 :=
  ⟨(new_shaped #[] 2).1.2.2, rfl⟩

/-- the text of a 3-node, 2-variable mesh written with two decimals -/
def exampleText : String := "0.00 1.00 2.00 \n0.50 3.00 -4.00 \n1.00 NaN inf \n"

/-- its tokens, through the tokeniser of `Fmt.read` -/
theorem exampleText_tokens : tokens exampleText
    = ["0.00", "1.00", "2.00", "0.50", "3.00", "-4.00", "1.00", "NaN", "inf"] :=
  tokenise_lines exampleText
    [["0.00", "1.00", "2.00"], ["0.50", "3.00", "-4.00"], ["1.00", "NaN", "inf"]]
    (by decide) (by decide)

/-- reading it into an empty 2-variable mesh: three nodes, node 1 is `parse "0.50"`, variable 1 of
node 1 is `parse "-4.00"`, variable 0 of node 2 is a NaN -/
example :
    (Fmt.read (Mesh1.new #[] 2) exampleText).Shaped 3 ∧
    (Fmt.read (Mesh1.new #[] 2) exampleText).nodes[1]? = some (Fmt.parse "0.50") ∧
    (Fmt.read (Mesh1.new #[] 2) exampleText).vars[1]?.bind (·[1]?) = some (Fmt.parse "-4.00") ∧
    (Fmt.read (Mesh1.new #[] 2) exampleText).vars[2]?.bind (·[0]?) = some (0.0 / 0.0) := by
  have hr : (Mesh1.new #[] 2 : Mesh1 Float Float).RowsOk := (new_shaped #[] 2).1.2.2
  have hlen : (tokens exampleText).length = 3 * ((Mesh1.new #[] 2 : Mesh1 Float Float).nvars + 1) := by
    rw [exampleText_tokens]; rfl
  refine ⟨(read_shape _ hr _ 3 hlen).2, ?_, ?_, ?_⟩
  · rw [read_nodes _ _ 3 hlen 1 (by decide), exampleText_tokens]; rfl
  · rw [read_vars _ hr _ 3 hlen 1 1 (by decide) (by decide), exampleText_tokens]; rfl
  · rw [read_vars _ hr _ 3 hlen 2 0 (by decide) (by decide), exampleText_tokens]
    exact congrArg some parse_NaN

/-- a concrete 3-node, 2-variable mesh -/
def exampleMesh : Mesh1 Float Float := ⟨2, #[0.0, 0.5, 1.0], #[#[1.0, 2.0], #[3.0, 4.0], #[5.0, 6.0]]⟩

theorem exampleMesh_shaped : exampleMesh.Shaped 3 := by
  refine ⟨rfl, rfl, ?_⟩
  intro i hi
  have hi3 : i < 3 := hi
  rcases i with _ | _ | _ | i
  · rfl
  · rfl
  · rfl
  · omega

/-- the token list of the file written for it, row-major -/
example (prec : Nat) : tokens (Fmt.output exampleMesh prec)
    = [Fmt.fixed 0.0 prec, Fmt.fixed 1.0 prec, Fmt.fixed 2.0 prec,
       Fmt.fixed 0.5 prec, Fmt.fixed 3.0 prec, Fmt.fixed 4.0 prec,
       Fmt.fixed 1.0 prec, Fmt.fixed 5.0 prec, Fmt.fixed 6.0 prec] := by
  rw [output_tokens exampleMesh prec 3 exampleMesh_shaped]
  rfl

/-- … and what is read back from it into an empty 2-variable mesh -/
example (prec : Nat) :
    (Fmt.read (Mesh1.new #[] 2) (Fmt.output exampleMesh prec)).Shaped 3 ∧
    (Fmt.read (Mesh1.new #[] 2) (Fmt.output exampleMesh prec)).nodes[1]?
      = some (Fmt.parse (Fmt.fixed 0.5 prec)) ∧
    (Fmt.read (Mesh1.new #[] 2) (Fmt.output exampleMesh prec)).vars[2]?.bind (·[1]?)
      = some (Fmt.parse (Fmt.fixed 6.0 prec)) := by
  have hr : (Mesh1.new #[] 2 : Mesh1 Float Float).RowsOk := (new_shaped #[] 2).1.2.2
  have h := read_output_values exampleMesh (Mesh1.new #[] 2) prec 3 exampleMesh_shaped hr rfl
  exact ⟨(read_output_shape exampleMesh _ prec hr rfl).2, h.1 1 (by decide),
    h.2 2 1 (by decide) (by decide)⟩

end Ohsl.Props.C19
