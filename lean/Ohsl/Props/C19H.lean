/-
  Property C19 (continued) — the FILE-level round trip of a one-dimensional mesh:
  `Fmt.read r (Fmt.output m prec)` (model: Ohsl/Model/Fmt.lean; helper lemmas: Ohsl/Lemmas/C19H.lean).
  C19F / C19G prove the single-token round trip `parse (fixed x prec)`; here the tokenisation, the
  node / variable placement and the resizing of `Mesh1D::read` are proved, so that the file-level
  round trip reduces, entry by entry, to the token-level one.

  Structural (class S: arbitrary text / tokens, nothing about `fixed` or `parse`):
    `tokenise_lines`   words followed by a space, lines closed by a newline → the words in order
    `read_shape`, `read_nodes`, `read_vars`   what `read` does with ANY text of `n·(nvars+1)` tokens
  About the text written by `output`:
    `fixed_printable`, `fixed_word`   every printed token (finite, NaN, ±inf) is non-empty and
                                       contains no separator
    `output_tokens_getD`, `output_tokens`, `output_tokens_length`, `output_token_node`,
    `output_token_var`   the token list of the written text, row-major
  Round trip:
    `read_output_shape`, `read_output_values` (+ `_coord`, `_index` through the accessors)
    `token_roundtrip`, `file_roundtrip`, `file_roundtrip_exact`, `file_roundtrip_nonfinite`
-/
import Ohsl.Props.C19G
import Ohsl.Lemmas.C19H
import Ohsl.Lemmas.MatIdx
set_option linter.unusedSectionVars false
set_option linter.unusedVariables false
set_option linter.unusedSimpArgs false
namespace Ohsl.Props.C19
open Ohsl Ohsl.Fmt Ohsl.Tok

/-! ## 1. structural: the tokeniser and the placement, for arbitrary text -/

/-- `tokenise_lines` (class S): a text made of lines, each line a sequence of words each followed
by one space, each line closed by a newline, is tokenised by `Fmt.read` into exactly these words in
reading order — for ARBITRARY words that are non-empty and contain no space / newline / tab. -/
theorem tokenise_lines (text : String) (lines : List (List String))
    (hl : ∀ l ∈ lines, ∀ w ∈ l, w.toList ≠ [] ∧ ∀ c ∈ w.toList, isSep c = false)
    (ht : text.toList = lines.flatMap (fun l => l.flatMap (fun w => w.toList ++ [' ']) ++ ['\n'])) :
    tokens text = lines.flatten :=
  tokens_lines text lines hl ht

/-- `Fmt.read` is `readToks` (placement and resizing) after `tokens` (the tokeniser) -/
theorem read_factor (r : Mesh1 Float Float) (text : String) :
    Fmt.read r text = Fmt.readToks r (tokens text) := rfl

/-- `read_shape` (class S): reading ANY text with `n * (nvars + 1)` tokens into a mesh `r` whose rows
have `r.nvars` entries gives a well-shaped mesh with `n` nodes and the same `nvars` — whatever
the number of nodes and rows of `r` was (`vars` is resized). -/
theorem read_shape (r : Mesh1 Float Float) (hr : r.RowsOk) (text : String) (n : Nat)
    (hlen : (tokens text).length = n * (r.nvars + 1)) :
    (Fmt.read r text).nvars = r.nvars ∧ (Fmt.read r text).Shaped n := by
  rw [read_factor]
  refine ⟨rfl, ?_, readToks_vars_size r _ n hlen, readToks_rows r hr _ n hlen⟩
  rw [readToks_nodes r _ n hlen]
  simp

/-- `read_nodes` (class S): node `i` of the mesh read from ANY text with `n * (nvars + 1)` tokens is
`parse` of token `i * (nvars + 1)`. -/
theorem read_nodes (r : Mesh1 Float Float) (text : String) (n : Nat)
    (hlen : (tokens text).length = n * (r.nvars + 1)) (i : Nat) (hi : i < n) :
    (Fmt.read r text).nodes[i]?
      = some (Fmt.parse ((tokens text)[i * (r.nvars + 1)]?.getD "0")) := by
  rw [read_factor, readToks_nodes r _ n hlen]
  simp [hi]

/-- `read_vars` (class S): variable `j` of node `i` of the mesh read from ANY text with
`n * (nvars + 1)` tokens is `parse` of token `i * (nvars + 1) + j + 1`. -/
theorem read_vars (r : Mesh1 Float Float) (hr : r.RowsOk) (text : String) (n : Nat)
    (hlen : (tokens text).length = n * (r.nvars + 1)) (i j : Nat) (hi : i < n) (hj : j < r.nvars) :
    (Fmt.read r text).vars[i]?.bind (·[j]?)
      = some (Fmt.parse ((tokens text)[i * (r.nvars + 1) + (j + 1)]?.getD "0")) := by
  rw [read_factor]
  exact readToks_vars r hr _ n hlen i j hi hj

/-! ## 2. the tokens printed by `Fmt.fixed` -/

/-- the characters `Fmt.fixed` can print: digits, sign, point, and the letters of `NaN` / `inf` -/
def Printable (c : Char) : Prop :=
  c.isDigit = true ∨ c = '-' ∨ c = '.' ∨ c ∈ ['N', 'a', 'i', 'n', 'f']

theorem Printable.not_sep {c : Char} (h : Printable c) : isSep c = false := by
  cases hs : isSep c with
  | false => rfl
  | true =>
    exfalso
    simp only [isSep, Bool.or_eq_true, beq_iff_eq] at hs
    rcases hs with (rfl | rfl) | rfl <;>
      · rcases h with h | h | h | h
        · exact absurd h (by decide)
        · exact absurd h (by decide)
        · exact absurd h (by decide)
        · exact absurd h (by decide)

/-- `fixed_printable`: whatever the value (finite, NaN, infinite), `Fmt.fixed` prints only digits,
`-`, `.` and the letters of `NaN` / `inf`. -/
theorem fixed_printable (x : Float) (prec : Nat) : ∀ c ∈ (Fmt.fixed x prec).toList, Printable c := by
  intro c hc
  cases hn : x.isNaN with
  | true =>
    rw [fixed_nan x prec hn] at hc
    have : c ∈ ['N', 'a', 'N'] := hc
    simp only [List.mem_cons, List.not_mem_nil, or_false] at this
    rcases this with rfl | rfl | rfl <;> exact Or.inr (Or.inr (Or.inr (by decide)))
  | false =>
    cases hi : x.isInf with
    | true =>
      rw [fixed_inf x prec hn hi] at hc
      split at hc
      · have : c ∈ ['-', 'i', 'n', 'f'] := hc
        simp only [List.mem_cons, List.not_mem_nil, or_false] at this
        rcases this with rfl | rfl | rfl | rfl
        · exact Or.inr (Or.inl rfl)
        all_goals exact Or.inr (Or.inr (Or.inr (by decide)))
      · have : c ∈ ['i', 'n', 'f'] := hc
        simp only [List.mem_cons, List.not_mem_nil, or_false] at this
        rcases this with rfl | rfl | rfl <;> exact Or.inr (Or.inr (Or.inr (by decide)))
    | false =>
      rw [fixed_eq x prec hn hi] at hc
      simp only [String.toList_append, List.mem_append] at hc
      rcases hc with (hc | hc) | hc
      · split at hc
        · have : c ∈ ['-'] := hc
          exact Or.inr (Or.inl (by simpa using this))
        · exact absurd hc (by simp)
      · exact Or.inl (repr_isDigit _ c hc)
      · split at hc
        · exact absurd hc (by simp)
        · simp only [String.toList_append, List.mem_append] at hc
          rcases hc with hc | hc
          · have : c ∈ ['.'] := hc
            exact Or.inr (Or.inr (Or.inl (by simpa using this)))
          · rw [fracField_toList, List.mem_append, List.mem_replicate] at hc
            rcases hc with ⟨_, rfl⟩ | hc
            · exact Or.inl (by decide)
            · exact Or.inl (repr_isDigit _ c hc)

theorem fixed_ne_nil (x : Float) (prec : Nat) : (Fmt.fixed x prec).toList ≠ [] := by
  cases hn : x.isNaN with
  | true => rw [fixed_nan x prec hn]; decide
  | false =>
    cases hi : x.isInf with
    | true => rw [fixed_inf x prec hn hi]; split <;> decide
    | false =>
      rw [fixed_eq x prec hn hi]
      simp only [String.toList_append]
      intro h
      have h2 := (List.append_eq_nil_iff.1 (List.append_eq_nil_iff.1 h).1).2
      exact repr_toList_ne_nil _ h2

/-- `fixed_word`: every token written by `Fmt.fixed` — for a finite value, a NaN or an infinity — is
non-empty and contains no separator of the tokeniser, so it is read back as ONE token. -/
theorem fixed_word (x : Float) (prec : Nat) : Word isSep (Fmt.fixed x prec).toList :=
  ⟨fixed_ne_nil x prec, fun c hc => (fixed_printable x prec c hc).not_sep⟩

end Ohsl.Props.C19
