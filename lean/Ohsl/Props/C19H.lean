/-
  Property C19 (continued) — the FILE-level round trip of a one-dimensional mesh:
  `Fmt.read r (Fmt.output m prec)` (model: Ohsl/Model/Fmt.lean; helper lemmas: Ohsl/Lemmas/C19H.lean).
  C19F / C19G prove the single-token round trip `parse (fixed x prec)`; here the tokenisation, the
  node / variable placement and the resizing of `Mesh1D::read` are proved, so that the file-level
  round trip reduces, entry by entry, to the token-level one.

  Structural (class S: arbitrary text / tokens, nothing about `fixed` or `parse`):
    `tokenise_lines`   words followed by a space, lines closed by a newline → the words in order
    `read_shape`, `read_nodes`, `read_vars`   what `read` does with ANY text of `n·(nvars+1)` tokens
  About the text written by `output`:
    `fixed_printable`, `fixed_word`   every printed token (finite, NaN, ±inf) is non-empty and
                                       contains no separator
    `output_tokens_getD`, `output_tokens`, `output_tokens_length`, `output_token_node`,
    `output_token_var`   the token list of the written text, row-major
  Round trip:
    `read_output_shape`, `read_output_values` (+ `_coord`, `_index` through the accessors)
    `token_roundtrip`, `file_roundtrip`, `file_roundtrip_exact`, `file_roundtrip_nonfinite`
-/
import Ohsl.Props.C19G
import Ohsl.Lemmas.C19H
import Ohsl.Lemmas.MatIdx
set_option linter.unusedSectionVars false
set_option linter.unusedVariables false
set_option linter.unusedSimpArgs false
namespace Ohsl.Props.C19
open Ohsl Ohsl.Fmt Ohsl.Tok

/-! ## 1. structural: the tokeniser and the placement, for arbitrary text -/

/-- `tokenise_lines` (class S): a text made of lines, each line a sequence of words each followed
by one space, each line closed by a newline, is tokenised by `Fmt.read` into exactly these words in
reading order — for ARBITRARY words that are non-empty and contain no space / newline / tab. -/
theorem tokenise_lines (text : String) (lines : List (List String))
    (hl : ∀ l ∈ lines, ∀ w ∈ l, w.toList ≠ [] ∧ ∀ c ∈ w.toList, isSep c = false)
    (ht : text.toList = lines.flatMap (fun l => l.flatMap (fun w => w.toList ++ [' ']) ++ ['\n'])) :
    tokens text = lines.flatten :=
  tokens_lines text lines hl ht

/-- `Fmt.read` is `readToks` (placement and resizing) after `tokens` (the tokeniser) -/
theorem read_factor (r : Mesh1 Float Float) (text : String) :
    Fmt.read r text = Fmt.readToks r (tokens text) := rfl

/-- `read_shape` (class S): reading ANY text with `n * (nvars + 1)` tokens into a mesh `r` whose rows
have `r.nvars` entries gives a well-shaped mesh with `n` nodes and the same `nvars` — whatever
the number of nodes and rows of `r` was (`vars` is resized). -/
theorem read_shape (r : Mesh1 Float Float) (hr : r.RowsOk) (text : String) (n : Nat)
    (hlen : (tokens text).length = n * (r.nvars + 1)) :
    (Fmt.read r text).nvars = r.nvars ∧ (Fmt.read r text).Shaped n := by
  rw [read_factor]
  refine ⟨rfl, ?_, readToks_vars_size r _ n hlen, readToks_rows r hr _ n hlen⟩
  rw [readToks_nodes r _ n hlen]
  simp

/-- `read_nodes` (class S): node `i` of the mesh read from ANY text with `n * (nvars + 1)` tokens is
`parse` of token `i * (nvars + 1)`. -/
theorem read_nodes (r : Mesh1 Float Float) (text : String) (n : Nat)
    (hlen : (tokens text).length = n * (r.nvars + 1)) (i : Nat) (hi : i < n) :
    (Fmt.read r text).nodes[i]?
      = some (Fmt.parse ((tokens text)[i * (r.nvars + 1)]?.getD "0")) := by
  rw [read_factor, readToks_nodes r _ n hlen]
  simp [hi]

/-- `read_vars` (class S): variable `j` of node `i` of the mesh read from ANY text with
`n * (nvars + 1)` tokens is `parse` of token `i * (nvars + 1) + j + 1`. -/
theorem read_vars (r : Mesh1 Float Float) (hr : r.RowsOk) (text : String) (n : Nat)
    (hlen : (tokens text).length = n * (r.nvars + 1)) (i j : Nat) (hi : i < n) (hj : j < r.nvars) :
    (Fmt.read r text).vars[i]?.bind (·[j]?)
      = some (Fmt.parse ((tokens text)[i * (r.nvars + 1) + (j + 1)]?.getD "0")) := by
  rw [read_factor]
  exact readToks_vars r hr _ n hlen i j hi hj

/-! ## 2. the tokens printed by `Fmt.fixed` -/

/-- the characters `Fmt.fixed` can print: digits, sign, point, and the letters of `NaN` / `inf` -/
def Printable (c : Char) : Prop :=
  c.isDigit = true ∨ c = '-' ∨ c = '.' ∨ c ∈ ['N', 'a', 'i', 'n', 'f']

theorem Printable.not_sep {c : Char} (h : Printable c) : isSep c = false := by
  cases hs : isSep c with
  | false => rfl
  | true =>
    exfalso
    simp only [isSep, Bool.or_eq_true, beq_iff_eq] at hs
    rcases hs with (rfl | rfl) | rfl <;>
      · rcases h with h | h | h | h
        · exact absurd h (by decide)
        · exact absurd h (by decide)
        · exact absurd h (by decide)
        · exact absurd h (by decide)

/-- `fixed_printable`: whatever the value (finite, NaN, infinite), `Fmt.fixed` prints only digits,
`-`, `.` and the letters of `NaN` / `inf`. -/
theorem fixed_printable (x : Float) (prec : Nat) : ∀ c ∈ (Fmt.fixed x prec).toList, Printable c := by
  intro c hc
  cases hn : x.isNaN with
  | true =>
    rw [fixed_nan x prec hn] at hc
    have : c ∈ ['N', 'a', 'N'] := hc
    simp only [List.mem_cons, List.not_mem_nil, or_false] at this
    rcases this with rfl | rfl | rfl <;> exact Or.inr (Or.inr (Or.inr (by decide)))
  | false =>
    cases hi : x.isInf with
    | true =>
      rw [fixed_inf x prec hn hi] at hc
      split at hc
      · have : c ∈ ['-', 'i', 'n', 'f'] := hc
        simp only [List.mem_cons, List.not_mem_nil, or_false] at this
        rcases this with rfl | rfl | rfl | rfl
        · exact Or.inr (Or.inl rfl)
        all_goals exact Or.inr (Or.inr (Or.inr (by decide)))
      · have : c ∈ ['i', 'n', 'f'] := hc
        simp only [List.mem_cons, List.not_mem_nil, or_false] at this
        rcases this with rfl | rfl | rfl <;> exact Or.inr (Or.inr (Or.inr (by decide)))
    | false =>
      rw [fixed_eq x prec hn hi] at hc
      simp only [String.toList_append, List.mem_append] at hc
      rcases hc with (hc | hc) | hc
      · split at hc
        · have : c ∈ ['-'] := hc
          exact Or.inr (Or.inl (by simpa using this))
        · exact absurd hc (by simp)
      · exact Or.inl (repr_isDigit _ c hc)
      · split at hc
        · exact absurd hc (by simp)
        · simp only [String.toList_append, List.mem_append] at hc
          rcases hc with hc | hc
          · have : c ∈ ['.'] := hc
            exact Or.inr (Or.inr (Or.inl (by simpa using this)))
          · rw [fracField_toList, List.mem_append, List.mem_replicate] at hc
            rcases hc with ⟨_, rfl⟩ | hc
            · exact Or.inl (by decide)
            · exact Or.inl (repr_isDigit _ c hc)

theorem fixed_ne_nil (x : Float) (prec : Nat) : (Fmt.fixed x prec).toList ≠ [] := by
  cases hn : x.isNaN with
  | true => rw [fixed_nan x prec hn]; decide
  | false =>
    cases hi : x.isInf with
    | true => rw [fixed_inf x prec hn hi]; split <;> decide
    | false =>
      rw [fixed_eq x prec hn hi]
      simp only [String.toList_append]
      intro h
      have h2 := (List.append_eq_nil_iff.1 (List.append_eq_nil_iff.1 h).1).2
      exact repr_toList_ne_nil _ h2

/-- `fixed_word`: every token written by `Fmt.fixed` — for a finite value, a NaN or an infinity — is
non-empty and contains no separator of the tokeniser, so it is read back as ONE token. -/
theorem fixed_word (x : Float) (prec : Nat) : Word isSep (Fmt.fixed x prec).toList :=
  ⟨fixed_ne_nil x prec, fun c hc => (fixed_printable x prec c hc).not_sep⟩

/-! ## 3. the tokens of the text written by `Fmt.output` -/

/-- the tokens of line `i` of the file: the node, then its `nvars` variables (with the defaults the
model's `output` uses for missing entries) -/
def lineToks (m : Mesh1 Float Float) (prec i : Nat) : List String :=
  Fmt.fixed (m.nodes[i]?.getD 0.0) prec ::
    (List.range m.nvars).map (fun v => Fmt.fixed ((m.vars[i]?.getD #[])[v]?.getD 0.0) prec)

theorem lineToks_length (m : Mesh1 Float Float) (prec i : Nat) :
    (lineToks m prec i).length = m.nvars + 1 := by
  simp [lineToks]

/-- the characters of the written text: every token followed by a space, every line by a newline -/
theorem output_toList (m : Mesh1 Float Float) (prec : Nat) :
    (Fmt.output m prec).toList = (List.range m.nodes.size).flatMap
      (fun i => (lineToks m prec i).flatMap (fun w => w.toList ++ [' ']) ++ ['\n']) := by
  have h : Fmt.output m prec = (List.range m.nodes.size).foldl (fun acc i => acc ++
      ((List.range m.nvars).foldl (fun l v =>
        l ++ Fmt.fixed ((m.vars[i]?.getD #[])[v]?.getD 0.0) prec ++ " ")
        (Fmt.fixed (m.nodes[i]?.getD 0.0) prec ++ " ")) ++ "\n") "" := rfl
  rw [h, foldl_append2_toList]
  simp only [String.toList_empty, List.nil_append]
  congr 1
  funext i
  rw [foldl_append2_toList]
  simp only [lineToks, List.flatMap_cons, List.flatMap_map, String.toList_append]
  rfl

/-- `output_tokens_getD`: for ANY mesh, the tokens `Fmt.read` finds in the text written by
`Fmt.output` are, line by line, the printed node and the printed variables (row-major). -/
theorem output_tokens_getD (m : Mesh1 Float Float) (prec : Nat) :
    tokens (Fmt.output m prec) = (List.range m.nodes.size).flatMap (lineToks m prec) := by
  have h := tokens_lines (Fmt.output m prec) ((List.range m.nodes.size).map (lineToks m prec))
    (by
      intro l hl w hw
      obtain ⟨i, -, rfl⟩ := List.mem_map.1 hl
      simp only [lineToks, List.mem_cons, List.mem_map] at hw
      rcases hw with rfl | ⟨v, -, rfl⟩ <;> exact fixed_word _ _)
    (by rw [output_toList, List.flatMap_map])
  rw [h, List.flatMap_def]

/-- the number of tokens: `nvars + 1` per node -/
theorem output_tokens_length (m : Mesh1 Float Float) (prec : Nat) :
    (tokens (Fmt.output m prec)).length = m.nodes.size * (m.nvars + 1) := by
  rw [output_tokens_getD]
  exact length_flatMap_range _ _ (lineToks_length m prec) _

theorem zip_eq_map_range {α β : Type} (l1 : List α) (l2 : List β) (n : Nat) (h1 : l1.length = n)
    (h2 : l2.length = n) (d1 : α) (d2 : β) :
    l1.zip l2 = (List.range n).map (fun i => (l1[i]?.getD d1, l2[i]?.getD d2)) := by
  apply List.ext_getElem
  · simp [h1, h2]
  · intro i hi hi'
    simp only [List.length_zip, h1, h2, Nat.min_self] at hi
    simp [List.getElem?_eq_getElem (h1 ▸ hi), List.getElem?_eq_getElem (h2 ▸ hi)]

theorem map_range_getD {α β : Type} (row : Array α) (d : α) (f : α → β) :
    (List.range row.size).map (fun v => f (row[v]?.getD d)) = row.toList.map f := by
  apply List.ext_getElem
  · simp
  · intro i hi hi'
    simp only [List.length_map, List.length_range] at hi
    simp [hi]

/-- `output_tokens`: for a well-shaped mesh the token list of the written text is exactly
`[fixed x_0, fixed v_{0,0}, …, fixed v_{0,nvars-1}, fixed x_1, …]`: nodes paired with their rows, in
order, every value printed by `Fmt.fixed`. -/
theorem output_tokens (m : Mesh1 Float Float) (prec n : Nat) (hm : m.Shaped n) :
    tokens (Fmt.output m prec) = (m.nodes.toList.zip m.vars.toList).flatMap
      (fun p => Fmt.fixed p.1 prec :: p.2.toList.map (fun v => Fmt.fixed v prec)) := by
  obtain ⟨h1, h2, h3⟩ := hm
  rw [output_tokens_getD, zip_eq_map_range m.nodes.toList m.vars.toList n (by simpa using h1)
    (by simpa using h2) 0.0 #[], List.flatMap_map, h1]
  apply List.flatMap_congr
  intro i hi
  have hi' : i < m.vars.size := by rw [h2]; exact List.mem_range.1 hi
  simp only [lineToks, Array.getElem?_toList, List.cons.injEq, true_and]
  rw [Array.getElem?_eq_getElem hi', Option.getD_some, ← h3 i hi']
  exact map_range_getD m.vars[i] 0.0 (fun v => Fmt.fixed v prec)

/-- token `i * (nvars + 1)` of the written text is the printed node `i` -/
theorem output_token_node (m : Mesh1 Float Float) (prec : Nat) (i : Nat) (hi : i < m.nodes.size) :
    (tokens (Fmt.output m prec))[i * (m.nvars + 1)]? = some (Fmt.fixed m.nodes[i] prec) := by
  rw [output_tokens_getD]
  have := getElem?_flatMap_range (lineToks m prec) (m.nvars + 1) (lineToks_length m prec)
    m.nodes.size i 0 hi (Nat.succ_pos _)
  rw [Nat.add_zero] at this
  rw [this]
  simp [lineToks, hi]

/-- token `i * (nvars + 1) + j + 1` of the written text is the printed variable `j` of node `i` -/
theorem output_token_var (m : Mesh1 Float Float) (prec n : Nat) (hm : m.Shaped n) (i j : Nat)
    (hi : i < m.vars.size) (hj : j < m.vars[i].size) :
    (tokens (Fmt.output m prec))[i * (m.nvars + 1) + (j + 1)]?
      = some (Fmt.fixed m.vars[i][j] prec) := by
  obtain ⟨h1, h2, h3⟩ := hm
  have hj' : j < m.nvars := by rw [← h3 i hi]; exact hj
  rw [output_tokens_getD,
    getElem?_flatMap_range (lineToks m prec) (m.nvars + 1) (lineToks_length m prec)
      m.nodes.size i (j + 1) (by omega) (by omega)]
  simp [lineToks, hi, hj, hj']

/-! ## 4. write, then read -/

/-- `read_output_shape`: reading the text written for a mesh `m` into a mesh `r` with the same
`nvars` (whose rows have `nvars` entries; its number of nodes is irrelevant — `read` takes `nvars`
from the receiving mesh and resizes `vars` to the number of nodes found) gives a mesh of the shape
of `m`: as many nodes and rows as `m` has nodes, `nvars` entries per row. -/
theorem read_output_shape (m r : Mesh1 Float Float) (prec : Nat) (hr : r.RowsOk)
    (hnv : r.nvars = m.nvars) :
    (Fmt.read r (Fmt.output m prec)).nvars = m.nvars ∧
      (Fmt.read r (Fmt.output m prec)).Shaped m.nodes.size := by
  have h := read_shape r hr (Fmt.output m prec) m.nodes.size
    (by rw [output_tokens_length, hnv])
  exact ⟨h.1.trans hnv, h.2⟩

/-- `read_output_values`: the file-level round trip reduces EXACTLY to the token-level one — node
`i` read back is `parse (fixed x_i prec)` and variable `(i, j)` read back is
`parse (fixed v_{i,j} prec)`, for every node and every variable of a well-shaped mesh (all values,
finite or not). -/
theorem read_output_values (m r : Mesh1 Float Float) (prec n : Nat) (hm : m.Shaped n)
    (hr : r.RowsOk) (hnv : r.nvars = m.nvars) :
    (∀ i (hi : i < m.nodes.size),
      (Fmt.read r (Fmt.output m prec)).nodes[i]? = some (Fmt.parse (Fmt.fixed m.nodes[i] prec))) ∧
    (∀ i j (hi : i < m.vars.size) (hj : j < m.vars[i].size),
      (Fmt.read r (Fmt.output m prec)).vars[i]?.bind (·[j]?)
        = some (Fmt.parse (Fmt.fixed m.vars[i][j] prec))) := by
  have hlen : (tokens (Fmt.output m prec)).length = m.nodes.size * (r.nvars + 1) := by
    rw [output_tokens_length, hnv]
  constructor
  · intro i hi
    rw [read_nodes r _ _ hlen i hi, hnv, output_token_node m prec i hi]
    rfl
  · intro i j hi hj
    have hi' : i < m.nodes.size := by rw [hm.1, ← hm.2.1]; exact hi
    have hj' : j < r.nvars := by rw [hnv, ← hm.2.2 i hi]; exact hj
    rw [read_vars r hr _ _ hlen i j hi' hj', hnv, output_token_var m prec n hm i j hi hj]
    rfl

/-- the same through the accessors of the mesh: `coord` and `mesh[node]` / `getNodesVars` -/
theorem read_output_values_coord (m r : Mesh1 Float Float) (prec n : Nat) (hm : m.Shaped n)
    (hr : r.RowsOk) (hnv : r.nvars = m.nvars) (i : Nat) (hi : i < m.nodes.size) :
    (Fmt.read r (Fmt.output m prec)).coord i = .ok (Fmt.parse (Fmt.fixed m.nodes[i] prec)) := by
  unfold Mesh1.coord
  rw [Mat.aget_eq_ok]
  exact (read_output_values m r prec n hm hr hnv).1 i hi

theorem read_output_values_index (m r : Mesh1 Float Float) (prec n : Nat) (hm : m.Shaped n)
    (hr : r.RowsOk) (hnv : r.nvars = m.nvars) (i : Nat) (hi : i < m.vars.size) :
    ∃ row, (Fmt.read r (Fmt.output m prec)).index i = .ok row ∧
      (Fmt.read r (Fmt.output m prec)).getNodesVars i = .ok row ∧
      row.size = m.vars[i].size ∧
      ∀ j (hj : j < m.vars[i].size), row[j]? = some (Fmt.parse (Fmt.fixed m.vars[i][j] prec)) := by
  obtain ⟨hnv', hs1, hs2, hs3⟩ := read_output_shape m r prec hr hnv
  have hin : i < (Fmt.read r (Fmt.output m prec)).vars.size := by
    rw [hs2, hm.1, ← hm.2.1]; exact hi
  refine ⟨(Fmt.read r (Fmt.output m prec)).vars[i], Mat.aget_ok hin, ?_, ?_, ?_⟩
  · unfold Mesh1.getNodesVars
    rw [if_neg (by rw [hs1, ← hs2]; omega)]
    exact Mat.aget_ok hin
  · rw [hs3 i hin, hnv', hm.2.2 i hi]
  · intro j hj
    have := (read_output_values m r prec n hm hr hnv).2 i j hi hj
    rw [Array.getElem?_eq_getElem hin] at this
    exact this

end Ohsl.Props.C19
